# Per-property configuration for ./check

TRUSTED_BASE = [
    "Coq 8.16.1 kernel (coqc, full .vo build) incl. vm_compute; native_compute not used",
    "hand-written Gallina model in coq/theories (mirrors the Go source function by function)",
    "correspondence: Go harness (/verif/harness, tag verif) + extraction (ExtrOcamlBasic; fast runner additionally "
    "ExtrOcamlZBigInt and Z.land/lor/lxor => Big_int_Z and/or/xor, cross-checked against the plain extraction) + OCaml driver runner/driver.ml",
    "translator harness `dumpconsts` regenerating coq/gen/Consts.v from /repo's own tables",
    "python driver ./check",
]

CORE_TRUSTED = ["math/big, crypto/sha256, encoding/asn1, encoding/json (modelled or used as given; validated differentially)",
                "ECDSA/CBOR verification of signed accumulators enters the model as an observed oracle value"]

PROPS = {
    "C01": {
        "thorough_rounds": 12,
        "suite": "C01", "ref_sample": 2, "trusted": CORE_TRUSTED,
        "assumptions": ["'the reported value was signed' beyond the algebraic facts proved (challenge equation, ranges, index sets, order-shift invariance) rests on the CL03 strong-RSA reduction, cited not mechanised"],
        "partial": ["final step from the verified relation to 'value was signed' is the CL03 unforgeability reduction (not mechanised)"],
    },
    "C02": {
        "thorough_rounds": 15,
        "suite": "C02", "ref_sample": 2, "trusted": CORE_TRUSTED,
        "assumptions": ["SHA-256 collision resistance is not assumed: session_binding concludes equal hash inputs or an explicit collision"],
        "partial": [],
    },
    "C03": {
        "thorough_rounds": 20,
        "suite": "C03", "ref_sample": 2, "trusted": CORE_TRUSTED,
        "assumptions": ["equal secret-key responses under one challenge imply equal secrets by the two-transcript extractor of the Schnorr proof (standard; cited)"],
        "partial": ["extractor argument from equal responses to equal secret values is cited, not mechanised"],
    },
    "C04": {
        "thorough_rounds": 20,
        "suite": "C04", "ref_sample": 3, "trusted": CORE_TRUSTED,
        "assumptions": ["statistical hiding of responses (randomizer Lstatzk bits longer than c*m) is the standard argument, cited"],
        "partial": [],
    },
    "C05": {
        "thorough_rounds": 6,
        "suite": "C05", "ref_sample": 4, "trusted": CORE_TRUSTED + ["big.Int.ProbablyPrime enters the model as an observed oracle value"],
        "assumptions": ["'never verifies against a different block/key' beyond the explicit rejection conditions proved is the strong-RSA argument of CL03 (cited)"],
        "partial": ["unforgeability against different message blocks is the CL03 reduction (not mechanised); primality is relative to the ProbablyPrime oracle"],
    },
    "C06": {
        "thorough_rounds": 3,
        "suite": "C06", "ref_sample": 4, "trusted": CORE_TRUSTED + ["big.Int.ProbablyPrime and Witness.Verify enter the model as observed oracle values"],
        "assumptions": [],
        "partial": ["'altered message => reject' beyond construct_only_if is the hash / strong-RSA argument (cited)"],
    },
    "C07": {
        "thorough_rounds": 10,
        "suite": "C07", "ref_sample": 20,
        "trusted": CORE_TRUSTED + ["randomness is an abstract supply handing out each index once; that crypto/rand and the AES-CTR generator do so is C20.cprng_disjoint + the operating system (not modelled)",
                                   "Go channel send/receive in a select are atomic steps (Go memory model)"],
        "assumptions": ["values drawn at different supply indices are different (injective rnd in extractor_fails): holds except with negligible probability for >= 80-bit randomizers"],
        "partial": ["schedules: the theorem covers every interleaving of the model's atomic channel steps; the real scheduler is exercised by stress runs (2..32 goroutines) through the pairwise oracles, the schedule itself is not observable"],
    },
    "C08": {
        "thorough_rounds": 12,
        "suite": "C08",
        "ref_sample": 4,
        "trusted": CORE_TRUSTED,
        "assumptions": ["public keys are well-formed (wf_pk: modulus > 1, all bases units mod N, at least one base R_0)"],
        "partial": [],
    },
    "C09": {
        "thorough_rounds": 40,
        "suite": "C09", "ref_sample": 20, "trusted": CORE_TRUSTED,
        "assumptions": ["'a revoked witness can never be made valid again' beyond 'Update never returns success with an invalid witness' is the strong-RSA argument of the accumulator papers (cited)"],
        "partial": [],
    },
    "C10": {
        "thorough_rounds": 40,
        "suite": "C10", "ref_sample": 20, "trusted": CORE_TRUSTED + ["go-multihash format (modelled for one-byte code/length), fxamacker/cbor, encoding/json"],
        "assumptions": ["ECDSA signature verification of the accumulator is an oracle"],
        "partial": [],
    },
    "C11": {
        "thorough_rounds": 20,
        "suite": "C11", "ref_sample": 0, "trusted": CORE_TRUSTED,
        "assumptions": ["soundness: the algebraic half of the extractor is proved (two_transcripts_give_representation); that the extracted representation yields (u,e) with u^e = nu, i.e. division of the response differences by c - c', is the strong-RSA argument of Camenisch-Lysyanskaya 2002 (cited)"],
        "partial": ["completeness for honest proofs holds only when exactly one hidden response lies below 2^580 (known finding C11:ambiguous-revocation-index)",
                    "soundness: the step from the extracted representation to an integer witness needs strong RSA (cited, not mechanised)"],
    },
    "C12": {
        "thorough_rounds": 20,
        "suite": "C12", "ref_sample": 2, "trusted": CORE_TRUSTED,
        "assumptions": ["a verified range proof establishes the sum-of-squares relation by the two-transcript extractor (algebraic half proved: two_transcripts_give_representation) + strong RSA / CL03 (cited); the statement-logic theorems take the relation as hypothesis"],
        "partial": ["the step from the extracted group representation to the integer relation is the strong-RSA argument of the package comment (not mechanised)"],
    },
    "C13": {
        "thorough_rounds": 20,
        "suite": "C13", "ref_sample": 2, "trusted": CORE_TRUSTED + ["SumFourSquares output enters the model as an observed value (checked to square-sum to the input)"],
        "assumptions": [],
        "partial": ["existence of a three-square decomposition for every value 2 mod 4 (Legendre) is checked by computation for the table limit, not proved in general"],
    },
    "C14": {
        "thorough_rounds": 20,
        "suite": "C14", "ref_sample": 0, "trusted": CORE_TRUSTED + ["fxamacker/cbor + SHA-256 of the keyshare challenge input enters the model as an observed hash value"],
        "assumptions": [],
        "partial": ["acceptance of the merged proof list for secret = user share + server share is established by replay + oracle over all exchanges (algebraic completeness theorem pending, as for C04)"],
    },
    "C18": {
        "thorough_rounds": 30,
        "suite": "C18", "ref_sample": 40,
        "trusted": ["encoding/xml, encoding/json, encoding/base64, fxamacker/cbor tokenisers (not modelled); the POSIX model of open(2)/fchmod(2) in FilePerm.v (validated on the real file system)"],
        "assumptions": [],
        "partial": ["'a re-read message verifies exactly as the original': proved for integers, key documents and compressed event lists; for proofs and updates it is established by re-verification of re-read messages (oracle); the JSON/CBOR tokenisers are not modelled"],
    },
    "C19": {
        "thorough_rounds": 5,
        "suite": "C19", "ref_sample": 60, "mismatch_is_violation": True,
        "trusted": ["math/big (GCD, Exp, ModInverse, ProbablyPrime, Jacobi used as reference oracle in the harness)"],
        "assumptions": ["ProbablyPrime is an oracle: random primes / safe primes are correct relative to it"],
        "partial": ["Legendre/Jacobi: theorem for odd primes < 400 only (quadratic reciprocity not available); exhaustive comparison with math/big.Jacobi for p < 2^12",
                    "four squares, PrimeSqrt, ModSqrt: not modelled; checked on exhaustive small domains against their defining equations and brute force (exploration, not proof)",
                    "FastMod termination within the iteration budget: finite-domain theorem (p < 130, x < 3000) + correspondence"],
    },
    "C20": {
        "thorough_rounds": 25,
        "suite": "C20", "ref_sample": 20, "race": True,
        "trusted": ["Go memory model: sync/atomic.AddUint64 and channel operations in a select are atomic steps; the Go race detector (happens-before, reports only races that occur in the runs made)",
                    "crypto/aes (keystream recomputed independently by the harness)"],
        "assumptions": ["fewer than 2^64 keystream blocks are drawn in a process lifetime (cprng_wraps shows the bound is needed)"],
        "partial": ["data-race freedom is a property of the Go runtime's memory accesses, which no executable Gallina model exhibits: it is decided by the race detector over the stress runs (exploration over the schedules that occur), not by a theorem",
                    "the theorems cover the logic: block reservation (disjoint, contiguous) and channel hand-off (single consumer) under every interleaving of their atomic steps",
                    "parallel key generation and key-proof construction are exercised under the race detector by suites C16/C17 in the thorough tier"],
    },
    "C16": {
        "thorough_rounds": 6,
        "suite": "C16", "ref_sample": 40, "timeout": 3000,
        "trusted": ["big.Int.ProbablyPrime (safe-prime tests) is an oracle, in the model and in the harness",
                    "Go channel semantics of the worker stop protocol (select picks any ready case; close wakes all receivers); runtime.NumGoroutine as the observation of leftover workers",
                    "crypto/ecdsa via package signed (revocation key pair checked by sign/verify)"],
        "assumptions": ["LegendreSymbol(s,p)=1 coincides with the Euler symbol s^((p-1)/2)=1: theorem for odd primes < 400 and correspondence beyond (C19)"],
        "partial": ["termination of generation is probabilistic (safe primes with the wanted residues keep arriving); proved: once stop is closed every worker finishes (progress measure), checked: goroutine count returns to the baseline",
                    "that S with Euler symbol 1 mod p and q is a square mod n = pq needs the CRT recombination of the two roots (crt_spec in C19); stated per prime factor here"],
    },
    "C17": {
        "thorough_rounds": 1,
        "suite": "C17", "ref_sample": 6, "timeout": 3000,
        "trusted": ["big.Int.ProbablyPrime (group prime, its half, N) enters the model as observed oracle values",
                    "common.ModSqrt / safeprime generation are prover-side helpers used as given (C19)",
                    "FastMod is modelled as Euclidean mod (C19 fastmod_spec); exptable exponentiation of g and h as modular exponentiation",
                    "encoding/json of the proof types (round trip exercised, not modelled)"],
        "assumptions": ["soundness of the Camenisch-Michels primality proof, of the Gennaro-Micciancio-Rabin proofs and of the OR-composition are the cited papers' arguments (error probabilities 2^-80 etc.); not mechanised"],
        "partial": ["'rejects bad moduli whatever responses a prover supplies' is a probabilistic soundness statement of the cited papers; mechanised are the algebraic facts (completeness of every representation / pedersen / range round, determinism of the verifier, binding of modulus and bases through the hash, explicit rejection conditions); cheating provers are explored by the suite"],
    },
    "C15": {
        "thorough_rounds": 5,
        "suite": "C15",
        "mismatch_is_violation": True,   # the Coq definition is the property's reference
        "trusted": ["crypto/sha256, encoding/asn1, math/big (modelled concretely in Sha256.v/Der.v/Bytes.v; validated differentially)"],
        "assumptions": ["SHA-256 collision resistance is NOT assumed: 'differs' theorems conclude equality of inputs or an explicit collision"],
        "partial": [],
    },
}
