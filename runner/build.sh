#!/bin/sh
# builds runner/fast/model_fast (zarith-backed extraction) and runner/ref/model_ref (plain)
set -e
cd "$(dirname "$0")"
COQ=../coq
for kind in fast ref; do
  mkdir -p $kind
  if [ $kind = fast ]; then ex=ExtractFast.v; else ex=Extract.v; fi
  ( cd $kind && coqc -Q ../$COQ/theories Gabi -Q ../$COQ/gen GabiGen ../$COQ/extract/$ex >/dev/null \
    && rm -f ../$COQ/extract/*.vo ../$COQ/extract/*.glob ../$COQ/extract/.*.aux ../$COQ/extract/*.vok ../$COQ/extract/*.vos \
    && cp ../conv_$kind.ml conv.ml && cp ../driver.ml driver.ml && cp ../zhelp.ml zhelp.ml \
    && ocamlfind ocamlopt -O3 -w -a -package zarith -linkpkg zhelp.ml model.mli model.ml conv.ml driver.ml -o model_$kind 2>/dev/null \
    || ocamlfind ocamlopt -w -a -package zarith -linkpkg zhelp.ml model.mli model.ml conv.ml driver.ml -o model_$kind )
done
