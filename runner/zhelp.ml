(* helper for the fast runner: Coq's ModArith.powx (= Zpow_mod a e n) on top of GMP's powm *)
let powx (n : Z.t) (a : Z.t) (e : Z.t) : Z.t =
  if Z.sign e < 0 then Z.zero
  else if Z.sign n > 0 then Z.powm a e n
  else if Z.sign n < 0 then (let r = Z.powm a e (Z.neg n) in if Z.sign r = 0 then r else Z.add r n)
  else if Z.sign e = 0 then Z.one
  else if Z.numbits e <= 16 then Z.pow a (Z.to_int e)
  else failwith "powx: modulus 0 with a huge exponent"

(* Sha256.sha256_words on native integers (the Coq definition works on Z words); input: byte values *)
let sha256_k = [|
  0x428a2f98; 0x71374491; 0xb5c0fbcf; 0xe9b5dba5; 0x3956c25b; 0x59f111f1; 0x923f82a4; 0xab1c5ed5;
  0xd807aa98; 0x12835b01; 0x243185be; 0x550c7dc3; 0x72be5d74; 0x80deb1fe; 0x9bdc06a7; 0xc19bf174;
  0xe49b69c1; 0xefbe4786; 0x0fc19dc6; 0x240ca1cc; 0x2de92c6f; 0x4a7484aa; 0x5cb0a9dc; 0x76f988da;
  0x983e5152; 0xa831c66d; 0xb00327c8; 0xbf597fc7; 0xc6e00bf3; 0xd5a79147; 0x06ca6351; 0x14292967;
  0x27b70a85; 0x2e1b2138; 0x4d2c6dfc; 0x53380d13; 0x650a7354; 0x766a0abb; 0x81c2c92e; 0x92722c85;
  0xa2bfe8a1; 0xa81a664b; 0xc24b8b70; 0xc76c51a3; 0xd192e819; 0xd6990624; 0xf40e3585; 0x106aa070;
  0x19a4c116; 0x1e376c08; 0x2748774c; 0x34b0bcb5; 0x391c0cb3; 0x4ed8aa4a; 0x5b9cca4f; 0x682e6ff3;
  0x748f82ee; 0x78a5636f; 0x84c87814; 0x8cc70208; 0x90befffa; 0xa4506ceb; 0xbef9a3f7; 0xc67178f2 |]

let sha256_words (msg : Z.t list) : Z.t list =
  let m32 = 0xFFFFFFFF in
  let n = List.length msg in
  let padlen = let r = (n + 9) mod 64 in if r = 0 then n + 9 else n + 9 + (64 - r) in
  let b = Bytes.make padlen '\000' in
  List.iteri (fun i z ->
      let v = Z.to_int z in
      if v < 0 || v > 255 then failwith "sha256: not a byte";
      Bytes.set b i (Char.chr v)) msg;
  Bytes.set b n '\128';
  let bits = n * 8 in
  for i = 0 to 7 do
    Bytes.set b (padlen - 1 - i) (Char.chr ((bits lsr (8 * i)) land 255))
  done;
  let h = [| 0x6a09e667; 0xbb67ae85; 0x3c6ef372; 0xa54ff53a; 0x510e527f; 0x9b05688c; 0x1f83d9ab; 0x5be0cd19 |] in
  let w = Array.make 64 0 in
  let rotr x k = ((x lsr k) lor (x lsl (32 - k))) land m32 in
  for blk = 0 to padlen / 64 - 1 do
    for t = 0 to 15 do
      let o = blk * 64 + t * 4 in
      w.(t) <- (Char.code (Bytes.get b o) lsl 24) lor (Char.code (Bytes.get b (o + 1)) lsl 16)
               lor (Char.code (Bytes.get b (o + 2)) lsl 8) lor Char.code (Bytes.get b (o + 3))
    done;
    for t = 16 to 63 do
      let s0 = rotr w.(t - 15) 7 lxor rotr w.(t - 15) 18 lxor (w.(t - 15) lsr 3) in
      let s1 = rotr w.(t - 2) 17 lxor rotr w.(t - 2) 19 lxor (w.(t - 2) lsr 10) in
      w.(t) <- (w.(t - 16) + s0 + w.(t - 7) + s1) land m32
    done;
    let a = ref h.(0) and bb = ref h.(1) and c = ref h.(2) and d = ref h.(3)
    and e = ref h.(4) and f = ref h.(5) and g = ref h.(6) and hh = ref h.(7) in
    for t = 0 to 63 do
      let s1 = rotr !e 6 lxor rotr !e 11 lxor rotr !e 25 in
      let ch = (!e land !f) lxor ((lnot !e) land m32 land !g) in
      let t1 = (!hh + s1 + ch + sha256_k.(t) + w.(t)) land m32 in
      let s0 = rotr !a 2 lxor rotr !a 13 lxor rotr !a 22 in
      let maj = (!a land !bb) lxor (!a land !c) lxor (!bb land !c) in
      let t2 = (s0 + maj) land m32 in
      hh := !g; g := !f; f := !e; e := (!d + t1) land m32;
      d := !c; c := !bb; bb := !a; a := (t1 + t2) land m32
    done;
    h.(0) <- (h.(0) + !a) land m32; h.(1) <- (h.(1) + !bb) land m32;
    h.(2) <- (h.(2) + !c) land m32; h.(3) <- (h.(3) + !d) land m32;
    h.(4) <- (h.(4) + !e) land m32; h.(5) <- (h.(5) + !f) land m32;
    h.(6) <- (h.(6) + !g) land m32; h.(7) <- (h.(7) + !hh) land m32
  done;
  Array.to_list (Array.map Z.of_int h)

(* ModArith.bitlen: number of bits of |z| *)
let bitlen (z : Z.t) : Z.t = Z.of_int (Z.numbits z)

(* Bytes.be_bytes: big-endian magnitude bytes, no leading zero, [] for 0 *)
let be_bytes (z : Z.t) : Z.t list =
  let a = Z.abs z in
  let rec go a acc = if Z.sign a = 0 then acc else go (Z.shift_right a 8) (Z.logand a (Z.of_int 255) :: acc) in
  go a []
