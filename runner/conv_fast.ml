let of_string (s : string) : Big_int_Z.big_int = Big_int_Z.big_int_of_string s
let to_string (z : Big_int_Z.big_int) : string = Big_int_Z.string_of_big_int z
