(* Generic driver: each input line is "<fn>\t<val>"; prints the model's result val.
   Val text syntax: decimal integers, "_" for nil, "( ... )" for lists. *)
open Model

let rec print_val buf (v : val0) =
  match v with
  | VZ z -> Buffer.add_string buf (Conv.to_string z)
  | VN -> Buffer.add_char buf '_'
  | VL l ->
    Buffer.add_char buf '(';
    List.iteri (fun i x -> if i > 0 then Buffer.add_char buf ' '; print_val buf x) l;
    Buffer.add_char buf ')'

let parse s : val0 =
  let n = String.length s in
  let pos = ref 0 in
  let rec skip () = if !pos < n && s.[!pos] = ' ' then (incr pos; skip ()) in
  let rec value () =
    skip ();
    if !pos >= n then failwith "eof"
    else match s.[!pos] with
      | '(' -> incr pos; VL (items [])
      | '_' -> incr pos; VN
      | _ ->
        let st = !pos in
        while !pos < n && s.[!pos] <> ' ' && s.[!pos] <> ')' && s.[!pos] <> '(' do incr pos done;
        VZ (Conv.of_string (String.sub s st (!pos - st)))
  and items acc =
    skip ();
    if !pos >= n then failwith "eof in list"
    else if s.[!pos] = ')' then (incr pos; List.rev acc)
    else let v = value () in items (v :: acc)
  in
  value ()

let () =
  let buf = Buffer.create 65536 in
  (try
     while true do
       let line = input_line stdin in
       match String.index_opt line '\t' with
       | None -> print_endline "!badline"
       | Some i ->
         let fn = String.sub line 0 i in
         let arg = String.sub line (i + 1) (String.length line - i - 1) in
         Buffer.clear buf;
         (try print_val buf (dispatch (Conv.of_string fn) (parse arg))
          with e -> Buffer.add_string buf ("!exn " ^ Printexc.to_string e));
         print_endline (Buffer.contents buf)
     done
   with End_of_file -> ())
