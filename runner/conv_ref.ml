(* conversion between decimal text and Coq's own binary Z datatype (plain extraction) *)
module ZZ = Z
open Model
let rec pos_of_zt (z : ZZ.t) : positive =
  if ZZ.equal z ZZ.one then XH
  else if ZZ.is_even z then XO (pos_of_zt (ZZ.shift_right z 1))
  else XI (pos_of_zt (ZZ.shift_right z 1))
let of_string s : z =
  let v = ZZ.of_string s in
  if ZZ.sign v = 0 then Z0 else if ZZ.sign v > 0 then Zpos (pos_of_zt v) else Zneg (pos_of_zt (ZZ.neg v))
let rec zt_of_pos (p : positive) : ZZ.t =
  match p with
  | XH -> ZZ.one
  | XO q -> ZZ.shift_left (zt_of_pos q) 1
  | XI q -> ZZ.succ (ZZ.shift_left (zt_of_pos q) 1)
let to_string (z : z) =
  match z with
  | Z0 -> "0"
  | Zpos p -> ZZ.to_string (zt_of_pos p)
  | Zneg p -> ZZ.to_string (ZZ.neg (zt_of_pos p))
