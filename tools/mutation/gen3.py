#!/usr/bin/env python3
# boundary mutants: strictness of comparisons flipped (one occurrence per mutant)
import re,sys,os,json
repo=sys.argv[1]; out=sys.argv[2]; files=sys.argv[3:]
os.makedirs(out,exist_ok=True)
n=0; index=[]
pats=[(r'\) < 0',') <= 0'),(r'\) <= 0',') < 0'),(r'\) > 0',') >= 0'),(r'\) >= 0',') > 0'),
      (r'BitLen\(\) > ','BitLen() >= '),(r'BitLen\(\) < ','BitLen() <= '),(r'BitLen\(\) >= ','BitLen() > ')]
for f in files:
    src=open(os.path.join(repo,f)).read().split("\n")
    for i,l in enumerate(src):
        if l.strip().startswith("//"): continue
        for pat,rep in pats:
            for m in re.finditer(pat,l):
                new=l[:m.start()]+rep+l[m.end():]
                mut=src[:]; mut[i]=new
                n+=1; name=f"b{n:03d}"
                open(os.path.join(out,name+".go"),"w").write("\n".join(mut))
                index.append({"name":name,"file":f,"line":i+1,"orig":l.strip(),"new":new.strip()})
json.dump(index,open(os.path.join(out,"index.json"),"w"),indent=1)
print(n,"mutants")
