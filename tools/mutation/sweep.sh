#!/bin/bash
# usage: sweep.sh <k> <mutant names...>  : sandbox /tmp/v<k> against /tmp/r<k>
k=$1; shift
V=/tmp/v$k; R=/tmp/r$k
export VERIF_REPO=$R GOFLAGS=-mod=mod GOPROXY=off GOTOOLCHAIN=local PATH=/root/go/pkg/mod/golang.org/toolchain@v0.0.1-go1.26.4.linux-amd64/bin:$PATH
cd $V
for m in "$@"; do
  f=$(python3 -c "
import json
for x in json.load(open('/tmp/mut/guards/index.json')):
    if x['name']=='$m': print(x['file'])")
  cp /tmp/mut/guards/$m.go $R/$f
  if ! (cd $R && go build ./... && go build -tags verif ./... ) >/tmp/mut/build_$m.log 2>&1; then echo "$m $f BUILDFAIL" >> /tmp/mut/results_$k.txt; git -C $R checkout -- .; continue; fi
  case $f in
    clsignature.go) props="C05 C06";;
    proofs.go|prooflist.go) props="C01 C02 C03 C06 C08 C11 C12 C14";;
    rangeproof/*) props="C12 C13 C08";;
    revocation/*) props="C09 C10 C11 C18";;
    keyproof/*) props="C17";;
    zkproof/*) props="C17 C11 C12";;
  esac
  res=""
  for p in $props; do
    timeout 3000 ./check run $p > /tmp/mut/log_${m}_$p.log 2>&1; rc=$?
    tail=$(grep -h "VIOLATION" /tmp/mut/log_${m}_$p.log | head -1 | sed 's/.*replay=[^ ]*//')
    res="$res $p=$rc$( [ -n "$tail" ] && echo "(nfi)" )"
  done
  echo "$m $f $res" >> /tmp/mut/results_$k.txt
  git -C $R checkout -- .
done
echo SWEEPDONE >> /tmp/mut/results_$k.txt
