#!/usr/bin/env python3
# "error ignored" mutants: if COND { return <something with err / error> }  ->  if false && (COND) {...}
import re,sys,os,json
repo=sys.argv[1]; out=sys.argv[2]; files=sys.argv[3:]
os.makedirs(out,exist_ok=True)
n=0; index=[]
for f in files:
    src=open(os.path.join(repo,f)).read().split("\n")
    for i,l in enumerate(src):
        m=re.match(r'^(\s*)(\}\s*else\s+)?if (.*) \{\s*$', l)
        if not m or i+1>=len(src): continue
        nxt=src[i+1].strip()
        if not (nxt.startswith("return") and ("err" in nxt or "Err" in nxt or "errors." in nxt)): continue
        cond=m.group(3); init=""
        if ";" in cond:
            k=cond.rfind(";"); init=cond[:k+1]+" "; cond=cond[k+1:].strip()
        new=f"{m.group(1)}{m.group(2) or ''}if {init}false && ({cond}) {{"
        mut=src[:]; mut[i]=new
        n+=1; name=f"e{n:03d}"
        open(os.path.join(out,name+".go"),"w").write("\n".join(mut))
        index.append({"name":name,"file":f,"line":i+1,"orig":l.strip(),"ret":nxt})
json.dump(index,open(os.path.join(out,"index.json"),"w"),indent=1)
print(n,"mutants")
