package main

import (
	"bytes"
	"encoding/json"
	"fmt"
	"sort"

	"github.com/privacybydesign/gabi"
	gbig "github.com/privacybydesign/gabi/big"
	"github.com/privacybydesign/gabi/gabikeys"
)

func init() { suites["C04"] = suiteC04 }

func dumpProofDMain(p *gabi.ProofD) V {
	return L{p.C, p.A, p.EResponse, p.VResponse, dumpIntMap(p.AResponses), dumpIntMap(p.ADisclosed)}
}

func subsetOf(mask, n int) []int {
	r := []int{}
	for i := 1; i <= n; i++ {
		if mask&(1<<(i-1)) != 0 {
			r = append(r, i)
		}
	}
	return r
}

func suiteC04(s *Suite, rng *Rng, tier string) {
	useRng(rng)
	keys := []*KeyPair{makeKey(128, 0, 7, rng, false), makeKey(256, 0, 7, rng, false), makeKey(1024, 0, 7, rng, false)}
	if tier == "thorough" {
		keys = append(keys, makeKey(2048, 0, 7, rng, false))
	}
	maxK := 4
	if tier == "thorough" {
		maxK = 6
	}
	smallLeft := 3
	// getUndisclosedAttributes over all subsets incl. index 0 and repeated entries
	for n := 1; n <= 7; n++ {
		for mask := 0; mask < 1<<n; mask++ {
			d := []int{}
			for i := 0; i < n; i++ {
				if mask&(1<<i) != 0 {
					d = append(d, i)
					if rng.Intn(5) == 0 {
						d = append(d, i)
					}
				}
			}
			if n > 5 && rng.Intn(4) != 0 && tier != "thorough" {
				continue
			}
			s.Add(402, "undisclosed", n <= 3, L{d, n}, okV(gabi.VerifGetUndisclosedAttributes(d, n)))
		}
	}
	// completeness at the size limits of every supported parameter set: a prover whose randomizers have the full length the
	// key's parameters allow (as the keyshare server's randomizer has under a 2048-bit key) still gets its proof accepted
	for _, kp := range append(append([]*KeyPair{}, keys...), makeKey(2048, 0, 7, rng, false)) {
		if kp.Bits < 1024 {
			continue
		}
		cred := makeCredential(kp, newSecret(rng), 3, rng)
		for _, disclosed := range [][]int{{}, {2}, {1, 3}} {
			b, err := cred.CreateDisclosureProofBuilder(disclosed, nil, false)
			if err != nil {
				panic(err)
			}
			big0 := rng.Bits(int(kp.Pk.Params.LmCommit))
			big0.SetBit(big0, int(kp.Pk.Params.LmCommit)-1, 1)
			list, err := b.Commit(map[string]*gbig.Int{"secretkey": big0})
			if err != nil {
				panic(err)
			}
			ctx, nonce := rng.Bits(200), rng.Bits(80)
			c := gabi.VerifCreateChallenge(ctx, nonce, list, false)
			p := b.CreateProof(c).(*gabi.ProofD)
			_, acc, _ := verifyCase(s, fmt.Sprintf("%d:full-length-secret-randomizer", kp.Bits), false, []*gabikeys.PublicKey{kp.Pk}, ctx, nonce, false, nil, gabi.ProofList{p})
			s.Nontrivial[fmt.Sprint("fullrand", kp.Bits, disclosed)] = true
			if !acc {
				s.Violate("C04:honest-proof-rejected-at-size-limit", fmt.Sprintf("%d-bit key: a proof whose secret-key randomizer has the full %d bits the parameters allow is rejected", kp.Bits, kp.Pk.Params.LmCommit), L{kp.Bits, disclosed})
			}
		}
	}
	for _, kp := range keys {
		for k := 1; k <= maxK; k++ {
			if kp.Bits >= 1024 && k > 3 && tier != "thorough" {
				continue
			}
			secret := newSecret(rng)
			cred := makeCredential(kp, secret, k, rng)
			for mask := 0; mask < 1<<k; mask++ {
				for _, issig := range []bool{false, true} {
					if kp.Bits >= 1024 && issig && tier != "thorough" {
						continue
					}
					disclosed := subsetOf(mask, k)
					ctx, nonce := rng.Bits(200), rng.Bits(80)
					b, err := cred.CreateDisclosureProofBuilder(disclosed, nil, false)
					if err != nil {
						panic(err)
					}
					rsig, eC, vC, _, und := b.VerifState()
					// the builder's randomisation r of the signature: v' = v - e r
					r := new(gbig.Int).Sub(cred.Signature.V, rsig.V)
					r.Div(r, cred.Signature.E)
					randomizers, err := gabi.NewProofRandomizers()
					if err != nil {
						panic(err)
					}
					contrib, err := b.Commit(randomizers)
					if err != nil {
						panic(err)
					}
					_, _, _, ar, _ := b.VerifState()
					rands := L{}
					for _, i := range und {
						rands = append(rands, ar[i])
					}
					c := gabi.VerifCreateChallenge(ctx, nonce, contrib, issig)
					proof := b.CreateProof(c).(*gabi.ProofD)
					small := kp.Bits == 128 && smallLeft > 0 && k <= 2
					if small {
						smallLeft--
					}
					in := L{dumpPk(kp.Pk), dumpSig(cred.Signature), dumpBigs(cred.Attributes), disclosed, r, eC, vC, rands,
						randomizers["secretkey"], ctx, nonce, issig}
					s.Add(401, fmt.Sprintf("%d:disclose:k%d", kp.Bits, k), small, in, okV(L{dumpBigs(contrib), dumpProofDMain(proof)}))
					s.Nontrivial[fmt.Sprint(kp.Bits, k, mask, issig)] = true
					// timestamp contribution
					ta, tl := b.TimestampRequestContributions()
					s.Add(403, "timestamp", small, L{dumpSig(rsig), dumpBigs(cred.Attributes), disclosed}, L{ta, dumpBigs(tl)})
					// --- oracles on the implementation ---
					desc := L{fmt.Sprint("bits=", kp.Bits, " k=", k, " disclosed=", disclosed, " sig=", issig), dumpBigs(cred.Attributes)}
					if !(gabi.ProofList{cloneProofD(proof)}).Verify([]*gabikeys.PublicKey{kp.Pk}, ctx, nonce, issig, nil) {
						s.Violate("C04:honest-proof-rejected", "holder-built disclosure proof does not verify", desc)
					}
					// exactly the chosen indices with their true values
					got := []int{}
					for i, v := range proof.ADisclosed {
						got = append(got, i)
						if v.Cmp(cred.Attributes[i]) != 0 {
							s.Violate("C04:wrong-disclosed-value", fmt.Sprint("index ", i), desc)
						}
					}
					sort.Ints(got)
					if fmt.Sprint(got) != fmt.Sprint(disclosed) {
						s.Violate("C04:wrong-disclosed-set", fmt.Sprint("reported ", got, " chosen ", disclosed), desc)
					}
					for i := 0; i <= k; i++ {
						_, isD := proof.ADisclosed[i]
						_, isH := proof.AResponses[i]
						if isD == isH {
							s.Violate("C04:index-not-partitioned", fmt.Sprint("index ", i), desc)
						}
					}
					// hidden values must not occur in the proof or the timestamp contribution
					js, _ := json.Marshal(proof)
					for i := 1; i <= k; i++ {
						if _, isD := proof.ADisclosed[i]; isD {
							continue
						}
						m := cred.Attributes[i]
						if tl[i].Sign() != 0 {
							s.Violate("C04:hidden-value-in-timestamp", fmt.Sprint("index ", i), desc)
						}
						if m.BitLen() < 64 {
							continue // short values occur by chance as substrings
						}
						same := false
						for _, dv := range proof.ADisclosed {
							if dv.Cmp(m) == 0 {
								same = true // the same value was legitimately disclosed at another index
							}
						}
						if same {
							continue
						}
						enc, _ := m.MarshalText()
						if bytes.Contains(js, enc) {
							s.Violate("C04:hidden-value-in-proof", fmt.Sprint("index ", i), desc)
						}
					}
				}
			}
		}
	}
	s.Notes["exhaustive"] = true
	s.Notes["rule"] = fmt.Sprintf("exhaustively all 2^k disclosure subsets for k=1..%d attributes (values 0, 1, 2^Lm-1, 2^Lm, oversized, random), "+
		"disclosure and signature sessions, keys of 128/256/1024 bits (+2048 and k<=6 in thorough); the model recomputes contributions and "+
		"proof from the randomness the builder drew; getUndisclosedAttributes on all subsets of 1..7 incl. repeats; distinct by (key,k,subset,flag)", maxK)
}
