package main

import (
	"fmt"

	"github.com/privacybydesign/gabi"
	gbig "github.com/privacybydesign/gabi/big"
)

func init() { suites["C15"] = suiteC15 }

// boundary integers for DER: sign, leading 0x80, short/long length forms
func c15Entry(rng *Rng, big bool) (*gbig.Int, string) {
	k := rng.Intn(20)
	byteLens := []int{126, 127, 128, 129, 255, 256, 257}
	switch {
	case k == 0:
		return bi(0), "zero"
	case k == 1:
		return bi(int64(rng.Intn(3)) - 1), "pm1"
	case k == 2:
		v := []int64{127, 128, 255, 256, -128, -129, -127, -255, -256, -257, 32767, 32768, -32768, -32769}
		return bi(v[rng.Intn(len(v))]), "smallboundary"
	case k == 3:
		// leading 0x80 byte, random length
		n := 1 + rng.Intn(40)
		x := rng.Bits(8 * n)
		x.SetBit(x, 8*n-1, 1)
		return x, "lead80"
	case k == 4:
		// exactly -2^(8n-1): minimal negative with no extra byte
		n := 1 + rng.Intn(40)
		x := pow2(uint(8*n - 1))
		return x.Neg(x), "negpow"
	case k == 5:
		n := 1 + rng.Intn(40)
		x := pow2(uint(8*n - 1))
		x.Add(x, bi(1))
		return x.Neg(x), "negpow1"
	case k == 6 || k == 7:
		n := byteLens[rng.Intn(len(byteLens))]
		x := rng.Bits(8 * n)
		x.SetBit(x, 8*n-1-rng.Intn(2), 1)
		if rng.Bool() {
			x.Neg(x)
		}
		return x, fmt.Sprintf("bytelen%d", n)
	case k == 8 && big:
		n := []int{65535, 65536, 65537}[rng.Intn(3)]
		x := rng.Bits(8 * n)
		x.SetBit(x, 8*n-1-rng.Intn(2), 1)
		return x, "bytelen64k"
	case k < 11:
		x := rng.Bits(1 + rng.Intn(5000))
		if rng.Intn(4) == 0 {
			x.Neg(x)
		}
		return x, "random5000"
	default:
		x := rng.Bits(1 + rng.Intn(300))
		if rng.Intn(4) == 0 {
			x.Neg(x)
		}
		return x, "random300"
	}
}

func suiteC15(s *Suite, rng *Rng, tier string) {
	nLists, nSmall := 1500, 300
	if tier == "thorough" {
		nLists, nSmall = 40000, 900
	}
	// HashCommit
	for i := 0; i < nLists; i++ {
		var n int
		switch rng.Intn(6) {
		case 0:
			n = rng.Intn(3)
		case 1:
			n = 126 + rng.Intn(5) // count crosses 127/128
		case 2:
			if i%10 == 0 {
				n = rng.Intn(301)
			} else {
				n = rng.Intn(40)
			}
		default:
			n = rng.Intn(12)
		}
		small := i < nSmall
		if small && n > 8 {
			n = n % 9
		}
		vals := make([]*gbig.Int, n)
		kind := "hc"
		total := 0
		for j := range vals {
			var k string
			vals[j], k = c15Entry(rng, tier == "thorough" && !small && n < 4)
			if small && vals[j].BitLen() > 2100 {
				vals[j] = rng.Bits(300)
			}
			total += vals[j].BitLen() / 8
			if j == 0 {
				kind = "hc:" + k
			}
		}
		issig := rng.Bool()
		out := gabi.VerifHashCommit(vals, issig)
		s.Add(1501, kind, small && total < 2000, L{issig, vals}, out)
		if n > 0 {
			s.Nontrivial[S(L{issig, vals})] = true
		}
	}
	// createChallenge
	for i := 0; i < nLists/5; i++ {
		n := rng.Intn(8)
		cs := make([]*gbig.Int, n)
		for j := range cs {
			cs[j] = rng.Bits(1 + rng.Intn(2100))
		}
		ctx, nonce := rng.Bits(1+rng.Intn(256)), rng.Bits(1+rng.Intn(128))
		switch i % 8 {
		case 1:
			ctx = bi(0) // the boundary values of context and nonce are hashed like any other value
		case 2:
			ctx = bi(1)
		case 3:
			nonce = bi(0)
		case 4:
			ctx, nonce = bi(0), bi(0)
		}
		issig := rng.Bool()
		out := gabi.VerifCreateChallenge(ctx, nonce, cs, issig)
		s.Add(1504, "challenge", i < 40, L{ctx, nonce, cs, issig}, out)
		s.Nontrivial[S(L{ctx, nonce, cs, issig})] = true
	}
	// GetHashNumber: all combinations of the listed parameters
	idxs := []int{0, 1, 79, 249, 1<<31 - 1}
	bls := []uint{0, 1, 255, 256, 257, 511, 512, 1024, 2048, 4096}
	for rep := 0; rep < 3; rep++ {
		for _, an := range []bool{false, true} {
			for _, bn := range []bool{false, true} {
				for _, idx := range idxs {
					for _, bl := range bls {
						var a, b *gbig.Int
						if !an {
							a = rng.Bits(1 + rng.Intn(1100))
						}
						if !bn {
							b = rng.Bits(1 + rng.Intn(1100))
						}
						out := gabi.VerifGetHashNumber(a, b, idx, bl)
						s.Add(1502, "ghn", rep == 0 && bl <= 512, L{a, b, idx, bl}, out)
						if bl > 0 {
							s.Nontrivial[S(L{a, b, idx, bl})] = true
						}
					}
				}
			}
		}
	}
	// IntHashSha256 hashes the bytes as given: leading zero bytes count
	for _, b := range [][]byte{{}, {0}, {0, 0}, {1}, {0, 1}, {0, 0, 1}, {1, 0}, {0, 1, 0}, make([]byte, 32), make([]byte, 64), append([]byte{0}, []byte("abc")...), []byte("abc")} {
		s.Add(1503, fmt.Sprintf("sha:leading-zeros:%d", len(b)), true, b, gabi.VerifIntHashSha256(b))
	}
	for rep := 0; rep < 8; rep++ {
		b := make([]byte, 1+rng.Intn(70))
		rng.Read(b)
		for z := 0; z < 1+rng.Intn(3) && z < len(b); z++ {
			b[z] = 0
		}
		s.Add(1503, "sha:leading-zeros:random", rep < 2, b, gabi.VerifIntHashSha256(b))
	}
	// IntHashSha256 over padding boundaries
	lens := []int{0, 1, 55, 56, 57, 63, 64, 65, 119, 120, 121, 127, 128, 129, 1000}
	for rep := 0; rep < 4; rep++ {
		for _, n := range lens {
			b := make([]byte, n)
			rng.Read(b)
			out := gabi.VerifIntHashSha256(b)
			s.Add(1503, fmt.Sprintf("sha:%d", n), rep == 0 && n < 200, b, out)
			s.Nontrivial[S(b)] = true
		}
	}
	// the challenge as the verifying entry points compute it: whole lists and single proofs, both session kinds (the marker of
	// a signature session is part of what is hashed, whichever entry point is used)
	{
		kp := makeKey(128, 0, 4, rng, false)
		for _, issig := range []bool{false, true} {
			sess := buildSession([]builderSpec{{kind: "disclose", key: kp, secret: newSecret(rng), nattr: 3}}, rng, issig)
			for _, flag := range []bool{false, true} {
				_, acc, _ := verifyCase(s, fmt.Sprintf("entry-points:made-for-sig=%v:verified-as-sig=%v", issig, flag), false, sess.Pks, sess.Context, sess.Nonce, flag, nil, cloneList(sess.List))
				if acc != (flag == issig) {
					s.Violate("C15:session-marker-not-hashed", fmt.Sprintf("a proof made with signature flag %v verified as %v: accepted=%v", issig, flag, acc), L{issig, flag})
				}
			}
		}
	}
	s.Notes["rule"] = "HashCommit lists (len 0..300, entries from DER boundary classes: sign, leading 0x80, " +
		"-2^(8n-1), byte lengths 126..257 and 64k in thorough), createChallenge, GetHashNumber over " +
		"{a,b nil/non-nil} x index x bitlen, IntHashSha256 over padding-boundary lengths; " +
		"non-trivial = non-empty list / bitlen>0 / any byte string; distinct by full input"
}
