package main

import (
	"fmt"
	"sync"

	"github.com/privacybydesign/gabi"
	gbig "github.com/privacybydesign/gabi/big"
	"github.com/privacybydesign/gabi/gabikeys"
	"github.com/privacybydesign/gabi/rangeproof"
	"github.com/privacybydesign/gabi/revocation"
)

func init() { suites["C07"] = suiteC07 }

// lockedReader lets several goroutines draw from the single harness PRNG.
type lockedReader struct {
	mu  sync.Mutex
	rng *Rng
}

func (l *lockedReader) Read(p []byte) (int, error) {
	l.mu.Lock()
	defer l.mu.Unlock()
	return l.rng.Read(p)
}

// one response of a proof together with the ground truth the harness knows
type tEntry struct {
	label  string    // identity of the hidden value
	resp   *gbig.Int // s = r + c*m
	secret *gbig.Int // m
}

type transcript struct {
	session int // proofs of one list share a challenge and, by design, the secret-key randomizer
	desc    string
	c       *gbig.Int
	entries []tEntry
	fresh   []*gbig.Int // further per-proof random values that must not repeat (r2, r3 of the non-revocation proof)
	aPrime  *gbig.Int
	cr, cu  *gbig.Int
	rangeCs []*gbig.Int
	builder *gabi.NonRevocationProofBuilder
}

type c07cred struct {
	cred    *gabi.Credential
	id      int
	initIdx uint64
	// model trace of this credential (sequential histories only)
	ops     L
	obs     L
	ids     map[*gabi.NonRevocationProofBuilder]int
	tracing bool
}

func (cc *c07cred) builderId(b *gabi.NonRevocationProofBuilder) int {
	if id, ok := cc.ids[b]; ok {
		return id
	}
	id := len(cc.ids)
	cc.ids[b] = id
	return id
}

func (cc *c07cred) observe(op V, used *gabi.NonRevocationProofBuilder) {
	if !cc.tracing {
		return
	}
	var cached, usedV V
	if used != nil {
		_, _, _, idx := used.VerifState()
		usedV = L{cc.builderId(used), idx - cc.initIdx}
	}
	if pb := cc.cred.VerifPeekNonrevCache(); pb != nil {
		_, _, _, idx := pb.VerifState()
		cached = L{cc.builderId(pb), idx - cc.initIdx}
	}
	cc.ops = append(cc.ops, op)
	cc.obs = append(cc.obs, L{cached, usedV})
}

// collect everything the oracles need from a disclosure proof and the builder that made it
func transcriptD(session int, desc string, b *gabi.DisclosureProofBuilder, p *gabi.ProofD, cred *gabi.Credential, credId int) *transcript {
	t := &transcript{session: session, desc: desc, c: p.C, aPrime: p.A}
	sig, _, _, _, undisclosed := b.VerifState()
	for _, i := range undisclosed {
		label := fmt.Sprintf("cred%d.attr%d", credId, i)
		if i == 0 {
			label = "secret-key"
		}
		t.entries = append(t.entries, tEntry{label, p.AResponses[i], cred.Attributes[i]})
	}
	ePrime := new(gbig.Int).Sub(sig.E, pow2(cred.Pk.Params.Le-1))
	t.entries = append(t.entries, tEntry{fmt.Sprintf("cred%d.e", credId), p.EResponse, ePrime})
	t.entries = append(t.entries, tEntry{fmt.Sprintf("cred%d.v", credId), p.VResponse, sig.V})
	if nb := b.VerifNonrevBuilder(); nb != nil && p.NonRevocationProof != nil {
		t.builder = nb
		commit, _, _, _ := nb.VerifState()
		_, _, _, secrets, _, _ := commit.VerifState()
		full := commit.BuildProof(p.C)
		for _, n := range nrOrder {
			if n == "alpha" {
				continue // alpha is the revocation attribute: its response is AResponses[revIdx], covered above
			}
			t.entries = append(t.entries, tEntry{fmt.Sprintf("cred%d.nonrev.%s", credId, n), full.Responses[n], secrets[n]})
		}
		t.fresh = append(t.fresh, secrets["epsilon"], secrets["zeta"])
		t.cr, t.cu = p.NonRevocationProof.Cr, p.NonRevocationProof.Cu
	}
	for idx, commits := range b.VerifRangeCommits() {
		for k, rc := range commits {
			d, _, v, _, v5, _, _, _, _ := rc.VerifState()
			rp := p.RangeProofs[idx][k]
			for j := range d {
				t.entries = append(t.entries, tEntry{fmt.Sprintf("cred%d.range%d.%d.d%d", credId, idx, k, j), rp.DResponses[j], d[j]})
				t.entries = append(t.entries, tEntry{fmt.Sprintf("cred%d.range%d.%d.v%d", credId, idx, k, j), rp.VResponses[j], v[j]})
			}
			t.entries = append(t.entries, tEntry{fmt.Sprintf("cred%d.range%d.%d.v5", credId, idx, k), rp.V5Response, v5})
			t.rangeCs = append(t.rangeCs, rp.Cs...)
		}
	}
	return t
}

func transcriptU(session int, desc string, b *gabi.CredentialBuilder, p *gabi.ProofU) *transcript {
	t := &transcript{session: session, desc: desc, c: p.C}
	secret, vPrime, _, _, _, mUser, _ := b.VerifState()
	t.entries = append(t.entries, tEntry{"secret-key", p.SResponse, secret})
	t.entries = append(t.entries, tEntry{desc + ".vprime", p.VPrimeResponse, vPrime})
	for i, m := range mUser {
		t.entries = append(t.entries, tEntry{fmt.Sprintf("%s.muser%d", desc, i), p.MUserResponses[i], m})
	}
	return t
}

// transcriptUSecretOnly: a further commitment made by an issuance builder that has already produced one. The randomizers of
// v' and of the user shares are drawn once per builder (builders are single-session objects by design, like the disclosure
// builders' eCommit/vCommit), the one for the secret key is drawn per commitment: only the latter is compared across the two.
func transcriptUSecretOnly(session int, desc string, b *gabi.CredentialBuilder, p *gabi.ProofU) *transcript {
	t := &transcript{session: session, desc: desc, c: p.C}
	secret, _, _, _, _, _, _ := b.VerifState()
	t.entries = append(t.entries, tEntry{"secret-key", p.SResponse, secret})
	return t
}

// the oracles of C07 over all transcripts of one history
func c07Oracles(s *Suite, hist string, ts []*transcript) { proofOracles(s, "C07", hist, ts) }

func proofOracles(s *Suite, prop string, hist string, ts []*transcript) {
	// (1) the two-transcript extractor, literally: for two responses to the same hidden value under
	//     different challenges, (s1 - s2) / (c1 - c2) must not be that value
	for i := 0; i < len(ts); i++ {
		for j := i + 1; j < len(ts); j++ {
			a, b := ts[i], ts[j]
			if a.c.Cmp(b.c) == 0 {
				continue
			}
			dc := new(gbig.Int).Sub(a.c, b.c)
			for _, ea := range a.entries {
				for _, eb := range b.entries {
					if ea.label != eb.label || ea.secret.Cmp(eb.secret) != 0 {
						continue
					}
					s.Dist["extractor-pairs"]++
					ds := new(gbig.Int).Sub(ea.resp, eb.resp)
					if ds.Cmp(new(gbig.Int).Mul(dc, ea.secret)) == 0 {
						s.Violate(prop+":extractor-recovers:"+kindOfLabel(ea.label), fmt.Sprintf("two-transcript extractor recovers %s from proofs %s and %s", ea.label, a.desc, b.desc), L{hist, a.desc, b.desc, ea.label})
					}
				}
			}
		}
	}
	// (2) no randomizer (s - c*m) and no other per-proof random value occurs in two sessions
	seen := map[string]*transcript{}
	note := func(t *transcript, what string, r *gbig.Int) {
		if r == nil {
			return
		}
		k := r.String()
		if o, ok := seen[k]; ok && o.session != t.session {
			s.Violate(prop+":randomizer-reused:"+kindOfLabel(what), fmt.Sprintf("the randomizer behind %s of proof %s was already used by proof %s", what, t.desc, o.desc), L{hist, t.desc, o.desc, what})
		}
		seen[k] = t
	}
	for _, t := range ts {
		for _, e := range t.entries {
			note(t, e.label, new(gbig.Int).Sub(e.resp, new(gbig.Int).Mul(t.c, e.secret)))
			s.Dist["randomizers-compared"]++
		}
		for _, f := range t.fresh {
			note(t, "nonrev.r", f)
		}
	}
	// (3) randomised signature elements, non-revocation commitments and range commitments never repeat
	distinct := func(what string, get func(t *transcript) []*gbig.Int) {
		m := map[string]*transcript{}
		for _, t := range ts {
			for _, x := range get(t) {
				if x == nil {
					continue
				}
				if o, ok := m[x.String()]; ok {
					s.Violate(prop+":repeated:"+what, fmt.Sprintf("%s of proof %s equals that of proof %s", what, t.desc, o.desc), L{hist, t.desc, o.desc, what})
				}
				m[x.String()] = t
			}
		}
	}
	distinct("A", func(t *transcript) []*gbig.Int { return []*gbig.Int{t.aPrime} })
	distinct("Cr", func(t *transcript) []*gbig.Int { return []*gbig.Int{t.cr} })
	distinct("Cu", func(t *transcript) []*gbig.Int { return []*gbig.Int{t.cu} })
	distinct("range-commitment", func(t *transcript) []*gbig.Int { return t.rangeCs })
	// (4) a prepared commitment is consumed by at most one proof
	bs := map[*gabi.NonRevocationProofBuilder]*transcript{}
	for _, t := range ts {
		if t.builder == nil {
			continue
		}
		if o, ok := bs[t.builder]; ok {
			s.Violate(prop+":builder-consumed-twice", fmt.Sprintf("proofs %s and %s were made from the same non-revocation builder", t.desc, o.desc), L{hist, t.desc, o.desc})
		}
		bs[t.builder] = t
	}
}

func kindOfLabel(l string) string {
	for i := 0; i < len(l); i++ {
		if l[i] == '.' {
			rest := l[i+1:]
			for j := 0; j < len(rest); j++ {
				if rest[j] >= '0' && rest[j] <= '9' {
					return rest[:j]
				}
			}
			return rest
		}
	}
	return l
}

func suiteC07(s *Suite, rng *Rng, tier string) {
	lr := &lockedReader{rng: rng}
	useReader(lr)
	var seed [32]byte
	rng.Read(seed[:])
	gabi.VerifSetGlobalCPRNG(&seed)
	nHist := 100
	if tier == "thorough" {
		nHist = 400
	}
	keys := []*KeyPair{makeKey(256, 0, 6, rng, true), makeKey(1024, 0, 6, rng, true)}
	for hi := 0; hi < nHist; hi++ {
		kp := keys[0]
		if hi%5 == 4 {
			kp = keys[1]
		}
		pk := kp.Pk
		pks1 := func(n int) []*gabikeys.PublicKey {
			r := make([]*gabikeys.PublicKey, n)
			for i := range r {
				r[i] = pk
			}
			return r
		}
		h := newRevHistory(kp)
		secret := newSecret(rng)
		concurrent := hi%2 == 1
		ncred := 1 + rng.Intn(3)
		creds := []*c07cred{}
		for k := 0; k < ncred; k++ {
			w, err := revocation.RandomWitness(kp.Sk, h.accs[len(h.accs)-1])
			if err != nil {
				panic(err)
			}
			sa, _ := h.accs[len(h.accs)-1].Sign(kp.Sk)
			w.SignedAccumulator = sa
			attrs := []*gbig.Int{secret, rng.Bits(100), rng.Bits(60), w.E, rng.Bits(200)}
			if k%2 == 0 {
				attrs[4] = bi(0) // an absent optional attribute: hidden like any other, with a randomizer of its own in every proof
			}
			sig, err := gabi.SignMessageBlock(kp.Sk, pk, attrs)
			if err != nil {
				panic(err)
			}
			cred := &gabi.Credential{Signature: sig, Pk: pk, Attributes: attrs, NonRevocationWitness: w}
			creds = append(creds, &c07cred{cred: cred, id: k, initIdx: w.SignedAccumulator.Accumulator.Index,
				ids: map[*gabi.NonRevocationProofBuilder]int{}, tracing: !concurrent})
		}
		var ts []*transcript
		var tsMu sync.Mutex
		session := 0
		var sessMu sync.Mutex
		newSession := func() int { sessMu.Lock(); defer sessMu.Unlock(); session++; return session }
		hist := fmt.Sprintf("h%d[%d,creds=%d]:", hi, kp.Bits, ncred)
		var histMu sync.Mutex
		logOp := func(o string) { histMu.Lock(); hist += o + ","; histMu.Unlock() }

		// one proof list over the given credentials (plus, optionally, an issuance commitment)
		prove := func(who string, ccs []*c07cred, nonrev []bool, ranges bool, withIssue bool) {
			var builders gabi.ProofBuilderList
			var dbs []*gabi.DisclosureProofBuilder
			var cb *gabi.CredentialBuilder
			ctx, nonce := lr.bits(200), lr.bits(80)
			for k, cc := range ccs {
				var stmts map[int][]*rangeproof.Statement
				if ranges && k == 0 {
					st, _ := rangeproof.NewStatement(rangeproof.GreaterOrEqual, new(gbig.Int).Sub(cc.cred.Attributes[2], bi(5)))
					stmts = map[int][]*rangeproof.Statement{2: {st}}
				}
				b, err := cc.cred.CreateDisclosureProofBuilder([]int{1}, stmts, nonrev[k])
				if err != nil {
					s.Violate("C07:prove-failed", "CreateDisclosureProofBuilder failed: "+err.Error(), L{hist})
					return
				}
				if nonrev[k] {
					cc.observe(L{2, 1, 5}, b.VerifNonrevBuilder())
				} else {
					cc.observe(L{2, 0, 5}, nil)
				}
				builders = append(builders, b)
				dbs = append(dbs, b)
			}
			if withIssue {
				var err error
				cb, err = gabi.NewCredentialBuilder(pk, ctx, secret, lr.bits(80), nil, []int{1})
				if err != nil {
					panic(err)
				}
				builders = append(builders, cb)
			}
			pl, err := builders.BuildProofList(ctx, nonce, false)
			if err != nil {
				s.Violate("C07:prove-failed", "BuildProofList failed: "+err.Error(), L{hist})
				return
			}
			sid := newSession()
			var local []*transcript
			for k, cc := range ccs {
				desc := fmt.Sprintf("s%d/%s/cred%d", sid, who, cc.id)
				local = append(local, transcriptD(sid, desc, dbs[k], pl[k].(*gabi.ProofD), cc.cred, cc.id))
			}
			if withIssue {
				local = append(local, transcriptU(sid, fmt.Sprintf("s%d/%s/issue", sid, who), cb, pl[len(pl)-1].(*gabi.ProofU)))
				// the same issuance builder asked for a stand-alone commitment afterwards (a retried issuance): a new session
				// with a new challenge, which needs a fresh randomizer for the secret key
				if msg, err := cb.CommitToSecretAndProve(lr.bits(80)); err == nil {
					sid2 := newSession()
					local = append(local, transcriptUSecretOnly(sid2, fmt.Sprintf("s%d/%s/issue-again", sid2, who), cb, msg.Proofs[0].(*gabi.ProofU)))
				}
			}
			// every produced proof list must be as valid as any other (also under concurrency)
			if !clonePl(pl).Verify(pks1(len(pl)), ctx, nonce, false, nil) {
				ambiguous := false
				for _, p := range pl {
					if pd, ok := p.(*gabi.ProofD); ok && pd.NonRevocationProof != nil && revCandidates(pd) > 1 {
						ambiguous = true
					}
				}
				if ambiguous {
					s.Count("skipped:ambiguous-revocation-index")
				} else {
					s.Violate("C07:proof-invalid", "a produced proof list does not verify", L{hist, who})
				}
			}
			tsMu.Lock()
			ts = append(ts, local...)
			tsMu.Unlock()
		}
		issue := func(who string) {
			ctx, nonce := lr.bits(200), lr.bits(80)
			cb, err := gabi.NewCredentialBuilder(pk, ctx, secret, lr.bits(80), nil, nil)
			if err != nil {
				panic(err)
			}
			msg, err := cb.CommitToSecretAndProve(nonce)
			if err != nil {
				s.Violate("C07:prove-failed", "CommitToSecretAndProve failed: "+err.Error(), L{hist})
				return
			}
			sid := newSession()
			t := transcriptU(sid, fmt.Sprintf("s%d/%s/issue", sid, who), cb, msg.Proofs[0].(*gabi.ProofU))
			tsMu.Lock()
			ts = append(ts, t)
			tsMu.Unlock()
			// a second commitment from the same builder under another nonce
			if msg2, err := cb.CommitToSecretAndProve(lr.bits(80)); err == nil {
				sid2 := newSession()
				t2 := transcriptUSecretOnly(sid2, fmt.Sprintf("s%d/%s/issue-again", sid2, who), cb, msg2.Proofs[0].(*gabi.ProofU))
				tsMu.Lock()
				ts = append(ts, t2)
				tsMu.Unlock()
			}
		}
		updateAll := func() {
			h.revoke(nextPrime(rng.Bits(100), 1))
			last := len(h.accs) - 1
			for _, cc := range creds {
				w := cc.cred.NonRevocationWitness
				our := int(w.SignedAccumulator.Accumulator.Index)
				if err := w.Update(pk, h.window(our+1, last)); err != nil {
					s.Violate("C07:update-failed", "witness update failed: "+err.Error(), L{hist})
				}
				cc.observe(L{1}, nil)
			}
		}

		depth := 5 + rng.Intn(6)
		for step := 0; step < depth; step++ {
			cc := creds[rng.Intn(len(creds))]
			if concurrent && step%2 == 1 {
				// a concurrent phase: G goroutines, each a short script on the shared credentials
				G := []int{2, 3, 4, 8, 16, 32}[rng.Intn(6)]
				if tier != "thorough" && G > 8 {
					G = 8
				}
				scripts := make([][]int, G)
				targets := make([][]*c07cred, G)
				for g := range scripts {
					n := 1 + rng.Intn(3)
					for k := 0; k < n; k++ {
						scripts[g] = append(scripts[g], rng.Intn(4))
						targets[g] = append(targets[g], creds[rng.Intn(len(creds))])
					}
				}
				logOp(fmt.Sprintf("par%d", G))
				var wg sync.WaitGroup
				for g := 0; g < G; g++ {
					wg.Add(1)
					go func(g int) {
						defer wg.Done()
						for k, o := range scripts[g] {
							c := targets[g][k]
							who := fmt.Sprintf("g%d.%d", g, k)
							switch o {
							case 0:
								if err := c.cred.NonrevPrepareCache(); err != nil {
									s.Violate("C07:prepare-failed", err.Error(), L{hist})
								}
							case 1:
								prove(who, []*c07cred{c}, []bool{false}, false, false)
							default:
								prove(who, []*c07cred{c}, []bool{true}, false, false)
							}
						}
					}(g)
				}
				wg.Wait()
				s.Dist[fmt.Sprintf("concurrent-phase-G%d", G)]++
				continue
			}
			switch rng.Intn(8) {
			case 0, 1:
				logOp(fmt.Sprintf("prep%d", cc.id))
				if err := cc.cred.NonrevPrepareCache(); err != nil {
					s.Violate("C07:prepare-failed", err.Error(), L{hist})
				}
				cc.observe(L{0}, nil)
			case 2:
				logOp("upd")
				updateAll()
			case 3:
				logOp(fmt.Sprintf("prove%d", cc.id))
				prove("seq", []*c07cred{cc}, []bool{false}, rng.Bool(), false)
			case 4, 5:
				logOp(fmt.Sprintf("proveNR%d", cc.id))
				prove("seq", []*c07cred{cc}, []bool{true}, rng.Intn(3) == 0, false)
			case 6:
				// a list over several (possibly the same) credentials, optionally with an issuance commitment
				n := 2 + rng.Intn(2)
				var ccs []*c07cred
				var nr []bool
				for k := 0; k < n; k++ {
					ccs = append(ccs, creds[rng.Intn(len(creds))])
					nr = append(nr, rng.Bool())
				}
				logOp(fmt.Sprintf("list%d", n))
				prove("seq", ccs, nr, rng.Bool(), rng.Bool())
			case 7:
				logOp("issue")
				issue("seq")
			}
		}
		c07Oracles(s, hist, ts)
		s.Nontrivial[hist] = true
		s.Dist[fmt.Sprintf("history-proofs-%02d+", len(ts)/5*5)]++
		for _, cc := range creds {
			if cc.tracing && len(cc.ops) > 0 {
				s.Add(701, fmt.Sprintf("%d:cache-trace", kp.Bits), true, cc.ops, cc.obs)
			}
		}
	}
	s.Notes["rule"] = "histories of 5..10 steps over {prepare cache, update witness, prove with/without non-revocation (with/without range proof), proof list over 2..3 builders " +
		"(optionally with an issuance commitment), issuance commitment} on 1..3 credentials sharing one secret key (256- and 1024-bit keys); every other history has concurrent phases of " +
		"2..32 goroutines running {prepare, prove, prove with non-revocation}; per history all pairs of proofs go through the extractor / reuse / repetition / single-consumer oracles; " +
		"sequential histories also yield the cache trace (cached builder identity and index after every operation, consumed builder) compared with the model; distinct by history"
}

func (l *lockedReader) bits(n int) *gbig.Int {
	l.mu.Lock()
	defer l.mu.Unlock()
	return l.rng.Bits(n)
}

func clonePl(pl gabi.ProofList) gabi.ProofList {
	out := gabi.ProofList{}
	for _, p := range pl {
		switch q := p.(type) {
		case *gabi.ProofD:
			out = append(out, cloneProofD(q))
		default:
			out = append(out, p)
		}
	}
	return out
}
