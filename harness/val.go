package main

import (
	"fmt"
	"math/big"
	"strings"

	gbig "github.com/privacybydesign/gabi/big"
)

// V is the wire value shared with the Coq model: integer, nil, or list.
type V interface{}

type L []V

func enc(sb *strings.Builder, v V) {
	switch x := v.(type) {
	case nil:
		sb.WriteByte('_')
	case *gbig.Int:
		if x == nil {
			sb.WriteByte('_')
		} else {
			sb.WriteString(x.String())
		}
	case *big.Int:
		if x == nil {
			sb.WriteByte('_')
		} else {
			sb.WriteString(x.String())
		}
	case int:
		fmt.Fprintf(sb, "%d", x)
	case int64:
		fmt.Fprintf(sb, "%d", x)
	case uint:
		fmt.Fprintf(sb, "%d", x)
	case uint64:
		fmt.Fprintf(sb, "%d", x)
	case bool:
		if x {
			sb.WriteByte('1')
		} else {
			sb.WriteByte('0')
		}
	case L:
		sb.WriteByte('(')
		for i, e := range x {
			if i > 0 {
				sb.WriteByte(' ')
			}
			enc(sb, e)
		}
		sb.WriteByte(')')
	case []V:
		enc(sb, L(x))
	case []*gbig.Int:
		sb.WriteByte('(')
		for i, e := range x {
			if i > 0 {
				sb.WriteByte(' ')
			}
			enc(sb, e)
		}
		sb.WriteByte(')')
	case []byte:
		sb.WriteByte('(')
		for i, e := range x {
			if i > 0 {
				sb.WriteByte(' ')
			}
			fmt.Fprintf(sb, "%d", e)
		}
		sb.WriteByte(')')
	case []int:
		sb.WriteByte('(')
		for i, e := range x {
			if i > 0 {
				sb.WriteByte(' ')
			}
			fmt.Fprintf(sb, "%d", e)
		}
		sb.WriteByte(')')
	case string:
		// only used in replay descriptions, never sent to the model
		fmt.Fprintf(sb, "%q", x)
	default:
		panic(fmt.Sprintf("enc: unsupported %T", v))
	}
}

func S(v V) string {
	var sb strings.Builder
	enc(&sb, v)
	return sb.String()
}

// Coq literal for in-Coq case files
func coqLit(sb *strings.Builder, v V) {
	switch x := v.(type) {
	case nil:
		sb.WriteString("VN")
	case *gbig.Int:
		if x == nil {
			sb.WriteString("VN")
		} else {
			coqInt(sb, x.Go())
		}
	case *big.Int:
		if x == nil {
			sb.WriteString("VN")
		} else {
			coqInt(sb, x)
		}
	case int:
		fmt.Fprintf(sb, "VZ (%d)", x)
	case int64:
		fmt.Fprintf(sb, "VZ (%d)", x)
	case uint:
		fmt.Fprintf(sb, "VZ (%d)", x)
	case uint64:
		fmt.Fprintf(sb, "VZ (%d)", x)
	case bool:
		if x {
			sb.WriteString("VZ 1")
		} else {
			sb.WriteString("VZ 0")
		}
	case L:
		sb.WriteString("VL [")
		for i, e := range x {
			if i > 0 {
				sb.WriteString("; ")
			}
			coqLit(sb, e)
		}
		sb.WriteString("]")
	case []V:
		coqLit(sb, L(x))
	case []*gbig.Int:
		l := make(L, len(x))
		for i := range x {
			l[i] = x[i]
		}
		coqLit(sb, l)
	case []byte:
		l := make(L, len(x))
		for i := range x {
			l[i] = int(x[i])
		}
		coqLit(sb, l)
	case []int:
		l := make(L, len(x))
		for i := range x {
			l[i] = x[i]
		}
		coqLit(sb, l)
	default:
		panic(fmt.Sprintf("coqLit: unsupported %T", v))
	}
}

// big literals are written in hexadecimal: Coq parses those in linear time
func coqInt(sb *strings.Builder, x *big.Int) {
	if x.Sign() < 0 {
		fmt.Fprintf(sb, "VZ (-0x%s)", new(big.Int).Neg(x).Text(16))
	} else {
		fmt.Fprintf(sb, "VZ 0x%s", x.Text(16))
	}
}
