package main

import (
	"encoding/json"
	"fmt"

	"github.com/privacybydesign/gabi"
	gbig "github.com/privacybydesign/gabi/big"
	"github.com/privacybydesign/gabi/gabikeys"
)

func init() { suites["C02"] = suiteC02; suites["C03"] = suiteC03 }

func permutations(n int) [][]int {
	if n == 0 {
		return [][]int{{}}
	}
	var res [][]int
	for _, p := range permutations(n - 1) {
		for i := 0; i <= len(p); i++ {
			q := append(append(append([]int{}, p[:i]...), n-1), p[i:]...)
			res = append(res, q)
		}
	}
	return res
}

func flipBit(x *gbig.Int, i int) *gbig.Int {
	y := new(gbig.Int).Set(x)
	return y.SetBit(y, i, y.Bit(i)^1)
}

func suiteC02(s *Suite, rng *Rng, tier string) {
	useRng(rng)
	rounds := 6
	if tier == "thorough" {
		rounds = 60
	}
	keys := []*KeyPair{makeKey(128, 0, 6, rng, true), makeKey(128, 1, 6, rng, false), makeKey(256, 0, 6, rng, true), makeKey(1024, 0, 6, rng, true)}
	smallLeft := 2
	for round := 0; round < rounds; round++ {
		n := 1 + rng.Intn(4)
		// every third round: only disclosure proofs with a non-revocation part (one, then two): their binding to the session
		// must not hinge on other proofs of the list
		allNonrev := round%3 == 1
		if allNonrev {
			n = 1 + (round/3)%2
		}
		secret := newSecret(rng)
		mk := func() ([]builderSpec, bool) {
			specs := make([]builderSpec, n)
			if allNonrev {
				for i := range specs {
					specs[i] = builderSpec{kind: "disclose", key: keys[2], secret: secret, nattr: 2 + rng.Intn(3), nonrev: true}
				}
				return specs, rng.Bool()
			}
			for i := range specs {
				kp := keys[rng.Intn(3)]
				if round%5 == 4 && i == 0 {
					kp = keys[3]
				}
				kind := "disclose"
				if rng.Intn(3) == 0 {
					kind = "issue"
				}
				specs[i] = builderSpec{kind: kind, key: kp, secret: secret, nattr: 2 + rng.Intn(3),
					nonrev: kp.Pk.G != nil && kp.Bits >= 256 && rng.Intn(3) == 0, ranges: kp.Bits >= 256 && rng.Intn(3) == 0}
			}
			return specs, rng.Bool()
		}
		sp1, sig1 := mk()
		// the boundary contexts 0 and 1 (1 is the default context of the keyshare protocol) are sessions like any other
		if round%3 == 2 {
			forcedContext = bi(int64(round / 3 % 2))
		}
		sess := buildSession(sp1, rng, sig1)
		sp2, sig2 := mk()
		other := buildSession(sp2, rng, sig2) // another session, same secret: source of spliced proofs
		allTiny := true
		for _, k := range sess.Keys {
			if k.Bits > 128 {
				allTiny = false
			}
		}
		check := func(kind string, pks []*gabikeys.PublicKey, ctx, nonce *gbig.Int, issig bool, pl gabi.ProofList, changed bool, small bool) {
			plc := cloneList(pl)
			_, acc, amb := verifyCase(s, kind, small, pks, ctx, nonce, issig, nil, plc)
			if amb {
				return
			}
			s.Nontrivial[kind+fmt.Sprint(round)+S(L{ctx, nonce, issig, len(pl)})] = true
			if changed && acc {
				s.Violate("C02:accepted-in-other-session", "a proof list verified although the session tuple was changed: "+kind,
					L{kind, ctx, nonce, issig, len(pl)})
			}
			if !changed && !acc {
				js, _ := json.Marshal(pl)
				ns := L{}
				for _, pk := range pks {
					ns = append(ns, pk.N)
				}
				s.Violate("C02:honest-rejected", "honest proof list rejected ("+sess.Desc+"): "+diagnoseRejection(pl, pks, ctx, nonce, issig), L{kind, ctx, nonce, issig, ns, string(js)})
			}
		}
		small := allTiny && smallLeft > 0 && n <= 2
		if small {
			smallLeft--
		}
		check("honest:"+sess.Desc, sess.Pks, sess.Context, sess.Nonce, sess.IsSig, sess.List, false, small)
		// context / nonce : one-bit and arbitrary changes
		for k := 0; k < 4; k++ {
			check("ctx-bit", sess.Pks, flipBit(sess.Context, rng.Intn(200)), sess.Nonce, sess.IsSig, sess.List, true, false)
			check("nonce-bit", sess.Pks, sess.Context, flipBit(sess.Nonce, rng.Intn(80)), sess.IsSig, sess.List, true, false)
		}
		check("ctx-random", sess.Pks, rng.Bits(200), sess.Nonce, sess.IsSig, sess.List, true, false)
		check("nonce-random", sess.Pks, sess.Context, rng.Bits(80), sess.IsSig, sess.List, true, false)
		check("ctx-nonce-swapped", sess.Pks, sess.Nonce, sess.Context, sess.IsSig, sess.List, true, false)
		if sess.Context.BitLen() <= 1 {
			check("ctx-0-versus-1", sess.Pks, new(gbig.Int).Xor(sess.Context, bi(1)), sess.Nonce, sess.IsSig, sess.List, true, false)
		}
		check("ctx=0", sess.Pks, bi(0), sess.Nonce, sess.IsSig, sess.List, sess.Context.Sign() != 0, false)
		check("ctx=1", sess.Pks, bi(1), sess.Nonce, sess.IsSig, sess.List, sess.Context.Cmp(bi(1)) != 0, false)
		check("flag", sess.Pks, sess.Context, sess.Nonce, !sess.IsSig, sess.List, true, false)
		// all permutations
		if n <= 4 {
			for _, perm := range permutations(n) {
				id := true
				pl := make(gabi.ProofList, n)
				pks := make([]*gabikeys.PublicKey, n)
				for i, j := range perm {
					pl[i], pks[i] = sess.List[j], sess.Pks[j]
					if i != j {
						id = false
					}
				}
				if !id {
					check("permute", pks, sess.Context, sess.Nonce, sess.IsSig, pl, true, false)
				}
			}
		}
		// all proper sub-lists (drop), duplicates
		for mask := 1; mask < (1<<n)-1; mask++ {
			var pl gabi.ProofList
			var pks []*gabikeys.PublicKey
			for i := 0; i < n; i++ {
				if mask&(1<<i) != 0 {
					pl, pks = append(pl, sess.List[i]), append(pks, sess.Pks[i])
				}
			}
			check("drop", pks, sess.Context, sess.Nonce, sess.IsSig, pl, true, false)
		}
		check("empty", []*gabikeys.PublicKey{}, sess.Context, sess.Nonce, sess.IsSig, gabi.ProofList{}, true, false)
		for i := 0; i < n; i++ {
			pl := append(append(gabi.ProofList{}, sess.List[:i+1]...), sess.List[i:]...)
			pks := append(append([]*gabikeys.PublicKey{}, sess.Pks[:i+1]...), sess.Pks[i:]...)
			check("duplicate", pks, sess.Context, sess.Nonce, sess.IsSig, pl, true, false)
		}
		// key substitution
		for i := 0; i < n; i++ {
			for _, k := range keys[:3] {
				if k.Pk == sess.Pks[i] {
					continue
				}
				pks := append([]*gabikeys.PublicKey{}, sess.Pks...)
				pks[i] = k.Pk
				check("key-substitution", pks, sess.Context, sess.Nonce, sess.IsSig, sess.List, true, false)
			}
		}
		// splice with proofs of another session (replace / append)
		for i := 0; i < n; i++ {
			j := rng.Intn(len(other.List))
			pl := append(gabi.ProofList{}, sess.List...)
			pks := append([]*gabikeys.PublicKey{}, sess.Pks...)
			pl[i], pks[i] = other.List[j], other.Pks[j]
			check("splice-replace", pks, sess.Context, sess.Nonce, sess.IsSig, pl, true, false)
		}
		check("splice-append", append(append([]*gabikeys.PublicKey{}, sess.Pks...), other.Pks[0]), sess.Context, sess.Nonce, sess.IsSig,
			append(append(gabi.ProofList{}, sess.List...), other.List[0]), true, false)
		check("replay-in-other-session", sess.Pks, other.Context, other.Nonce, other.IsSig, sess.List, true, false)
		// key list length mismatch
		check("fewer-keys", sess.Pks[:n-1], sess.Context, sess.Nonce, sess.IsSig, sess.List, true, false)
		// the same proof objects verified again and again under changing tuples: whatever an earlier verification left in
		// the objects (cached structures, filled-in fields) must not carry a verdict over to another tuple
		{
			obj := cloneList(sess.List)
			again := func(kind string, pks []*gabikeys.PublicKey, ctx, nonce *gbig.Int, issig bool, changed bool) {
				_, acc, amb := verifyCase(s, "reused-objects:"+kind, false, pks, ctx, nonce, issig, nil, obj)
				if amb {
					return
				}
				s.Nontrivial["reused"+kind+fmt.Sprint(round)] = true
				if changed && acc {
					s.Violate("C02:verified-object-accepted-in-other-session", "proof objects that had been verified before are accepted under a changed tuple: "+kind, L{kind, len(obj)})
				}
				if !changed && !acc {
					s.Violate("C02:verified-object-rejected-later", "proof objects verify the first time but not when verified again: "+kind, L{kind, len(obj)})
				}
			}
			again("first", sess.Pks, sess.Context, sess.Nonce, sess.IsSig, false)
			for i := 0; i < n; i++ {
				for _, k := range keys[:3] {
					if k.Pk == sess.Pks[i] {
						continue
					}
					pks := append([]*gabikeys.PublicKey{}, sess.Pks...)
					pks[i] = k.Pk
					again("key-substitution", pks, sess.Context, sess.Nonce, sess.IsSig, true)
					break
				}
			}
			again("nonce-bit", sess.Pks, sess.Context, flipBit(sess.Nonce, rng.Intn(80)), sess.IsSig, true)
			again("flag", sess.Pks, sess.Context, sess.Nonce, !sess.IsSig, true)
			again("unchanged-again", sess.Pks, sess.Context, sess.Nonce, sess.IsSig, false)
			// a disclosed value changed in place, then restored
			for _, p := range obj {
				pd, ok := p.(*gabi.ProofD)
				if !ok || len(pd.ADisclosed) == 0 {
					continue
				}
				for i, v := range pd.ADisclosed {
					orig := cp(v)
					pd.ADisclosed[i] = new(gbig.Int).Add(v, bi(1))
					again("disclosed-value-changed-in-place", sess.Pks, sess.Context, sess.Nonce, sess.IsSig, true)
					pd.ADisclosed[i] = orig
					again("disclosed-value-restored", sess.Pks, sess.Context, sess.Nonce, sess.IsSig, false)
					break
				}
				break
			}
		}
	}
	s.Notes["rule"] = "lists of 1..4 proofs mixing disclosure and issuance builders over 3 toy keys (+1024-bit), with/without " +
		"non-revocation and range parts; per list: one-bit and random changes of context and nonce, swapped, flag flipped, " +
		"all permutations, all sub-lists, empty list, duplicates, all key substitutions, splices with another session, replay; " +
		"non-trivial = changed tuple; distinct by (kind, round, tuple)"
}

// ---------------------------------------------------------------------------------------

func suiteC03(s *Suite, rng *Rng, tier string) {
	useRng(rng)
	rounds := 8
	if tier == "thorough" {
		rounds = 80
	}
	keys := []*KeyPair{makeKey(128, 0, 5, rng, false), makeKey(128, 1, 5, rng, false), makeKey(256, 0, 5, rng, false), makeKey(1024, 0, 5, rng, false)}
	labelSets := map[int][][]string{
		2: {nil, {"a", "a"}, {"a", "b"}, {"", ""}, {"", "x"}},
		3: {nil, {"a", "a", "a"}, {"a", "a", "b"}, {"a", "b", "a"}, {"b", "a", "a"}, {"a", "b", "c"}},
		4: {nil, {"a", "a", "a", "a"}, {"a", "a", "b", "b"}, {"a", "b", "a", "b"}, {"a", "b", "b", "a"}, {"a", "b", "c", "d"}, {"a", "a", "a", "b"}, {"a", "b", "c", "a"}},
	}
	smallLeft := 2
	for round := 0; round < rounds; round++ {
		n := 2 + rng.Intn(3)
		nsec := 1 + rng.Intn(3)
		secrets := make([]*gbig.Int, nsec)
		for i := range secrets {
			secrets[i] = newSecret(rng)
		}
		assign := make([]int, n)
		specs := make([]builderSpec, n)
		allTiny := true
		for i := range specs {
			assign[i] = rng.Intn(nsec)
			kp := keys[rng.Intn(3)]
			if round%4 == 3 && i == 0 {
				kp = keys[3]
			}
			if kp.Bits > 128 {
				allTiny = false
			}
			kind := "disclose"
			if rng.Intn(3) == 0 {
				kind = "issue"
			}
			specs[i] = builderSpec{kind: kind, key: kp, secret: secrets[assign[i]], nattr: 2 + rng.Intn(2)}
		}
		sess := buildSession(specs, rng, false)
		for _, labels := range labelSets[n] {
			// ground truth: the labelling is fine iff same label => same secret
			fine := true
			for i := 0; i < n; i++ {
				for j := 0; j < n; j++ {
					same := labels == nil || labels[i] == labels[j]
					if same && secrets[assign[i]].Cmp(secrets[assign[j]]) != 0 {
						fine = false
					}
				}
			}
			small := allTiny && smallLeft > 0 && n == 2
			if small {
				smallLeft--
			}
			plc := cloneList(sess.List)
			_, acc, _ := verifyCase(s, fmt.Sprintf("labels:%v", fine), small, sess.Pks, sess.Context, sess.Nonce, false, labels, plc)
			s.Nontrivial[fmt.Sprint(round, labels, assign)] = true
			if acc && !fine {
				s.Violate("C03:different-secrets-one-label", fmt.Sprintf("accepted: labels %v secrets %v", labels, assign), L{fmt.Sprint(labels), fmt.Sprint(assign)})
			}
			if !acc && fine {
				s.Violate("C03:honest-rejected", fmt.Sprintf("rejected: labels %v secrets %v (%s)", labels, assign, sess.Desc), L{fmt.Sprint(labels), fmt.Sprint(assign)})
			}
		}
		// adversarial equalisation of the secret-key responses of member 0 to that of member 1
		if secrets[assign[0]].Cmp(secrets[assign[1]]) != 0 {
			target := sess.List[1].SecretKeyResponse()
			pl := cloneList(sess.List)
			kind := ""
			switch p := pl[0].(type) {
			case *gabi.ProofD:
				// disclose index 0 with x = s0 - s1 and present member 1's response
				x := new(gbig.Int).Sub(secrets[assign[0]], secrets[assign[1]])
				if x.Sign() < 0 {
					// x negative: use the group order of the key (colluders pool all secrets; the harness even knows ord)
					ord := new(gbig.Int).Mul(sess.Keys[0].Sk.PPrime, sess.Keys[0].Sk.QPrime)
					x.Mod(x, ord)
				}
				p.ADisclosed[0] = x
				p.AResponses[0] = cp(target)
				kind = "equalise-by-disclosing-secret-part"
			case *gabi.ProofU:
				d := new(gbig.Int).Sub(p.SResponse, target)
				if d.Sign() < 0 {
					ord := new(gbig.Int).Mul(sess.Keys[0].Sk.PPrime, sess.Keys[0].Sk.QPrime)
					k := new(gbig.Int).Div(new(gbig.Int).Neg(d), ord)
					d.Add(d, k.Add(k, bi(1)).Mul(k, ord))
				}
				if p.MUserResponses == nil {
					p.MUserResponses = map[int]*gbig.Int{}
				}
				p.MUserResponses[0] = d
				p.SResponse = cp(target)
				kind = "equalise-by-second-R0-response"
			}
			_, acc, _ := verifyCase(s, kind, false, sess.Pks, sess.Context, sess.Nonce, false, nil, pl)
			s.Nontrivial[fmt.Sprint(round, kind)] = true
			if acc {
				s.Violate("C03:different-secrets-one-label", "accepted after "+kind, L{kind})
			}
			// a member that discloses its whole secret key instead of proving knowledge of it has no secret-key response to
			// compare: such a list has to be rejected (not accepted, and not answered with a panic)
			if p0, ok := sess.List[0].(*gabi.ProofD); ok && secrets[assign[0]].BitLen() <= int(sess.Pks[0].Params.Lm) {
				for _, pos := range []int{0, 1} {
					pl2 := cloneList(sess.List)
					q := cloneProofD(p0)
					if q.ADisclosed == nil {
						q.ADisclosed = map[int]*gbig.Int{}
					}
					q.ADisclosed[0] = cp(secrets[assign[0]])
					delete(q.AResponses, 0)
					pl2[0] = q
					if pos == 1 {
						pl2[0], pl2[1] = pl2[1], pl2[0]
					}
					pks2 := append([]*gabikeys.PublicKey{}, sess.Pks...)
					if pos == 1 {
						pks2[0], pks2[1] = pks2[1], pks2[0]
					}
					kind2 := fmt.Sprintf("member-discloses-whole-secret:pos%d", pos)
					pan, acc2, _ := verifyCase(s, kind2, false, pks2, sess.Context, sess.Nonce, false, nil, pl2)
					if acc2 || pan {
						s.Violate("C03:different-secrets-one-label", fmt.Sprintf("list with a member that discloses its secret key instead of a response: accepted=%v panicked=%v", acc2, pan), L{kind2})
					}
				}
			}
		}
	}
	// ---- two holders pool their secrets: CL signatures are malleable in the exponent of a base (A, e, v over s becomes
	//      A*R_0^-t, e, v over s + t*e), so with s* = s1 mod e1, s* = s2 mod e2 both credentials 'contain' s*; only the size
	//      bound on the response for the secret keeps such a pair from being accepted as linked ----
	for it := 0; it < 3; it++ {
		k1, k2 := keys[2], keys[2]
		if it == 1 {
			k2 = keys[0]
		} else if it == 2 {
			k1, k2 = keys[3], keys[3]
		}
		s1, s2 := newSecret(rng), newSecret(rng)
		c1 := issueCredential(k1, s1, []*gbig.Int{rng.Bits(60), rng.Bits(60)}, rng)
		c2 := issueCredential(k2, s2, []*gbig.Int{rng.Bits(60), rng.Bits(60)}, rng)
		e1, e2 := c1.Signature.E, c2.Signature.E
		inv := new(gbig.Int).ModInverse(e1, e2)
		if inv == nil {
			continue
		}
		kk := new(gbig.Int).Sub(s2, s1)
		kk.Mul(kk, inv).Mod(kk, e2)
		sStar := new(gbig.Int).Add(new(gbig.Int).Mul(kk, e1), s1)
		malleate := func(cred *gabi.Credential) *gabi.Credential {
			pk := cred.Pk
			q := new(gbig.Int).Div(new(gbig.Int).Sub(sStar, cred.Attributes[0]), cred.Signature.E)
			r0inv := new(gbig.Int).ModInverse(pk.R[0], pk.N)
			shift := new(gbig.Int).Exp(r0inv, q, pk.N)
			A := new(gbig.Int).Mul(cred.Signature.A, shift)
			A.Mod(A, pk.N)
			attrs := append([]*gbig.Int{sStar}, cred.Attributes[1:]...)
			return &gabi.Credential{Pk: pk, Attributes: attrs, Signature: &gabi.CLSignature{A: A, E: cred.Signature.E, V: cred.Signature.V}}
		}
		m1, m2 := malleate(c1), malleate(c2)
		b1, err1 := m1.CreateDisclosureProofBuilder([]int{1}, nil, false)
		b2, err2 := m2.CreateDisclosureProofBuilder([]int{2}, nil, false)
		if err1 != nil || err2 != nil {
			continue
		}
		builders := gabi.ProofBuilderList{b1, b2}
		ctx, nonce := rng.Bits(200), rng.Bits(80)
		randomizers, err := gabi.NewProofRandomizers()
		if err != nil {
			panic(err)
		}
		c, err := builders.ChallengeWithRandomizers(ctx, nonce, randomizers, false)
		if err != nil {
			continue
		}
		pl, err := builders.BuildDistributedProofList(c, nil)
		if err != nil {
			continue
		}
		// the library's prover hashes exponents longer than Lm bits; the cheating provers answer with s* itself
		resp := new(gbig.Int).Add(new(gbig.Int).Mul(c, sStar), randomizers["secretkey"])
		for _, p := range pl {
			p.(*gabi.ProofD).AResponses[0] = new(gbig.Int).Set(resp)
		}
		pks := []*gabikeys.PublicKey{k1.Pk, k2.Pk}
		for _, labels := range [][]string{nil, {"ks", "ks"}} {
			_, acc, _ := verifyCase(s, "pooled-secrets", false, pks, ctx, nonce, false, labels, cloneList(pl))
			s.Nontrivial[fmt.Sprint("pooled", it, labels)] = true
			if acc {
				s.Violate("C03:pooled-secrets-linked", fmt.Sprintf("two credentials over different secrets (%d- and %d-bit keys) were accepted as sharing one secret after shifting both signatures to a common oversized exponent", k1.Bits, k2.Bits), L{it, len(labels)})
			}
		}
	}
	// ---- a credential on secret m linked with an issuance commitment on secret -m: the commitment is made with randomizer -r,
	//      so its response for the secret is the negation of the credential's; responses are compared as they were sent ----
	for it := 0; it < 2; it++ {
		kp := keys[2]
		if it == 1 {
			kp = keys[3]
		}
		m := new(gbig.Int).Add(newSecret(rng), bi(1))
		cred := issueCredential(kp, m, []*gbig.Int{rng.Bits(60), rng.Bits(60)}, rng)
		for _, labels := range [][]string{nil, {"ks", "ks"}, {"", ""}} {
			ctx, nonce := rng.Bits(200), rng.Bits(80)
			db, err := cred.CreateDisclosureProofBuilder([]int{1, 2}, nil, false)
			if err != nil {
				panic(err)
			}
			rz, _ := gabi.NewProofRandomizers()
			r := rz["secretkey"]
			cb, err := gabi.NewCredentialBuilder(kp.Pk, ctx, new(gbig.Int).Neg(m), rng.Bits(80), nil, nil)
			if err != nil {
				continue
			}
			cd, err1 := db.Commit(map[string]*gbig.Int{"secretkey": r})
			cu, err2 := cb.Commit(map[string]*gbig.Int{"secretkey": new(gbig.Int).Neg(r)})
			if err1 != nil || err2 != nil {
				continue
			}
			c := gabi.VerifCreateChallenge(ctx, nonce, append(append([]*gbig.Int{}, cd...), cu...), false)
			pd := db.CreateProof(c).(*gabi.ProofD)
			pu := cb.CreateProof(c).(*gabi.ProofU)
			before := new(gbig.Int).Set(pu.SResponse)
			pl := gabi.ProofList{pd, pu}
			_, acc, _ := verifyCase(s, "negated-secret", false, []*gabikeys.PublicKey{kp.Pk, kp.Pk}, ctx, nonce, false, labels, pl)
			s.Nontrivial[fmt.Sprint("negated", it, labels)] = true
			if acc {
				s.Violate("C03:negated-secret-linked", "a credential on secret m and an issuance commitment on secret -m were accepted as sharing one secret", L{it, len(labels)})
			}
			if pu.SResponse.Cmp(before) != 0 {
				s.Violate("C03:verification-rewrote-response", "ProofList.Verify changed the secret-key response of a proof it was given", L{it, len(labels)})
			}
		}
	}
	s.Notes["rule"] = "lists of 2..4 builders (disclosure/issuance) over toy and 1024-bit keys, 1..3 distinct secrets assigned at random, " +
		"labellings nil / all-equal / set partitions; adversarial variants disclosing part of attribute 0 or adding a second response " +
		"for base R_0; pooled-secrets cheating provers (signatures shifted to a common oversized exponent by the Chinese remainder theorem); oracle: accepted iff same label => same secret; distinct by (round, labels, assignment)"
}

// diagnoseRejection re-does the steps of ProofList.Verify with the library's exported pieces to say which proof
// of an honest list fails and at which step
func diagnoseRejection(pl gabi.ProofList, pks []*gabikeys.PublicKey, ctx, nonce *gbig.Int, issig bool) (out string) {
	defer func() {
		if r := recover(); r != nil {
			out += fmt.Sprintf(" [diagnosis panicked: %v]", r)
		}
	}()
	pl = cloneList(pl)
	var contribs []*gbig.Int
	for i, p := range pl {
		c, err := p.ChallengeContribution(pks[i])
		if err != nil {
			return fmt.Sprintf("proof %d: ChallengeContribution: %v", i, err)
		}
		contribs = append(contribs, c...)
	}
	ch := gabi.VerifCreateChallenge(ctx, nonce, contribs, issig)
	for i, p := range pl {
		if !p.VerifyWithChallenge(pks[i], ch) {
			d := fmt.Sprintf("proof %d fails VerifyWithChallenge", i)
			if pd, ok := p.(*gabi.ProofD); ok {
				d += fmt.Sprintf(" (challenge equal: %v)", pd.C.Cmp(ch) == 0)
				for idx, r := range pd.AResponses {
					d += fmt.Sprintf(" resp[%d]:%d bits", idx, r.BitLen())
				}
				d += fmt.Sprintf(" e:%d v:%d bits; LmCommit %d LeCommit %d", pd.EResponse.BitLen(), pd.VResponse.BitLen(), pks[i].Params.LmCommit, pks[i].Params.LeCommit)
			}
			out += d + "; "
		}
	}
	if out == "" {
		out = "every proof passes VerifyWithChallenge with the recomputed challenge"
	}
	return
}
