package main

import (
	"fmt"

	gbig "github.com/privacybydesign/gabi/big"
	"github.com/privacybydesign/gabi/keyproof"
	"github.com/privacybydesign/gabi/safeprime"
)

func init() { suites["C17"] = suiteC17 }

// toyKeyPrimes returns safe primes p, q of the given length for which a key proof can be made
func toyKeyPrimes(bits int) (p, q *gbig.Int) {
	for {
		p, _ = safeprime.Generate(bits, nil)
		q, _ = safeprime.Generate(bits, nil)
		if p == nil || q == nil {
			continue
		}
		if keyproof.CanProve(new(gbig.Int).Rsh(p, 1), new(gbig.Int).Rsh(q, 1)) {
			return
		}
	}
}

func suiteC17(s *Suite, rng *Rng, tier string) {
	lr := &lockedReader{rng: rng}
	useReader(lr)
	p, q := toyKeyPrimes(48)
	n := new(gbig.Int).Mul(p, q)
	bases := []*gbig.Int{}
	for i := 0; i < 2; i++ {
		r := rng.Below(n)
		bases = append(bases, r.Mul(r, r).Mod(r, n))
	}
	st := keyproof.NewValidKeyProofStructure(n, bases)
	proof := st.BuildProof(new(gbig.Int).Rsh(p, 1), new(gbig.Int).Rsh(q, 1))
	in := L{n, dumpBigs(bases), b2i(proof.GroupPrime.ProbablyPrime(80)), b2i(new(gbig.Int).Rsh(proof.GroupPrime, 1).ProbablyPrime(80)), b2i(n.ProbablyPrime(80)), dValidKey(proof)}
	ok := st.VerifyProof(proof)
	s.Add(1701, "whole-proof-honest", false, in, okV(b2i(ok)))
	fmt.Println("verify", ok)
}
