package main

import (
	"encoding/json"
	"fmt"
	"reflect"
	"sort"
	"strings"

	"github.com/privacybydesign/gabi"
	gbig "github.com/privacybydesign/gabi/big"
	"github.com/privacybydesign/gabi/keyproof"
	"github.com/privacybydesign/gabi/safeprime"
)

func init() { suites["C17"] = suiteC17 }

// toyKeyPrimes returns safe primes p, q of the given length for which a key proof can be made
func toyKeyPrimes(bits int) (p, q *gbig.Int) {
	for {
		p, _ = safeprime.Generate(bits, nil)
		q, _ = safeprime.Generate(bits, nil)
		if p == nil || q == nil {
			continue
		}
		if keyproof.CanProve(new(gbig.Int).Rsh(p, 1), new(gbig.Int).Rsh(q, 1)) {
			return
		}
	}
}

// ---------- generic alteration of proof objects ----------

type leaf struct {
	path string
	v    reflect.Value // a *big.Int field, a slice or a map (settable)
}

func collectLeaves(path string, v reflect.Value, out *[]leaf) {
	switch v.Kind() {
	case reflect.Ptr:
		if v.Type() == reflect.TypeOf((*gbig.Int)(nil)) {
			if v.CanSet() {
				*out = append(*out, leaf{path, v})
			}
			return
		}
		if !v.IsNil() {
			collectLeaves(path, v.Elem(), out)
		}
	case reflect.Struct:
		for i := 0; i < v.NumField(); i++ {
			if v.Type().Field(i).PkgPath != "" {
				continue // unexported (name)
			}
			collectLeaves(path+"."+v.Type().Field(i).Name, v.Field(i), out)
		}
	case reflect.Slice:
		if v.CanSet() && v.Len() > 0 {
			*out = append(*out, leaf{path + "[]", v})
		}
		for i := 0; i < v.Len(); i++ {
			collectLeaves(fmt.Sprintf("%s[%d]", path, i), v.Index(i), out)
		}
	case reflect.Map:
		if v.CanSet() && v.Len() > 0 {
			*out = append(*out, leaf{path + "{}", v})
		}
		// map values are not addressable: rebuilt by the map-level alteration
	}
}

// kindOfPath: the path with indices removed, for the measured distribution
func kindOfPath(p string) string {
	var sb strings.Builder
	skip := false
	for _, c := range p {
		if c == '[' {
			skip = true
			sb.WriteString("[")
			continue
		}
		if c == ']' {
			skip = false
		}
		if !skip {
			sb.WriteRune(c)
		}
	}
	return sb.String()
}

// alter changes one leaf in place; returns a description, or "" if nothing could be changed
func alter(l leaf, rng *Rng) string {
	switch l.v.Kind() {
	case reflect.Ptr:
		cur := l.v.Interface().(*gbig.Int)
		switch rng.Intn(5) {
		case 0:
			l.v.Set(reflect.Zero(l.v.Type()))
			return "nil"
		case 1:
			l.v.Set(reflect.ValueOf(bi(0)))
			if cur != nil && cur.Sign() == 0 {
				l.v.Set(reflect.ValueOf(bi(1)))
			}
			return "zero"
		default:
			if cur == nil {
				l.v.Set(reflect.ValueOf(bi(1)))
				return "set"
			}
			l.v.Set(reflect.ValueOf(new(gbig.Int).Add(cur, bi(1))))
			return "+1"
		}
	case reflect.Slice:
		switch rng.Intn(3) {
		case 0:
			l.v.Set(l.v.Slice(0, l.v.Len()-1))
			return "truncated"
		case 1:
			l.v.Set(reflect.Append(l.v, l.v.Index(0)))
			return "extended"
		default:
			if l.v.Len() >= 2 {
				a, b := l.v.Index(0).Interface(), l.v.Index(l.v.Len()-1).Interface()
				if !reflect.DeepEqual(a, b) {
					tmp := reflect.ValueOf(a)
					l.v.Index(0).Set(l.v.Index(l.v.Len() - 1))
					l.v.Index(l.v.Len() - 1).Set(tmp)
					return "swapped"
				}
			}
			l.v.Set(l.v.Slice(0, l.v.Len()-1))
			return "truncated"
		}
	case reflect.Map:
		keys := l.v.MapKeys()
		sort.Slice(keys, func(i, j int) bool { return keys[i].String() < keys[j].String() })
		k := keys[rng.Intn(len(keys))]
		switch rng.Intn(3) {
		case 0:
			l.v.SetMapIndex(k, reflect.Value{})
			return "key-deleted"
		case 1:
			// one entry of the list altered
			old := l.v.MapIndex(k)
			n := reflect.MakeSlice(old.Type(), old.Len(), old.Len())
			reflect.Copy(n, old)
			if n.Len() > 0 {
				i := rng.Intn(n.Len())
				if x, ok := n.Index(i).Interface().(*gbig.Int); ok && x != nil {
					n.Index(i).Set(reflect.ValueOf(new(gbig.Int).Add(x, bi(1))))
				}
			}
			l.v.SetMapIndex(k, n)
			return "entry+1"
		default:
			old := l.v.MapIndex(k)
			if old.Len() > 0 {
				l.v.SetMapIndex(k, old.Slice(0, old.Len()-1))
				return "entry-truncated"
			}
			l.v.SetMapIndex(k, reflect.Value{})
			return "key-deleted"
		}
	}
	return ""
}

// clone through the serialisation the proofs travel in
func jsonClone(src, dst interface{}) {
	b, err := json.Marshal(src)
	if err != nil {
		panic(err)
	}
	if err := json.Unmarshal(b, dst); err != nil {
		panic(err)
	}
}

func sameList(a, b []*gbig.Int) bool {
	if len(a) != len(b) {
		return false
	}
	for i := range a {
		if (a[i] == nil) != (b[i] == nil) || (a[i] != nil && a[i].Cmp(b[i]) != 0) {
			return false
		}
	}
	return true
}

func checkV(structure bool, list []*gbig.Int, panicked bool) V {
	if !structure {
		return L{0, nil}
	}
	if panicked {
		return L{1, panicV()}
	}
	return L{1, okV(dumpBigs(list))}
}

// a range-proof map with an unexpected extra key makes the verifier index out of range; that is a
// crash on hostile input, not an acceptance: recorded, not counted against C17
func notePanic(s *Suite, what string) { s.Count("verifier-panicked-on-altered-proof:" + what) }

func suiteC17(s *Suite, rng *Rng, tier string) {
	lr := &lockedReader{rng: rng}
	useReader(lr)
	var seed [32]byte
	rng.Read(seed[:])
	gabi.VerifSetGlobalCPRNG(&seed)
	thorough := tier == "thorough"

	c17Gennaro(s, rng, thorough)
	c17Components(s, rng, thorough)
	c17Whole(s, rng, thorough)

	s.Notes["rule"] = "(a) quasi-safe-prime-product proofs (square-free, prime-power-product, disjoint-prime-product, almost-safe-prime-product) on good toy moduli, with every response altered, and on bad moduli " +
		"(square factor, three prime factors, prime power, prime, factors that are not almost safe primes, N not 5 mod 8, small factor) with best-effort cheating provers knowing the factorisation; " +
		"(b) the Camenisch-style components (pedersen, multiplication, exponentiation with its OR-composed steps, primality, bases-are-squares) built and checked through in-package hooks over small groups, honest / simulated / " +
		"altered in one leaf chosen over the whole proof tree, model commitments compared with the implementation's; (c) whole key proofs at 48..96-bit primes with 1..4 bases through the public API: honest, after a JSON round trip, " +
		"against another modulus or base list, and with sampled single-leaf alterations; distinct by (component, instance, altered path)"
}

// ---------- (a) Gennaro proofs ----------

func nextSafePrime(rng *Rng, bits int) *gbig.Int {
	for {
		x, err := safeprime.Generate(bits, nil)
		if err == nil && x != nil {
			return x
		}
	}
}

func qsppCase(s *Suite, kind string, n, c *gbig.Int, proof keyproof.QuasiSafePrimeProductProof, small bool) (structure, ok, panicked bool) {
	in := L{n, c, b2i(n.ProbablyPrime(40)), dQspp(proof)}
	func() {
		defer func() {
			if r := recover(); r != nil {
				panicked = true
			}
		}()
		structure, ok = keyproof.VerifQuasiSafePrimeProductVerify(n, c, proof)
	}()
	var out V
	switch {
	case !structure && !panicked:
		out = L{0, nil}
	case panicked:
		out = L{1, panicV()}
	default:
		out = L{1, okV(b2i(ok))}
	}
	s.Add(1703, "qspp:"+kind, small, in, out)
	return
}

func c17Gennaro(s *Suite, rng *Rng, thorough bool) {
	nGood := 6
	if thorough {
		nGood = 60
	}
	var lastGood keyproof.QuasiSafePrimeProductProof
	var lastN *gbig.Int
	for it := 0; it < nGood; it++ {
		bits := 24 + rng.Intn(24)
		switch it % 6 {
		case 0:
			bits = 66 + rng.Intn(31) // moduli above 128 bits: the per-round challenges of the sub-proofs span two hash blocks
		case 1:
			bits = 63 + rng.Intn(4) // around the one-block / two-block boundary
		}
		p, q := toyKeyPrimes(bits)
		pp, qp := new(gbig.Int).Rsh(p, 1), new(gbig.Int).Rsh(q, 1)
		n := new(gbig.Int).Mul(p, q)
		c := rng.Bits(256)
		_, proof := keyproof.VerifQuasiSafePrimeProductBuild(pp, qp, c)
		st, ok, pan := qsppCase(s, "good", n, c, proof, false)
		s.Nontrivial[fmt.Sprint("qspp-good", n)] = true
		if !st || !ok || pan {
			s.Violate("C17:good-modulus-rejected", fmt.Sprintf("quasi-safe prime product proof for N=%v (p=%v, q=%v) does not verify", n, p, q), L{p, q, c})
			continue
		}
		lastGood, lastN = proof, n
		// another challenge, another modulus
		if _, ok2, _ := qsppCase(s, "other-challenge", n, new(gbig.Int).Add(c, bi(1)), proof, false); ok2 {
			s.Violate("C17:qspp-accepted-under-other-challenge", "proof verifies under a different challenge", L{p, q, c})
		}
		p2, q2 := toyKeyPrimes(bits)
		if _, ok2, _ := qsppCase(s, "other-modulus", new(gbig.Int).Mul(p2, q2), c, proof, false); ok2 {
			s.Violate("C17:qspp-accepted-for-other-modulus", "proof verifies for a different modulus", L{p, q, p2, q2, c})
		}
		// every kind of response altered
		nAlt := 12
		if thorough {
			nAlt = 60
		}
		for k := 0; k < nAlt; k++ {
			var cp keyproof.QuasiSafePrimeProductProof
			jsonClone(proof, &cp)
			var leaves []leaf
			collectLeaves("QSPP", reflect.ValueOf(&cp).Elem(), &leaves)
			l := leaves[rng.Intn(len(leaves))]
			how := alter(l, rng)
			kind := kindOfPath(l.path) + ":" + how
			st, ok, pan := qsppCase(s, "altered:"+kind, n, c, cp, false)
			s.Nontrivial[fmt.Sprint("qspp-alt", n, l.path, how)] = true
			if pan {
				notePanic(s, kindOfPath(l.path))
			}
			if st && ok && !pan {
				s.Violate("C17:altered-qspp-accepted:"+kindOfPath(l.path), "quasi-safe prime product proof verifies after alteration "+l.path+" "+how, L{p, q, c, l.path, how})
			}
		}
	}
	_ = lastGood
	_ = lastN
	// bad moduli with cheating provers
	nBad := 3
	if thorough {
		nBad = 20
	}
	for it := 0; it < nBad; it++ {
		c17BadModuli(s, rng, it)
	}
}

// best-effort cheating: the prover knows the factorisation and computes whatever roots exist
func c17BadModuli(s *Suite, rng *Rng, it int) {
	one := bi(1)
	smallPrime := func(bits int) *gbig.Int { // a prime >= 1031
		for {
			x := rng.Bits(bits)
			x.SetBit(x, bits-1, 1).SetBit(x, 0, 1)
			if x.Cmp(bi(1031)) >= 0 && x.ProbablyPrime(30) {
				return x
			}
		}
	}
	p, q, r := smallPrime(14+rng.Intn(6)), smallPrime(14+rng.Intn(6)), smallPrime(14+rng.Intn(6))
	for p.Cmp(q) == 0 || q.Cmp(r) == 0 || p.Cmp(r) == 0 {
		q, r = smallPrime(16), smallPrime(17)
	}
	c := rng.Bits(256)
	hashN := func(index int64, i int, n *gbig.Int) *gbig.Int {
		x := gabi.VerifGetHashNumber(c, bi(index), i, uint(n.BitLen()))
		return x.Mod(x, n)
	}
	// e-th root of x modulo n with known factorisation, if x is an e-th power residue: tries x^(e^-1 mod lambda') for the
	// part of the group order coprime to e, then checks
	root := func(x, e, n, phi *gbig.Int) *gbig.Int {
		g := new(gbig.Int).GCD(nil, nil, e, phi)
		ph := new(gbig.Int).Set(phi)
		for g.Cmp(one) != 0 {
			ph.Div(ph, g)
			g.GCD(nil, nil, e, ph)
		}
		inv := new(gbig.Int).ModInverse(e, ph)
		if inv == nil {
			return bi(1)
		}
		y := new(gbig.Int).Exp(x, inv, n)
		return y
	}
	sfResponses := func(n, phi *gbig.Int) []*gbig.Int {
		var out []*gbig.Int
		for i := 0; i < 8; i++ {
			out = append(out, root(hashN(0, i, n), n, n, phi))
		}
		return out
	}
	check := func(kind string, which int, n *gbig.Int, rs []*gbig.Int) {
		in := L{which, n, c, b2i(n.ProbablyPrime(40)), bigsOrNilV(rs)}
		var st, ok bool
		switch which {
		case 0:
			st, ok = keyproof.VerifSquareFreeVerify(n, c, bi(0), keyproof.SquareFreeProof{Responses: rs})
		case 1:
			st, ok = keyproof.VerifPrimePowerProductVerify(n, c, bi(1), keyproof.PrimePowerProductProof{Responses: rs})
		case 2:
			st, ok = keyproof.VerifDisjointPrimeProductVerify(n, c, bi(2), keyproof.DisjointPrimeProductProof{Responses: rs})
		}
		var out V
		if which == 0 {
			out = L{b2i(st), okV(b2i(ok))}
		} else if !st {
			out = L{0, nil}
		} else {
			out = L{1, okV(b2i(ok))}
		}
		s.Add(1704, "bad-modulus:"+kind, it == 0, in, out)
		s.Nontrivial[fmt.Sprint("bad", kind, n)] = true
		if st && ok {
			s.Violate("C17:bad-modulus-accepted:"+kind, fmt.Sprintf("component proof accepts N=%v (%s)", n, kind), L{kind, n, c})
		}
	}
	pm1 := func(x *gbig.Int) *gbig.Int { return new(gbig.Int).Sub(x, one) }
	// not square-free: N = p^2 q
	n1 := new(gbig.Int).Mul(new(gbig.Int).Mul(p, p), q)
	phi1 := new(gbig.Int).Mul(new(gbig.Int).Mul(p, pm1(p)), pm1(q))
	check("square-factor/squarefree", 0, n1, sfResponses(n1, phi1))
	// three prime factors: prime power product proof (+-x, +-2x squares) with real square roots where they exist
	n2 := new(gbig.Int).Mul(new(gbig.Int).Mul(p, q), r)
	var ppp []*gbig.Int
	for i := 0; i < 80; i++ {
		x := hashN(1, i, n2)
		cands := []*gbig.Int{x, new(gbig.Int).Mod(new(gbig.Int).Neg(x), n2), new(gbig.Int).Mod(new(gbig.Int).Lsh(x, 1), n2),
			new(gbig.Int).Mod(new(gbig.Int).Neg(new(gbig.Int).Lsh(x, 1)), n2)}
		resp := bi(1)
		for _, cd := range cands {
			if y, ok := gabi.VerifModSqrt(cd, []*gbig.Int{p, q, r}); ok {
				resp = y
				break
			}
		}
		ppp = append(ppp, resp)
	}
	check("three-factors/primepowerproduct", 1, n2, ppp)
	// a stronger cheater for moduli whose prime factors are all 3 mod 4: choose, per prime, the sign that makes the
	// challenge a square there; the response then squares to e*c for a square root of unity e (accepted only by a
	// verifier that forgets the sign)
	{
		p3 := func() *gbig.Int {
			for {
				x := smallPrime(14 + rng.Intn(6))
				if new(gbig.Int).Mod(x, bi(4)).Int64() == 3 {
					return x
				}
			}
		}
		a, b, cc := p3(), p3(), p3()
		for a.Cmp(b) == 0 || b.Cmp(cc) == 0 || a.Cmp(cc) == 0 {
			b, cc = p3(), p3()
		}
		n := new(gbig.Int).Mul(new(gbig.Int).Mul(a, b), cc)
		var rs []*gbig.Int
		for i := 0; i < 80; i++ {
			x := hashN(1, i, n)
			var roots []*gbig.Int
			for _, pr := range []*gbig.Int{a, b, cc} {
				y := new(gbig.Int).Mod(x, pr)
				if gabi.VerifLegendreSymbol(y, pr) == -1 {
					y.Sub(pr, y)
				}
				rt, ok := gabi.VerifPrimeSqrt(y, pr)
				if !ok {
					rt = bi(1)
				}
				roots = append(roots, rt)
			}
			r12 := gabi.VerifCrt(roots[0], a, roots[1], b)
			rs = append(rs, gabi.VerifCrt(r12, new(gbig.Int).Mul(a, b), roots[2], cc))
		}
		check("three-factors/primepowerproduct-sign-cheater", 1, n, rs)
	}
	// a prime power N = p^2 and a prime N = p: disjoint prime product proof
	n3 := new(gbig.Int).Mul(p, p)
	phi3 := new(gbig.Int).Mul(p, pm1(p))
	odd := func(n *gbig.Int) *gbig.Int {
		o := pm1(n)
		for o.Bit(0) == 0 && o.Sign() > 0 {
			o.Rsh(o, 1)
		}
		return o
	}
	var dpp []*gbig.Int
	for i := 0; i < 8; i++ {
		dpp = append(dpp, root(hashN(2, i, n3), odd(n3), n3, phi3))
	}
	check("prime-power/disjointprimeproduct", 2, n3, dpp)
	var dpp2 []*gbig.Int
	for i := 0; i < 8; i++ {
		dpp2 = append(dpp2, root(hashN(2, i, p), odd(p), p, pm1(p)))
	}
	check("prime/disjointprimeproduct", 2, p, dpp2)
	// the combined proof on moduli of a forbidden shape: an honest-style prover for a product of two primes that are
	// not safe (2ab+1 with two odd primes a, b), N not 5 mod 8, N with a factor below 1024
	mk := func() (*gbig.Int, *gbig.Int) { // prime P = 2ab+1
		for {
			a, b := smallPrime(11+rng.Intn(4)), smallPrime(11+rng.Intn(4))
			P := new(gbig.Int).Mul(a, b)
			P.Lsh(P, 1).Add(P, one)
			if P.ProbablyPrime(30) {
				return P, new(gbig.Int).Mul(a, b)
			}
		}
	}
	P, _ := mk()
	Q := nextSafePrime(rng, 30)
	nb := new(gbig.Int).Mul(P, Q)
	c17CheatQspp(s, rng, "factor-not-almost-safe", nb, []*gbig.Int{P, Q}, c, false)
	// product of two safe primes with N not 5 mod 8
	for tries := 0; tries < 200; tries++ {
		a, b := nextSafePrime(rng, 28), nextSafePrime(rng, 28)
		n := new(gbig.Int).Mul(a, b)
		if new(gbig.Int).Mod(n, bi(8)).Int64() != 5 && a.Cmp(b) != 0 {
			c17CheatQspp(s, rng, "not-5-mod-8", n, []*gbig.Int{a, b}, c, false)
			break
		}
	}
	// N = 7 mod 8 with one factor that is 1 mod 4: P = 4a+1 (a prime, a = 3 mod 8), Q = 2q'+1 safe (q' = 5 mod 8). A prover who
	// knows the factorisation can answer all four Gennaro sub-proofs for such an N (-1 and 2 reach every quadratic-residue
	// class modulo N and modulo a*q'), so only the rule N = 5 mod 8 keeps it out
	for tries := 0; tries < 100000; tries++ {
		a := rng.Bits(26)
		a.SetBit(a, 25, 1)
		a.Sub(a, new(gbig.Int).Mod(a, bi(24))).Add(a, bi(19))
		P := new(gbig.Int).Lsh(a, 2)
		P.Add(P, one)
		if !a.ProbablyPrime(30) || !P.ProbablyPrime(30) {
			continue
		}
		var Q, qp *gbig.Int
		for {
			qp = rng.Bits(27)
			qp.SetBit(qp, 26, 1)
			qp.Sub(qp, new(gbig.Int).Mod(qp, bi(24))).Add(qp, bi(5))
			Q = new(gbig.Int).Lsh(qp, 1)
			Q.Add(Q, one)
			if qp.ProbablyPrime(30) && Q.ProbablyPrime(30) {
				break
			}
		}
		n := new(gbig.Int).Mul(P, Q)
		phi := new(gbig.Int).Mul(pm1(P), pm1(Q))
		oddN := pm1(n)
		for oddN.Bit(0) == 0 {
			oddN.Rsh(oddN, 1)
		}
		if new(gbig.Int).GCD(nil, nil, n, phi).Cmp(one) != 0 || new(gbig.Int).GCD(nil, nil, oddN, phi).Cmp(one) != 0 {
			continue
		}
		c17CheatQspp(s, rng, "7-mod-8-with-factor-1-mod-4", n, []*gbig.Int{P, Q}, c, false)
		break
	}
	// small factor
	sp := bi([]int64{3, 7, 11, 23, 47, 59, 83, 107, 167, 179, 227, 263, 347, 359, 383, 467, 479, 503, 563, 587, 719, 839, 863, 887, 983, 1019}[rng.Intn(26)])
	b := nextSafePrime(rng, 30)
	c17CheatQspp(s, rng, "factor-below-1024", new(gbig.Int).Mul(sp, b), []*gbig.Int{sp, b}, c, false)
}

// an honest-style prover run on a modulus of forbidden shape: every response is computed with the real factorisation,
// taking whichever root exists
func c17CheatQspp(s *Suite, rng *Rng, kind string, n *gbig.Int, factors []*gbig.Int, c *gbig.Int, small bool) {
	one := bi(1)
	phi := bi(1)
	for _, f := range factors {
		phi.Mul(phi, new(gbig.Int).Sub(f, one))
	}
	hashN := func(a, b *gbig.Int, i int, bits uint) *gbig.Int { return gabi.VerifGetHashNumber(a, b, i, bits) }
	var proof keyproof.QuasiSafePrimeProductProof
	inv := func(e *gbig.Int) *gbig.Int {
		ph := new(gbig.Int).Set(phi)
		g := new(gbig.Int).GCD(nil, nil, e, ph)
		for g.Cmp(one) != 0 {
			ph.Div(ph, g)
			g.GCD(nil, nil, e, ph)
		}
		return new(gbig.Int).ModInverse(e, ph)
	}
	m := inv(n)
	for i := 0; i < 8; i++ {
		x := hashN(c, bi(0), i, uint(n.BitLen()))
		x.Mod(x, n)
		proof.SFproof.Responses = append(proof.SFproof.Responses, new(gbig.Int).Exp(x, m, n))
	}
	for i := 0; i < 80; i++ {
		x := hashN(c, bi(1), i, uint(n.BitLen()))
		x.Mod(x, n)
		cands := []*gbig.Int{x, new(gbig.Int).Mod(new(gbig.Int).Neg(x), n), new(gbig.Int).Mod(new(gbig.Int).Lsh(x, 1), n),
			new(gbig.Int).Mod(new(gbig.Int).Neg(new(gbig.Int).Lsh(x, 1)), n)}
		resp := bi(1)
		for _, cd := range cands {
			if y, ok := gabi.VerifModSqrt(cd, factors); ok {
				resp = y
				break
			}
		}
		proof.PPPproof.Responses = append(proof.PPPproof.Responses, resp)
	}
	oddN := new(gbig.Int).Sub(n, one)
	for oddN.Bit(0) == 0 {
		oddN.Rsh(oddN, 1)
	}
	mo := inv(oddN)
	for i := 0; i < 8; i++ {
		x := hashN(c, bi(2), i, uint(n.BitLen()))
		x.Mod(x, n)
		proof.DPPproof.Responses = append(proof.DPPproof.Responses, new(gbig.Int).Exp(x, mo, n))
	}
	// almost-safe-prime-product part: logs known, roots of +-x, +-x/2 modulo the odd part of phi where they exist
	oddPhi := new(gbig.Int).Set(phi)
	for oddPhi.Bit(0) == 0 {
		oddPhi.Rsh(oddPhi, 1)
	}
	var oddFactors []*gbig.Int
	{
		// factor the odd part of phi: trial division on each f-1 (toy sizes), stopping at a prime cofactor
		seen := map[string]bool{}
		add := func(d *gbig.Int) {
			if !seen[d.String()] {
				seen[d.String()] = true
				oddFactors = append(oddFactors, d)
			}
		}
		for _, f := range factors {
			rest := new(gbig.Int).Sub(f, one)
			for rest.Bit(0) == 0 && rest.Sign() > 0 {
				rest.Rsh(rest, 1)
			}
			for d := int64(3); rest.Cmp(one) != 0 && d < 1<<22; d += 2 {
				if rest.ProbablyPrime(30) {
					break
				}
				dd := bi(d)
				for new(gbig.Int).Mod(rest, dd).Sign() == 0 {
					add(dd)
					rest.Div(rest, dd)
				}
			}
			if rest.Cmp(one) != 0 {
				add(rest)
			}
		}
	}
	nonce := rng.Bits(256)
	proof.ASPPproof.Nonce = nonce
	half := new(gbig.Int).ModInverse(bi(2), oddPhi)
	for i := 0; i < 250; i++ {
		base := hashN(nonce, nil, i, uint(n.BitLen()))
		base.Mod(base, n)
		lg := rng.Below(phi)
		proof.ASPPproof.Commitments = append(proof.ASPPproof.Commitments, new(gbig.Int).Exp(base, lg, n))
		x := hashN(c, bi(3), i, uint(2*n.BitLen()))
		l2 := new(gbig.Int).Mod(new(gbig.Int).Add(lg, x), phi)
		x1 := new(gbig.Int).Mod(l2, oddPhi)
		x2 := new(gbig.Int).Sub(oddPhi, x1)
		x3 := new(gbig.Int).Mod(new(gbig.Int).Mul(half, x1), oddPhi)
		x4 := new(gbig.Int).Sub(oddPhi, x3)
		resp := bi(1)
		squarefree := true
		for _, f := range oddFactors {
			if new(gbig.Int).Mod(new(gbig.Int).Div(oddPhi, f), f).Sign() == 0 {
				squarefree = false
			}
		}
		if squarefree {
			for _, cd := range []*gbig.Int{x1, x2, x3, x4} {
				if y, ok := gabi.VerifModSqrt(cd, oddFactors); ok {
					resp = y
					break
				}
			}
		}
		proof.ASPPproof.Responses = append(proof.ASPPproof.Responses, resp)
	}
	st, ok, pan := qsppCase(s, "bad-modulus:"+kind, n, c, proof, small)
	s.Nontrivial[fmt.Sprint("bad-qspp", kind, n)] = true
	if st && ok && !pan {
		s.Violate("C17:bad-modulus-accepted:"+kind, fmt.Sprintf("quasi-safe prime product proof accepts N=%v (%s)", n, kind), L{kind, n, c})
	}
}

// ---------- (b) components over small groups ----------

func c17Components(s *Suite, rng *Rng, thorough bool) {
	rounds := 3
	if thorough {
		rounds = 30
	}
	for round := 0; round < rounds; round++ {
		gp := nextSafePrime(rng, 80+rng.Intn(40))
		c := rng.Bits(256)
		small := round == 0
		// --- a single pedersen commitment
		{
			env, _ := keyproof.VerifNewEnv(gp)
			fromSecrets := env.Add("v", rng.Bits(40))
			envp := env.Proofs(c)
			c17Component(s, rng, "pedersen", small, fromSecrets, true, &envp[0], 4, func(p interface{}) (bool, []*gbig.Int, bool, V) {
				pr := p.(*keyproof.PedersenProof)
				st, list, pan := keyproof.VerifPedersenCheck(gp, "v", c, *pr)
				return st, list, pan, L{1710, L{gp, strV("v"), c, dPed(*pr)}}
			}, func() interface{} { var cp keyproof.PedersenProof; jsonClone(envp[0], &cp); return &cp })
		}
		// --- multiplication: a*b = r (mod m)
		{
			env, _ := keyproof.VerifNewEnv(gp)
			m := bi(int64(200 + rng.Intn(3000)))
			a, b := rng.Below(m), rng.Below(m)
			r := new(gbig.Int).Mod(new(gbig.Int).Mul(a, b), m)
			names := []string{"a", "b", "m", "r"}
			for i, v := range []*gbig.Int{a, b, m, r} {
				env.Add(names[i], v)
			}
			l := uint(m.BitLen())
			fromSecrets, proof, isTrue := env.VerifMulBuild("a", "b", "m", "r", l, c)
			envp := env.Proofs(c)
			c17Component(s, rng, "mul", false, fromSecrets, isTrue, &proof, 6, func(p interface{}) (bool, []*gbig.Int, bool, V) {
				pr := p.(*keyproof.MultiplicationProof)
				st, list, pan := keyproof.VerifMulCheck(gp, names, cloneEnv(envp), "a", "b", "m", "r", l, c, *pr)
				return st, list, pan, L{1711, L{gp, dEnv(names, envp), L{strV("a"), strV("b"), strV("m"), strV("r")}, l, c, dMul(*pr)}}
			}, func() interface{} { var cp keyproof.MultiplicationProof; jsonClone(proof, &cp); return &cp })
		}
		// --- exponentiation: b^e = r (mod m), bit length 3..6
		{
			env, _ := keyproof.VerifNewEnv(gp)
			bl := uint(3 + rng.Intn(4))
			m := bi(int64(5 + rng.Intn(1<<bl-6)))
			b := rng.Below(m)
			e := rng.Bits(int(bl))
			r := new(gbig.Int).Exp(b, e, m)
			if r.Cmp(new(gbig.Int).Sub(m, bi(1))) == 0 {
				r = bi(-1) // the exponentiation proof represents the residue m-1 as -1 (exp.go:262, primeproof.go:222)
			}
			names := []string{"b", "e", "m", "r"}
			for i, v := range []*gbig.Int{b, e, m, r} {
				env.Add(names[i], v)
			}
			fromSecrets, proof, isTrue := env.VerifExpBuild("b", "e", "m", "r", bl, c)
			envp := env.Proofs(c)
			chk := func(p interface{}) (bool, []*gbig.Int, bool, V) {
				pr := p.(*keyproof.ExpProof)
				st, list, pan := keyproof.VerifExpCheck(gp, names, cloneEnv(envp), "b", "e", "m", "r", bl, c, *pr)
				return st, list, pan, L{1712, L{gp, dEnv(names, envp), L{strV("b"), strV("e"), strV("m"), strV("r")}, bl, c, dExp(*pr)}}
			}
			// every step is an OR-composition whose two challenge shares must XOR to the challenge: a changed share must fail the
			// structure check at every step (the last one included), otherwise a prover can simulate both branches of that step
			for i := range proof.InterStepsProofs {
				for _, which := range []string{"A", "B"} {
					var cp keyproof.ExpProof
					jsonClone(proof, &cp)
					if which == "A" {
						cp.InterStepsProofs[i].Achallenge = new(gbig.Int).Xor(cp.InterStepsProofs[i].Achallenge, bi(1))
					} else {
						cp.InterStepsProofs[i].Bchallenge = new(gbig.Int).Xor(cp.InterStepsProofs[i].Bchallenge, bi(1))
					}
					st, list, pan, cs := chk(&cp)
					csl := cs.(L)
					s.Add(csl[0].(int), "exp:step-challenge-share-changed", false, csl[1], checkV(st, list, pan))
					if st && !pan {
						s.Violate("C17:step-challenge-split-unchecked", fmt.Sprintf("exponentiation proof of %d steps: the %s share of step %d was changed and the structure check still passes", len(proof.InterStepsProofs), which, i), L{gp, c, bl, i, which})
					}
				}
			}
			c17Component(s, rng, "exp", false, fromSecrets, isTrue, &proof, 10, chk,
				func() interface{} { var cp keyproof.ExpProof; jsonClone(proof, &cp); return &cp })
			// a simulated proof (as inside an OR-composition) must be structurally fine; the model must agree on its commitments
			fake := keyproof.VerifExpFake(gp, "b", "e", "m", "r", bl, c)
			st, list, pan, cs := chk(&fake)
			csl := cs.(L)
			s.Add(csl[0].(int), "exp:simulated", false, csl[1], checkV(st, list, pan))
			if !st {
				s.Violate("C17:simulated-proof-malformed", "a simulated exponentiation proof fails the structure check", L{gp, c})
			}
		}
		// --- primality of a small prime
		{
			env, _ := keyproof.VerifNewEnv(gp)
			bl := uint(4 + rng.Intn(3))
			var x *gbig.Int
			for {
				x = rng.Bits(int(bl))
				x.SetBit(x, int(bl)-1, 1).SetBit(x, 0, 1)
				if x.ProbablyPrime(20) {
					break
				}
			}
			names := []string{"x"}
			env.Add("x", x)
			// the library's prover derives its base a as (random + hash) mod x and gives up with a panic when that is 0
			// ("rare generation error"): probability 1/x, negligible for the primes of a real key, a few percent for the
			// 4..6-bit primes of this component test; the prover is then simply run again
			var fromSecrets []*gbig.Int
			var proof keyproof.PrimeProof
			for try := 0; ; try++ {
				gaveUp := false
				func() {
					defer func() {
						if r := recover(); r != nil {
							if msg, ok := r.(string); ok && msg == "Generated a outside of Z*" && try < 50 {
								gaveUp = true
								return
							}
							panic(r)
						}
					}()
					fromSecrets, proof = env.VerifPrimeBuild("x", bl, c)
				}()
				if !gaveUp {
					break
				}
				s.Dist["prime:prover-gave-up-and-was-rerun"]++
			}
			envp := env.Proofs(c)
			c17Component(s, rng, "prime", false, fromSecrets, true, &proof, 12, func(p interface{}) (bool, []*gbig.Int, bool, V) {
				pr := p.(*keyproof.PrimeProof)
				st, list, pan := keyproof.VerifPrimeCheck(gp, names, cloneEnv(envp), "x", bl, c, *pr)
				return st, list, pan, L{1713, L{gp, dEnv(names, envp), strV("x"), bl, c, dPrime(*pr)}}
			}, func() interface{} { var cp keyproof.PrimeProof; jsonClone(proof, &cp); return &cp })
		}
		// --- bases are squares modulo a toy modulus
		{
			p, q := nextSafePrime(rng, 8+rng.Intn(4)), nextSafePrime(rng, 8+rng.Intn(4))
			for p.Cmp(q) == 0 {
				q = nextSafePrime(rng, 9)
			}
			n := new(gbig.Int).Mul(p, q)
			nb := 1 + rng.Intn(3)
			var squares []*gbig.Int
			for i := 0; i < nb; i++ {
				r := rng.Below(n)
				squares = append(squares, r.Mul(r, r).Mod(r, n))
			}
			fromSecrets, proof := keyproof.VerifIsSquareBuild(gp, p, q, squares, c)
			c17Component(s, rng, "issquare", false, fromSecrets, true, &proof, 8, func(pi interface{}) (bool, []*gbig.Int, bool, V) {
				pr := pi.(*keyproof.IsSquareProof)
				st, list, pan := keyproof.VerifIsSquareCheck(gp, n, squares, c, *pr)
				return st, list, pan, L{1714, L{gp, n, dumpBigs(squares), c, dIsSquare(*pr)}}
			}, func() interface{} { var cp keyproof.IsSquareProof; jsonClone(proof, &cp); return &cp })
			// the same proof against another base list
			other := append([]*gbig.Int{}, squares...)
			other[0] = new(gbig.Int).Add(other[0], bi(1))
			st, list, pan := keyproof.VerifIsSquareCheck(gp, n, other, c, proof)
			s.Add(1714, "issquare:other-bases", false, L{gp, n, dumpBigs(other), c, dIsSquare(proof)}, checkV(st, list, pan))
			if st && !pan && sameList(list, fromSecrets) {
				s.Violate("C17:other-bases-same-commitments", "bases-are-squares proof yields the prover's commitments for a different base list", L{gp, n, c})
			}
		}
	}
}

func cloneEnv(e []keyproof.PedersenProof) []keyproof.PedersenProof {
	var cp []keyproof.PedersenProof
	jsonClone(e, &cp)
	return cp
}

// c17Component: honest proof must reproduce the prover's commitments (completeness); every alteration of one leaf must
// change the reconstructed commitments, fail the structure check, or crash - never reproduce them (binding)
func c17Component(s *Suite, rng *Rng, name string, small bool, fromSecrets []*gbig.Int, isTrue bool, proof interface{}, nAlt int,
	check func(interface{}) (bool, []*gbig.Int, bool, V), clone func() interface{}) {
	if !isTrue {
		s.Violate("C17:"+name+"-statement-false", "harness built a false statement", L{name})
		return
	}
	st, list, pan, cs := check(clone())
	csl := cs.(L)
	s.Add(csl[0].(int), name+":honest", small, csl[1], checkV(st, list, pan))
	s.Nontrivial[fmt.Sprint(name, "honest", S(csl[1])[:40])] = true
	if !st || pan || !sameList(list, fromSecrets) {
		s.Violate("C17:"+name+"-honest-proof-rejected", "commitments reconstructed from an honest "+name+" proof differ from the prover's (or structure check failed)", L{name})
		return
	}
	// one alteration per kind of leaf (all kinds of the proof tree), plus nAlt random ones
	var kinds []string
	byKind := map[string][]int{}
	{
		cp := clone()
		var leaves []leaf
		collectLeaves(name, reflect.ValueOf(cp).Elem(), &leaves)
		for i, l := range leaves {
			k := kindOfPath(l.path)
			if _, ok := byKind[k]; !ok {
				kinds = append(kinds, k)
			}
			byKind[k] = append(byKind[k], i)
		}
		sort.Strings(kinds)
	}
	try := func(idx int, boundary int) {
		cp := clone()
		var leaves []leaf
		collectLeaves(name, reflect.ValueOf(cp).Elem(), &leaves)
		l := leaves[idx]
		var how string
		if boundary >= 0 {
			how = alterBoundary(l, boundary)
			if how == "" {
				return
			}
		} else {
			how = alter(l, rng)
		}
		kp := kindOfPath(l.path)
		kind := name + ":altered:" + kp + ":" + how
		st, list, pan, cs := check(cp)
		csl := cs.(L)
		s.Add(csl[0].(int), kind, false, csl[1], checkV(st, list, pan))
		s.Nontrivial[fmt.Sprint(name, l.path, how)] = true
		if pan {
			notePanic(s, name)
		}
		if boundary < 0 && st && !pan && sameList(list, fromSecrets) {
			s.Violate("C17:altered-"+name+"-proof-accepted:"+kp, name+" proof still yields the prover's commitments after alteration "+l.path+" "+how, L{name, l.path, how})
		}
		// the sub-challenges of an OR-composition are tied to the outer challenge by the structure check
		if boundary < 0 && st && !pan && (strings.HasSuffix(kp, "Achallenge") || strings.HasSuffix(kp, "Bchallenge") ||
			strings.HasSuffix(kp, "APlus1Challenge") || strings.HasSuffix(kp, "AMin1Challenge")) {
			s.Violate("C17:or-challenge-not-checked", name+" proof passes the structure check with an altered OR sub-challenge ("+l.path+" "+how+"): both branches could be simulated", L{name, l.path, how})
		}
	}
	for _, k := range kinds {
		try(byKind[k][rng.Intn(len(byKind[k]))], -1)
		if strings.HasSuffix(k, "Results{}") {
			// size limit of range-proof results: values at and next to powers of two around the honest size
			for b := 0; b < 4; b++ {
				try(byKind[k][rng.Intn(len(byKind[k]))], b)
			}
		}
	}
	for k := 0; k < nAlt; k++ {
		kk := kinds[rng.Intn(len(kinds))]
		try(byKind[kk][rng.Intn(len(byKind[kk]))], -1)
	}
}

// alterBoundary sets one entry of the largest-valued list of a range-proof result map to 2^(bitlen+d) - e
func alterBoundary(l leaf, b int) string {
	if l.v.Kind() != reflect.Map {
		return ""
	}
	var best reflect.Value
	bestBits := -1
	for _, k := range l.v.MapKeys() {
		lst := l.v.MapIndex(k)
		if lst.Len() == 0 {
			continue
		}
		if x, ok := lst.Index(0).Interface().(*gbig.Int); ok && x != nil && x.BitLen() > bestBits {
			best, bestBits = k, x.BitLen()
		}
	}
	if bestBits < 0 {
		return ""
	}
	old := l.v.MapIndex(best)
	n := reflect.MakeSlice(old.Type(), old.Len(), old.Len())
	reflect.Copy(n, old)
	maxBits := 0
	for i := 0; i < n.Len(); i++ {
		if x, ok := n.Index(i).Interface().(*gbig.Int); ok && x != nil && x.BitLen() > maxBits {
			maxBits = x.BitLen()
		}
	}
	v := pow2(uint(maxBits + b/2))
	if b%2 == 1 {
		v.Sub(v, bi(1))
	}
	n.Index(0).Set(reflect.ValueOf(v))
	l.v.SetMapIndex(best, n)
	return fmt.Sprintf("entry=2^(max+%d)-%d", b/2, b%2)
}

// ---------- (c) whole key proofs ----------

// c17Forged: a cheating prover who knows the factorisation of N = P*Q with Q = 2r^3+1 (prime, not a safe prime) and sets the
// Pedersen commitment for q to 0 modulo the group prime, so that the relations that would expose Q hold vacuously
// (keyproof/verif_forge.go). The verifier must refuse the proof; the model is asked the same question.
func c17Forged(s *Suite) {
	for variant := 0; variant < 2; variant++ {
		n, bases, proof, ok := keyproof.VerifForgedKeyProof(variant)
		if !ok {
			s.Count("forged-key-proof:prover-stuck")
			continue
		}
		kind := []string{"commitment-for-q=0", "commitment-for-q=GroupPrime"}[variant]
		st := keyproof.NewValidKeyProofStructure(n, bases)
		gpP := proof.GroupPrime.ProbablyPrime(80)
		hpP := new(gbig.Int).Rsh(proof.GroupPrime, 1).ProbablyPrime(80)
		in := L{n, dumpBigs(bases), b2i(gpP), b2i(hpP), b2i(n.ProbablyPrime(80)), dValidKey(proof)}
		accepted, panicked := false, false
		func() {
			defer func() {
				if r := recover(); r != nil {
					panicked = true
				}
			}()
			accepted = st.VerifyProof(proof)
		}()
		var out V = okV(b2i(accepted))
		if panicked {
			out = panicV()
		}
		s.Add(1701, "whole:forged:"+kind, false, in, out)
		s.Nontrivial["forged"+kind] = true
		if accepted {
			s.Violate("C17:forged-key-proof-accepted:"+kind, fmt.Sprintf("key-correctness proof accepted for N=%v whose factor Q = 2r^3+1 is not a safe prime (cheating prover with %s)", n, kind), L{n, kind})
		}
	}
}

func c17Whole(s *Suite, rng *Rng, thorough bool) {
	c17Forged(s)
	nKeys := 1
	nAlt := 10
	if thorough {
		nKeys = 4
		nAlt = 60
	}
	for k := 0; k < nKeys; k++ {
		bits := 48
		if thorough {
			bits = []int{48, 64, 80, 96}[k%4]
		}
		p, q := toyKeyPrimes(bits)
		n := new(gbig.Int).Mul(p, q)
		nb := 1 + rng.Intn(4)
		var bases []*gbig.Int
		for i := 0; i < nb; i++ {
			r := rng.Below(n)
			bases = append(bases, r.Mul(r, r).Mod(r, n))
		}
		st := keyproof.NewValidKeyProofStructure(n, bases)
		proof := st.BuildProof(new(gbig.Int).Rsh(p, 1), new(gbig.Int).Rsh(q, 1))
		desc := fmt.Sprintf("%d-bit primes, %d bases", bits, nb)
		verify := func(kind string, stt keyproof.ValidKeyProofStructure, nn *gbig.Int, bb []*gbig.Int, pr keyproof.ValidKeyProof, model bool) (ok, panicked bool) {
			var in V
			if model {
				gpP, hpP := false, false
				if pr.GroupPrime != nil {
					gpP = pr.GroupPrime.ProbablyPrime(80)
					hpP = new(gbig.Int).Rsh(pr.GroupPrime, 1).ProbablyPrime(80)
				}
				in = L{nn, dumpBigs(bb), b2i(gpP), b2i(hpP), b2i(nn.ProbablyPrime(80)), dValidKey(pr)}
			}
			func() {
				defer func() {
					if r := recover(); r != nil {
						panicked = true
					}
				}()
				ok = stt.VerifyProof(pr)
			}()
			if model {
				var out V = okV(b2i(ok))
				if panicked {
					out = panicV()
				}
				s.Add(1701, "whole:"+kind, false, in, out)
			}
			s.Dist["whole-verifications"]++
			return
		}
		clone := func() keyproof.ValidKeyProof { var cp keyproof.ValidKeyProof; jsonClone(proof, &cp); return cp }
		if ok, pan := verify("honest", st, n, bases, proof, true); !ok || pan {
			s.Violate("C17:good-key-rejected", "key proof for a properly generated key ("+desc+") does not verify", L{p, q})
			continue
		}
		s.Nontrivial[fmt.Sprint("whole", n)] = true
		if ok, _ := verify("json-round-trip", st, n, bases, clone(), false); !ok {
			s.Violate("C17:round-trip-rejected", "key proof does not verify after a JSON round trip ("+desc+")", L{p, q})
		}
		// another modulus, another base list
		p2, q2 := toyKeyPrimes(bits)
		n2 := new(gbig.Int).Mul(p2, q2)
		if ok, _ := verify("other-modulus", keyproof.NewValidKeyProofStructure(n2, bases), n2, bases, clone(), true); ok {
			s.Violate("C17:accepted-for-other-modulus", "key proof verifies against a different modulus", L{p, q, p2, q2})
		}
		b2 := append([]*gbig.Int{}, bases...)
		b2[0] = new(gbig.Int).Mod(new(gbig.Int).Mul(b2[0], bi(4)), n)
		if ok, _ := verify("other-bases", keyproof.NewValidKeyProofStructure(n, b2), n, b2, clone(), true); ok {
			s.Violate("C17:accepted-for-other-bases", "key proof verifies against a different base list", L{p, q})
		}
		if nb > 1 {
			if ok, _ := verify("fewer-bases", keyproof.NewValidKeyProofStructure(n, bases[:nb-1]), n, bases[:nb-1], clone(), false); ok {
				s.Violate("C17:accepted-for-other-bases", "key proof verifies against a shorter base list", L{p, q})
			}
		}
		// sampled alterations over the whole tree (all leaf kinds weighted equally)
		{
			cp := clone()
			var leaves []leaf
			collectLeaves("VK", reflect.ValueOf(&cp).Elem(), &leaves)
			byKind := map[string][]int{}
			var kinds []string
			for i, l := range leaves {
				k := kindOfPath(l.path)
				if _, ok := byKind[k]; !ok {
					kinds = append(kinds, k)
				}
				byKind[k] = append(byKind[k], i)
			}
			sort.Strings(kinds)
			s.Notes["whole_proof_leaves"] = len(leaves)
			s.Notes["whole_proof_leaf_kinds"] = len(kinds)
			for a := 0; a < nAlt; a++ {
				cp := clone()
				var lv []leaf
				collectLeaves("VK", reflect.ValueOf(&cp).Elem(), &lv)
				kind := kinds[rng.Intn(len(kinds))]
				idx := byKind[kind][rng.Intn(len(byKind[kind]))]
				how := alter(lv[idx], rng)
				ok, pan := verify("altered:"+kind+":"+how, st, n, bases, cp, a < 3)
				s.Nontrivial[fmt.Sprint("whole-alt", n, lv[idx].path, how)] = true
				s.Dist["whole-altered:"+kind]++
				if pan {
					notePanic(s, "whole")
				}
				if ok {
					s.Violate("C17:altered-key-proof-accepted:"+kind, "key proof verifies after alteration "+lv[idx].path+" "+how, L{p, q, lv[idx].path, how})
				}
			}
		}
	}
}
