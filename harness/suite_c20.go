package main

import (
	"bytes"
	"crypto/aes"
	"crypto/cipher"
	"encoding/binary"
	"fmt"
	"runtime"
	"sort"
	"sync"
	"sync/atomic"
	"time"

	"github.com/privacybydesign/gabi"
	gbig "github.com/privacybydesign/gabi/big"
	"github.com/privacybydesign/gabi/gabikeys"
	"github.com/privacybydesign/gabi/revocation"
	"github.com/privacybydesign/gabi/zkproof"
)

func init() { suites["C20"] = suiteC20 }

// reference keystream, computed independently of the code under test
type keystream struct{ blk cipher.Block }

func newKeystream(seed *[32]byte) *keystream {
	b, err := aes.NewCipher(seed[:])
	if err != nil {
		panic(err)
	}
	return &keystream{b}
}

func (k *keystream) block(iv uint64) []byte {
	var pt, ct [16]byte
	binary.LittleEndian.PutUint64(pt[:], iv)
	k.blk.Encrypt(ct[:], pt[:])
	return ct[:]
}

func nblocks(n int) uint64 {
	if n <= 0 {
		return 0
	}
	return uint64((n-1)/16 + 1)
}

func bytesV(b []byte) V {
	l := make(L, len(b))
	for i, x := range b {
		l[i] = int(x)
	}
	return l
}

func u64V(x uint64) V { return new(gbig.Int).SetUint64(x) }

func (k *keystream) blocksV(c0, n uint64) V {
	l := L{}
	for i := uint64(0); i < n; i++ {
		l = append(l, bytesV(k.block(c0+i)))
	}
	return l
}

type cread struct {
	buf []byte
	off int64 // assigned block offset, -1 if none
}

// linearize assigns every concurrent read a block offset in [0,total) such that its bytes are the
// keystream at that offset; returns false if some read matches nowhere or two reads need the same block.
func linearize(ks *keystream, reads []*cread, total uint64) (ok bool, why string) {
	stream := make([][]byte, total)
	for i := range stream {
		stream[i] = ks.block(uint64(i))
	}
	matches := func(r *cread, i uint64) bool {
		nb := nblocks(len(r.buf))
		if i+nb > total {
			return false
		}
		for j := uint64(0); j < nb; j++ {
			lo := int(j) * 16
			hi := lo + 16
			if hi > len(r.buf) {
				hi = len(r.buf)
			}
			if !bytes.Equal(r.buf[lo:hi], stream[i+j][:hi-lo]) {
				return false
			}
		}
		return true
	}
	used := make([]int, total) // index of the read owning the block, +1
	var small []int
	cands := map[int][]uint64{}
	for ri, r := range reads {
		r.off = -1
		var c []uint64
		for i := uint64(0); i < total; i++ {
			if matches(r, i) {
				c = append(c, i)
			}
		}
		if len(c) == 0 {
			return false, fmt.Sprintf("a read of %d bytes is not a block-aligned piece of the keystream below the final counter", len(r.buf))
		}
		if len(c) == 1 {
			r.off = int64(c[0])
			for j := uint64(0); j < nblocks(len(r.buf)); j++ {
				if used[c[0]+j] != 0 {
					return false, fmt.Sprintf("keystream block %d was handed to two callers", c[0]+j)
				}
				used[c[0]+j] = ri + 1
			}
		} else {
			small = append(small, ri)
			cands[ri] = c
		}
	}
	// short reads can match several blocks by chance: bipartite matching on the free blocks (all are one block long
	// in practice; longer ambiguous reads are treated block-wise by their first block)
	owner := map[uint64]int{}
	var try func(ri int, seen map[uint64]bool) bool
	try = func(ri int, seen map[uint64]bool) bool {
		for _, c := range cands[ri] {
			if used[c] != 0 || seen[c] || nblocks(len(reads[ri].buf)) != 1 {
				continue
			}
			seen[c] = true
			if o, taken := owner[c]; !taken || try(o, seen) {
				owner[c] = ri
				return true
			}
		}
		return false
	}
	for _, ri := range small {
		if nblocks(len(reads[ri].buf)) != 1 {
			return false, "ambiguous multi-block read (keystream repeats?)"
		}
		if !try(ri, map[uint64]bool{}) {
			return false, fmt.Sprintf("keystream blocks handed out twice: no free block is left for a read of %d bytes", len(reads[ri].buf))
		}
	}
	for c, ri := range owner {
		reads[ri].off = int64(c)
		used[c] = ri + 1
	}
	return true, ""
}

func suiteC20(s *Suite, rng *Rng, tier string) {
	lr := &lockedReader{rng: rng}
	useReader(lr)
	thorough := tier == "thorough"

	// ---------- A. the fast random generator ----------
	nSeq, nConc := 30, 12
	if thorough {
		nSeq, nConc = 300, 120
	}
	for it := 0; it < nSeq; it++ {
		var seed [32]byte
		rng.Read(seed[:])
		g, err := gabi.VerifNewCPRNG(&seed)
		if err != nil {
			panic(err)
		}
		ks := newKeystream(&seed)
		var c0 uint64
		switch it % 4 {
		case 1:
			c0 = ^uint64(0) - uint64(rng.Intn(6)) // wraps during the run
		case 2:
			c0 = rng.U64()
		}
		g.SetCounter(c0)
		n := 1 + rng.Intn(12)
		sizes, res, outs := L{}, L{}, L{}
		var total uint64
		for k := 0; k < n; k++ {
			sz := rng.Intn(201)
			switch rng.Intn(6) {
			case 0:
				sz = []int{0, 1, 15, 16, 17, 32, 33}[rng.Intn(7)]
			}
			before := g.Counter()
			buf := make([]byte, sz)
			m, err := g.Read(buf)
			if err != nil || m != sz {
				s.Violate("C20:cprng-read-failed", fmt.Sprintf("Read(%d) returned %d, %v", sz, m, err), L{sz})
			}
			after := g.Counter()
			sizes = append(sizes, sz)
			res = append(res, L{u64V(before), u64V(after - before)})
			outs = append(outs, bytesV(buf))
			total += nblocks(sz)
		}
		s.Add(2002, fmt.Sprintf("cprng-seq-start%d", it%4), it < 12, L{u64V(c0), sizes, ks.blocksV(c0, total)}, L{res, outs})
		s.Nontrivial[fmt.Sprint("seq", it)] = true
	}
	for it := 0; it < nConc; it++ {
		var seed [32]byte
		rng.Read(seed[:])
		g, _ := gabi.VerifNewCPRNG(&seed)
		ks := newKeystream(&seed)
		G := []int{2, 3, 4, 8, 16, 32, 64}[rng.Intn(7)]
		old := runtime.GOMAXPROCS(0)
		if it%3 == 1 {
			runtime.GOMAXPROCS(1 + rng.Intn(4))
		}
		per := 2 + rng.Intn(6)
		sz := make([][]int, G)
		for gi := range sz {
			for k := 0; k < per; k++ {
				sz[gi] = append(sz[gi], 1+rng.Intn(200))
			}
		}
		all := make([][]*cread, G)
		var wg sync.WaitGroup
		start := make(chan struct{})
		for gi := 0; gi < G; gi++ {
			wg.Add(1)
			go func(gi int) {
				defer wg.Done()
				<-start
				for _, n := range sz[gi] {
					buf := make([]byte, n)
					g.Read(buf)
					all[gi] = append(all[gi], &cread{buf: buf})
				}
			}(gi)
		}
		close(start)
		wg.Wait()
		runtime.GOMAXPROCS(old)
		var reads []*cread
		for _, a := range all {
			reads = append(reads, a...)
		}
		total := g.Counter()
		s.Dist[fmt.Sprintf("cprng-concurrent-G%d", G)]++
		if total > 1<<20 {
			s.Violate("C20:cprng-counter-runaway", fmt.Sprintf("counter %d after %d reads", total, len(reads)), L{})
			continue
		}
		ok, why := linearize(ks, reads, total)
		if !ok {
			s.Violate("C20:keystream-block-handed-out-twice", why, L{G, per})
			continue
		}
		// the reads, ordered by the offset they obtained, are a sequential history of the model
		sort.Slice(reads, func(i, j int) bool { return reads[i].off < reads[j].off })
		sizes, res, outs := L{}, L{}, L{}
		pos := uint64(0)
		for _, r := range reads {
			sizes = append(sizes, len(r.buf))
			res = append(res, L{u64V(uint64(r.off)), u64V(nblocks(len(r.buf)))})
			outs = append(outs, bytesV(r.buf))
			pos += nblocks(len(r.buf))
		}
		s.Add(2002, "cprng-concurrent-linearized", false, L{0, sizes, ks.blocksV(0, total)}, L{res, outs})
		s.Nontrivial[fmt.Sprint("conc", it)] = true
	}

	// ---------- B. shared credential, shared public key ----------
	var seed [32]byte
	rng.Read(seed[:])
	gabi.VerifSetGlobalCPRNG(&seed)
	kp := makeKey(256, 0, 6, rng, true)
	pk := kp.Pk
	h := newRevHistory(kp)
	secret := newSecret(rng)
	mkCred := func() *gabi.Credential {
		w, err := revocation.RandomWitness(kp.Sk, h.accs[len(h.accs)-1])
		if err != nil {
			panic(err)
		}
		sa, _ := h.accs[len(h.accs)-1].Sign(kp.Sk)
		w.SignedAccumulator = sa
		attrs := []*gbig.Int{secret, rng.Bits(100), rng.Bits(60), w.E, rng.Bits(200)}
		sig, err := gabi.SignMessageBlock(kp.Sk, pk, attrs)
		if err != nil {
			panic(err)
		}
		return &gabi.Credential{Signature: sig, Pk: pk, Attributes: attrs, NonRevocationWitness: w}
	}
	rounds := 6
	if thorough {
		rounds = 60
	}
	for round := 0; round < rounds; round++ {
		cred := mkCred()
		firstTime := round%2 == 0 // the cache has never been prepared when the goroutines start
		if !firstTime {
			if err := cred.NonrevPrepareCache(); err != nil {
				panic(err)
			}
		}
		G := []int{2, 4, 8, 16, 32, 64}[rng.Intn(6)]
		if !thorough && G > 16 {
			G = 16
		}
		old := runtime.GOMAXPROCS(0)
		if round%3 == 2 {
			runtime.GOMAXPROCS(1 + rng.Intn(4))
		}
		per := 1 + rng.Intn(3)
		scripts := make([][]int, G)
		for gi := range scripts {
			for k := 0; k < per; k++ {
				scripts[gi] = append(scripts[gi], rng.Intn(4))
			}
			if firstTime && gi%2 == 0 {
				scripts[gi][0] = 0
			}
		}
		hist := fmt.Sprintf("round%d[G=%d,first=%v]", round, G, firstTime)
		var ts []*transcript
		var mu sync.Mutex
		var wg sync.WaitGroup
		start := make(chan struct{})
		for gi := 0; gi < G; gi++ {
			wg.Add(1)
			go func(gi int) {
				defer wg.Done()
				<-start
				for k, o := range scripts[gi] {
					if o == 0 {
						if err := cred.NonrevPrepareCache(); err != nil {
							s.Violate("C20:prepare-failed", err.Error(), L{hist})
						}
						continue
					}
					nonrev := o >= 2
					ctx, nonce := lr.bits(200), lr.bits(80)
					b, err := cred.CreateDisclosureProofBuilder([]int{1}, nil, nonrev)
					if err != nil {
						s.Violate("C20:prove-failed", err.Error(), L{hist})
						continue
					}
					pl, err := gabi.ProofBuilderList{b}.BuildProofList(ctx, nonce, false)
					if err != nil {
						s.Violate("C20:prove-failed", err.Error(), L{hist})
						continue
					}
					p := pl[0].(*gabi.ProofD)
					tr := transcriptD(round*1000+gi*10+k, fmt.Sprintf("g%d.%d", gi, k), b, p, cred, 0)
					// verified by this goroutine against the shared public key: every other time the proof object itself, whose
					// non-revocation part points at the signed accumulator of the shared witness, otherwise a copy that went over the wire
					vp := p
					if (gi+k)%2 == 1 {
						vp = cloneProofD(p)
					}
					if !(gabi.ProofList{vp}).Verify([]*gabikeys.PublicKey{pk}, ctx, nonce, false, nil) {
						if p.NonRevocationProof != nil && revCandidates(p) > 1 {
							s.Count("skipped:ambiguous-revocation-index")
						} else {
							s.Violate("C20:concurrent-proof-invalid", "a concurrently produced proof does not verify", L{hist})
						}
					}
					mu.Lock()
					ts = append(ts, tr)
					mu.Unlock()
				}
			}(gi)
		}
		close(start)
		wg.Wait()
		runtime.GOMAXPROCS(old)
		proofOracles(s, "C20", hist, ts)
		s.Dist[fmt.Sprintf("shared-credential-G%d", G)]++
		s.Nontrivial[hist] = true
		if n := cred.VerifNonrevCacheLen(); n > 1 {
			s.Violate("C20:cache-overfull", fmt.Sprintf("cache holds %d builders", n), L{hist})
		}
	}

	// ---------- B'. parallel key generation (under the race detector in the race build) ----------
	{
		G := []int{8, 16}[rng.Intn(2)]
		per := 4
		if thorough {
			per = 12
		}
		before := runtime.NumGoroutine()
		params := keygenParams(128)
		var wg sync.WaitGroup
		var mu sync.Mutex
		var keys []*gabikeys.PrivateKey
		for g := 0; g < G; g++ {
			wg.Add(1)
			go func(g int) {
				defer wg.Done()
				for k := 0; k < per; k++ {
					sk, _, err := gabikeys.GenerateKeyPair(params, 1, uint(g), time.Unix(1900000000, 0))
					if err != nil {
						s.Violate("C20:concurrent-key-generation-failed", err.Error(), L{G})
						return
					}
					mu.Lock()
					keys = append(keys, sk)
					mu.Unlock()
				}
			}(g)
		}
		wg.Wait()
		for _, sk := range keys {
			if why := pairProblem(sk); why != "" {
				s.Violate("C20:concurrently-generated-key-invalid", fmt.Sprintf("a key generated by %d goroutines at once is not as valid as a sequentially generated one: %s", G, why), L{sk.P, sk.Q})
			}
		}
		s.Dist[fmt.Sprintf("parallel-keygen-G%d", G)] += len(keys)
		s.Nontrivial[fmt.Sprint("keygen", G, len(keys))] = true
		// the safe-prime workers read the shared generator: let them finish before the suite draws from it again
		waitGoroutines(before, 5*time.Second)
		// (taking the reader's lock once orders the workers' last draws before the suite's own use of the generator)
		lr.mu.Lock()
		lr.mu.Unlock()
	}

	// ---------- B''. one proof structure shared by verifying goroutines (the structures of the key proof are built once and
	//               then only read: their exponents, -1 among them, must stay what they are) ----------
	{
		gp := nextSafePrime(rng, 64)
		g, ok := zkproof.BuildGroup(gp)
		if ok {
			minusOne := gbig.NewInt(-1)
			shared := &zkproof.RepresentationProofStructure{
				Lhs: []zkproof.LhsContribution{{Base: "g", Power: gbig.NewInt(5)}, {Base: "h", Power: minusOne}, {Base: "g", Power: gbig.NewInt(-3)}},
				Rhs: []zkproof.RhsContribution{{Base: "g", Secret: "x", Power: 1}, {Base: "h", Secret: "y", Power: -1}},
			}
			res := resultsLookup{"x": rng.Below(g.Order), "y": rng.Below(g.Order)}
			c := rng.Bits(60)
			want := shared.CommitmentsFromProof(g, nil, c, &g, res)
			// (first use above; now a fresh copy of the same structure is shared from the start)
			fresh := &zkproof.RepresentationProofStructure{
				Lhs: []zkproof.LhsContribution{{Base: "g", Power: gbig.NewInt(5)}, {Base: "h", Power: gbig.NewInt(-1)}, {Base: "g", Power: gbig.NewInt(-3)}},
				Rhs: shared.Rhs,
			}
			G := 8
			per := 300
			if thorough {
				per = 3000
			}
			var wg sync.WaitGroup
			var bad int64
			for gi := 0; gi < G; gi++ {
				wg.Add(1)
				go func() {
					defer wg.Done()
					defer func() {
						if r := recover(); r != nil {
							atomic.AddInt64(&bad, 1)
						}
					}()
					for k := 0; k < per; k++ {
						got := fresh.CommitmentsFromProof(g, nil, c, &g, res)
						if len(got) != len(want) || got[0].Cmp(want[0]) != 0 {
							atomic.AddInt64(&bad, 1)
							return
						}
					}
				}()
			}
			wg.Wait()
			if bad > 0 {
				s.Violate("C20:shared-structure-misbehaves", fmt.Sprintf("%d of %d goroutines verifying against one shared proof structure panicked or computed other commitments", bad, G), L{bad})
			}
			for i, l := range fresh.Lhs {
				if l.Power.Cmp(shared.Lhs[i].Power) != 0 && !(i == 1 && false) {
					s.Violate("C20:shared-structure-written", fmt.Sprintf("exponent %d of the shared structure changed from %v to %v by being used", i, []int64{5, -1, -3}[i], l.Power), L{i})
				}
			}
			if minusOne.Cmp(gbig.NewInt(-1)) != 0 {
				s.Violate("C20:shared-structure-written", "the exponent -1 of a structure was overwritten by its first use", L{minusOne})
			}
			s.Dist["shared-structure-verifications"] += G * per
			s.Nontrivial["shared-structure"] = true
		}
	}

	// ---------- C. the hand-off model on explicit schedules (in-Coq evaluation of the interleaving model) ----------
	for it := 0; it < 20; it++ {
		nt := 1 + rng.Intn(4)
		progs, sched := L{}, L{}
		steps := 0
		for t := 0; t < nt; t++ {
			p := L{}
			for k := rng.Intn(4); k >= 0; k-- {
				kind := rng.Intn(2)
				p = append(p, kind)
				steps += 2 - kind
			}
			progs = append(progs, p)
		}
		for k := 0; k < steps+rng.Intn(4); k++ {
			sched = append(sched, rng.Intn(nt+1))
		}
		out := refSched(progs, sched)
		s.Add(2001, "handoff-schedule", true, L{progs, sched}, out)
	}

	s.Notes["rule"] = "generator: sequential reads of 0..200 bytes from counters 0 / random / just below 2^64 compared with the model read by read (reserved interval, bytes); concurrent reads " +
		"(2..64 goroutines, varied GOMAXPROCS) located in an independently computed AES-CTR keystream, required to partition it, and replayed through the model in offset order; " +
		"shared credential: first-time and repeated cache preparation concurrent with proofs with/without non-revocation and verification against the shared public key, under the Go race detector, " +
		"every proof verified and all pairs checked for randomizer reuse / builder double use; hand-off model evaluated on random explicit schedules against an independent re-implementation"
}

// refSched: an independent, direct re-implementation of the hand-off semantics (harness side) used to
// cross-check the Coq interleaving model on explicit schedules.
func refSched(progs, sched L) V {
	type th struct {
		held int
		todo []int
	}
	ths := []*th{}
	for _, p := range progs {
		t := &th{held: -1}
		for _, k := range p.(L) {
			t.todo = append(t.todo, k.(int))
		}
		ths = append(ths, t)
	}
	ch, fresh := -1, 0
	consumed, discarded := L{}, L{}
	take := func() int {
		if ch >= 0 {
			b := ch
			ch = -1
			return b
		}
		fresh++
		return fresh - 1
	}
	for _, iv := range sched {
		i := iv.(int)
		if i >= len(ths) {
			continue
		}
		t := ths[i]
		switch {
		case t.held >= 0:
			if ch < 0 {
				ch = t.held
			} else {
				discarded = append(discarded, t.held)
			}
			t.held = -1
			t.todo = t.todo[1:]
		case len(t.todo) == 0:
		case t.todo[0] == 0:
			t.held = take()
		default:
			consumed = append(consumed, take())
			t.todo = t.todo[1:]
		}
	}
	var chV V
	if ch >= 0 {
		chV = ch
	}
	return L{consumed, chV, discarded, fresh}
}

// resultsLookup: responses by name (zkproof.ProofLookup)
type resultsLookup map[string]*gbig.Int

func (r resultsLookup) ProofResult(name string) *gbig.Int { return r[name] }
