package main

import (
	"fmt"

	"github.com/privacybydesign/gabi"
	gbig "github.com/privacybydesign/gabi/big"
	"github.com/privacybydesign/gabi/gabikeys"
	"github.com/privacybydesign/gabi/rangeproof"
	"github.com/privacybydesign/gabi/revocation"
)

func init() { suites["C01"] = suiteC01 }

func cp(x *gbig.Int) *gbig.Int {
	if x == nil {
		return nil
	}
	return new(gbig.Int).Set(x)
}

func cpMap(m map[int]*gbig.Int) map[int]*gbig.Int {
	if m == nil {
		return nil
	}
	r := make(map[int]*gbig.Int, len(m))
	for k, v := range m {
		r[k] = cp(v)
	}
	return r
}

func cpBigs(l []*gbig.Int) []*gbig.Int {
	if l == nil {
		return nil
	}
	r := make([]*gbig.Int, len(l))
	for i := range l {
		r[i] = cp(l[i])
	}
	return r
}

func cloneRange(p *rangeproof.Proof) *rangeproof.Proof {
	if p == nil {
		return nil
	}
	return &rangeproof.Proof{Cs: cpBigs(p.Cs), DResponses: cpBigs(p.DResponses), VResponses: cpBigs(p.VResponses),
		V5Response: cp(p.V5Response), MResponse: cp(p.MResponse), Ld: p.Ld, Sign: p.Sign, A: p.A, K: cp(p.K)}
}

func cloneNonrev(p *revocation.Proof) *revocation.Proof {
	if p == nil {
		return nil
	}
	var resp map[string]*gbig.Int
	if p.Responses != nil {
		resp = map[string]*gbig.Int{}
		for k, v := range p.Responses {
			resp[k] = cp(v)
		}
	}
	var sacc *revocation.SignedAccumulator
	if p.SignedAccumulator != nil {
		s := *p.SignedAccumulator
		s.Accumulator = nil // as after transport: the signature has to be checked again
		s.Data = append([]byte{}, s.Data...)
		sacc = &s
	}
	return &revocation.Proof{Cr: cp(p.Cr), Cu: cp(p.Cu), Nu: cp(p.Nu), Challenge: cp(p.Challenge), Responses: resp, SignedAccumulator: sacc}
}

func cloneProofD(p *gabi.ProofD) *gabi.ProofD {
	q := &gabi.ProofD{C: cp(p.C), A: cp(p.A), EResponse: cp(p.EResponse), VResponse: cp(p.VResponse),
		AResponses: cpMap(p.AResponses), ADisclosed: cpMap(p.ADisclosed), NonRevocationProof: cloneNonrev(p.NonRevocationProof)}
	if p.RangeProofs != nil {
		q.RangeProofs = map[int][]*rangeproof.Proof{}
		for k, l := range p.RangeProofs {
			for _, rp := range l {
				q.RangeProofs[k] = append(q.RangeProofs[k], cloneRange(rp))
			}
		}
	}
	return q
}

func cloneProofU(p *gabi.ProofU) *gabi.ProofU {
	return &gabi.ProofU{U: cp(p.U), C: cp(p.C), VPrimeResponse: cp(p.VPrimeResponse), SResponse: cp(p.SResponse), MUserResponses: cpMap(p.MUserResponses)}
}

func cloneProof(p gabi.Proof) gabi.Proof {
	switch x := p.(type) {
	case *gabi.ProofD:
		return cloneProofD(x)
	case *gabi.ProofU:
		return cloneProofU(x)
	}
	panic("clone")
}

func cloneList(pl gabi.ProofList) gabi.ProofList {
	r := make(gabi.ProofList, len(pl))
	for i := range pl {
		r[i] = cloneProof(pl[i])
	}
	return r
}

// signedExponent: the exponent the issuer actually signed at index i (hashed if oversized)
func signedExponent(cred *gabi.Credential, i int) *gbig.Int {
	m := cred.Attributes[i]
	if m.BitLen() > int(cred.Pk.Params.Lm) {
		return gabi.VerifIntHashSha256(m.Bytes())
	}
	return m
}

// c01Oracle checks an ACCEPTED proof against ground truth.
func c01Oracle(s *Suite, p *gabi.ProofD, cred *gabi.Credential, kind string, replay V) {
	pk := cred.Pk
	for i, v := range p.ADisclosed {
		if _, both := p.AResponses[i]; both {
			s.Violate("C01:index-both-disclosed-and-hidden", fmt.Sprintf("accepted proof reports index %d as disclosed and hidden (%s)", i, kind), replay)
		}
		if i < 0 || i >= len(cred.Attributes) {
			s.Violate("C01:disclosed-nonexistent-index", fmt.Sprintf("accepted proof discloses index %d (%s)", i, kind), replay)
			continue
		}
		if v == nil || v.Cmp(cred.Attributes[i]) != 0 {
			s.Violate("C01:unsigned-value-accepted", fmt.Sprintf("accepted proof reports a value at index %d that was not signed (%s)", i, kind), replay)
		}
	}
	max := pow2(pk.Params.LmCommit + 1)
	for i, r := range p.AResponses {
		if r == nil || r.Sign() < 0 || r.Cmp(max) >= 0 {
			s.Violate("C01:response-out-of-range", fmt.Sprintf("accepted proof has hidden response %d out of range (%s)", i, kind), replay)
		}
	}
	if p.EResponse.Sign() < 0 || p.EResponse.Cmp(pow2(pk.Params.LeCommit+1)) >= 0 {
		s.Violate("C01:response-out-of-range", "accepted proof has e response out of range ("+kind+")", replay)
	}
}

func suiteC01(s *Suite, rng *Rng, tier string) {
	useRng(rng)
	rounds := 14
	if tier == "thorough" {
		rounds = 150
	}
	keys := []*KeyPair{makeKey(128, 0, 7, rng, false), makeKey(256, 0, 7, rng, false), makeKey(1024, 0, 7, rng, false), makeKey(2048, 0, 7, rng, false)}
	rkeys := []*KeyPair{makeKey(256, 0, 7, rng, true), makeKey(1024, 0, 7, rng, true)}
	smallLeft := 2
	for round := 0; round < rounds; round++ {
		kp := keys[round%len(keys)]
		if kp.Bits >= 1024 && round%2 == 1 && tier != "thorough" && round != 3 {
			kp = keys[1] // (quick tier: the 2048-bit key, whose size parameters differ from the 1024-bit ones, is used once)
		}
		// every third round the credential carries a revocation witness and the proof a non-revocation part (the size and
		// range checks on the responses must not depend on that)
		withNonrev := round%3 == 2
		if withNonrev {
			kp = rkeys[(round/3)%len(rkeys)]
			if kp.Bits >= 1024 && tier != "thorough" && round%2 == 1 {
				kp = rkeys[0]
			}
		}
		order := new(gbig.Int).Mul(kp.Sk.PPrime, kp.Sk.QPrime)
		nattr := 1 + rng.Intn(6)
		secret := newSecret(rng)
		var cred *gabi.Credential
		var disclosed []int
		if withNonrev {
			if nattr < 2 {
				nattr = 2
			}
			cred, _ = makeRevCredential(kp, secret, nattr, rng)
			disclosed = randomSubset(rng, nattr-1)
		} else {
			cred = makeCredential(kp, secret, nattr, rng)
			disclosed = randomSubset(rng, nattr)
		}
		ctx, nonce := rng.Bits(200), rng.Bits(80)
		issig := rng.Bool()
		b, err := cred.CreateDisclosureProofBuilder(disclosed, nil, withNonrev)
		if err != nil {
			panic(err)
		}
		pl, err := gabi.ProofBuilderList{b}.BuildProofList(ctx, nonce, issig)
		if err != nil {
			panic(err)
		}
		honest := pl[0].(*gabi.ProofD)
		pks := []*gabikeys.PublicKey{kp.Pk}
		ambiguous := false
		run := func(kind string, p *gabi.ProofD, small bool) bool {
			dump := L{dumpProofD(p, kp.Pk)}
			_, acc, amb := verifyCase(s, fmt.Sprintf("%d:%s", kp.Bits, kind), small, pks, ctx, nonce, issig, nil, gabi.ProofList{p})
			if amb {
				ambiguous = true // known finding C11:ambiguous-revocation-index: the verdict depends on map order
			}
			s.Nontrivial[S(dump)+kind] = true
			if acc {
				c01Oracle(s, p, cred, kind, L{kind, dumpPk(kp.Pk), dump, ctx, nonce, issig})
			}
			return acc
		}
		small := kp.Bits == 128 && smallLeft > 0
		if small {
			smallLeft--
		}
		if !run("honest", cloneProofD(honest), small) && !ambiguous {
			s.Violate("C01:honest-rejected", "honest disclosure proof rejected", L{dumpProofD(honest, kp.Pk)})
		}
		if ambiguous {
			continue
		}
		// one proof object verified, changed in place, verified again: what the first verification left in the object (cached
		// structures, filled-in fields) must not vouch for the changed content
		{
			obj := cloneProofD(honest)
			run("reused-object:first", obj, false)
			changed := false
			for i, v := range obj.ADisclosed {
				obj.ADisclosed[i] = new(gbig.Int).Add(v, bi(1))
				changed = true
				break
			}
			if !changed {
				for i, v := range obj.AResponses {
					obj.AResponses[i] = new(gbig.Int).Add(v, bi(1))
					break
				}
			}
			if run("reused-object:changed-in-place", obj, false) {
				s.Violate("C01:verified-object-accepted-after-change", "a proof object that had been verified is still accepted after a disclosed value or a response was changed in place", L{dumpProofD(obj, kp.Pk)})
			}
		}
		c := honest.C
		hidden := []int{}
		for i := range honest.AResponses {
			hidden = append(hidden, i)
		}
		// single-field alterations
		alter := func(x *gbig.Int) *gbig.Int {
			switch rng.Intn(4) {
			case 0:
				return new(gbig.Int).Add(x, bi(1))
			case 1:
				if x.Sign() > 0 {
					return new(gbig.Int).Sub(x, bi(1))
				}
				return bi(1)
			case 2:
				return rng.Bits(x.BitLen() + 1)
			default:
				return new(gbig.Int).Add(x, order)
			}
		}
		for _, f := range []string{"C", "A", "E", "V"} {
			p := cloneProofD(honest)
			switch f {
			case "C":
				p.C = alter(p.C)
			case "A":
				p.A = alter(p.A)
			case "E":
				p.EResponse = alter(p.EResponse)
			case "V":
				p.VResponse = alter(p.VResponse)
			}
			run("alter-"+f, p, false)
		}
		for _, i := range hidden {
			p := cloneProofD(honest)
			p.AResponses[i] = alter(p.AResponses[i])
			run("alter-response", p, false)
		}
		for i := range honest.ADisclosed {
			p := cloneProofD(honest)
			p.ADisclosed[i] = alter(p.ADisclosed[i])
			run("alter-disclosed", p, false)
			// claim a disclosed attribute is hidden, with a made-up response
			p = cloneProofD(honest)
			delete(p.ADisclosed, i)
			p.AResponses[i] = rng.Bits(int(kp.Pk.Params.LmCommit))
			run("disclosed-to-hidden", p, false)
		}
		// forgery over the error path: with A not invertible modulo N the verifier cannot reconstruct the commitment; a
		// verifier that loses that error hashes no contributions at all, so the prover sets the challenge to the hash of
		// (context, nonce) alone and reports whatever it likes. Every entry point must reject (no valid signature has such an A).
		if !withNonrev {
			for k, a := range []*gbig.Int{bi(0), cp(kp.Pk.N), cp(kp.Sk.P)} {
				p := cloneProofD(honest)
				p.A = a
				for i, v := range p.ADisclosed {
					p.ADisclosed[i] = new(gbig.Int).Add(v, bi(1))
					break
				}
				p.C = gabi.VerifCreateChallenge(ctx, nonce, nil, issig)
				kind := fmt.Sprintf("forged-over-error-path:%d", k)
				single := cloneProofD(p)
				accList := run(kind, p, false)
				_, _, accSingle := catchBool(func() bool { return single.Verify(kp.Pk, ctx, nonce, issig) })
				if accList || accSingle {
					s.Violate("C01:forged-proof-accepted", fmt.Sprintf("a disclosure proof whose A is not invertible modulo N, with the challenge computed over no contributions, is accepted (list=%v single=%v)", accList, accSingle),
						L{kind, dumpPk(kp.Pk), dumpProofD(single, kp.Pk), ctx, nonce, issig})
				}
			}
		}
		// pairwise alterations
		for k := 0; k < 3; k++ {
			p := cloneProofD(honest)
			p.EResponse = alter(p.EResponse)
			if len(hidden) > 0 {
				i := hidden[rng.Intn(len(hidden))]
				p.AResponses[i] = alter(p.AResponses[i])
			}
			run("alter-pair", p, false)
		}
		// split of a hidden attribute i into a disclosed part x and a hidden remainder m-x:
		// R_i^x moves into the "known" part, the response becomes r + c*(m-x)
		for _, i := range hidden {
			m := signedExponent(cred, i)
			xs := []*gbig.Int{bi(0), bi(1), new(gbig.Int).Sub(m, bi(1)), cp(m), new(gbig.Int).Add(m, bi(1)), pow2(kp.Pk.Params.Lm)}
			for _, x := range xs {
				if x.Sign() < 0 {
					continue
				}
				p := cloneProofD(honest)
				p.ADisclosed[i] = cp(x)
				ex := x
				if x.BitLen() > int(kp.Pk.Params.Lm) {
					ex = gabi.VerifIntHashSha256(x.Bytes())
				}
				p.AResponses[i] = new(gbig.Int).Sub(p.AResponses[i], new(gbig.Int).Mul(c, ex))
				kind := "split"
				if i == 0 {
					kind = "split-secret"
				}
				if p.AResponses[i].Sign() < 0 {
					// x larger than the real value: add a multiple of the group order
					k := new(gbig.Int).Div(new(gbig.Int).Neg(p.AResponses[i]), order)
					k.Add(k, bi(1))
					p.AResponses[i].Add(p.AResponses[i], k.Mul(k, order))
					kind += "-over"
				}
				run(kind, p, false)
			}
		}
		// responses shifted by multiples of the group order, placed at the accept/reject boundary
		max := new(gbig.Int).Sub(pow2(kp.Pk.Params.LmCommit+1), bi(1))
		for _, i := range hidden {
			if withNonrev && i == nattr {
				// the response of the revocation attribute is also the alpha response of the non-revocation part: a shifted
				// value is refused there, whatever its size
				continue
			}
			r := honest.AResponses[i]
			kmax := new(gbig.Int).Div(new(gbig.Int).Sub(max, r), order)
			for _, dk := range []int64{-1, 0, 1, 2} {
				k := new(gbig.Int).Add(kmax, bi(dk))
				if k.Sign() <= 0 {
					continue
				}
				p := cloneProofD(honest)
				p.AResponses[i] = new(gbig.Int).Add(r, new(gbig.Int).Mul(k, order))
				acc := run(fmt.Sprintf("shift-order(kmax%+d)", dk), p, false)
				if (dk <= 0) != acc {
					s.Violate("C01:order-shift-boundary", fmt.Sprintf("response shifted by k*ord: dk=%d accepted=%v", dk, acc), L{dumpProofD(p, kp.Pk)})
				}
			}
			// negative shift below zero
			p := cloneProofD(honest)
			k := new(gbig.Int).Div(r, order)
			k.Add(k, bi(1))
			p.AResponses[i] = new(gbig.Int).Sub(r, k.Mul(k, order))
			if run("shift-order-negative", p, false) {
				s.Violate("C01:order-shift-boundary", "negative response accepted", L{dumpProofD(p, kp.Pk)})
			}
		}
		// e response shifted by the order (A is a group element of order dividing ord only if A is a QR; it is)
		{
			emax := new(gbig.Int).Sub(pow2(kp.Pk.Params.LeCommit+1), bi(1))
			p := cloneProofD(honest)
			p.EResponse = new(gbig.Int).Add(p.EResponse, order)
			acc := run("shift-order-e", p, false)
			if acc != (p.EResponse.Cmp(emax) <= 0) {
				s.Violate("C01:order-shift-boundary", "e response shifted by ord", L{dumpProofD(p, kp.Pk)})
			}
		}
	}
	s.Notes["rule"] = "credentials with 1..6 attributes (values 0, 1, 2^Lm-1, 2^Lm, oversized, random), random disclosure sets, " +
		"keys of 128/256/1024 (+2048 thorough) bits; per honest proof: every single-field alteration, pairwise alterations, " +
		"disclosed->hidden moves, every split x in {0,1,m-1,m,m+1,2^Lm} of every hidden attribute incl. the secret, " +
		"responses shifted by k*ord at kmax-1..kmax+2 and below zero; every third round with a revocation witness and a non-revocation part; non-trivial = every mutated proof; distinct by dump"
}
