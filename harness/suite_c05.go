package main

import (
	"fmt"

	"github.com/privacybydesign/gabi"
	gbig "github.com/privacybydesign/gabi/big"
	"github.com/privacybydesign/gabi/gabikeys"
)

func init() { suites["C05"] = suiteC05 }

func dumpSig(s *gabi.CLSignature) V { return L{s.A, s.E, s.V, s.KeyshareP} }

func nextPrime(x *gbig.Int, dir int64) *gbig.Int {
	y := new(gbig.Int).Set(x)
	if y.Bit(0) == 0 {
		y.Add(y, bi(dir))
	}
	for !y.ProbablyPrime(40) {
		y.Add(y, bi(2*dir))
	}
	return y
}

// forge builds, with the private key, a signature on ms whose equation holds for exponent e.
func forge(kp *KeyPair, ms []*gbig.Int, e *gbig.Int, rng *Rng) *gabi.CLSignature {
	pk := kp.Pk
	order := new(gbig.Int).Mul(kp.Sk.PPrime, kp.Sk.QPrime)
	d := new(gbig.Int).ModInverse(e, order)
	if d == nil {
		return nil
	}
	v := new(gbig.Int).Add(pow2(pk.Params.Lv-1), rng.Bits(int(pk.Params.Lv-1)))
	R, _ := gabi.RepresentToPublicKey(pk, ms)
	num := new(gbig.Int).Exp(pk.S, v, pk.N)
	num.Mul(num, R).Mod(num, pk.N)
	inv := new(gbig.Int).ModInverse(num, pk.N)
	Q := new(gbig.Int).Mul(pk.Z, inv)
	Q.Mod(Q, pk.N)
	return &gabi.CLSignature{A: new(gbig.Int).Exp(Q, d, pk.N), E: e, V: v}
}

func suiteC05(s *Suite, rng *Rng, tier string) {
	useRng(rng)
	rounds := 10
	if tier == "thorough" {
		rounds = 120
	}
	keys := []*KeyPair{makeKey(128, 0, 6, rng, false), makeKey(256, 0, 6, rng, false), makeKey(1024, 0, 6, rng, false), makeKey(2048, 0, 6, rng, false)}
	other := makeKey(256, 1, 6, rng, false)
	smallLeft := 3
	verify := func(kind string, kp *KeyPair, pk *gabikeys.PublicKey, sig *gabi.CLSignature, ms []*gbig.Int, small bool) (bool, bool) {
		isp := sig.E != nil && sig.E.ProbablyPrime(80)
		in := L{dumpPk(pk), dumpSig(sig), dumpBigs(ms), isp}
		out, panicked, acc := catchBool(func() bool { return sig.Verify(pk, ms) })
		s.Add(501, fmt.Sprintf("%d:%s", kp.Bits, kind), small, in, out)
		s.Nontrivial[S(in)] = true
		return acc, panicked
	}
	for round := 0; round < rounds; round++ {
		kp := keys[round%len(keys)]
		if kp.Bits >= 1024 && tier != "thorough" && round >= 8 {
			kp = keys[1]
		}
		pk := kp.Pk
		ps := pk.Params
		order := new(gbig.Int).Mul(kp.Sk.PPrime, kp.Sk.QPrime)
		n := 1 + rng.Intn(len(pk.R))
		ms := make([]*gbig.Int, n)
		for i := range ms {
			ms[i] = attrValue(rng, ps.Lm)
		}
		sig, err := gabi.SignMessageBlock(kp.Sk, pk, ms)
		if err != nil {
			panic(err)
		}
		small := kp.Bits == 128 && smallLeft > 0
		if small {
			smallLeft--
		}
		// signing: the model recomputes A from the randomness the implementation drew
		s.Add(502, fmt.Sprintf("%d:sign", kp.Bits), small, L{dumpPk(pk), order, 1, dumpBigs(ms), sig.V, sig.E}, okV(dumpSig(sig)))
		R, _ := gabi.RepresentToPublicKey(pk, ms)
		s.Add(504, fmt.Sprintf("%d:represent", kp.Bits), small, L{dumpPk(pk), dumpBigs(ms)}, okV(R))
		if acc, _ := verify("honest", kp, pk, sig, ms, small); !acc {
			s.Violate("C05:honest-rejected", "issuer signature rejected", L{dumpSig(sig), dumpBigs(ms)})
		}
		// repeated randomisation
		cur := sig
		rs := L{}
		for k := 0; k < 1+rng.Intn(20); k++ {
			nx, err := cur.Randomize(pk)
			if err != nil {
				panic(err)
			}
			r := new(gbig.Int).Sub(cur.V, nx.V)
			r.Div(r, cur.E)
			rs = append(rs, r)
			cur = nx
		}
		s.Add(503, fmt.Sprintf("%d:randomize", kp.Bits), false, L{dumpPk(pk), dumpSig(sig), rs}, okV(dumpSig(cur)))
		if acc, _ := verify("randomized", kp, pk, cur, ms, false); !acc {
			s.Violate("C05:randomized-rejected", "randomised signature rejected", L{dumpSig(cur)})
		}
		// exponent boundary cases, forged with the private key so that the equation holds
		start := pow2(ps.Le - 1)
		end := new(gbig.Int).Add(start, pow2(ps.LePrime-1))
		type ec struct {
			name   string
			e      *gbig.Int
			accept bool
		}
		half := int(ps.Le / 2)
		p1 := nextPrime(rng.Bits(half), 1)
		p2 := nextPrime(new(gbig.Int).Add(new(gbig.Int).Div(start, p1), bi(1)), 1)
		comp := new(gbig.Int).Mul(p1, p2)
		cands := []ec{
			{"e=start-1", new(gbig.Int).Sub(start, bi(1)), false},
			{"e=start", start, false},
			{"e=start+1", new(gbig.Int).Add(start, bi(1)), false},
			{"e=firstprime>=start", nextPrime(start, 1), true},
			{"e=lastprime<start", nextPrime(new(gbig.Int).Sub(start, bi(1)), -1), false},
			{"e=lastprime<=end", nextPrime(end, -1), true},
			{"e=firstprime>end", nextPrime(new(gbig.Int).Add(end, bi(1)), 1), false},
			{"e=end", end, false},
			{"e=end+1", new(gbig.Int).Add(end, bi(1)), false},
			{"e=3", bi(3), false},
			{"e=65537", bi(65537), false},
			{"e=composite-in-range", comp, false},
			{"e=random-prime-in-range", nextPrime(new(gbig.Int).Add(start, rng.Bits(int(ps.LePrime-2))), 1), true},
		}
		for _, c := range cands {
			inRange := c.e.Cmp(start) >= 0 && c.e.Cmp(end) <= 0
			if c.name == "e=composite-in-range" && !inRange {
				continue
			}
			f := forge(kp, ms, c.e, rng)
			if f == nil {
				continue
			}
			acc, _ := verify("forged:"+c.name, kp, pk, f, ms, false)
			bad := !inRange || !c.e.ProbablyPrime(80) || c.name == "e=composite-in-range"
			if acc && bad {
				s.Violate("C05:bad-exponent-accepted", "signature with "+c.name+" satisfying the equation was accepted", L{dumpSig(f)})
			}
			if !acc && !bad {
				s.Violate("C05:good-exponent-rejected", "forged-with-private-key signature with good e rejected: "+c.name, L{dumpSig(f)})
			}
		}
		// single-component alterations and different block / key / keyshare contribution
		alt := func(kind string, sg *gabi.CLSignature, pkx *gabikeys.PublicKey, msx []*gbig.Int) {
			if acc, _ := verify("altered:"+kind, kp, pkx, sg, msx, false); acc {
				s.Violate("C05:altered-accepted", "signature accepted after alteration: "+kind, L{kind, dumpSig(sg), dumpBigs(msx)})
			}
		}
		alt("A+1", &gabi.CLSignature{A: new(gbig.Int).Add(sig.A, bi(1)), E: sig.E, V: sig.V}, pk, ms)
		alt("V+1", &gabi.CLSignature{A: sig.A, E: sig.E, V: new(gbig.Int).Add(sig.V, bi(1))}, pk, ms)
		alt("E-other-prime", &gabi.CLSignature{A: sig.A, E: nextPrime(new(gbig.Int).Add(sig.E, bi(2)), 1), V: sig.V}, pk, ms)
		alt("KeyshareP", &gabi.CLSignature{A: sig.A, E: sig.E, V: sig.V, KeyshareP: new(gbig.Int).Exp(pk.R[0], rng.Bits(100), pk.N)}, pk, ms)
		for i := range ms {
			m2 := cpBigs(ms)
			m2[i] = new(gbig.Int).Add(m2[i], bi(1))
			alt("block-entry+1", sig, pk, m2)
		}
		if n > 1 {
			// a trailing 0 contributes R^0 = 1: the exponent vector (implicitly 0-padded) is unchanged
			if ms[n-1].Sign() != 0 {
				alt("block-shorter", sig, pk, ms[:n-1])
			}
			m2 := cpBigs(ms)
			m2[0], m2[n-1] = m2[n-1], m2[0]
			if m2[0].Cmp(ms[0]) != 0 {
				alt("block-swapped", sig, pk, m2)
			}
		}
		if n < len(pk.R) {
			alt("block-longer", sig, pk, append(cpBigs(ms), bi(1)))
		}
		if kp.Bits == 256 {
			alt("other-key", sig, other.Pk, ms)
		}
	}
	s.Notes["rule"] = "message blocks of length 1..len(R) with entries 0, 1, 2^Lm-1, 2^Lm, oversized, random; keys 128/256/1024/2048 bits; " +
		"signing recomputed from observed (v,e); 1..20 randomisations replayed; forged signatures (equation holds) for e at start-1, start, " +
		"start+1, first/last primes inside and outside the interval, end, end+1, 3, 65537, in-range composite, random in-range prime; " +
		"alterations of A, V, E, KeyshareP, every block entry, block length/order, other key; distinct by input"
}
