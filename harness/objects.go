package main

import (
	"crypto/rand"
	"fmt"
	"io"
	"sort"
	"time"

	"github.com/privacybydesign/gabi"
	gbig "github.com/privacybydesign/gabi/big"
	"github.com/privacybydesign/gabi/gabikeys"
	"github.com/privacybydesign/gabi/rangeproof"
	"github.com/privacybydesign/gabi/revocation"
)

type KeyPair struct {
	Sk   *gabikeys.PrivateKey
	Pk   *gabikeys.PublicKey
	Bits int
}

func s2b(s string) *gbig.Int {
	x, ok := new(gbig.Int).SetString(s, 10)
	if !ok {
		panic("bad int " + s)
	}
	return x
}

func paramsFor(bits int) *gabikeys.SystemParameters {
	if p, ok := gabikeys.DefaultSystemParameters[bits]; ok {
		return p
	}
	// Toy parameter sets must respect the scheme's constraints like the supported ones do:
	// messages shorter than the group order (Lm < Ln-2), and LmCommit = Lm+Lstatzk+Lh >= 592
	// because NewProofRandomizers draws the secret-key randomizer with the 1024-bit LmCommit.
	lm := uint(bits - 8)
	base := gabikeys.BaseParameters{LePrime: 120, Lh: 256, Lm: lm, Ln: uint(bits), Lstatzk: 336 - lm}
	return &gabikeys.SystemParameters{BaseParameters: base, DerivedParameters: gabikeys.MakeDerivedParameters(base)}
}

// makeKey builds an issuer key from one of the fixed safe-prime pairs; bases are derived
// from the run's PRNG: S a random quadratic residue, Z and R_i powers of S.
func makeKey(bits, which, nattr int, rng *Rng, revoc bool) *KeyPair {
	pairs := primePairs[bits]
	pq := pairs[which%len(pairs)]
	p, q := s2b(pq[0]), s2b(pq[1])
	sk, err := gabikeys.NewPrivateKey(p, q, "", uint(which), time.Unix(1900000000, 0))
	if err != nil {
		panic(err)
	}
	n := sk.N
	var s *gbig.Int
	for {
		r := rng.Below(n)
		if r.Sign() > 0 && new(gbig.Int).GCD(nil, nil, r, n).Cmp(bi(1)) == 0 {
			s = new(gbig.Int).Exp(r, bi(2), n)
			if s.Cmp(bi(1)) != 0 {
				break
			}
		}
	}
	ex := func() *gbig.Int {
		x := rng.Bits(bits / 2)
		x.Add(x, bi(3))
		return new(gbig.Int).Exp(s, x, n)
	}
	z := ex()
	rs := make([]*gbig.Int, nattr)
	for i := range rs {
		rs[i] = ex()
	}
	pk, err := gabikeys.NewPublicKey(n, z, s, nil, nil, rs, "", uint(which), time.Unix(1900000000, 0))
	if err != nil {
		panic(err)
	}
	pk.Params = paramsFor(bits)
	pk.Issuer = fmt.Sprintf("issuer%d_%d", bits, which)
	if revoc {
		if err := gabikeys.GenerateRevocationKeypair(sk, pk); err != nil {
			panic(err)
		}
	}
	return &KeyPair{Sk: sk, Pk: pk, Bits: bits}
}

func dumpParams(p *gabikeys.SystemParameters) V {
	return L{p.Ln, p.Lm, p.Lh, p.Lstatzk, p.LePrime, p.Le, p.LeCommit, p.LmCommit, p.LRA, p.LsCommit, p.Lv, p.LvCommit, p.LvPrime, p.LvPrimeCommit}
}

func dumpPk(pk *gabikeys.PublicKey) V {
	return L{pk.N, pk.Z, pk.S, pk.G, pk.H, []*gbig.Int(pk.R), dumpParams(pk.Params), pk.Counter, pk.ECDSA != nil && len(pk.ECDSAString) > 0}
}

func dumpIntMap(m map[int]*gbig.Int) V {
	ks := make([]int, 0, len(m))
	for k := range m {
		ks = append(ks, k)
	}
	sort.Ints(ks)
	l := make(L, 0, len(ks))
	for _, k := range ks {
		l = append(l, L{k, m[k]})
	}
	return l
}

func dumpBigs(l []*gbig.Int) V {
	r := make(L, len(l))
	for i := range l {
		r[i] = l[i]
	}
	return r
}

func dumpRangeProof(p *rangeproof.Proof) V {
	if p == nil {
		return nil
	}
	return L{dumpBigs(p.Cs), dumpBigs(p.DResponses), dumpBigs(p.VResponses), p.V5Response, p.MResponse, p.Ld, p.Sign, p.A, p.K}
}

var nrNames = map[string]int{"alpha": 0, "beta": 1, "delta": 2, "epsilon": 3, "zeta": 4}

// observeSacc reports what SignedAccumulator.UnmarshalVerify does for this key (ECDSA and
// CBOR are outside the model): 0 nil, 1 error, 2 panic, or the accumulator.
func observeSacc(s *revocation.SignedAccumulator, pk *gabikeys.PublicKey) (v V) {
	if s == nil {
		return 0
	}
	defer func() {
		if r := recover(); r != nil {
			v = 2
		}
	}()
	cp := *s
	acc, err := cp.UnmarshalVerify(pk)
	if err != nil {
		return 1
	}
	return L{acc.Nu, acc.Index, acc.Time}
}

func dumpNonrev(p *revocation.Proof, pk *gabikeys.PublicKey) V {
	if p == nil {
		return nil
	}
	var resp V
	if p.Responses != nil {
		names := make([]string, 0, len(p.Responses))
		for k := range p.Responses {
			names = append(names, k)
		}
		sort.Strings(names)
		l := L{}
		extra := 5
		for _, k := range names {
			id, ok := nrNames[k]
			if !ok {
				id = extra
				extra++
			}
			l = append(l, L{id, p.Responses[k]})
		}
		resp = l
	}
	return L{p.Cr, p.Cu, p.Nu, p.Challenge, resp, observeSacc(p.SignedAccumulator, pk)}
}

func dumpProofD(p *gabi.ProofD, pk *gabikeys.PublicKey) V {
	ks := make([]int, 0, len(p.RangeProofs))
	for k := range p.RangeProofs {
		ks = append(ks, k)
	}
	sort.Ints(ks)
	rps := L{}
	for _, k := range ks {
		l := L{}
		for _, rp := range p.RangeProofs[k] {
			l = append(l, dumpRangeProof(rp))
		}
		rps = append(rps, L{k, l})
	}
	return L{p.C, p.A, p.EResponse, p.VResponse, dumpIntMap(p.AResponses), dumpIntMap(p.ADisclosed),
		dumpNonrev(p.NonRevocationProof, pk), rps}
}

func dumpProofU(p *gabi.ProofU) V {
	return L{p.U, p.C, p.VPrimeResponse, p.SResponse, dumpIntMap(p.MUserResponses)}
}

func dumpProof(p gabi.Proof, pk *gabikeys.PublicKey) V {
	switch x := p.(type) {
	case *gabi.ProofD:
		return L{0, dumpProofD(x, pk)}
	case *gabi.ProofU:
		return L{1, dumpProofU(x)}
	}
	panic("unknown proof type")
}

// number of candidates revocationAttrIndex could return
func revCandidates(p *gabi.ProofD) int {
	max := pow2(revocation.Parameters.AttributeSize + revocation.Parameters.ChallengeLength + revocation.Parameters.ZkStat + 1)
	n := 0
	for _, r := range p.AResponses {
		if r != nil && r.Cmp(max) < 0 {
			n++
		}
	}
	return n
}

// outcome encodings shared with GoSem.of_outcome
func okV(v V) V { return L{0, v} }
func errV() V   { return L{1} }
func panicV() V { return L{2} }

func catchBool(f func() bool) (v V, panicked bool, res bool) {
	defer func() {
		if r := recover(); r != nil {
			v, panicked = panicV(), true
		}
	}()
	b := f()
	return okV(b), false, b
}

// issueCredential runs the issuance protocol with the library itself.
func issueCredential(kp *KeyPair, secret *gbig.Int, attrs []*gbig.Int, rng *Rng) *gabi.Credential {
	context, nonce1, nonce2 := rng.Bits(200), rng.Bits(80), rng.Bits(80)
	b, err := gabi.NewCredentialBuilder(kp.Pk, context, secret, nonce2, nil, nil)
	if err != nil {
		panic(err)
	}
	msg, err := b.CommitToSecretAndProve(nonce1)
	if err != nil {
		panic(err)
	}
	issuer := gabi.NewIssuer(kp.Sk, kp.Pk, context)
	sig, err := issuer.IssueSignature(msg.U, attrs, nil, nonce2, nil)
	if err != nil {
		panic(err)
	}
	cred, err := b.ConstructCredential(sig, attrs)
	if err != nil {
		panic(err)
	}
	return cred
}

func useRng(rng *Rng) { rand.Reader = rng }

func useReader(r io.Reader) { rand.Reader = r }

func currentReader() io.Reader { return rand.Reader }
