package main

import (
	"github.com/privacybydesign/gabi"
	gbig "github.com/privacybydesign/gabi/big"
	"github.com/privacybydesign/gabi/gabikeys"
	"github.com/privacybydesign/gabi/rangeproof"
	"github.com/privacybydesign/gabi/revocation"
)

// Session is an honest proof list with everything needed to verify it, plus the ground truth
// the oracles use (what was signed, which secrets).
type Session struct {
	Pks     []*gabikeys.PublicKey
	Keys    []*KeyPair
	Context *gbig.Int
	Nonce   *gbig.Int
	IsSig   bool
	List    gabi.ProofList
	Creds   []*gabi.Credential // nil for issuance builders
	Desc    string
}

func attrValue(rng *Rng, lm uint) *gbig.Int {
	switch rng.Intn(7) {
	case 0:
		return bi(0)
	case 1:
		return bi(1)
	case 2:
		x := pow2(lm)
		return x.Sub(x, bi(1))
	case 3:
		return pow2(lm) // first value that is hashed
	case 4:
		return rng.Bits(int(lm) + 200) // hashed
	default:
		return rng.Bits(1 + rng.Intn(int(lm)))
	}
}

// secrets fit the smallest toy message length (Lm = 120)
func newSecret(rng *Rng) *gbig.Int { return rng.Bits(119) }

// makeCredential issues a credential with nattr attributes (excluding the secret).
func makeCredential(kp *KeyPair, secret *gbig.Int, nattr int, rng *Rng) *gabi.Credential {
	attrs := make([]*gbig.Int, nattr)
	for i := range attrs {
		attrs[i] = attrValue(rng, kp.Pk.Params.Lm)
	}
	return issueCredential(kp, secret, attrs, rng)
}

type revState struct {
	update *revocation.Update
	acc    *revocation.Accumulator
}

func setupRevocation(kp *KeyPair) (*revocation.Witness, *revState) {
	update, err := revocation.NewAccumulator(kp.Sk)
	if err != nil {
		panic(err)
	}
	acc, err := update.SignedAccumulator.UnmarshalVerify(kp.Pk)
	if err != nil {
		panic(err)
	}
	w, err := revocation.RandomWitness(kp.Sk, acc)
	if err != nil {
		panic(err)
	}
	w.SignedAccumulator = update.SignedAccumulator
	return w, &revState{update, acc}
}

// makeRevCredential: credential whose last attribute is a revocation witness value.
func makeRevCredential(kp *KeyPair, secret *gbig.Int, nattr int, rng *Rng) (*gabi.Credential, *revState) {
	w, st := setupRevocation(kp)
	attrs := make([]*gbig.Int, nattr)
	for i := range attrs {
		attrs[i] = attrValue(rng, kp.Pk.Params.Lm)
	}
	attrs[nattr-1] = w.E
	ms := append([]*gbig.Int{secret}, attrs...)
	sig, err := gabi.SignMessageBlock(kp.Sk, kp.Pk, ms)
	if err != nil {
		panic(err)
	}
	return &gabi.Credential{Signature: sig, Pk: kp.Pk, Attributes: ms, NonRevocationWitness: w}, st
}

func randomSubset(rng *Rng, n int) []int {
	r := []int{}
	for i := 1; i <= n; i++ {
		if rng.Bool() {
			r = append(r, i)
		}
	}
	return r
}

type builderSpec struct {
	kind   string // "disclose", "issue"
	key    *KeyPair
	secret *gbig.Int
	nattr  int
	nonrev bool
	ranges bool
}

// buildSession makes an honest proof list from the given builder specs.
// forcedContext, when set, is the context of the next session built (boundary contexts 0 and 1)
var forcedContext *gbig.Int

func buildSession(specs []builderSpec, rng *Rng, issig bool) *Session {
	s := &Session{Context: rng.Bits(200), Nonce: rng.Bits(80), IsSig: issig}
	if forcedContext != nil {
		s.Context, forcedContext = forcedContext, nil
	}
	var builders gabi.ProofBuilderList
	for _, sp := range specs {
		s.Pks = append(s.Pks, sp.key.Pk)
		s.Keys = append(s.Keys, sp.key)
		switch sp.kind {
		case "issue":
			b, err := gabi.NewCredentialBuilder(sp.key.Pk, s.Context, sp.secret, rng.Bits(80), nil, nil)
			if err != nil {
				panic(err)
			}
			builders = append(builders, b)
			s.Creds = append(s.Creds, nil)
			s.Desc += "U"
		default:
			var cred *gabi.Credential
			if sp.nonrev && sp.key.Pk.Params.Lm < 195 {
				panic("revocation attributes (195 bits) need Lm >= 195: not with 128-bit toy keys")
			}
			if sp.ranges && sp.key.Pk.Params.Lm < 128 {
				panic("range proofs (l_d = 128) need Lm >= 128: not with 128-bit toy keys")
			}
			if sp.nonrev {
				cred, _ = makeRevCredential(sp.key, sp.secret, sp.nattr, rng)
			} else {
				cred = makeCredential(sp.key, sp.secret, sp.nattr, rng)
			}
			n := sp.nattr
			if sp.nonrev {
				n--
			}
			disclosed := randomSubset(rng, n)
			var stmts map[int][]*rangeproof.Statement
			if sp.ranges {
				// a true statement on a hidden attribute
				hidden := []int{}
				for i := 1; i <= n; i++ {
					h := true
					for _, d := range disclosed {
						if d == i {
							h = false
						}
					}
					// an attribute longer than Lm bits is signed as its hash: an inequality about its value is not a supported statement
					if h && cred.Attributes[i].BitLen() <= int(sp.key.Pk.Params.Lm) && cred.Attributes[i].BitLen() <= 250 {
						hidden = append(hidden, i)
					}
				}
				if len(hidden) > 0 {
					idx := hidden[rng.Intn(len(hidden))]
					bound := new(gbig.Int).Sub(cred.Attributes[idx], bi(int64(rng.Intn(50))))
					if bound.Sign() < 0 {
						bound = bi(0) // negative bounds cannot be serialised (big.Int JSON is unsigned)
					}
					st, _ := rangeproof.NewStatement(rangeproof.GreaterOrEqual, bound)
					stmts = map[int][]*rangeproof.Statement{idx: {st}}
					if rng.Bool() {
						b2 := new(gbig.Int).Add(cred.Attributes[idx], bi(int64(rng.Intn(50))))
						st2, _ := rangeproof.NewStatement(rangeproof.LesserOrEqual, b2)
						stmts[idx] = append(stmts[idx], st2)
					}
					// range parts on further hidden attributes (their contributions are hashed in ascending index order)
					for _, j := range hidden {
						if j != idx && rng.Bool() {
							stj, _ := rangeproof.NewStatement(rangeproof.LesserOrEqual, new(gbig.Int).Add(cred.Attributes[j], bi(int64(rng.Intn(50)))))
							stmts[j] = []*rangeproof.Statement{stj}
						}
					}
				}
			}
			b, err := cred.CreateDisclosureProofBuilder(disclosed, stmts, sp.nonrev)
			if err != nil {
				panic(err)
			}
			builders = append(builders, b)
			s.Creds = append(s.Creds, cred)
			s.Desc += "D"
			if sp.nonrev {
				s.Desc += "n"
			}
			if stmts != nil {
				s.Desc += "r"
			}
		}
	}
	pl, err := builders.BuildProofList(s.Context, s.Nonce, issig)
	if err != nil {
		panic(err)
	}
	s.List = pl
	return s
}

// verifyCase records one ProofList.Verify call as a correspondence case and returns the outcome.
func verifyCase(s *Suite, kind string, small bool, pks []*gabikeys.PublicKey, ctx, nonce *gbig.Int, issig bool,
	labels []string, pl gabi.ProofList) (panicked, accepted, ambiguous bool) {
	// dump BEFORE verifying: verification writes into the proofs
	pkv := L{}
	for _, pk := range pks {
		pkv = append(pkv, dumpPk(pk))
	}
	plv := L{}
	for i, p := range pl {
		var pk *gabikeys.PublicKey
		if i < len(pks) {
			pk = pks[i]
		} else if len(pks) > 0 {
			pk = pks[0]
		}
		plv = append(plv, dumpProof(p, pk))
		if pd, ok := p.(*gabi.ProofD); ok && pd.NonRevocationProof != nil && revCandidates(pd) > 1 {
			ambiguous = true
		}
	}
	labelIds := L{}
	ids := map[string]int{}
	for _, l := range labels {
		if _, ok := ids[l]; !ok {
			ids[l] = len(ids) + 1
		}
		labelIds = append(labelIds, ids[l])
	}
	in := L{pkv, ctx, nonce, issig, labelIds, plv, 0, 0}
	// the single-proof entry points (ProofD.Verify / ProofU.Verify) on a copy, before the list verification writes into the proof
	var single gabi.Proof
	if len(pl) == 1 && len(pks) >= 1 && pks[0] != nil && !ambiguous && pl[0] != nil {
		single = cloneProof(pl[0])
	}
	argsBefore := S(L{pkv, ctx, nonce})
	out, panicked, accepted := catchBool(func() bool { return pl.Verify(pks, ctx, nonce, issig, labels) })
	{
		// public keys, context and nonce are the caller's (keys are shared between verifiers): verification only reads them
		pkv2 := L{}
		for _, pk := range pks {
			pkv2 = append(pkv2, dumpPk(pk))
		}
		if after := S(L{pkv2, ctx, nonce}); after != argsBefore {
			s.Violate("verify:arguments-mutated", "ProofList.Verify changed a public key, the context or the nonce it was given ("+kind+")", L{kind, argsBefore, after})
		}
	}
	if ambiguous {
		s.Dist["skipped:ambiguous-revocation-index"]++
		return
	}
	s.Add(103, kind, small, in, out)
	switch x := single.(type) {
	case *gabi.ProofD:
		o1, _, _ := catchBool(func() bool { return x.Verify(pks[0], ctx, nonce, issig) })
		s.Add(101, kind+":ProofD.Verify", false, L{pkv[0], plv[0].(L)[1], ctx, nonce, issig, 0, 0}, o1)
		// the same proof under the other session kind: the challenge binds the flag
		y := cloneProof(x).(*gabi.ProofD)
		o2, _, acc2 := catchBool(func() bool { return y.Verify(pks[0], ctx, nonce, !issig) })
		s.Add(101, kind+":ProofD.Verify:other-session-kind", false, L{pkv[0], plv[0].(L)[1], ctx, nonce, !issig, 0, 0}, o2)
		if accepted && acc2 {
			s.Violate("C02:single-proof-accepted-for-both-session-kinds", "ProofD.Verify accepts one proof as disclosure and as signature session proof ("+kind+")", L{kind})
		}
	case *gabi.ProofU:
		o1, _, _ := catchBool(func() bool { return x.Verify(pks[0], ctx, nonce) })
		s.Add(104, kind+":ProofU.Verify", false, L{pkv[0], plv[0].(L)[1], ctx, nonce}, o1)
	}
	return
}
