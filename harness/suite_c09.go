package main

import (
	"encoding/json"
	"fmt"

	gbig "github.com/privacybydesign/gabi/big"
	"github.com/privacybydesign/gabi/revocation"
)

func init() { suites["C09"] = suiteC09 }

func dumpHash(h revocation.Hash) V { return []byte(h) }

func dumpEvent(e *revocation.Event) V { return L{e.Index, e.E, dumpHash(e.ParentHash)} }

func dumpEvents(es []*revocation.Event) V {
	l := L{}
	for _, e := range es {
		l = append(l, dumpEvent(e))
	}
	return l
}

func dumpAcc(a *revocation.Accumulator) V { return L{a.Nu, a.Index, a.Time, dumpHash(a.EventHash)} }

func dumpWitness(w *revocation.Witness) V {
	return L{w.U, w.E, dumpAcc(w.SignedAccumulator.Accumulator)}
}

// dumpUpdate: the signed accumulator enters the model as its verification result (oracle)
func dumpUpdate(u *revocation.Update, kp *KeyPair) V {
	var sv V
	if u.SignedAccumulator == nil {
		sv = 0
	} else {
		cp := *u.SignedAccumulator
		acc, err := cp.UnmarshalVerify(kp.Pk)
		if err != nil {
			sv = 1
		} else {
			sv = dumpAcc(acc)
		}
	}
	return L{sv, dumpEvents(u.Events), dumpProductCache(u)}
}

func dumpProductCache(u *revocation.Update) V {
	p, from := u.VerifProductCache()
	if p == nil {
		return nil
	}
	return L{p, from}
}

func updResult(err error) int {
	switch {
	case err == nil:
		return 0
	case err == revocation.ErrorRevoked:
		return 2
	case err.Error() == "update too new":
		return 1
	case err.Error() == "nonrevocation witness invalidated by update":
		return 3
	default:
		return 4
	}
}

type revHistory struct {
	kp      *KeyPair
	accs    []*revocation.Accumulator // accs[i] has Index i
	events  []*revocation.Event       // events[i] has Index i (events[0] is the initial event)
	revoked map[string]int            // e -> index at which it was removed
	eStr    []string                  // decimal text of events[i].E as created
}

func newRevHistory(kp *KeyPair) *revHistory {
	upd, err := revocation.NewAccumulator(kp.Sk)
	if err != nil {
		panic(err)
	}
	acc, err := upd.SignedAccumulator.UnmarshalVerify(kp.Pk)
	if err != nil {
		panic(err)
	}
	e0 := ""
	if upd.Events[0].E != nil {
		e0 = upd.Events[0].E.String()
	}
	return &revHistory{kp: kp, accs: []*revocation.Accumulator{acc}, events: []*revocation.Event{upd.Events[0]}, revoked: map[string]int{}, eStr: []string{e0}}
}

func (h *revHistory) revoke(e *gbig.Int) {
	cur := h.accs[len(h.accs)-1]
	na, ev, err := cur.Remove(h.kp.Sk, e, h.events[len(h.events)-1])
	if err != nil {
		panic(err)
	}
	na.Time = cur.Time + 10 // deterministic, strictly increasing
	h.accs = append(h.accs, na)
	h.events = append(h.events, ev)
	h.eStr = append(h.eStr, ev.E.String())
	h.revoked[e.String()] = int(na.Index)
}

// window returns an update message for events from..to (inclusive) signed for accumulator to
func (h *revHistory) window(from, to int) *revocation.Update {
	u, err := revocation.NewUpdate(h.kp.Sk, h.accs[to], append([]*revocation.Event{}, h.events[from:to+1]...))
	if err != nil {
		panic(err)
	}
	// as after transport: accumulator has to be verified again
	u.SignedAccumulator.Accumulator = nil
	return u
}

func (h *revHistory) issue(at int, e *gbig.Int) *revocation.Witness {
	w, err := revocation.VerifNewWitness(h.kp.Sk, h.accs[at], e)
	if err != nil {
		panic(err)
	}
	sa, err := h.accs[at].Sign(h.kp.Sk)
	if err != nil {
		panic(err)
	}
	w.SignedAccumulator = sa
	return w
}

func suiteC09(s *Suite, rng *Rng, tier string) {
	useRng(rng)
	nHist, nRev, nSeq := 3, 4, 40
	if tier == "thorough" {
		nHist, nRev, nSeq = 12, 6, 400
	}
	smallLeft := 60
	for hi := 0; hi < nHist; hi++ {
		kp := makeKey(128, hi%3, 2, rng, true)
		n := kp.Pk.N
		order := new(gbig.Int).Mul(kp.Sk.PPrime, kp.Sk.QPrime)
		h := newRevHistory(kp)
		// witnesses issued at every index; some of them get revoked later
		primes := []*gbig.Int{}
		next := bi(int64(1000 + rng.Intn(1000)))
		for len(primes) < 3*(nRev+1) {
			next = nextPrime(new(gbig.Int).Add(next, bi(2)), 1)
			if new(gbig.Int).GCD(nil, nil, next, order).Cmp(bi(1)) == 0 {
				primes = append(primes, next)
			}
		}
		type wit struct {
			w        *revocation.Witness
			issuedAt int
			e        *gbig.Int
		}
		var wits []*wit
		pi := 0
		for idx := 0; idx <= nRev; idx++ {
			for k := 0; k < 2; k++ {
				e := primes[pi]
				pi++
				wits = append(wits, &wit{w: h.issue(idx, e), issuedAt: idx, e: e})
				// issuer-side functions against the model
				if k == 0 {
					s.Add(903, "new-witness", smallLeft > 0, L{n, order, dumpAcc(h.accs[idx]), e}, okV(L{wits[len(wits)-1].w.U, e, dumpAcc(h.accs[idx])}))
				}
			}
			if idx < nRev {
				// revoke one of the existing witnesses (every second time) or a fresh value
				var e *gbig.Int
				if idx%2 == 0 {
					e = wits[rng.Intn(len(wits))].e
					if _, done := h.revoked[e.String()]; done {
						e = primes[pi]
						pi++
					}
				} else {
					e = primes[pi]
					pi++
				}
				before := h.accs[len(h.accs)-1]
				parent := h.events[len(h.events)-1]
				h.revoke(e)
				after := h.accs[len(h.accs)-1]
				s.Add(902, "remove", smallLeft > 0, L{n, order, dumpAcc(before), e, dumpEvent(parent), after.Time},
					okV(L{dumpAcc(after), dumpEvent(h.events[len(h.events)-1])}))
			}
		}
		last := len(h.accs) - 1
		// shared update objects for every contiguous window
		shared := map[[2]int]*revocation.Update{}
		for a := 0; a <= last; a++ {
			for b := a; b <= last; b++ {
				shared[[2]int{a, b}] = h.window(a, b)
			}
		}
		// event lists downloaded in chunks and flattened (for every split point, twice): the product handed on is the product
		// of the revoked values, and flattening leaves the chunks as they were
		for a := 1; a+1 <= last; a++ {
			for mid := a; mid < last; mid++ {
				read := func(from, to int) *revocation.EventList {
					js, _ := json.Marshal(revocation.NewEventList(append([]*revocation.Event{}, h.events[from:to+1]...)...))
					l := &revocation.EventList{ComputeProduct: true}
					if err := json.Unmarshal(js, l); err != nil {
						panic(err)
					}
					return l
				}
				chunks := []*revocation.EventList{read(a, mid), read(mid+1, last)}
				want := bi(1)
				for _, ev := range h.events[a : last+1] {
					want.Mul(want, ev.E)
				}
				for rep := 0; rep < 2; rep++ {
					fl, err := revocation.FlattenEventLists(chunks)
					if err != nil {
						s.Violate("C09:flatten-failed", err.Error(), L{a, mid, last})
						break
					}
					_, _, prod := fl.VerifFlags()
					if prod == nil || prod.Cmp(want) != 0 || len(fl.Events) != last-a+1 {
						s.Violate("C09:flattened-product-wrong", fmt.Sprintf("FlattenEventLists (call %d on the same chunks [%d,%d],[%d,%d]) hands on a product that is not the product of the revoked values", rep+1, a, mid, mid+1, last), L{a, mid, last, rep})
						break
					}
				}
				s.Dist["flatten-splits"]++
			}
		}
		// operation sequences
		for sq := 0; sq < nSeq; sq++ {
			wt := wits[rng.Intn(len(wits))]
			w := h.issue(wt.issuedAt, wt.e) // fresh copy of the witness as issued
			revAt, isRev := h.revoked[wt.e.String()]
			steps := 1 + rng.Intn(4)
			for st := 0; st < steps; st++ {
				a := rng.Intn(last + 1)
				b := a + rng.Intn(last-a+1)
				useShared := rng.Bool()
				var u *revocation.Update
				if useShared {
					u = shared[[2]int{a, b}]
				} else {
					u = h.window(a, b)
				}
				if !useShared && a >= 1 && rng.Intn(3) == 0 {
					// the client assembles the message itself: the newest part [c,b] as an update, the older events [a,d] as an event
					// list read from the wire with its product, prepended (d >= c-1; d >= b: the list covers the whole update)
					c := a + rng.Intn(b-a+1)
					d := c - 1 + rng.Intn(b-c+2)
					if d < a {
						d = a
					}
					readList := func(from, to int) *revocation.EventList {
						js, _ := json.Marshal(revocation.NewEventList(append([]*revocation.Event{}, h.events[from:to+1]...)...))
						l := &revocation.EventList{ComputeProduct: true}
						if err := json.Unmarshal(js, l); err != nil {
							panic(err)
						}
						return l
					}
					el := readList(a, d)
					if d > a && rng.Bool() {
						// downloaded in two chunks and flattened; the chunks are kept and flattened again for the next witness
						// (or a retry): the second result is the one used
						mid := a + rng.Intn(d-a)
						chunks := []*revocation.EventList{readList(a, mid), readList(mid+1, d)}
						if _, err := revocation.FlattenEventLists(chunks); err != nil {
							panic(err)
						}
						fl, err := revocation.FlattenEventLists(chunks)
						if err != nil {
							panic(err)
						}
						el = fl
						s.Dist["event-chunks-flattened-twice"]++
					}
					u = h.window(c, b)
					if _, err := u.Verify(kp.Pk); err != nil {
						panic(err)
					}
					if err := u.Prepend(el); err != nil {
						s.Violate("C09:authentic-events-not-prepended", fmt.Sprintf("Prepend of the authentic events [%d,%d] to the update [%d,%d] failed: %v", a, d, c, b, err), L{a, d, c, b})
						u = h.window(a, b)
					} else {
						u.SignedAccumulator.Accumulator = nil
						s.Dist["update-assembled-by-prepend"]++
					}
				}
				ourIdx := int(w.SignedAccumulator.Accumulator.Index)
				beforeU := new(gbig.Int).Set(w.U)
				in := L{n, dumpWitness(w), dumpUpdate(u, kp)}
				var res int
				func() {
					defer func() {
						if r := recover(); r != nil {
							res = 5
						}
					}()
					res = updResult(w.Update(kp.Pk, u))
				}()
				small := smallLeft > 0
				if small {
					smallLeft--
				}
				kind := fmt.Sprintf("update:shared=%v:res=%d", useShared, res)
				s.Add(901, kind, small, in, L{res, dumpWitness(w), dumpProductCache(u)})
				s.Nontrivial[S(in)] = true
				// ---- abstract specification (set of revoked values + accumulator chain) ----
				newIdx := int(w.SignedAccumulator.Accumulator.Index)
				desc := L{fmt.Sprintf("witness e=%s issued at %d (revoked at %v/%d), at index %d, update window [%d,%d], shared=%v, result %d",
					wt.e, wt.issuedAt, isRev, revAt, ourIdx, a, b, useShared, res)}
				valid := new(gbig.Int).Exp(w.U, w.E, n).Cmp(w.SignedAccumulator.Accumulator.Nu) == 0
				if newIdx < ourIdx {
					s.Violate("C09:witness-moved-backwards", "index decreased", desc)
				}
				// an update message is shared between witnesses: applying it must leave its events as they were
				for i, ev := range h.events {
					if ev.E != nil && ev.E.String() != h.eStr[i] {
						s.Violate("C09:update-argument-mutated", fmt.Sprintf("Witness.Update changed event %d of the update message it was given", i), desc)
						ev.E, _ = new(gbig.Int).SetString(h.eStr[i], 10) // repair so that the run can go on
					}
				}
				if res == 5 {
					s.Violate("C09:update-panicked", "Witness.Update panicked", desc)
				}
				if res != 0 && (w.U.Cmp(beforeU) != 0 || newIdx != ourIdx) {
					s.Violate("C09:failed-update-changed-witness", "a failed update modified the witness", desc)
				}
				stillGood := !isRev || revAt > newIdx
				if res == 0 && stillGood && !valid {
					s.Violate("C09:witness-invalid-after-update", "non-revoked witness not valid against the accumulator it holds", desc)
				}
				if isRev && revAt <= newIdx && valid {
					s.Violate("C09:revoked-witness-valid", "revoked witness valid against an accumulator from which it was removed", desc)
				}
				// what the update should have done: window must start at or before ourIdx+1 and end after ourIdx
				applicable := b > ourIdx && a <= ourIdx+1
				if applicable {
					revokedInWindow := isRev && revAt > ourIdx && revAt <= b
					if revokedInWindow && res != 2 {
						s.Violate("C09:revoked-not-reported", fmt.Sprintf("witness revoked inside the window but result %d", res), desc)
					}
					if !revokedInWindow && res != 0 {
						s.Violate("C09:good-witness-update-failed", fmt.Sprintf("non-revoked witness could not be updated: result %d", res), desc)
					}
					if !revokedInWindow && res == 0 && newIdx != b {
						s.Violate("C09:good-witness-update-failed", "update did not advance the witness", desc)
					}
				}
				if res != 0 {
					break
				}
			}
		}
	}
	s.Notes["rule"] = fmt.Sprintf("%d histories on 128-bit groups with %d revocations, two witnesses issued at every index, half of the revocations hit an existing witness; "+
		"every contiguous event window as an update message, applied in random sequences of 1..4 to fresh witness copies, shared (one object for many witnesses) or fresh "+
		"update objects; checked against the abstract specification (set of revoked values, accumulator chain); distinct by (witness, update, cache) state", nHist, nRev)
}
