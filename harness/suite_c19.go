package main

import (
	"fmt"
	"math/big"

	"github.com/privacybydesign/gabi"
	gbig "github.com/privacybydesign/gabi/big"
	"github.com/privacybydesign/gabi/safeprime"
)

func init() { suites["C19"] = suiteC19 }

type logReader struct {
	rng    *Rng
	chunks [][]byte
}

func (l *logReader) Read(p []byte) (int, error) {
	l.rng.Read(p)
	if len(l.chunks) > 10000 {
		panic("RandomPrimeInRange does not terminate on this interval")
	}
	l.chunks = append(l.chunks, append([]byte{}, p...))
	return len(p), nil
}

func smallPrimesUpTo(n int) []int64 {
	var ps []int64
	for c := int64(2); c < int64(n); c++ {
		ok := true
		for _, p := range ps {
			if p*p > c {
				break
			}
			if c%p == 0 {
				ok = false
				break
			}
		}
		if ok {
			ps = append(ps, c)
		}
	}
	return ps
}

func suiteC19(s *Suite, rng *Rng, tier string) {
	useRng(rng)
	stride := 16
	pmax := 1 << 10
	nmax := 1 << 14
	if tier == "thorough" {
		stride, pmax, nmax = 1, 1<<12, 1<<20
	}
	off := int(rng.Intn(stride))
	primes := smallPrimesUpTo(pmax)
	smallLeft := 600
	sm := func() bool {
		if smallLeft > 0 {
			smallLeft--
			return true
		}
		return false
	}
	// ---- Legendre symbol and square roots modulo primes: exhaustive small domains ----
	cnt := 0
	for _, p := range primes[1:] {
		pb := bi(p)
		for a := int64(-p); a < 2*p; a++ {
			cnt++
			if (cnt+off)%stride != 0 {
				continue
			}
			ab := bi(a)
			got := gabi.VerifLegendreSymbol(ab, pb)
			s.Add(1903, "legendre", p < 60 && sm(), L{a, p}, got)
			s.Nontrivial[fmt.Sprint("L", a, p)] = true
			want := big.Jacobi(big.NewInt(a), big.NewInt(p))
			if got != want {
				s.Violate("C19:legendre-wrong", fmt.Sprintf("LegendreSymbol(%d,%d) = %d, math/big.Jacobi = %d", a, p, got, want), L{a, p})
			}
			if a >= 0 && a < p {
				var r *gbig.Int
				var ok bool
				if pan := catchPanic(func() { r, ok = gabi.VerifPrimeSqrt(ab, pb) }); pan != "" {
					s.Violate("C19:primesqrt-panicked", fmt.Sprintf("PrimeSqrt(%d,%d) panicked: %s", a, p, pan), L{a, p})
					continue
				}
				var psOut V = okV(nil)
				if ok {
					psOut = okV(r)
				}
				s.Add(1909, "primesqrt", p < 60 && sm(), L{a, p}, psOut)
				isQR := want == 1 || a == 0
				if ok != isQR {
					s.Violate("C19:primesqrt-existence-wrong", fmt.Sprintf("PrimeSqrt(%d,%d) ok=%v", a, p, ok), L{a, p})
				}
				if ok && new(gbig.Int).Mod(new(gbig.Int).Mul(r, r), pb).Cmp(ab) != 0 {
					s.Violate("C19:primesqrt-wrong", fmt.Sprintf("PrimeSqrt(%d,%d) = %s does not square to a", a, p, r), L{a, p})
				}
			}
		}
	}
	// Jacobi for odd composite moduli
	for m := int64(3); m < 400; m += 2 {
		for a := int64(0); a < m; a += 1 + int64(rng.Intn(3)) {
			got := gabi.VerifLegendreSymbol(bi(a), bi(m))
			s.Add(1903, "jacobi-composite", sm(), L{a, m}, got)
			if want := big.Jacobi(big.NewInt(a), big.NewInt(m)); got != want {
				s.Violate("C19:legendre-wrong", fmt.Sprintf("LegendreSymbol(%d,%d) = %d, Jacobi = %d", a, m, got, want), L{a, m})
			}
		}
	}
	// ---- four squares ----
	for n := 0; n < nmax; n++ {
		if (n+off)%stride != 0 && n > 300 {
			continue
		}
		nb := bi(int64(n))
		x, y, z, w := gabi.VerifSumFourSquares(nb)
		sum := new(gbig.Int)
		for _, v := range []*gbig.Int{x, y, z, w} {
			if v.Sign() < 0 {
				s.Violate("C19:foursquares-negative", fmt.Sprintf("SumFourSquares(%d) has a negative component", n), L{n})
			}
			sum.Add(sum, new(gbig.Int).Mul(v, v))
		}
		s.Nontrivial[fmt.Sprint("4sq", n)] = true
		if sum.Cmp(nb) != 0 {
			s.Violate("C19:foursquares-wrong", fmt.Sprintf("SumFourSquares(%d) = %s,%s,%s,%s", n, x, y, z, w), L{n})
		}
	}
	for i := 0; i < 40; i++ {
		nb := rng.Bits(1 + rng.Intn(300))
		x, y, z, w := gabi.VerifSumFourSquares(nb)
		sum := new(gbig.Int)
		for _, v := range []*gbig.Int{x, y, z, w} {
			sum.Add(sum, new(gbig.Int).Mul(v, v))
		}
		if sum.Cmp(nb) != 0 {
			s.Violate("C19:foursquares-wrong", "random large input", L{nb})
		}
	}
	// ---- ModSqrt over products of two primes < 100 with / without factor 4 ----
	small := smallPrimesUpTo(100)[1:]
	pairs := 0
	for i, p := range small {
		for _, q := range small[i+1:] {
			pairs++
			if stride > 1 && (pairs+off)%4 != 0 {
				continue
			}
			for _, four := range []bool{false, true} {
				n := p * q
				factors := []*gbig.Int{bi(p), bi(q)}
				if four {
					n *= 4
					factors = append([]*gbig.Int{bi(4)}, factors...)
				}
				for a := int64(0); a < n; a += 1 + int64(rng.Intn(5)) {
					var r *gbig.Int
					var ok bool
					if pan := catchPanic(func() { r, ok = gabi.VerifModSqrt(bi(a), factors) }); pan != "" {
						s.Violate("C19:modsqrt-panicked", fmt.Sprintf("ModSqrt(%d, %v) panicked: %s", a, factors, pan), L{a, n})
						continue
					}
					var msOut V = okV(nil)
					if ok {
						msOut = okV(r)
					}
					s.Add(1910, "modsqrt", n < 200 && sm(), L{a, dumpBigs(factors)}, msOut)
					// reference: brute force
					exists := false
					for t := int64(0); t < n; t++ {
						if t*t%n == a {
							exists = true
							break
						}
					}
					if ok != exists {
						s.Violate("C19:modsqrt-existence-wrong", fmt.Sprintf("ModSqrt(%d, %v) ok=%v, a square root exists: %v", a, factors, ok, exists), L{a, n})
					} else if ok && new(gbig.Int).Mod(new(gbig.Int).Mul(r, r), bi(n)).Cmp(bi(a)) != 0 {
						s.Violate("C19:modsqrt-wrong", fmt.Sprintf("ModSqrt(%d, %v) = %s", a, factors, r), L{a, n})
					}
				}
			}
		}
	}
	// ---- square roots modulo large primes of every class mod 8 (shortcut / Tonelli-Shanks with long 2-parts), and
	//      modulo products of two or three of them with and without the factor 4 ----
	{
		var bigPrimes []*gbig.Int
		nbig := 12
		if tier == "thorough" {
			nbig = 60
		}
		for i := 0; i < nbig; i++ {
			var p *gbig.Int
			if i%3 == 0 {
				// p = k * 2^e + 1 with a long power of two in p - 1
				e := uint(3 + rng.Intn(40))
				for {
					k := rng.Bits(40 + rng.Intn(100))
					k.SetBit(k, 0, 1)
					p = new(gbig.Int).Lsh(k, e)
					p.Add(p, bi(1))
					if p.ProbablyPrime(30) {
						break
					}
				}
			} else {
				p = nextPrime(new(gbig.Int).Add(rng.Bits(30+rng.Intn(230)), pow2(29)), 1)
			}
			bigPrimes = append(bigPrimes, p)
			for k := 0; k < 6; k++ {
				a := rng.Below(p)
				if k%2 == 0 {
					a.Mul(a, a).Mod(a, p)
				}
				var r *gbig.Int
				var ok bool
				if pan := catchPanic(func() { r, ok = gabi.VerifPrimeSqrt(cp(a), cp(p)) }); pan != "" {
					s.Violate("C19:primesqrt-panicked", fmt.Sprintf("PrimeSqrt(%s,%s) panicked: %s", a, p, pan), L{a, p})
					continue
				}
				var out V = okV(nil)
				if ok {
					out = okV(r)
				}
				s.Add(1909, fmt.Sprintf("primesqrt-large:p mod 8 = %d", new(gbig.Int).Mod(p, bi(8)).Int64()), false, L{a, p}, out)
				s.Nontrivial[fmt.Sprint("PS", a, p)] = true
				isQR := a.Sign() == 0 || big.Jacobi(a.Go(), p.Go()) == 1
				if ok != isQR {
					s.Violate("C19:primesqrt-existence-wrong", fmt.Sprintf("PrimeSqrt(%s,%s) ok=%v", a, p, ok), L{a, p})
				}
				if ok && new(gbig.Int).Mod(new(gbig.Int).Mul(r, r), p).Cmp(a) != 0 {
					s.Violate("C19:primesqrt-wrong", fmt.Sprintf("PrimeSqrt(%s,%s) = %s does not square to a", a, p, r), L{a, p})
				}
			}
		}
		for i := 0; i+2 < len(bigPrimes); i += 2 {
			for _, four := range []bool{false, true} {
				factors := []*gbig.Int{bigPrimes[i], bigPrimes[i+1]}
				if i%4 == 0 {
					factors = append(factors, bigPrimes[i+2])
				}
				distinct := true
				n := bi(1)
				for j, f := range factors {
					for _, g := range factors[:j] {
						if f.Cmp(g) == 0 {
							distinct = false
						}
					}
					n.Mul(n, f)
				}
				if !distinct {
					continue
				}
				if four {
					factors = append([]*gbig.Int{bi(4)}, factors...)
					n.Mul(n, bi(4))
				}
				for k := 0; k < 4; k++ {
					a := rng.Below(n)
					if k > 0 {
						a.Mul(a, a).Mod(a, n)
					}
					var r *gbig.Int
					var ok bool
					if pan := catchPanic(func() { r, ok = gabi.VerifModSqrt(cp(a), factors) }); pan != "" {
						s.Violate("C19:modsqrt-panicked", fmt.Sprintf("ModSqrt(%s, %v) panicked: %s", a, factors, pan), L{a, n})
						continue
					}
					var out V = okV(nil)
					if ok {
						out = okV(r)
					}
					s.Add(1910, fmt.Sprintf("modsqrt-large:%d factors", len(factors)), false, L{a, dumpBigs(factors)}, out)
					if k > 0 && !ok {
						s.Violate("C19:modsqrt-existence-wrong", fmt.Sprintf("ModSqrt(%s, %v) finds no root of a square", a, factors), L{a, n})
					}
					if ok && new(gbig.Int).Mod(new(gbig.Int).Mul(r, r), n).Cmp(a) != 0 {
						s.Violate("C19:modsqrt-wrong", fmt.Sprintf("ModSqrt(%s, %v) = %s", a, factors, r), L{a, n})
					}
				}
			}
		}
	}
	// ---- inverse, powers, CRT ----
	for i := 0; i < 600; i++ {
		var n, a *gbig.Int
		if i < 300 {
			n = bi(int64(2 + rng.Intn(300)))
			a = bi(int64(rng.Intn(900)))
		} else {
			n = rng.Bits(2 + rng.Intn(4096))
			if n.Cmp(bi(2)) < 0 {
				n = bi(7)
			}
			a = rng.Bits(1 + rng.Intn(4096))
		}
		inv, ok := gabi.VerifModInverse(a, n)
		var out V
		if ok {
			out = inv
		}
		s.Add(1901, "modinverse", i < 300 && sm(), L{a, n}, out)
		s.Nontrivial[S(L{a, n})] = true
		g := new(gbig.Int).GCD(nil, nil, a, n)
		if ok != (g.Cmp(bi(1)) == 0) {
			s.Violate("C19:modinverse-existence-wrong", fmt.Sprintf("ModInverse(%s,%s) ok=%v gcd=%s", a, n, ok, g), L{a, n})
		}
		if ok && new(gbig.Int).Mod(new(gbig.Int).Mul(a, inv), n).Cmp(bi(1)) != 0 {
			s.Violate("C19:modinverse-wrong", "a*inv != 1", L{a, n})
		}
		// signed powers
		y := rng.Bits(1 + rng.Intn(300))
		if rng.Bool() {
			y.Neg(y)
		}
		r, err := gabi.VerifModPow(a, y, n)
		var pout V
		if err == nil {
			pout = r
		}
		s.Add(1902, "modpow", i < 300 && sm(), L{a, y, n}, pout)
		if (err == nil) != (y.Sign() >= 0 || g.Cmp(bi(1)) == 0) {
			s.Violate("C19:modpow-existence-wrong", "ModPow error/ok mismatch", L{a, y, n})
		}
		if err == nil {
			ref := new(big.Int).Exp(a.Go(), new(big.Int).Abs(y.Go()), n.Go())
			if y.Sign() < 0 {
				ref.ModInverse(ref, n.Go())
			}
			if ref.Cmp(r.Go()) != 0 {
				s.Violate("C19:modpow-wrong", "ModPow differs from reference", L{a, y, n})
			}
		}
	}
	for i := 0; i < 300; i++ {
		var pa, pb *gbig.Int
		if i < 150 {
			pa, pb = bi(int64(2+rng.Intn(200))), bi(int64(2+rng.Intn(200)))
		} else {
			pa, pb = nextPrime(rng.Bits(10+rng.Intn(500)), 1), nextPrime(rng.Bits(10+rng.Intn(500)), 1)
		}
		a, b := rng.Below(pa), rng.Below(pb)
		var out V
		var res *gbig.Int
		func() {
			defer func() {
				if r := recover(); r != nil {
					out = panicV()
				}
			}()
			res = gabi.VerifCrt(a, pa, b, pb)
			out = okV(res)
		}()
		s.Add(1904, "crt", i < 150 && sm(), L{a, pa, b, pb}, out)
		coprime := new(gbig.Int).GCD(nil, nil, pa, pb).Cmp(bi(1)) == 0
		if coprime && res == nil {
			s.Violate("C19:crt-wrong", "Crt panicked on coprime moduli", L{a, pa, b, pb})
		}
		if res != nil && (new(gbig.Int).Mod(res, pa).Cmp(a) != 0 || new(gbig.Int).Mod(res, pb).Cmp(b) != 0) {
			s.Violate("C19:crt-wrong", "Crt result has wrong residues", L{a, pa, b, pb})
		}
	}
	// ---- FastMod: all moduli 2^b - c, b <= 12, negative and huge arguments, aliased operands ----
	for b := uint(2); b <= 12; b++ {
		for c := int64(1); c < int64(1)<<(b-1); c += 1 + int64(rng.Intn(int(b))) {
			p := new(gbig.Int).Sub(pow2(b), bi(c))
			for k := 0; k < 12; k++ {
				var x *gbig.Int
				switch k % 4 {
				case 0:
					x = bi(int64(rng.Intn(70000)) - 300)
				case 1:
					x = new(gbig.Int).Add(p, bi(int64(rng.Intn(3))-1))
				case 2:
					x = rng.Bits(1 + rng.Intn(300))
				default:
					x = new(gbig.Int).Mul(p, bi(int64(rng.Intn(1000))))
				}
				alias := k%2 == 0
				want := new(gbig.Int).Mod(x, p)
				xin := cp(x)
				got := gabi.VerifFastMod(p, xin, alias)
				s.Add(1905, fmt.Sprintf("fastmod:alias=%v", alias), b <= 6 && sm(), L{p, x}, got)
				s.Nontrivial[S(L{p, x, alias})] = true
				if got.Cmp(want) != 0 {
					s.Violate("C19:fastmod-wrong", fmt.Sprintf("FastMod(%s) of %s = %s (alias=%v)", p, x, got, alias), L{p, x})
				}
			}
		}
	}
	for i := 0; i < 60; i++ {
		// the moduli the library actually uses it for: big primes 2^b - small c, and disabled ones
		bb := uint(64 + rng.Intn(1000))
		// (the subtracted part is kept shorter than bb bits: the modulus must stay positive)
		p := new(gbig.Int).Sub(pow2(bb), rng.Bits(1+rng.Intn(63)))
		x := rng.Bits(1 + rng.Intn(4096))
		if i%5 == 0 {
			x.Neg(x)
		}
		got := gabi.VerifFastMod(p, cp(x), i%2 == 0)
		s.Add(1905, "fastmod-large", false, L{p, x}, got)
		if got.Cmp(new(gbig.Int).Mod(x, p)) != 0 {
			s.Violate("C19:fastmod-wrong", "large modulus", L{p, x})
		}
	}
	// ---- random primes inside the requested interval: candidate construction and sieve ----
	sp, prod := gabi.VerifSmallPrimes()
	spv := L{}
	for _, q := range sp {
		spv = append(spv, int(q))
	}
	for i := 0; i < 60; i++ {
		start := uint(2 + rng.Intn(300))
		length := uint(2 + rng.Intn(int(start)))
		if i < 10 {
			// small intervals that contain a prime
			start, length = uint(4+i), uint(3+i%2)
		}
		if length < 24 {
			// the function loops forever on an interval without odd primes: only ask for intervals that contain one
			found := false
			for x := new(gbig.Int).Add(pow2(start), bi(1)); x.Cmp(new(gbig.Int).Add(pow2(start), pow2(length))) < 0; x.Add(x, bi(2)) {
				if x.ProbablyPrime(20) {
					found = true
					break
				}
			}
			if !found {
				s.Dist["interval-without-prime-skipped"]++
				continue
			}
		}
		lr := &logReader{rng: rng}
		p, err := gabi.VerifRandomPrimeInRange(lr, start, length)
		if err != nil {
			panic(err)
		}
		lo := pow2(start)
		hi := new(gbig.Int).Add(lo, pow2(length))
		if p.Cmp(lo) < 0 || p.Cmp(hi) > 0 || !p.ProbablyPrime(30) {
			s.Violate("C19:randomprime-out-of-range", fmt.Sprintf("RandomPrimeInRange(%d,%d) = %s", start, length, p), L{start, length, p})
		}
		for ci, ch := range lr.chunks {
			last := ci == len(lr.chunks)-1
			cand := new(gbig.Int).Set(p)
			if !last {
				cand = nil
			}
			in := L{start, length, ch}
			if last {
				s.Add(1906, "prime-candidate", sm(), in, cand)
			}
			// every earlier chunk must have been rejected by the sieve or by the primality test
			_ = in
		}
		// sieve decisions on the produced prime and on random numbers
		for k := 0; k < 3; k++ {
			x := new(gbig.Int).Add(lo, rng.Bits(int(length)))
			md := new(gbig.Int).Mod(x, prod).Uint64()
			rej := false
			for _, q := range sp {
				if md%uint64(q) == 0 && (start > 6 || md != uint64(q)) {
					rej = true
				}
			}
			s.Add(1907, "sieve", sm(), L{spv, prod, start, x}, rej)
		}
	}
	// ---- safe prime candidates ----
	for i := 0; i < 300; i++ {
		n := 1 + rng.Intn(5)
		b := uint(1 + rng.Intn(8))
		bs := make([]byte, n)
		rng.Read(bs)
		orig := append([]byte{}, bs...)
		safeprime.VerifPrepareBytes(bs, b)
		s.Add(1908, "prepare-bytes", sm(), L{orig, b}, bs)
		q := new(gbig.Int).SetBytes(bs)
		bits := 8*(n-1) + int(b)
		if q.BitLen() != bits || q.Bit(0) != 1 {
			s.Violate("C19:prepare-bytes-wrong", fmt.Sprintf("prepareBytes: %d bits wanted, got %d", bits, q.BitLen()), L{orig, b})
		}
	}
	for _, bits := range []int{16, 24, 33, 48, 64} {
		for k := 0; k < 4; k++ {
			p, err := safeprime.Generate(bits, nil)
			if err != nil {
				s.Violate("C19:safeprime-generation-failed", err.Error(), L{bits})
				continue
			}
			if p.BitLen() != bits || !p.ProbablyPrime(30) || !new(gbig.Int).Rsh(p, 1).ProbablyPrime(30) {
				s.Violate("C19:safeprime-wrong", fmt.Sprintf("Generate(%d) = %s", bits, p), L{bits, p})
			}
			if !safeprime.ProbablySafePrime(p, 20) {
				s.Violate("C19:safeprime-recognition-wrong", "ProbablySafePrime rejects a safe prime", L{p})
			}
			np := new(gbig.Int).Add(p, bi(2))
			if safeprime.ProbablySafePrime(np, 20) != (np.ProbablyPrime(30) && new(gbig.Int).Rsh(np, 1).ProbablyPrime(30)) {
				s.Violate("C19:safeprime-recognition-wrong", "ProbablySafePrime disagrees with definition", L{np})
			}
		}
	}
	// safe-prime recognition on every integer of a small domain, against trial division (x is a safe prime iff x and (x-1)/2
	// are prime: 5, 7, 11, 23, 47, ...)
	{
		isPrime := func(n int64) bool {
			if n < 2 {
				return false
			}
			for d := int64(2); d*d <= n; d++ {
				if n%d == 0 {
					return false
				}
			}
			return true
		}
		top := int64(1 << 12)
		if tier == "thorough" {
			top = 1 << 16
		}
		for x := int64(-8); x < top; x++ {
			want := x > 2 && isPrime(x) && isPrime((x-1)/2)
			if got := safeprime.ProbablySafePrime(bi(x), 20); got != want {
				s.Violate("C19:safeprime-recognition-wrong", fmt.Sprintf("ProbablySafePrime(%d) = %v, by trial division %v", x, got, want), L{x})
			}
		}
		s.Dist["safeprime-recognition-exhaustive"] += int(top + 8)
	}
	s.Notes["rule"] = fmt.Sprintf("Legendre/Jacobi and PrimeSqrt: all a in [-p,2p) for all primes p < %d (1/%d sampled by seed in quick), Jacobi for odd composites < 400; four squares: all n < %d "+
		"(sampled) + random to 300 bits; ModSqrt: products of two primes < 100 with/without factor 4 against brute force; ModInverse/ModPow/Crt small exhaustive-ish and random to 4096 bits; "+
		"FastMod: all moduli 2^b-c, b<=12, negative/huge/aliased operands + large moduli; RandomPrimeInRange candidates and sieve; prepareBytes; safe prime generation at 16..64 bits; safe-prime recognition on every integer from -8 to 2^12 (2^16 thorough) against trial division", pmax, stride, nmax)
}

func catchPanic(f func()) (msg string) {
	defer func() {
		if r := recover(); r != nil {
			msg = fmt.Sprint(r)
		}
	}()
	f()
	return
}
