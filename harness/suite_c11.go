package main

import (
	"encoding/json"
	"fmt"

	"github.com/privacybydesign/gabi"
	gbig "github.com/privacybydesign/gabi/big"
	"github.com/privacybydesign/gabi/gabikeys"
	"github.com/privacybydesign/gabi/revocation"
)

func init() { suites["C11"] = suiteC11 }

var nrOrder = []string{"alpha", "beta", "delta", "epsilon", "zeta"}

func dumpNrCommit(c *revocation.ProofCommit) V {
	cu, cr, nu, secrets, rands, _ := c.VerifState()
	se, ra := L{}, L{}
	for i, n := range nrOrder {
		se = append(se, L{i, secrets[n]})
		ra = append(ra, L{i, rands[n]})
	}
	return L{cu, cr, nu, se, ra}
}

func suiteC11(s *Suite, rng *Rng, tier string) {
	useRng(rng)
	var seed [32]byte
	rng.Read(seed[:])
	gabi.VerifSetGlobalCPRNG(&seed)
	nScripts := 14
	if tier == "thorough" {
		nScripts = 200
	}
	keys := []*KeyPair{makeKey(256, 0, 5, rng, true), makeKey(1024, 0, 5, rng, true)}
	ops := []string{"prepare", "revokeOther", "revokeSelf", "update", "prove", "prove", "update", "prepare", "resign"}
	fixed := [][]string{
		{"prepare", "revokeOther", "update", "prove"},
		{"prepare", "prove", "prove"},
		{"revokeOther", "update", "prepare", "revokeOther", "update", "prove"},
		{"revokeSelf", "update", "prove"},
		{"prepare", "revokeOther", "revokeOther", "update", "prepare", "prove"},
		{"prepare", "revokeOther", "update", "revokeOther", "update", "prove", "prove"},
		{"prepare", "resign", "update", "prove"},
		{"prepare", "resign", "update", "prepare", "prove", "prove"},
		{"revokeOther", "update", "prepare", "resign", "update", "prove"},
	}
	for sc := 0; sc < nScripts; sc++ {
		kp := keys[0]
		if sc%4 == 3 {
			kp = keys[1]
		}
		pk := kp.Pk
		h := newRevHistory(kp)
		secret := newSecret(rng)
		mkCred := func() *gabi.Credential {
			w, err := revocation.RandomWitness(kp.Sk, h.accs[len(h.accs)-1])
			if err != nil {
				panic(err)
			}
			sa, _ := h.accs[len(h.accs)-1].Sign(kp.Sk)
			w.SignedAccumulator = sa
			attrs := []*gbig.Int{secret, rng.Bits(100), rng.Bits(200), w.E}
			sig, err := gabi.SignMessageBlock(kp.Sk, pk, attrs)
			if err != nil {
				panic(err)
			}
			return &gabi.Credential{Signature: sig, Pk: pk, Attributes: attrs, NonRevocationWitness: w}
		}
		cred := mkCred()
		other := mkCred()
		selfRevoked := false
		depth := 3 + rng.Intn(4)
		if sc < len(fixed) {
			depth = len(fixed[sc])
		}
		script := ""
		for step := 0; step < depth; step++ {
			op := ops[rng.Intn(len(ops))]
			if step == depth-1 {
				op = "prove"
			}
			if sc < len(fixed) {
				op = fixed[sc][step]
			}
			script += op[:3] + ","
			w := cred.NonRevocationWitness
			switch op {
			case "prepare":
				if err := cred.NonrevPrepareCache(); err != nil {
					s.Violate("C11:prepare-failed", "NonrevPrepareCache failed: "+err.Error(), L{script})
				}
			case "resign":
				// the issuer signs the unchanged accumulator again at a later time (nothing was revoked)
				cur := *h.accs[len(h.accs)-1]
				cur.Time += 3600
				h.accs[len(h.accs)-1] = &cur
			case "revokeOther":
				h.revoke(nextPrime(rng.Bits(100), 1))
			case "revokeSelf":
				if !selfRevoked {
					h.revoke(w.E)
					selfRevoked = true
				}
			case "update":
				our := int(w.SignedAccumulator.Accumulator.Index)
				last := len(h.accs) - 1
				if last == our && h.accs[last].Time > w.SignedAccumulator.Accumulator.Time && !selfRevoked {
					u, err := revocation.NewUpdate(kp.Sk, h.accs[last], nil)
					if err != nil {
						panic(err)
					}
					u.SignedAccumulator.Accumulator = nil
					if err := w.Update(pk, u); err != nil {
						s.Violate("C11:update-failed", "update to a re-signed accumulator failed: "+err.Error(), L{script})
					}
					if w.SignedAccumulator.Accumulator == nil || w.SignedAccumulator.Accumulator.Time != h.accs[last].Time {
						s.Violate("C11:resigned-accumulator-not-adopted", "witness did not adopt the re-signed accumulator", L{script})
					}
				}
				if last > our {
					err := w.Update(pk, h.window(our+1, last))
					if selfRevoked && err != revocation.ErrorRevoked {
						s.Violate("C11:revoked-witness-updated", fmt.Sprintf("update of revoked witness returned %v", err), L{script})
					}
					if !selfRevoked && err != nil {
						s.Violate("C11:update-failed", "update of non-revoked witness failed: "+err.Error(), L{script})
					}
				}
			case "prove":
				ctx, nonce := rng.Bits(200), rng.Bits(80)
				// state of a prepared commitment before it is consumed
				var before *revocation.ProofCommit
				var beforeComms []*gbig.Int
				var beforeIdx uint64
				if pb := cred.VerifPeekNonrevCache(); pb != nil {
					c, comms, _, idx := pb.VerifState()
					before, beforeIdx = c, idx
					beforeComms = append([]*gbig.Int{}, comms...)
					_ = before
				}
				var beforeDump V
				if before != nil {
					beforeDump = dumpNrCommit(before)
				}
				disclosed := []int{1}
				b, err := cred.CreateDisclosureProofBuilder(disclosed, nil, true)
				if err != nil {
					s.Violate("C11:prove-failed", "cannot build non-revocation proof with a valid witness: "+err.Error(), L{script})
					continue
				}
				nb := b.VerifNonrevBuilder()
				commit, comms, randomizer, _ := nb.VerifState()
				cu, _, _, secrets, rands, _ := commit.VerifState()
				_ = cu
				accNow := w.SignedAccumulator.Accumulator
				if before != nil && beforeIdx < accNow.Index {
					// a prepared commitment was refreshed for the updated witness
					s.Add(1102, fmt.Sprintf("%d:refresh", kp.Bits), false, L{dumpPk(pk), beforeDump, dumpBigs(beforeComms), w.U, accNow.Nu},
						okV(L{dumpBigs(comms), L{cuOf(commit), crOf(commit), nuOf(commit)}}))
				} else if before == nil {
					s.Add(1101, fmt.Sprintf("%d:commit", kp.Bits), false, L{dumpPk(pk), w.U, w.E, accNow.Nu, secrets["epsilon"], secrets["zeta"],
						randomizer, rands["beta"], rands["delta"], rands["epsilon"], rands["zeta"]},
						okV(L{dumpBigs(comms), L{cuOf(commit), crOf(commit), nuOf(commit)}}))
				}
				pl, err := gabi.ProofBuilderList{b}.BuildProofList(ctx, nonce, false)
				if err != nil {
					s.Violate("C11:prove-failed", "BuildProofList failed: "+err.Error(), L{script})
					continue
				}
				proof := pl[0].(*gabi.ProofD)
				// responses recomputed by the model (alpha was deleted from the proof)
				respOut := L{}
				full := commit.BuildProof(proof.C)
				for i, n := range nrOrder {
					respOut = append(respOut, L{i, full.Responses[n]})
				}
				s.Add(1103, "responses", false, L{dumpNrCommit(commit), proof.C}, okV(respOut))
				pks := []*gabikeys.PublicKey{pk}
				chk := func(kind string, p *gabi.ProofD, altered bool) bool {
					_, acc, amb := verifyCase(s, fmt.Sprintf("%d:%s", kp.Bits, kind), false, pks, ctx, nonce, false, nil, gabi.ProofList{p})
					s.Nontrivial[fmt.Sprint(sc, step, kind)] = true
					if amb {
						if !altered && !(gabi.ProofList{cloneProofD(p)}).Verify(pks, ctx, nonce, false, nil) {
							// may or may not fail depending on map order; record when it does
							s.Violate("C11:ambiguous-revocation-index", "honest non-revocation proof rejected: a second hidden response lies below 2^580 and Go's map order picked it", L{script})
						}
						return true
					}
					if altered && acc {
						s.Violate("C11:altered-nonrev-accepted", "accepted after alteration: "+kind, L{script, kind})
					}
					if !altered && !acc {
						s.Violate("C11:honest-nonrev-rejected", "proof with valid witness rejected ("+script+")", L{script})
					}
					return acc
				}
				if chk("honest", cloneProofD(proof), false) {
					// index and time a verifier reads are those of the witness at proving time
					vp := cloneProofD(proof)
					gabi.ProofList{vp}.Verify(pks, ctx, nonce, false, nil)
					if a := vp.NonRevocationProof.SignedAccumulator.Accumulator; a == nil || a.Index != accNow.Index || a.Time != accNow.Time {
						s.Violate("C11:wrong-accumulator-reported", "accepted proof carries an accumulator other than the one it was made against", L{script})
					}
				}
				// Known finding: an equally valid proof whose other hidden response happens to lie below
				// 2^580 (here: the same response reduced by a multiple of the group order, i.e. what a
				// smaller randomizer would have produced) is rejected whenever Go's map iteration
				// visits that attribute first.
				if sc < 4 {
					order := new(gbig.Int).Mul(kp.Sk.PPrime, kp.Sk.QPrime)
					amb := cloneProofD(proof)
					lim := pow2(579)
					r := amb.AResponses[2]
					if r.Cmp(lim) > 0 {
						k := new(gbig.Int).Div(new(gbig.Int).Sub(r, lim), order)
						k.Add(k, bi(1))
						r.Sub(r, k.Mul(k, order))
					}
					if r.Sign() >= 0 {
						rejected := 0
						for t := 0; t < 40; t++ {
							if !(gabi.ProofList{cloneProofD(amb)}).Verify(pks, ctx, nonce, false, nil) {
								rejected++
							}
						}
						s.Dist[fmt.Sprintf("ambiguous-proof-rejected-%d-of-40", rejected)]++
						if rejected > 0 {
							s.Violate("C11:ambiguous-revocation-index", fmt.Sprintf("a valid non-revocation proof with a second hidden response below 2^580 was rejected in %d of 40 verifications", rejected), L{script})
						}
					}
				}
				mut := func(kind string, f func(p *gabi.ProofD)) {
					p := cloneProofD(proof)
					f(p)
					chk(kind, p, true)
				}
				mut("Cr+1", func(p *gabi.ProofD) { p.NonRevocationProof.Cr.Add(p.NonRevocationProof.Cr, bi(1)) })
				mut("Cu+1", func(p *gabi.ProofD) { p.NonRevocationProof.Cu.Add(p.NonRevocationProof.Cu, bi(1)) })
				for _, n := range nrOrder[1:] {
					nn := n
					mut("resp-"+nn+"+1", func(p *gabi.ProofD) {
						p.NonRevocationProof.Responses[nn].Add(p.NonRevocationProof.Responses[nn], bi(1))
					})
				}
				mut("resp-deleted", func(p *gabi.ProofD) { delete(p.NonRevocationProof.Responses, "delta") })
				// an "alpha" entry supplied by the prover is overwritten by the verifier (SetExpected): no effect
				{
					p := cloneProofD(proof)
					p.NonRevocationProof.Responses["alpha"] = bi(12345)
					chk("alpha-injected(ignored)", p, false)
				}
				mut("nonrev-removed", func(p *gabi.ProofD) { p.NonRevocationProof = nil })
				mut("sacc-corrupted", func(p *gabi.ProofD) { d := p.NonRevocationProof.SignedAccumulator.Data; d[len(d)/2] ^= 1 })
				mut("sacc-other-counter", func(p *gabi.ProofD) { p.NonRevocationProof.SignedAccumulator.PKCounter++ })
				if len(h.accs) >= 2 {
					oa := h.accs[0]
					if accNow.Index == 0 {
						oa = h.accs[1]
					}
					sa, _ := oa.Sign(kp.Sk)
					sa.Accumulator = nil
					mut("sacc-of-other-index", func(p *gabi.ProofD) { p.NonRevocationProof.SignedAccumulator = sa })
					// the same over the wire, with extra members beside the signed data that spell out the accumulator the proof
					// was made for: only the issuer-signed data may say what the accumulator is
					{
						p := cloneProofD(proof)
						p.NonRevocationProof.SignedAccumulator = sa
						js, _ := json.Marshal(p)
						var tree interface{}
						json.Unmarshal(js, &tree)
						accJS, _ := json.Marshal(accNow)
						var accTree interface{}
						json.Unmarshal(accJS, &accTree)
						var inject func(x interface{}) bool
						inject = func(x interface{}) bool {
							switch v := x.(type) {
							case map[string]interface{}:
								_, hasData := v["data"]
								_, hasPk := v["pk"]
								if hasData && hasPk {
									for _, name := range []string{"acc", "accumulator", "Accumulator", "Acc"} {
										v[name] = accTree
									}
									return true
								}
								for _, c := range v {
									if inject(c) {
										return true
									}
								}
							case []interface{}:
								for _, c := range v {
									if inject(c) {
										return true
									}
								}
							}
							return false
						}
						if inject(tree) {
							js2, _ := json.Marshal(tree)
							var p2 gabi.ProofD
							if err := json.Unmarshal(js2, &p2); err == nil {
								chk("sacc-of-other-index+accumulator-spelled-out-on-the-wire", &p2, true)
							}
						}
					}
				}
				mut("hidden-revocation-response+1", func(p *gabi.ProofD) { p.AResponses[3].Add(p.AResponses[3], bi(1)) })
				// transplant from another credential of the same issuer
				if ow := other.NonRevocationWitness; ow.SignedAccumulator.Accumulator.Index == accNow.Index {
					ob, err := other.CreateDisclosureProofBuilder(disclosed, nil, true)
					if err == nil {
						opl, err := gabi.ProofBuilderList{ob}.BuildProofList(ctx, nonce, false)
						if err == nil {
							o := opl[0].(*gabi.ProofD)
							mut("nonrev-transplanted", func(p *gabi.ProofD) { p.NonRevocationProof = cloneProofD(o).NonRevocationProof })
						}
					}
				}
				// a holder who swaps in a newer accumulator without updating the witness cannot commit
				if last := len(h.accs) - 1; uint64(last) > accNow.Index {
					fw := *w
					sa, _ := h.accs[last].Sign(kp.Sk)
					fw.SignedAccumulator = sa
					if _, _, err := revocation.NewProofCommit(pk, &fw, nil); err == nil {
						s.Violate("C11:stale-witness-committed", "NewProofCommit accepted a witness that is not valid for the accumulator", L{script})
					}
				}
			}
		}
	}
	for _, kp := range keys {
		c11Forge(s, rng, kp)
	}
	s.Notes["rule"] = "cheating prover with a revoked credential and degenerate commitments (C_u = 0, N, 2N; C_r = 0); scripts of depth 3..6 over {prepare cache, revoke other, revoke self, update witness, prove} on a credential (256- and 1024-bit keys); commit / refresh / " +
		"responses recomputed by the model from observed randomness; per proof: every single-field alteration of the non-revocation part, accumulator substitutions, " +
		"cross-credential transplant, stale witness with newer accumulator; distinct by (script, step, kind)"
}

func cuOf(c *revocation.ProofCommit) *gbig.Int { cu, _, _, _, _, _ := c.VerifState(); return cu }
func crOf(c *revocation.ProofCommit) *gbig.Int { _, cr, _, _, _, _ := c.VerifState(); return cr }
func nuOf(c *revocation.ProofCommit) *gbig.Int { _, _, nu, _, _, _ := c.VerifState(); return nu }

// c11Forge: a holder whose credential was revoked (so that no valid witness exists for the current accumulator)
// tries degenerate commitments: C_u = 0 (mod N) makes the relation nu = C_u^alpha * h^(-beta) hold vacuously in
// the verifier's reconstruction; everything else is computed honestly. The verifier must reject.
func c11Forge(s *Suite, rng *Rng, kp *KeyPair) {
	pk := kp.Pk
	n := pk.N
	for _, variant := range []string{"Cu=0", "Cu=N", "Cu=2N", "Cu=0,Cr=0"} {
		h := newRevHistory(kp)
		secret := newSecret(rng)
		w, err := revocation.RandomWitness(kp.Sk, h.accs[0])
		if err != nil {
			panic(err)
		}
		sa, _ := h.accs[0].Sign(kp.Sk)
		w.SignedAccumulator = sa
		attrs := []*gbig.Int{secret, rng.Bits(100), rng.Bits(200), w.E}
		sig, err := gabi.SignMessageBlock(kp.Sk, pk, attrs)
		if err != nil {
			panic(err)
		}
		cred := &gabi.Credential{Signature: sig, Pk: pk, Attributes: attrs, NonRevocationWitness: w}
		h.revoke(w.E) // the issuer revokes this very credential
		last := h.accs[len(h.accs)-1]
		sacc, _ := last.Sign(kp.Sk)
		if err := w.Update(pk, h.window(1, 1)); err != revocation.ErrorRevoked {
			s.Violate("C11:revoked-witness-updated", fmt.Sprintf("update of a revoked witness returned %v", err), L{variant})
			continue
		}
		ctx, nonce := rng.Bits(200), rng.Bits(80)
		b, err := cred.CreateDisclosureProofBuilder([]int{1}, nil, false)
		if err != nil {
			panic(err)
		}
		_, _, _, rands, _ := b.VerifState()
		rands[3] = revocation.NewProofRandomizer() // the size an honest non-revocation builder uses
		skr := new(gbig.Int).Add(pow2(pk.Params.LmCommit-1), rng.Bits(int(pk.Params.LmCommit)-2))
		contribs, err := b.Commit(map[string]*gbig.Int{"secretkey": skr})
		if err != nil {
			panic(err)
		}
		rAlpha := rands[3]
		e := w.E
		eps, zeta := rng.Bits(300), rng.Bits(300)
		rBeta, rDelta, rEps, rZeta := rng.Bits(800), rng.Bits(800), rng.Bits(500), rng.Bits(500)
		exp := func(b, x *gbig.Int) *gbig.Int { return new(gbig.Int).Exp(b, x, n) }
		mul := func(xs ...*gbig.Int) *gbig.Int {
			r := bi(1)
			for _, x := range xs {
				r.Mul(r, x).Mod(r, n)
			}
			return r
		}
		inv := func(x *gbig.Int) *gbig.Int { return new(gbig.Int).ModInverse(x, n) }
		cr := mul(exp(pk.G, eps), exp(pk.H, zeta))
		c1 := mul(exp(pk.G, rEps), exp(pk.H, rZeta))
		c3 := mul(exp(cr, rAlpha), inv(exp(pk.G, rBeta)), inv(exp(pk.H, rDelta)))
		cu := bi(0)
		switch variant {
		case "Cu=N":
			cu = new(gbig.Int).Set(n)
		case "Cu=2N":
			cu = new(gbig.Int).Lsh(n, 1)
		case "Cu=0,Cr=0":
			cr, c1, c3 = bi(0), bi(0), bi(0)
		}
		c2 := bi(0)
		all := append(append([]*gbig.Int{}, contribs...), cr, cu, last.Nu, c1, c2, c3)
		c := gabi.VerifCreateChallenge(ctx, nonce, all, false)
		proof := b.CreateProof(c).(*gabi.ProofD)
		resp := func(r, x *gbig.Int) *gbig.Int { return new(gbig.Int).Add(r, new(gbig.Int).Mul(c, x)) }
		proof.NonRevocationProof = &revocation.Proof{
			Cr: cr, Cu: cu,
			Responses: map[string]*gbig.Int{
				"beta": resp(rBeta, new(gbig.Int).Mul(e, eps)), "delta": resp(rDelta, new(gbig.Int).Mul(e, zeta)),
				"epsilon": resp(rEps, eps), "zeta": resp(rZeta, zeta),
			},
			SignedAccumulator: sacc,
		}
		_, acc, amb := verifyCase(s, fmt.Sprintf("%d:forged:%s", kp.Bits, variant), false, []*gabikeys.PublicKey{pk}, ctx, nonce, false, nil, gabi.ProofList{proof})
		s.Nontrivial[fmt.Sprint("forge", kp.Bits, variant)] = true
		if acc && !amb {
			s.Violate("C11:forged-nonrev-accepted:"+variant, "a holder of a REVOKED credential produced an accepted non-revocation proof against the current accumulator using the degenerate commitment "+variant,
				L{variant, kp.Bits})
		}
	}
}
