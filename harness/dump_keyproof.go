package main

import (
	"sort"

	gbig "github.com/privacybydesign/gabi/big"
	"github.com/privacybydesign/gabi/keyproof"
)

// wire encoding of the key-proof types (decoded by coq/theories/KeyProofWire.v)

func strV(s string) V { return []byte(s) }

func bigsOrNil(l []*gbig.Int) V {
	if l == nil {
		return nil
	}
	return l
}

func dPed(p keyproof.PedersenProof) V { return L{p.Commit, p.Sresult.Result, p.Hresult.Result} }

func dRange(p keyproof.RangeProof) V {
	if p.Results == nil {
		return nil
	}
	keys := make([]string, 0, len(p.Results))
	for k := range p.Results {
		keys = append(keys, k)
	}
	sort.Strings(keys)
	out := L{}
	for _, k := range keys {
		out = append(out, L{strV(k), L(bigList(p.Results[k]))})
	}
	return out
}

func bigList(l []*gbig.Int) []V {
	out := make([]V, len(l))
	for i, x := range l {
		out[i] = x
	}
	return out
}

func dMul(p keyproof.MultiplicationProof) V {
	return L{dPed(p.ModMultProof), p.Hider.Result, dRange(p.RangeProof)}
}

func dStepA(p keyproof.ExpStepAProof) V { return L{p.Bit.Result, p.EqualityHider.Result} }
func dStepB(p keyproof.ExpStepBProof) V {
	return L{dPed(p.Mul), p.Bit.Result, dMul(p.MultiplicationProof)}
}
func dStep(p keyproof.ExpStepProof) V {
	return L{p.Achallenge, dStepA(p.Aproof), p.Bchallenge, dStepB(p.Bproof)}
}

func dPeds(l []keyproof.PedersenProof) V {
	out := L{}
	for _, p := range l {
		out = append(out, dPed(p))
	}
	return out
}
func dRanges(l []keyproof.RangeProof) V {
	out := L{}
	for _, p := range l {
		out = append(out, dRange(p))
	}
	return out
}
func dMuls(l []keyproof.MultiplicationProof) V {
	out := L{}
	for _, p := range l {
		out = append(out, dMul(p))
	}
	return out
}

func dExp(p keyproof.ExpProof) V {
	steps := L{}
	for _, s := range p.InterStepsProofs {
		steps = append(steps, dStep(s))
	}
	return L{dPeds(p.ExpBitProofs), p.ExpBitEqHider.Result, dPeds(p.BasePowProofs), dRanges(p.BasePowRangeProofs), dMuls(p.BasePowRelProofs),
		dPed(p.StartProof), dPeds(p.InterResProofs), dRanges(p.InterResRangeProofs), steps}
}

func dPrime(p keyproof.PrimeProof) V {
	return L{dPed(p.HalfPCommit), dPed(p.PreaCommit), dPed(p.ACommit), dPed(p.AnegCommit), dPed(p.AResCommit), dPed(p.AnegResCommit),
		p.PreaMod.Result, p.PreaHider.Result, p.APlus1.Result, p.AMin1.Result, p.APlus1Challenge, p.AMin1Challenge,
		dRange(p.PreaRangeProof), dRange(p.ARangeProof), dRange(p.AnegRangeProof), dRange(p.PreaModRangeProof),
		dExp(p.AExpProof), dExp(p.AnegExpProof)}
}

func dIsSquare(p keyproof.IsSquareProof) V {
	return L{dPed(p.NProof), dPeds(p.SquaresProof), dPeds(p.RootsProof), dRanges(p.RootsRangeProof), dMuls(p.RootsValidProof)}
}

func dAspp(p keyproof.AlmostSafePrimeProductProof) V {
	return L{p.Nonce, bigsOrNilV(p.Commitments), bigsOrNilV(p.Responses)}
}

func bigsOrNilV(l []*gbig.Int) V {
	if l == nil {
		return nil
	}
	return L(bigList(l))
}

func dQspp(p keyproof.QuasiSafePrimeProductProof) V {
	return L{bigsOrNilV(p.SFproof.Responses), bigsOrNilV(p.PPPproof.Responses), bigsOrNilV(p.DPPproof.Responses), dAspp(p.ASPPproof)}
}

func dValidKey(p keyproof.ValidKeyProof) V {
	return L{dPed(p.PProof), dPed(p.QProof), dPed(p.PprimeProof), dPed(p.QprimeProof), p.PQNRel.Result, p.Challenge, p.GroupPrime,
		dPrime(p.PprimeIsPrimeProof), dPrime(p.QprimeIsPrimeProof), dQspp(p.QSPPproof), dIsSquare(p.BasesValidProof)}
}

func dEnv(names []string, proofs []keyproof.PedersenProof) V {
	out := L{}
	for i, n := range names {
		out = append(out, L{strV(n), dPed(proofs[i])})
	}
	return out
}
