package main

import (
	"fmt"

	"github.com/privacybydesign/gabi"
	gbig "github.com/privacybydesign/gabi/big"
	"github.com/privacybydesign/gabi/gabikeys"
	"github.com/privacybydesign/gabi/rangeproof"
)

func init() { suites["C14"] = suiteC14 }

func dumpKsInputs(in []gabi.KeyshareUserChallengeInput[string], ids map[string]int) V {
	l := L{}
	for _, i := range in {
		var k V
		if i.KeyID != nil {
			id, ok := ids[*i.KeyID]
			if !ok {
				id = 999
			}
			k = id
		}
		l = append(l, L{k, i.Value, i.Commitment, dumpBigs(i.OtherCommitments)})
	}
	return l
}

func suiteC14(s *Suite, rng *Rng, tier string) {
	useRng(rng)
	rounds := 10
	if tier == "thorough" {
		rounds = 150
	}
	keys := []*KeyPair{makeKey(1024, 0, 5, rng, true), makeKey(2048, 0, 5, rng, false), makeKey(1024, 0, 5, rng, true)}
	keys[2] = keys[0] // two names for "same key" configurations are not needed; keep three slots
	keys[2] = makeKey(1024, 0, 6, rng, false)
	kidOf := map[*gabikeys.PublicKey]string{}
	for i, k := range keys {
		k.Pk.Counter = uint(i)
		kidOf[k.Pk] = fmt.Sprintf("key%d", i)
	}
	for round := 0; round < rounds; round++ {
		// issuer names: all different, or (a rotated key) two keys of one issuer that differ in their counter only
		for i, k := range keys {
			k.Pk.Issuer = fmt.Sprintf("issuer%d", i)
		}
		if round%2 == 1 {
			keys[2].Pk.Issuer = keys[0].Pk.Issuer
		}
		n := 1 + rng.Intn(4)
		if tier != "thorough" && n > 3 {
			n = 3
		}
		userSecret, kssSecret := rng.Bits(250), rng.Bits(250)
		// which keys take part
		part := map[string]*gabikeys.PublicKey{}
		ids := map[string]int{}
		// every fourth round only the 2048-bit key is in play (the server's randomizer is then longer than with a 1024-bit key)
		only2048 := round%4 == 3
		for i, k := range keys {
			if (!only2048 && (rng.Intn(3) != 0 || i == 0)) || (only2048 && i == 1) {
				part[kidOf[k.Pk]] = k.Pk
			}
			ids[kidOf[k.Pk]] = i
		}
		context := rng.Bits(1 + rng.Intn(200))
		if round%3 == 0 {
			context = bi(1)
		}
		nonce := rng.Bits(128)
		issig := rng.Bool()
		var builders gabi.ProofBuilderList
		var pks []*gabikeys.PublicKey
		desc := ""
		for i := 0; i < n; i++ {
			kp := keys[rng.Intn(len(keys))]
			if only2048 {
				kp = keys[1]
			}
			participating := part[kidOf[kp.Pk]] != nil
			var kp0 *gbig.Int
			total := new(gbig.Int).Set(userSecret)
			if participating {
				kp0 = new(gbig.Int).Exp(kp.Pk.R[0], kssSecret, kp.Pk.N)
			}
			pks = append(pks, kp.Pk)
			if rng.Intn(3) == 0 {
				b, err := gabi.NewCredentialBuilder(kp.Pk, context, userSecret, rng.Bits(80), kp0, nil)
				if err != nil {
					panic(err)
				}
				builders = append(builders, b)
				desc += "U"
			} else {
				// credential over the total secret (user + server share for participating keys)
				if participating {
					total.Add(total, kssSecret)
				}
				nonrev := kp.Pk.G != nil && rng.Intn(3) == 0
				var cred *gabi.Credential
				if nonrev {
					cred, _ = makeRevCredential(kp, total, 4, rng)
				} else {
					cred = makeCredential(kp, total, 4, rng)
				}
				// the holder only knows its own share
				cred.Attributes[0] = userSecret
				var stm map[int][]*rangeproof.Statement
				if round%2 == 0 || rng.Intn(3) == 0 {
					// range parts on one, two or three hidden attributes (the builder commits twice in this protocol: for the
					// hashed challenge input and for the challenge itself; both must list the contributions alike)
					stm = map[int][]*rangeproof.Statement{}
					for _, j := range []int{2, 3, 4} {
						if (nonrev && j == 4) || cred.Attributes[j].BitLen() >= 250 || (len(stm) > 0 && round%2 == 1 && rng.Intn(3) == 0) {
							continue
						}
						st, _ := rangeproof.NewStatement(rangeproof.GreaterOrEqual, bi(0))
						stm[j] = []*rangeproof.Statement{st}
					}
					if len(stm) == 0 {
						stm = nil
					}
				}
				b, err := cred.CreateDisclosureProofBuilder([]int{1}, stm, nonrev)
				if err != nil {
					panic(err)
				}
				builders = append(builders, b)
				desc += "D"
				if nonrev {
					desc += "n"
				}
				if stm != nil {
					desc += "r"
				}
			}
			if participating {
				desc += "*"
			}
		}
		userRandomizer := rng.Bits(592)
		randomizers := map[string]*gbig.Int{"secretkey": userRandomizer}
		commReq, hashInput, err := gabi.KeyshareUserCommitmentRequest(builders, randomizers, part)
		if err != nil {
			panic(err)
		}
		kssRandomizer, kssComm, err := gabi.NewKeyshareCommitments(kssSecret, pks)
		if err != nil {
			panic(err)
		}
		pkd := L{}
		for _, pk := range pks {
			pkd = append(pkd, dumpPk(pk))
		}
		cm := L{}
		for _, c := range kssComm {
			cm = append(cm, L{c.P, c.Pcommit})
		}
		has1024 := false
		for _, pk := range pks {
			if pk.N.BitLen() == 1024 {
				has1024 = true
			}
		}
		rl := 640
		if has1024 {
			rl = 592
		}
		s.Add(1402, "kss-commitments", false, L{kssSecret, kssRandomizer, pkd}, L{okV(rl), okV(cm)})
		if kssRandomizer.BitLen() > rl {
			s.Violate("C14:randomizer-too-long", "keyshare randomizer longer than the smallest key allows", L{desc})
		}
		for i, b := range builders {
			if part[kidOf[pks[i]]] != nil {
				b.SetProofPCommitment(kssComm[i])
			}
		}
		respReq, challenge, err := gabi.KeyshareUserResponseRequest(builders, randomizers, hashInput, context, nonce, issig)
		if err != nil {
			panic(err)
		}
		keyd := L{}
		for name, pk := range part {
			keyd = append(keyd, L{ids[name], dumpPk(pk)})
		}
		call := func(kind string, commitHash []byte, rr gabi.KeyshareResponseRequest[string], altered bool) *gabi.ProofP {
			recomputed, _ := gabi.VerifKeyshareHash(rr.UserChallengeInput)
			in := L{kssSecret, kssRandomizer, commitHash, recomputed, L{rr.Context, rr.Nonce, rr.UserResponse, rr.IsSignatureSession, dumpKsInputs(rr.UserChallengeInput, ids)}, keyd}
			var out V
			var pp *gabi.ProofP
			func() {
				defer func() {
					if r := recover(); r != nil {
						out = panicV()
					}
				}()
				p, err := gabi.KeyshareResponse(kssSecret, kssRandomizer, gabi.KeyshareCommitmentRequest{HashedUserCommitments: commitHash}, rr, part)
				if err != nil {
					out = errV()
				} else {
					out = okV(L{p.C, p.SResponse})
					pp = p
				}
			}()
			s.Add(1401, "response:"+kind, false, in, out)
			s.Nontrivial[fmt.Sprint(round, kind)] = true
			if altered && pp != nil {
				s.Violate("C14:server-released-response", "keyshare server answered although the second message deviates from the committed one: "+kind, L{desc, kind})
			}
			if out.(L)[0] == 2 {
				s.Violate("C14:server-panicked", "KeyshareResponse panicked: "+kind, L{desc, kind})
			}
			return pp
		}
		proofP := call("honest", commReq.HashedUserCommitments, respReq, false)
		d := L{desc, fmt.Sprintf("context=%s sig=%v", context, issig)}
		if proofP == nil {
			s.Violate("C14:honest-exchange-failed", "keyshare server refused an honest exchange", d)
			continue
		}
		if proofP.C.Cmp(challenge) != 0 {
			s.Violate("C14:challenges-differ", "user and keyshare server compute different challenges", d)
		}
		proofPs := make([]*gabi.ProofP, len(builders))
		var kss []string
		anyPart := false
		for i := range builders {
			if part[kidOf[pks[i]]] != nil {
				proofPs[i] = proofP
				kss = append(kss, "kss")
				anyPart = true
			} else {
				kss = append(kss, "")
			}
		}
		_ = anyPart
		proofs, err := builders.BuildDistributedProofList(challenge, proofPs)
		if err != nil {
			panic(err)
		}
		_, acc, amb := verifyCase(s, "joint-list:"+desc, false, pks, context, nonce, issig, kss, cloneList(proofs))
		if !amb && !acc {
			s.Violate("C14:joint-proof-rejected", "proof list built with the keyshare server does not verify", d)
		}
		// ---- MergeProofP of both proof kinds against the model, both protocol versions (ProofP.P nil or not); missing
		//      parts of the proof make the library panic, as the model says ----
		for k := 0; k < 6; k++ {
			var pP *gbig.Int
			if rng.Intn(2) == 0 {
				pP = rng.Bits(1 + rng.Intn(1024))
			}
			pc, ps := rng.Bits(256), rng.Bits(1+rng.Intn(900))
			mpk := pks[rng.Intn(len(pks))]
			mergeOut := func(f func() V) (out V) {
				defer func() {
					if r := recover(); r != nil {
						out = panicV()
					}
				}()
				return okV(f())
			}
			pd := &gabi.ProofD{C: rng.Bits(256), A: rng.Bits(1000), EResponse: rng.Bits(300), VResponse: rng.Bits(1500),
				AResponses: map[int]*gbig.Int{0: rng.Bits(1 + rng.Intn(800))}, ADisclosed: map[int]*gbig.Int{}}
			for j := 1; j < 5; j++ {
				switch rng.Intn(3) {
				case 0:
					pd.AResponses[j] = rng.Bits(500)
				case 1:
					pd.ADisclosed[j] = rng.Bits(200)
				}
			}
			switch rng.Intn(10) {
			case 0:
				pd.C = nil
			case 1:
				delete(pd.AResponses, 0)
			case 2:
				pd.AResponses[0] = nil
			}
			inD := L{dumpProofD(cloneProofD(pd), nil), pP, pc, ps}
			outD := mergeOut(func() V {
				pd.MergeProofP(&gabi.ProofP{P: cp(pP), C: cp(pc), SResponse: cp(ps)}, mpk)
				return dumpProofDMain(pd)
			})
			s.Add(1403, "merge-D", false, inD, outD)
			pu := &gabi.ProofU{U: rng.Bits(1 + rng.Intn(mpk.N.BitLen())), C: rng.Bits(256), VPrimeResponse: rng.Bits(1500),
				SResponse: rng.Bits(1 + rng.Intn(800)), MUserResponses: map[int]*gbig.Int{}}
			if rng.Intn(3) == 0 {
				pu.MUserResponses[1+rng.Intn(3)] = rng.Bits(500)
			}
			switch rng.Intn(10) {
			case 0:
				pu.C = nil
			case 1:
				pu.SResponse = nil
			case 2:
				pu.U = nil
			}
			inU := L{dumpPk(mpk), dumpProofU(cloneProofU(pu)), pP, pc, ps}
			outU := mergeOut(func() V {
				pu.MergeProofP(&gabi.ProofP{P: cp(pP), C: cp(pc), SResponse: cp(ps)}, mpk)
				return dumpProofU(pu)
			})
			s.Add(1404, "merge-U", false, inU, outU)
		}
		// ---- deviations of the second message from the committed first one ----
		cpReq := func() gabi.KeyshareResponseRequest[string] {
			r := respReq
			r.UserChallengeInput = make([]gabi.KeyshareUserChallengeInput[string], len(respReq.UserChallengeInput))
			for i, x := range respReq.UserChallengeInput {
				y := x
				y.Value, y.Commitment = cp(x.Value), cp(x.Commitment)
				y.OtherCommitments = cpBigs(x.OtherCommitments)
				r.UserChallengeInput[i] = y
			}
			return r
		}
		{
			r := cpReq()
			r.UserChallengeInput[0].Value.Add(r.UserChallengeInput[0].Value, bi(1))
			call("value+1", commReq.HashedUserCommitments, r, true)
			r = cpReq()
			r.UserChallengeInput[n-1].Commitment.Add(r.UserChallengeInput[n-1].Commitment, bi(1))
			call("commitment+1", commReq.HashedUserCommitments, r, true)
			for i := range respReq.UserChallengeInput {
				if len(respReq.UserChallengeInput[i].OtherCommitments) > 0 {
					r = cpReq()
					oc := r.UserChallengeInput[i].OtherCommitments
					oc[len(oc)-1].Add(oc[len(oc)-1], bi(1))
					call("other-commitment+1", commReq.HashedUserCommitments, r, true)
					r = cpReq()
					r.UserChallengeInput[i].OtherCommitments = r.UserChallengeInput[i].OtherCommitments[1:]
					call("other-commitment-dropped", commReq.HashedUserCommitments, r, true)
					break
				}
			}
			if n >= 2 {
				r = cpReq()
				r.UserChallengeInput[0], r.UserChallengeInput[1] = r.UserChallengeInput[1], r.UserChallengeInput[0]
				if S(dumpKsInputs(r.UserChallengeInput, ids)) != S(dumpKsInputs(respReq.UserChallengeInput, ids)) {
					call("order-swapped", commReq.HashedUserCommitments, r, true)
				}
				r = cpReq()
				r.UserChallengeInput = r.UserChallengeInput[:n-1]
				call("count-1", commReq.HashedUserCommitments, r, true)
			}
			r = cpReq()
			r.UserChallengeInput = append(r.UserChallengeInput, r.UserChallengeInput[0])
			call("count+1", commReq.HashedUserCommitments, r, true)
			// key ids
			for i := range respReq.UserChallengeInput {
				r = cpReq()
				if r.UserChallengeInput[i].KeyID != nil {
					r.UserChallengeInput[i].KeyID = nil
					call("keyid-removed", commReq.HashedUserCommitments, r, true)
					r = cpReq()
					unk := "unknown-issuer"
					r.UserChallengeInput[i].KeyID = &unk
					call("keyid-unknown", commReq.HashedUserCommitments, r, true)
				} else {
					name := kidOf[keys[0].Pk]
					r.UserChallengeInput[i].KeyID = &name
					call("keyid-added", commReq.HashedUserCommitments, r, true)
				}
				break
			}
			// an exchange that is consistent in itself (the committed hash is the hash of the second message) but names a key the
			// server does not know: by name, or a key of the list in which the server does not take part
			for i := range respReq.UserChallengeInput {
				if respReq.UserChallengeInput[i].KeyID == nil {
					continue
				}
				r = cpReq()
				unk := "unknown-issuer"
				r.UserChallengeInput[i].KeyID = &unk
				hh, _ := gabi.VerifKeyshareHash(r.UserChallengeInput)
				call("unknown-key-in-both-messages", hh, r, true)
				break
			}
			for i := range respReq.UserChallengeInput {
				if respReq.UserChallengeInput[i].KeyID != nil {
					continue
				}
				for _, k := range keys {
					if part[kidOf[k.Pk]] == nil {
						r = cpReq()
						name := kidOf[k.Pk]
						r.UserChallengeInput[i].KeyID = &name
						hh, _ := gabi.VerifKeyshareHash(r.UserChallengeInput)
						call("non-participating-key-named-in-both-messages", hh, r, true)
						break
					}
				}
				break
			}
			// a different committed hash
			h2 := append([]byte{}, commReq.HashedUserCommitments...)
			h2[7] ^= 0x10
			call("committed-hash-altered", h2, cpReq(), true)
			call("committed-hash-truncated", commReq.HashedUserCommitments[:31], cpReq(), true)
		}
		// ---- the user starts over with the same builders (as after a refusal): fresh randomizer, nonce and server commitments ----
		{
			rand2 := map[string]*gbig.Int{"secretkey": rng.Bits(592)}
			nonce2 := rng.Bits(128)
			for _, b := range builders {
				b.SetProofPCommitment(nil) // the server's commitment of the abandoned exchange is forgotten
			}
			commReq2, hashInput2, err := gabi.KeyshareUserCommitmentRequest(builders, rand2, part)
			if err != nil {
				panic(err)
			}
			kssRandomizer2, kssComm2, err := gabi.NewKeyshareCommitments(kssSecret, pks)
			if err != nil {
				panic(err)
			}
			for i, b := range builders {
				if part[kidOf[pks[i]]] != nil {
					b.SetProofPCommitment(kssComm2[i])
				}
			}
			respReq2, challenge2, err := gabi.KeyshareUserResponseRequest(builders, rand2, hashInput2, context, nonce2, issig)
			if err != nil {
				panic(err)
			}
			p2, err := gabi.KeyshareResponse(kssSecret, kssRandomizer2, gabi.KeyshareCommitmentRequest{HashedUserCommitments: commReq2.HashedUserCommitments}, respReq2, part)
			if err != nil {
				s.Violate("C14:honest-exchange-failed", "keyshare server refused the second honest exchange over the same builders", d)
			} else {
				if p2.C.Cmp(challenge2) != 0 {
					s.Violate("C14:challenges-differ", "second exchange over the same builders: user and keyshare server compute different challenges", d)
				}
				pps := make([]*gabi.ProofP, len(builders))
				for i := range builders {
					if part[kidOf[pks[i]]] != nil {
						pps[i] = p2
					}
				}
				proofs2, err := builders.BuildDistributedProofList(challenge2, pps)
				if err != nil {
					panic(err)
				}
				_, acc2, amb2 := verifyCase(s, "joint-list-second-exchange:"+desc, false, pks, context, nonce2, issig, kss, cloneList(proofs2))
				if !amb2 && !acc2 {
					s.Violate("C14:joint-proof-rejected", "second exchange over the same builders: the proof list does not verify", d)
				}
			}
		}
	}
	s.Notes["rule"] = "builder lists of length 1..4 (3 in quick) over three keys (1024/2048 bits), every key participating with probability 2/3, disclosure (with range / " +
		"non-revocation parts) and issuance builders, contexts 1 and random, both session kinds; full exchange with challenge-equality and joint-verification oracles; " +
		"second message altered: value, commitment, other commitments, order, count, key ids, committed hash; distinct by (round, kind)"
}
