package main

import (
	"fmt"

	"github.com/privacybydesign/gabi"
	gbig "github.com/privacybydesign/gabi/big"
	"github.com/privacybydesign/gabi/gabikeys"
	"github.com/privacybydesign/gabi/revocation"
)

func init() { suites["C06"] = suiteC06 }

func dumpPairs(m map[int]*gbig.Int) V { return dumpIntMap(m) }

func dumpProofS(p *gabi.ProofS) V {
	if p == nil {
		return nil
	}
	return L{p.C, p.EResponse}
}

func dumpSigOpt(s *gabi.CLSignature) V {
	if s == nil {
		return nil
	}
	return dumpSig(s)
}

func cloneMsg(m *gabi.IssueSignatureMessage) *gabi.IssueSignatureMessage {
	r := &gabi.IssueSignatureMessage{MIssuer: cpMap(m.MIssuer)}
	if m.Proof != nil {
		r.Proof = &gabi.ProofS{C: cp(m.Proof.C), EResponse: cp(m.Proof.EResponse)}
	}
	if m.Signature != nil {
		r.Signature = &gabi.CLSignature{A: cp(m.Signature.A), E: cp(m.Signature.E), V: cp(m.Signature.V), KeyshareP: cp(m.Signature.KeyshareP)}
	}
	if m.NonRevocationWitness != nil {
		w := *m.NonRevocationWitness
		w.U, w.E = cp(w.U), cp(w.E)
		if w.SignedAccumulator != nil {
			sa := *w.SignedAccumulator
			w.SignedAccumulator = &sa
		}
		r.NonRevocationWitness = &w
	}
	return r
}

type issuanceRun struct {
	kp      *KeyPair
	ctx     *gbig.Int
	nonce1  *gbig.Int
	nonce2  *gbig.Int
	secret  *gbig.Int
	kssP    *gbig.Int
	blind   []int
	attrs   []*gbig.Int // nil at blind positions
	builder *gabi.CredentialBuilder
	commit  *gabi.IssueCommitmentMessage
	msg     *gabi.IssueSignatureMessage
	witness *revocation.Witness
}

// construct runs ConstructCredential on a fresh copy of the builder state (ConstructCredential
// does not modify the builder) and records the call as a correspondence case.
func constructCase(s *Suite, kind string, small bool, run *issuanceRun, b *gabi.CredentialBuilder, msg *gabi.IssueSignatureMessage,
	attrs []*gbig.Int, ctx, nonce2 *gbig.Int) (cred *gabi.Credential, err error, panicked bool) {
	pk := run.kp.Pk
	secret, vPrime, _, _, _, mUser, _ := b.VerifState()
	var wok V
	win := false
	if msg.NonRevocationWitness != nil {
		wc := *msg.NonRevocationWitness
		if wc.SignedAccumulator != nil {
			sa := *wc.SignedAccumulator
			wc.SignedAccumulator = &sa
		}
		func() {
			defer func() {
				if r := recover(); r != nil {
					wok = 0
				}
			}()
			if wc.Verify(pk) == nil {
				wok = 1
			} else {
				wok = 0
			}
		}()
		for _, a := range attrs {
			if a != nil && msg.NonRevocationWitness.E != nil && a.Cmp(msg.NonRevocationWitness.E) == 0 {
				win = true
			}
		}
	}
	isp := msg.Signature != nil && msg.Signature.E != nil && msg.Signature.E.ProbablyPrime(80)
	attrV := L{}
	for _, a := range attrs {
		attrV = append(attrV, a)
	}
	in := L{dumpPk(pk), isp, secret, run.kssP, vPrime, dumpPairs(mUser), ctx, nonce2, dumpProofS(msg.Proof), dumpSigOpt(msg.Signature),
		dumpPairs(msg.MIssuer), wok, attrV, win}
	var out V
	func() {
		defer func() {
			if r := recover(); r != nil {
				out, panicked = panicV(), true
			}
		}()
		cred, err = b.ConstructCredential(msg, attrs)
		if err != nil {
			out = errV()
		} else {
			out = okV(L{dumpSig(cred.Signature), dumpBigs(cred.Attributes)})
		}
	}()
	s.Add(604, kind, small, in, out)
	return
}

func suiteC06(s *Suite, rng *Rng, tier string) {
	useRng(rng)
	// keys have exactly maxAttr+1 bases, so that attribute lists of maximal length (up to the
	// number of bases) and random-blind attributes on the last base are part of every run
	maxAttr := 3
	if tier == "thorough" {
		maxAttr = 5
	}
	keys := []*KeyPair{makeKey(128, 0, maxAttr+1, rng, false), makeKey(256, 0, maxAttr+1, rng, true), makeKey(1024, 0, maxAttr+1, rng, true)}
	if tier == "thorough" {
		keys = append(keys, makeKey(2048, 0, maxAttr+1, rng, true))
	}
	smallLeft := 2
	var prev *issuanceRun
	for _, kp := range keys {
		pk := kp.Pk
		order := new(gbig.Int).Mul(kp.Sk.PPrime, kp.Sk.QPrime)
		for nattr := 1; nattr <= maxAttr; nattr++ {
			for mask := 0; mask < 1<<nattr; mask++ {
				if kp.Bits >= 1024 && tier != "thorough" && (mask%3 != 0 || nattr > 2) && !(nattr == maxAttr && mask == 1<<(nattr-1)) {
					continue
				}
				for _, keyshare := range []bool{false, true} {
					for _, withWitness := range []bool{false, true} {
						if withWitness && (pk.G == nil || pk.Params.Lm < 195) {
							continue
						}
						if (keyshare || withWitness) && (mask+nattr)%2 == 1 && tier != "thorough" {
							continue
						}
						blind := []int{}
						for i := 0; i < nattr; i++ {
							if mask&(1<<i) != 0 {
								blind = append(blind, i)
							}
						}
						run := &issuanceRun{kp: kp, ctx: rng.Bits(200), nonce1: rng.Bits(80), nonce2: rng.Bits(80), secret: newSecret(rng), blind: blind}
						if withWitness && mask&(1<<(nattr-1)) != 0 {
							continue // the revocation attribute cannot be random blind
						}
						run.attrs = make([]*gbig.Int, nattr)
						for i := range run.attrs {
							if mask&(1<<i) == 0 {
								run.attrs[i] = attrValue(rng, pk.Params.Lm)
							}
						}
						if withWitness {
							w, _ := setupRevocation(kp)
							run.witness = w
							run.attrs[nattr-1] = w.E
						}
						if keyshare {
							run.kssP = new(gbig.Int).Exp(pk.R[0], rng.Bits(100), pk.N)
						}
						b, err := gabi.NewCredentialBuilder(pk, run.ctx, run.secret, run.nonce2, run.kssP, blind)
						if err != nil {
							panic(err)
						}
						run.builder = b
						cm, err := b.CommitToSecretAndProve(run.nonce1)
						if err != nil {
							panic(err)
						}
						run.commit = cm
						secret, vPrime, vPrimeCommit, _, skR, mUser, mUserCommit := b.VerifState()
						contrib, _ := b.Commit(map[string]*gbig.Int{"secretkey": skR})
						small := kp.Bits == 128 && smallLeft > 0 && nattr <= 2
						if small {
							smallLeft--
						}
						tag := fmt.Sprintf("%d:n%d", kp.Bits, nattr)
						proofU := cm.Proofs[0].(*gabi.ProofU)
						s.Add(601, tag+":user-commit", small, L{dumpPk(pk), secret, run.kssP, vPrime, vPrimeCommit, dumpPairs(mUser), dumpPairs(mUserCommit), skR, nil, run.ctx, run.nonce1},
							okV(L{dumpBigs(contrib), dumpProofU(proofU)}))
						s.Nontrivial[fmt.Sprint(kp.Bits, nattr, mask, keyshare, withWitness)] = true
						// issuer verifies the commitment proof (without keyshare: the proof stands alone)
						if !keyshare {
							if _, acc, _ := verifyCase(s, tag+":commit-honest", false, []*gabikeys.PublicKey{pk}, run.ctx, run.nonce1, false, nil, cloneList(cm.Proofs)); !acc {
								s.Violate("C06:honest-commitment-rejected", "issuer rejects honest commitment proof", L{tag})
							}
							// alterations of the first message must be rejected by the issuer's check
							for _, f := range []string{"U", "C", "VPrime", "S", "nonce1", "ctx", "MUser", "forged-U0", "forged-UN", "forged-UP"} {
								pu := cloneProofU(proofU)
								n1, cx := run.nonce1, run.ctx
								switch f {
								case "U":
									pu.U.Add(pu.U, bi(1))
								case "C":
									pu.C.Add(pu.C, bi(1))
								case "VPrime":
									pu.VPrimeResponse.Add(pu.VPrimeResponse, bi(1))
								case "S":
									pu.SResponse.Add(pu.SResponse, bi(1))
								case "nonce1":
									n1 = flipBit(n1, rng.Intn(80))
								case "ctx":
									cx = flipBit(cx, rng.Intn(200))
								case "forged-U0", "forged-UN", "forged-UP":
									// U not invertible modulo N: the issuer cannot reconstruct the commitment; a verifier that loses
									// that error hashes no contributions, so the challenge is the hash of (context, nonce) alone
									switch f {
									case "forged-U0":
										pu.U = bi(0)
									case "forged-UN":
										pu.U = cp(pk.N)
									default:
										pu.U = cp(kp.Sk.P)
									}
									pu.C = gabi.VerifCreateChallenge(cx, n1, nil, false)
									single := cloneProofU(pu)
									if _, _, accSingle := catchBool(func() bool { return single.Verify(pk, cx, n1) }); accSingle {
										s.Violate("C06:altered-commitment-accepted", "ProofU.Verify accepted a commitment proof whose U is not invertible modulo N ("+f+")", L{tag, f, dumpPk(pk), dumpProofU(single), cx, n1})
									}
								case "MUser":
									if len(pu.MUserResponses) == 0 {
										continue
									}
									for k := range pu.MUserResponses {
										pu.MUserResponses[k].Add(pu.MUserResponses[k], bi(1))
										break
									}
								}
								_, acc, _ := verifyCase(s, tag+":commit-altered-"+f, false, []*gabikeys.PublicKey{pk}, cx, n1, false, nil, gabi.ProofList{pu})
								if acc {
									s.Violate("C06:altered-commitment-accepted", "issuer-side check accepted a commitment message with altered "+f, L{tag, f})
								}
							}
							if prev != nil && prev.kp == kp && len(prev.commit.Proofs) == 1 {
								_, acc, _ := verifyCase(s, tag+":commit-replayed", false, []*gabikeys.PublicKey{pk}, run.ctx, run.nonce1, false, nil, cloneList(prev.commit.Proofs))
								if acc {
									s.Violate("C06:altered-commitment-accepted", "commitment proof of another run accepted", L{tag})
								}
							}
						}
						// issuer signs
						issuer := gabi.NewIssuer(kp.Sk, pk, run.ctx)
						msg, err := issuer.IssueSignature(cm.U, run.attrs, run.witness, run.nonce2, blind)
						if err != nil {
							panic(err)
						}
						run.msg = msg
						attrV := L{}
						for _, a := range run.attrs {
							attrV = append(attrV, a)
						}
						s.Add(602, tag+":issuer-sign", small, L{dumpPk(pk), order, cm.U, attrV, dumpPairs(msg.MIssuer), msg.Signature.V, msg.Signature.E}, okV(dumpSig(msg.Signature)))
						// eCommit of ProofS recovered with the private key: eResponse = eCommit - c*d mod order
						d := new(gbig.Int).ModInverse(msg.Signature.E, order)
						eCommit := new(gbig.Int).Mul(msg.Proof.C, d)
						eCommit.Add(eCommit, msg.Proof.EResponse).Mod(eCommit, order)
						s.Add(603, tag+":issuer-prove", small, L{dumpPk(pk), order, dumpSig(msg.Signature), run.ctx, run.nonce2, eCommit}, okV(dumpProofS(msg.Proof)))
						// holder constructs the credential
						cred, err, panicked := constructCase(s, tag+":construct-honest", small, run, b, cloneMsg(msg), run.attrs, run.ctx, run.nonce2)
						if panicked || err != nil {
							s.Violate("C06:honest-run-failed", fmt.Sprintf("honest issuance failed: blind=%v keyshare=%v witness=%v err=%v", blind, keyshare, withWitness, err), L{tag})
						} else {
							if !cred.Signature.Verify(pk, cred.Attributes) {
								s.Violate("C06:credential-signature-invalid", "credential signature does not verify over (secret, attributes)", L{tag})
							}
							if cred.Attributes[0].Cmp(run.secret) != 0 || len(cred.Attributes) != nattr+1 {
								s.Violate("C06:credential-attributes-wrong", "secret/length", L{tag})
							}
							for i := 0; i < nattr; i++ {
								want := run.attrs[i]
								if want == nil {
									want = new(gbig.Int).Add(mUser[i+1], msg.MIssuer[i+1])
								}
								if cred.Attributes[i+1].Cmp(want) != 0 {
									s.Violate("C06:credential-attributes-wrong", fmt.Sprint("attribute ", i), L{tag})
								}
							}
						}
						// deviations in the issuer's message: must be rejected without producing a credential
						deviate := func(kind string, m *gabi.IssueSignatureMessage, attrs []*gbig.Int, bb *gabi.CredentialBuilder, rr *issuanceRun) {
							c2, e2, p2 := constructCase(s, tag+":"+kind, false, rr, bb, m, attrs, rr.ctx, rr.nonce2)
							if p2 {
								s.Violate("C06:panic-on-deviation", "ConstructCredential panicked instead of rejecting: "+kind, L{tag, kind})
							} else if e2 == nil && c2 != nil {
								s.Violate("C06:deviation-accepted", "credential produced although the issuer message deviates: "+kind, L{tag, kind})
							}
						}
						mk := func(f func(m *gabi.IssueSignatureMessage)) *gabi.IssueSignatureMessage {
							m := cloneMsg(msg)
							f(m)
							return m
						}
						// the holder's own attribute list inconsistent with the random-blind positions agreed at the start
						if len(blind) > 0 {
							pos := blind[len(blind)-1]
							deviate("attributes-end-before-blind-position", cloneMsg(msg), append([]*gbig.Int{}, run.attrs[:pos]...), b, run)
							a2 := append([]*gbig.Int{}, run.attrs...)
							a2[pos] = bi(5)
							deviate("value-at-blind-position", cloneMsg(msg), a2, b, run)
						}
						deviate("proofS.c+1", mk(func(m *gabi.IssueSignatureMessage) { m.Proof.C.Add(m.Proof.C, bi(1)) }), run.attrs, b, run)
						deviate("proofS.e+1", mk(func(m *gabi.IssueSignatureMessage) { m.Proof.EResponse.Add(m.Proof.EResponse, bi(1)) }), run.attrs, b, run)
						deviate("proofS.c=nil", mk(func(m *gabi.IssueSignatureMessage) { m.Proof.C = nil }), run.attrs, b, run)
						deviate("proofS.e=nil", mk(func(m *gabi.IssueSignatureMessage) { m.Proof.EResponse = nil }), run.attrs, b, run)
						deviate("proofS=nil", mk(func(m *gabi.IssueSignatureMessage) { m.Proof = nil }), run.attrs, b, run)
						deviate("sig.A+1", mk(func(m *gabi.IssueSignatureMessage) { m.Signature.A.Add(m.Signature.A, bi(1)) }), run.attrs, b, run)
						deviate("sig.V+1", mk(func(m *gabi.IssueSignatureMessage) { m.Signature.V.Add(m.Signature.V, bi(1)) }), run.attrs, b, run)
						deviate("sig.E+2", mk(func(m *gabi.IssueSignatureMessage) { m.Signature.E.Add(m.Signature.E, bi(2)) }), run.attrs, b, run)
						// the same residue in another representation: A + N, A + 2N, A - N (the hash in the proof of correctness
						// and the stored credential would differ from what the issuer signed and sent)
						deviate("sig.A+N", mk(func(m *gabi.IssueSignatureMessage) { m.Signature.A.Add(m.Signature.A, pk.N) }), run.attrs, b, run)
						deviate("sig.A+2N", mk(func(m *gabi.IssueSignatureMessage) { m.Signature.A.Add(m.Signature.A, new(gbig.Int).Lsh(pk.N, 1)) }), run.attrs, b, run)
						deviate("sig.A-N", mk(func(m *gabi.IssueSignatureMessage) { m.Signature.A.Sub(m.Signature.A, pk.N) }), run.attrs, b, run)
						deviate("sig.E+ord-like(E+N)", mk(func(m *gabi.IssueSignatureMessage) { m.Signature.E.Add(m.Signature.E, pk.N) }), run.attrs, b, run)
						// negative exponents over an A that has no inverse: math/big's Exp then returns nil
						deviate("proofS.e<0,sig.A=0", mk(func(m *gabi.IssueSignatureMessage) { m.Signature.A = bi(0); m.Proof.EResponse = bi(-1) }), run.attrs, b, run)
						deviate("proofS.c<0,sig.A=P", mk(func(m *gabi.IssueSignatureMessage) {
							m.Signature.A = cp(kp.Sk.P)
							m.Proof.C = new(gbig.Int).Neg(new(gbig.Int).Add(new(gbig.Int).Mul(m.Proof.EResponse, m.Signature.E), bi(1)))
						}), run.attrs, b, run)
						deviate("sig.E<0,sig.A=N", mk(func(m *gabi.IssueSignatureMessage) { m.Signature.A = cp(pk.N); m.Signature.E = new(gbig.Int).Neg(m.Signature.E) }), run.attrs, b, run)
						deviate("sig.A=nil", mk(func(m *gabi.IssueSignatureMessage) { m.Signature.A = nil }), run.attrs, b, run)
						deviate("sig.E=nil", mk(func(m *gabi.IssueSignatureMessage) { m.Signature.E = nil }), run.attrs, b, run)
						deviate("sig.V=nil", mk(func(m *gabi.IssueSignatureMessage) { m.Signature.V = nil }), run.attrs, b, run)
						deviate("sig=nil", mk(func(m *gabi.IssueSignatureMessage) { m.Signature = nil }), run.attrs, b, run)
						for k := range msg.MIssuer {
							kk := k
							deviate("mIssuer+1", mk(func(m *gabi.IssueSignatureMessage) { m.MIssuer[kk].Add(m.MIssuer[kk], bi(1)) }), run.attrs, b, run)
							deviate("mIssuer-deleted", mk(func(m *gabi.IssueSignatureMessage) { delete(m.MIssuer, kk) }), run.attrs, b, run)
							deviate("mIssuer=nil", mk(func(m *gabi.IssueSignatureMessage) { m.MIssuer[kk] = nil }), run.attrs, b, run)
							break
						}
						if withWitness {
							deviate("witness.U+1", mk(func(m *gabi.IssueSignatureMessage) { m.NonRevocationWitness.U.Add(m.NonRevocationWitness.U, bi(1)) }), run.attrs, b, run)
							deviate("witness.E-other", mk(func(m *gabi.IssueSignatureMessage) {
								m.NonRevocationWitness.E = nextPrime(new(gbig.Int).Add(m.NonRevocationWitness.E, bi(2)), 1)
							}), run.attrs, b, run)
							// the signed accumulator as it arrives over the wire (not yet verified): key counter, payload, absence
							wire := func(f func(sa *revocation.SignedAccumulator)) *gabi.IssueSignatureMessage {
								return mk(func(m *gabi.IssueSignatureMessage) {
									sa := m.NonRevocationWitness.SignedAccumulator
									sa.Data = append([]byte{}, sa.Data...)
									sa.Accumulator = nil
									f(sa)
								})
							}
							deviate("witness.sacc.PKCounter+1", wire(func(sa *revocation.SignedAccumulator) { sa.PKCounter++ }), run.attrs, b, run)
							deviate("witness.sacc.Data-bit-flipped", wire(func(sa *revocation.SignedAccumulator) { sa.Data[len(sa.Data)/2] ^= 4 }), run.attrs, b, run)
							deviate("witness.sacc.Data-truncated", wire(func(sa *revocation.SignedAccumulator) { sa.Data = sa.Data[:len(sa.Data)-3] }), run.attrs, b, run)
							deviate("witness.sacc=nil", mk(func(m *gabi.IssueSignatureMessage) { m.NonRevocationWitness.SignedAccumulator = nil }), run.attrs, b, run)
						}
						// changed attribute list at the holder
						for i := 0; i < nattr; i++ {
							if run.attrs[i] != nil && !(withWitness && i == nattr-1) {
								a2 := append([]*gbig.Int{}, run.attrs...)
								a2[i] = new(gbig.Int).Add(a2[i], bi(1))
								deviate("attribute+1", cloneMsg(msg), a2, b, run)
								break
							}
						}
						// nonce2 / cross-run substitution: the previous run's issuer message for this builder
						if prev != nil && prev.kp == kp {
							deviate("message-of-other-run", cloneMsg(prev.msg), run.attrs, b, run)
						}
						{
							// a builder with a different nonce2 must not accept this message
							b2, _ := gabi.NewCredentialBuilder(pk, run.ctx, run.secret, flipBit(run.nonce2, 3), run.kssP, blind)
							r2 := *run
							r2.nonce2 = flipBit(run.nonce2, 3)
							deviate("other-nonce2", cloneMsg(msg), run.attrs, b2, &r2)
						}
						prev = run
					}
				}
			}
		}
	}
	s.Notes["rule"] = fmt.Sprintf("issuance runs for 1..%d attributes, every random-blind subset, keyshare contribution on/off, witness on/off "+
		"(keys with revocation), keys 128/256/1024 bits (+2048 thorough, sub-sampled at >=1024 in quick); each of the three messages recomputed by the model "+
		"from the observed randomness; deviations: every single-field alteration / nil of ProofS, signature, issuer shares, witness, attribute list, "+
		"commitment proof fields, nonces, cross-run substitution; distinct by configuration", maxAttr)
}
