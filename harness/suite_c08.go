package main

import (
	"encoding/json"
	"fmt"
	"sort"
	"strconv"
	"strings"

	"github.com/privacybydesign/gabi"
	"github.com/privacybydesign/gabi/gabikeys"
)

func init() { suites["C08"] = suiteC08 }

// ---- JSON tree mutation ----

type jpath []interface{} // string keys / int indices

func collect(v interface{}, p jpath, out *[]jpath) {
	*out = append(*out, append(jpath{}, p...))
	switch x := v.(type) {
	case map[string]interface{}:
		ks := make([]string, 0, len(x))
		for k := range x {
			ks = append(ks, k)
		}
		sort.Strings(ks)
		for _, k := range ks {
			collect(x[k], append(p, k), out)
		}
	case []interface{}:
		for i := range x {
			collect(x[i], append(p, i), out)
		}
	}
}

func getp(root interface{}, p jpath) interface{} {
	cur := root
	for _, e := range p {
		switch k := e.(type) {
		case string:
			cur = cur.(map[string]interface{})[k]
		case int:
			cur = cur.([]interface{})[k]
		}
	}
	return cur
}

func deepCopy(v interface{}) interface{} {
	b, _ := json.Marshal(v)
	var r interface{}
	json.Unmarshal(b, &r)
	return r
}

// setp replaces / deletes the node at path p (root must be a copy)
func setp(root interface{}, p jpath, f func(parent interface{}, key interface{}) interface{}) interface{} {
	if len(p) == 0 {
		return f(nil, nil)
	}
	parent := getp(root, p[:len(p)-1])
	np := f(parent, p[len(p)-1])
	if len(p) == 1 {
		return np
	}
	// re-attach possibly re-allocated parent (slices)
	gp := getp(root, p[:len(p)-2])
	switch k := p[len(p)-2].(type) {
	case string:
		gp.(map[string]interface{})[k] = np
	case int:
		gp.([]interface{})[k] = np
	}
	return root
}

var rekeys = []string{"-1", "0", "1", "2", "1000", "2147483648", "7"}

func mutateJSON(root interface{}, rng *Rng, nR int) (interface{}, string) {
	root = deepCopy(root)
	var paths []jpath
	collect(root, nil, &paths)
	if len(paths) < 2 {
		return root, "none"
	}
	p := paths[1+rng.Intn(len(paths)-1)]
	kind := rng.Intn(8)
	name := ""
	res := setp(root, p, func(parent interface{}, key interface{}) interface{} {
		switch pm := parent.(type) {
		case map[string]interface{}:
			k := key.(string)
			_, isIdx := strconv.Atoi(k)
			switch kind {
			case 0:
				delete(pm, k)
				name = "delete"
			case 1:
				pm[k] = nil
				name = "null"
			case 2:
				if isIdx == nil {
					nk := rekeys[rng.Intn(len(rekeys))]
					if rng.Intn(3) == 0 {
						nk = strconv.Itoa(nR)
					}
					v := pm[k]
					delete(pm, k)
					pm[nk] = v
					name = "rekey"
				} else {
					pm[k] = "AQ=="
					name = "setone"
				}
			case 3:
				if isIdx == nil {
					// duplicate the entry under another index
					nk := rekeys[rng.Intn(len(rekeys))]
					pm[nk] = pm[k]
					name = "dupkey"
				} else {
					pm[k] = ""
					name = "empty"
				}
			case 4:
				// swap with a sibling
				ks := make([]string, 0, len(pm))
				for kk := range pm {
					ks = append(ks, kk)
				}
				sort.Strings(ks)
				o := ks[rng.Intn(len(ks))]
				pm[k], pm[o] = pm[o], pm[k]
				name = "swap"
			case 5:
				pm[k] = map[string]interface{}{}
				name = "emptyobj"
			case 6:
				pm[k] = []interface{}{}
				name = "emptyarr"
			default:
				pm[k] = "AA=="
				name = "setzero"
			}
			return pm
		case []interface{}:
			i := key.(int)
			switch kind {
			case 0:
				name = "delete"
				return append(append([]interface{}{}, pm[:i]...), pm[i+1:]...)
			case 1:
				pm[i] = nil
				name = "null"
			case 2:
				name = "truncate"
				return pm[:i]
			case 3:
				name = "duplicate"
				return append(append([]interface{}{}, pm[:i+1]...), pm[i:]...)
			case 4:
				o := rng.Intn(len(pm))
				pm[i], pm[o] = pm[o], pm[i]
				name = "swap"
			case 5:
				pm[i] = map[string]interface{}{}
				name = "emptyobj"
			default:
				pm[i] = "AQ=="
				name = "setone"
			}
			return pm
		}
		return parent
	})
	return res, name
}

func suiteC08(s *Suite, rng *Rng, tier string) {
	useRng(rng)
	nMut := 220
	if tier == "thorough" {
		nMut = 4000
	}
	tiny := makeKey(128, 0, 5, rng, true)
	toy := makeKey(256, 0, 6, rng, true)
	toy2 := makeKey(256, 1, 5, rng, false)
	k1024 := makeKey(1024, 0, 6, rng, true)
	type seedSpec struct {
		specs []builderSpec
		sig   bool
	}
	sec := newSecret(rng)
	seeds := []seedSpec{
		{[]builderSpec{{kind: "disclose", key: tiny, secret: sec, nattr: 3}, {kind: "issue", key: tiny, secret: sec}}, false},
		{[]builderSpec{{kind: "disclose", key: toy, secret: sec, nattr: 4}}, false},
		{[]builderSpec{{kind: "disclose", key: toy, secret: sec, nattr: 5, ranges: true}}, false},
		{[]builderSpec{{kind: "disclose", key: toy, secret: sec, nattr: 4, nonrev: true}}, true},
		{[]builderSpec{{kind: "issue", key: toy2, secret: sec}, {kind: "disclose", key: toy, secret: sec, nattr: 3}}, false},
		{[]builderSpec{{kind: "disclose", key: toy, secret: sec, nattr: 5, nonrev: true, ranges: true}, {kind: "issue", key: toy, secret: sec}}, false},
		{[]builderSpec{{kind: "disclose", key: k1024, secret: sec, nattr: 5, nonrev: true, ranges: true}}, false},
	}
	nPanic, nAccMal := 0, 0
	// corpus of earlier findings runs first
	for _, f := range corpusFiles("C08") {
		var pl gabi.ProofList
		if err := json.Unmarshal(f.data, &pl); err != nil {
			s.Dist["corpus-undecodable"]++
			continue
		}
		pks := make([]*gabikeys.PublicKey, len(pl))
		for i := range pks {
			pks[i] = toy.Pk
		}
		panicked, accepted, _ := verifyCase(s, "corpus:"+f.name, false, pks, bi(1), bi(2), false, nil, pl)
		if panicked {
			nPanic++
			s.Violate("C08:panic", "ProofList.Verify panicked on corpus document "+f.name, string(f.data))
		}
		if accepted {
			if why := malformed(pl, pks); why != "" {
				nAccMal++
				s.Violate("C08:malformed-accepted:"+why, "corpus document accepted: "+f.name, string(f.data))
			}
		}
	}
	for si, sd := range seeds {
		sess := buildSession(sd.specs, rng, sd.sig)
		// honest list must verify (sanity of the harness itself)
		bts, err := json.Marshal(sess.List)
		if err != nil {
			panic(fmt.Sprintf("seed %d (%s): %v", si, sess.Desc, err))
		}
		var tree interface{}
		json.Unmarshal(bts, &tree)
		count := nMut
		if sd.specs[0].key.Bits > 256 {
			count = nMut / 4
		}
		for m := -1; m < count; m++ {
			mt, kind := tree, "honest"
			if m >= 0 && m%8 == 7 {
				mt, kind = mutateSiblingArrays(tree, rng)
			} else if m >= 0 {
				mt, kind = mutateJSON(tree, rng, len(sess.Pks[0].R))
				if rng.Intn(5) == 0 {
					var k2 string
					mt, k2 = mutateJSON(mt, rng, len(sess.Pks[0].R))
					kind += "+" + k2
				}
			}
			mb, _ := json.Marshal(mt)
			var pl gabi.ProofList
			if err := json.Unmarshal(mb, &pl); err != nil {
				s.Dist["undecodable"]++
				continue
			}
			pks := make([]*gabikeys.PublicKey, len(pl))
			for i := range pl {
				if i < len(sess.Pks) {
					pks[i] = sess.Pks[i]
				} else {
					pks[i] = sess.Pks[0]
				}
			}
			small := sd.specs[0].key.Bits <= 128 && m < 3
			panicked, accepted, amb := verifyCase(s, fmt.Sprintf("seed%d:%s", si, kind), small, pks, sess.Context, sess.Nonce, sess.IsSig, nil, pl)
			if amb {
				continue
			}
			key := string(mb)
			if m >= 0 {
				s.Nontrivial[key] = true
			}
			if panicked {
				nPanic++
				s.Violate("C08:panic", "ProofList.Verify panicked on a decodable proof list (mutation "+kind+")", string(mb))
			}
			if m == -1 && !accepted {
				s.Violate("C08:honest-rejected", "harness sanity: honest list rejected", string(mb))
			}
			if m == -1 || m%16 == 3 {
				// the same list against a key list of another length (one key fewer, one more, none): refused without panic
				fewer := pks
				if len(pks) > 0 {
					fewer = pks[:len(pks)-1]
				}
				for _, kl := range [][]*gabikeys.PublicKey{fewer, append(append([]*gabikeys.PublicKey{}, pks...), sess.Pks[0]), {}} {
					if len(kl) == len(pl) {
						continue
					}
					var pl2 gabi.ProofList
					if err := json.Unmarshal(mb, &pl2); err != nil {
						continue
					}
					p2, acc2, _ := verifyCase(s, fmt.Sprintf("seed%d:%s:keys=%d-for-%d-proofs", si, kind, len(kl), len(pl2)), false, kl, sess.Context, sess.Nonce, sess.IsSig, nil, pl2)
					if p2 {
						nPanic++
						s.Violate("C08:panic", fmt.Sprintf("ProofList.Verify panicked on %d proofs with %d keys", len(pl2), len(kl)), string(mb))
					}
					if acc2 {
						s.Violate("C08:malformed-accepted:key-count", fmt.Sprintf("%d proofs accepted with %d keys", len(pl2), len(kl)), string(mb))
					}
				}
			}
			if accepted && m >= 0 {
				if why := malformed(pl, pks); why != "" {
					nAccMal++
					s.Violate("C08:malformed-accepted:"+why, "a malformed proof list was accepted: "+why+" (mutation "+kind+")", string(mb))
				}
			}
		}
	}
	s.Notes["panics"] = nPanic
	s.Notes["malformed_accepted"] = nAccMal
	s.Notes["rule"] = "JSON documents derived from 7 honest proof lists (disclosure/issuance, with range and " +
		"non-revocation parts, toy 256-bit and 1024-bit keys) by structural mutation of a random node: delete, null, " +
		"duplicate, truncate, swap, re-key map entries to -1/0/len(R)/1000/2^31, replace by empty object/array/" +
		"'AQ=='/'' ; 20% double mutations; every 8th mutation applies one length-changing edit (truncate, empty, extend, delete, null) to two or more equally long sibling arrays at once; non-trivial = decodable mutated document, distinct by JSON text"
}

// mutateSiblingArrays applies one and the same length-changing edit to two or more arrays of equal length that sit in the
// same JSON object (the commitments and the two response vectors of a range proof, ...): a consistency check that only
// compares such arrays with each other, not with what the structure demands, lets these through.
func mutateSiblingArrays(root interface{}, rng *Rng) (interface{}, string) {
	root = deepCopy(root)
	type cand struct {
		m    map[string]interface{}
		keys []string
	}
	var cands []cand
	var walk func(x interface{})
	walk = func(x interface{}) {
		switch v := x.(type) {
		case map[string]interface{}:
			byLen := map[int][]string{}
			for k, c := range v {
				if a, ok := c.([]interface{}); ok && len(a) > 0 {
					byLen[len(a)] = append(byLen[len(a)], k)
				}
				walk(c)
			}
			for _, ks := range byLen {
				if len(ks) >= 2 {
					sort.Strings(ks)
					cands = append(cands, cand{v, ks})
				}
			}
		case []interface{}:
			for _, c := range v {
				walk(c)
			}
		}
	}
	walk(root)
	if len(cands) == 0 {
		return root, "none"
	}
	sort.Slice(cands, func(i, j int) bool { return strings.Join(cands[i].keys, ",") < strings.Join(cands[j].keys, ",") })
	c := cands[rng.Intn(len(cands))]
	keys := append([]string{}, c.keys...)
	if len(keys) > 2 && rng.Bool() {
		drop := rng.Intn(len(keys))
		keys = append(keys[:drop], keys[drop+1:]...)
	}
	op := rng.Intn(5)
	name := []string{"truncate-last", "empty", "extend", "delete-key", "null"}[op]
	for _, k := range keys {
		a := c.m[k].([]interface{})
		switch op {
		case 0:
			c.m[k] = a[:len(a)-1]
		case 1:
			c.m[k] = []interface{}{}
		case 2:
			c.m[k] = append(append([]interface{}{}, a...), a[len(a)-1])
		case 3:
			delete(c.m, k)
		default:
			c.m[k] = nil
		}
	}
	return root, "siblings(" + strings.Join(keys, ",") + "):" + name
}

// malformed reports why a decoded list is structurally malformed ("" if it is not).
func malformed(pl gabi.ProofList, pks []*gabikeys.PublicKey) string {
	for i, p := range pl {
		nR := len(pks[i].R)
		switch x := p.(type) {
		case *gabi.ProofD:
			if x.C == nil || x.A == nil || x.EResponse == nil || x.VResponse == nil {
				return "nil-field"
			}
			for k, v := range x.AResponses {
				if v == nil {
					return "nil-response"
				}
				if k < 0 || k >= nR {
					return "response-index-out-of-range"
				}
			}
			for k, v := range x.ADisclosed {
				if v == nil {
					return "nil-disclosed"
				}
				if k < 0 || k >= nR {
					return "disclosed-index-out-of-range"
				}
				if _, both := x.AResponses[k]; both {
					return "index-both-disclosed-and-hidden"
				}
			}
			for k, rps := range x.RangeProofs {
				if _, hidden := x.AResponses[k]; !hidden {
					return "rangeproof-on-non-hidden-index"
				}
				for _, rp := range rps {
					if rp == nil {
						return "nil-rangeproof"
					}
				}
			}
		case *gabi.ProofU:
			if x.U == nil || x.C == nil || x.VPrimeResponse == nil || x.SResponse == nil {
				return "nil-field"
			}
			for k, v := range x.MUserResponses {
				if v == nil {
					return "nil-response"
				}
				if k < 0 || k >= nR {
					return "response-index-out-of-range"
				}
			}
		}
	}
	return ""
}
