package main

import (
	"encoding/json"
	"fmt"
	"strings"

	"github.com/fxamacker/cbor"
	gbig "github.com/privacybydesign/gabi/big"
	"github.com/privacybydesign/gabi/gabikeys"
	"github.com/privacybydesign/gabi/revocation"
)

func init() { suites["C10"] = suiteC10 }

func cloneEvent(e *revocation.Event) *revocation.Event {
	if e == nil {
		return nil
	}
	return &revocation.Event{Index: e.Index, E: cp(e.E), ParentHash: append(revocation.Hash{}, e.ParentHash...)}
}

func cloneUpdate(u *revocation.Update) *revocation.Update {
	sa := *u.SignedAccumulator
	sa.Accumulator = nil
	sa.Data = append([]byte{}, sa.Data...)
	r := &revocation.Update{SignedAccumulator: &sa}
	for _, e := range u.Events {
		r.Events = append(r.Events, cloneEvent(e))
	}
	return r
}

func outcomeOf(f func() error) (v V, ok bool) {
	defer func() {
		if r := recover(); r != nil {
			v, ok = panicV(), false
		}
	}()
	if err := f(); err != nil {
		return errV(), false
	}
	return okV(0), true
}

func suiteC10(s *Suite, rng *Rng, tier string) {
	useRng(rng)
	maxLen := 5
	reps := 1
	if tier == "thorough" {
		maxLen, reps = 8, 6
	}
	kp := makeKey(128, 0, 2, rng, true)
	n := kp.Pk.N
	order := new(gbig.Int).Mul(kp.Sk.PPrime, kp.Sk.QPrime)
	h := newRevHistory(kp)
	p := bi(3001)
	for i := 0; i < maxLen+2; i++ {
		p = nextPrime(new(gbig.Int).Add(p, bi(2)), 1)
		for new(gbig.Int).GCD(nil, nil, p, order).Cmp(bi(1)) != 0 {
			p = nextPrime(new(gbig.Int).Add(p, bi(2)), 1)
		}
		h.revoke(p)
	}
	last := len(h.accs) - 1
	smallLeft := 80

	// ---- Hash.Equal and hashEquals on prefixes / extensions / other algorithms ----
	{
		ev := h.events[2]
		hh := ev.VerifHash()
		cands := []revocation.Hash{hh, {}, hh[:1], hh[:2], hh[:10], hh[:33], append(append(revocation.Hash{}, hh...), 0), append(append(revocation.Hash{}, hh...), 7, 7)}
		alt := append(revocation.Hash{}, hh...)
		alt[5] ^= 1
		cands = append(cands, alt)
		alg := append(revocation.Hash{}, hh...)
		alg[0] = 0x13
		cands = append(cands, alg)
		ln := append(revocation.Hash{}, hh...)
		ln[1] = 0x1f
		cands = append(cands, ln, ln[:33])
		for _, a := range cands {
			for _, b := range cands {
				got := a.Equal(b)
				s.Add(1005, "hash-equal", true, L{dumpHash(a), dumpHash(b)}, got)
				if got && string(a) != string(b) {
					s.Violate("C10:prefix-hash-equal", fmt.Sprintf("Hash.Equal reports hashes of length %d and %d as equal although they differ", len(a), len(b)), L{dumpHash(a), dumpHash(b)})
				}
			}
			out, ok := outcomeOf(func() error { return ev.VerifHashEquals(a) })
			s.Add(1002, "hash-equals", true, L{dumpEvent(ev), dumpHash(a)}, out)
			if ok && string(a) != string(hh) {
				s.Violate("C10:wrong-hash-accepted", "hashEquals accepted a different hash", L{dumpHash(a)})
			}
		}
		for _, e := range h.events {
			s.Add(1001, "event-hash", true, dumpEvent(e), okV(dumpHash(e.VerifHash())))
		}
	}

	verifyCase10 := func(kind string, u *revocation.Update, altered bool) {
		in := dumpUpdate(u, kp)
		var acc *revocation.Accumulator
		out, ok := outcomeOf(func() error {
			var err error
			acc, err = u.Verify(kp.Pk)
			return err
		})
		if ok {
			out = okV(dumpAcc(acc))
		}
		small := smallLeft > 0
		if small {
			smallLeft--
		}
		s.Add(1003, "verify:"+kind, small, in, out)
		s.Nontrivial[S(in)] = true
		if altered && ok {
			s.Violate("C10:altered-update-accepted", "Update.Verify accepted an altered update: "+kind, L{kind, in})
		}
		if !altered && !ok {
			s.Violate("C10:honest-update-rejected", "honest update rejected: "+kind, L{kind, in, S(out)})
		}
		if out.(L)[0] == 2 {
			s.Violate("C10:update-verify-panicked", "Update.Verify panicked: "+kind, L{kind, in})
			return
		}
		// the same object verified a second time: what the first call left behind (cached accumulator, flags) must not
		// change the verdict
		var acc2 *revocation.Accumulator
		out2, ok2 := outcomeOf(func() error {
			var err error
			acc2, err = u.Verify(kp.Pk)
			return err
		})
		if ok2 {
			out2 = okV(dumpAcc(acc2))
		}
		s.Add(1003, "verify-again:"+kind, false, in, out2)
		if ok2 != ok {
			s.Violate("C10:second-verification-differs", fmt.Sprintf("Update.Verify on the same object: first call ok=%v, second call ok=%v (%s)", ok, ok2, kind), L{kind, in})
		}
	}

	for rep := 0; rep < reps; rep++ {
		for ln := 0; ln <= maxLen; ln++ {
			to := last - rng.Intn(2)
			from := to - ln + 1
			var base *revocation.Update
			if ln == 0 {
				base = h.window(to, to)
				base.Events = []*revocation.Event{}
			} else {
				base = h.window(from, to)
			}
			verifyCase10(fmt.Sprintf("honest:len%d", ln), cloneUpdate(base), false)
			// every field of every event
			for i := range base.Events {
				mut := func(kind string, f func(u *revocation.Update), noop bool) {
					u := cloneUpdate(base)
					f(u)
					verifyCase10(kind, u, !noop)
				}
				mut("event-E+2", func(u *revocation.Update) { u.Events[i].E.Add(u.Events[i].E, bi(2)) }, false)
				mut("event-E=1", func(u *revocation.Update) { u.Events[i].E = bi(1) }, false)
				// an event without its value, or no event at all in a position (what a JSON null decodes to): outside the
				// model's vocabulary, so checked by the oracle only: rejected, and not with a panic
				for _, nk := range []string{"event-E=nil", "event=nil"} {
					u := cloneUpdate(base)
					if nk == "event=nil" {
						u.Events[i] = nil
					} else {
						u.Events[i].E = nil
					}
					out, ok := outcomeOf(func() error { _, err := u.Verify(kp.Pk); return err })
					s.Dist["verify:"+nk]++
					if ok {
						s.Violate("C10:altered-update-accepted", "Update.Verify accepted an update with a missing event or event value: "+nk, L{nk, i})
					} else if out.(L)[0] == 2 {
						s.Violate("C10:update-verify-panicked", "Update.Verify panicked: "+nk, L{nk, i})
					}
				}
				mut("event-index+1", func(u *revocation.Update) { u.Events[i].Index++ }, false)
				mut("event-index-1", func(u *revocation.Update) { u.Events[i].Index-- }, false)
				// the parent hash of the first event of a window is not covered by the chain check
				// except through the event's own hash
				mut("parent-byte-flipped", func(u *revocation.Update) { u.Events[i].ParentHash[2+rng.Intn(32)] ^= 0x40 }, false)
				mut("parent-truncated", func(u *revocation.Update) { u.Events[i].ParentHash = u.Events[i].ParentHash[:20] }, false)
				mut("parent-extended", func(u *revocation.Update) { u.Events[i].ParentHash = append(u.Events[i].ParentHash, 1) }, false)
				mut("parent-algorithm", func(u *revocation.Update) { u.Events[i].ParentHash[0] = 0x13 }, false)
				mut("parent-length-byte", func(u *revocation.Update) { u.Events[i].ParentHash[1] = 0x21 }, false)
				mut("parent-empty", func(u *revocation.Update) { u.Events[i].ParentHash = revocation.Hash{} }, false)
				// move the leading byte of E into the parent hash (same hashed bytes)
				mut("parent-steals-byte-of-E", func(u *revocation.Update) {
					eb := u.Events[i].E.Bytes()
					u.Events[i].ParentHash = append(u.Events[i].ParentHash, eb[0])
					u.Events[i].E = new(gbig.Int).SetBytes(eb[1:])
				}, false)
				mut("event-deleted", func(u *revocation.Update) { u.Events = append(u.Events[:i], u.Events[i+1:]...) }, i == 0) // dropping the oldest event leaves an authentic shorter window
				mut("event-duplicated", func(u *revocation.Update) {
					u.Events = append(u.Events[:i+1], append([]*revocation.Event{cloneEvent(u.Events[i])}, u.Events[i+1:]...)...)
				}, false)
				if i+1 < len(base.Events) {
					mut("events-swapped", func(u *revocation.Update) { u.Events[i], u.Events[i+1] = u.Events[i+1], u.Events[i] }, false)
				}
				mut("event-inserted", func(u *revocation.Update) {
					ne := &revocation.Event{Index: u.Events[i].Index, E: bi(65537), ParentHash: u.Events[i].ParentHash}
					u.Events = append(u.Events[:i], append([]*revocation.Event{ne}, u.Events[i:]...)...)
				}, false)
				// double corruption
				if i+1 < len(base.Events) {
					mut("double:E+index", func(u *revocation.Update) { u.Events[i].E.Add(u.Events[i].E, bi(2)); u.Events[i+1].Index++ }, false)
				}
			}
			// dropping the oldest event of a window leaves a shorter valid window
			if ln >= 2 {
				u := cloneUpdate(base)
				u.Events = u.Events[1:]
				verifyCase10("prefix-dropped(valid-shorter-window)", u, false)
			}
			// accumulator / signature
			{
				u := cloneUpdate(base)
				u.SignedAccumulator.Data[len(u.SignedAccumulator.Data)/2] ^= 1
				verifyCase10("signed-data-corrupted", u, true)
				u = cloneUpdate(base)
				u.SignedAccumulator.PKCounter++
				verifyCase10("key-counter", u, true)
				if ln > 0 && to > 0 {
					u = cloneUpdate(base)
					u.SignedAccumulator = cloneUpdate(h.window(to-1, to-1)).SignedAccumulator
					verifyCase10("accumulator-of-other-index", u, true)
				}
				u = cloneUpdate(base)
				u.SignedAccumulator = nil
				func() {
					defer func() { recover() }()
					verifyCase10("accumulator-nil", u, true)
				}()
			}
			// transports
			if ln > 0 {
				js, err := json.Marshal(base)
				if err != nil {
					panic(err)
				}
				var uj revocation.Update
				if err := json.Unmarshal(js, &uj); err != nil {
					s.Violate("C10:transport-failed", "JSON round trip of an honest update failed", L{string(js)})
				} else {
					verifyCase10("json-roundtrip", &uj, false)
				}
				cb, err := cbor.Marshal(base, cbor.EncOptions{})
				if err != nil {
					panic(err)
				}
				var uc revocation.Update
				if err := cbor.Unmarshal(cb, &uc); err != nil {
					s.Violate("C10:transport-failed", "CBOR round trip of an honest update failed", L{})
				} else {
					verifyCase10("cbor-roundtrip", &uc, false)
				}
				// an altered chain (last revocation value changed) sent with extra members beside the signed data that spell
				// out an accumulator fitting the altered chain: only the issuer-signed data may say what the accumulator is
				for _, enc := range []string{"json", "cbor"} {
					forged := cloneUpdate(base)
					lastEv := forged.Events[len(forged.Events)-1]
					lastEv.E = new(gbig.Int).Add(lastEv.E, bi(2))
					fitting := *h.accs[to]
					fitting.EventHash = lastEv.VerifHash()
					var tree2 map[string]interface{}
					var accTree interface{}
					var recv revocation.Update
					var derr error
					if enc == "json" {
						fj, _ := json.Marshal(forged)
						json.Unmarshal(fj, &tree2)
						aj, _ := json.Marshal(&fitting)
						json.Unmarshal(aj, &accTree)
						if sa, ok := tree2["sacc"].(map[string]interface{}); ok {
							for _, name := range []string{"acc", "accumulator", "Accumulator", "Acc"} {
								sa[name] = accTree
							}
						}
						fj2, _ := json.Marshal(tree2)
						derr = json.Unmarshal(fj2, &recv)
					} else {
						fc, _ := cbor.Marshal(forged, cbor.EncOptions{})
						var ctree map[interface{}]interface{}
						if err := cbor.Unmarshal(fc, &ctree); err != nil {
							continue
						}
						ac, _ := cbor.Marshal(&fitting, cbor.EncOptions{})
						var actree interface{}
						cbor.Unmarshal(ac, &actree)
						if sa, ok := ctree["sacc"].(map[interface{}]interface{}); ok {
							for _, name := range []string{"acc", "accumulator", "Accumulator", "Acc"} {
								sa[name] = actree
							}
						}
						fc2, err := cbor.Marshal(ctree, cbor.EncOptions{})
						if err != nil {
							continue
						}
						derr = cbor.Unmarshal(fc2, &recv)
					}
					if derr != nil || recv.SignedAccumulator == nil {
						s.Count("wire-injection:not-decodable:" + enc)
						continue
					}
					acc, verr := recv.Verify(kp.Pk)
					s.Nontrivial[fmt.Sprint("inject", enc, from, to)] = true
					if verr == nil {
						s.Violate("C10:altered-update-accepted", fmt.Sprintf("an update with an altered event was accepted because the message spelled out a fitting accumulator beside the signed data (%s); accumulator index %d", enc, acc.Index), L{enc, from, to})
					}
				}
				// JSON documents mutated as trees
				var tree interface{}
				json.Unmarshal(js, &tree)
				for k := 0; k < 12; k++ {
					mt, kind := mutateJSON(tree, rng, 6)
					mb, _ := json.Marshal(mt)
					if string(mb) == string(js) {
						continue
					}
					var um revocation.Update
					var derr error
					func() {
						defer func() {
							if r := recover(); r != nil {
								s.Violate("C10:decoder-panicked", "decoding a mutated update document panicked ("+kind+")", L{string(mb)})
								derr = fmt.Errorf("panic")
							}
						}()
						derr = json.Unmarshal(mb, &um)
					}()
					if derr != nil || um.SignedAccumulator == nil {
						s.Dist["json-undecodable"]++
						continue
					}
					// decide whether the decoded update still equals the original
					same := len(um.Events) == len(base.Events) && string(um.SignedAccumulator.Data) == string(base.SignedAccumulator.Data) && um.SignedAccumulator.PKCounter == base.SignedAccumulator.PKCounter
					for i := 0; same && i < len(um.Events); i++ {
						a, b := um.Events[i], base.Events[i]
						if a.Index != b.Index || a.E == nil || a.E.Cmp(b.E) != 0 || string(a.ParentHash) != string(b.ParentHash) {
							same = false
						}
					}
					shorter := false
					if !same && len(um.Events) < len(base.Events) && len(um.Events) > 0 {
						// a suffix window is still an authentic update
						off := len(base.Events) - len(um.Events)
						shorter = true
						for i := range um.Events {
							a, b := um.Events[i], base.Events[i+off]
							if a.Index != b.Index || a.E == nil || a.E.Cmp(b.E) != 0 || string(a.ParentHash) != string(b.ParentHash) {
								shorter = false
							}
						}
					}
					saccSame := string(um.SignedAccumulator.Data) == string(base.SignedAccumulator.Data) && um.SignedAccumulator.PKCounter == base.SignedAccumulator.PKCounter
					if len(um.Events) == 0 && saccSame {
						shorter = true // an update without events is accepted by design (time refresh)
					}
					if !saccSame {
						shorter = false
					}
					verifyCase10("json-mutated:"+kind, &um, !same && !shorter)
				}
			}
			// ---- Witness.Update with corrupted updates: state must be unchanged on rejection ----
			// the witness may be older than the update, at its index (with the same or an older time stamp), or past it: an
			// altered update is refused in every position, also where an authentic one would simply be ignored
			type wpos struct {
				name string
				w    *revocation.Witness
			}
			var positions []wpos
			if ln >= 1 && from >= 1 {
				positions = append(positions, wpos{"older", h.issue(from-1, bi(7919))})
			}
			if ln >= 1 {
				positions = append(positions, wpos{"same-index", h.issue(to, bi(7919))})
				older := *h.accs[to]
				older.Time -= 5
				if sa, err := older.Sign(kp.Sk); err == nil {
					wo := h.issue(to, bi(7919))
					wo.SignedAccumulator = sa
					if _, err := sa.UnmarshalVerify(kp.Pk); err == nil {
						positions = append(positions, wpos{"same-index-older-time", wo})
					}
				}
				if to < last {
					positions = append(positions, wpos{"past", h.issue(last, bi(7919))})
				}
			}
			for _, pos := range positions {
				w := pos.w
				for _, kind0 := range []string{"honest", "event-E+2", "signed-data-corrupted", "last-event-index+1", "first-event-dropped"} {
					kind := kind0
					wc := *w
					sa := *w.SignedAccumulator
					wc.SignedAccumulator = &sa
					u := cloneUpdate(base)
					switch kind {
					case "event-E+2":
						u.Events[0].E.Add(u.Events[0].E, bi(2))
					case "signed-data-corrupted":
						u.SignedAccumulator.Data[3] ^= 1
					case "last-event-index+1":
						u.Events[len(u.Events)-1].Index++
					case "first-event-dropped":
						if len(u.Events) < 3 {
							continue // with two events what remains is an authentic shorter window
						}
						// (a shorter window is authentic; make it inauthentic by dropping an event from the middle instead)
						u.Events = append(u.Events[:len(u.Events)-2], u.Events[len(u.Events)-1])
						kind = "second-to-last-event-dropped"
					}
					kind = pos.name + ":" + kind
					honestKind := kind0 == "honest"
					in := L{n, dumpWitness(&wc), dumpUpdate(u, kp)}
					beforeW := S(dumpWitness(&wc))
					beforeU, beforeIdx := new(gbig.Int).Set(wc.U), wc.SignedAccumulator.Accumulator.Index
					res := 5
					func() {
						defer func() { recover() }()
						res = updResult(wc.Update(kp.Pk, u))
					}()
					s.Add(901, "witness-update:"+kind, smallLeft > 0, in, L{res, dumpWitness(&wc), dumpProductCache(u)})
					if !honestKind && (res == 0 || wc.U.Cmp(beforeU) != 0 || wc.SignedAccumulator.Accumulator.Index != beforeIdx || S(dumpWitness(&wc)) != beforeW) {
						s.Violate("C10:altered-update-applied-to-witness", fmt.Sprintf("an altered update was not refused (result %d) or changed the witness: %s", res, kind), L{kind})
					}
					if honestKind && res != 0 {
						s.Violate("C10:honest-update-rejected", "witness update with honest message failed: "+kind, L{res})
					}
				}
			}
			// ---- Prepend ----
			if ln >= 1 {
				for cut := from - 3; cut <= to+1; cut++ {
					for plen := 1; plen <= 3; plen++ {
						pfrom := cut - plen + 1
						if pfrom < 0 || cut < 0 || cut > last {
							continue
						}
						for _, corrupt := range []string{"", "E", "index", "+product", "E+product"} {
							withProduct := strings.HasSuffix(corrupt, "product")
							u := cloneUpdate(base)
							u.Verify(kp.Pk) // the receiver holds a verified update
							evs := []*revocation.Event{}
							for _, e := range h.events[pfrom : cut+1] {
								evs = append(evs, cloneEvent(e))
							}
							switch corrupt {
							case "E", "E+product":
								evs[0].E.Add(evs[0].E, bi(2))
							case "index":
								evs[len(evs)-1].Index++
							}
							el := revocation.NewEventList(evs...)
							var elProduct V
							if withProduct {
								// as received over the wire by a client that asked for the product of the revoked values
								js, _ := json.Marshal(el)
								el = &revocation.EventList{ComputeProduct: true}
								if err := json.Unmarshal(js, el); err != nil {
									panic(err)
								}
								evs = el.Events
								_, _, pr := el.VerifFlags()
								elProduct = pr
							}
							in := L{dumpUpdate(u, kp), dumpEvents(evs), elProduct}
							beforeEvents := S(dumpEvents(u.Events))
							beforeProduct := S(dumpProductCache(u))
							res := 0
							func() {
								defer func() {
									if r := recover(); r != nil {
										res = 5
									}
								}()
								err := u.Prepend(el)
								switch {
								case err == nil:
									res = 0
								case err.Error() == "missing events":
									res = 1
								case err.Error() == "events too new":
									res = 2
								default:
									res = 3
								}
							}()
							kind := fmt.Sprintf("prepend:%s:res=%d", corrupt, res)
							s.Add(1004, kind, smallLeft > 0, in, L{res, L{dumpEvents(u.Events), dumpProductCache(u)}})
							s.Nontrivial[S(in)] = true
							desc := L{fmt.Sprintf("update window [%d,%d], prepend [%d,%d] corrupt=%q result %d", from, to, pfrom, cut, corrupt, res)}
							if res == 5 {
								s.Violate("C10:prepend-panicked", "Update.Prepend panicked", desc)
							}
							if res != 0 && S(dumpEvents(u.Events)) != beforeEvents {
								s.Violate("C10:failed-prepend-changed-update", "a failed Prepend modified the update", desc)
							}
							if res != 0 && S(dumpProductCache(u)) != beforeProduct {
								s.Violate("C10:failed-prepend-changed-update", "a failed Prepend modified the update's cached product", desc)
							}
							if res == 0 && withProduct && corrupt == "+product" && pfrom >= 1 {
								// the merged update brings a witness from before the prepended events to the newest accumulator, like
								// the update built directly from the authentic events
								wa, wb := h.issue(pfrom-1, bi(7919)), h.issue(pfrom-1, bi(7919))
								e1 := wa.Update(kp.Pk, u)
								lo := pfrom
								e2 := wb.Update(kp.Pk, h.window(lo, to))
								if (e1 == nil) != (e2 == nil) || e2 != nil || wa.U.Cmp(wb.U) != 0 {
									s.Violate("C10:prepended-update-differs", fmt.Sprintf("witness update through the prepended update (%v) differs from the direct one (%v)", e1, e2), desc)
								}
							}
							if res == 0 && corrupt == "E+product" {
								s.Violate("C10:altered-events-prepended", "Prepend accepted a re-read event list with an altered revocation value", desc)
							}
							if res == 0 && corrupt != "" && !withProduct && S(dumpEvents(u.Events)) != beforeEvents {
								s.Violate("C10:altered-events-prepended", "Prepend accepted altered events", desc)
							}
							if res == 0 {
								// the result must still be an authentic chain
								if _, err := cloneUpdate(u).Verify(kp.Pk); err != nil {
									s.Violate("C10:prepend-produced-invalid-update", "update does not verify after Prepend", desc)
								}
							}
						}
					}
				}
			}
		}
	}
	// ---- histories of verification calls on one signed-accumulator object (the cache it keeps) ----
	{
		other := makeKey(128, 1, 2, rng, true) // another issuer key (other ECDSA key)
		wrongCounter := *kp.Pk
		wrongCounter.Counter = kp.Pk.Counter + 1
		sameCounterOtherKey := *other.Pk
		sameCounterOtherKey.Counter = kp.Pk.Counter
		pks := []*gabikeys.PublicKey{kp.Pk, &wrongCounter, &sameCounterOtherKey}
		nh := 60
		if tier == "thorough" {
			nh = 600
		}
		for it := 0; it < nh; it++ {
			src := h.window(last, last).SignedAccumulator
			sa := &revocation.SignedAccumulator{Data: append([]byte{}, src.Data...), PKCounter: src.PKCounter}
			kind := "authentic"
			switch it % 4 {
			case 1:
				sa.Data[len(sa.Data)/2] ^= 2
				kind = "payload-bit-flipped"
			case 2:
				sa.PKCounter++
				kind = "counter+1"
			case 3:
				o, err := h.accs[last].Sign(other.Sk)
				if err != nil {
					panic(err)
				}
				sa.Data, sa.PKCounter = append([]byte{}, o.Data...), kp.Pk.Counter
				kind = "signed-by-other-key"
			}
			calls, outs := L{}, L{}
			for c := 0; c < 1+rng.Intn(5); c++ {
				k := rng.Intn(3)
				if c > 0 && rng.Bool() {
					k = 0
				}
				pk := pks[k]
				// the signature oracle for this key, on a copy whose counter check is made to pass
				probe := &revocation.SignedAccumulator{Data: sa.Data, PKCounter: pk.Counter}
				var ov V
				if acc, err := probe.UnmarshalVerify(pk); err == nil {
					ov = dumpAcc(acc)
				}
				calls = append(calls, L{pk.Counter, ov})
				acc, err := sa.UnmarshalVerify(pk)
				if err == nil {
					outs = append(outs, okV(dumpAcc(acc)))
				} else {
					outs = append(outs, errV())
				}
			}
			s.Add(1006, "unmarshalverify-history:"+kind, it < 8, L{sa.PKCounter, calls}, outs)
			s.Nontrivial[S(L{kind, calls})] = true
		}
	}
	s.Notes["rule"] = fmt.Sprintf("update messages of length 0..%d over a history of %d revocations (128-bit group): every field of every event altered (value, index, parent hash "+
		"bytes/length/algorithm/truncated/extended/empty, byte moved between parent and E), delete/insert/swap/duplicate, double corruptions, signature bytes, key counter, other "+
		"accumulator, nil; JSON and CBOR transport; JSON tree mutations; Witness.Update and Prepend (all overlaps) with state-unchanged oracle; Hash.Equal on prefixes/extensions", maxLen, last)
}
