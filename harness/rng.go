package main

import (
	gbig "github.com/privacybydesign/gabi/big"
	"math/big"
)

// Rng is the single PRNG every random choice of a run derives from (splitmix64).
type Rng struct{ s uint64 }

func NewRng(seed uint64) *Rng { return &Rng{s: seed*0x9E3779B97F4A7C15 + 0x1234567} }

func (r *Rng) U64() uint64 {
	r.s += 0x9E3779B97F4A7C15
	z := r.s
	z = (z ^ (z >> 30)) * 0xBF58476D1CE4E5B9
	z = (z ^ (z >> 27)) * 0x94D049BB133111EB
	return z ^ (z >> 31)
}

func (r *Rng) Intn(n int) int {
	if n <= 0 {
		return 0
	}
	return int(r.U64() % uint64(n))
}

func (r *Rng) Bool() bool { return r.U64()&1 == 1 }

// Read makes Rng an io.Reader so that it can stand in for crypto/rand.Reader.
func (r *Rng) Read(p []byte) (int, error) {
	for i := 0; i < len(p); {
		v := r.U64()
		for j := 0; j < 8 && i < len(p); j++ {
			p[i] = byte(v >> (8 * j))
			i++
		}
	}
	return len(p), nil
}

// Bits returns a uniformly random integer of at most n bits.
func (r *Rng) Bits(n int) *gbig.Int {
	if n <= 0 {
		return gbig.NewInt(0)
	}
	b := make([]byte, (n+7)/8)
	r.Read(b)
	b[0] &= byte(0xff >> (uint(8*len(b)-n) % 8))
	return new(gbig.Int).SetBytes(b)
}

// Below returns a uniform value in [0, m).
func (r *Rng) Below(m *gbig.Int) *gbig.Int {
	if m.Sign() <= 0 {
		return gbig.NewInt(0)
	}
	x := r.Bits(m.BitLen() + 64)
	return x.Mod(x, m)
}

func bi(x int64) *gbig.Int { return gbig.NewInt(x) }

func pow2(n uint) *gbig.Int { return new(gbig.Int).Lsh(gbig.NewInt(1), n) }

func fromGo(x *big.Int) *gbig.Int { return gbig.Convert(x) }
