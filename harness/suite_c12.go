package main

import (
	"fmt"

	"github.com/privacybydesign/gabi"
	gbig "github.com/privacybydesign/gabi/big"
	"github.com/privacybydesign/gabi/gabikeys"
	"github.com/privacybydesign/gabi/rangeproof"
)

func init() { suites["C12"] = suiteC12; suites["C13"] = suiteC13 }

func u64big(x uint) *gbig.Int { return new(gbig.Int).SetUint64(uint64(x)) }

// integer meaning: sign*(factor*m - bound) >= 0
func stmtHolds(sign int, factor *gbig.Int, bound *gbig.Int, m int64) bool {
	v := new(gbig.Int).Mul(factor, bi(m))
	v.Sub(v, bound)
	v.Mul(v, bi(int64(sign)))
	return v.Sign() >= 0
}

var edgeFactors = []uint{0, 1, 2, 3, 4, 8, 1 << 62, 1<<62 + 1, 1 << 63, ^uint(0)}

func suiteC12(s *Suite, rng *Rng, tier string) {
	useRng(rng)
	// ---- statement logic against integer semantics on a box ----
	nLogic := 6000
	if tier == "thorough" {
		nLogic = 150000
	}
	box := int64(40)
	kpLogic := makeKey(256, 0, 4, rng, false)
	for it := 0; it < nLogic; it++ {
		nsq := 3 + rng.Intn(2)
		sign := []int{1, -1, 1, -1, 0, 2, -2}[rng.Intn(7)]
		var a uint
		if nsq == 3 && rng.Intn(4) != 0 {
			a = 4
		} else if nsq == 3 && rng.Intn(2) == 0 {
			a = uint(rng.Intn(18)) // the neighbours of the only admissible three-square factor, 4
		} else {
			a = edgeFactors[rng.Intn(len(edgeFactors))]
		}
		k := bi(int64(rng.Intn(int(2*box+1))) - box)
		if nsq == 3 && rng.Intn(2) == 0 {
			// honest 3-square descriptor: K = 4b-2
			k = bi(4*(int64(rng.Intn(int(box/2)))-box/4) - 2)
		}
		p := &rangeproof.Proof{Cs: make([]*gbig.Int, nsq), Ld: 8, Sign: sign, A: a, K: k}
		qs := []int{1, -1, 1, -1, 0, 2}[rng.Intn(6)]
		var qf uint
		if it%10 == 0 && (sign == 1 || sign == -1) {
			// boundary generator for the uint arithmetic in ProvesStatement: queried factors whose
			// product with 4 wraps to the descriptor's factor
			qs = sign
			qf = a/4 + uint(1+rng.Intn(3))<<62
			qb := bi(int64(rng.Intn(int(box))))
			_ = qb
		} else {
			switch rng.Intn(3) {
			case 0:
				qf = a
			case 1:
				qf = a / 4
			default:
				qf = edgeFactors[rng.Intn(len(edgeFactors))]
			}
		}
		qb := bi(int64(rng.Intn(int(2*box+1))) - box)
		if rng.Intn(3) == 0 {
			qb = new(gbig.Int).Add(new(gbig.Int).Rsh(new(gbig.Int).Add(k, bi(2)), 2), bi(int64(rng.Intn(3))-1))
		}
		got := p.ProvesStatement(qs, qf, qb)
		in := L{dumpRangeProof(p), qs, qf, qb}
		s.Add(1201, "proves-statement", it < 400, in, got)
		s.Nontrivial[S(in)] = true
		typ, pf, pb := p.ProvenStatement()
		psign := 0
		if p.Sign == 1 || p.Sign == -1 {
			psign = p.Sign
		}
		_ = typ
		s.Add(1202, "proven-statement", it < 400, dumpRangeProof(p), L{p.Sign, pf, pb})
		// which descriptors the verifier admits: sign +-1, factor below 2^63, three squares only with factor 4
		// (proof.go ExtractStructure / newWithParams; theorem C12.extract_structure_accepts)
		{
			shaped := &rangeproof.Proof{Cs: make([]*gbig.Int, nsq), Ld: 8, Sign: sign, A: a, K: k}
			_, xerr := shaped.ExtractStructure(1, kpLogic.Pk)
			admissible := (sign == 1 || sign == -1) && a < 1<<63 && (nsq != 3 || a == 4)
			if (xerr == nil) != admissible {
				s.Violate("C12:descriptor-admission", fmt.Sprintf("ExtractStructure on descriptor (sign %d, A %d, K %s, %d squares): accepted=%v, admissible=%v", sign, a, k, nsq, xerr == nil, admissible), L{sign, a, k, nsq})
			}
			if xerr != nil {
				continue
			}
		}
		// oracle: only for descriptors the verifier accepts, and only for factors where the verified relation is about the
		// reported factor (A < 2^63)
		if psign == 0 {
			continue
		}
		for m := int64(0); m <= box; m++ {
			// what a verified proof with this descriptor establishes about m
			rel := stmtHolds(p.Sign, u64big(a), k, m)
			if a >= 1<<63 {
				// the exponent Go uses is -int64(a)*sign: relation is about a - 2^64
				continue
			}
			if !rel {
				continue
			}
			if got && !stmtHolds(qs, u64big(qf), qb, m) {
				s.Violate("C12:proves-false-statement", fmt.Sprintf("descriptor (sign %d, A %d, K %s, %d squares) holds for m=%d but ProvesStatement(%d, %d, %s)=true is false for it",
					p.Sign, a, k, nsq, m, qs, qf, qb), in)
				break
			}
			if !stmtHolds(psign, u64big(pf), pb, m) {
				s.Violate("C12:proven-statement-false", fmt.Sprintf("descriptor (sign %d, A %d, K %s, %d squares) holds for m=%d but ProvenStatement (%d, %d, %s) does not",
					p.Sign, a, k, nsq, m, psign, pf, pb), in)
				break
			}
		}
	}
	// A >= 2^63: the exponent wraps; the relation verified is about A-2^64 while A is reported
	{
		kp := makeKey(256, 0, 4, rng, false)
		for _, a := range []uint{1 << 63, ^uint(0), 1<<63 + 5} {
			p := &rangeproof.Proof{Cs: []*gbig.Int{bi(1), bi(1), bi(1), bi(1)}, DResponses: []*gbig.Int{bi(1), bi(1), bi(1), bi(1)},
				VResponses: []*gbig.Int{bi(1), bi(1), bi(1), bi(1)}, V5Response: bi(1), MResponse: bi(1), Ld: 8, Sign: 1, A: a, K: bi(5)}
			_, err := p.ExtractStructure(1, kp.Pk)
			in := L{dumpPk(kp.Pk), 1, dumpRangeProof(p), 12345}
			if err == nil {
				s.Violate("C12:factor-exponent-wraps", fmt.Sprintf("ExtractStructure accepts A=%d >= 2^63 whose int64 conversion wraps: verified relation is about A-2^64", a), in)
			}
		}
	}
	// ---- end to end ----
	rounds := 8
	if tier == "thorough" {
		rounds = 100
	}
	keys := []*KeyPair{makeKey(256, 0, 6, rng, false), makeKey(1024, 0, 6, rng, false)}
	table := rangeproof.GenerateSquaresTable(4096)
	for round := 0; round < rounds; round++ {
		kp := keys[0]
		if round%4 == 3 {
			kp = keys[1]
		}
		pk := kp.Pk
		nattr := 3
		secret := newSecret(rng)
		attrs := []*gbig.Int{bi(int64(1000 + rng.Intn(1000))), rng.Bits(100), bi(int64(rng.Intn(50)))}
		cred := issueCredential(kp, secret, attrs, rng)
		other := issueCredential(kp, secret, []*gbig.Int{bi(5), bi(7), bi(9)}, rng)
		ctx, nonce := rng.Bits(200), rng.Bits(80)
		idx := 1 + rng.Intn(nattr)
		m := cred.Attributes[idx]
		// false statements around the boundary: the prover must refuse
		for _, tc := range []struct {
			typ rangeproof.StatementType
			d   int64
		}{{rangeproof.GreaterOrEqual, 1}, {rangeproof.LesserOrEqual, -1}} {
			st, _ := rangeproof.NewStatement(tc.typ, new(gbig.Int).Add(m, bi(tc.d)))
			_, err := cred.CreateDisclosureProofBuilder(nil, map[int][]*rangeproof.Statement{idx: {st}}, false)
			if err == nil {
				b, _ := cred.CreateDisclosureProofBuilder(nil, map[int][]*rangeproof.Statement{idx: {st}}, false)
				_, err = gabi.ProofBuilderList{b}.BuildProofList(ctx, nonce, false)
			}
			if err == nil {
				s.Violate("C12:false-statement-proved", "a proof for a false inequality was produced", L{idx, m, tc.d})
			}
		}
		// a true statement, then adversarial edits of the accepted proof
		var splitter rangeproof.SquareSplitter
		if round%2 == 1 && m.IsInt64() && m.Int64() < 3000 {
			splitter = table
		}
		lo := new(gbig.Int).Sub(m, bi(int64(rng.Intn(40))))
		if lo.Sign() < 0 {
			lo = bi(0)
		}
		st := &rangeproof.Statement{Sign: 1, Factor: 1, Bound: lo, Splitter: splitter}
		b, err := cred.CreateDisclosureProofBuilder([]int{}, map[int][]*rangeproof.Statement{idx: {st}}, false)
		if err != nil {
			panic(err)
		}
		pl, err := gabi.ProofBuilderList{b}.BuildProofList(ctx, nonce, false)
		if err != nil {
			panic(err)
		}
		honest := pl[0].(*gabi.ProofD)
		pks := []*gabikeys.PublicKey{pk}
		var run func(kind string, p *gabi.ProofD)
		attrsOf := cred.Attributes
		run = func(kind string, p *gabi.ProofD) {
			cred := struct{ Attributes []*gbig.Int }{attrsOf}
			_, acc, _ := verifyCase(s, fmt.Sprintf("%d:e2e:%s", kp.Bits, kind), false, pks, ctx, nonce, false, nil, gabi.ProofList{p})
			s.Nontrivial[fmt.Sprint(round, kind)] = true
			if kind == "honest" && !acc {
				s.Violate("C12:honest-rejected", "honest range proof rejected", L{kind})
			}
			if !acc {
				return
			}
			// every carried range proof must be about a hidden index and report a true statement
			for i, rps := range p.RangeProofs {
				if _, hidden := p.AResponses[i]; !hidden || i < 0 || i >= len(cred.Attributes) {
					s.Violate("C12:rangeproof-on-non-hidden-index-accepted", fmt.Sprintf("accepted proof carries a range proof at index %d (%s)", i, kind), L{kind, i})
					continue
				}
				for _, rp := range rps {
					typ, f, bnd := rp.ProvenStatement()
					sg := 1
					if typ == rangeproof.LesserOrEqual {
						sg = -1
					}
					v := new(gbig.Int).Mul(u64big(f), cred.Attributes[i])
					v.Sub(v, bnd).Mul(v, bi(int64(sg)))
					if v.Sign() < 0 {
						s.Violate("C12:false-statement-accepted", fmt.Sprintf("accepted proof reports a false statement at index %d (%s)", i, kind), L{kind, i})
					}
				}
			}
		}
		run("honest", cloneProofD(honest))
		mut := func(kind string, f func(p *gabi.ProofD)) {
			p := cloneProofD(honest)
			f(p)
			run(kind, p)
		}
		rp0 := func(p *gabi.ProofD) *rangeproof.Proof { return p.RangeProofs[idx][0] }
		mut("K+1", func(p *gabi.ProofD) { rp0(p).K.Add(rp0(p).K, bi(1)) })
		mut("K=m+5", func(p *gabi.ProofD) {
			rp0(p).K = new(gbig.Int).Add(m, bi(5))
			if len(rp0(p).Cs) == 3 {
				rp0(p).K.Mul(rp0(p).K, bi(4))
			}
		})
		mut("sign-flipped", func(p *gabi.ProofD) { rp0(p).Sign = -rp0(p).Sign })
		mut("sign=0", func(p *gabi.ProofD) { rp0(p).Sign = 0 })
		mut("A+1", func(p *gabi.ProofD) { rp0(p).A++ })
		mut("A=0", func(p *gabi.ProofD) { rp0(p).A = 0 })
		mut("A=2^63", func(p *gabi.ProofD) { rp0(p).A = 1 << 63 })
		mut("Ld=Lm+1", func(p *gabi.ProofD) { rp0(p).Ld = pk.Params.Lm + 1 })
		mut("Ld=0", func(p *gabi.ProofD) { rp0(p).Ld = 0 })
		mut("C0+1", func(p *gabi.ProofD) { rp0(p).Cs[0].Add(rp0(p).Cs[0], bi(1)) })
		mut("d0+1", func(p *gabi.ProofD) { rp0(p).DResponses[0].Add(rp0(p).DResponses[0], bi(1)) })
		mut("v0+1", func(p *gabi.ProofD) { rp0(p).VResponses[0].Add(rp0(p).VResponses[0], bi(1)) })
		mut("v5+1", func(p *gabi.ProofD) { rp0(p).V5Response.Add(rp0(p).V5Response, bi(1)) })
		mut("Cs-truncated", func(p *gabi.ProofD) { rp0(p).Cs = rp0(p).Cs[:len(rp0(p).Cs)-1] })
		mut("K-huge", func(p *gabi.ProofD) { rp0(p).K = pow2(pk.Params.Lm + 64) })
		// transplant to another hidden index of the same credential
		for j := 1; j <= nattr; j++ {
			if j != idx {
				jj := j
				mut("moved-to-other-index", func(p *gabi.ProofD) { p.RangeProofs[jj] = p.RangeProofs[idx]; delete(p.RangeProofs, idx) })
				break
			}
		}
		// attach to a disclosed index / non-existent index (build a proof that discloses attribute 1)
		{
			didx := 1
			hidx := 2
			st2, _ := rangeproof.NewStatement(rangeproof.GreaterOrEqual, bi(0))
			b2, err := cred.CreateDisclosureProofBuilder([]int{didx}, map[int][]*rangeproof.Statement{hidx: {st2}}, false)
			if err != nil {
				panic(err)
			}
			pl2, _ := gabi.ProofBuilderList{b2}.BuildProofList(ctx, nonce, false)
			h2 := pl2[0].(*gabi.ProofD)
			for _, target := range []int{didx, nattr + 1, nattr + 2, 1000, -1} {
				p := cloneProofD(h2)
				p.RangeProofs[target] = p.RangeProofs[hidx]
				run(fmt.Sprintf("copied-to-index-%d", target), p)
				p = cloneProofD(h2)
				p.RangeProofs[target] = p.RangeProofs[hidx]
				delete(p.RangeProofs, hidx)
				run(fmt.Sprintf("moved-to-index-%d", target), p)
			}
		}
		// a range proof whose descriptor cannot be turned into a proof structure (too many commitments, an oversized bit
		// length, three squares without the factor 4), attached to a proof that was made without range parts: a verifier
		// that loses the error of the extraction skips it, and the accepted proof then "establishes" whatever its K says
		{
			b6, err := cred.CreateDisclosureProofBuilder([]int{}, nil, false)
			if err != nil {
				panic(err)
			}
			pl6, _ := gabi.ProofBuilderList{b6}.BuildProofList(ctx, nonce, false)
			h6 := pl6[0].(*gabi.ProofD)
			for _, variant := range []string{"five-commitments", "ld-too-large", "three-squares-factor-1", "factor-2^63"} {
				p := cloneProofD(h6)
				rp := cloneRange(rp0(honest))
				rp.Sign, rp.A = 1, 1
				rp.K = new(gbig.Int).Add(m, bi(10))
				switch variant {
				case "five-commitments":
					for len(rp.Cs) < 5 {
						rp.Cs = append(rp.Cs, bi(4))
						rp.DResponses = append(rp.DResponses, bi(1))
						rp.VResponses = append(rp.VResponses, bi(1))
					}
				case "ld-too-large":
					rp.Ld = pk.Params.Lm + 1
				case "three-squares-factor-1":
					rp.Cs, rp.DResponses, rp.VResponses = rp.Cs[:3], rp.DResponses[:3], rp.VResponses[:3]
				case "factor-2^63":
					rp.A = 1 << 63
					rp.K = new(gbig.Int).Lsh(new(gbig.Int).Add(m, bi(10)), 63)
				}
				p.RangeProofs = map[int][]*rangeproof.Proof{idx: {rp}}
				run("unextractable-range-proof:"+variant, p)
			}
		}
		// a proof with an index gap: a zero-valued attribute contributes R^0 = 1, so it can be left out of both the
		// disclosed and the hidden set without changing the reconstruction; a range proof on the hidden attribute
		// behind the gap must still be checked
		{
			top := bi(int64(10 + rng.Intn(1000)))
			zc := issueCredential(kp, secret, []*gbig.Int{rng.Bits(50), bi(0), top}, rng)
			b4, err := zc.CreateDisclosureProofBuilder([]int{2}, nil, false)
			if err != nil {
				panic(err)
			}
			pl4, _ := gabi.ProofBuilderList{b4}.BuildProofList(ctx, nonce, false)
			h4 := pl4[0].(*gabi.ProofD)
			stT, _ := rangeproof.NewStatement(rangeproof.GreaterOrEqual, top)
			b5, _ := zc.CreateDisclosureProofBuilder([]int{2}, map[int][]*rangeproof.Statement{3: {stT}}, false)
			pl5, _ := gabi.ProofBuilderList{b5}.BuildProofList(ctx, nonce, false)
			h5 := pl5[0].(*gabi.ProofD)
			attrsOf = zc.Attributes
			for _, dropZero := range []bool{true, false} {
				tag := ""
				if dropZero {
					tag = "zero-attribute-omitted:"
				}
				p := cloneProofD(h4)
				if dropZero {
					delete(p.ADisclosed, 2)
				}
				run(tag+"no-range-proof", p)
				// a range proof (false statement: attribute >= attribute + 1000) that was never part of the challenge
				p = cloneProofD(h4)
				if dropZero {
					delete(p.ADisclosed, 2)
				}
				junk := cloneProofD(h5).RangeProofs[3][0]
				junk.K = new(gbig.Int).Add(top, bi(1000))
				p.RangeProofs = map[int][]*rangeproof.Proof{3: {junk}}
				run(tag+"unhashed-false-range-proof-on-top-index", p)
				// honest range proof behind the gap, then its bound raised
				p = cloneProofD(h5)
				if dropZero {
					delete(p.ADisclosed, 2)
				}
				run(tag+"honest-range-proof", p)
				p = cloneProofD(h5)
				if dropZero {
					delete(p.ADisclosed, 2)
				}
				p.RangeProofs[3][0].K = new(gbig.Int).Add(top, bi(1000))
				run(tag+"bound-raised", p)
			}
			attrsOf = cred.Attributes
		}
		// a cheating prover: an honest disclosure proof plus a range proof computed for a value of the prover's choosing with its
		// own randomizer, hashed into the challenge like an honest one (internally consistent, but not about the signed attribute);
		// both the in-memory object (whose range proof carries its own m-response) and its wire copy
		{
			fake := new(gbig.Int).Add(m, bi(int64(1000+rng.Intn(1000))))
			stF, _ := rangeproof.NewStatement(rangeproof.GreaterOrEqual, new(gbig.Int).Add(m, bi(int64(1+rng.Intn(900)))))
			inner, err := cred.CreateDisclosureProofBuilder([]int{}, nil, false)
			if err != nil {
				panic(err)
			}
			ub := &untiedRangeBuilder{inner: inner, idx: idx, stmt: stF, fake: fake, mr: rng.Bits(int(pk.Params.LmCommit))}
			plF, err := gabi.ProofBuilderList{ub}.BuildProofList(ctx, nonce, false)
			if err == nil && ub.err == nil {
				forged := plF[0].(*gabi.ProofD)
				run("untied-range-proof:in-memory", forged)
				wire := cloneProofD(forged)
				for _, rps := range wire.RangeProofs {
					for _, rp := range rps {
						rp.MResponse = nil
					}
				}
				run("untied-range-proof:wire", wire)
			} else {
				s.Count("untied-range-proof:not-built")
			}
		}
		// a cheating prover with a degenerate commitment: a range proof whose C_i is 0 modulo N makes every product it occurs in
		// 0 whatever the responses are, so the two relations it takes part in hold vacuously -- for any bound
		for vi, variant := range []string{"C0=0", "C0=N", "C1=0", "C3=2N", "C0=0(three squares)"} {
			if round%2 == 1 && vi > 1 {
				break
			}
			which := map[string]int{"C0=0": 0, "C0=N": 0, "C1=0": 1, "C3=2N": 3, "C0=0(three squares)": 0}[variant]
			val := map[string]*gbig.Int{"C0=0": bi(0), "C0=N": cp(pk.N), "C1=0": bi(0), "C3=2N": new(gbig.Int).Lsh(pk.N, 1), "C0=0(three squares)": bi(0)}[variant]
			var sp rangeproof.SquareSplitter
			nsq := 4
			lo := new(gbig.Int).Set(m)
			if vi == 4 {
				if !(m.IsInt64() && m.Int64() < 3000) {
					continue
				}
				sp, nsq = table, 3
			}
			stT := &rangeproof.Statement{Sign: 1, Factor: 1, Bound: lo, Splitter: sp} // true: m >= m
			bz, err := cred.CreateDisclosureProofBuilder([]int{}, map[int][]*rangeproof.Statement{idx: {stT}}, false)
			if err != nil {
				continue
			}
			rz, _ := gabi.NewProofRandomizers()
			list, err := bz.Commit(rz)
			if err != nil {
				continue
			}
			// contributions of the range proof are the last nsq+1 entries: [m-correct, C_0 .. C_nsq-1]
			list[len(list)-(nsq+1)] = bi(0)
			list[len(list)-nsq+which] = bi(0)
			cz := gabi.VerifCreateChallenge(ctx, nonce, list, false)
			pz := bz.CreateProof(cz).(*gabi.ProofD)
			rp := pz.RangeProofs[idx][0]
			rp.Cs[which] = val
			rp.K = new(gbig.Int).Add(m, pow2(100)) // "attribute >= attribute + 2^100"
			if nsq == 3 {
				rp.K = new(gbig.Int).Sub(new(gbig.Int).Lsh(new(gbig.Int).Add(m, pow2(100)), 2), bi(2))
			}
			wire := cloneProofD(pz)
			for _, rps := range wire.RangeProofs {
				for _, r := range rps {
					r.MResponse = nil
				}
			}
			run("degenerate-commitment:"+variant, wire)
		}
		// transplant from another credential
		{
			st3, _ := rangeproof.NewStatement(rangeproof.GreaterOrEqual, bi(3))
			b3, _ := other.CreateDisclosureProofBuilder([]int{}, map[int][]*rangeproof.Statement{idx: {st3}}, false)
			pl3, _ := gabi.ProofBuilderList{b3}.BuildProofList(ctx, nonce, false)
			o := pl3[0].(*gabi.ProofD)
			mut("transplant-from-other-credential", func(p *gabi.ProofD) { p.RangeProofs[idx] = cloneProofD(o).RangeProofs[idx] })
		}
	}
	s.Notes["rule"] = "statement logic: random descriptors (sign in {-2..2}, factor in {0,1,2,3,4,8,2^62,2^62+1,2^63,2^64-1}, K in [-40,40], 3/4 squares) x queried " +
		"statements, each checked against integer semantics for every m in [0,40]; end to end: false statements at m = bound -+ 1, every descriptor/response " +
		"alteration of an accepted proof, transplants between indices and credentials, disclosed / non-existent / negative indices; distinct by input"
}

// untiedRangeBuilder wraps an honest disclosure proof builder and adds a range proof about a value of its own
type untiedRangeBuilder struct {
	inner  *gabi.DisclosureProofBuilder
	idx    int
	stmt   *rangeproof.Statement
	fake   *gbig.Int
	mr     *gbig.Int
	ps     *rangeproof.ProofStructure
	commit *rangeproof.ProofCommit
	err    error
}

func (u *untiedRangeBuilder) Commit(randomizers map[string]*gbig.Int) ([]*gbig.Int, error) {
	l, err := u.inner.Commit(randomizers)
	if err != nil {
		return nil, err
	}
	u.ps, u.err = u.stmt.ProofStructure(u.idx)
	if u.err != nil {
		return l, nil
	}
	var extra []*gbig.Int
	extra, u.commit, u.err = u.ps.CommitmentsFromSecrets(u.inner.PublicKey(), u.fake, u.mr)
	if u.err != nil {
		return l, nil
	}
	return append(l, extra...), nil
}

func (u *untiedRangeBuilder) CreateProof(challenge *gbig.Int) gabi.Proof {
	p := u.inner.CreateProof(challenge).(*gabi.ProofD)
	if u.err == nil {
		p.RangeProofs = map[int][]*rangeproof.Proof{u.idx: {u.ps.BuildProof(u.commit, challenge)}}
	}
	return p
}

func (u *untiedRangeBuilder) PublicKey() *gabikeys.PublicKey { return u.inner.PublicKey() }
func (u *untiedRangeBuilder) SetProofPCommitment(c *gabi.ProofPCommitment) {
	u.inner.SetProofPCommitment(c)
}

// ---------------------------------------------------------------------------------------

func suiteC13(s *Suite, rng *Rng, tier string) {
	useRng(rng)
	rounds := 40
	if tier == "thorough" {
		rounds = 600
	}
	keys := []*KeyPair{makeKey(256, 0, 5, rng, false), makeKey(1024, 0, 5, rng, false)}
	limit := int64(1024)
	if tier == "thorough" {
		limit = 65536
	}
	table := rangeproof.GenerateSquaresTable(limit)
	s.Add(1304, "table-ld", true, limit, table.Ld())
	// the table splitter against the model on every supported difference (and just outside)
	step := int64(1)
	if tier != "thorough" {
		step = 7
	}
	var vs []int64
	for v := int64(-6); v <= 4*limit+14; v += step {
		vs = append(vs, v)
	}
	for d := int64(-10); d <= 10; d++ { // the end of the table, always
		vs = append(vs, 4*limit+d)
	}
	for _, v := range vs {
		var out V
		r, err := func() (r []*gbig.Int, err error) {
			defer func() {
				if rec := recover(); rec != nil {
					out = panicV()
				}
			}()
			return table.Split(bi(v))
		}()
		if out != nil && v >= 0 && v%4 == 2 && v <= 4*limit+2 {
			s.Violate("C13:table-split-panicked", fmt.Sprintf("GenerateSquaresTable(%d).Split(%d) panics although the table is meant to cover the value", limit, v), L{limit, v})
		}
		if out == nil {
			if err != nil {
				out = errV()
			} else {
				out = okV(dumpBigs(r))
				sum := int64(0)
				for _, x := range r {
					sum += x.Int64() * x.Int64()
				}
				if sum != v {
					s.Violate("C13:table-entry-wrong", fmt.Sprintf("table split of %d does not sum to it", v), L{v})
				}
			}
		}
		s.Add(1303, "table-split", v < 200, L{limit, v}, out)
		if v >= 0 && v%4 == 2 && v <= 4*limit+2 && err != nil {
			s.Violate("C13:table-rejects-supported-value", fmt.Sprintf("GenerateSquaresTable(%d) holds an entry for %d but Split rejects it", limit, v), L{limit, v})
		}
	}
	smallLeft := 2
	for round := 0; round < rounds; round++ {
		kp := keys[0]
		if round%5 == 4 {
			kp = keys[1]
		}
		pk := kp.Pk
		// attribute, statement
		var m *gbig.Int
		if round%3 == 0 {
			m = rng.Bits(1 + rng.Intn(200))
		} else {
			m = bi(int64(rng.Intn(4000)))
		}
		sign := 1
		if rng.Bool() {
			sign = -1
		}
		useTable := round%2 == 0
		factor := uint(1)
		if !useTable {
			factor = uint(1 + rng.Intn(8))
		}
		// difference: dense window around 0, or random large
		var diff *gbig.Int
		switch rng.Intn(4) {
		case 0:
			diff = bi(0)
		case 1:
			diff = bi(int64(rng.Intn(3)))
		case 2:
			diff = bi(int64(rng.Intn(64)))
		default:
			if useTable {
				diff = bi(int64(rng.Intn(int(limit))))
			} else {
				diff = rng.Bits(1 + rng.Intn(250))
			}
		}
		if !useTable && round%4 == 1 {
			// the documented limit of the four-square method: differences up to 2^256 (roots of exactly 128 bits)
			diff = rng.Bits(256)
			diff.SetBit(diff, 255-rng.Intn(2), 1)
			if round%8 == 1 {
				diff = new(gbig.Int).Sub(new(gbig.Int).Lsh(bi(1), 256), bi(int64(1+rng.Intn(3))))
			}
			factor = 1
			if sign == 1 {
				// m - bound = diff with m below 2^256
				m = new(gbig.Int).Sub(new(gbig.Int).Lsh(bi(1), 256), bi(1))
				if diff.Cmp(m) > 0 {
					diff.Set(m)
				}
			}
		}
		// bound such that sign*(factor*m - bound) = diff  (true statement)
		fm := new(gbig.Int).Mul(u64big(factor), m)
		bound := new(gbig.Int).Sub(fm, new(gbig.Int).Mul(bi(int64(sign)), diff))
		if bound.Sign() < 0 {
			continue
		}
		var splitter rangeproof.SquareSplitter
		nsq, ld := 4, uint(128)
		if useTable {
			splitter = table
			nsq, ld = 3, table.Ld()
		}
		idx := 1
		stmt := &rangeproof.Statement{Sign: sign, Factor: factor, Bound: bound, Splitter: splitter}
		desc := fmt.Sprintf("m=%s sign=%d factor=%d bound=%s diff=%s table=%v", m, sign, factor, bound, diff, useTable)
		ps, err := stmt.ProofStructure(idx)
		if err != nil {
			s.Violate("C13:true-statement-unprovable", "ProofStructure failed: "+desc+": "+err.Error(), L{desc})
			continue
		}
		mr := rng.Bits(int(pk.Params.LmCommit))
		contribs, commit, err := ps.CommitmentsFromSecrets(pk, m, mr)
		// model: does the prover accept, and what does it split
		_, dsign, da, dk, _, _ := ps.VerifDescriptor()
		_ = dsign
		_ = da
		_ = dk
		var deltaOut V
		if err == rangeproof.ErrFalseStatement {
			deltaOut = errV()
		} else if err == nil {
			d, _, _, _, _, _, _, _, _ := commit.VerifState()
			sum := bi(0)
			for _, x := range d {
				sum.Add(sum, new(gbig.Int).Mul(x, x))
			}
			deltaOut = okV(sum)
		}
		if deltaOut != nil {
			s.Add(1302, "prover-delta", round < 10, L{idx, sign, factor, bound, nsq, ld, m}, deltaOut)
		}
		s.Nontrivial[desc] = true
		if err != nil {
			s.Violate("C13:true-statement-unprovable", "CommitmentsFromSecrets failed for a true statement ("+desc+"): "+err.Error(), L{desc})
			continue
		}
		c := rng.Bits(256)
		proof := ps.BuildProof(commit, c)
		d, dr, vv, vr, _, v5r, _, _, _ := commit.VerifState()
		small := kp.Bits == 256 && smallLeft > 0 && false
		if small {
			smallLeft--
		}
		pdump := dumpRangeProof(proof)
		_, psg, pa, pk2, pld, pn := ps.VerifDescriptor()
		s.Add(1301, fmt.Sprintf("%d:prove", kp.Bits), small, L{dumpPk(pk), idx, sign, factor, bound, nsq, ld, m, mr, dumpBigs(d), dumpBigs(dr), dumpBigs(vv), dumpBigs(vr), v5r, c},
			okV(L{dumpBigs(contribs), pdump, L{idx, psg, pa, pk2, pld, pn}}))
		// verifier side
		es, err := proof.ExtractStructure(idx, pk)
		ok := err == nil && es.VerifyProofStructure(pk, proof)
		var vout V = errV()
		if ok {
			vc := es.CommitmentsFromProof(pk, proof, c)
			vout = okV(dumpBigs(vc))
			same := len(vc) == len(contribs)
			for i := range vc {
				if same && vc[i].Cmp(contribs[i]) != 0 {
					same = false
				}
			}
			if !same {
				s.Violate("C13:honest-range-proof-does-not-verify", "verifier reconstructs other commitments: "+desc, L{desc})
			}
		} else {
			s.Violate("C13:honest-range-proof-does-not-verify", "structure rejected: "+desc, L{desc})
		}
		s.Add(1204, fmt.Sprintf("%d:verify", kp.Bits), small, L{dumpPk(pk), idx, pdump, c}, vout)
		if !proof.Proves(stmt) {
			s.Violate("C13:proof-not-reported-as-proving", "library does not report the proof as proving the requested statement: "+desc, L{desc})
		}
	}
	// several statements on one and on several attributes in one disclosure proof
	{
		kp := keys[0]
		secret := newSecret(rng)
		attrs := []*gbig.Int{bi(1990), bi(42), bi(7), bi(100000)}
		cred := issueCredential(kp, secret, attrs, rng)
		n := 4
		if tier == "thorough" {
			n = 30
		}
		for it := 0; it < n; it++ {
			stmts := map[int][]*rangeproof.Statement{}
			for i := 1; i <= 4; i++ {
				for k := 0; k < rng.Intn(3); k++ {
					if rng.Bool() {
						st, _ := rangeproof.NewStatement(rangeproof.GreaterOrEqual, new(gbig.Int).Sub(attrs[i-1], bi(int64(rng.Intn(6)))))
						stmts[i] = append(stmts[i], st)
					} else {
						st, _ := rangeproof.NewStatement(rangeproof.LesserOrEqual, new(gbig.Int).Add(attrs[i-1], bi(int64(rng.Intn(6)))))
						stmts[i] = append(stmts[i], st)
					}
				}
			}
			ctx, nonce := rng.Bits(200), rng.Bits(80)
			b, err := cred.CreateDisclosureProofBuilder(nil, stmts, false)
			if err != nil {
				s.Violate("C13:true-statement-unprovable", "builder refused combined statements: "+err.Error(), L{it})
				continue
			}
			pl, err := gabi.ProofBuilderList{b}.BuildProofList(ctx, nonce, false)
			if err != nil {
				s.Violate("C13:true-statement-unprovable", "combined statements: "+err.Error(), L{it})
				continue
			}
			_, acc, _ := verifyCase(s, "multi-statement", false, []*gabikeys.PublicKey{kp.Pk}, ctx, nonce, false, nil, cloneList(pl))
			s.Nontrivial[fmt.Sprint("multi", it)] = true
			if !acc {
				s.Violate("C13:honest-range-proof-does-not-verify", "combined range statements rejected", L{it})
			}
		}
	}
	c13FullProofs(s, rng, tier, keys)
	s.Notes["rule"] = "full disclosure proofs: every hidden attribute position of a 5-attribute credential under random disclosed sets (0..3 disclosed), statements >= and <= (one or two per attribute, one or two attributes), " +
		"created with the library, required to verify and replayed through the model; true statements with difference in a dense window (0,1,2,..63) and random up to 2^250, both signs, factor 1..8 (four squares) and 1 (table, every " +
		"7th supported table value in quick, all in thorough), 256- and 1024-bit keys; the model recomputes prover output from observed randomness and the verifier " +
		"reconstruction; several statements per attribute and proof; distinct by statement"
}

// c13FullProofs: a holder for whom the statement is true always gets an accepted proof, wherever the attribute sits
// among disclosed and hidden ones
func c13FullProofs(s *Suite, rng *Rng, tier string, keys []*KeyPair) {
	n := 24
	if tier == "thorough" {
		n = 300
	}
	for it := 0; it < n; it++ {
		kp := keys[0]
		if it%6 == 5 {
			kp = keys[1]
		}
		secret := newSecret(rng)
		attrs := []*gbig.Int{rng.Bits(40), rng.Bits(60), rng.Bits(100), rng.Bits(30)}
		cred := issueCredential(kp, secret, attrs, rng)
		// statements on one or two hidden attributes; the others disclosed at random
		target := 1 + it%4
		stmts := map[int][]*rangeproof.Statement{}
		add := func(idx int) {
			m := cred.Attributes[idx]
			lo := new(gbig.Int).Sub(m, bi(int64(rng.Intn(1000))))
			if lo.Sign() < 0 {
				lo = bi(0)
			}
			st, _ := rangeproof.NewStatement(rangeproof.GreaterOrEqual, lo)
			stmts[idx] = append(stmts[idx], st)
			if rng.Bool() {
				st2, _ := rangeproof.NewStatement(rangeproof.LesserOrEqual, new(gbig.Int).Add(m, bi(int64(rng.Intn(1000)))))
				stmts[idx] = append(stmts[idx], st2)
			}
		}
		add(target)
		second := 1 + rng.Intn(4)
		if rng.Intn(3) == 0 && second != target {
			add(second)
		}
		var disclosed []int
		for i := 1; i <= 4; i++ {
			if _, has := stmts[i]; !has && rng.Intn(3) != 0 {
				disclosed = append(disclosed, i)
			}
		}
		ctx, nonce := rng.Bits(200), rng.Bits(80)
		desc := fmt.Sprintf("%d-bit key, statements on %v, disclosed %v", kp.Bits, keysOf(stmts), disclosed)
		proof, err := cred.CreateDisclosureProof(disclosed, stmts, false, ctx, nonce)
		if err != nil {
			s.Violate("C13:true-statement-unprovable", "CreateDisclosureProof failed for true statements ("+desc+"): "+err.Error(), L{desc})
			continue
		}
		_, acc, _ := verifyCase(s, fmt.Sprintf("%d:full-proof:%d-disclosed", kp.Bits, len(disclosed)), false, []*gabikeys.PublicKey{kp.Pk}, ctx, nonce, false, nil, gabi.ProofList{proof})
		s.Nontrivial[desc+fmt.Sprint(it)] = true
		if !acc {
			s.Violate("C13:honest-range-proof-rejected", "disclosure proof with true range statements does not verify ("+desc+")", L{desc})
		}
	}
}

func keysOf(m map[int][]*rangeproof.Statement) []int {
	var ks []int
	for k := range m {
		ks = append(ks, k)
	}
	sortInts(ks)
	return ks
}

func sortInts(a []int) {
	for i := 1; i < len(a); i++ {
		for j := i; j > 0 && a[j] < a[j-1]; j-- {
			a[j], a[j-1] = a[j-1], a[j]
		}
	}
}
