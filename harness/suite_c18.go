package main

import (
	"bytes"
	"encoding/json"
	"encoding/xml"
	"fmt"
	"os"
	"path/filepath"
	"regexp"
	"strings"
	"syscall"

	"github.com/fxamacker/cbor"
	"github.com/privacybydesign/gabi"
	gbig "github.com/privacybydesign/gabi/big"
	"github.com/privacybydesign/gabi/gabikeys"
	"github.com/privacybydesign/gabi/revocation"
)

func init() { suites["C18"] = suiteC18 }

func tryErr(f func() error) (res int) { // 0 ok, 1 error, 2 panic
	defer func() {
		if r := recover(); r != nil {
			res = 2
		}
	}()
	if err := f(); err != nil {
		return 1
	}
	return 0
}

func suiteC18(s *Suite, rng *Rng, tier string) {
	useRng(rng)
	nInts := 300
	if tier == "thorough" {
		nInts = 6000
	}
	// ---------- (A) big integers: text / JSON / XML / binary ----------
	for i := 0; i < nInts; i++ {
		var z *gbig.Int
		switch i % 8 {
		case 0:
			z = bi(int64(i / 8))
		case 1:
			z = pow2(uint(8 * (1 + rng.Intn(40)))) // 2^k : leading byte 1, rest zero
		case 2:
			z = new(gbig.Int).Sub(pow2(uint(8*(1+rng.Intn(40)))), bi(1))
		case 3:
			z = pow2(uint(rng.Intn(300)))
		default:
			z = rng.Bits(1 + rng.Intn(2100))
		}
		txt, err := z.MarshalText()
		if err != nil {
			s.Violate("C18:int-marshal-failed", "MarshalText failed on a non-negative integer", L{z})
			continue
		}
		s.Add(1801, "marshal-text", i < 200, z, okV([]byte(txt)))
		s.Nontrivial[z.String()] = true
		js, _ := json.Marshal(z)
		var back gbig.Int
		if err := json.Unmarshal(js, &back); err != nil || back.Cmp(z) != 0 {
			s.Violate("C18:int-json-roundtrip", "JSON round trip changed the integer", L{z})
		}
		// decimal JSON numbers are accepted too
		var back2 gbig.Int
		if err := json.Unmarshal([]byte(z.String()), &back2); err != nil || back2.Cmp(z) != 0 {
			s.Violate("C18:int-json-roundtrip", "decimal JSON number not read back", L{z})
		}
		xb, _ := xml.Marshal(z)
		var back3 gbig.Int
		if err := xml.Unmarshal(xb, &back3); err != nil || back3.Cmp(z) != 0 {
			s.Violate("C18:int-xml-roundtrip", "XML round trip changed the integer", L{z})
		}
		s.Add(1803, "decimal", i < 200, z, []byte(z.String()))
		bb, _ := z.MarshalBinary()
		var back4 gbig.Int
		back4.UnmarshalBinary(bb)
		if back4.Cmp(z) != 0 {
			s.Violate("C18:int-binary-roundtrip", "binary round trip changed the integer", L{z})
		}
		cb, err := cbor.Marshal(z, cbor.EncOptions{})
		if err == nil {
			var back5 gbig.Int
			if err := cbor.Unmarshal(cb, &back5); err != nil || back5.Cmp(z) != 0 {
				s.Violate("C18:int-cbor-roundtrip", "CBOR round trip changed the integer", L{z})
			}
		}
		// decoding of the text form by the model
		s.Add(1802, "unmarshal-text", i < 200, []byte(txt), okV(z))
		// negatives must be refused by the text encodings, never altered
		if z.Sign() > 0 {
			neg := new(gbig.Int).Neg(z)
			if _, err := neg.MarshalText(); err == nil {
				s.Violate("C18:negative-marshalled", "MarshalText accepted a negative integer", L{neg})
			}
			s.Add(1801, "marshal-text-negative", i < 50, neg, errV())
			var b6 gbig.Int
			if err := json.Unmarshal([]byte(neg.String()), &b6); err == nil {
				s.Violate("C18:negative-accepted", "JSON decoding accepted a negative number", L{neg})
			}
			var b7 gbig.Int
			if err := xml.Unmarshal([]byte("<Int>"+neg.String()+"</Int>"), &b7); err == nil {
				s.Violate("C18:negative-accepted", "XML decoding accepted a negative number", L{neg})
			}
		}
	}
	// ---------- (B) key documents ----------
	for _, bits := range []int{1024, 2048} {
		for _, nb := range []int{1, 6, 20} {
			if bits == 2048 && nb != 6 && tier != "thorough" {
				continue
			}
			for _, revoc := range []bool{false, true} {
				kp := makeKey(bits, 0, nb, rng, revoc)
				var pubBuf, privBuf bytes.Buffer
				kp.Pk.WriteTo(&pubBuf)
				kp.Sk.WriteTo(&privBuf)
				pubXML, privXML := pubBuf.String(), privBuf.String()
				pk2, err := gabikeys.NewPublicKeyFromXML(pubXML)
				if err != nil {
					s.Violate("C18:key-roundtrip", "written public key does not parse: "+err.Error(), L{bits, nb})
					continue
				}
				same := pk2.N.Cmp(kp.Pk.N) == 0 && pk2.Z.Cmp(kp.Pk.Z) == 0 && pk2.S.Cmp(kp.Pk.S) == 0 && len(pk2.R) == len(kp.Pk.R) &&
					pk2.Counter == kp.Pk.Counter && pk2.ExpiryDate == kp.Pk.ExpiryDate && pk2.EpochLength == kp.Pk.EpochLength &&
					pk2.ECDSAString == kp.Pk.ECDSAString && pk2.Params == kp.Pk.Params && (pk2.G == nil) == (kp.Pk.G == nil)
				for i := range pk2.R {
					same = same && pk2.R[i].Cmp(kp.Pk.R[i]) == 0
				}
				if revoc && same {
					same = pk2.G.Cmp(kp.Pk.G) == 0 && pk2.H.Cmp(kp.Pk.H) == 0 && pk2.ECDSA != nil && pk2.ECDSA.Equal(kp.Pk.ECDSA)
				}
				if !same {
					s.Violate("C18:key-roundtrip", "public key changed by the XML round trip", L{bits, nb, revoc})
				}
				sk2, err := gabikeys.NewPrivateKeyFromXML(privXML, false)
				if err != nil || sk2.P.Cmp(kp.Sk.P) != 0 || sk2.Q.Cmp(kp.Sk.Q) != 0 || sk2.PPrime.Cmp(kp.Sk.PPrime) != 0 || sk2.QPrime.Cmp(kp.Sk.QPrime) != 0 ||
					sk2.N.Cmp(kp.Sk.N) != 0 || sk2.Order.Cmp(kp.Sk.Order) != 0 || sk2.Counter != kp.Sk.Counter || sk2.ECDSAString != kp.Sk.ECDSAString {
					s.Violate("C18:key-roundtrip", "private key changed by the XML round trip", L{bits, nb, revoc})
				}
				s.Nontrivial[fmt.Sprint("key", bits, nb, revoc)] = true
				// every single-element deletion / negation / garbling
				elemRe := regexp.MustCompile(`(?s)<(n|Z|S|G|H|Base_\d+|p|q|pPrime|qPrime)>(\d+)</`)
				mutateDoc := func(doc string, private bool) {
					dir := filepath.Join(os.TempDir(), "verif-c18")
					for _, m := range elemRe.FindAllStringSubmatchIndex(doc, -1) {
						name := doc[m[2]:m[3]]
						num := doc[m[4]:m[5]]
						whole := doc[m[0]:m[1]]
						closing := "</" + name + ">"
						variants := map[string]string{
							"deleted":    strings.Replace(doc, whole+name+">", "", 1),
							"negated":    doc[:m[4]] + "-" + num + doc[m[5]:],
							"garbled":    doc[:m[4]] + num[:len(num)/2] + "x" + num[len(num)/2:] + doc[m[5]:],
							"empty":      doc[:m[4]] + doc[m[5]:],
							"hex":        doc[:m[4]] + "0x1f" + doc[m[5]:],
							"plus-one":   "",
							"whitespace": "",
						}
						_ = closing
						for kind, d := range variants {
							if d == "" || d == doc {
								continue
							}
							optional := name == "G" || name == "H"
							var res int
							var parsedOK bool
							// the abstract document for the model: element -> missing / not decimal / value
							abs := func(el string, orig *gbig.Int) V {
								if orig == nil {
									return nil
								}
								if el != name {
									return orig
								}
								switch kind {
								case "deleted":
									return nil
								case "negated":
									return new(gbig.Int).Neg(orig)
								default:
									return L{}
								}
							}
							if private {
								for _, demo := range []bool{false, true} {
									res = tryErr(func() error { _, err := gabikeys.NewPrivateKeyFromXML(d, demo); return err })
									check18(s, fmt.Sprintf("privkey(demo=%v)", demo), name, kind, res, false, demo)
									s.Add(1806, "privkey-doc:"+kind, true, L{true, true, demo, abs("p", kp.Sk.P), abs("q", kp.Sk.Q), abs("pPrime", kp.Sk.PPrime), abs("qPrime", kp.Sk.QPrime)}, outOf(res))
								}
								continue
							}
							res = tryErr(func() error { _, err := gabikeys.NewPublicKeyFromXML(d); parsedOK = err == nil; return err })
							check18(s, "pubkey-xml", name, kind, res, optional && kind == "deleted", false)
							{
								bs := L{}
								for bi2, r := range kp.Pk.R {
									bs = append(bs, abs(fmt.Sprintf("Base_%d", bi2), r))
								}
								if strings.HasPrefix(name, "Base_") && kind == "deleted" {
									// a deleted base element shortens the list (count attribute unchanged)
									nb2 := L{}
									for bi2, r := range kp.Pk.R {
										if fmt.Sprintf("Base_%d", bi2) != name {
											nb2 = append(nb2, r)
										}
									}
									bs = nb2
								}
								s.Add(1805, "pubkey-doc:"+kind, true, L{L{1024, 2048, 4096}, abs("n", kp.Pk.N), abs("Z", kp.Pk.Z), abs("S", kp.Pk.S), abs("G", kp.Pk.G), abs("H", kp.Pk.H), bs, len(kp.Pk.R)}, outOf(res))
							}
							os.MkdirAll(dir, 0o700)
							fn := filepath.Join(dir, "k.xml")
							os.WriteFile(fn, []byte(d), 0o600)
							res = tryErr(func() error { _, err := gabikeys.NewPublicKeyFromFile(fn); return err })
							check18(s, "pubkey-file", name, kind, res, optional && kind == "deleted", false)
							os.Remove(fn)
							_ = parsedOK
						}
					}
					os.RemoveAll(dir)
				}
				if nb <= 6 {
					mutateDoc(pubXML, false)
					mutateDoc(privXML, true)
				}
				// Bases count attribute
				for _, bad := range []string{fmt.Sprintf(`num="%d"`, nb+1), fmt.Sprintf(`num="%d"`, nb-1), `num="-1"`, `num="x"`} {
					d := strings.Replace(pubXML, fmt.Sprintf(`num="%d"`, nb), bad, 1)
					res := tryErr(func() error { _, err := gabikeys.NewPublicKeyFromXML(d); return err })
					check18(s, "pubkey-xml", "Bases", "count:"+bad, res, false, false)
				}
				// unsupported modulus length
				{
					d := elemReplace(pubXML, "n", new(gbig.Int).Rsh(kp.Pk.N, 3).String())
					res := tryErr(func() error { _, err := gabikeys.NewPublicKeyFromXML(d); return err })
					check18(s, "pubkey-xml", "n", "unsupported-length", res, false, false)
					dir := filepath.Join(os.TempDir(), "verif-c18b")
					os.MkdirAll(dir, 0o700)
					fn := filepath.Join(dir, "k.xml")
					os.WriteFile(fn, []byte(d), 0o600)
					res = tryErr(func() error {
						k, err := gabikeys.NewPublicKeyFromFile(fn)
						if err == nil && k.Params == nil {
							return nil
						}
						return err
					})
					check18(s, "pubkey-file", "n", "unsupported-length", res, false, false)
					os.RemoveAll(dir)
				}
				// inconsistent / non-safe primes outside demo mode
				{
					d := elemReplace(privXML, "pPrime", new(gbig.Int).Add(kp.Sk.PPrime, bi(1)).String())
					res := tryErr(func() error { _, err := gabikeys.NewPrivateKeyFromXML(d, false); return err })
					check18(s, "privkey(demo=false)", "pPrime", "inconsistent", res, false, false)
					np := nextPrime(new(gbig.Int).Add(kp.Sk.P, bi(2)), 1)
					for new(gbig.Int).Rsh(np, 1).ProbablyPrime(20) {
						np = nextPrime(new(gbig.Int).Add(np, bi(2)), 1)
					}
					d = elemReplace(elemReplace(privXML, "p", np.String()), "pPrime", new(gbig.Int).Rsh(np, 1).String())
					res = tryErr(func() error { _, err := gabikeys.NewPrivateKeyFromXML(d, false); return err })
					check18(s, "privkey(demo=false)", "p", "non-safe-prime", res, false, false)
				}
				// each of the two primes in turn: a prime that is not safe, a composite with a prime half, a composite with a
				// composite half -- always with the consistent half (x-1)/2, so that only the safe-prime test can refuse it
				for _, which := range []string{"p", "q"} {
					base, other := kp.Sk.P, kp.Sk.Q
					if which == "q" {
						base, other = kp.Sk.Q, kp.Sk.P
					}
					half := func(x *gbig.Int) *gbig.Int { return new(gbig.Int).Rsh(x, 1) }
					find := func(ok func(x *gbig.Int) bool) *gbig.Int {
						x := new(gbig.Int).Add(base, bi(2))
						x.SetBit(x, 0, 1)
						for !ok(x) {
							x.Add(x, bi(2))
						}
						return x
					}
					bad := map[string]*gbig.Int{
						"prime-with-composite-half":     find(func(x *gbig.Int) bool { return x.ProbablyPrime(20) && !half(x).ProbablyPrime(20) }),
						"composite-with-prime-half":     find(func(x *gbig.Int) bool { return !x.ProbablyPrime(20) && half(x).ProbablyPrime(20) }),
						"composite-with-composite-half": find(func(x *gbig.Int) bool { return !x.ProbablyPrime(20) && !half(x).ProbablyPrime(20) }),
					}
					for kind, x := range bad {
						d := elemReplace(elemReplace(privXML, which, x.String()), which+"Prime", half(x).String())
						for _, demo := range []bool{false, true} {
							res := tryErr(func() error { _, err := gabikeys.NewPrivateKeyFromXML(d, demo); return err })
							check18(s, fmt.Sprintf("privkey(demo=%v)", demo), which, kind, res, demo, demo)
							vals := map[string]*gbig.Int{"p": kp.Sk.P, "q": kp.Sk.Q}
							vals[which] = x
							safe := func(v *gbig.Int) bool { return v.ProbablyPrime(20) && half(v).ProbablyPrime(20) }
							s.Add(1806, "privkey-doc:"+which+":"+kind, false, L{safe(vals["p"]), safe(vals["q"]), demo, vals["p"], vals["q"], half(vals["p"]), half(vals["q"])}, outOf(res))
						}
						_ = other
					}
				}
			}
		}
	}
	// ---------- (C) protocol messages re-read verify exactly as the originals ----------
	{
		kp := makeKey(256, 0, 6, rng, true)
		sec := newSecret(rng)
		for _, spec := range [][]builderSpec{
			{{kind: "disclose", key: kp, secret: sec, nattr: 4}},
			{{kind: "disclose", key: kp, secret: sec, nattr: 4, ranges: true}},
			{{kind: "disclose", key: kp, secret: sec, nattr: 4, nonrev: true}},
			{{kind: "disclose", key: kp, secret: sec, nattr: 5, nonrev: true, ranges: true}, {kind: "issue", key: kp, secret: sec}},
		} {
			sess := buildSession(spec, rng, false)
			js, err := json.Marshal(sess.List)
			if err != nil {
				s.Violate("C18:message-roundtrip", "proof list does not marshal: "+err.Error(), L{sess.Desc})
				continue
			}
			var back gabi.ProofList
			if err := json.Unmarshal(js, &back); err != nil {
				s.Violate("C18:message-roundtrip", "proof list does not unmarshal: "+err.Error(), L{sess.Desc})
				continue
			}
			js2pre, _ := json.Marshal(back)
			v1 := cloneList(sess.List).Verify(sess.Pks, sess.Context, sess.Nonce, false, nil)
			_, v2, amb := verifyCase(s, "reread:"+sess.Desc, false, sess.Pks, sess.Context, sess.Nonce, false, nil, back)
			s.Nontrivial["msg"+sess.Desc] = true
			if !amb && (v1 != v2 || !v2) {
				s.Violate("C18:message-roundtrip", "re-read proof list verifies differently from the original", L{sess.Desc})
			}
			if string(js2pre) != string(js) {
				s.Violate("C18:message-roundtrip", "second serialisation differs", L{sess.Desc})
			}
		}
		// revocation messages
		h := newRevHistory(kp)
		for i := 0; i < 4; i++ {
			h.revoke(nextPrime(rng.Bits(120), 1))
		}
		u := h.window(1, 4)
		for _, tr := range []string{"json", "cbor"} {
			var back revocation.Update
			var err error
			if tr == "json" {
				b, _ := json.Marshal(u)
				err = json.Unmarshal(b, &back)
			} else {
				b, _ := cbor.Marshal(u, cbor.EncOptions{})
				err = cbor.Unmarshal(b, &back)
			}
			if err != nil {
				s.Violate("C18:message-roundtrip", tr+" update does not unmarshal", L{tr})
				continue
			}
			if _, err := back.Verify(kp.Pk); err != nil {
				s.Violate("C18:message-roundtrip", "re-read update does not verify ("+tr+")", L{tr})
			}
			w := h.issue(0, bi(7919))
			w2 := h.issue(0, bi(7919))
			e1 := w.Update(kp.Pk, cloneUpdate(u))
			e2 := w2.Update(kp.Pk, &back)
			if (e1 == nil) != (e2 == nil) || w.U.Cmp(w2.U) != 0 {
				s.Violate("C18:message-roundtrip", "witness update with re-read update differs ("+tr+")", L{tr})
			}
			// witness round trip
			wb, _ := json.Marshal(w)
			var w3 revocation.Witness
			if err := json.Unmarshal(wb, &w3); err != nil || w3.U.Cmp(w.U) != 0 || w3.E.Cmp(w.E) != 0 || w3.Verify(kp.Pk) != nil {
				s.Violate("C18:message-roundtrip", "witness does not survive JSON", L{tr})
			}
		}
	}
	// ---------- (C') event lists in their compressed transport form, with and without the product ----------
	{
		kp := makeKey(1024, 0, 2, rng, true)
		h := newRevHistory(kp)
		nev := 7
		for i := 0; i < nev; i++ {
			h.revoke(nextPrime(rng.Bits(100+rng.Intn(60)), 1))
		}
		type wireEL struct {
			Index      uint64          `json:"i"`
			ParentHash revocation.Hash `json:"hash"`
			E          []*gbig.Int     `json:"e"`
		}
		smallLeft := 4
		for from := 0; from <= nev; from++ {
			for to := from; to <= nev; to++ {
				for _, tr := range []string{"json", "cbor"} {
					for _, cp := range []bool{true, false} {
						orig := revocation.NewEventList(append([]*revocation.Event{}, h.events[from:to+1]...)...)
						reread := &revocation.EventList{ComputeProduct: cp}
						var w wireEL
						var err, werr error
						if tr == "json" {
							b, _ := json.Marshal(orig)
							err = json.Unmarshal(b, reread)
							werr = json.Unmarshal(b, &w)
						} else {
							b, _ := cbor.Marshal(orig, cbor.EncOptions{})
							err = cbor.Unmarshal(b, reread)
							werr = cbor.Unmarshal(b, &w)
						}
						desc := fmt.Sprintf("%s events %d..%d product=%v", tr, from, to, cp)
						if err != nil || werr != nil {
							s.Violate("C18:eventlist-roundtrip", "event list does not unmarshal: "+desc, L{desc})
							continue
						}
						_, _, prod := reread.VerifFlags()
						es := L{}
						for _, e := range w.E {
							es = append(es, e)
						}
						s.Add(1807, "uncompress:"+tr, smallLeft > 0, L{b2i(cp), L{w.Index, dumpHash(w.ParentHash), es}}, okV(L{dumpEvents(reread.Events), prod}))
						if smallLeft > 0 {
							smallLeft--
						}
						s.Nontrivial["el"+desc] = true
						same := len(reread.Events) == len(orig.Events)
						want := bi(1)
						for i := range orig.Events {
							want.Mul(want, orig.Events[i].E)
							if same && (reread.Events[i].Index != orig.Events[i].Index || reread.Events[i].E.Cmp(orig.Events[i].E) != 0 ||
								!reread.Events[i].ParentHash.Equal(orig.Events[i].ParentHash)) {
								same = false
							}
						}
						if !same {
							s.Violate("C18:eventlist-roundtrip", "re-read event list differs from the original: "+desc, L{desc})
						}
						if cp && (prod == nil || prod.Cmp(want) != 0) {
							s.Violate("C18:eventlist-product", "product of the re-read event list is not the product of its events: "+desc, L{desc})
						}
						if !cp && prod != nil {
							s.Violate("C18:eventlist-product", "product computed although not requested: "+desc, L{desc})
						}
						// meaning: prepended to the newest update, the re-read list updates a witness exactly like the original events
						if to < nev && from >= 1 {
							u2 := h.window(to+1, nev)
							if _, err := u2.Verify(kp.Pk); err != nil {
								panic(err)
							}
							if err := u2.Prepend(reread); err != nil {
								s.Violate("C18:eventlist-roundtrip", "re-read event list cannot be prepended: "+desc+": "+err.Error(), L{desc})
								continue
							}
							wa := h.issue(from-1, bi(7919))
							wb := h.issue(from-1, bi(7919))
							e1 := wa.Update(kp.Pk, h.window(from, nev))
							e2 := wb.Update(kp.Pk, u2)
							if (e1 == nil) != (e2 == nil) || wa.U.Cmp(wb.U) != 0 || e1 != nil {
								s.Violate("C18:eventlist-roundtrip", fmt.Sprintf("witness update through the re-read event list differs from the direct one (%v / %v): %s", e1, e2, desc), L{desc})
							}
						}
					}
				}
			}
		}
		// a list with an empty attribute is refused
		for _, tr := range []string{"json", "cbor"} {
			w := wireEL{Index: 3, ParentHash: h.events[3].ParentHash, E: []*gbig.Int{h.events[3].E, nil, h.events[5].E}}
			reread := &revocation.EventList{ComputeProduct: true}
			var err error
			if tr == "json" {
				b, _ := json.Marshal(w)
				err = json.Unmarshal(b, reread)
			} else {
				b, _ := cbor.Marshal(w, cbor.EncOptions{})
				err = cbor.Unmarshal(b, reread)
			}
			var out V = errV()
			if err == nil {
				_, _, prod := reread.VerifFlags()
				out = okV(L{dumpEvents(reread.Events), prod})
				s.Violate("C18:eventlist-empty-attribute-accepted", "event list with an empty revocation attribute was read ("+tr+")", L{tr})
			}
			s.Add(1807, "uncompress-empty-attribute:"+tr, true, L{1, L{w.Index, dumpHash(w.ParentHash), L{w.E[0], nil, w.E[2]}}}, out)
		}
	}
	// ---------- (D) private key files are never left readable by group or others ----------
	{
		kp := makeKey(1024, 0, 2, rng, false)
		base := filepath.Join(os.TempDir(), "verif-c18-files")
		os.RemoveAll(base)
		os.MkdirAll(base, 0o700)
		type prior struct {
			name string
			mode os.FileMode
			kind string // absent, file, symlink-file, symlink-absent
		}
		priors := []prior{{"absent", 0, "absent"}, {"f0644", 0o644, "file"}, {"f0666", 0o666, "file"}, {"f0400", 0o400, "file"}, {"f0600", 0o600, "file"}, {"f0777", 0o777, "file"},
			{"symlink-to-0644", 0o644, "symlink-file"}, {"symlink-dangling", 0, "symlink-absent"}}
		for _, pr := range priors {
			for _, um := range []int{0, 0o022, 0o077, 0o777, 0o027} {
				for _, force := range []bool{false, true} {
					dir := filepath.Join(base, fmt.Sprintf("%s-%o-%v", pr.name, um, force))
					os.MkdirAll(dir, 0o700)
					fn := filepath.Join(dir, "sk.xml")
					target := filepath.Join(dir, "target.xml")
					old := syscall.Umask(0)
					switch pr.kind {
					case "file":
						os.WriteFile(fn, []byte("old"), pr.mode)
						os.Chmod(fn, pr.mode)
					case "symlink-file":
						os.WriteFile(target, []byte("old"), pr.mode)
						os.Chmod(target, pr.mode)
						os.Symlink(target, fn)
					case "symlink-absent":
						os.Symlink(target, fn)
					}
					syscall.Umask(um)
					_, err := kp.Sk.WriteToFile(fn, force)
					syscall.Umask(old)
					// observe
					final := -1
					written := false
					for _, f := range []string{fn, target} {
						if st, e := os.Stat(f); e == nil {
							data, _ := os.ReadFile(f)
							if bytes.Contains(data, []byte("IssuerPrivateKey")) {
								final = int(st.Mode().Perm())
								written = true
							}
						}
					}
					errC := 0
					if err != nil {
						errC = 1
					}
					kindN := map[string]int{"absent": 0, "file": 1, "symlink-file": 2, "symlink-absent": 3}[pr.kind]
					s.Add(1804, "privkey-file:"+pr.name, true, L{kindN, int(pr.mode), um, force}, L{errC, final})
					s.Nontrivial[fmt.Sprint("file", pr.name, um, force)] = true
					if written && final&0o077 != 0 {
						s.Violate("C18:private-key-file-readable", fmt.Sprintf("private key file left with mode %o (prior %s, umask %o, overwrite %v)", final, pr.name, um, force), L{pr.name, um, force})
					}
					if !written && err == nil {
						s.Violate("C18:private-key-not-written", "WriteToFile reported success but no key file exists", L{pr.name, um, force})
					}
				}
			}
		}
		os.RemoveAll(base)
	}
	s.Notes["rule"] = "integers over boundary byte lengths (0, 2^k, 2^k-1, random to 2100 bits) through text/JSON/XML/binary/CBOR, negatives refused; keys with 1/6/20 bases with and " +
		"without revocation parts written and re-read, every single-element deletion/negation/garbling/emptying of public and private key documents (XML string and file entry " +
		"points, demo and non-demo), base count attribute, unsupported modulus length, inconsistent and non-safe primes; proof lists / updates / witnesses re-read and re-verified; " +
		"private key file matrix prior state x umask x overwrite flag on the real file system"
}

func outOf(res int) V {
	switch res {
	case 0:
		return okV(0)
	case 1:
		return errV()
	}
	return panicV()
}

func elemReplace(doc, name, val string) string {
	re := regexp.MustCompile(`<` + name + `>\d+</` + name + `>`)
	return re.ReplaceAllString(doc, "<"+name+">"+val+"</"+name+">")
}

// check18: a malformed key document must be refused with an error
func check18(s *Suite, entry, elem, kind string, res int, acceptable bool, demo bool) {
	s.Dist[fmt.Sprintf("keydoc:%s:%s:%d", entry, kind, res)]++
	s.Nontrivial[fmt.Sprint(entry, elem, kind)] = true
	if strings.HasPrefix(elem, "Base_") {
		elem = "Base_i"
	}
	switch res {
	case 2:
		s.Violate("C18:key-parse-panicked", fmt.Sprintf("%s panicked on a document with <%s> %s", entry, elem, kind), L{entry, elem, kind})
	case 0:
		if !acceptable {
			s.Violate("C18:malformed-key-accepted", fmt.Sprintf("%s accepted a document with <%s> %s", entry, elem, kind), L{entry, elem, kind})
		}
	}
}
