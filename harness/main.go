package main

import (
	"encoding/json"
	"flag"
	"fmt"
	"os"
	"path/filepath"
	"runtime"
	"sort"
	"strings"
	"sync"

	"github.com/privacybydesign/gabi"
)

// Case is one correspondence case: model function id, input, and the implementation's
// canonical (projected) output.
type Case struct {
	Fn    int
	In    V
	Out   V
	Small bool   // also evaluated inside Coq by vm_compute
	Kind  string // generator / mutation kind, for the measured distribution
}

// Violation is a property-oracle hit on the implementation itself.
type Violation struct {
	What    string `json:"what"`   // stable identifier used by KNOWN_FINDINGS matching
	Detail  string `json:"detail"` // human-readable
	Replay  V      `json:"-"`
	ReplayS string `json:"replay"`
}

type Suite struct {
	Cases      []Case
	Violations []Violation
	Dist       map[string]int
	Notes      map[string]interface{}
	Nontrivial map[string]bool // distinct non-trivial case keys
	mu         sync.Mutex      // Violate and Count may be called from several goroutines
	partial    *os.File        // violations as they are found (survives a crash of the process)
}

func NewSuite() *Suite {
	return &Suite{Violations: []Violation{}, Dist: map[string]int{}, Notes: map[string]interface{}{}, Nontrivial: map[string]bool{}}
}

func (s *Suite) Add(fn int, kind string, small bool, in V, out V) {
	s.Cases = append(s.Cases, Case{Fn: fn, In: in, Out: out, Small: small, Kind: kind})
	s.Dist[kind]++
}

func (s *Suite) Violate(what, detail string, replay V) {
	s.mu.Lock()
	defer s.mu.Unlock()
	rs, ok := replay.(string)
	if !ok {
		rs = S(replay)
	}
	if len(s.Violations) < 200 {
		s.Violations = append(s.Violations, Violation{What: what, Detail: detail, Replay: replay, ReplayS: rs})
		// also on disk at once: a later crash of the process (a panic in a goroutine of the library cannot be recovered)
		// must not lose the failing inputs found so far
		if s.partial != nil {
			if b, err := json.Marshal(map[string]string{"what": what, "detail": detail, "replay": rs}); err == nil {
				s.partial.Write(append(b, '\n'))
				s.partial.Sync()
			}
		}
	} else {
		s.Dist["violations-not-listed(>200)"]++
	}
}

// Count increments a distribution counter (safe from several goroutines).
func (s *Suite) Count(k string) {
	s.mu.Lock()
	s.Dist[k]++
	s.mu.Unlock()
}

type suiteFn func(s *Suite, rng *Rng, tier string)

var suites = map[string]suiteFn{}

func main() {
	seed := flag.Uint64("seed", 1, "seed")
	tier := flag.String("tier", "quick", "quick|thorough")
	out := flag.String("out", "", "output dir")
	flag.Parse()
	if flag.NArg() < 1 || *out == "" {
		fmt.Fprintln(os.Stderr, "usage: harness -seed N -tier T -out DIR <suite>")
		os.Exit(2)
	}
	name := flag.Arg(0)
	if name == "dumpconsts" {
		if err := dumpConsts(*out); err != nil {
			fmt.Fprintln(os.Stderr, err)
			os.Exit(2)
		}
		return
	}
	f, ok := suites[name]
	if !ok {
		fmt.Fprintln(os.Stderr, "unknown suite", name)
		os.Exit(2)
	}
	s := NewSuite()
	os.MkdirAll(*out, 0o755)
	if pf, err := os.Create(filepath.Join(*out, "violations.partial.jsonl")); err == nil {
		s.partial = pf
		defer pf.Close()
	}
	rng := NewRng(*seed)
	func() {
		// an honest operation the suite relies on failed hard: that is a finding about the implementation
		// (or the harness); keep what was gathered and report it with the panic as the replay
		defer func() {
			if r := recover(); r != nil {
				buf := make([]byte, 4096)
				buf = buf[:runtime.Stack(buf, false)]
				s.Violate(name+":operation-panicked", fmt.Sprintf("the suite's run of the implementation panicked: %v", r), L{fmt.Sprint(r), string(buf)})
			}
		}()
		f(s, rng, *tier)
	}()
	// package-level integer constants of the library must still hold their values: an operation that wrote a result into one
	// of them (an aliased 'constant one', say) corrupts every later computation in the process
	for cname, pair := range gabi.VerifSentinels() {
		if pair[0] == nil || pair[0].Cmp(pair[1]) != 0 {
			s.Violate(name+":package-constant-overwritten", fmt.Sprintf("after the run of suite %s the package-level constant %s holds %v instead of %v", name, cname, pair[0], pair[1]), L{cname})
		}
	}
	if err := s.write(*out); err != nil {
		fmt.Fprintln(os.Stderr, err)
		os.Exit(2)
	}
}

func (s *Suite) write(dir string) error {
	if err := os.MkdirAll(dir, 0o755); err != nil {
		return err
	}
	var cases, small strings.Builder
	distinct := map[string]bool{}
	for _, c := range s.Cases {
		in := S(c.In)
		sm := 0
		if c.Small {
			sm = 1
		}
		fmt.Fprintf(&cases, "%d\t%s\t%s\t%s\t%d\n", c.Fn, in, S(c.Out), c.Kind, sm)
		distinct[fmt.Sprintf("%d|%s", c.Fn, in)] = true
	}
	if err := os.WriteFile(filepath.Join(dir, "cases.tsv"), []byte(cases.String()), 0o644); err != nil {
		return err
	}
	// in-Coq case files, sharded so that the driver can evaluate them in parallel
	smallCases := []Case{}
	for _, c := range s.Cases {
		if c.Small {
			smallCases = append(smallCases, c)
		}
	}
	n := len(smallCases)
	shards := 16
	if n < 16 {
		shards = n
	}
	for k := 0; k < shards && n > 0; k++ {
		small.Reset()
		small.WriteString("From Coq Require Import ZArith List.\nFrom Gabi Require Import Val Dispatch.\nImport ListNotations.\nOpen Scope Z_scope.\n")
		small.WriteString("Definition cases : list (Z * val * val) := [\n")
		first := true
		for i := k; i < n; i += shards {
			c := smallCases[i]
			if !first {
				small.WriteString(";\n")
			}
			first = false
			fmt.Fprintf(&small, "(%d, ", c.Fn)
			coqLit(&small, c.In)
			small.WriteString(", ")
			coqLit(&small, c.Out)
			small.WriteString(")")
		}
		small.WriteString("].\nDefinition M := Eval vm_compute in mismatches cases.\nPrint M.\n")
		if first {
			continue
		}
		if err := os.WriteFile(filepath.Join(dir, fmt.Sprintf("cases_coq_%d.v", k)), []byte(small.String()), 0o644); err != nil {
			return err
		}
	}
	samples := []string{}
	step := len(s.Cases)/5 + 1
	for i := 0; i < len(s.Cases); i += step {
		c := s.Cases[i]
		t := fmt.Sprintf("fn=%d kind=%s in=%s out=%s", c.Fn, c.Kind, S(c.In), S(c.Out))
		if len(t) > 600 {
			t = t[:600] + "..."
		}
		samples = append(samples, t)
	}
	kinds := make([]string, 0, len(s.Dist))
	for k := range s.Dist {
		kinds = append(kinds, k)
	}
	sort.Strings(kinds)
	meta := map[string]interface{}{
		"evaluations":         len(s.Cases),
		"distinct":            len(distinct),
		"distinct_nontrivial": len(s.Nontrivial),
		"in_coq":              n,
		"distribution":        s.Dist,
		"samples":             samples,
		"violations":          s.Violations,
		"notes":               s.Notes,
	}
	b, _ := json.MarshalIndent(meta, "", " ")
	return os.WriteFile(filepath.Join(dir, "meta.json"), b, 0o644)
}

type corpusFile struct {
	name string
	data []byte
}

// corpusFiles returns the committed corpus for a suite (minimised earlier failures).
func corpusFiles(suite string) []corpusFile {
	dir := os.Getenv("VERIF_ROOT")
	if dir == "" {
		dir = "/verif"
	}
	ents, err := os.ReadDir(filepath.Join(dir, "corpus", suite))
	if err != nil {
		return nil
	}
	var out []corpusFile
	for _, e := range ents {
		b, err := os.ReadFile(filepath.Join(dir, "corpus", suite, e.Name()))
		if err == nil {
			out = append(out, corpusFile{e.Name(), b})
		}
	}
	return out
}
