(* C03 — Linked proofs share one secret key: what the verifier enforces. *)
From Coq Require Import ZArith List.
From Gabi Require Import ModArith GoSem ParamsDef ZkProof Keys HashTool RangeProof NonRev Core CoreTotal CoreSound.
Import ListNotations.
Open Scope Z_scope.

(* In an accepted list any two members with the same label (all members when no labelling is
   given) have the same secret-key response, under one common challenge. *)
Theorem label_classes_equal_response :
  forall pks ctx nonce issig labels pl c1 c2,
  prooflist_verify pks ctx nonce issig labels pl c1 c2 = Ok true ->
  forall i j pr pr', nth_error pl i = Some pr -> nth_error pl j = Some pr' ->
    label_at (0 <? length labels)%nat labels i = label_at (0 <? length labels)%nat labels j ->
    secret_key_response pr = secret_key_response pr' /\ challenge_of pr = challenge_of pr'.
Proof. exact label_classes_equal_response_lem. Qed.

(* with no labelling every pair is compared *)
Theorem nil_labels_means_all :
  forall pks ctx nonce issig pl c1 c2,
  prooflist_verify pks ctx nonce issig [] pl c1 c2 = Ok true ->
  forall i j pr pr', nth_error pl i = Some pr -> nth_error pl j = Some pr' ->
    secret_key_response pr = secret_key_response pr'.
Proof. exact nil_labels_means_all_lem. Qed.

(* The secret-key response of a disclosure proof is its response at index 0, and index 0 can
   not simultaneously be disclosed; that of an issuance commitment proof is SResponse, and no
   second response for base R_0 can be supplied through MUserResponses. These are the two
   channels by which colluding holders could equalise responses of different secrets. *)
Theorem secret_response_channel_closed :
  forall pk pr, proof_validate pk pr = true ->
  match pr with
  | PD p => ~ In 0 (keys (pd_ADisc p)) /\ In 0 (keys (pd_AResp p))
  | PU p => ~ In 0 (keys (pu_MUser p))
  end.
Proof. exact secret_response_channel_closed_lem. Qed.
