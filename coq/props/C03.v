(* C03 — Linked proofs share one secret key: what the verifier enforces. *)
From Coq Require Import ZArith List.
From Gabi Require Import ModArith GoSem ParamsDef ZkProof Keys HashTool RangeProof NonRev Core CoreTotal CoreSound SignedPow DiscloseComplete DiscloseExtract.
Import ListNotations.
Open Scope Z_scope.

(* In an accepted list any two members with the same label (all members when no labelling is
   given) have the same secret-key response, under one common challenge. *)
Theorem label_classes_equal_response :
  forall pks ctx nonce issig labels pl c1 c2,
  prooflist_verify pks ctx nonce issig labels pl c1 c2 = Ok true ->
  forall i j pr pr', nth_error pl i = Some pr -> nth_error pl j = Some pr' ->
    label_at (0 <? length labels)%nat labels i = label_at (0 <? length labels)%nat labels j ->
    secret_key_response pr = secret_key_response pr' /\ challenge_of pr = challenge_of pr'.
Proof. exact label_classes_equal_response_lem. Qed.

(* with no labelling every pair is compared *)
Theorem nil_labels_means_all :
  forall pks ctx nonce issig pl c1 c2,
  prooflist_verify pks ctx nonce issig [] pl c1 c2 = Ok true ->
  forall i j pr pr', nth_error pl i = Some pr -> nth_error pl j = Some pr' ->
    secret_key_response pr = secret_key_response pr'.
Proof. exact nil_labels_means_all_lem. Qed.

(* The secret-key response of a disclosure proof is its response at index 0, and index 0 can
   not simultaneously be disclosed; that of an issuance commitment proof is SResponse, and no
   second response for base R_0 can be supplied through MUserResponses. These are the two
   channels by which colluding holders could equalise responses of different secrets. *)
Theorem secret_response_channel_closed :
  forall pk pr, proof_validate pk pr = true ->
  match pr with
  | PD p => ~ In 0 (keys (pd_ADisc p)) /\ In 0 (keys (pd_AResp p))
  | PU p => ~ In 0 (keys (pu_MUser p))
  end.
Proof. exact secret_response_channel_closed_lem. Qed.

(* From equal responses to one secret: the algebraic half of the two-transcript extractor.
   For an issuance commitment, two accepted transcripts (same U, same indices, same reconstructed commitment,
   challenges c > c' > 0) give   S^dv * R_0^ds * prod R_i^(dm_i) = U^(c - c')  mod N   ([extractedU]). *)
Theorem two_transcripts_give_commitment_relation :
  forall pk, wf_pk pk -> forall p p' c c' z,
  pu_U p = pu_U p' -> map fst (pu_MUser p) = map fst (pu_MUser p') ->
  pu_C p = Some c -> pu_C p' = Some c' -> 0 < c' < c ->
  reconstruct_ucommit pk p = Ok z -> reconstruct_ucommit pk p' = Ok z ->
  exists ts, alignedU pk p p' ts /\ extractedU pk p p' c c' ts.
Proof. exact issuance_two_transcripts_lem. Qed.

(* Two disclosure proofs whose secret-key responses (index 0) are equal in both transcripts: in the relations
   extracted for the two credentials (C01.two_transcripts_give_signature_relation) the exponent of R_0 is the same
   number x - x', over the same challenge difference. *)
Theorem linked_disclosures_share_exponent :
  forall pk p1 p1' p2 p2' ts1 ts2 k1 k2 x x',
  aligned pk p1 p1' ts1 -> aligned pk p2 p2' ts2 ->
  nth_error (pd_AResp p1) k1 = Some (0, Some x) -> nth_error (pd_AResp p1') k1 = Some (0, Some x') ->
  nth_error (pd_AResp p2) k2 = Some (0, Some x) -> nth_error (pd_AResp p2') k2 = Some (0, Some x') ->
  exists t1 t2, nth_error ts1 k1 = Some t1 /\ nth_error ts2 k2 = Some t2 /\
    s_b t1 = R_at pk 0 /\ s_b t2 = R_at pk 0 /\
    s_es t1 - s_er t1 = x - x' /\ s_es t2 - s_er t2 = x - x'.
Proof. exact linked_disclosures_share_exponent_lem. Qed.

(* The same for an issuance commitment linked to a disclosure proof: the relation extracted for U carries the
   exponent x - x' on R_0 that the credential's relation carries. *)
Theorem linked_issuance_shares_exponent :
  forall pk p1 p1' ts1 k1 pu pu' x x',
  aligned pk p1 p1' ts1 ->
  nth_error (pd_AResp p1) k1 = Some (0, Some x) -> nth_error (pd_AResp p1') k1 = Some (0, Some x') ->
  pu_S pu = Some x -> pu_S pu' = Some x' ->
  exists t1, nth_error ts1 k1 = Some t1 /\ s_b t1 = R_at pk 0 /\ s_es t1 - s_er t1 = x - x' /\
    forall c c' ts2, extractedU pk pu pu' c c' ts2 ->
      exists u v v', pu_U pu = Some u /\
        sprod (pk_N pk) (fun t => s_es t - s_er t) (tm pk (pk_S pk) v v' :: tm pk (R_at pk 0) x x' :: ts2)
          = powm (pk_N pk) u (c - c').
Proof. exact linked_issuance_shares_exponent_lem. Qed.
