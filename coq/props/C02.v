(* C02 — Proofs verify only in the session they were made for. *)
From Coq Require Import ZArith List.
From Gabi Require Import ModArith GoSem ParamsDef ZkProof Keys HashTool RangeProof NonRev Core CoreTotal CoreSound.
Import ListNotations.
Open Scope Z_scope.

(* Every member of an accepted list carries the one challenge computed over
   context || ordered contributions of all members || nonce, with the session flag. *)
Theorem list_accept :
  forall pks ctx nonce issig labels pl c1 c2,
  prooflist_verify pks ctx nonce issig labels pl c1 c2 = Ok true ->
  exists contribs pl',
    list_contribs pks pl c1 = Ok (contribs, pl') /\
    (forall i pr, nth_error pl i = Some pr ->
       challenge_of pr = Some (create_challenge ctx nonce contribs issig)) /\
    (forall i j pr pr', nth_error pl i = Some pr -> nth_error pl j = Some pr' ->
       label_at (0 <? length labels)%nat labels i = label_at (0 <? length labels)%nat labels j ->
       secret_key_response pr = secret_key_response pr').
Proof. exact list_accept_lem. Qed.

(* Two acceptances that share a challenge value (e.g. share a member proof: replay, splice,
   reorder, drop, duplicate, other key, other nonce/context/flag) have identical hash inputs:
   same context, nonce, flag and the same ordered contribution sequence — or exhibit a concrete
   SHA-256 collision between the two encodings at hand. *)
Theorem session_binding :
  forall pks ctx nonce issig labels pl c1 c2 pks' ctx' nonce' issig' labels' pl' c1' c2' pr pr',
  prooflist_verify pks ctx nonce issig labels pl c1 c2 = Ok true ->
  prooflist_verify pks' ctx' nonce' issig' labels' pl' c1' c2' = Ok true ->
  In pr pl -> In pr' pl' -> challenge_of pr = challenge_of pr' ->
  exists contribs contribs' x x',
    list_contribs pks pl c1 = Ok (contribs, x) /\ list_contribs pks' pl' c1' = Ok (contribs', x') /\
    ((ctx = ctx' /\ nonce = nonce' /\ contribs = contribs' /\ issig = issig') \/
     collision (hash_commit_bytes issig (ctx :: contribs ++ [nonce]))
               (hash_commit_bytes issig' (ctx' :: contribs' ++ [nonce']))).
Proof. exact session_binding_lem. Qed.

Theorem sig_vs_disclosure :
  forall pks ctx nonce labels pl c1 c2 pks' ctx' nonce' labels' pl' c1' c2' pr,
  prooflist_verify pks ctx nonce true labels pl c1 c2 = Ok true ->
  prooflist_verify pks' ctx' nonce' false labels' pl' c1' c2' = Ok true ->
  In pr pl -> In pr pl' ->
  exists contribs contribs',
    collision (hash_commit_bytes true (ctx :: contribs ++ [nonce]))
              (hash_commit_bytes false (ctx' :: contribs' ++ [nonce'])).
Proof. exact sig_vs_disclosure_lem. Qed.

Theorem empty_list_rejected :
  forall pks ctx nonce issig labels c1 c2,
  prooflist_verify pks ctx nonce issig labels [] c1 c2 = Ok false.
Proof. exact empty_list_rejected_lem. Qed.

(* lists must match the key list (and the labelling, when given) in length *)
Theorem list_shape :
  forall pks ctx nonce issig labels pl c1 c2,
  prooflist_verify pks ctx nonce issig labels pl c1 c2 = Ok true ->
  pl <> [] /\ length pl = length pks /\ (labels = [] \/ length labels = length pl) /\
  Forall2 (fun pk pr => proof_validate pk pr = true) pks pl.
Proof. exact accepted_list_is_wellformed_lem. Qed.
