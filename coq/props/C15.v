(* C15 — Fiat-Shamir challenge encoding equals its specification.
   Only statements here; proofs live in theories/. *)
From Coq Require Import ZArith List.
From Gabi Require Import ModArith Bytes Der Sha256 HashTool.
Import ListNotations.
Open Scope Z_scope.

(* The hashed byte string determines marker, count, order and every integer. *)
Theorem hash_commit_bytes_inj : forall b vs b' vs',
  hash_commit_bytes b vs = hash_commit_bytes b' vs' -> b = b' /\ vs = vs'.
Proof. exact hash_commit_bytes_inj_lem. Qed.

(* Different (marker, list) with equal challenge is an explicit SHA-256 collision. *)
Theorem hash_commit_differs : forall b vs b' vs',
  (b, vs) <> (b', vs') -> hash_commit b vs = hash_commit b' vs' ->
  collision (hash_commit_bytes b vs) (hash_commit_bytes b' vs').
Proof. exact hash_commit_differs_lem. Qed.

(* The DER INTEGER encoding decodes back to the integer, for every integer. *)
Theorem der_int_roundtrip : forall z r, dec_int (der_int z ++ r) = Some (z, r).
Proof. exact dec_int_der_int. Qed.

(* The whole encoding decodes back to (marker, list). *)
Theorem hash_commit_decodes : forall b vs, dec_commit (hash_commit_bytes b vs) = Some (b, vs).
Proof. exact dec_commit_roundtrip. Qed.

(* The challenge is an unsigned 256-bit number. *)
Theorem hash_commit_range : forall b vs, 0 <= hash_commit b vs < 2 ^ 256.
Proof. exact hash_commit_range_lem. Qed.

(* createChallenge binds context, nonce, the ordered contributions and the flag. *)
Theorem create_challenge_binds : forall ctx nonce cs sig ctx' nonce' cs' sig',
  create_challenge ctx nonce cs sig = create_challenge ctx' nonce' cs' sig' ->
  (ctx = ctx' /\ nonce = nonce' /\ cs = cs' /\ sig = sig') \/
  collision (hash_commit_bytes sig (ctx :: cs ++ [nonce]))
            (hash_commit_bytes sig' (ctx' :: cs' ++ [nonce'])).
Proof. exact create_challenge_binds_lem. Qed.

(* Hash-to-number expansion: bounded by the number of 256-bit limbs used. *)
Theorem get_hash_number_range : forall a b idx bits, 0 <= bits ->
  0 <= get_hash_number a b idx bits < 2 ^ (256 * ((bits + 255) / 256)).
Proof. exact get_hash_number_range_lem. Qed.

(* non-vacuity / sanity: a concrete non-trivial list, both markers give different bytes *)
Example c15_example :
  hash_commit_bytes true [5; -129; 128] <> hash_commit_bytes false [5; -129; 128] /\
  dec_commit (hash_commit_bytes true [5; -129; 128]) = Some (true, [5; -129; 128]).
Proof. split; [vm_compute; discriminate|vm_compute; reflexivity]. Qed.
