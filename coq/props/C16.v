(* C16 — Generated issuer keys are well-formed. *)
From Coq Require Import ZArith List.
From Gabi Require Import ModArith GoSem MathUtil KeyGen Workers SquareModN.
Import ListNotations.
Open Scope Z_scope.

(* Whatever stream of safe primes the workers deliver, the pair selected by generateSafePrimePair
   consists of two of them, different modulo 8 (hence distinct), with a product of exactly the
   requested length and neither half congruent to 1 modulo 8. *)
Theorem pair_conditions :
  forall ln stream p q,
  select_pair ln [] stream = Some (p, q) ->
  In p stream /\ In q stream /\ bitlen (p * q) = ln /\ p mod 8 <> q mod 8 /\ p <> q /\
  Z.shiftr p 1 mod 8 <> 1 /\ Z.shiftr q 1 mod 8 <> 1.
Proof. exact pair_conditions_lem. Qed.

(* so a key-correctness proof can always be made: the three residue conditions enforced at
   generation imply all six that keyproof.CanProve asks for (safe-prime test as oracle) *)
Theorem can_prove :
  forall safe p q,
  safe p = true -> safe q = true -> Z.odd p = true -> Z.odd q = true ->
  Z.odd (p / 2) = true -> Z.odd (q / 2) = true ->
  p mod 8 <> q mod 8 -> Z.shiftr p 1 mod 8 <> 1 -> Z.shiftr q 1 mod 8 <> 1 ->
  KeyGen.can_prove safe (Z.shiftr p 1) (Z.shiftr q 1) = true.
Proof. exact can_prove_lem. Qed.

(* safeprime.Generate sets the two top bits of its candidates (prepareBytes, C19): the product of two
   such k-bit primes has exactly 2k bits, so candidates of half the modulus length can match *)
Theorem modulus_length :
  forall p q k, 2 <= k ->
  2 ^ (k - 1) + 2 ^ (k - 2) <= p < 2 ^ k -> 2 ^ (k - 1) + 2 ^ (k - 2) <= q < 2 ^ k ->
  2 ^ (2 * k - 1) <= p * q < 2 ^ (2 * k).
Proof. exact safe_prime_product_bitlen_lem. Qed.

(* Bases.  S: accepted only with Euler symbol 1 modulo both safe primes, which makes it a square
   modulo each (p = 2p'+1, p' odd) ... *)
Theorem euler_one_is_square :
  forall p pp a, p = 2 * pp + 1 -> 0 < pp -> Z.odd pp = true -> powm p a pp = 1 ->
  powm p (powm p a ((pp + 1) / 2)) 2 = a mod p.
Proof. exact euler_one_is_square_lem. Qed.

(* ... and therefore, recombined with the Chinese remainder theorem, a square modulo n = p*q ... *)
Theorem s_is_square_mod_n :
  forall p pp q qp s t,
  p = 2 * pp + 1 -> q = 2 * qp + 1 -> 0 < pp -> 0 < qp -> Z.odd pp = true -> Z.odd qp = true ->
  powm p s pp = 1 -> powm q s qp = 1 ->
  crt (powm p s ((pp + 1) / 2)) p (powm q s ((qp + 1) / 2)) q = Ok t ->
  powm (p * q) t 2 = s mod (p * q).
Proof. exact square_mod_product_lem. Qed.

(* ... Z and R_i are powers of S (so they lie in the subgroup it generates) and powers of a square
   are squares ... *)
Theorem base_in_subgroup : forall n s x, n <> 0 -> derive_base n s x = powm n s x.
Proof. exact base_in_subgroup_lem. Qed.

Theorem power_of_square :
  forall n s t x, 0 < n -> 0 <= x -> s mod n = powm n t 2 -> powm n s x = powm n (powm n t x) 2.
Proof. exact power_of_square_lem. Qed.

(* ... G and H are squares of units by construction. *)
Theorem random_qr_is_square : forall n r y, random_qr n r = Some y -> Z.gcd r n = 1 /\ y = powm n r 2.
Proof. exact random_qr_lem. Qed.

(* The supported parameter sets are consistent with MakeDerivedParameters. *)
Theorem params_derived : params_consistent = true.
Proof. exact params_derived_lem. Qed.

(* Stop protocol of the safe-prime workers (repaired protocol): once stop is closed every
   unfinished worker can move, every move strictly decreases the distance to "all done", and no
   worker ever commits to a send it cannot abandon. *)
Theorem no_worker_stuck :
  forall s i w, stopped s = true -> nth_error (ws s) i = Some w -> w <> Done -> w <> Blocked -> can_move false s i = true.
Proof. exact no_worker_stuck_lem. Qed.

Theorem worker_progress :
  forall s s' a, stopped s = true -> (buf s <= cap s)%nat -> pstep false s a = Some s' ->
  stopped s' = true /\ (buf s' <= cap s')%nat /\ (measure s' < measure s)%nat.
Proof. exact worker_progress_lem. Qed.

Theorem never_blocked :
  forall l s s', ~ In Blocked (ws s) -> prun false s l = Some s' -> ~ In Blocked (ws s').
Proof. exact never_blocked_lem. Qed.
