(* C11 — Non-revocation proofs are sound and tied to the credential. *)
From Coq Require Import ZArith List.
From Gabi Require Import ModArith GoSem ParamsDef ZkProof Keys NonRev Core CoreTotal CoreSound NonRevProver NonRevComplete SignedPow ZkComplete ZkExtract.
From GabiGen Require Import Consts.
Import ListNotations.
Open Scope Z_scope.

(* An accepted disclosure proof with a non-revocation part: the embedded accumulator passed the
   issuer-signature check for this key (oracle) and its nu is the one verified against; the
   sub-proof carries the list challenge; the proven witness value alpha equals the response of a
   hidden attribute of this same proof; alpha respects its bound. A transplanted or altered part
   changes the hashed contributions (C02.session_binding) or breaks one of these equalities. *)
Theorem nonrev_accept :
  forall pk p rc ch nr,
  proofD_verify_wc pk p rc ch = Ok true -> pd_nr p = Some nr ->
  exists idx resp a,
    lookup_ptr (pd_AResp p) idx = Some resp /\
    nr_sacc nr = SaccOk a /\ nr_Nu nr = Some (acc_Nu a) /\ nr_Chal nr = Some rc /\
    nr_result nr Salpha = Some resp /\ resp <= rev_bTwoZk.
Proof. exact nonrev_accept_lem. Qed.

(* Refreshing a prepared commitment after a witness update yields exactly the commitments a
   fresh commitment with the same randomness would produce for the updated witness (C_u up to
   reduction modulo N, which Go leaves out): the proof made afterwards is against the NEW
   accumulator, whose nu is the third contribution. *)
Theorem refresh_equals_fresh :
  forall pk u e nu u' nu' r2 r3 ra rb rd re rz l c l' c' l'' c'',
  0 < pk_N pk ->
  nr_commit pk u e nu r2 r3 ra rb rd re rz = Ok (l, c) ->
  nr_refresh pk c l u' nu' = Ok (l', c') ->
  nr_commit pk u' e nu' r2 r3 ra rb rd re rz = Ok (l'', c'') ->
  exists a0 cu a3 a4 a5, l' = [a0; cu; nu'; a3; a4; a5] /\ l'' = [a0; cu mod pk_N pk; nu'; a3; a4; a5].
Proof. exact refresh_equals_fresh_lem. Qed.

(* A commitment is only made for a witness that is valid for the accumulator at hand. *)
Theorem invalid_witness_no_commit :
  forall pk u e nu r2 r3 ra rb rd re rz,
  powx (pk_N pk) u e <> nu -> new_proof_commit pk u e nu r2 r3 ra rb rd re rz = Err.
Proof. exact invalid_witness_no_commit_lem. Qed.

(* Completeness of the non-revocation part: for a commitment made for a witness for which the three proved
   relations hold (NewProofCommit checks them before committing) and whose bases are units, the honest
   responses to ANY challenge make the verifier reconstruct exactly the commitments the prover hashed; so an
   honest proof fails only through the choice of the revocation attribute (known finding). *)
Theorem nonrev_complete :
  forall pk u e nu r2 r3 ra rb rd re rz l c ch resp sacc,
  1 < pk_N pk -> 0 <= ch ->
  nr_commit pk u e nu r2 r3 ra rb rd re rz = Ok (l, c) ->
  nr_build_proof c ch = Ok resp ->
  (forall s, In s [ps_cr; ps_nu; ps_one] -> nr_stmt_true pk c s /\ nr_units pk c s) ->
  nr_challenge_contributions pk (mkNr (Some (nc_cr c)) (Some (nc_cu c)) (Some (nc_nu c)) (Some ch) (Some resp) sacc)
  = Ok (map Some l).
Proof. exact nr_complete_lem. Qed.

(* An accepted non-revocation part has commitments C_r, C_u that are invertible modulo N. Without this check
   C_u = 0 (mod N) made the relation nu = C_u^alpha h^(-beta) vacuous and the holder of a revoked credential
   could forge an accepted proof (found by the cheating prover of the C11 suite, repaired in the repository). *)
Theorem nonrev_commitments_are_units :
  forall pk p choice l p' nr,
  proofD_contrib pk p choice = Ok (l, p') -> pd_nr p = Some nr ->
  exists cr cu, nr_Cr nr = Some cr /\ nr_Cu nr = Some cu /\ Z.gcd cr (pk_N pk) = 1 /\ Z.gcd cu (pk_N pk) = 1.
Proof. exact nonrev_commitments_are_units_lem. Qed.

(* The algebraic half of the knowledge extractor, for every statement of the proof system (in particular the three
   relations of the non-revocation proof and the relations of a range proof): two accepted transcripts with the
   same commitment T and challenges c > c' yield exponents (the response differences, scaled by the public powers)
   that represent lhs^(c - c') over the bases. Whether such a representation can exist for a false statement is the
   strong-RSA assumption and stays outside the model. *)
Theorem two_transcripts_give_representation :
  forall strict n bases res res' c c' s lhs linv ts ts' T,
  1 < n -> 0 <= c' <= c ->
  lhs_fold strict n bases (q_lhs s) 0 1 = Ok lhs -> go_modinverse lhs n = Some linv ->
  resolve_q n bases res (q_rhs s) = Some ts -> resolve_q n bases res' (q_rhs s) = Some ts' ->
  qr_from_proof_gen strict n bases res c s = Ok T ->
  qr_from_proof_gen strict n bases res' c' s = Ok T ->
  exists terms : list sterm,
    map (fun t => (s_b t, s_bi t, s_es t)) terms = ts /\ map (fun t => (s_b t, s_bi t, s_er t)) terms = ts' /\
    sprod n (fun t => s_es t - s_er t) terms = powm n lhs (c - c').
Proof. exact qr_two_transcripts_lem. Qed.
