(* C07 — Proof randomness is never reused. *)
From Coq Require Import ZArith List.
From Gabi Require Import Cache Concurrency.
Import ListNotations.

(* For every history of {prepare cache, update witness, prove with/without non-revocation,
   issuance commitment}: the randomness (supply indices) behind any two produced proofs is
   disjoint.  Randomness is an abstract supply handing out each index once; that the real
   generators behave like that is C20.cprng_disjoint plus the operating system's generator
   (trusted base). *)
Theorem fresh_indices :
  forall ops i j a b, i <> j ->
  nth_error (emitted (run ops)) i = Some a -> nth_error (emitted (run ops)) j = Some b ->
  forall x, In x a -> In x b -> False.
Proof. exact no_randomizer_reuse_lem. Qed.

(* The extractor recovers a hidden value from two responses exactly when their randomizers
   coincide ... *)
Theorem extractor_iff :
  forall r r' m c c' : Z, ((r + c * m) - (r' + c' * m) = (c - c') * m)%Z <-> r = r'.
Proof. exact extractor_iff_lem. Qed.

(* ... hence it fails on every pair of responses from two different proofs of any history. *)
Theorem extractor_fails :
  forall (rnd : nat -> Z) ops i j a b x y m c c',
  (forall u v, rnd u = rnd v -> u = v) -> i <> j ->
  nth_error (emitted (run ops)) i = Some a -> nth_error (emitted (run ops)) j = Some b ->
  In x a -> In y b ->
  ((rnd x + c * m) - (rnd y + c' * m) <> (c - c') * m)%Z.
Proof. exact extractor_fails_lem. Qed.

(* A prepared commitment is consumed by at most one proof: sequentially the cache is empty after
   a proof with non-revocation and the cached builder's randomness is unused ... *)
Theorem builder_consumed : forall s n, cache (step s (Prove true n)) = None.
Proof. exact builder_consumed_lem. Qed.

Theorem cached_builder_unused :
  forall ops b l, cache (run ops) = Some b -> In l (emitted (run ops)) ->
  forall x, In x (b_rand b) -> In x l -> False.
Proof. exact cached_builder_unused_lem. Qed.

(* ... and under every interleaving of the channel operations of any number of preparing and
   proving goroutines no builder is handed to two proofs. *)
Theorem cache_single_consumer : forall progs sched, NoDup (consumed (grun progs sched)).
Proof. exact cache_single_consumer_lem. Qed.
