(* C06 — Issuance: what the holder's acceptance guarantees, for ANY issuer message. *)
From Coq Require Import ZArith List.
From Gabi Require Import ModArith GoSem ParamsDef Keys Core CL Prover DiscloseComplete IssueComplete.
Import ListNotations.
Open Scope Z_scope.

(* A credential is produced only if: the issuer's proof of signature correctness verified for
   this builder's (context, nonce2); the resulting signature (issuer's A, e, v + v', the
   builder's keyshare contribution) verifies over exactly the merged attribute list; the
   witness, if any, verified and its value is one of the attributes. *)
Theorem construct_only_if :
  forall pk is_prime b ctx nonce2 msg attributes win sg ms,
  construct_credential pk is_prime b ctx nonce2 msg attributes win = Ok (sg, ms) ->
  (exists pr s0, im_proof msg = Some pr /\ im_sig msg = Some s0 /\
                 proofS_verify_opt pk pr (Some s0) ctx nonce2 = Ok true /\
                 sig_A sg = sig_A s0 /\ sig_E sg = sig_E s0 /\
                 (exists v, sig_V s0 = Some v /\ sig_V sg = Some (v + cb_vPrime b)) /\
                 sig_KP sg = cb_keyshareP b) /\
  cl_verify pk is_prime sg ms = Ok true /\
  (exists merged, merge_blind (Some (cb_secret b) :: attributes) 0 (cb_mUser b) (im_mIssuer msg) = Ok merged /\
                  merged = map Some ms) /\
  im_witness_ok msg <> Some false /\
  (im_witness_ok msg = Some true -> win = true).
Proof. exact construct_only_if_lem. Qed.

(* The merged list: position k is the holder's own value, except at random-blind positions,
   where the holder's input must be absent and the result is issuer share + user share. *)
Theorem merged_attributes :
  forall mUser mIssuer ms i merged, merge_blind ms i mUser mIssuer = Ok merged ->
  length merged = length ms /\
  forall k a, nth_error ms k = Some a ->
    match lookup mUser (i + Z.of_nat k) with
    | None => nth_error merged k = Some a
    | Some mu => a = None /\ exists mi, lookup_ptr mIssuer (i + Z.of_nat k) = Some mi /\
                                        nth_error merged k = Some (Some (mi + mu))
    end.
Proof. exact merge_blind_spec. Qed.

(* An honest issuance commitment is accepted: the issuer's reconstruction of the user's commitment to the
   randomizers (reconstructUcommit) from the honest responses equals the value the user hashed, for any
   challenge, any secret, any blind attributes; so the recomputed challenge is the proof's challenge. (Without
   a keyshare server; units: S and the bases used are invertible modulo n.) *)
Theorem issuance_commitment_complete :
  forall pk, 1 < pk_N pk ->
  forall secret vPrime vPrimeCommit mUser mc skr c b l,
  unitb pk (pk_S pk) -> in_R pk 0 -> unitb pk (R_at pk 0) ->
  (forall kv, In kv mUser -> in_R pk (fst kv) /\ unitb pk (R_at pk (fst kv))) -> 0 <= c ->
  new_credential_builder pk secret None vPrime vPrimeCommit mUser (mck mc mUser) = Ok b ->
  (forall kv, In kv mUser -> lookup (mck mc mUser) (fst kv) = Some (mc (fst kv))) ->
  cb_commit pk b skr None = Ok l ->
  exists uc, l = [cb_u b; uc] /\ reconstruct_ucommit pk (cb_create_proof b skr c) = Ok uc.
Proof. exact issue_complete_lem. Qed.
