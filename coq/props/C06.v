(* C06 — Issuance: what the holder's acceptance guarantees, for ANY issuer message. *)
From Coq Require Import ZArith List.
From Gabi Require Import ModArith GoSem ParamsDef Keys Core CL Prover.
Import ListNotations.
Open Scope Z_scope.

(* A credential is produced only if: the issuer's proof of signature correctness verified for
   this builder's (context, nonce2); the resulting signature (issuer's A, e, v + v', the
   builder's keyshare contribution) verifies over exactly the merged attribute list; the
   witness, if any, verified and its value is one of the attributes. *)
Theorem construct_only_if :
  forall pk is_prime b ctx nonce2 msg attributes win sg ms,
  construct_credential pk is_prime b ctx nonce2 msg attributes win = Ok (sg, ms) ->
  (exists pr s0, im_proof msg = Some pr /\ im_sig msg = Some s0 /\
                 proofS_verify_opt pk pr (Some s0) ctx nonce2 = Ok true /\
                 sig_A sg = sig_A s0 /\ sig_E sg = sig_E s0 /\
                 (exists v, sig_V s0 = Some v /\ sig_V sg = Some (v + cb_vPrime b)) /\
                 sig_KP sg = cb_keyshareP b) /\
  cl_verify pk is_prime sg ms = Ok true /\
  (exists merged, merge_blind (Some (cb_secret b) :: attributes) 0 (cb_mUser b) (im_mIssuer msg) = Ok merged /\
                  merged = map Some ms) /\
  im_witness_ok msg <> Some false /\
  (im_witness_ok msg = Some true -> win = true).
Proof. exact construct_only_if_lem. Qed.

(* The merged list: position k is the holder's own value, except at random-blind positions,
   where the holder's input must be absent and the result is issuer share + user share. *)
Theorem merged_attributes :
  forall mUser mIssuer ms i merged, merge_blind ms i mUser mIssuer = Ok merged ->
  length merged = length ms /\
  forall k a, nth_error ms k = Some a ->
    match lookup mUser (i + Z.of_nat k) with
    | None => nth_error merged k = Some a
    | Some mu => a = None /\ exists mi, lookup_ptr mIssuer (i + Z.of_nat k) = Some mi /\
                                        nth_error merged k = Some (Some (mi + mu))
    end.
Proof. exact merge_blind_spec. Qed.
