(* C19 — Number-theoretic helpers compute what they claim. *)
From Coq Require Import ZArith List.
From Gabi Require Import ModArith GoSem MathUtil Sqrt.
Import ListNotations.
Open Scope Z_scope.

(* ModInverse: an inverse in (0,n) exactly when gcd(a,n) = 1; absence is reported, not guessed *)
Theorem mod_inverse_spec :
  forall a n, 1 < n ->
  match mod_inverse a n with
  | Some r => 0 < r < n /\ (a * r) mod n = 1 /\ Z.gcd a n = 1
  | None => Z.gcd a n <> 1
  end.
Proof. exact mod_inverse_spec_lem. Qed.

(* big.Int.ModInverse as used by ModPow with negative exponents *)
Theorem go_modinverse_spec :
  forall g n, 0 < n ->
  ((exists x, go_modinverse g n = Some x) <-> Z.gcd g n = 1) /\
  (forall x, go_modinverse g n = Some x -> mulm n g x = 1 mod n /\ 0 <= x < n).
Proof. exact go_modinverse_spec_lem. Qed.

(* CRT recombination (panics on non-coprime moduli) *)
Theorem crt_spec :
  forall a pa b pb x, 0 < pa -> 0 < pb -> crt a pa b pb = Ok x ->
  x mod pa = a mod pa /\ x mod pb = b mod pb /\ 0 <= x < pa * pb.
Proof. exact crt_spec_lem. Qed.

(* Reduction modulo 2^b - c: whenever FastMod.Mod returns within its iteration budget the
   result is x mod p, for negative and huge arguments alike (aliasing is not a case of the
   value-level model; it is exercised by the correspondence suite) ... *)
Theorem fastmod_spec : forall p x y, 1 < p -> fm_mod (fm_set p) x = Some y -> y = x mod p.
Proof. exact fastmod_spec_lem. Qed.

(* ... and the budget suffices on the finite domain p < 130, 0 <= x < 3000 (by computation). *)
Theorem fastmod_total_small : fastmod_total_upto 130 3000 = true.
Proof. exact fastmod_total_small_lem. Qed.

(* Legendre/Jacobi: agreement with Euler's criterion for every odd prime p < 400 and every
   a in [0, 2p) — finite statement; the unbounded claim needs quadratic reciprocity. *)
Theorem legendre_partial : legendre_agrees_upto 400 = true.
Proof. exact legendre_partial_lem. Qed.

(* safe prime recognition, relative to the primality oracle *)
Theorem probably_safe_prime_spec :
  forall is_prime x,
  probably_safe_prime is_prime x = true <-> (2 < x /\ is_prime x = true /\ is_prime (x / 2) = true).
Proof. exact probably_safe_prime_spec_lem. Qed.

(* sizes: candidates of prepareBytes / RandomPrimeInRange on finite domains (by computation),
   and the product of two primes with their top two bits set has exactly twice the bits *)
Theorem prepare_bytes_small : prepare_bytes_ok_small = true.
Proof. exact prepare_bytes_small_lem. Qed.

Theorem rp_candidate_small : rp_candidate_ok_small = true.
Proof. exact rp_candidate_small_lem. Qed.

Theorem safe_prime_product_bitlen :
  forall p q k, 2 <= k ->
  2 ^ (k - 1) + 2 ^ (k - 2) <= p < 2 ^ k -> 2 ^ (k - 1) + 2 ^ (k - 2) <= q < 2 ^ k ->
  2 ^ (2 * k - 1) <= p * q < 2 ^ (2 * k).
Proof. exact safe_prime_product_bitlen_lem. Qed.

(* Square roots.  Whatever PrimeSqrt returns as a root squares to the input modulo p, for every odd modulus p > 1 (no
   primality needed for this direction; for a composite p the function may fail to return, which the model shows as
   running out of fuel) ... *)
Theorem prime_sqrt_sound :
  forall p, 1 < p -> forall a r, 0 <= a -> Z.odd p = true -> prime_sqrt a p = Ok (Some r) -> (r * r) mod p = a mod p.
Proof. exact prime_sqrt_sound_lem. Qed.

(* ... and whatever ModSqrt returns squares to the input modulo the product of the factors (4 or odd numbers above 1; a
   successful Chinese-remainder step implies the factors are coprime). *)
Theorem mod_sqrt_sound :
  forall a factors r, 0 <= a -> Forall good_factor factors -> mod_sqrt a factors = Ok (Some r) ->
  let N := fold_left Z.mul factors 1 in (r * r) mod N = a mod N.
Proof. exact mod_sqrt_sound_lem. Qed.
