(* C18 — Serialisation round trips preserve meaning; key files stay private. *)
From Coq Require Import ZArith List.
From Gabi Require Import ModArith GoSem Bytes Codec FilePerm KeyDoc Revocation EventList EventListSound.
Import ListNotations.
Open Scope Z_scope.

(* Non-negative integers survive the base64 text encoding used in JSON, for every integer. *)
Theorem text_roundtrip : forall z, 0 <= z -> exists t, marshal_text z = Ok t /\ unmarshal_text t = Ok z.
Proof. exact text_roundtrip_lem. Qed.

(* Negative integers are refused with an error, never altered. *)
Theorem text_refuses_negative : forall z, z < 0 -> marshal_text z = Err.
Proof. exact text_refuses_negative_lem. Qed.

(* Binary encoding (magnitude bytes) round trip. *)
Theorem binary_roundtrip : forall z, 0 <= z -> be_to_Z (be_bytes z) = z.
Proof. exact binary_roundtrip_lem. Qed.

(* A public key document is accepted only if n, Z, S are present non-negative decimals, the
   base list matches its count attribute and holds only non-negative decimals, G/H if present
   are decimals, and the modulus length is supported. *)
Theorem key_parse_refuses :
  forall supported d, parse_pubkey supported d = Ok tt ->
  (exists n z s, d_n d = Value n /\ d_Z d = Value z /\ d_S d = Value s /\ 0 <= n /\ 0 <= z /\ 0 <= s /\
                 In (bitlen n) supported) /\
  d_num d = Some (Z.of_nat (length (d_bases d))) /\
  Forall (fun e => exists b, e = Value b /\ 0 <= b) (d_bases d) /\
  d_G d <> NotDecimal /\ d_H d <> NotDecimal.
Proof. exact parse_pubkey_refuses_lem. Qed.

(* A private key document is accepted only with all four primes present; outside demo mode
   they must be consistent and safe (per the primality oracle). *)
Theorem privkey_parse_refuses :
  forall is_safe demo d, parse_privkey is_safe demo d = Ok tt ->
  exists p q pp qp, d_p d = Value p /\ d_q d = Value q /\ d_pp d = Value pp /\ d_qp d = Value qp /\
    0 <= p /\ 0 <= q /\ 0 <= pp /\ 0 <= qp /\
    (demo = false -> (p - 1) / 2 = pp /\ (q - 1) / 2 = qp /\ is_safe p = true /\ is_safe q = true).
Proof. exact parse_privkey_refuses_lem. Qed.

(* A written public key document (every field) is accepted again. *)
Theorem key_doc_roundtrip :
  forall supported n z s g h bases,
  0 <= n -> 0 <= z -> 0 <= s -> Forall (fun b => 0 <= b) bases -> In (bitlen n) supported ->
  (forall x, g = Some x -> 0 <= x) -> (forall x, h = Some x -> 0 <= x) ->
  parse_pubkey supported
    (mkPubdoc (Value n) (Value z) (Value s)
              (match g with Some x => Value x | None => Missing end)
              (match h with Some x => Value x | None => Missing end)
              (map Value bases) (Some (Z.of_nat (length bases)))) = Ok tt.
Proof. exact key_doc_roundtrip_lem. Qed.

(* Whatever existed at the path before (nothing, a file of any mode, a symlink), whatever the
   umask and the overwrite flag: WriteToFile either fails or leaves the key file without any
   group/other permission bit (relative to the POSIX model in FilePerm.v). *)
Theorem privkey_mode :
  forall p umask force m, 0 <= umask < 512 -> privkey_write p umask force = Some m -> private m.
Proof. exact privkey_mode_lem. Qed.

(* Revocation messages: the compressed transport form of an event list (index and parent hash of the first event
   plus the revocation attributes; JSON and CBOR) loses nothing for a hash chain, and the product computed while
   reading is the product of all its events ... *)
Theorem eventlist_roundtrip :
  forall l, chain l ->
  uncompress false (compress_events l) = Ok (l, None) /\
  exists p, events_product l = Ok p /\ uncompress true (compress_events l) = Ok (l, Some p).
Proof. exact eventlist_roundtrip_lem. Qed.

(* ... every list accepted by EventList.Verify is such a chain (uint64 indices) ... *)
Theorem verified_list_roundtrips :
  forall l h, events_verify l h = Ok tt -> (forall e0 r, l = e0 :: r -> ev_index e0 = u64 (ev_index e0)) -> chain l.
Proof. exact verified_list_roundtrips_lem. Qed.

(* ... whatever compressed list is read, the product field is the product of the attributes read, and the events
   reconstructed always pass the chain verification (so marking them verified is justified). *)
Theorem uncompress_product :
  forall c l p, uncompress true c = Ok (l, p) -> exists q, p = Some q /\ events_product l = Ok q /\ map ev_e l = cel_E c.
Proof. exact uncompress_product_lem. Qed.

Theorem uncompressed_is_chain :
  forall cp c l p first rest,
  uncompress cp c = Ok (l, p) -> l = first :: rest -> chain_ok first rest (ev_index first + 1) = Ok tt.
Proof. exact uncompressed_is_chain_lem. Qed.
