(* C20 — Concurrent use is safe (the part that is logic: channel hand-off and block reservation). *)
From Coq Require Import ZArith List.
From Gabi Require Import Concurrency.
Import ListNotations.
Open Scope Z_scope.

(* The generator never hands the same keystream block to two callers: the reservation is one
   atomic add, so every interleaving of readers is a sequence of reservations, and as long as
   fewer than 2^64 blocks were handed out the reserved intervals are pairwise disjoint ... *)
Theorem cprng_disjoint :
  forall reads c, 0 <= c -> c + total_blocks reads < two64 ->
  ForallOrdPairs interval_disjoint (reservations c reads).
Proof. exact cprng_disjoint_lem. Qed.

(* ... and contiguous (none is skipped either). *)
Theorem cprng_contiguous :
  forall reads c, 0 <= c -> c + total_blocks reads < two64 ->
  fold_left (fun k iv => if fst iv =? k then k + snd iv else -1) (reservations c reads) c = c + total_blocks reads.
Proof. exact cprng_contiguous_lem. Qed.

(* Channel hand-off between NonrevPrepareCache and nonrevConsumeBuilder under every schedule. *)
Theorem cache_single_consumer : forall progs sched, NoDup (consumed (grun progs sched)).
Proof. exact cache_single_consumer_lem. Qed.

Theorem consumed_not_cached :
  forall progs sched b, In b (consumed (grun progs sched)) -> chan (grun progs sched) <> Some b.
Proof. exact consumed_not_cached_lem. Qed.
