(* C01 — Disclosed attribute values are authentic (what acceptance implies). *)
From Coq Require Import ZArith List.
From Gabi Require Import ModArith GoSem ParamsDef ZkProof Keys HashTool RangeProof NonRev Core CoreTotal CoreSound SignedPow DiscloseComplete DiscloseExtract.
From GabiGen Require Import Consts.
Import ListNotations.
Open Scope Z_scope.

(* Acceptance of a disclosure proof implies: the challenge in the proof is the hash of
   (context, A, reconstructed Z, sub-proof contributions, nonce, flag); the proof passed
   structural validation; every hidden-value response and the exponent response lie in the
   protocol's range. *)
Theorem proofD_accept :
  forall pk p ctx nonce issig c1 c2,
  proofD_verify pk p ctx nonce issig c1 c2 = Ok true ->
  exists a z rest,
    pd_A p = Some a /\ reconstruct_z pk p = Ok z /\
    pd_C p = Some (create_challenge ctx nonce (a :: z :: rest) issig) /\
    proofD_validate pk p = true /\
    (forall i r, In (i, r) (pd_AResp p) -> exists x, r = Some x /\ 0 <= x <= 2 ^ (LmCommit (pk_params pk) + 1) - 1) /\
    (exists e, pd_E p = Some e /\ 0 <= e <= 2 ^ (LeCommit (pk_params pk) + 1) - 1).
Proof. exact proofD_accept_lem. Qed.

(* Every index is reported as disclosed or hidden, never both; all indices refer to bases of
   the key; index 0 (the secret) is never disclosed; no value is nil. *)
Theorem accepted_index_sets :
  forall pk p, proofD_validate pk p = true ->
  (forall i r, In (i, r) (pd_AResp p) -> r <> None /\ 0 <= i < Z.of_nat (length (pk_R pk))) /\
  (forall i a, In (i, a) (pd_ADisc p) -> a <> None /\ 1 <= i < Z.of_nat (length (pk_R pk)) /\
                                        ~ In i (keys (pd_AResp p))) /\
  (forall i l, In (i, l) (pd_rp p) -> In i (keys (pd_AResp p)) /\ ~ In None l) /\
  In 0 (keys (pd_AResp p)).
Proof. exact proofD_validate_spec. Qed.

(* A holder who knows the group order can shift a response by multiples of it without changing
   the reconstructed commitment: only the range check stands between such a proof and
   acceptance (see proofD_accept for the range). *)
Theorem reconstruct_z_shift :
  forall pk p ord i r k, wf_pk pk -> bases_order pk ord ->
  0 <= r -> 0 <= k -> 0 <= ord ->
  reconstruct_z pk (with_response p i (r + ord * k)) = reconstruct_z pk (with_response p i r).
Proof. exact reconstruct_z_shift_lem. Qed.

(* The algebraic half of the two-transcript extractor (what "whatever a prover does" reduces to): two accepted
   transcripts of one disclosure - same A, same disclosed values, same hidden indices, same reconstructed
   commitment - with challenges c >= c' yield exponents de = e - e', dv = v - v', da_i = a_i - a_i' with
     A^de * S^dv * prod_{hidden i} R_i^(da_i) = ( Z / (A^(2^(le-1)) * prod_{disclosed j} R_j^(a_j)) )^(c - c')  mod N
   ([extracted], with [known_of] the quotient on the right as the verifier computes it from the disclosed values;
   [aligned] ties the terms position by position to the responses of the two transcripts). The step from here to
   "a CL signature on the disclosed values exists" divides by c - c' and is the strong-RSA argument of CL03. *)
Theorem two_transcripts_give_signature_relation :
  forall pk, wf_pk pk -> forall p p' c c' z,
  0 < Le (pk_params pk) ->
  pd_A p = pd_A p' -> pd_ADisc p = pd_ADisc p' -> map fst (pd_AResp p) = map fst (pd_AResp p') ->
  pd_C p = Some c -> pd_C p' = Some c' -> 0 <= c' <= c ->
  reconstruct_z pk p = Ok z -> reconstruct_z pk p' = Ok z ->
  exists ts, aligned pk p p' ts /\ extracted pk p p' c c' ts.
Proof. exact disclosure_two_transcripts_lem. Qed.
