(* C08 — Verifying untrusted proofs never panics.
   Model: Core.prooflist_verify (prooflist.go ProofList.Verify with ProofD / ProofU members,
   non-revocation and range sub-proofs), every pointer optional, every map key arbitrary.
   [Panic] is the model's image of a Go panic (nil dereference, index out of range, write to
   a nil map). *)
From Coq Require Import ZArith List.
From Gabi Require Import ModArith GoSem ParamsDef ZkProof Keys RangeProof NonRev Core CoreTotal.
From GabiGen Require Import Consts.
Import ListNotations.
Open Scope Z_scope.

(* For well-formed public keys and any list of proofs whose challenge is non-negative (which
   the JSON decoder guarantees: big.Int decoding is unsigned) and whose signed-accumulator check
   itself does not panic (oracle: ECDSA/CBOR library), verification returns a verdict. *)
Theorem prooflist_verify_never_panics :
  forall pks ctx nonce issig labels pl c1 c2,
    Forall wf_pk pks -> Forall proof_ok pl ->
    prooflist_verify pks ctx nonce issig labels pl c1 c2 <> Panic.
Proof. exact prooflist_verify_never_panics_lem. Qed.

(* Acceptance implies that the list is non-empty, matches the keys and labels in length, and
   that every member passed structural validation: i.e. every malformed list is rejected. *)
Theorem accepted_list_is_wellformed :
  forall pks ctx nonce issig labels pl c1 c2,
    prooflist_verify pks ctx nonce issig labels pl c1 c2 = Ok true ->
    pl <> [] /\ length pl = length pks /\ (labels = [] \/ length labels = length pl) /\
    Forall2 (fun pk pr => proof_validate pk pr = true) pks pl.
Proof. exact accepted_list_is_wellformed_lem. Qed.

(* What structural validity of a disclosure proof means: all responses present with indices
   inside the key's bases; disclosed indices inside the bases, never 0, never also hidden;
   range proofs only on hidden indices and never nil; the secret-key response present. *)
Theorem validated_disclosure_proof_shape :
  forall pk p, proofD_validate pk p = true ->
  (forall i r, In (i, r) (pd_AResp p) -> r <> None /\ 0 <= i < Z.of_nat (length (pk_R pk))) /\
  (forall i a, In (i, a) (pd_ADisc p) -> a <> None /\ 1 <= i < Z.of_nat (length (pk_R pk)) /\
                                        ~ In i (keys (pd_AResp p))) /\
  (forall i l, In (i, l) (pd_rp p) -> In i (keys (pd_AResp p)) /\ ~ In None l) /\
  In 0 (keys (pd_AResp p)).
Proof. exact proofD_validate_spec. Qed.

(* Single-proof entry points *)
Theorem proofD_verify_never_panics :
  forall pk p ctx nonce issig c1 c2,
    wf_pk pk -> nonneg_o (pd_C p) -> nr_no_panic p ->
    proofD_verify pk p ctx nonce issig c1 c2 <> Panic.
Proof.
  intros pk p ctx nonce issig c1 c2 Hwf Hc Hn. unfold proofD_verify.
  pose proof (np_proofD_contrib pk p c1 Hwf Hc Hn) as H.
  destruct (proofD_contrib pk p c1) as [[l p']| |] eqn:E; [|discriminate|now elim H].
  apply np_proofD_verify_wc.
  pose proof (proof_contrib_post pk (PD p) c1 l (PD p')) as Hp. cbn in Hp. rewrite E in Hp. now apply Hp.
Qed.

Theorem proofU_verify_never_panics :
  forall pk p ctx nonce, wf_pk pk -> proofU_verify pk p ctx nonce <> Panic.
Proof.
  intros pk p ctx nonce Hwf. unfold proofU_verify.
  pose proof (np_proofU_contrib pk p Hwf) as H.
  destruct (proofU_contrib pk p); [apply np_proofU_verify_wc|discriminate|now elim H].
Qed.

(* hypotheses are satisfiable: a tiny well-formed key and a non-trivial malformed proof that
   the model rejects without panic *)
Definition ex_pk : pubkey :=
  mkPk 77 4 9 None None [16; 23; 25] params_1024 0 false.
Example ex_pk_wf : wf_pkb ex_pk = true. Proof. vm_compute. reflexivity. Qed.
Example ex_reject :
  prooflist_verify [ex_pk] 1 2 false []
    [PD (mkPd (Some 5) (Some 3) None (Some 1) [(0, Some 1); (7, None)] [(1, Some 2)] None [])] 0 0
  = Ok false.
Proof. vm_compute. reflexivity. Qed.
