(* C13 — Every true supported inequality is provable (prover-side statement logic, splitters). *)
From Coq Require Import ZArith List.
From Gabi Require Import ModArith GoSem ParamsDef ZkProof Keys RangeProof RangeSound RangeComplete.
Import ListNotations.
Open Scope Z_scope.

(* The prover refuses a statement exactly when it is false (both signs, three and four
   squares; for three squares the difference it splits is 2 mod 4, hence representable). *)
Theorem prover_accepts_true_statements :
  forall idx sign factor bound nsq ld m s,
  (sign = 1 \/ sign = -1) -> 0 <= factor <= max_int64 -> nsq = 3 \/ nsq = 4 ->
  new_proof_structure idx sign factor bound nsq ld = Ok s ->
  (0 <= delta s m <-> holds sign factor bound m) /\
  (nsq = 3 -> delta s m mod 4 = 2) /\
  rs_n s = nsq /\ rs_ld s = ld /\ rs_index s = idx /\ rs_sign s = sign.
Proof. exact prover_accepts_true_statements_lem. Qed.

(* The proof built for a statement is reported by the library as proving that statement. *)
Theorem built_proof_proves_request :
  forall idx sign factor bound nsq ld s cm c,
  (sign = 1 \/ sign = -1) -> 0 <= factor <= max_int64 -> nsq = 3 \/ nsq = 4 ->
  new_proof_structure idx sign factor bound nsq ld = Ok s ->
  Z.of_nat (length (rc_c cm)) = nsq ->
  proves_statement (build_proof s cm c) sign factor bound = true.
Proof. exact built_proof_proves_request_lem. Qed.

(* Table splitter: whatever it returns squares to the requested value ... *)
Theorem table_split_sound :
  forall limit delta ds, table_split limit delta = Ok ds ->
  exists i j k, ds = [i; j; k] /\ i * i + j * j + k * k = delta.
Proof. exact table_split_sound_lem. Qed.

(* ... and for the table limit 1024 it answers every value 2 mod 4 up to 4*limit+2
   (finite statement, by computation; the bound is part of the statement). *)
Theorem table_split_complete_1024 :
  forall delta, 0 <= delta <= 4 * 1024 + 2 -> delta mod 4 = 2 -> exists ds, table_split 1024 delta = Ok ds.
Proof. exact table_split_complete_1024_lem. Qed.

(* Completeness of the range proof itself: for a true statement whose difference the splitter wrote as a sum of
   squares, what CommitmentsFromSecrets hashes is exactly what the verifier reconstructs from the responses to any
   challenge, for every key whose bases S and R_index are units (exponents of either sign, all sizes). *)
Theorem range_proof_complete :
  forall pk, 1 < pk_N pk ->
  forall s m mr ds drs vs vrs v5r ch l cm r,
  0 <= ch -> 0 <= rs_a s <= max_int64 -> (rs_sign s = 1 \/ rs_sign s = -1) ->
  pk_base pk (BR (rs_index s)) = Some r -> is_unit pk r -> is_unit pk (pk_S pk) ->
  length ds = length drs -> length vs = length vrs -> length ds = length vs ->
  Forall (fun d => 0 <= d) ds -> Forall (fun v => 0 <= v) vs ->
  sumsq ds = delta s m ->
  commitments_from_secrets pk s m mr ds drs vs vrs v5r = Ok (l, cm) ->
  commitments_from_proof pk s (build_proof s cm ch) ch = Ok l.
Proof. exact range_honest_complete_lem. Qed.
