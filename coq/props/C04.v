(* C04 — Selective disclosure is complete and minimal (structural part; the algebraic
   completeness theorem is in C04 once proved, see DESIGN.md). *)
From Coq Require Import ZArith List.
From Gabi Require Import ModArith GoSem ParamsDef Keys Core CL Prover.
Import ListNotations.
Open Scope Z_scope.

(* the complement computed by getUndisclosedAttributes: duplicate-free, exactly the indices in
   [0,n) that are not disclosed; out-of-range disclosed indices make the Go code panic *)
Theorem undisclosed_partition :
  forall disclosed n und, get_undisclosed disclosed n = Ok und ->
  NoDup und /\ (forall i, In i und <-> (0 <= i < n /\ ~ In i disclosed)) /\
  (forall d, In d disclosed -> 0 <= d < n).
Proof. exact undisclosed_partition_lem. Qed.

(* the proof reports exactly the chosen indices with their true values, a response for every
   other index, and nothing else *)
Theorem disclosure_exact :
  forall pk b c p, db_create_proof pk b c = Ok p ->
  keys (pd_ADisc p) = db_disclosed b /\
  keys (pd_AResp p) = db_undisclosed b /\
  (forall i, In i (db_disclosed b) -> lookup_ptr (pd_ADisc p) i = Some (nthZd (db_attrs b) i)) /\
  pd_nr p = None /\ pd_rp p = [].
Proof. exact disclosure_exact_lem. Qed.

(* the timestamp-request contribution carries 0 at every index that was not chosen *)
Theorem timestamp_hides :
  forall b i, 0 <= i < Z.of_nat (length (db_attrs b)) -> ~ In i (db_disclosed b) ->
  nth (Z.to_nat i) (snd (timestamp_contributions b)) 0 = 0.
Proof. exact timestamp_hides_lem. Qed.

(* a response r + c*m is consistent with every other attribute value m' (perfect hiding of the
   response over the integers; the statistical argument over the bounded randomizer is cited) *)
Theorem response_hides : forall r c m m' : Z, exists r', r + c * m = r' + c * m'.
Proof. exact response_hides_lem. Qed.
