(* C04 — Selective disclosure is complete and minimal. *)
From Coq Require Import ZArith List.
From Gabi Require Import ModArith GoSem ParamsDef Keys Core CL Prover DiscloseComplete.
Import ListNotations.
Open Scope Z_scope.

(* the complement computed by getUndisclosedAttributes: duplicate-free, exactly the indices in
   [0,n) that are not disclosed; out-of-range disclosed indices make the Go code panic *)
Theorem undisclosed_partition :
  forall disclosed n und, get_undisclosed disclosed n = Ok und ->
  NoDup und /\ (forall i, In i und <-> (0 <= i < n /\ ~ In i disclosed)) /\
  (forall d, In d disclosed -> 0 <= d < n).
Proof. exact undisclosed_partition_lem. Qed.

(* the proof reports exactly the chosen indices with their true values, a response for every
   other index, and nothing else *)
Theorem disclosure_exact :
  forall pk b c p, db_create_proof pk b c = Ok p ->
  keys (pd_ADisc p) = db_disclosed b /\
  keys (pd_AResp p) = db_undisclosed b /\
  (forall i, In i (db_disclosed b) -> lookup_ptr (pd_ADisc p) i = Some (nthZd (db_attrs b) i)) /\
  pd_nr p = None /\ pd_rp p = [].
Proof. exact disclosure_exact_lem. Qed.

(* the timestamp-request contribution carries 0 at every index that was not chosen *)
Theorem timestamp_hides :
  forall b i, 0 <= i < Z.of_nat (length (db_attrs b)) -> ~ In i (db_disclosed b) ->
  nth (Z.to_nat i) (snd (timestamp_contributions b)) 0 = 0.
Proof. exact timestamp_hides_lem. Qed.

(* a response r + c*m is consistent with every other attribute value m' (perfect hiding of the
   response over the integers; the statistical argument over the bounded randomizer is cited) *)
Theorem response_hides : forall r c m m' : Z, exists r', r + c * m = r' + c * m'.
Proof. exact response_hides_lem. Qed.

(* Completeness: for a valid (randomised) signature on the attribute list, whatever subset is disclosed
   (without repetition), whatever the randomizers and the challenge, the proof CreateProof builds makes the
   verifier's reconstructZ return exactly the commitment Z~ the builder put into the challenge; hence the
   recomputed challenge is the proof's challenge and the honest proof verifies. Units: the bases, A' and Z
   are invertible modulo n (they are for a well-formed key); attribute values are non-negative. *)
Theorem disclosure_complete :
  forall pk, 1 < pk_N pk ->
  forall is_prime sg attrs disclosed und eC vC rand skR c l b' p a e v (rnd : Z -> Z),
  cl_verify pk is_prime sg attrs = Ok true ->
  sig_A sg = Some a -> sig_E sg = Some e -> sig_V sg = Some v -> sig_KP sg = None ->
  get_undisclosed disclosed (Z.of_nat (length attrs)) = Ok und -> NoDup disclosed ->
  unitb pk a -> unitb pk (pk_S pk) -> unitb pk (pk_Z pk) -> (forall i, in_R pk i -> unitb pk (R_at pk i)) ->
  (forall m, In m attrs -> 0 <= m) -> 0 <= c ->
  (forall i, In i und -> lookup (set_rand rand 0 skR) i = Some (rnd i)) ->
  db_commit pk (mkDb sg eC vC rand disclosed und attrs) skR None = Ok (l, b') ->
  db_create_proof pk b' c = Ok p ->
  exists z, l = [a; z] /\ reconstruct_z pk p = Ok z.
Proof. exact disclose_complete_lem. Qed.
