(* C09 — Revocation witnesses track the accumulator through any history. *)
From Coq Require Import ZArith List.
From Gabi Require Import ModArith GoSem Revocation RevocationSound UpdateComplete.
Import ListNotations.
Open Scope Z_scope.

(* Witness.Update, for every witness, update message and cache state: a failed update leaves
   the witness exactly as it was; any update keeps e and never moves the index backwards; a
   successful one that changes u yields a witness valid for the accumulator it now holds. *)
Theorem witness_update_safe :
  forall n w u r w' u', witness_update n w u = (r, w', u') ->
  (r <> UpdOk -> w' = w) /\
  w_E w' = w_E w /\
  ra_Index (w_acc w) <= ra_Index (w_acc w') /\
  (w' = w \/
   (w_U w' = w_U w /\ ra_Index (w_acc w') = ra_Index (w_acc w) /\ ra_Time (w_acc w) < ra_Time (w_acc w')) \/
   (witness_valid n w' (w_acc w') = true /\ ra_Index (w_acc w) < ra_Index (w_acc w'))).
Proof. exact witness_update_safe_lem. Qed.

(* The product an update object hands out is the product of its events from the caller's start
   index, whatever it was asked for before ... *)
Theorem update_product_correct :
  forall u from p u', cache_ok u -> update_product u from = Ok (p, u') ->
  window_product u from = Ok p /\ cache_ok u' /\ up_events u' = up_events u /\ up_sacc u' = up_sacc u.
Proof. exact update_product_correct_lem. Qed.

(* ... and this survives any history of witness updates that share the object. *)
Theorem shared_update_history :
  forall n ws u, cache_ok u ->
  cache_ok (apply_updates n ws u) /\ up_events (apply_updates n ws u) = up_events u.
Proof. exact shared_update_history_lem. Qed.

(* A value that divides the product of the window cannot have gcd 1 with it: revoked is
   reported (the gcd test of Witness.Update fails), never "updated". *)
Theorem revoked_value_fails_gcd :
  forall e p g a b, 1 < e -> (e | p) -> xgcd e p = (g, a, b) -> g <> 1.
Proof. exact xgcd_divides. Qed.

(* Completeness: a valid witness for a value that was not removed follows the accumulator. For an authentic
   update that starts no later than the witness' next index, whose events' product is coprime to the witness'
   value (it was not removed) and whose accumulator is the old one with those values removed
   (nu_new ^ prod = nu_old), Update succeeds and the new witness is valid for the new accumulator. *)
Theorem witness_update_complete :
  forall n, 1 < n ->
  forall w u newAcc first rest prod u' ui nuni,
  update_verify u = Ok newAcc ->
  up_events u = first :: rest ->
  ra_Index (w_acc w) < ra_Index newAcc ->
  ev_index first <= u64 (ra_Index (w_acc w) + 1) ->
  update_product u (u64 (ra_Index (w_acc w) + 1)) = Ok (prod, u') ->
  0 <= w_E w -> 0 <= prod -> Z.gcd (w_E w) prod = 1 ->
  go_modinverse (w_U w) n = Some ui -> go_modinverse (ra_Nu newAcc) n = Some nuni ->
  0 <= ra_Nu newAcc < n ->
  powm n (w_U w) (w_E w) = ra_Nu (w_acc w) ->
  powm n (ra_Nu newAcc) prod = ra_Nu (w_acc w) ->
  exists newU, witness_update n w u = (UpdOk, mkW newU (w_E w) newAcc, u') /\
               powm n newU (w_E w) = ra_Nu newAcc.
Proof. exact witness_update_complete_lem. Qed.
