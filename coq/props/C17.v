(* C17 — Key-correctness proofs accept good keys and reject bad ones. *)
From Coq Require Import ZArith List String.
From Gabi Require Import ModArith GoSem HashTool KeyProof KeyProofSound KeyProofExtract.
Import ListNotations.
Open Scope Z_scope.

(* Good keys are accepted, algebraic core: for EVERY representation statement of the proof tree
   (pedersen commitments, the p/p', q/q', pq = n relations, every step of every exponentiation,
   the primality and bases-are-squares relations), if the statement is true of the prover's
   secrets, every base has order dividing the group order and every response is
   randomizer - secret * challenge modulo the order, then the commitment the verifier
   reconstructs is the one the prover hashed. *)
Theorem rep_complete :
  forall g bs ss rs ps c s ts_s ts_r ts_v,
  1 < gP g -> 0 < gOrd g -> 0 <= c ->
  rep_is_true g bs ss s = Ok true ->
  resolve_rhs g bs ss (r_rhs s) = Some ts_s ->
  resolve_rhs g bs rs (r_rhs s) = Some ts_r ->
  resolve_rhs g bs ps (r_rhs s) = Some ts_v ->
  Forall (fun t => powm (gP g) (fst (fst t)) (gOrd g) = 1 mod gP g) ts_s ->
  (forall i sv rv vv, nth_error ts_s i = Some sv -> nth_error ts_r i = Some rv -> nth_error ts_v i = Some vv ->
                      snd vv mod gOrd g = (snd rv - snd sv * c) mod gOrd g) ->
  rep_from_proof g bs ps c s = rep_from_secrets g bs rs s.
Proof. exact rep_complete_lem. Qed.

(* Range-proof rounds (80 binary challenges): what the verifier derives from a stored response is
   randomizer - bit * secret, for the range secret exactly and for the others modulo the order, so
   each round is an instance of rep_complete; honest responses pass the size check. *)
Theorem range_round_secret :
  forall s bit randomizer secret,
  (range_response_secret s bit randomizer secret - 2 ^ (rs_l2 s + rp_epsilon + 1)) - (if bit then 2 ^ rs_l1 s else 0)
  = randomizer - secret * (if bit then 1 else 0).
Proof. exact range_round_secret_lem. Qed.

Theorem range_round_other :
  forall g bit randomizer secret, 0 < gOrd g ->
  range_response_other g bit randomizer secret mod gOrd g = (randomizer - secret * (if bit then 1 else 0)) mod gOrd g.
Proof. exact range_round_other_lem. Qed.

Theorem range_honest_in_bounds :
  forall s bit randomizer secret,
  0 <= rs_l2 s -> rs_l1 s = 0 ->
  - 2 ^ (rs_l2 s + rp_epsilon) <= randomizer < 2 ^ (rs_l2 s + rp_epsilon) ->
  - 2 ^ rs_l2 s < secret < 2 ^ rs_l2 s ->
  0 <= range_response_secret s bit randomizer secret < 2 ^ (rs_l2 s + rp_epsilon + 2).
Proof. exact range_honest_in_bounds_lem. Qed.

(* Both branches of every OR-composition: a structurally valid step carries two sub-challenges of
   which one determines the other given the outer challenge (only one branch can be simulated),
   and the prover's split c_real = c xor c_simulated is accepted. *)
Theorem or_challenge_forced :
  forall c s p, step_structure_ok c s p = true ->
  exists a b, st_ac p = Some a /\ st_bc p = Some b /\ b = Z.lxor c a.
Proof. exact step_structure_challenges_lem. Qed.

Theorem or_split_valid : forall c a, Z.lxor (Z.lxor c a) a = c.
Proof. exact or_split_valid_lem. Qed.

(* Does not verify against a different modulus or base list: a proof accepted for (n, bases) and
   for (n', bases') forces n = n' and bases = bases', or exhibits an explicit SHA-256 collision. *)
Theorem vk_binds :
  forall n n' bases bases' f1 f2 f3 f1' f2' f3' p,
  vk_verify n bases f1 f2 f3 p = Ok true -> vk_verify n' bases' f1' f2' f3' p = Ok true ->
  (n = n' /\ bases = bases') \/
  exists l l', vk_list n bases p = Ok l /\ vk_list n' bases' p = Ok l' /\ l <> l' /\
               collision (hash_commit_bytes false l) (hash_commit_bytes false l').
Proof. exact vk_binds_lem. Qed.

(* After alteration of any component: the verifier's decision is the structure check, the equality
   of the proof's challenge with the hash of the list reconstructed from the proof, and the
   quasi-safe-prime-product checks - nothing else; every component enters the reconstructed list. *)
Theorem vk_accept_structure :
  forall n bases f1 f2 f3 p,
  vk_verify n bases f1 f2 f3 p = Ok true ->
  vk_structure_ok n bases f1 f2 p = true /\
  exists l c, vk_list n bases p = Ok l /\ vk_challenge p = Some c /\ c = hash_commit false l /\
              qspp_verify n c f3 (vk_qspp p) = Ok true.
Proof. exact vk_accept_structure_lem. Qed.

(* Explicit rejection conditions of the quasi-safe prime product proof: an accepted modulus is
   5 mod 8, 1 mod 3, has no factor below 1024, is not prime, and passed all four component proofs. *)
Theorem qspp_accept :
  forall n c n_prime p,
  qspp_verify n c n_prime p = Ok true ->
  n mod 8 = 5 /\ no_small_factor n = true /\ n_prime = false /\ n mod 3 = 1 /\
  sf_verify n c (q_sf p) = Ok true /\ ppp_verify n c (q_ppp p) = Ok true /\
  dpp_verify n c n_prime (q_dpp p) = Ok true /\ aspp_verify n c (q_aspp p) = Ok true.
Proof. exact qspp_accept_lem. Qed.

Theorem no_small_factor_spec :
  forall n d, no_small_factor n = true -> 2 <= d < minimum_factor -> (d | n) -> False.
Proof. exact no_small_factor_spec_lem. Qed.

(* Completeness of the square-free and disjoint-prime-product rounds for a prover who knows the
   group order: the response x^m with e*m = 1 modulo (a multiple of) the order of x is an e-th root. *)
Theorem root_response_complete :
  forall n ord x e m,
  0 < n -> 0 < ord -> 0 <= e -> 0 <= m -> powm n x ord = 1 mod n -> (e * m) mod ord = 1 mod ord ->
  powm n (powm n x m) e = x mod n.
Proof. exact root_response_complete_lem. Qed.

(* No degenerate commitments (found and repaired: with the Pedersen commitment for q equal to 0 modulo the group prime the
   relations exposing a non-safe factor held vacuously and a forged proof was accepted): every accepted proof's recomputed
   group elements are non-zero modulo the group prime. *)
Theorem vk_commitments_nonzero :
  forall n bases f1 f2 f3 p, vk_verify n bases f1 f2 f3 p = Ok true ->
  exists l, vk_list n bases p = Ok l /\ vk_nonzero n bases p l = Ok true.
Proof. exact vk_commitments_nonzero_lem. Qed.

(* Bad statements are rejected, algebraic core: special soundness WITH the witness, for EVERY representation
   statement of the proof tree. The group has prime order, so the two-transcript relation can be divided by the
   challenge difference: if one commitment T is opened for two challenges c > c' (c - c' invertible modulo the
   group order, inverse u) by responses ps and ps', then the statement IsTrue of the secrets
   u * (response' - response) mod order. Left-hand side and bases are assumed to have order dividing the group
   order. What remains cited is the step from "a cheating prover answers one challenge" to "two challenges"
   (forking / random oracle) and the composition over the proof tree. *)
Theorem rep_special_sound :
  forall g, 1 < gP g -> 0 < gOrd g ->
  forall bs ps ps' c c' u s T lhs ts_v ts_v',
  0 <= c' < c -> 0 <= u -> ((c - c') * u) mod gOrd g = 1 mod gOrd g ->
  lhs_prod g bs (r_lhs s) 1 0 = Ok lhs -> powm (gP g) lhs (gOrd g) = 1 mod gP g ->
  resolve_rhs g bs ps (r_rhs s) = Some ts_v -> resolve_rhs g bs ps' (r_rhs s) = Some ts_v' ->
  Forall (fun t => powm (gP g) (fst (fst t)) (gOrd g) = 1 mod gP g) ts_v ->
  rep_from_proof g bs ps c s = Ok T -> rep_from_proof g bs ps' c' s = Ok T ->
  rep_is_true g bs (extract_env u (gOrd g) ps ps') s = Ok true.
Proof. exact rep_special_sound_lem. Qed.
