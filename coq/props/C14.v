(* C14 — Keyshare protocol: server bound to commitment, both sides agree on the commitments. *)
From Coq Require Import ZArith List.
From Gabi Require Import ModArith GoSem ParamsDef Keys HashTool Core CL Prover Keyshare.
Import ListNotations.
Open Scope Z_scope.

(* The server releases a response only if every key id in the second message is known to it
   and the challenge input of the second message hashes to the value committed in the first;
   challenge and response are then computed from exactly those inputs (context 1 if absent). *)
Theorem server_releases_only_if :
  forall secret randomizer committed recomputed req keys c s,
  keyshare_response secret randomizer committed recomputed req keys = Ok (c, s) ->
  recomputed = committed /\
  (forall i id, In i (kr_inputs req) -> ki_key i = Some id -> exists pk, ks_lookup keys id = Some pk) /\
  exists contribs, ks_contribs keys randomizer (kr_inputs req) = Ok contribs /\
    c = create_challenge (match kr_context req with Some x => x | None => 1 end) (kr_nonce req) contribs (kr_issig req) /\
    s = randomizer + c * secret + kr_user_response req.
Proof. exact server_releases_only_if_lem. Qed.

(* The total commitment the server reconstructs (user commitment times R_0^randomizer) is the
   contribution the user's disclosure builder hashes after merging the server's commitment:
   with equal context, nonce and flag both sides hash the same list. *)
Theorem user_server_commitments_agree :
  forall pk b skr randomizer r0 a z b', 0 < pk_N pk ->
  index_R (pk_R pk) 0 = Ok r0 ->
  db_commit pk b skr None = Ok ([a; z], b') ->
  db_commit pk b skr (Some (powx (pk_N pk) r0 randomizer)) =
    Ok ([a; (z * powx (pk_N pk) r0 randomizer) mod pk_N pk], b').
Proof. exact user_server_commitments_agree_lem. Qed.
