(* C14 — Keyshare protocol: server bound to commitment, both sides agree on the commitments. *)
From Coq Require Import ZArith List.
From Gabi Require Import ModArith GoSem ParamsDef Keys HashTool Core CL Prover Keyshare DiscloseComplete KeyshareComplete IssueComplete KeyshareIssue.
Import ListNotations.
Open Scope Z_scope.

(* The server releases a response only if every key id in the second message is known to it
   and the challenge input of the second message hashes to the value committed in the first;
   challenge and response are then computed from exactly those inputs (context 1 if absent). *)
Theorem server_releases_only_if :
  forall secret randomizer committed recomputed req keys c s,
  keyshare_response secret randomizer committed recomputed req keys = Ok (c, s) ->
  recomputed = committed /\
  (forall i id, In i (kr_inputs req) -> ki_key i = Some id -> exists pk, ks_lookup keys id = Some pk) /\
  exists contribs, ks_contribs keys randomizer (kr_inputs req) = Ok contribs /\
    c = create_challenge (match kr_context req with Some x => x | None => 1 end) (kr_nonce req) contribs (kr_issig req) /\
    s = randomizer + c * secret + kr_user_response req.
Proof. exact server_releases_only_if_lem. Qed.

(* The total commitment the server reconstructs (user commitment times R_0^randomizer) is the
   contribution the user's disclosure builder hashes after merging the server's commitment:
   with equal context, nonce and flag both sides hash the same list. *)
Theorem user_server_commitments_agree :
  forall pk b skr randomizer r0 a z b', 0 < pk_N pk ->
  index_R (pk_R pk) 0 = Ok r0 ->
  db_commit pk b skr None = Ok ([a; z], b') ->
  db_commit pk b skr (Some (powx (pk_N pk) r0 randomizer)) =
    Ok ([a; (z * powx (pk_N pk) r0 randomizer) mod pk_N pk], b').
Proof. exact user_server_commitments_agree_lem. Qed.

(* Completeness of the joint proof: the user commits with the server's commitment R_0^rS merged in and answers the
   challenge; the server adds rS + c*skS to the user's response for the secret; the merged proof is exactly the proof a
   single holder of the joint secret skU + skS would have made with randomizer rU + rS, so the verifier reconstructs the
   hashed commitment -- for every valid signature on the joint secret, disclosed set, randomizers and challenge. *)
Theorem keyshare_joint_complete :
  forall pk, 1 < pk_N pk ->
  forall is_prime sg rest disclosed und eC vC rand c skU skS rU rS a e v r0 l bU' pU pJ ur (rnd : Z -> Z),
  let attrsU := skU :: rest in
  let attrsJ := (skU + skS) :: rest in
  cl_verify pk is_prime (mkSig (sig_A sg) (sig_E sg) (sig_V sg) None) attrsJ = Ok true ->
  sig_A sg = Some a -> sig_E sg = Some e -> sig_V sg = Some v ->
  get_undisclosed disclosed (Z.of_nat (length attrsU)) = Ok und -> NoDup disclosed -> ~ In 0 disclosed ->
  unitb pk a -> unitb pk (pk_S pk) -> unitb pk (pk_Z pk) -> (forall i, in_R pk i -> unitb pk (R_at pk i)) ->
  (forall m, In m attrsJ -> 0 <= m) -> 0 <= skU -> 0 <= skS -> 0 <= rU -> 0 <= rS -> 0 <= c ->
  bitlen skU <= Lm (pk_params pk) -> bitlen (skU + skS) <= Lm (pk_params pk) ->
  index_R (pk_R pk) 0 = Ok r0 ->
  (forall i, In i und -> i <> 0 -> lookup rand i = Some (rnd i)) ->
  db_commit pk (mkDb sg eC vC rand disclosed und attrsU) rU (Some (powx (pk_N pk) r0 rS)) = Ok (l, bU') ->
  db_create_proof pk bU' c = Ok pU ->
  lookup_ptr (pd_AResp pU) 0 = Some ur ->
  merge_proofP_D pU c (rS + c * skS + ur) = Ok pJ ->
  exists z, l = [a; z] /\ reconstruct_z pk pJ = Ok z.
Proof. exact keyshare_joint_complete_lem. Qed.

(* The credential the user stores -- a signature carrying the server's part R_0^skS on the user's share -- verifies
   exactly when the plain signature verifies on the joint secret. *)
Theorem keyshare_signature_is_joint :
  forall pk, 1 < pk_N pk ->
  forall is_prime A E V skU skS rest r0 bs,
  pk_R pk = r0 :: bs -> 0 <= skU -> 0 <= skS ->
  bitlen skU <= Lm (pk_params pk) -> bitlen (skU + skS) <= Lm (pk_params pk) ->
  cl_verify pk is_prime (mkSig A E V (Some (powx (pk_N pk) r0 skS))) (skU :: rest) =
  cl_verify pk is_prime (mkSig A E V None) ((skU + skS) :: rest).
Proof. exact keyshare_signature_is_joint_lem. Qed.

(* The same for issuance: the builder made with the server's P = R_0^skS, its commitment started from the server's
   R_0^rS, and its ProofU merged (MergeProofP) with the server's response rS + c * skS + (rU + c * skU) are the
   commitment and proof of a single holder of skU + skS; the issuer reconstructs the hashed commitment. *)
Theorem keyshare_joint_issuance_complete :
  forall pk, 1 < pk_N pk ->
  forall skU skS rU rS vPrime vPrimeCommit mUser mc c r0 bU l pJ,
  unitb pk (pk_S pk) -> in_R pk 0 -> unitb pk (R_at pk 0) ->
  (forall kv, In kv mUser -> in_R pk (fst kv) /\ unitb pk (R_at pk (fst kv))) ->
  0 <= c -> 0 <= skU -> 0 <= skS -> 0 <= rU -> 0 <= rS ->
  index_R (pk_R pk) 0 = Ok r0 ->
  new_credential_builder pk skU (Some (powx (pk_N pk) r0 skS)) vPrime vPrimeCommit mUser (mck mc mUser) = Ok bU ->
  (forall kv, In kv mUser -> lookup (mck mc mUser) (fst kv) = Some (mc (fst kv))) ->
  cb_commit pk bU rU (Some (powx (pk_N pk) r0 rS)) = Ok l ->
  merge_proofP_U pk (cb_create_proof bU rU c) None c (rS + c * skS + (rU + c * skU)) = Ok pJ ->
  exists uc, l = [cb_u bU; uc] /\ reconstruct_ucommit pk pJ = Ok uc.
Proof. exact keyshare_joint_issuance_complete_lem. Qed.
