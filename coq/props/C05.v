(* C05 — CL signatures: valid ones verify, invalid ones never do. *)
From Coq Require Import ZArith List.
From Gabi Require Import ModArith GoSem ParamsDef Keys Core CL CLCollide.
Import ListNotations.
Open Scope Z_scope.

(* A signature produced by the issuer over any message block (any length up to the number of
   bases, any non-negative sizes: oversized entries are hashed by both sides) verifies.
   Hypotheses: the key's bases have order dividing [ord] (the issuer's p'q'), the exponent e is
   the one the issuer drew (in the interval, prime per the primality oracle). *)
Theorem cl_sign_verify :
  forall pk ord is_prime ms v e sg,
  pk_ord pk ord -> (length ms <= length (pk_R pk))%nat -> Forall (fun m => 0 <= m) ms ->
  0 <= v -> e_start (pk_params pk) <= e <= e_end (pk_params pk) -> 0 < e -> is_prime e = true ->
  cl_sign pk ord 1 ms v e = Ok sg ->
  cl_verify pk is_prime sg ms = Ok true.
Proof. exact cl_sign_verify_lem. Qed.

(* ... and remains valid after any number of randomisations, also when v' becomes negative *)
Theorem cl_randomize_valid :
  forall pk is_prime ms sinv rs sg sg',
  1 < pk_N pk -> 0 < Le (pk_params pk) -> go_modinverse (pk_S pk) (pk_N pk) = Some sinv ->
  sig_KP sg = None -> Forall (fun r => 0 <= r) rs ->
  cl_verify pk is_prime sg ms = Ok true ->
  cl_randomize_list pk sg rs = Ok sg' ->
  cl_verify pk is_prime sg' ms = Ok true.
Proof. exact cl_randomize_list_valid_lem. Qed.

(* Verification succeeds only with e inside [2^(le-1), 2^(le-1)+2^(le'-1)] and prime *)
Theorem cl_verify_side_conditions :
  forall pk is_prime sg ms, cl_verify pk is_prime sg ms = Ok true ->
  exists e, sig_E sg = Some e /\ e_start (pk_params pk) <= e <= e_end (pk_params pk) /\ is_prime e = true.
Proof. exact cl_verify_true_lem. Qed.

(* ... so a signature with e outside the interval or composite never verifies, even when it
   satisfies the signature equation *)
Theorem cl_verify_rejects_bad_e :
  forall pk is_prime sg ms e, sig_E sg = Some e ->
  (e < e_start (pk_params pk) \/ e_end (pk_params pk) < e \/ is_prime e = false) ->
  cl_verify pk is_prime sg ms = Ok false.
Proof. exact cl_verify_rejects_bad_e_lem. Qed.

(* A signature never verifies against a different block, algebraic core: if one signature verifies over two message
   blocks under the same key, the two blocks have the same representation prod R_i^(m_i) modulo N. Two different
   blocks with one representation are a non-trivial relation among the bases, which only the holder of the private
   key can compute (cited). *)
Theorem cl_two_blocks_collide :
  forall pk is_prime sg ms ms',
  1 < pk_N pk -> Z.gcd (pk_Z pk) (pk_N pk) = 1 ->
  cl_verify pk is_prime sg ms = Ok true -> cl_verify pk is_prime sg ms' = Ok true ->
  exists r r', represent_to_pk pk ms = Ok r /\ represent_to_pk pk ms' = Ok r' /\ r mod pk_N pk = r' mod pk_N pk.
Proof. exact cl_two_blocks_collide_lem. Qed.
