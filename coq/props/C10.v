(* C10 — Only authentic revocation updates are accepted. *)
From Coq Require Import ZArith List.
From Gabi Require Import ModArith GoSem Revocation RevocationSound SaccCache.
Import ListNotations.
Open Scope Z_scope.

(* Hash.Equal is equality (a hash that merely shares a prefix is different). *)
Theorem hash_equal_is_equality : forall a b, hash_equal a b = true <-> a = b.
Proof. exact hash_equal_is_equality_lem. Qed.

(* A verified event list: every event complete, first parent hash well-formed, indices
   consecutive from the first (mod 2^64), every parent hash the hash of the previous event, the
   last event's hash the one signed inside the accumulator. *)
Theorem events_verify_shape :
  forall events h, events_verify events h = Ok tt ->
  match events with
  | [] => True
  | first :: rest =>
    Forall (fun ev => ev_e ev <> None) events /\ wf_hash (ev_parent first) /\
    chained first rest (ev_index first + 1) /\
    exists lst b, last_event events = Some lst /\ event_hash_bytes lst = Ok b /\ h = mh_sha256 b /\ wf_hash h
  end.
Proof. exact events_verify_shape_lem. Qed.

(* Two lists accepted against the same signed event hash coincide event by event counted from
   the newest one — an altered, dropped, inserted, reordered or re-indexed event is impossible —
   unless an explicit SHA-256 collision exists. *)
Theorem chain_unique :
  forall l l' h, l <> [] -> l' <> [] -> Forall decoded l -> Forall decoded l' ->
  events_verify l h = Ok tt -> events_verify l' h = Ok tt ->
  some_collision \/
  (forall i ev ev', nth_error (rev l) i = Some ev -> nth_error (rev l') i = Some ev' -> ev = ev').
Proof. exact chain_unique_lem. Qed.

(* Update.Verify succeeds only for a signature-verified accumulator (oracle) whose event hash
   closes the chain. *)
Theorem update_verify_requires :
  forall u acc, update_verify u = Ok acc ->
  up_sacc u = SvOk acc /\ events_verify (up_events u) (ra_EventHash acc) = Ok tt.
Proof. exact update_verify_requires_lem. Qed.

(* Prepend: failure leaves the update unchanged, success leaves a verified chain. *)
Theorem prepend_atomic :
  forall u evs p r u', update_prepend u evs p = (r, u') ->
  (r <> PrepOk -> u' = u) /\
  (r = PrepOk -> evs = [] \/ exists acc, up_sacc u = SvOk acc /\ up_sacc u' = up_sacc u /\
                                          events_verify (up_events u') (ra_EventHash acc) = Ok tt).
Proof. exact prepend_atomic_lem. Qed.

(* The signed accumulator remembers its decoded content once the signature has been verified.  Over every history of
   verification calls on one object (any keys, any order): an accumulator is only ever handed out, or left in the
   cache, if the signature oracle accepted it in that history for a key with the matching counter -- a rejected
   accumulator never becomes accepted later ... *)
Theorem accumulator_cache_sound :
  forall sc calls cache rs final, uv_run sc cache calls = (rs, final) ->
  forall a, In (Ok a) rs \/ final = Some a -> cache = Some a \/ vouched sc calls a.
Proof. exact uv_history_sound_lem. Qed.

(* ... and verifying the same object again with the same key never changes the verdict. *)
Theorem reverification_stable :
  forall sc c k, let '(rs, _) := uv_run sc None (repeat c k) in Forall (fun r => r = uv_fresh sc c) rs.
Proof. exact uv_repeat_stable_lem. Qed.
