(* C12 — Range proofs never establish a false inequality (statement logic). *)
From Coq Require Import ZArith List.
From Gabi Require Import ModArith GoSem ParamsDef Keys RangeProof RangeSound Core CoreTotal CoreSound ZkProof SignedPow ZkComplete ZkExtract.
Import ListNotations.
Open Scope Z_scope.

(* The relation a verified range proof is about (sum of squares = sign*(a*m - k)) implies the
   inequality, over the integers. *)
Theorem relation_implies_inequality :
  forall sign a k m ds,
  fold_right (fun d acc => d * d + acc) 0 ds = sign * (a * m - k) -> holds sign a k m.
Proof. exact relation_implies_inequality_lem. Qed.

(* The verifier only extracts structures from descriptors with sign +-1, factor <= MaxInt64,
   3 or 4 squares, factor 4 for three squares, l_d and K within their limits. *)
Theorem extract_structure_accepts :
  forall ps idx p s, extract_structure ps idx p = Ok s ->
  exists k, rp_K p = Some k /\
    (rp_Sign p = 1 \/ rp_Sign p = -1) /\ rp_A p <= max_int64 /\
    (Z.of_nat (length (rp_Cs p)) = 3 \/ Z.of_nat (length (rp_Cs p)) = 4) /\
    (Z.of_nat (length (rp_Cs p)) = 3 -> rp_A p = 4) /\
    rp_Ld p <= Lm ps /\ bitlen k <= Lm ps + 64 /\
    s = mkRs idx (rp_Sign p) (rp_A p) k (rp_Ld p) (Z.of_nat (length (rp_Cs p))).
Proof. exact extract_structure_ok. Qed.

(* For such descriptors the exponent Go computes with int64 arithmetic is the mathematical one:
   no wrap-around between the factor that is reported and the relation that is verified. *)
Theorem verified_exponent_is_reported_factor :
  forall a sign, 0 <= a < 2 ^ 63 -> (sign = 1 \/ sign = -1) -> m_power a sign = - a * sign.
Proof. exact m_power_exact. Qed.

(* Every statement the library says the proof proves or implies holds for every attribute
   value for which the proof's own relation holds; in particular no uint wrap in the factor. *)
Theorem proves_statement_sound :
  forall p k m sign factor bound,
  accepted_descriptor p k -> 0 <= factor ->
  holds (rp_Sign p) (rp_A p) k m ->
  proves_statement p sign factor bound = true ->
  holds sign factor bound m.
Proof. exact proves_statement_sound_lem. Qed.

(* ... and so does the statement ProvenStatement reports, for arbitrary K (not only 2 mod 4). *)
Theorem proven_statement_sound :
  forall p k m sign factor bound,
  accepted_descriptor p k ->
  holds (rp_Sign p) (rp_A p) k m ->
  proven_statement p = Some (sign, factor, bound) ->
  holds sign factor bound m.
Proof. exact proven_statement_sound_lem. Qed.

(* Range proofs carried by a structurally valid disclosure proof sit on hidden indices only
   (never on a disclosed or non-existent index) and none is nil. *)
Theorem carried_range_proofs_on_hidden_indices :
  forall pk p, proofD_validate pk p = true ->
  forall i l, In (i, l) (pd_rp p) -> In i (keys (pd_AResp p)) /\ ~ In None l /\
                                     0 <= i < Z.of_nat (length (pk_R pk)).
Proof. exact carried_range_proofs_on_hidden_indices_lem. Qed.

(* non-vacuity: a concrete accepted descriptor and a value for which its relation holds *)
Example c12_example :
  let p := mkRp [Some 1; Some 1; Some 1] [] [] None None 8 (-1) 4 (Some 10) in
  accepted_descriptor p 10 /\ holds (rp_Sign p) (rp_A p) 10 2 /\
  proves_statement p (-1) 1 2 = true /\ proves_statement p (-1) 4611686018427387905 3 = false.
Proof. exact c12_example_lem. Qed.

(* The algebraic half of the knowledge extractor, for every statement of the proof system (in particular the three
   relations of the non-revocation proof and the relations of a range proof): two accepted transcripts with the
   same commitment T and challenges c > c' yield exponents (the response differences, scaled by the public powers)
   that represent lhs^(c - c') over the bases. Whether such a representation can exist for a false statement is the
   strong-RSA assumption and stays outside the model. *)
Theorem two_transcripts_give_representation :
  forall strict n bases res res' c c' s lhs linv ts ts' T,
  1 < n -> 0 <= c' <= c ->
  lhs_fold strict n bases (q_lhs s) 0 1 = Ok lhs -> go_modinverse lhs n = Some linv ->
  resolve_q n bases res (q_rhs s) = Some ts -> resolve_q n bases res' (q_rhs s) = Some ts' ->
  qr_from_proof_gen strict n bases res c s = Ok T ->
  qr_from_proof_gen strict n bases res' c' s = Ok T ->
  exists terms : list sterm,
    map (fun t => (s_b t, s_bi t, s_es t)) terms = ts /\ map (fun t => (s_b t, s_bi t, s_er t)) terms = ts' /\
    sprod n (fun t => s_es t - s_er t) terms = powm n lhs (c - c').
Proof. exact qr_two_transcripts_lem. Qed.

(* Soundness needs the commitments of a range proof to be invertible modulo N (with C_i = 0 mod N both relations the
   commitment occurs in hold for any responses and any bound; the harness' cheating prover found exactly that forgery in
   the original code): the repaired structure check guarantees it for every accepted proof. *)
Theorem range_commitments_are_units :
  forall pk s p, verify_proof_structure pk s p = true ->
  forall i, In i (zrange (rs_n s)) -> exists c, nth_ptr (rp_Cs p) i = Some c /\ Z.gcd c (pk_N pk) = 1.
Proof. exact range_commitments_are_units_lem. Qed.
