From Coq Require Import ZArith List.
From Coq Require Extraction ExtrOcamlBasic ExtrOcamlZBigInt.
From Gabi Require Import Val Dispatch.
Extraction Language OCaml.
(* bitwise operators on Z: used only by Sha256.v on non-negative 32-bit words *)
Extract Constant Z.land => "Big_int_Z.and_big_int".
Extract Constant Z.lor => "Big_int_Z.or_big_int".
Extract Constant Z.lxor => "Big_int_Z.xor_big_int".
Extraction "model.ml" dispatch.
