From Coq Require Import ZArith List.
From Coq Require Extraction ExtrOcamlBasic ExtrOcamlZBigInt.
From Gabi Require Import Val Dispatch.
From Gabi Require ModArith Sha256 Bytes.
Extraction Language OCaml.
(* bitwise operators on Z: used only by Sha256.v on non-negative 32-bit words *)
Extract Constant Z.land => "Big_int_Z.and_big_int".
Extract Constant Z.lor => "Big_int_Z.or_big_int".
Extract Constant Z.lxor => "Big_int_Z.xor_big_int".
(* modular exponentiation: GMP's powm instead of the extracted square-and-multiply (Zpow_mod);
   same function for every modulus except 0 with a huge exponent, which raises *)
Extract Constant ModArith.powx => "Zhelp.powx".
(* SHA-256 on native machine words; cross-checked against the plain extraction on every run *)
Extract Constant Sha256.sha256_words => "Zhelp.sha256_words".
(* bit length and big-endian bytes of an integer via GMP *)
Extract Constant ModArith.bitlen => "Zhelp.bitlen".
Extract Constant Bytes.be_bytes => "Zhelp.be_bytes".
Extraction "model.ml" dispatch.
