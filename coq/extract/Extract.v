From Coq Require Import ZArith List.
From Coq Require Extraction ExtrOcamlBasic.
From Gabi Require Import Val Dispatch.
Extraction Language OCaml.
Extraction "model.ml" dispatch.
