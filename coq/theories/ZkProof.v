(* zkproof/representationproof.go : QrRepresentationProofStructure, with the base and
   result look-ups abstracted as functions.  Faithful to the Go code in the places where
   failure is silent: a failed base look-up or a failed inversion leaves the destination
   unchanged. *)
From Coq Require Import ZArith List Lia Bool.
From Gabi Require Import Val ModArith GoSem.
Import ListNotations.
Open Scope Z_scope.

Inductive bname := BZ | BS | BG | BH | BR (i : Z) | BC (i : Z) | Bcr | Bcu | Bnu | Bone.
Inductive sname := SM | SV5 | SV (i : Z) | SD (i : Z)
                 | Salpha | Sbeta | Sdelta | Sepsilon | Szeta.

Record rhs := mkRhs { rhs_base : bname; rhs_secret : sname; rhs_power : Z }.
Record qrstruct := mkQr { q_lhs : list (bname * Z); q_rhs : list rhs }.

(* bases.Exp(&ret, name, exp, n): ret keeps its old value when math/big's Exp returns nil
   (negative exponent, base not invertible).  An unknown base is a silent failure (ret kept)
   for look-ups that check for nil (PublicKey, rangeproof.proof), but a nil dereference for
   revocation.proofCommit, whose Exp does not check: [strict] selects that behaviour. *)
Definition exp_into (strict : bool) (n : Z) (bases : bname -> option Z) (prev : Z) (name : bname) (e : Z)
  : outcome Z :=
  match bases name with
  | Some b => Ok (match go_exp b e n with Some v => v | None => prev end)
  | None => if strict then Panic else Ok prev
  end.

Fixpoint lhs_fold (strict : bool) (n : Z) (bases : bname -> option Z) (l : list (bname * Z)) (tmp lhs : Z)
  : outcome Z :=
  match l with
  | [] => Ok lhs
  | (b, pw) :: r =>
    let! tmp' := exp_into strict n bases tmp b pw in
    lhs_fold strict n bases r tmp' ((lhs * tmp') mod n)
  end.

Fixpoint rhs_fold (strict : bool) (n : Z) (bases : bname -> option Z) (res : sname -> option Z)
         (l : list rhs) (contribution commitment : Z) : outcome Z :=
  match l with
  | [] => Ok commitment
  | r :: rest =>
    let! x := deref (res (rhs_secret r)) in
    let! contribution' := exp_into strict n bases contribution (rhs_base r) (rhs_power r * x) in
    rhs_fold strict n bases res rest contribution' ((commitment * contribution') mod n)
  end.

(* representationproof.go:113 QrRepresentationProofStructure.CommitmentsFromProof *)
Definition qr_from_proof_gen (strict : bool) (n : Z) (bases : bname -> option Z) (res : sname -> option Z)
           (challenge : Z) (s : qrstruct) : outcome Z :=
  let! lhs := lhs_fold strict n bases (q_lhs s) 0 1 in
  let lhs' := match go_modinverse lhs n with Some i => i | None => lhs end in
  let! commitment := deref (go_exp lhs' challenge n) in
  rhs_fold strict n bases res (q_rhs s) 0 commitment.
Definition qr_from_proof := qr_from_proof_gen false.

(* representationproof.go:100 QrRepresentationProofStructure.CommitmentsFromSecrets,
   randomizers looked up by name *)
Definition qr_from_secrets_gen (strict : bool) (n : Z) (bases : bname -> option Z) (rnd : sname -> option Z)
           (s : qrstruct) : outcome Z :=
  rhs_fold strict n bases rnd (q_rhs s) 0 1.
Definition qr_from_secrets := qr_from_secrets_gen false.
