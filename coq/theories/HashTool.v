(* internal/common/hashtool.go and proofs.go:createChallenge *)
From Coq Require Import ZArith List Lia Bool.
From Gabi Require Import ModArith Bytes Der Sha256.
Import ListNotations.
Open Scope Z_scope.

(* hashtool.go:15 HashCommit — the bytes that are hashed *)
Definition hash_commit_bytes (issig : bool) (vs : list Z) : list Z :=
  der_seq ((if issig then der_bool_true else [])
           ++ der_int (Z.of_nat (length vs)) ++ concat (map der_int vs)).

Definition hash_commit (issig : bool) (vs : list Z) : Z :=
  sha256_Z (hash_commit_bytes issig vs).

(* hashtool.go:66 IntHashSha256 *)
Definition int_hash_sha256 (bs : list Z) : Z := sha256_Z bs.

(* attribute hashing used by RepresentToBases / reconstructZ / CreateProof:
   exponents longer than lm bits are replaced by the hash of their magnitude bytes *)
Definition attr_exp (lm : Z) (m : Z) : Z :=
  if lm <? bitlen m then int_hash_sha256 (be_bytes m) else m.

(* hashtool.go:41 GetHashNumber.  a, b optional; the loop runs ceil(bitlen/256) times *)
Fixpoint ghn_sum (n : nat) (pre : list Z) (cnt : Z) : Z :=
  match n with
  | O => 0
  | S k => hash_commit false (pre ++ [cnt]) * 2 ^ (256 * cnt) + ghn_sum k pre (cnt + 1)
  end.

Definition opt_list (o : option Z) : list Z := match o with Some x => [x] | None => [] end.

Definition get_hash_number (a b : option Z) (index : Z) (bits : Z) : Z :=
  let pre := opt_list a ++ opt_list b ++ [index] in
  ghn_sum (Z.to_nat ((bits + 255) / 256)) pre 0.

(* proofs.go:27 createChallenge *)
Definition create_challenge (context nonce : Z) (contribs : list Z) (issig : bool) : Z :=
  hash_commit issig (context :: contribs ++ [nonce]).

(* ----- decoder and injectivity ----- *)

Definition dec_commit (l : list Z) : option (bool * list Z) :=
  match l with
  | 48 :: r =>
    match dec_len r with
    | Some (_, body) =>
      let '(b, rest) := match body with
                        | 1 :: 1 :: 255 :: rest => (true, rest)
                        | _ => (false, body)
                        end in
      match dec_int rest with
      | Some (_, rest') =>
        match dec_ints (length rest') rest' with
        | Some zs => Some (b, zs)
        | None => None
        end
      | None => None
      end
    | None => None
    end
  | _ => None
  end.

Lemma length_concat_der_int zs : (length zs <= length (concat (map der_int zs)))%nat.
Proof.
  induction zs as [|z r IH]; [cbn; lia|].
  cbn [map concat]. rewrite app_length. unfold der_int at 1. cbn [length]. cbn [length] in *. lia.
Qed.

Lemma dec_commit_roundtrip b vs : dec_commit (hash_commit_bytes b vs) = Some (b, vs).
Proof.
  unfold hash_commit_bytes, der_seq. cbn [dec_commit].
  rewrite dec_len_der_len by lia.
  destruct b.
  - cbn [der_bool_true app]. rewrite dec_int_der_int.
    rewrite dec_ints_concat by apply length_concat_der_int. reflexivity.
  - cbn [app]. unfold der_int at 1. cbn [app].
    change (2 :: (der_len (Z.of_nat (length (twos (Z.of_nat (length vs)))))
                  ++ twos (Z.of_nat (length vs))) ++ concat (map der_int vs))
      with (der_int (Z.of_nat (length vs)) ++ concat (map der_int vs)).
    rewrite dec_int_der_int.
    rewrite dec_ints_concat by apply length_concat_der_int. reflexivity.
Qed.

Lemma hash_commit_bytes_inj_lem b vs b' vs' :
  hash_commit_bytes b vs = hash_commit_bytes b' vs' -> b = b' /\ vs = vs'.
Proof.
  intros H. pose proof (dec_commit_roundtrip b vs) as H1.
  rewrite H, dec_commit_roundtrip in H1. inversion H1. auto.
Qed.

(* an explicit SHA-256 collision between two given byte strings *)
Definition collision (x y : list Z) : Prop := x <> y /\ sha256_Z x = sha256_Z y.

Lemma hash_commit_differs_lem b vs b' vs' :
  (b, vs) <> (b', vs') -> hash_commit b vs = hash_commit b' vs' ->
  collision (hash_commit_bytes b vs) (hash_commit_bytes b' vs').
Proof.
  intros Hne Heq. split; [|exact Heq].
  intros Hb. apply hash_commit_bytes_inj_lem in Hb as [-> ->]. now apply Hne.
Qed.

Lemma hash_commit_range_lem b vs : 0 <= hash_commit b vs < 2 ^ 256.
Proof. apply sha256_Z_range. Qed.

Lemma challenge_input_inj (ctx nonce : Z) cs ctx' nonce' cs' :
  ctx :: cs ++ [nonce] = ctx' :: cs' ++ [nonce'] -> ctx = ctx' /\ cs = cs' /\ nonce = nonce'.
Proof.
  intros H. injection H as Hc Ht. apply app_inj_tail in Ht as [-> ->]. auto.
Qed.

Lemma create_challenge_binds_lem ctx nonce cs sig ctx' nonce' cs' sig' :
  create_challenge ctx nonce cs sig = create_challenge ctx' nonce' cs' sig' ->
  (ctx = ctx' /\ nonce = nonce' /\ cs = cs' /\ sig = sig') \/
  collision (hash_commit_bytes sig (ctx :: cs ++ [nonce]))
            (hash_commit_bytes sig' (ctx' :: cs' ++ [nonce'])).
Proof.
  intros H. unfold create_challenge in H.
  destruct (list_eq_dec Z.eq_dec (hash_commit_bytes sig (ctx :: cs ++ [nonce]))
                                 (hash_commit_bytes sig' (ctx' :: cs' ++ [nonce']))) as [E|N].
  - left. apply hash_commit_bytes_inj_lem in E as [-> E].
    apply challenge_input_inj in E as [-> [-> ->]]. auto.
  - right. split; assumption.
Qed.

Lemma ghn_sum_range n : forall pre cnt, 0 <= cnt ->
  exists t, ghn_sum n pre cnt = 2 ^ (256 * cnt) * t /\ 0 <= t < 2 ^ (256 * Z.of_nat n).
Proof.
  induction n as [|k IH]; intros pre cnt Hc.
  - exists 0. cbn [ghn_sum]. change (Z.of_nat 0) with 0. rewrite Z.mul_0_r, Z.pow_0_r. lia.
  - cbn [ghn_sum]. destruct (IH pre (cnt + 1) ltac:(lia)) as [t [Ht Hr]].
    pose proof (hash_commit_range_lem false (pre ++ [cnt])) as Hh.
    exists (hash_commit false (pre ++ [cnt]) + 2 ^ 256 * t).
    rewrite Ht. replace (256 * (cnt + 1)) with (256 * cnt + 256) by lia.
    rewrite Z.pow_add_r by lia.
    rewrite Nat2Z.inj_succ. replace (256 * Z.succ (Z.of_nat k)) with (256 + 256 * Z.of_nat k) by lia.
    rewrite Z.pow_add_r by lia.
    set (P := 2 ^ (256 * cnt)) in *. set (Q := 2 ^ (256 * Z.of_nat k)) in *.
    set (h := hash_commit false (pre ++ [cnt])) in *.
    set (B := 2 ^ 256) in *. assert (0 < B) by (subst B; lia). clearbody B.
    split; [ring|]. nia.
Qed.

Lemma get_hash_number_range_lem a b idx bits : 0 <= bits ->
  0 <= get_hash_number a b idx bits < 2 ^ (256 * ((bits + 255) / 256)).
Proof.
  intros Hb. unfold get_hash_number.
  destruct (ghn_sum_range (Z.to_nat ((bits + 255) / 256))
                (opt_list a ++ opt_list b ++ [idx]) 0 ltac:(lia)) as [t [Ht Hr]].
  rewrite Z2Nat.id in Hr by (apply Z.div_pos; lia).
  rewrite Ht. rewrite Z.mul_0_r, Z.pow_0_r, Z.mul_1_l. exact Hr.
Qed.
