(* Small pieces of Go semantics shared by all models: outcomes (normal / error / panic),
   maps as association lists, machine integers with explicit wrap-around. *)
From Coq Require Import ZArith List Lia Bool.
From Gabi Require Import Val ModArith.
Import ListNotations.
Open Scope Z_scope.

Inductive outcome (A : Type) : Type :=
| Ok (a : A)
| Err            (* the Go function returned an error / false *)
| Panic.         (* the Go function panicked *)
Arguments Ok {A} a.
Arguments Err {A}.
Arguments Panic {A}.

Definition obind {A B} (o : outcome A) (f : A -> outcome B) : outcome B :=
  match o with Ok a => f a | Err => Err | Panic => Panic end.
Notation "'let!' x := e 'in' k" := (obind e (fun x => k))
  (at level 200, x pattern, e at level 100, k at level 200, right associativity).

(* dereferencing a possibly-nil pointer *)
Definition deref {A} (o : option A) : outcome A :=
  match o with Some a => Ok a | None => Panic end.

(* an operation that yields nil/error when no inverse exists *)
Definition or_err {A} (o : option A) : outcome A :=
  match o with Some a => Ok a | None => Err end.

(* slice indexing pk.R[i] *)
Definition index_R (l : list Z) (i : Z) : outcome Z :=
  if (0 <=? i) && (i <? Z.of_nat (length l)) then Ok (nth (Z.to_nat i) l 0) else Panic.

(* map lookup m[k] : missing key = zero value (nil pointer) *)
Fixpoint lookup {A} (m : list (Z * A)) (k : Z) : option A :=
  match m with
  | [] => None
  | (k', v) :: r => if k' =? k then Some v else lookup r k
  end.
Definition lookup_ptr (m : list (Z * option Z)) (k : Z) : option Z :=
  match lookup m k with Some v => v | None => None end.

Definition keys {A} (m : list (Z * A)) : list Z := map fst m.

(* machine integers *)
Definition u64 (x : Z) : Z := x mod 18446744073709551616.
Definition i64 (x : Z) : Z := (x + 9223372036854775808) mod 18446744073709551616 - 9223372036854775808.

(* outcome -> val for the wire *)
Definition of_outcome {A} (f : A -> val) (o : outcome A) : val :=
  match o with
  | Ok a => VL [VZ 0; f a]
  | Err => VL [VZ 1]
  | Panic => VL [VZ 2]
  end.

Fixpoint omap {A B} (f : A -> outcome B) (l : list A) : outcome (list B) :=
  match l with
  | [] => Ok []
  | x :: r => let! y := f x in let! ys := omap f r in Ok (y :: ys)
  end.

Lemma omap_ok_length {A B} (f : A -> outcome B) l l' : omap f l = Ok l' -> length l' = length l.
Proof.
  revert l'. induction l as [|x r IH]; intros l' H; cbn in H.
  - now inversion H.
  - destruct (f x); try discriminate. cbn in H. destruct (omap f r) as [ys| |]; try discriminate.
    cbn in H. inversion H. cbn. now rewrite (IH ys).
Qed.
