(* C08: the verification entry points of the (repaired) code never reach a panic branch. *)
From Coq Require Import ZArith List Lia Bool.
From Gabi Require Import Val ModArith GoSem ParamsDef ZkProof Keys Bytes Sha256 HashTool RangeProof NonRev Core.
From GabiGen Require Import Consts.
Import ListNotations.
Open Scope Z_scope.

(* ---------- basic facts ---------- *)

Lemma go_exp_some b e n : 0 < n -> (0 <= e \/ Z.gcd b n = 1) -> exists v, go_exp b e n = Some v.
Proof.
  intros Hn H. unfold go_exp. destruct (Z.ltb_spec e 0) as [Hneg|Hpos]; [|eauto].
  destruct H as [H|H]; [lia|].
  destruct (proj2 (go_modinverse_some_iff b n Hn) H) as [x Hx]. rewrite Hx. eauto.
Qed.

Lemma unit_gcd n x : unit_mod n x -> Z.gcd x n = 1.
Proof. now intros [_ H]. Qed.

Lemma index_R_ok pk lo i : 0 <= lo -> in_range_R pk lo i = true -> exists r, index_R (pk_R pk) i = Ok r /\ In r (pk_R pk).
Proof.
  intros Hlo H. unfold in_range_R in H. apply andb_prop in H as [H1 H2].
  apply Z.leb_le in H1. apply Z.ltb_lt in H2. unfold index_R.
  replace (0 <=? i) with true by (symmetry; apply Z.leb_le; lia).
  replace (i <? Z.of_nat (length (pk_R pk))) with true by (symmetry; now apply Z.ltb_lt).
  cbn. eexists. split; [reflexivity|]. apply nth_In. lia.
Qed.

Lemma wf_pk_N pk : wf_pk pk -> 0 < pk_N pk.
Proof. intros [H _]. lia. Qed.

Lemma wf_pk_R pk r : wf_pk pk -> In r (pk_R pk) -> unit_mod (pk_N pk) r.
Proof. intros [_ [_ [_ [H _]]]] Hin. rewrite Forall_forall in H. now apply H. Qed.

Definition nonneg_o (o : option Z) : Prop := match o with Some x => 0 <= x | None => True end.

Definition np (A : Type) (o : outcome A) : Prop := o <> Panic.
Arguments np {A} o.

Lemma np_bind {A B} (o : outcome A) (f : A -> outcome B) :
  np o -> (forall a, o = Ok a -> np (f a)) -> np (obind o f).
Proof. intros H1 H2. destruct o; cbn; [now apply H2|discriminate|now elim H1]. Qed.

Lemma np_deref {A} (o : option A) : is_some o = true -> np (deref o).
Proof. destruct o; cbn; [discriminate|discriminate]. Qed.

Lemma np_or_err {A} (o : option A) : np (or_err o).
Proof. destruct o; discriminate. Qed.

Lemma np_omap {A B} (f : A -> outcome B) l : (forall x, In x l -> np (f x)) -> np (omap f l).
Proof.
  induction l as [|x r IH]; intros H; cbn; [discriminate|].
  apply np_bind; [apply H; now left|]. intros y _.
  apply np_bind; [apply IH; intros; apply H; now right|]. intros; discriminate.
Qed.

(* ---------- reconstructZ ---------- *)

Lemma np_disclosed_product pk l : wf_pk pk ->
  forallb (fun kv => is_some (snd kv) && in_range_R pk 1 (fst kv)) l = true ->
  forall acc, np (disclosed_product pk l acc).
Proof.
  intros Hwf. induction l as [|[i a] r IH]; intros H acc; cbn [disclosed_product]; [discriminate|].
  cbn [forallb fst snd] in H. apply andb_prop in H as [H1 H2]. apply andb_prop in H1 as [Ha Hi].
  destruct a as [a|]; [|discriminate]. cbn [deref obind].
  destruct (index_R_ok pk 1 i ltac:(lia) Hi) as [b [Hb Hin]]. rewrite Hb. cbn [obind].
  destruct (go_exp_some b (attr_exp (Lm (pk_params pk)) a) (pk_N pk) (wf_pk_N pk Hwf)
              (or_intror (unit_gcd _ _ (wf_pk_R pk b Hwf Hin)))) as [v Hv].
  rewrite Hv. cbn [deref obind]. now apply IH.
Qed.

Lemma np_responses_product pk l lo : 0 <= lo ->
  forallb (fun kv => is_some (snd kv) && in_range_R pk lo (fst kv)) l = true ->
  forall acc, np (responses_product pk l acc).
Proof.
  intros Hlo. induction l as [|[i a] r IH]; intros H acc; cbn [responses_product]; [discriminate|].
  cbn [forallb fst snd] in H. apply andb_prop in H as [H1 H2]. apply andb_prop in H1 as [Ha Hi].
  destruct (index_R_ok pk lo i Hlo Hi) as [b [Hb _]]. rewrite Hb. cbn [obind].
  destruct a as [a|]; [|discriminate]. cbn [deref obind].
  destruct (go_modpow b a (pk_N pk)); cbn; [now apply IH|discriminate].
Qed.

Lemma forallb_weaken {A} (f g : A -> bool) l :
  (forall x, f x = true -> g x = true) -> forallb f l = true -> forallb g l = true.
Proof. intros H. induction l; cbn; [auto|]. intros H1. apply andb_prop in H1 as [? ?]. rewrite H, IHl; auto. Qed.

Lemma validate_parts pk p : proofD_validate pk p = true ->
  is_some (pd_C p) = true /\ is_some (pd_A p) = true /\ is_some (pd_E p) = true /\ is_some (pd_V p) = true /\
  is_some (lookup_ptr (pd_AResp p) 0) = true /\
  forallb (fun kv => is_some (snd kv) && in_range_R pk 0 (fst kv)) (pd_AResp p) = true /\
  forallb (fun kv => is_some (snd kv) && in_range_R pk 1 (fst kv)) (pd_ADisc p) = true /\
  forallb (fun kv => is_some (lookup_ptr (pd_AResp p) (fst kv)) && forallb is_some (snd kv)) (pd_rp p) = true.
Proof.
  unfold proofD_validate. intros H.
  repeat (apply andb_prop in H as [H ?]).
  repeat split; try assumption.
  eapply forallb_weaken; [|eassumption]. intros x Hx. apply andb_prop in Hx as [Hx _]. exact Hx.
Qed.

Lemma np_reconstruct_z pk p : wf_pk pk -> proofD_validate pk p = true -> np (reconstruct_z pk p).
Proof.
  intros Hwf Hv. destruct (validate_parts pk p Hv) as (HC & HA & HE & HV & _ & HR & HD & _).
  unfold reconstruct_z.
  destruct (pd_A p) as [a|]; [|discriminate]. cbn [deref obind].
  apply np_bind; [now apply np_disclosed_product|]. intros num _.
  apply np_bind; [apply np_or_err|]. intros k0 _.
  destruct (pd_C p) as [c|]; [|discriminate]. cbn [deref obind].
  apply np_bind; [apply np_or_err|]. intros kc _.
  destruct (pd_E p) as [e|]; [|discriminate]. cbn [deref obind].
  apply np_bind; [apply np_or_err|]. intros ae _.
  destruct (pd_V p) as [v|]; [|discriminate]. cbn [deref obind].
  apply np_bind; [apply np_or_err|]. intros sv _.
  apply np_bind; [now apply (np_responses_product pk _ 0)|]. intros; discriminate.
Qed.

(* ---------- representation proofs ---------- *)

Lemma np_exp_into strict n bases prev name e :
  (strict = true -> is_some (bases name) = true) -> np (exp_into strict n bases prev name e).
Proof.
  intros H. unfold exp_into. destruct (bases name); [discriminate|].
  destruct strict; [specialize (H eq_refl); discriminate|discriminate].
Qed.

Lemma np_lhs_fold strict n bases l :
  (strict = true -> forall bp, In bp l -> is_some (bases (fst bp)) = true) ->
  forall tmp lhs, np (lhs_fold strict n bases l tmp lhs).
Proof.
  induction l as [|[b pw] r IH]; intros H tmp lhs; cbn [lhs_fold]; [discriminate|].
  apply np_bind.
  - apply np_exp_into. intros Hs. apply (H Hs (b, pw)). now left.
  - intros t _. apply IH. intros Hs bp Hin. apply (H Hs). now right.
Qed.

Lemma np_rhs_fold strict n bases res l :
  (forall r, In r l -> is_some (res (rhs_secret r)) = true) ->
  (strict = true -> forall r, In r l -> is_some (bases (rhs_base r)) = true) ->
  forall c m, np (rhs_fold strict n bases res l c m).
Proof.
  induction l as [|r rest IH]; intros H1 H2 c m; cbn [rhs_fold]; [discriminate|].
  apply np_bind; [apply np_deref, H1; now left|]. intros x _.
  apply np_bind.
  - apply np_exp_into. intros Hs. apply (H2 Hs). now left.
  - intros t _. apply IH; [intros; apply H1; now right|intros Hs r' Hin; apply (H2 Hs); now right].
Qed.

Lemma np_qr_from_proof_gen strict n bases res c s : 0 < n -> 0 <= c ->
  (forall r, In r (q_rhs s) -> is_some (res (rhs_secret r)) = true) ->
  (strict = true -> (forall bp, In bp (q_lhs s) -> is_some (bases (fst bp)) = true) /\
                    (forall r, In r (q_rhs s) -> is_some (bases (rhs_base r)) = true)) ->
  np (qr_from_proof_gen strict n bases res c s).
Proof.
  intros Hn Hc H1 H2. unfold qr_from_proof_gen.
  apply np_bind; [apply np_lhs_fold; intros Hs; apply (H2 Hs)|]. intros lhs _.
  destruct (go_exp_some (match go_modinverse lhs n with Some i => i | None => lhs end) c n Hn (or_introl Hc))
    as [v Hv]. rewrite Hv. cbn [deref obind].
  apply np_rhs_fold; [exact H1|intros Hs; apply (H2 Hs)].
Qed.

(* ---------- range proofs ---------- *)

Lemma blen_ok_some o b : blen_ok o b = true -> is_some o = true.
Proof. destruct o; [reflexivity|discriminate]. Qed.

Lemma in_zrange n i : In i (zrange n) -> 0 <= i < n.
Proof.
  unfold zrange. intros H. apply in_map_iff in H as [k [<- Hk]]. apply in_seq in Hk.
  lia.
Qed.

Lemma vps_results pk s p : verify_proof_structure pk s p = true ->
  is_some (rp_V5 p) = true /\ is_some (rp_M p) = true /\
  forall i, In i (zrange (rs_n s)) ->
    is_some (nth_ptr (rp_Ds p) i) = true /\ is_some (nth_ptr (rp_Vs p) i) = true.
Proof.
  unfold verify_proof_structure. intros H.
  repeat (apply andb_prop in H as [H ?]).
  split; [eapply blen_ok_some; eassumption|]. split; [eapply blen_ok_some; eassumption|].
  intros i Hi. match goal with Hf : forallb _ _ = true |- _ => rewrite forallb_forall in Hf; specialize (Hf i Hi) end.
  repeat match goal with Hf : _ && _ = true |- _ => apply andb_prop in Hf as [? ?] end.
  split; eapply blen_ok_some; eassumption.
Qed.

Lemma np_commitments_from_proof pk s p c : wf_pk pk -> 0 <= c ->
  verify_proof_structure pk s p = true -> np (commitments_from_proof pk s p c).
Proof.
  intros Hwf Hc Hv. destruct (vps_results pk s p Hv) as (H5 & HM & Hi).
  unfold commitments_from_proof.
  apply np_bind.
  - apply np_qr_from_proof_gen; [now apply wf_pk_N|exact Hc| |discriminate].
    intros r Hr. cbn [m_correct q_rhs] in Hr.
    destruct Hr as [<-|[<-|Hr]]; cbn; [exact H5|exact HM|].
    apply in_map_iff in Hr as [i [<- Hin]]. cbn. now apply Hi.
  - intros c0 _. apply np_bind; [|intros; discriminate].
    apply np_omap. intros i Hin. apply np_qr_from_proof_gen; [now apply wf_pk_N|exact Hc| |discriminate].
    intros r Hr. cbn in Hr. destruct Hr as [<-|[<-|[]]]; cbn; now apply Hi.
Qed.

Lemma np_extract_structure ps i p : np (extract_structure ps i p).
Proof.
  unfold extract_structure. destruct (rp_K p); [|discriminate].
  destruct (_ || _); [discriminate|]. unfold new_with_params.
  destruct (4 <? _); [discriminate|]. destruct (max_int64 <? _); [discriminate|]. destruct (negb _); discriminate.
Qed.

Lemma extract_all_keys pk rps structs : extract_all pk rps = Ok structs -> map fst structs = map fst rps.
Proof.
  unfold extract_all. revert structs. induction rps as [|[i l] r IH]; intros structs H; cbn in H.
  - now inversion H.
  - destruct (omap _ l) as [l'| |]; cbn in H; try discriminate.
    destruct (omap _ r) as [r'| |] eqn:E; cbn in H; try discriminate.
    inversion H; subst. cbn. f_equal. now apply IH.
Qed.

Lemma lookup_in_keys {A} (m : list (Z * A)) k v : lookup m k = Some v -> In k (map fst m).
Proof.
  induction m as [|[k' v'] r IH]; cbn; [discriminate|].
  destruct (Z.eqb_spec k' k); [now left|]. intros H. right. now apply IH.
Qed.

Lemma np_range_contrib_index pk p l index c : wf_pk pk -> 0 <= c -> pd_C p = Some c ->
  is_some (lookup_ptr (pd_AResp p) index) = true ->
  np (range_contrib_index pk p (pd_C p) l index).
Proof.
  intros Hwf Hc HC Hm. unfold range_contrib_index.
  apply np_bind; [|intros; discriminate].
  apply np_omap. intros [s rp] _.
  destruct (lookup_ptr (pd_AResp p) index) as [m|]; [|discriminate]. cbn [deref obind].
  destruct (verify_proof_structure _ _ _) eqn:E; cbn [negb]; [|discriminate].
  rewrite HC. cbn [deref obind]. now apply np_commitments_from_proof.
Qed.

Lemma np_range_contrib pk p structs idxs c : wf_pk pk -> 0 <= c -> pd_C p = Some c ->
  (forall k, In k (map fst structs) -> is_some (lookup_ptr (pd_AResp p) k) = true) ->
  np (range_contrib pk p structs idxs).
Proof.
  intros Hwf Hc HC Hk. induction idxs as [|i r IH]; cbn [range_contrib]; [discriminate|].
  destruct (lookup structs i) as [l|] eqn:E; [|exact IH].
  apply np_bind.
  - eapply np_range_contrib_index; eauto. apply Hk. eapply lookup_in_keys; eauto.
  - intros a _. apply np_bind; [exact IH|intros; discriminate].
Qed.

(* ---------- non-revocation ---------- *)

Definition sacc_no_panic (s : sacc_res) : Prop := s <> SaccPanic.

Lemma lookup_map_set_same m k v : lookup (map_set m k v) k = Some v.
Proof.
  induction m as [|[k' v'] r IH]; cbn; [now rewrite Z.eqb_refl|].
  destruct (Z.eqb_spec k' k); cbn; [now rewrite Z.eqb_refl|].
  destruct (Z.eqb_spec k' k); [contradiction|exact IH].
Qed.

Lemma lookup_map_set_other m k v k' : k' <> k -> lookup (map_set m k v) k' = lookup m k'.
Proof.
  intros Hne. induction m as [|[k2 v2] r IH]; cbn.
  - destruct (Z.eqb_spec k k'); [congruence|reflexivity].
  - destruct (Z.eqb_spec k2 k); cbn.
    + subst. destruct (Z.eqb_spec k k'); [congruence|reflexivity].
    + destruct (Z.eqb_spec k2 k'); [reflexivity|exact IH].
Qed.

Lemma set_expected_ok pk nr c resp nr' : set_expected pk nr c resp = Ok nr' ->
  nr_wellformed pk nr c resp = true /\
  nr_Cr nr' = nr_Cr nr /\ nr_Cu nr' = nr_Cu nr /\ is_some (nr_Nu nr') = true /\ nr_Chal nr' = c /\
  nr_sacc nr' = nr_sacc nr /\ (exists a, nr_sacc nr = SaccOk a) /\
  nr_result nr' Salpha = resp /\
  (forall s, s <> Salpha -> sname_key s <> -1 -> nr_result nr' s = nr_result nr s).
Proof.
  unfold set_expected. destruct (nr_wellformed pk nr c resp) eqn:W; cbn [negb]; [|discriminate].
  destruct (nr_sacc nr) as [| | |a] eqn:Es; cbn; try discriminate.
  destruct (nr_resp nr) as [m|] eqn:Em; cbn; [|discriminate].
  intros [= <-]. cbn. repeat split; try reflexivity; eauto.
  - unfold nr_result. cbn. unfold lookup_ptr. now rewrite lookup_map_set_same.
  - intros s Hs Hk. unfold nr_result. cbn. rewrite Em. unfold lookup_ptr.
    rewrite lookup_map_set_other; [reflexivity|]. unfold k_alpha. destruct s; cbn in *; try congruence; lia.
Qed.

Lemma np_set_expected pk nr c resp : sacc_no_panic (nr_sacc nr) -> np (set_expected pk nr c resp).
Proof.
  intros Hs. unfold set_expected. destruct (nr_wellformed pk nr c resp) eqn:W; cbn [negb]; [|discriminate].
  unfold nr_wellformed in W. repeat (apply andb_prop in W as [W ?]).
  destruct (nr_sacc nr); cbn in *; try discriminate; try (now elim Hs).
  destruct (nr_resp nr); cbn in *; discriminate.
Qed.

Lemma np_nr_contributions pk nr c resp nr' ch : wf_pk pk -> 0 <= ch -> c = Some ch ->
  set_expected pk nr c resp = Ok nr' -> np (nr_challenge_contributions pk nr').
Proof.
  intros Hwf Hch -> Hse.
  destruct (set_expected_ok _ _ _ _ _ Hse) as (W & HCr & HCu & HNu & HCh & Hsa & _ & Ha & Hoth).
  unfold nr_wellformed in W. repeat (apply andb_prop in W as [W ?]).
  unfold revocation_supported in W. repeat (apply andb_prop in W as [W ?]).
  unfold nr_challenge_contributions. rewrite HCh. cbn [deref obind].
  assert (Hb : forall b, In b [Bcr; Bcu; Bnu; Bone; BG; BH] ->
               is_some (nr_bases pk (nr_Cr nr') (nr_Cu nr') (nr_Nu nr') b) = true).
  { intros b Hb. unfold nr_bases. rewrite HCr, HCu.
    cbn in Hb. destruct Hb as [<-|[<-|[<-|[<-|[<-|[<-|[]]]]]]]; cbn; auto;
    try (destruct (pk_G pk); [reflexivity|discriminate]);
    try (destruct (pk_H pk); [reflexivity|discriminate]). }
  assert (Hr : forall s, In s [Salpha; Sbeta; Sdelta; Sepsilon; Szeta] -> is_some (nr_result nr' s) = true).
  { intros s Hs. cbn in Hs. destruct Hs as [<-|[<-|[<-|[<-|[<-|[]]]]]];
    [rewrite Ha; assumption| | | |]; (rewrite Hoth; [assumption|discriminate|cbn; lia]). }
  assert (Hq : forall s, (forall bp, In bp (q_lhs s) -> In (fst bp) [Bcr; Bcu; Bnu; Bone; BG; BH]) ->
                         (forall r, In r (q_rhs s) -> In (rhs_base r) [Bcr; Bcu; Bnu; Bone; BG; BH] /\
                                                      In (rhs_secret r) [Salpha; Sbeta; Sdelta; Sepsilon; Szeta]) ->
               np (qr_from_proof_gen true (pk_N pk) (nr_bases pk (nr_Cr nr') (nr_Cu nr') (nr_Nu nr'))
                                     (nr_result nr') ch s)).
  { intros s Hl1 Hl2. apply np_qr_from_proof_gen; [now apply wf_pk_N|exact Hch| |].
    - intros r Hin. apply Hr. now apply Hl2.
    - intros _. split; [intros bp Hin; apply Hb; now apply Hl1|intros r Hin; apply Hb; now apply Hl2]. }
  apply np_bind.
  { apply Hq; cbn; intros x Hin.
    - destruct Hin as [<-|[]]; cbn; auto.
    - destruct Hin as [<-|[<-|[]]]; cbn; split; auto 8. }
  intros c1 _. apply np_bind.
  { apply Hq; cbn; intros x Hin.
    - destruct Hin as [<-|[]]; cbn; auto.
    - destruct Hin as [<-|[<-|[]]]; cbn; split; auto 8. }
  intros c2 _. apply np_bind.
  { apply Hq; cbn; intros x Hin.
    - destruct Hin as [<-|[]]; cbn; auto 8.
    - destruct Hin as [<-|[<-|[<-|[]]]]; cbn; split; auto 8. }
  intros; discriminate.
Qed.

(* ---------- ProofD ---------- *)

Lemma np_rev_candidates l : forallb (fun kv : Z * option Z => is_some (snd kv)) l = true -> np (rev_candidates l).
Proof.
  induction l as [|[i r] rest IH]; cbn; [discriminate|]. intros H. apply andb_prop in H as [H1 H2].
  destruct r; [|discriminate]. cbn. apply np_bind; [now apply IH|]. intros; discriminate.
Qed.

Lemma np_rev_index p ch : forallb (fun kv : Z * option Z => is_some (snd kv)) (pd_AResp p) = true -> np (rev_index p ch).
Proof.
  intros H. unfold rev_index. apply np_bind; [now apply np_rev_candidates|].
  intros c _. destruct c; discriminate.
Qed.

Lemma nr_contrib_shape pk nr cs : nr_challenge_contributions pk nr = Ok cs ->
  exists a b c, cs = [nr_Cr nr; nr_Cu nr; nr_Nu nr; Some a; Some b; Some c].
Proof.
  unfold nr_challenge_contributions. destruct (nr_Chal nr); cbn [deref obind]; [|discriminate].
  repeat match goal with
         | |- context [obind (qr_from_proof_gen ?a ?b ?c ?d ?e ?f) _] =>
           destruct (qr_from_proof_gen a b c d e f); cbn [obind]; try discriminate
         end.
  intros [= <-]. eauto.
Qed.

Lemma np_extract_all pk rps :
  forallb (fun kv : Z * list (option rproof) => forallb is_some (snd kv)) rps = true -> np (extract_all pk rps).
Proof.
  intros H. unfold extract_all. apply np_omap. intros [i l] Hin.
  rewrite forallb_forall in H. specialize (H _ Hin). cbn in H.
  apply np_bind; [|intros; discriminate].
  apply np_omap. intros o Ho. rewrite forallb_forall in H. specialize (H _ Ho).
  destruct o; [|discriminate]. cbn. apply np_bind; [apply np_extract_structure|intros; discriminate].
Qed.

Definition nr_no_panic (p : proofD) : Prop :=
  match pd_nr p with Some nr => sacc_no_panic (nr_sacc nr) | None => True end.

Lemma np_proofD_contrib pk p ch : wf_pk pk -> nonneg_o (pd_C p) -> nr_no_panic p ->
  np (proofD_contrib pk p ch).
Proof.
  intros Hwf HCn Hnr. unfold proofD_contrib.
  destruct (proofD_validate pk p) eqn:Hv; cbn [negb]; [|discriminate].
  destruct (validate_parts pk p Hv) as (HC & HA & HE & HV & H0 & HR & HD & HP).
  apply np_bind; [now apply np_reconstruct_z|]. intros z _.
  destruct (pd_A p) as [a|] eqn:EA; [|discriminate]. cbn [deref obind].
  destruct (pd_C p) as [c|] eqn:EC; [|discriminate]. cbn in HCn.
  assert (HRs : forallb (fun kv : Z * option Z => is_some (snd kv)) (pd_AResp p) = true).
  { eapply forallb_weaken; [|exact HR]. intros x Hx. now apply andb_prop in Hx as [Hx _]. }
  apply np_bind.
  - destruct (pd_nr p) as [nr|] eqn:En; [|discriminate].
    apply np_bind; [now apply np_rev_index|]. intros idx _.
    destruct (idx <? 0); [discriminate|].
    destruct (lookup_ptr (pd_AResp p) idx) as [resp|]; [|discriminate].
    apply np_bind.
    { apply np_set_expected. unfold nr_no_panic in Hnr. now rewrite En in Hnr. }
    intros nr' Hse. apply np_bind.
    { exact (np_nr_contributions pk nr (Some c) (Some resp) nr' c Hwf HCn eq_refl Hse). }
    intros cs Hcs. destruct (nr_contrib_shape _ _ _ Hcs) as (x & y & w & ->).
    destruct (set_expected_ok _ _ _ _ _ Hse) as (W & HCr & HCu & HNu & _).
    unfold nr_wellformed in W. repeat (apply andb_prop in W as [W ?]).
    rewrite HCr, HCu.
    destruct (nr_Cr nr); [|discriminate]. destruct (nr_Cu nr); [|discriminate].
    destruct (nr_Nu nr'); [|discriminate]. cbn. discriminate.
  - intros [l1 p1] _. apply np_bind; [|intros; discriminate].
    destruct (pd_rp p) as [|x xs] eqn:Erp; [discriminate|]. rewrite <- Erp in *.
    apply np_bind.
    + apply np_extract_all. eapply forallb_weaken; [|exact HP].
      intros kv Hkv. now apply andb_prop in Hkv as [_ Hkv].
    + intros structs Hs. eapply np_range_contrib; eauto.
      intros k Hk. rewrite (extract_all_keys _ _ _ Hs) in Hk.
      apply in_map_iff in Hk as [kv [<- Hin]].
      rewrite forallb_forall in HP. specialize (HP _ Hin). now apply andb_prop in HP as [HP _].
Qed.

(* the proof returned by proofD_contrib: same main fields, non-revocation part updated *)
Lemma proofD_contrib_state pk p ch l p' : proofD_contrib pk p ch = Ok (l, p') ->
  pd_C p' = pd_C p /\ pd_A p' = pd_A p /\ pd_E p' = pd_E p /\ pd_V p' = pd_V p /\
  pd_AResp p' = pd_AResp p /\ pd_ADisc p' = pd_ADisc p /\ pd_rp p' = pd_rp p /\
  match pd_nr p, pd_nr p' with
  | None, None => True
  | Some nr, Some nr' => exists idx resp, set_expected pk nr (pd_C p) (Some resp) = Ok nr'
                                          /\ lookup_ptr (pd_AResp p) idx = Some resp
  | _, _ => False
  end.
Proof.
  intros H. unfold proofD_contrib in H. destruct (negb _); [discriminate|].
  destruct (reconstruct_z pk p); cbn in H; try discriminate.
  destruct (pd_A p) eqn:EA; cbn in H; try discriminate.
  destruct (pd_nr p) as [nr|] eqn:En.
  - destruct (rev_index p ch) as [idx| |]; cbn in H; try discriminate.
    destruct (idx <? 0); cbn in H; try discriminate.
    destruct (lookup_ptr (pd_AResp p) idx) as [resp|] eqn:El; cbn in H; try discriminate.
    destruct (set_expected pk nr (pd_C p) (Some resp)) as [nr'| |] eqn:Es; cbn in H; try discriminate.
    destruct (nr_challenge_contributions pk nr'); cbn in H; try discriminate.
    destruct (all_some _); cbn in H; try discriminate.
    destruct (match pd_rp p with [] => _ | _ => _ end); cbn in H; try discriminate.
    inversion H; subst; clear H. cbn. repeat split; try reflexivity; try assumption. eauto.
  - cbn in H. destruct (match pd_rp p with [] => _ | _ => _ end); cbn in H; try discriminate.
    inversion H; subst; clear H. rewrite En. repeat split; try reflexivity; try assumption.
Qed.

Lemma np_responses_in_range l m : forallb (fun kv : Z * option Z => is_some (snd kv)) l = true ->
  np (responses_in_range l m).
Proof.
  induction l as [|[i r] rest IH]; cbn; [discriminate|]. intros H. apply andb_prop in H as [H1 H2].
  destruct r; [|discriminate]. cbn. destruct (_ || _); [discriminate|now apply IH].
Qed.

Lemma np_proofD_verify_wc pk p rc ch :
  match pd_nr p with
  | Some nr => (exists a, nr_sacc nr = SaccOk a) \/ nr_sacc nr = SaccBad
  | None => True
  end ->
  np (proofD_verify_wc pk p rc ch).
Proof.
  intros Hnr. unfold proofD_verify_wc.
  destruct (proofD_validate pk p) eqn:Hv; cbn [negb]; [|discriminate].
  destruct (validate_parts pk p Hv) as (HC & HA & HE & HV & H0 & HR & HD & HP).
  assert (HRs : forallb (fun kv : Z * option Z => is_some (snd kv)) (pd_AResp p) = true).
  { eapply forallb_weaken; [|exact HR]. intros x Hx. now apply andb_prop in Hx as [Hx _]. }
  apply np_bind.
  - destruct (pd_nr p) as [nr|]; [|discriminate].
    apply np_bind; [now apply np_rev_index|]. intros idx _.
    destruct (idx <? 0); [discriminate|].
    destruct (lookup_ptr (pd_AResp p) idx) as [resp|]; [|discriminate].
    apply np_bind.
    + unfold nr_verify_with_challenge. destruct (nr_verify_structure nr) eqn:Evs; cbn [negb]; [|discriminate].
      unfold nr_verify_structure in Evs.
      destruct (nr_result nr Salpha); [|discriminate]. destruct (nr_Nu nr); [|discriminate].
      destruct (nr_Chal nr); [|discriminate]. destruct (_ <? _); [discriminate|].
      destruct Hnr as [[a ->] | ->]; [|discriminate]. destruct (negb _); discriminate.
    + intros v Hvv. destruct v; cbn [negb]; [|discriminate].
      unfold nr_verify_with_challenge in Hvv. destruct (nr_verify_structure nr) eqn:Evs; cbn [negb] in Hvv.
      * unfold nr_verify_structure in Evs. destruct (nr_result nr Salpha); [cbn; discriminate|discriminate].
      * discriminate.
  - intros nrv _. destruct (negb nrv); [discriminate|].
    apply np_bind.
    + unfold proofD_sizes. apply np_bind; [now apply np_responses_in_range|].
      intros ok _. destruct (negb ok); [discriminate|].
      destruct (pd_E p); [cbn; discriminate|discriminate].
    + intros sz _. destruct (negb sz); [discriminate|].
      destruct (pd_C p); [cbn; discriminate|discriminate].
Qed.

(* ---------- ProofU ---------- *)

Lemma np_proofU_contrib pk p : wf_pk pk -> np (proofU_contrib pk p).
Proof.
  intros Hwf. unfold proofU_contrib. destruct (proofU_validate pk p) eqn:Hv; cbn [negb]; [|discriminate].
  unfold proofU_validate in Hv. repeat (apply andb_prop in Hv as [Hv ?]).
  apply np_bind.
  - unfold reconstruct_ucommit.
    destruct (pu_C p); [|discriminate]. destruct (pu_U p); [|discriminate]. cbn [deref obind].
    apply np_bind; [apply np_or_err|]. intros uc _.
    destruct (pu_VPrime p); [|discriminate]. cbn [deref obind].
    apply np_bind; [apply np_or_err|]. intros sv _.
    destruct Hwf as (_ & _ & _ & _ & _ & _ & HR).
    assert (Hi : in_range_R pk 0 0 = true).
    { unfold in_range_R. cbn. apply Z.ltb_lt. lia. }
    destruct (index_R_ok pk 0 0 ltac:(lia) Hi) as [r0 [Hr0 _]]. rewrite Hr0. cbn [obind].
    destruct (pu_S p); [|discriminate]. cbn [deref obind].
    apply np_bind; [apply np_or_err|]. intros r0s _.
    now apply (np_responses_product pk _ 1).
  - intros uc _. destruct (pu_U p); [cbn; discriminate|discriminate].
Qed.

Lemma np_proofU_verify_wc pk p rc : np (proofU_verify_wc pk p rc).
Proof.
  unfold proofU_verify_wc. destruct (proofU_validate pk p) eqn:Hv; cbn [negb]; [|discriminate].
  unfold proofU_validate in Hv. repeat (apply andb_prop in Hv as [Hv ?]).
  destruct (pu_VPrime p); [|discriminate]. cbn [deref obind].
  destruct (negb _); [discriminate|]. destruct (pu_C p); [cbn; discriminate|discriminate].
Qed.

(* ---------- ProofList ---------- *)

Definition proof_ok (pr : proof) : Prop :=
  match pr with
  | PD p => nonneg_o (pd_C p) /\ nr_no_panic p
  | PU _ => True
  end.

(* state of a proof after its contribution has been computed *)
Definition proof_post (pr : proof) : Prop :=
  match pr with
  | PD p => match pd_nr p with
            | Some nr => (exists a, nr_sacc nr = SaccOk a) \/ nr_sacc nr = SaccBad
            | None => True
            end
  | PU _ => True
  end.

Lemma np_proof_contrib pk pr ch : wf_pk pk -> proof_ok pr -> np (proof_contrib pk pr ch).
Proof.
  intros Hwf Hok. destruct pr as [p|p]; cbn [proof_contrib].
  - destruct Hok. apply np_bind; [now apply np_proofD_contrib|]. intros [l p'] _. discriminate.
  - apply np_bind; [now apply np_proofU_contrib|]. intros; discriminate.
Qed.

Lemma proof_contrib_post pk pr ch l pr' : proof_contrib pk pr ch = Ok (l, pr') -> proof_post pr'.
Proof.
  destruct pr as [p|p]; cbn [proof_contrib].
  - destruct (proofD_contrib pk p ch) as [[l0 p']| |] eqn:E; cbn; try discriminate.
    intros [= <- <-]. cbn. destruct (proofD_contrib_state _ _ _ _ _ E) as (_ & _ & _ & _ & _ & _ & _ & Hm).
    destruct (pd_nr p) as [nr|], (pd_nr p') as [nr'|]; try contradiction; [|exact I].
    destruct Hm as (idx & resp & Hse & _).
    destruct (set_expected_ok _ _ _ _ _ Hse) as (_ & _ & _ & _ & _ & Hsa & [a Ha] & _).
    left. exists a. now rewrite Hsa.
  - destruct (proofU_contrib pk p); cbn; try discriminate. intros [= <- <-]. exact I.
Qed.

Lemma np_list_contribs pks : forall pl ch, Forall wf_pk pks -> Forall proof_ok pl ->
  length pl = length pks -> np (list_contribs pks pl ch).
Proof.
  induction pks as [|pk pks IH]; intros pl ch Hwf Hok Hlen.
  - destruct pl; [discriminate|cbn in Hlen; lia].
  - destruct pl as [|pr r]; [discriminate|]. cbn [list_contribs].
    inversion Hwf; subst. inversion Hok; subst.
    apply np_bind; [now apply np_proof_contrib|]. intros [l pr'] _.
    apply np_bind; [apply IH; auto|]. intros [ls prs] _. discriminate.
Qed.

Lemma list_contribs_post pks : forall pl ch ls pl', list_contribs pks pl ch = Ok (ls, pl') ->
  Forall proof_post pl' /\ length pl' = length pl.
Proof.
  induction pks as [|pk pks IH]; intros pl ch ls pl' H.
  - destruct pl; cbn in H; [|discriminate]. inversion H. split; [constructor|reflexivity].
  - destruct pl as [|pr r]; cbn in H.
    + inversion H. split; [constructor|reflexivity].
    + destruct (proof_contrib pk pr ch) as [[l pr']| |] eqn:E; cbn in H; try discriminate.
      destruct (list_contribs pks r ch) as [[ls0 prs]| |] eqn:E2; cbn in H; try discriminate.
      inversion H; subst. destruct (IH _ _ _ _ E2) as [Hp Hl].
      split; [constructor; [eapply proof_contrib_post; eauto|exact Hp]|cbn; lia].
Qed.

Lemma np_proof_verify_wc pk pr rc ch : proof_post pr -> np (proof_verify_wc pk pr rc ch).
Proof.
  intros H. destruct pr; cbn; [now apply np_proofD_verify_wc|apply np_proofU_verify_wc].
Qed.

Lemma verify_wc_true_secret pk pr rc ch : proof_verify_wc pk pr rc ch = Ok true ->
  is_some (secret_key_response pr) = true.
Proof.
  destruct pr as [p|p]; cbn.
  - unfold proofD_verify_wc. destruct (proofD_validate pk p) eqn:Hv; cbn [negb]; [|discriminate].
    intros _. now destruct (validate_parts pk p Hv) as (_ & _ & _ & _ & H0 & _).
  - unfold proofU_verify_wc. destruct (proofU_validate pk p) eqn:Hv; cbn [negb]; [|discriminate].
    intros _. unfold proofU_validate in Hv. repeat (apply andb_prop in Hv as [Hv ?]). assumption.
Qed.

Lemma np_list_verify_loop pks : forall pl labels ul rc ch seen,
  Forall proof_post pl -> length pl = length pks ->
  (forall k v, lookup seen k = Some v -> is_some v = true) ->
  np (list_verify_loop pks pl labels ul rc ch seen).
Proof.
  induction pks as [|pk pks IH]; intros pl labels ul rc ch seen Hp Hlen Hseen.
  - destruct pl; [discriminate|cbn in Hlen; lia].
  - destruct pl as [|pr r]; [discriminate|]. cbn [list_verify_loop].
    inversion Hp; subst.
    apply np_bind; [now apply np_proof_verify_wc|]. intros ok Hok.
    destruct ok; cbn [negb]; [|discriminate].
    pose proof (verify_wc_true_secret _ _ _ _ Hok) as Hs.
    set (kss := if ul then hd 0 labels else 0).
    destruct (lookup seen kss) as [first|] eqn:El.
    + pose proof (Hseen _ _ El) as Hf. destruct first; [|discriminate]. cbn [deref obind].
      destruct (secret_key_response pr); [|discriminate]. cbn [deref obind].
      destruct (negb _); [discriminate|]. apply IH; auto.
    + apply IH; auto. intros k v. cbn [lookup]. destruct (Z.eqb_spec kss k).
      * intros [= <-]. exact Hs.
      * apply Hseen.
Qed.

Theorem prooflist_verify_never_panics_lem pks ctx nonce issig labels pl c1 c2 :
  Forall wf_pk pks -> Forall proof_ok pl ->
  prooflist_verify pks ctx nonce issig labels pl c1 c2 <> Panic.
Proof.
  intros Hwf Hok. unfold prooflist_verify.
  destruct (Nat.eqb_spec (length pl) 0) as [|Hn0]; cbn [orb]; [discriminate|].
  destruct (Nat.eqb_spec (length pl) (length pks)) as [Hlen|]; cbn [negb orb]; [|discriminate].
  destruct (_ && _); [discriminate|].
  pose proof (np_list_contribs pks pl c1 Hwf Hok Hlen) as Hc.
  destruct (list_contribs pks pl c1) as [[contribs pl']| |] eqn:E; [|discriminate|now elim Hc].
  destruct (list_contribs_post _ _ _ _ _ E) as [Hp Hl].
  apply np_list_verify_loop; [exact Hp|lia|]. intros k v. cbn. discriminate.
Qed.

(* ---------- acceptance implies structural validity ---------- *)

Definition proof_validate (pk : pubkey) (pr : proof) : bool :=
  match pr with PD p => proofD_validate pk p | PU p => proofU_validate pk p end.

Lemma proof_contrib_ok_valid pk pr ch x : proof_contrib pk pr ch = Ok x -> proof_validate pk pr = true.
Proof.
  destruct pr as [p|p]; cbn.
  - unfold proofD_contrib. destruct (proofD_validate pk p); [reflexivity|discriminate].
  - unfold proofU_contrib. destruct (proofU_validate pk p); [reflexivity|discriminate].
Qed.

Lemma list_contribs_ok_valid pks : forall pl ch x, length pl = length pks ->
  list_contribs pks pl ch = Ok x -> Forall2 (fun pk pr => proof_validate pk pr = true) pks pl.
Proof.
  induction pks as [|pk pks IH]; intros pl ch x Hlen H.
  - destruct pl; [constructor|discriminate].
  - destruct pl as [|pr r]; [discriminate|]. cbn in H.
    destruct (proof_contrib pk pr ch) as [[l pr']| |] eqn:E; cbn in H; try discriminate.
    destruct (list_contribs pks r ch) as [[ls prs]| |] eqn:E2; cbn in H; try discriminate.
    constructor; [eapply proof_contrib_ok_valid; eauto|]. eapply IH; eauto.
Qed.

Theorem accepted_list_is_wellformed_lem pks ctx nonce issig labels pl c1 c2 :
  prooflist_verify pks ctx nonce issig labels pl c1 c2 = Ok true ->
  pl <> [] /\ length pl = length pks /\ (labels = [] \/ length labels = length pl) /\
  Forall2 (fun pk pr => proof_validate pk pr = true) pks pl.
Proof.
  unfold prooflist_verify.
  destruct (Nat.eqb_spec (length pl) 0) as [|Hn0]; cbn [orb]; [discriminate|].
  destruct (Nat.eqb_spec (length pl) (length pks)) as [Hlen|]; cbn [negb orb]; [|discriminate].
  destruct (Nat.ltb_spec 0 (length labels)) as [Hl|Hl]; cbn [andb].
  - destruct (Nat.eqb_spec (length pl) (length labels)) as [Hll|]; cbn [negb]; [|discriminate].
    destruct (list_contribs pks pl c1) as [x| |] eqn:E; try discriminate. intros _.
    repeat split; auto.
    + intros ->. cbn in Hn0. lia.
    + eapply list_contribs_ok_valid; eauto.
  - destruct (list_contribs pks pl c1) as [x| |] eqn:E; try discriminate. intros _.
    repeat split; auto.
    + intros ->. cbn in Hn0. lia.
    + left. destruct labels; [reflexivity|cbn in Hl; lia].
    + eapply list_contribs_ok_valid; eauto.
Qed.

(* what validity of a disclosure proof means, spelled out *)
Lemma proofD_validate_spec pk p : proofD_validate pk p = true ->
  (forall i r, In (i, r) (pd_AResp p) -> r <> None /\ 0 <= i < Z.of_nat (length (pk_R pk))) /\
  (forall i a, In (i, a) (pd_ADisc p) -> a <> None /\ 1 <= i < Z.of_nat (length (pk_R pk)) /\
                                        ~ In i (keys (pd_AResp p))) /\
  (forall i l, In (i, l) (pd_rp p) -> In i (keys (pd_AResp p)) /\ ~ In None l) /\
  In 0 (keys (pd_AResp p)).
Proof.
  intros Hv. destruct (validate_parts pk p Hv) as (_ & _ & _ & _ & H0 & HR & _ & HP).
  assert (HDD : forallb (fun kv : Z * option Z => is_some (snd kv) && in_range_R pk 1 (fst kv)
                          && negb (has_key (pd_AResp p) (fst kv))) (pd_ADisc p) = true).
  { unfold proofD_validate in Hv. repeat (apply andb_prop in Hv as [Hv ?]). assumption. }
  assert (Hlk : forall k, is_some (lookup_ptr (pd_AResp p) k) = true -> In k (keys (pd_AResp p))).
  { intros k Hk. unfold lookup_ptr in Hk. destruct (lookup (pd_AResp p) k) eqn:E; [|discriminate].
    eapply lookup_in_keys; eauto. }
  rewrite forallb_forall in HR, HDD, HP.
  split; [|split; [|split]].
  - intros i r Hin. specialize (HR _ Hin). cbn in HR. apply andb_prop in HR as [Hs Hr].
    unfold in_range_R in Hr. apply andb_prop in Hr as [Ha Hb].
    apply Z.leb_le in Ha. apply Z.ltb_lt in Hb. split; [now destruct r|lia].
  - intros i a Hin. specialize (HDD _ Hin). cbn in HDD. apply andb_prop in HDD as [Hd Hk].
    apply andb_prop in Hd as [Hs Hr]. unfold in_range_R in Hr. apply andb_prop in Hr as [Ha Hb].
    apply Z.leb_le in Ha. apply Z.ltb_lt in Hb. split; [now destruct a|]. split; [lia|].
    intros Hin'. unfold has_key in Hk. apply negb_true_iff in Hk.
    assert (existsb (fun kv : Z * option Z => fst kv =? i) (pd_AResp p) = true); [|congruence].
    apply existsb_exists. unfold keys in Hin'. apply in_map_iff in Hin' as [kv [Hkv Hin2]].
    exists kv. split; [exact Hin2|]. now apply Z.eqb_eq.
  - intros i l Hin. specialize (HP _ Hin). cbn in HP. apply andb_prop in HP as [Hk Hl].
    split; [now apply Hlk|]. intros Hn. rewrite forallb_forall in Hl. specialize (Hl _ Hn). discriminate.
  - now apply Hlk.
Qed.
