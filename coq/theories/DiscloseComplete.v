(* C04: every honest disclosure proof makes the verifier reconstruct the prover's commitment. *)
From Coq Require Import ZArith List Lia Bool Permutation Zdiv Setoid Morphisms.
From Gabi Require Import Val ModArith GoSem ParamsDef ZkProof Keys Bytes Sha256 HashTool RangeProof NonRev Core CL Prover SignedPow.
Import ListNotations.
Open Scope Z_scope.

Section Mprod.
Variable n : Z.
Hypothesis Hn : 1 < n.

(* product modulo n of a list of residues *)
Definition mprod (l : list Z) : Z := fold_right (fun x acc => mulm n x acc) 1 l.

Lemma mprod_range l : 0 <= mprod l < n.
Proof. destruct l; cbn; [lia|apply mulm_range; lia]. Qed.

Lemma mprod_app a b : mprod (a ++ b) = mulm n (mprod a) (mprod b).
Proof.
  induction a as [|x r IH]; cbn [app mprod fold_right].
  - rewrite mulm_1_l by lia. symmetry. apply Z.mod_small, mprod_range.
  - fold (mprod (r ++ b)). fold (mprod r). rewrite IH. now rewrite mulm_assoc by lia.
Qed.

Lemma mprod_perm l l' : Permutation l l' -> mprod l = mprod l'.
Proof.
  induction 1 as [|x l l' _ IH|x y l|l l' l'' _ IH1 _ IH2]; cbn [mprod fold_right] in *.
  - reflexivity.
  - fold (mprod l). fold (mprod l'). now rewrite IH.
  - fold (mprod l). rewrite <- !mulm_assoc by lia. f_equal. apply mulm_comm.
  - congruence.
Qed.

(* a left fold that multiplies and reduces at every step *)
Lemma fold_mul_mprod (l : list Z) : forall acc,
  (fold_left (fun a x => (a * x) mod n) l acc) mod n = mulm n acc (mprod l).
Proof.
  induction l as [|x r IH]; intros acc; cbn [fold_left mprod fold_right].
  - now rewrite mulm_1_r by lia.
  - rewrite IH. fold (mprod r). fold (mulm n acc x). now rewrite mulm_assoc by lia.
Qed.

End Mprod.

(* the attribute indices split into the disclosed and the undisclosed ones *)
Lemma filter_split {A} (f : A -> bool) (l : list A) : Permutation l (filter f l ++ filter (fun x => negb (f x)) l).
Proof.
  induction l as [|x r IH]; cbn; [constructor|].
  destruct (f x); cbn.
  - now constructor.
  - eapply perm_trans; [apply perm_skip, IH|]. apply Permutation_middle.
Qed.

Lemma zrange_nodup k : NoDup (zrange k).
Proof.
  unfold zrange. apply FinFun.Injective_map_NoDup; [|apply seq_NoDup].
  intros a b H. now apply Nat2Z.inj.
Qed.

Lemma zrange_in k i : In i (zrange k) <-> 0 <= i < k.
Proof.
  unfold zrange. rewrite in_map_iff. split.
  - intros (x & <- & Hx). apply in_seq in Hx. lia.
  - intros H. exists (Z.to_nat i). split; [lia|]. apply in_seq. lia.
Qed.

Lemma partition_perm disclosed k und :
  get_undisclosed disclosed k = Ok und -> NoDup disclosed -> Permutation (zrange k) (disclosed ++ und).
Proof.
  unfold get_undisclosed. destruct (forallb _ disclosed) eqn:E; [|discriminate]. intros H Hnd. inversion H; subst und.
  rewrite forallb_forall in E.
  eapply perm_trans; [apply (filter_split (fun i => memZ i disclosed))|].
  apply Permutation_app_tail.
  apply NoDup_Permutation; [apply NoDup_filter, zrange_nodup|exact Hnd|].
  intros x. rewrite filter_In, zrange_in. unfold memZ. rewrite existsb_exists. split.
  - intros (_ & y & Hy & Heq). apply Z.eqb_eq in Heq. now subst.
  - intros Hx. split.
    + specialize (E x Hx). apply andb_true_iff in E as [E1 E2]. apply Z.leb_le in E1. apply Z.ltb_lt in E2. lia.
    + exists x. split; [exact Hx|apply Z.eqb_refl].
Qed.

Section Disclose.
Variable pk : pubkey.
Let n := pk_N pk.
Hypothesis Hn : 1 < n.

Definition invf (x : Z) : Z := match go_modinverse x n with Some i => i | None => 0 end.
Definition unitb (x : Z) : Prop := exists i, go_modinverse x n = Some i.

Lemma unit_inv x : unitb x -> mulm n x (invf x) = 1.
Proof.
  intros [i Hi]. unfold invf. rewrite Hi. apply go_modinverse_sound in Hi; [|lia]. destruct Hi as [H _].
  rewrite H. apply Z.mod_small. lia.
Qed.

Definition R_at (i : Z) : Z := nth (Z.to_nat i) (pk_R pk) 0.
Definition in_R (i : Z) : Prop := 0 <= i < Z.of_nat (length (pk_R pk)).

Lemma index_R_ok i : in_R i -> index_R (pk_R pk) i = Ok (R_at i).
Proof.
  intros [H1 H2]. unfold index_R, R_at.
  destruct (Z.leb_spec 0 i); [|lia]. destruct (Z.ltb_spec i (Z.of_nat (length (pk_R pk)))); [|lia]. reflexivity.
Qed.

(* go_modpow with an invertible base is the signed power *)
Lemma go_modpow_spw b e : unitb b -> go_modpow b e n = Some (spw n b (invf b) e).
Proof.
  intros [i Hi]. unfold go_modpow, go_exp, spw, invf. rewrite Hi.
  destruct (e <? 0); now rewrite powx_powm by lia.
Qed.

Lemma go_exp_nonneg b e : 0 <= e -> go_exp b e n = Some (powm n b e).
Proof. intros He. unfold go_exp. destruct (Z.ltb_spec e 0); [lia|]. now rewrite powx_powm by lia. Qed.

Lemma spw_nonneg b bi e : 0 <= e -> spw n b bi e = powm n b e.
Proof. intros He. unfold spw. destruct (Z.ltb_spec e 0); [lia|reflexivity]. Qed.

(* ---- the prover's commitment ---- *)

Lemma und_product_mprod (rand : list (Z * Z)) (rnd : Z -> Z) : forall und z,
  (forall v, In v und -> in_R v /\ unitb (R_at v) /\ lookup rand v = Some (rnd v)) -> 0 <= z < n ->
  exists r, und_product pk und rand z = Ok r /\ 0 <= r < n /\
            r mod n = mulm n z (mprod n (map (fun v => spw n (R_at v) (invf (R_at v)) (rnd v)) und)).
Proof.
  induction und as [|v rest IH]; intros z H Hz; cbn [und_product map mprod fold_right].
  - exists z. split; [reflexivity|]. split; [lia|]. now rewrite mulm_1_r by lia.
  - destruct (H v (or_introl eq_refl)) as (Hi & Hu & Hl).
    rewrite (index_R_ok v Hi). cbn [obind]. rewrite Hl. cbn [deref obind].
    fold n. rewrite (go_modpow_spw _ _ Hu). cbn [or_err obind].
    destruct (IH ((z * spw n (R_at v) (invf (R_at v)) (rnd v)) mod n)) as (r & Hr & Hb & Hm).
    { intros v' Hv'. apply H. now right. }
    { apply Z.mod_pos_bound. lia. }
    exists r. split; [exact Hr|]. split; [exact Hb|].
    rewrite Hm. fold (mulm n z (spw n (R_at v) (invf (R_at v)) (rnd v))).
    fold (mprod n (map (fun v0 => spw n (R_at v0) (invf (R_at v0)) (rnd v0)) rest)).
    now rewrite mulm_assoc by lia.
Qed.


Lemma resp_product_mprod (f : Z -> Z) : forall und acc,
  (forall v, In v und -> in_R v /\ unitb (R_at v)) -> 0 <= acc < n ->
  exists r, responses_product pk (map (fun v => (v, Some (f v))) und) acc = Ok r /\ 0 <= r < n /\
            r mod n = mulm n acc (mprod n (map (fun v => spw n (R_at v) (invf (R_at v)) (f v)) und)).
Proof.
  induction und as [|v rest IH]; intros acc H Hz; cbn [responses_product map mprod fold_right].
  - exists acc. split; [reflexivity|]. split; [lia|]. now rewrite mulm_1_r by lia.
  - destruct (H v (or_introl eq_refl)) as (Hi & Hu).
    rewrite (index_R_ok v Hi). cbn [obind deref].
    fold n. rewrite (go_modpow_spw _ _ Hu). cbn [or_err obind].
    destruct (IH ((acc * spw n (R_at v) (invf (R_at v)) (f v)) mod n)) as (r & Hr & Hb & Hm).
    { intros v' Hv'. apply H. now right. }
    { apply Z.mod_pos_bound. lia. }
    exists r. split; [exact Hr|]. split; [exact Hb|].
    rewrite Hm. fold (mulm n acc (spw n (R_at v) (invf (R_at v)) (f v))).
    fold (mprod n (map (fun v0 => spw n (R_at v0) (invf (R_at v0)) (f v0)) rest)).
    now rewrite mulm_assoc by lia.
Qed.

Definition aexp (attrs : list Z) (i : Z) : Z := attr_exp (Lm (pk_params pk)) (nthZd attrs i).

Lemma disclosed_product_mprod (attrs : list Z) : forall disc acc,
  (forall v, In v disc -> in_R v /\ 0 <= aexp attrs v) -> 0 <= acc < n ->
  exists r, disclosed_product pk (map (fun i => (i, Some (nthZd attrs i))) disc) acc = Ok r /\ 0 <= r < n /\
            r mod n = mulm n acc (mprod n (map (fun v => powm n (R_at v) (aexp attrs v)) disc)).
Proof.
  induction disc as [|v rest IH]; intros acc H Hz; cbn [disclosed_product map mprod fold_right].
  - exists acc. split; [reflexivity|]. split; [lia|]. now rewrite mulm_1_r by lia.
  - destruct (H v (or_introl eq_refl)) as (Hi & He).
    cbn [deref obind]. rewrite (index_R_ok v Hi). cbn [obind].
    fold n. fold (aexp attrs v). rewrite (go_exp_nonneg _ _ He). cbn [deref obind].
    destruct (IH ((acc * powm n (R_at v) (aexp attrs v)) mod n)) as (r & Hr & Hb & Hm).
    { intros v' Hv'. apply H. now right. }
    { apply Z.mod_pos_bound. lia. }
    exists r. split; [exact Hr|]. split; [exact Hb|].
    rewrite Hm. fold (mulm n acc (powm n (R_at v) (aexp attrs v))).
    fold (mprod n (map (fun v0 => powm n (R_at v0) (aexp attrs v0)) rest)).
    now rewrite mulm_assoc by lia.
Qed.

(* RepresentToBases over the whole attribute list, index-wise *)
Lemma represent_mprod lm : forall exps bases acc r,
  represent n lm bases exps acc = Ok r -> 0 <= acc < n ->
  (length exps <= length bases)%nat /\ 0 <= r < n /\
  r mod n = mulm n acc (mprod n (map (fun be => powm n (fst be) (attr_exp lm (snd be))) (combine bases exps))).
Proof.
  induction exps as [|e es IH]; intros bases acc r H Hz.
  - destruct bases; simpl in H; inversion H; subst; (split; [apply Nat.le_0_l|]); (split; [exact Hz|]);
      cbn [combine map mprod fold_right]; now rewrite mulm_1_r by lia.
  - destruct bases as [|b bs]; simpl in H; [discriminate|].
    apply IH in H; [|apply Z.mod_pos_bound; lia]. destruct H as (Hl & Hb & Hm).
    split; [cbn [length]; apply le_n_S; exact Hl|]. split; [exact Hb|].
    cbn [combine map mprod fold_right fst snd]. rewrite Hm. rewrite powx_powm by lia.
    fold (mulm n acc (powm n b (attr_exp lm e))).
    fold (mprod n (map (fun be => powm n (fst be) (attr_exp lm (snd be))) (combine bs es))).
    now rewrite mulm_assoc by lia.
Qed.

Lemma nth_map_lt {A B} (h : A -> B) (l : list A) (k : nat) (d : B) (d' : A) :
  (k < length l)%nat -> nth k (map h l) d = h (nth k l d').
Proof. intros Hk. rewrite (nth_indep _ d (h d')) by (now rewrite map_length). apply map_nth. Qed.

Lemma combine_nth_lt {A B} (l : list A) (l' : list B) x y : forall k,
  (k < length l)%nat -> (k < length l')%nat -> nth k (combine l l') (x, y) = (nth k l x, nth k l' y).
Proof.
  revert l'. induction l as [|a r IH]; intros [|b r'] k H1 H2; cbn in *; try lia.
  destruct k; [reflexivity|]. apply IH; lia.
Qed.

Lemma combine_index (attrs : list Z) : (length attrs <= length (pk_R pk))%nat ->
  map (fun be => powm n (fst be) (attr_exp (Lm (pk_params pk)) (snd be))) (combine (pk_R pk) attrs) =
  map (fun i => powm n (R_at i) (aexp attrs i)) (zrange (Z.of_nat (length attrs))).
Proof.
  intros Hl. unfold zrange. rewrite Nat2Z.id. rewrite map_map.
  apply nth_ext with (d := 0) (d' := 0).
  - rewrite !map_length, combine_length, seq_length. lia.
  - intros k Hk. rewrite map_length, combine_length in Hk.
    assert (Hk' : (k < length attrs)%nat) by lia.
    rewrite (nth_map_lt _ _ k 0 (0, 0)) by (rewrite combine_length; lia).
    rewrite (nth_map_lt _ _ k 0 0%nat) by (rewrite seq_length; lia).
    rewrite combine_nth_lt by lia. rewrite seq_nth by lia. cbn [fst snd Nat.add].
    unfold R_at, aexp, nthZd. now rewrite Nat2Z.id.
Qed.


(* ---- units ---- *)

Lemma inverse_gives_unit x y : mulm n x y = 1 -> unitb x.
Proof.
  intros H. apply (go_modinverse_some_iff x n ltac:(lia)).
  apply Z.bezout_1_gcd. unfold mulm in H.
  pose proof (Z.div_mod (x * y) n ltac:(lia)) as D. rewrite H in D.
  exists y, (- ((x * y) / n)). lia.
Qed.

Lemma unit_mul x y : unitb x -> unitb y -> unitb (mulm n x y).
Proof.
  intros Hx Hy. apply (inverse_gives_unit _ (mulm n (invf x) (invf y))).
  pose proof (unit_inv x Hx) as Ix. pose proof (unit_inv y Hy) as Iy.
  transitivity (mulm n (mulm n x (invf x)) (mulm n y (invf y))).
  - rewrite !mulm_assoc by lia. f_equal. rewrite <- !mulm_assoc by lia. f_equal. apply mulm_comm.
  - rewrite Ix, Iy. unfold mulm. apply Z.mod_small. lia.
Qed.

Lemma unit_spw b e : unitb b -> unitb (spw n b (invf b) e).
Proof.
  intros Hb. apply (inverse_gives_unit _ (spw n b (invf b) (- e))).
  rewrite <- (spw_add n Hn b (invf b) (unit_inv b Hb)). replace (e + - e) with 0 by lia.
  unfold spw. cbn. apply Z.mod_small. lia.
Qed.

Lemma unit_mod_iff x : unitb (x mod n) <-> unitb x.
Proof.
  unfold unitb. rewrite !(go_modinverse_some_iff _ n) by lia. now rewrite Z.gcd_mod, Z.gcd_comm by lia.
Qed.

Lemma unit_one : unitb 1.
Proof. apply (inverse_gives_unit 1 1). unfold mulm. apply Z.mod_small. lia. Qed.

Lemma unit_mprod l : Forall unitb l -> unitb (mprod n l).
Proof.
  induction 1 as [|x r Hx _ IH]; cbn [mprod fold_right]; [apply unit_one|].
  fold (mprod n r). now apply unit_mul.
Qed.


(* ---- the algebra, in the setoid of congruence modulo n ---- *)

Local Instance eqm_equiv : Equivalence (eqm n).
Proof. constructor; [intros a; apply eqm_refl|intros a b; apply eqm_sym|intros a b c; apply eqm_trans]. Qed.

Local Instance mul_eqm : Proper (eqm n ==> eqm n ==> eqm n) Z.mul.
Proof.
  unfold eqm. intros a b H c d H0. rewrite (Z.mul_mod a c), (Z.mul_mod b d) by lia. now rewrite H, H0.
Qed.

Lemma eqm_mod x : eqm n (x mod n) x.
Proof. unfold eqm. apply Z.mod_mod. lia. Qed.

Lemma disclose_algebra KC PAv PSv MRv PAr PSr MRr W rs z :
  eqm n (PAv * (PSv * MRv)) ((PAr * (PSr * MRr)) * W) ->
  eqm n (KC * W) 1 -> eqm n rs MRv -> eqm n z ((PAr * PSr) * MRr) ->
  eqm n (KC * PAv * rs * PSv) z.
Proof.
  intros H1 H2 H3 H4. rewrite H3, H4.
  replace (KC * PAv * MRv * PSv) with (KC * (PAv * (PSv * MRv))) by ring.
  rewrite H1. replace (KC * (PAr * (PSr * MRr) * W)) with ((PAr * (PSr * MRr)) * (KC * W)) by ring.
  rewrite H2. replace (PAr * (PSr * MRr) * 1) with (PAr * PSr * MRr) by ring. reflexivity.
Qed.



Lemma sprod_map_mprod (ex : sterm -> Z) (mk : Z -> sterm) (l : list Z) :
  sprod n ex (map mk l) = mprod n (map (fun i => spw n (s_b (mk i)) (s_bi (mk i)) (ex (mk i))) l).
Proof. induction l as [|x r IH]; cbn [map sprod mprod fold_right]; [reflexivity|]. now rewrite IH. Qed.

Lemma eqm_mulm x y : eqm n (mulm n x y) (x * y).
Proof. unfold mulm. apply eqm_mod. Qed.

Lemma eq_eqm x y : x = y -> eqm n x y.
Proof. intros ->. reflexivity. Qed.

(* the responses the builder computes for the undisclosed attributes *)
Lemma aresp_omap (rand : list (Z * Z)) (rnd : Z -> Z) (attrs : list Z) c : forall und,
  (forall v, In v und -> lookup rand v = Some (rnd v)) ->
  omap (fun i => let! r := deref (lookup rand i) in
                 Ok (i, Some (r + c * attr_exp (Lm (pk_params pk)) (nthZd attrs i)))) und =
  Ok (map (fun v => (v, Some (rnd v + c * aexp attrs v))) und).
Proof.
  induction und as [|v rest IH]; intros H; cbn [omap map]; [reflexivity|].
  rewrite (H v (or_introl eq_refl)). cbn [deref obind]. rewrite IH by (intros v' Hv'; apply H; now right).
  reflexivity.
Qed.

Theorem disclose_complete_lem is_prime sg attrs disclosed und eC vC rand skR c l b' p a e v (rnd : Z -> Z) :
  cl_verify pk is_prime sg attrs = Ok true ->
  sig_A sg = Some a -> sig_E sg = Some e -> sig_V sg = Some v -> sig_KP sg = None ->
  get_undisclosed disclosed (Z.of_nat (length attrs)) = Ok und -> NoDup disclosed ->
  unitb a -> unitb (pk_S pk) -> unitb (pk_Z pk) -> (forall i, in_R i -> unitb (R_at i)) ->
  (forall m, In m attrs -> 0 <= m) -> 0 <= c ->
  (forall i, In i und -> lookup (set_rand rand 0 skR) i = Some (rnd i)) ->
  db_commit pk (mkDb sg eC vC rand disclosed und attrs) skR None = Ok (l, b') ->
  db_create_proof pk b' c = Ok p ->
  exists z, l = [a; z] /\ reconstruct_z pk p = Ok z.
Proof.
  intros Hver HA HE HV HKP Hund Hnd Ua US UZ UR Hattr Hc Hrnd Hcommit Hproof.
  set (lm := Lm (pk_params pk)) in *.
  set (len := Z.of_nat (length attrs)) in *.
  (* 1. the signature equation *)
  unfold cl_verify in Hver. rewrite HE in Hver. cbn [deref obind] in Hver.
  destruct ((e <? e_start (pk_params pk)) || (e_end (pk_params pk) <? e)) eqn:Erange; [discriminate|].
  destruct (is_prime e); cbn [negb] in Hver; [|discriminate].
  rewrite HA in Hver. cbn [deref obind] in Hver. fold n in Hver.
  apply orb_false_iff in Erange as [Er1 _]. apply Z.ltb_ge in Er1.
  assert (He0 : 0 <= e - 2 ^ (Le (pk_params pk) - 1) /\ 0 <= 2 ^ (Le (pk_params pk) - 1)).
  { unfold e_start in Er1. split; [lia|]. apply Z.pow_nonneg. lia. }
  destruct He0 as [He0 Hp0].
  assert (He : 0 <= e) by lia.
  rewrite (go_exp_nonneg a e He) in Hver. cbn [deref obind] in Hver.
  destruct (represent_to_pk pk attrs) as [rep| |] eqn:Erep; cbn [obind] in Hver; try discriminate.
  rewrite HKP, HV in Hver. cbn [deref obind] in Hver. fold n in Hver. rewrite (go_modpow_spw _ v US) in Hver.
  inversion Hver as [Heq]. apply Z.eqb_eq in Heq. clear Hver.
  unfold represent_to_pk in Erep. fold n lm in Erep.
  destruct (represent_mprod lm attrs (pk_R pk) 1 rep Erep ltac:(lia)) as (Hlen & Hrepb & Hrepm).
  unfold lm in Hrepm. rewrite (combine_index attrs Hlen) in Hrepm. fold len in Hrepm.
  (* indices *)
  assert (Hin_all : forall i, In i (zrange len) -> in_R i).
  { intros i Hi. apply zrange_in in Hi. unfold in_R, len in *. lia. }
  pose proof (partition_perm disclosed len und Hund Hnd) as Hperm.
  assert (Hin_und : forall i, In i und -> in_R i).
  { intros i Hi. apply Hin_all. eapply Permutation_in; [apply Permutation_sym, Hperm|]. apply in_or_app. now right. }
  assert (Hin_disc : forall i, In i disclosed -> in_R i).
  { intros i Hi. apply Hin_all. eapply Permutation_in; [apply Permutation_sym, Hperm|]. apply in_or_app. now left. }
  assert (Haexp : forall i, 0 <= aexp attrs i).
  { intros i. unfold aexp. apply attr_exp_nonneg. unfold nthZd.
    destruct (nth_in_or_default (Z.to_nat i) attrs 0) as [Hi| ->]; [now apply Hattr|lia]. }
  (* 2. the commitment *)
  unfold db_commit in Hcommit. cbn [db_sig db_eCommit db_vCommit db_rand db_undisclosed db_disclosed db_attrs] in Hcommit.
  rewrite HA in Hcommit. cbn [deref obind] in Hcommit. fold n in Hcommit.
  rewrite (go_modpow_spw _ eC Ua), (go_modpow_spw _ vC US) in Hcommit. cbn [or_err obind] in Hcommit.
  set (z0 := (1 * spw n a (invf a) eC * spw n (pk_S pk) (invf (pk_S pk)) vC) mod n) in *.
  destruct (und_product_mprod (set_rand rand 0 skR) rnd und z0) as (z & Hz & Hzb & Hzm).
  { intros i Hi. split; [now apply Hin_und|]. split; [apply UR; now apply Hin_und|now apply Hrnd]. }
  { apply Z.mod_pos_bound. lia. }
  rewrite Hz in Hcommit. cbn [obind] in Hcommit. inversion Hcommit; subst l b'. clear Hcommit.
  exists z. split; [reflexivity|].
  (* 3. the proof *)
  unfold db_create_proof in Hproof. cbn [db_sig db_eCommit db_vCommit db_rand db_undisclosed db_disclosed db_attrs] in Hproof.
  rewrite HE, HV in Hproof. cbn [deref obind] in Hproof.
  rewrite (aresp_omap (set_rand rand 0 skR) rnd attrs c und Hrnd) in Hproof. cbn [obind] in Hproof.
  inversion Hproof; subst p. clear Hproof.
  (* 4. the verifier *)
  unfold reconstruct_z. cbn [pd_A pd_ADisc pd_C pd_E pd_V pd_AResp deref obind]. fold n.
  rewrite HA. cbn [deref obind]. rewrite powx_powm by lia.
  destruct (disclosed_product_mprod attrs disclosed (powm n a (2 ^ (Le (pk_params pk) - 1)))) as (num & Hnum & Hnumb & Hnumm).
  { intros i Hi. split; [now apply Hin_disc|apply Haexp]. }
  { apply powm_range. lia. }
  rewrite Hnum. cbn [obind].
  (* the numerator is a unit *)
  assert (Unum : unitb num).
  { apply unit_mod_iff. rewrite Hnumm. apply unit_mul.
    - rewrite <- (spw_nonneg a (invf a)) by assumption. now apply unit_spw.
    - apply unit_mprod. apply Forall_forall. intros x Hx. apply in_map_iff in Hx as (i & <- & Hi).
      rewrite <- (spw_nonneg (R_at i) (invf (R_at i))) by apply Haexp. apply unit_spw, UR. now apply Hin_disc. }
  destruct Unum as [ninv Hninv]. rewrite Hninv. cbn [or_err obind].
  set (known := pk_Z pk * ninv) in *.
  assert (Uknown : unitb known).
  { apply unit_mod_iff. change (known mod n) with (mulm n (pk_Z pk) ninv). apply unit_mul; [exact UZ|].
    apply (inverse_gives_unit ninv num). rewrite mulm_comm.
    apply go_modinverse_sound in Hninv; [|lia]. destruct Hninv as [H _]. rewrite H. apply Z.mod_small. lia. }
  assert (HknownC : go_modpow known (- c) n = Some (powm n (invf known) c)).
  { rewrite (go_modpow_spw _ _ Uknown). unfold spw. destruct (Z.ltb_spec (- c) 0) as [Hneg|Hpos].
    - now rewrite Z.opp_involutive.
    - assert (c = 0) by lia. subst c. reflexivity. }
  rewrite HknownC. cbn [or_err obind].
  rewrite (go_modpow_spw _ _ Ua), (go_modpow_spw _ _ US). cbn [or_err obind].
  destruct (resp_product_mprod (fun i => rnd i + c * aexp attrs i) und 1) as (rs & Hrs & Hrsb & Hrsm).
  { intros i Hi. split; [now apply Hin_und|apply UR; now apply Hin_und]. }
  { lia. }
  rewrite Hrs. cbn [obind]. f_equal.
  (* 5. algebra *)
  rewrite <- (Z.mod_small z n Hzb).
  set (KC := powm n (invf known) c).
  set (PAv := spw n a (invf a) (eC + c * (e - 2 ^ (Le (pk_params pk) - 1)))).
  set (PSv := spw n (pk_S pk) (invf (pk_S pk)) (vC + c * v)).
  set (MRv := mprod n (map (fun i => spw n (R_at i) (invf (R_at i)) (rnd i + c * aexp attrs i)) und)) in *.
  set (MRr := mprod n (map (fun i => spw n (R_at i) (invf (R_at i)) (rnd i)) und)) in *.
  set (PAr := spw n a (invf a) eC) in *. set (PSr := spw n (pk_S pk) (invf (pk_S pk)) vC) in *.
  set (PAs := spw n a (invf a) (e - 2 ^ (Le (pk_params pk) - 1))).
  set (PSs := spw n (pk_S pk) (invf (pk_S pk)) v) in *.
  set (MRs := mprod n (map (fun i => powm n (R_at i) (aexp attrs i)) und)).
  set (W := powm n (mulm n PAs (mulm n PSs MRs)) c).
  assert (EMRs : MRs = mprod n (map (fun i => spw n (R_at i) (invf (R_at i)) (aexp attrs i)) und)).
  { unfold MRs. f_equal. apply map_ext. intros i. symmetry. apply spw_nonneg. apply Haexp. }
  apply (disclose_algebra KC PAv PSv MRv PAr PSr MRr W rs z).
  - (* responses = randomizers * secrets^c, termwise *)
    pose (mk := fun i => mkS (R_at i) (invf (R_at i)) (aexp attrs i) (rnd i)).
    pose (ts := mkS a (invf a) (e - 2 ^ (Le (pk_params pk) - 1)) eC :: mkS (pk_S pk) (invf (pk_S pk)) v vC :: map mk und).
    assert (Hts : Forall (fun t => mulm n (s_b t) (s_bi t) = 1) ts).
    { unfold ts. constructor; [cbn; now apply unit_inv|]. constructor; [cbn; now apply unit_inv|].
      apply Forall_forall. intros t Ht. apply in_map_iff in Ht as (i & <- & Hi). cbn. apply unit_inv, UR. now apply Hin_und. }
    pose proof (sprod_response n Hn c ts Hc Hts) as Hsp.
    unfold ts in Hsp. cbn [sprod s_b s_bi s_es s_er] in Hsp. rewrite !sprod_map_mprod in Hsp. cbn [mk s_b s_bi s_es s_er] in Hsp.
    fold PAv PSv MRv PAr PSr MRr PAs PSs in Hsp. rewrite <- EMRs in Hsp. fold W in Hsp.
    transitivity (mulm n PAv (mulm n PSv MRv)); [symmetry; rewrite !eqm_mulm; reflexivity|].
    rewrite Hsp. rewrite !eqm_mulm. reflexivity.
  - (* the inverted left-hand side cancels the secrets' product *)
    rewrite <- eqm_mulm. apply eq_eqm. unfold KC, W. rewrite <- powm_mulm by lia.
    assert (Hk : mulm n (invf known) (mulm n PAs (mulm n PSs MRs)) = 1).
    { assert (Eks : mulm n PAs (mulm n PSs MRs) = known mod n).
      {
      (* validity of the signature: known = A^(e - 2^(le-1)) * S^v * prod over the undisclosed *)
      set (P2 := powm n a (2 ^ (Le (pk_params pk) - 1))) in *.
      set (D := mprod n (map (fun i => powm n (R_at i) (aexp attrs i)) disclosed)) in *.
      assert (F2 : eqm n rep (D * MRs)).
      { unfold eqm. rewrite Hrepm. rewrite mulm_1_l by lia.
        rewrite (mprod_perm n Hn _ _ (Permutation_map _ Hperm)). rewrite map_app, (mprod_app n Hn).
        fold D MRs. unfold mulm. apply Z.mod_mod. lia. }
      assert (F3 : eqm n num (P2 * D)).
      { unfold eqm. rewrite Hnumm. reflexivity. }
      assert (F4 : eqm n (num * ninv) 1).
      { apply go_modinverse_sound in Hninv; [|lia]. destruct Hninv as [H _]. unfold eqm. exact H. }
      assert (F5 : eqm n (powm n a e) (P2 * PAs)).
      { unfold PAs. rewrite spw_nonneg by assumption. unfold P2. rewrite <- eqm_mulm. apply eq_eqm.
        rewrite <- powm_add by lia. f_equal. lia. }
      assert (F1 : eqm n (pk_Z pk) (powm n a e * rep * PSs)).
      { rewrite Heq at 1. apply eqm_mod. }
      symmetry. transitivity ((mulm n PAs (mulm n PSs MRs)) mod n); [|unfold mulm; apply Z.mod_mod; lia].
      change (eqm n known (mulm n PAs (mulm n PSs MRs))).
      unfold known. rewrite F1, F5, F2. rewrite !eqm_mulm.
      replace (P2 * PAs * (D * MRs) * PSs * ninv) with ((P2 * D * ninv) * (PAs * (PSs * MRs))) by ring.
      rewrite <- F3. rewrite F4. apply eq_eqm. ring. }
      rewrite Eks. rewrite mulm_mod_r by lia. rewrite mulm_comm. now apply unit_inv. }
    rewrite Hk. rewrite powm_1_l by lia. apply Z.mod_small. lia.
  - unfold eqm. rewrite Hrsm. unfold mulm. now rewrite Z.mul_1_l.
  - unfold eqm. rewrite Hzm. unfold mulm, z0. rewrite Z.mul_mod_idemp_l by lia. f_equal. ring.
Qed.

End Disclose.
