(* Decoders from the wire format to the key-proof records, and the val -> val entry points. *)
From Coq Require Import ZArith List Bool String Ascii.
From Gabi Require Import Val ModArith GoSem HashTool KeyProof.
Import ListNotations.
Open Scope Z_scope.

Definition as_string (v : val) : option name :=
  do l <- as_LZ v; Some (fold_left (fun acc z => acc * 256 + z) l 0).

Definition as_LL {A} (f : val -> option A) (v : val) : option (list A) :=
  match v with VL l => map_opt f l | _ => None end.
Definition as_oLoZ (v : val) : option (option (list (option Z))) :=
  match v with VN => Some None | VL l => do r <- map_opt as_oZ l; Some (Some r) | _ => None end.

Definition as_ped (v : val) : option ped :=
  match v with VL [c; s; h] => do c <- as_oZ c; do s <- as_oZ s; do h <- as_oZ h; Some (mkPed c s h) | _ => None end.

Definition as_rangep (v : val) : option rangep :=
  match v with
  | VN => Some None
  | VL l => do m <- map_opt (fun e => match e with VL [n; rl] => do n <- as_string n; do rl <- as_LoZ rl; Some (n, rl) | _ => None end) l;
            Some (Some m)
  | _ => None
  end.

Definition as_mulp (v : val) : option mulp :=
  match v with VL [p; h; r] => do p <- as_ped p; do h <- as_oZ h; do r <- as_rangep r; Some (mkMulp p h r) | _ => None end.

Definition as_stepa (v : val) : option stepa :=
  match v with VL [b; e] => do b <- as_oZ b; do e <- as_oZ e; Some (mkSa b e) | _ => None end.
Definition as_stepb (v : val) : option stepb :=
  match v with VL [m; b; mp] => do m <- as_ped m; do b <- as_oZ b; do mp <- as_mulp mp; Some (mkSb m b mp) | _ => None end.
Definition as_stepp (v : val) : option stepp :=
  match v with VL [ac; a; bc; b] => do ac <- as_oZ ac; do a <- as_stepa a; do bc <- as_oZ bc; do b <- as_stepb b; Some (mkSt ac a bc b) | _ => None end.

Definition as_expp (v : val) : option expp :=
  match v with
  | VL [bits; biteq; bases; brange; brel; start; inter; irange; steps] =>
    do bits <- as_LL as_ped bits; do biteq <- as_oZ biteq; do bases <- as_LL as_ped bases;
    do brange <- as_LL as_rangep brange; do brel <- as_LL as_mulp brel; do start <- as_ped start;
    do inter <- as_LL as_ped inter; do irange <- as_LL as_rangep irange; do steps <- as_LL as_stepp steps;
    Some (mkExpp bits biteq bases brange brel start inter irange steps)
  | _ => None
  end.

Definition as_primep (v : val) : option primep :=
  match v with
  | VL [a1; a2; a3; a4; a5; a6; b1; b2; b3; b4; b5; b6; c1; c2; c3; c4; d1; d2] =>
    do a1 <- as_ped a1; do a2 <- as_ped a2; do a3 <- as_ped a3; do a4 <- as_ped a4; do a5 <- as_ped a5; do a6 <- as_ped a6;
    do b1 <- as_oZ b1; do b2 <- as_oZ b2; do b3 <- as_oZ b3; do b4 <- as_oZ b4; do b5 <- as_oZ b5; do b6 <- as_oZ b6;
    do c1 <- as_rangep c1; do c2 <- as_rangep c2; do c3 <- as_rangep c3; do c4 <- as_rangep c4;
    do d1 <- as_expp d1; do d2 <- as_expp d2;
    Some (mkPrimep a1 a2 a3 a4 a5 a6 b1 b2 b3 b4 b5 b6 c1 c2 c3 c4 d1 d2)
  | _ => None
  end.

Definition as_issqp (v : val) : option issqp :=
  match v with
  | VL [n; sq; rt; rr; rv] =>
    do n <- as_ped n; do sq <- as_LL as_ped sq; do rt <- as_LL as_ped rt; do rr <- as_LL as_rangep rr; do rv <- as_LL as_mulp rv;
    Some (mkIssq n sq rt rr rv)
  | _ => None
  end.

Definition as_asppp (v : val) : option asppp :=
  match v with VL [n; c; r] => do n <- as_oZ n; do c <- as_oLoZ c; do r <- as_oLoZ r; Some (mkAspp n c r) | _ => None end.
Definition as_qsppp (v : val) : option qsppp :=
  match v with VL [a; b; c; d] => do a <- as_oLoZ a; do b <- as_oLoZ b; do c <- as_oLoZ c; do d <- as_asppp d; Some (mkQspp a b c d) | _ => None end.

Definition as_vkp (v : val) : option vkp :=
  match v with
  | VL [p; q; pp; qp; rel; ch; gp; ppr; qpr; qs; bv] =>
    do p <- as_ped p; do q <- as_ped q; do pp <- as_ped pp; do qp <- as_ped qp; do rel <- as_oZ rel; do ch <- as_oZ ch; do gp <- as_oZ gp;
    do ppr <- as_primep ppr; do qpr <- as_primep qpr; do qs <- as_qsppp qs; do bv <- as_issqp bv;
    Some (mkVkp p q pp qp rel ch gp ppr qpr qs bv)
  | _ => None
  end.

(* environment of named pedersen proofs *)
Definition as_envp (v : val) : option (list (name * ped)) :=
  as_LL (fun e => match e with VL [n; p] => do n <- as_string n; do p <- as_ped p; Some (n, p) | _ => None end) v.
Definition env_bases (l : list (name * ped)) : env := List.concat (map (fun np => ped_bases (fst np) (snd np)) l).
Definition env_results (l : list (name * ped)) : env := List.concat (map (fun np => ped_results (fst np) (snd np)) l).

Definition ret (o : option val) : val := match o with Some v => v | None => bad_input end.
Definition of_out {A} (f : A -> val) (o : outcome A) : val :=
  match o with Ok a => VL [VZ 0; f a] | Err => VL [VZ 1] | Panic => VL [VZ 2] end.

(* result of a component check: (structure ok?, commitments) *)
Definition check_result (structure : bool) (l : outcome (list Z)) : val :=
  if structure then VL [VZ 1; of_out of_LZ l] else VL [VZ 0; VN].

Definition d_vk_verify (v : val) : val := ret (
  match v with
  | VL [n; bases; f1; f2; f3; p] =>
    do n <- as_Z n; do bases <- as_LZ bases; do f1 <- as_bool f1; do f2 <- as_bool f2; do f3 <- as_bool f3; do p <- as_vkp p;
    Some (of_out of_bool (vk_verify n bases f1 f2 f3 p))
  | _ => None
  end).

Definition d_qspp_verify (v : val) : val := ret (
  match v with
  | VL [n; c; f; p] => do n <- as_Z n; do c <- as_Z c; do f <- as_bool f; do p <- as_qsppp p;
                       Some (VL [of_bool (qspp_structure_ok p); if qspp_structure_ok p then of_out of_bool (qspp_verify n c f p) else VN])
  | _ => None
  end).

Definition d_gennaro (v : val) : val := ret (
  match v with
  | VL [VZ which; n; c; f; rs] =>
    do n <- as_Z n; do c <- as_Z c; do f <- as_bool f; do rs <- as_oLoZ rs;
    match which with
    | 0 => Some (VL [of_bool (responses_ok sf_iters rs); of_out of_bool (sf_verify n c rs)])
    | 1 => Some (VL [of_bool (responses_ok ppp_iters rs); if responses_ok ppp_iters rs then of_out of_bool (ppp_verify n c rs) else VN])
    | 2 => Some (VL [of_bool (responses_ok dpp_iters rs); if responses_ok dpp_iters rs then of_out of_bool (dpp_verify n c f rs) else VN])
    | _ => None
    end
  | _ => None
  end).

Definition d_ped_check (v : val) : val := ret (
  match v with
  | VL [gp; name; c; p] => do gp <- as_Z gp; do name <- as_string name; do c <- as_Z c; do p <- as_ped p;
                           Some (check_result (ped_structure_ok p) (ped_commitments (build_group gp) name c p))
  | _ => None
  end).

Definition d_mul_check (v : val) : val := ret (
  match v with
  | VL [gp; e; VL [m1; m2; md; rs]; l; c; p] =>
    do gp <- as_Z gp; do e <- as_envp e; do m1 <- as_string m1; do m2 <- as_string m2; do md <- as_string md; do rs <- as_string rs;
    do l <- as_Z l; do c <- as_Z c; do p <- as_mulp p;
    let s := mul_structure m1 m2 md rs l in
    Some (check_result (mul_structure_ok s p) (mul_commitments (build_group gp) (env_bases e) (env_results e) c s p))
  | _ => None
  end).

Definition d_exp_check (v : val) : val := ret (
  match v with
  | VL [gp; e; VL [b; x; md; rs]; l; c; p] =>
    do gp <- as_Z gp; do e <- as_envp e; do b <- as_string b; do x <- as_string x; do md <- as_string md; do rs <- as_string rs;
    do l <- as_Z l; do c <- as_Z c; do p <- as_expp p;
    let s := mkEs b x md rs (Z.to_nat l) in
    Some (check_result (exp_structure_ok c s p) (exp_commitments (build_group gp) (env_bases e) (env_results e) c s p))
  | _ => None
  end).

Definition d_prime_check (v : val) : val := ret (
  match v with
  | VL [gp; e; name; l; c; p] =>
    do gp <- as_Z gp; do e <- as_envp e; do name <- as_string name; do l <- as_Z l; do c <- as_Z c; do p <- as_primep p;
    let s := mkPs name (Z.to_nat l) in
    Some (check_result (prime_structure_ok c s p) (prime_commitments (build_group gp) (env_bases e) (env_results e) c s p))
  | _ => None
  end).

Definition d_issq_check (v : val) : val := ret (
  match v with
  | VL [gp; n; sq; c; p] =>
    do gp <- as_Z gp; do n <- as_Z n; do sq <- as_LZ sq; do c <- as_Z c; do p <- as_issqp p;
    Some (check_result (issq_structure_ok n sq p) (issq_commitments (build_group gp) c n sq p))
  | _ => None
  end).

(* prover-side formulas: Schnorr response, range-proof responses *)
Definition d_responses (v : val) : val := ret (
  match v with
  | VL [gp; secret; randomizer; c] =>
    do gp <- as_Z gp; do s <- as_Z secret; do r <- as_Z randomizer; do c <- as_Z c;
    Some (VZ (secret_result (build_group gp) s r c))
  | _ => None
  end).
