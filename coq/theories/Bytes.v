(* Big-endian byte strings of integers: Go's big.Int.Bytes / SetBytes. *)
From Coq Require Import ZArith List Lia.
From Gabi Require Import ModArith.
Import ListNotations.
Open Scope Z_scope.

Definition is_byte (b : Z) : Prop := 0 <= b < 256.

Fixpoint le_bytes (fuel : nat) (z : Z) : list Z :=
  match fuel with
  | O => []
  | S f => if z =? 0 then [] else (z mod 256) :: le_bytes f (z / 256)
  end.

Fixpoint le_to_Z (l : list Z) : Z :=
  match l with [] => 0 | b :: r => b + 256 * le_to_Z r end.

Definition be_to_Z (l : list Z) : Z := fold_left (fun acc b => acc * 256 + b) l 0.

(* Go: z.Bytes() — minimal big-endian bytes of |z|, empty for 0 *)
Definition be_bytes (z : Z) : list Z :=
  let a := Z.abs z in rev (le_bytes (Z.to_nat (bitlen a)) a).

Lemma le_bytes_spec fuel : forall z, 0 <= z < 2 ^ Z.of_nat fuel -> le_to_Z (le_bytes fuel z) = z.
Proof.
  induction fuel as [|f IH]; intros z Hz; cbn [le_bytes le_to_Z].
  - cbn in Hz. lia.
  - destruct (Z.eqb_spec z 0) as [->|Hnz]; [reflexivity|].
    cbn [le_to_Z]. rewrite IH.
    + pose proof (Z.div_mod z 256). lia.
    + rewrite Nat2Z.inj_succ, Z.pow_succ_r in Hz by lia.
      split; [apply Z.div_pos; lia|].
      apply Z.div_lt_upper_bound; [lia|].
      assert (2 ^ Z.of_nat f > 0) by (apply Z.lt_gt, Z.pow_pos_nonneg; lia). nia.
Qed.

Lemma le_bytes_bytes fuel : forall z, Forall is_byte (le_bytes fuel z).
Proof.
  induction fuel as [|f IH]; intros z; cbn [le_bytes]; [constructor|].
  destruct (z =? 0); constructor; [|apply IH].
  apply Z.mod_pos_bound. lia.
Qed.

Lemma be_to_Z_snoc l b : be_to_Z (l ++ [b]) = be_to_Z l * 256 + b.
Proof. unfold be_to_Z. now rewrite fold_left_app. Qed.

Lemma be_to_Z_rev l : be_to_Z (rev l) = le_to_Z l.
Proof.
  induction l as [|b r IH]; [reflexivity|].
  cbn [rev le_to_Z]. rewrite be_to_Z_snoc, IH. lia.
Qed.

Lemma be_bytes_roundtrip z : 0 <= z -> be_to_Z (be_bytes z) = z.
Proof.
  intros Hz. unfold be_bytes. rewrite Z.abs_eq by lia. rewrite be_to_Z_rev.
  apply le_bytes_spec. pose proof (bitlen_nonneg z). rewrite Z2Nat.id by lia.
  split; [lia|]. now apply bitlen_bound.
Qed.

Lemma be_bytes_bytes z : Forall is_byte (be_bytes z).
Proof. unfold be_bytes. apply Forall_rev. apply le_bytes_bytes. Qed.

Lemma be_to_Z_app l1 l2 :
  be_to_Z (l1 ++ l2) = be_to_Z l1 * 256 ^ Z.of_nat (length l2) + be_to_Z l2.
Proof.
  revert l1. induction l2 as [|b r IH] using rev_ind; intros l1.
  - rewrite app_nil_r. cbn. lia.
  - rewrite app_assoc, !be_to_Z_snoc, IH, app_length. cbn [length].
    rewrite Nat.add_1_r, Nat2Z.inj_succ, Z.pow_succ_r by lia. lia.
Qed.

Lemma be_to_Z_bound l : Forall is_byte l -> 0 <= be_to_Z l < 256 ^ Z.of_nat (length l).
Proof.
  induction l as [|b r IH] using rev_ind; intros H; [cbn; lia|].
  apply Forall_app in H as [Hr Hb]. inversion Hb as [|? ? Hb' _]; subst.
  specialize (IH Hr). rewrite be_to_Z_snoc, app_length. cbn [length].
  rewrite Nat.add_1_r, Nat2Z.inj_succ, Z.pow_succ_r by lia.
  unfold is_byte in Hb'. lia.
Qed.

Lemma be_to_Z_cons b l : be_to_Z (b :: l) = b * 256 ^ Z.of_nat (length l) + be_to_Z l.
Proof. change (b :: l) with ([b] ++ l). rewrite be_to_Z_app. cbn. lia. Qed.
