(* Generic value type: the wire format between the Go harness, the OCaml runner and
   the in-Coq case files.  Every modelled entry point is exposed as val -> val so that
   the (trusted) OCaml driver only has to parse and print this one type. *)
From Coq Require Import ZArith List.
Import ListNotations.
Open Scope Z_scope.

Inductive val : Type :=
| VZ (z : Z)
| VN                       (* Go nil *)
| VL (l : list val).

Definition as_Z (v : val) : option Z := match v with VZ z => Some z | _ => None end.
Definition as_oZ (v : val) : option (option Z) :=
  match v with VZ z => Some (Some z) | VN => Some None | _ => None end.
Definition as_L (v : val) : option (list val) := match v with VL l => Some l | _ => None end.
Definition as_bool (v : val) : option bool :=
  match v with VZ 0 => Some false | VZ 1 => Some true | _ => None end.

Fixpoint map_opt {A B} (f : A -> option B) (l : list A) : option (list B) :=
  match l with
  | [] => Some []
  | x :: xs => match f x, map_opt f xs with
               | Some y, Some ys => Some (y :: ys)
               | _, _ => None
               end
  end.

Definition as_LZ (v : val) : option (list Z) :=
  match v with VL l => map_opt as_Z l | _ => None end.
Definition as_LoZ (v : val) : option (list (option Z)) :=
  match v with VL l => map_opt as_oZ l | _ => None end.

(* association list  ((k v) (k v) ...) with option-valued entries *)
Definition as_pair {A} (f : val -> option A) (v : val) : option (Z * A) :=
  match v with
  | VL [VZ k; x] => match f x with Some a => Some (k, a) | None => None end
  | _ => None
  end.
Definition as_map {A} (f : val -> option A) (v : val) : option (list (Z * A)) :=
  match v with VL l => map_opt (as_pair f) l | _ => None end.
(* a Go map that may itself be nil *)
Definition as_omap {A} (f : val -> option A) (v : val) : option (option (list (Z * A))) :=
  match v with
  | VN => Some None
  | VL l => match map_opt (as_pair f) l with Some m => Some (Some m) | None => None end
  | _ => None
  end.

Definition of_bool (b : bool) : val := VZ (if b then 1 else 0).
Definition of_oZ (o : option Z) : val := match o with Some z => VZ z | None => VN end.
Definition of_LZ (l : list Z) : val := VL (map VZ l).
Definition of_map {A} (f : A -> val) (m : list (Z * A)) : val :=
  VL (map (fun kv => VL [VZ (fst kv); f (snd kv)]) m).

(* result of a decode failure: never produced by the implementation side *)
Definition bad_input : val := VL [VZ (-424242)].

Definition bindo {A B} (o : option A) (f : A -> option B) : option B :=
  match o with Some a => f a | None => None end.
Notation "'do' x <- e ; k" := (bindo e (fun x => k))
  (at level 200, x pattern, e at level 100, k at level 200, right associativity).
