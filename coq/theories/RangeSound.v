(* C12 / C13 : statement logic of range proofs against integer semantics; table splitter. *)
From Coq Require Import ZArith List Lia Bool.
From Gabi Require Import Val ModArith GoSem ParamsDef ZkProof Keys RangeProof.
Import ListNotations.
Open Scope Z_scope.

(* rangeproof/splitutils.go: SquaresTable for [limit]: entry (v-2)/4 holds the lexicographically
   largest (i,j,k) with i^2+j^2+k^2 = v (later loop iterations overwrite earlier ones) *)
Fixpoint search_k (fuel : nat) (rest : Z) (j : Z) : option (Z * Z) :=
  (* j counts down; find largest j with rest - j^2 a perfect square *)
  match fuel with
  | O => None
  | S f =>
    if j <? 0 then None
    else
      let r := rest - j * j in
      if r <? 0 then search_k f rest (j - 1)
      else let k := Z.sqrt r in
           if k * k =? r then Some (j, k) else search_k f rest (j - 1)
  end.

Fixpoint search_i (fuel : nat) (v : Z) (i : Z) : option (Z * Z * Z) :=
  match fuel with
  | O => None
  | S f =>
    if i <? 0 then None
    else
      let rest := v - i * i in
      if rest <? 0 then search_i f v (i - 1)
      else match search_k (S (Z.to_nat (Z.sqrt rest))) rest (Z.sqrt rest) with
           | Some (j, k) => Some (i, j, k)
           | None => search_i f v (i - 1)
           end
  end.

Definition three_squares (v : Z) : option (Z * Z * Z) :=
  search_i (S (Z.to_nat (Z.sqrt v))) v (Z.sqrt v).

(* splitutils.go:50 SquaresTable.Split for a table generated with [limit] (len = limit+1) *)
Definition table_split (limit : Z) (delta : Z) : outcome (list Z) :=
  if negb ((- 9223372036854775808 <=? delta) && (delta <=? 9223372036854775807)) then Err
  else if (delta <? 0) || negb (delta mod 4 =? 2) || (limit + 1 <=? (delta - 2) / 4) then Err
  else match three_squares delta with
       | Some (i, j, k) => Ok [i; j; k]
       | None => Panic       (* nil table entry: index out of range on t_[v][0] *)
       end.

(* splitutils.go:68 SquaresTable.Ld *)
Fixpoint ld_loop (fuel : nat) (l ld : Z) : Z :=
  match fuel with
  | O => ld
  | S f => if 0 <? l then ld_loop f (l / 4) (ld + 1) else ld
  end.
Definition table_ld (limit : Z) : Z := ld_loop 64 (limit + 1) 0 + 1.

Lemma search_k_sound fuel : forall rest j j' k, search_k fuel rest j = Some (j', k) -> j' * j' + k * k = rest.
Proof.
  induction fuel as [|f IH]; intros rest j j' k H; cbn in H; [discriminate|].
  destruct (j <? 0); [discriminate|].
  destruct (rest - j * j <? 0); [eauto|].
  destruct (Z.eqb_spec (Z.sqrt (rest - j * j) * Z.sqrt (rest - j * j)) (rest - j * j)) as [E|]; [|eauto].
  inversion H; subst. lia.
Qed.

Lemma search_i_sound fuel : forall v i i' j k, search_i fuel v i = Some (i', j, k) -> i' * i' + j * j + k * k = v.
Proof.
  induction fuel as [|f IH]; intros v i i' j k H; cbn [search_i] in H; [discriminate|].
  destruct (i <? 0); [discriminate|].
  destruct (v - i * i <? 0); [eauto|].
  destruct (search_k _ (v - i * i) _) as [[j0 k0]|] eqn:E; [|eauto].
  inversion H; subst. apply search_k_sound in E. lia.
Qed.

Theorem table_split_sound_lem limit delta ds : table_split limit delta = Ok ds ->
  exists i j k, ds = [i; j; k] /\ i * i + j * j + k * k = delta.
Proof.
  unfold table_split. destruct (negb _); [discriminate|]. destruct (_ || _); [discriminate|].
  destruct (three_squares delta) as [[[i j] k]|] eqn:E; [|discriminate].
  intros [= <-]. exists i, j, k. split; [reflexivity|]. unfold three_squares in E. now apply search_i_sound in E.
Qed.

(* ------------------------------------------------------------------------------------- *)
(* statement logic *)

(* the relation a verified range proof establishes (extractor, cited): some integers d_i with
   sum d_i^2 = delta.  It implies the inequality. *)
Lemma sum_squares_nonneg (ds : list Z) : 0 <= fold_right (fun d acc => d * d + acc) 0 ds.
Proof. induction ds as [|d r IH]; cbn; nia. Qed.

Theorem relation_implies_inequality_lem sign a k m ds :
  fold_right (fun d acc => d * d + acc) 0 ds = sign * (a * m - k) -> holds sign a k m.
Proof. intros H. unfold holds. rewrite <- H. apply sum_squares_nonneg. Qed.

(* With factors below 2^63 the exponent Go computes is the mathematical one *)
Lemma m_power_exact a sign : 0 <= a < 2 ^ 63 -> (sign = 1 \/ sign = -1) -> m_power a sign = - a * sign.
Proof.
  intros Ha Hs. unfold m_power, i64.
  change (2 ^ 63) with 9223372036854775808 in Ha.
  destruct Hs as [-> | ->].
  - rewrite (Z.mod_small (a + _)) by lia. rewrite (Z.mod_small (1 + _)) by lia.
    replace (a + 9223372036854775808 - 9223372036854775808) with a by lia.
    destruct (Z.eq_dec a 0) as [->|Hne]; [reflexivity|].
    rewrite (Z.mod_small (- a + _)) by lia.
    replace (- a + 9223372036854775808 - 9223372036854775808) with (- a) by lia.
    replace (1 + 9223372036854775808 - 9223372036854775808) with 1 by lia.
    rewrite Z.mul_1_r. rewrite (Z.mod_small (- a + _)) by lia. lia.
  - rewrite (Z.mod_small (a + _)) by lia. rewrite (Z.mod_small (-1 + _)) by lia.
    replace (a + 9223372036854775808 - 9223372036854775808) with a by lia.
    destruct (Z.eq_dec a 0) as [->|Hne]; [reflexivity|].
    rewrite (Z.mod_small (- a + _)) by lia.
    replace (- a + 9223372036854775808 - 9223372036854775808) with (- a) by lia.
    replace (-1 + 9223372036854775808 - 9223372036854775808) with (-1) by lia.
    replace (- a * -1) with a by lia. rewrite (Z.mod_small (a + _)) by lia. lia.
Qed.

(* what ExtractStructure accepts *)
Lemma extract_structure_ok ps idx p s : extract_structure ps idx p = Ok s ->
  exists k, rp_K p = Some k /\
    (rp_Sign p = 1 \/ rp_Sign p = -1) /\ rp_A p <= max_int64 /\
    (Z.of_nat (length (rp_Cs p)) = 3 \/ Z.of_nat (length (rp_Cs p)) = 4) /\
    (Z.of_nat (length (rp_Cs p)) = 3 -> rp_A p = 4) /\
    rp_Ld p <= Lm ps /\ bitlen k <= Lm ps + 64 /\
    s = mkRs idx (rp_Sign p) (rp_A p) k (rp_Ld p) (Z.of_nat (length (rp_Cs p))).
Proof.
  unfold extract_structure. destruct (rp_K p) as [k|]; [|discriminate].
  set (n := Z.of_nat (length (rp_Cs p))).
  destruct (Z.ltb_spec (Lm ps) (rp_Ld p)); cbn [orb]; [discriminate|].
  destruct (Z.ltb_spec n 3); cbn [orb]; [discriminate|].
  destruct (Z.ltb_spec 4 n); cbn [orb]; [discriminate|].
  destruct (Z.ltb_spec (Lm ps + 64) (bitlen k)); cbn [orb]; [discriminate|].
  destruct (Z.eqb_spec n 3) as [E3|E3]; cbn [andb].
  - destruct (Z.eqb_spec (rp_A p) 4) as [E4|E4]; cbn [negb]; [|discriminate].
    unfold new_with_params. destruct (Z.ltb_spec 4 n); [lia|].
    destruct (Z.ltb_spec max_int64 (rp_A p)); [discriminate|].
    destruct (Z.eqb_spec (rp_Sign p) 1); cbn [orb negb].
    + intros [= <-]. exists k. repeat split; auto; lia.
    + destruct (Z.eqb_spec (rp_Sign p) (-1)); cbn [negb]; [|discriminate].
      intros [= <-]. exists k. repeat split; auto; lia.
  - unfold new_with_params. destruct (Z.ltb_spec 4 n); [lia|].
    destruct (Z.ltb_spec max_int64 (rp_A p)); [discriminate|].
    destruct (Z.eqb_spec (rp_Sign p) 1); cbn [orb negb].
    + intros [= <-]. exists k. repeat split; auto; lia.
    + destruct (Z.eqb_spec (rp_Sign p) (-1)); cbn [negb]; [|discriminate].
      intros [= <-]. exists k. repeat split; auto; lia.
Qed.

(* a descriptor the verifier accepts *)
Definition accepted_descriptor (p : rproof) (k : Z) : Prop :=
  rp_K p = Some k /\ (rp_Sign p = 1 \/ rp_Sign p = -1) /\ 0 <= rp_A p <= max_int64 /\
  (Z.of_nat (length (rp_Cs p)) = 3 \/ Z.of_nat (length (rp_Cs p)) = 4) /\
  (Z.of_nat (length (rp_Cs p)) = 3 -> rp_A p = 4).

(* Everything the library says a proof proves or implies holds for the attribute value, given
   the relation the verified proof establishes for its own descriptor. *)
Theorem proves_statement_sound_lem p k m sign factor bound :
  accepted_descriptor p k -> 0 <= factor ->
  holds (rp_Sign p) (rp_A p) k m ->
  proves_statement p sign factor bound = true ->
  holds sign factor bound m.
Proof.
  intros (HK & Hs & HA & Hn & H3) Hf Hrel. unfold proves_statement, holds in *.
  destruct ((sign =? 1) || (sign =? -1)) eqn:Esg; cbn [negb]; [|discriminate].
  rewrite HK.
  destruct (Z.eqb_spec (Z.of_nat (length (rp_Cs p))) 3) as [E3|E3]; cbn [andb].
  - specialize (H3 E3).
    destruct (Z.ltb_spec (max_uint / 4) factor) as [|Hfl]; [discriminate|].
    change (max_uint / 4) with 4611686018427387903 in Hfl.
    unfold u64. rewrite Z.mod_small by lia.
    intros H. apply andb_prop in H as [H Hk]. apply andb_prop in H as [Hsg HAe].
    apply Z.eqb_eq in Hsg. apply Z.eqb_eq in HAe. rewrite H3 in HAe. assert (factor = 1) by lia. subst factor.
    rewrite <- Hsg in *. rewrite H3 in Hrel. unfold three_squares_bound in Hk.
    destruct Hs as [Hs|Hs]; rewrite Hs in *; cbn in Hk.
    + apply orb_prop in Hk as [Hk|Hk]; [apply Z.eqb_eq in Hk|apply Z.ltb_lt in Hk]; lia.
    + apply orb_prop in Hk as [Hk|Hk]; [apply Z.eqb_eq in Hk|apply Z.ltb_lt in Hk]; lia.
  - intros H. apply andb_prop in H as [H Hk]. apply andb_prop in H as [Hsg HAe].
    apply Z.eqb_eq in Hsg. apply Z.eqb_eq in HAe. rewrite <- Hsg, <- HAe in *.
    destruct Hs as [Hs|Hs]; rewrite Hs in *; cbn in Hk.
    + apply orb_prop in Hk as [Hk|Hk]; [apply Z.eqb_eq in Hk|apply Z.ltb_lt in Hk]; lia.
    + apply orb_prop in Hk as [Hk|Hk]; [apply Z.eqb_eq in Hk|apply Z.ltb_lt in Hk]; lia.
Qed.

(* The statement ProvenStatement reports holds too (for arbitrary K mod 4). *)
Theorem proven_statement_sound_lem p k m sign factor bound :
  accepted_descriptor p k ->
  holds (rp_Sign p) (rp_A p) k m ->
  proven_statement p = Some (sign, factor, bound) ->
  holds sign factor bound m.
Proof.
  intros (HK & Hs & HA & Hn & H3) Hrel. unfold proven_statement, holds in *. rewrite HK.
  destruct (Z.eqb_spec (Z.of_nat (length (rp_Cs p))) 3) as [E3|E3].
  - specialize (H3 E3). rewrite H3 in *. intros [= <- <- <-].
    rewrite !Z.shiftr_div_pow2 by lia. change (2 ^ 2) with 4. change (4 / 4) with 1.
    destruct Hs as [Hs|Hs]; rewrite Hs in *.
    + change (1 =? -1) with false. cbv iota.
      pose proof (Z.div_mod (k + 2) 4 ltac:(lia)). pose proof (Z.mod_pos_bound (k + 2) 4 ltac:(lia)). lia.
    + rewrite Z.eqb_refl.
      pose proof (Z.div_mod k 4 ltac:(lia)). pose proof (Z.mod_pos_bound k 4 ltac:(lia)). lia.
  - intros [= <- <- <-]. exact Hrel.
Qed.

(* ------------------------------------------------------------------------------------- *)
(* C13: the prover's side of the statement logic *)

(* the prover accepts exactly the true statements; for three squares the value to split is
   2 mod 4 (so that a decomposition exists) *)
Theorem prover_accepts_true_statements_lem idx sign factor bound nsq ld m s :
  (sign = 1 \/ sign = -1) -> 0 <= factor <= max_int64 -> nsq = 3 \/ nsq = 4 ->
  new_proof_structure idx sign factor bound nsq ld = Ok s ->
  (0 <= delta s m <-> holds sign factor bound m) /\
  (nsq = 3 -> delta s m mod 4 = 2) /\
  rs_n s = nsq /\ rs_ld s = ld /\ rs_index s = idx /\ rs_sign s = sign.
Proof.
  intros Hs Hf Hn. unfold new_proof_structure, holds.
  assert (Hi64 : forall a, 0 <= a <= max_int64 -> i64 a = a).
  { intros a Ha. unfold i64, max_int64 in *. rewrite Z.mod_small by lia. lia. }
  destruct (Z.eqb_spec nsq 3) as [E3|E3].
  - destruct (Z.eqb_spec factor 1) as [->|]; cbn [negb]; [|discriminate].
    unfold new_with_params. subst nsq. change (4 <? 3) with false. cbv iota. change (u64 (1 * 4)) with 4.
    destruct (Z.ltb_spec max_int64 4); [unfold max_int64 in *; lia|].
    destruct Hs as [-> | ->].
    + change ((1 =? 1) || (1 =? -1)) with true. cbn [negb]. intros [= <-].
      unfold delta, three_squares_bound; cbn [rs_a rs_k rs_sign rs_n rs_ld rs_index].
      change (1 =? -1) with false. cbv iota. rewrite (Hi64 4) by (unfold max_int64; lia).
      repeat split; try reflexivity; try lia.
      intros _. replace (m * 4 - (bound * 4 - 2)) with (2 + (m - bound) * 4) by lia. now rewrite Z.mod_add by lia.
    + change ((-1 =? 1) || (-1 =? -1)) with true. cbn [negb]. intros [= <-].
      unfold delta, three_squares_bound; cbn [rs_a rs_k rs_sign rs_n rs_ld rs_index].
      change (-1 =? -1) with true. cbv iota. rewrite (Hi64 4) by (unfold max_int64; lia).
      repeat split; try reflexivity; try lia.
      intros _. replace (- (m * 4 - (bound * 4 + 2))) with (2 + (bound - m) * 4) by lia. now rewrite Z.mod_add by lia.
  - assert (nsq = 4) by lia. subst nsq. unfold new_with_params. change (4 <? 4) with false. cbv iota.
    destruct (Z.ltb_spec max_int64 factor); [lia|].
    destruct Hs as [-> | ->].
    + change ((1 =? 1) || (1 =? -1)) with true. cbn [negb]. intros [= <-].
      unfold delta; cbn [rs_a rs_k rs_sign rs_n rs_ld rs_index].
      change (1 =? -1) with false. cbv iota. rewrite (Hi64 factor) by lia.
      repeat split; try reflexivity; try lia.
    + change ((-1 =? 1) || (-1 =? -1)) with true. cbn [negb]. intros [= <-].
      unfold delta; cbn [rs_a rs_k rs_sign rs_n rs_ld rs_index].
      change (-1 =? -1) with true. cbv iota. rewrite (Hi64 factor) by lia.
      repeat split; try reflexivity; try lia.
Qed.

(* the proof the prover builds is reported by the library as proving the requested statement *)
Theorem built_proof_proves_request_lem idx sign factor bound nsq ld s cm c :
  (sign = 1 \/ sign = -1) -> 0 <= factor <= max_int64 -> nsq = 3 \/ nsq = 4 ->
  new_proof_structure idx sign factor bound nsq ld = Ok s ->
  Z.of_nat (length (rc_c cm)) = nsq ->
  proves_statement (build_proof s cm c) sign factor bound = true.
Proof.
  intros Hs Hf Hn Hst Hlen. unfold proves_statement, build_proof. cbn [rp_Cs rp_K rp_Sign rp_A].
  rewrite map_length, Hlen.
  assert (Esg : (sign =? 1) || (sign =? -1) = true) by (destruct Hs as [-> | ->]; reflexivity).
  rewrite Esg. cbn [negb].
  unfold new_proof_structure in Hst.
  destruct (Z.eqb_spec nsq 3) as [E3|E3]; cbn [andb].
  - destruct (Z.eqb_spec factor 1) as [->|]; cbn [negb] in Hst; [|discriminate].
    change (max_uint / 4 <? 1) with false. cbv iota.
    unfold new_with_params in Hst. rewrite E3 in Hst. change (4 <? 3) with false in Hst. cbv iota in Hst.
    change (u64 (1 * 4)) with 4 in *.
    change (max_int64 <? 4) with false in Hst. cbv iota in Hst.
    rewrite Esg in Hst. cbn [negb] in Hst. cbv iota in Hst. injection Hst as <-. cbn [rs_sign rs_a rs_k].
    rewrite !Z.eqb_refl. reflexivity.
  - assert (E4 : nsq = 4) by lia. unfold new_with_params in Hst. rewrite E4 in Hst. change (4 <? 4) with false in Hst. cbv iota in Hst.
    assert (El : (max_int64 <? factor) = false) by (apply Z.ltb_ge; lia). rewrite El in Hst.
    rewrite Esg in Hst. cbn [negb] in Hst. cbv iota in Hst.
    injection Hst as <-. cbn [rs_sign rs_a rs_k]. rewrite !Z.eqb_refl. reflexivity.
Qed.

(* every value 2 mod 4 up to 4*1024+2 has a three-square decomposition (the table for limit
   1024 is complete); finite statement proved by computation, bound in the statement *)
Definition three_squares_complete_upto (limit : Z) : bool :=
  forallb (fun i => match three_squares (4 * i + 2) with Some _ => true | None => false end) (zrange (limit + 1)).

Theorem table_complete_1024_lem : three_squares_complete_upto 1024 = true.
Proof. vm_compute. reflexivity. Qed.

Theorem table_split_complete_1024_lem delta :
  0 <= delta <= 4 * 1024 + 2 -> delta mod 4 = 2 -> exists ds, table_split 1024 delta = Ok ds.
Proof.
  intros Hd Hm.
  assert (Hd2 : 2 <= delta).
  { pose proof (Z.div_mod delta 4 ltac:(lia)). assert (0 <= delta / 4) by (apply Z.div_pos; lia). lia. }
  unfold table_split.
  destruct (_ && _) eqn:E; cbn [negb].
  2:{ apply andb_false_iff in E as [E|E]; [apply Z.leb_gt in E|apply Z.leb_gt in E]; lia. }
  destruct (Z.ltb_spec delta 0); [lia|]. cbn [orb]. rewrite Hm. change (2 =? 2) with true. cbn [negb orb].
  assert (Hq : (delta - 2) / 4 <= 1024) by (apply Z.div_le_upper_bound; lia).
  destruct (Z.leb_spec (1024 + 1) ((delta - 2) / 4)); [lia|].
  pose proof table_complete_1024_lem as Hc. unfold three_squares_complete_upto in Hc.
  rewrite forallb_forall in Hc. specialize (Hc ((delta - 2) / 4)).
  assert (Hin : In ((delta - 2) / 4) (zrange (1024 + 1))).
  { unfold zrange. apply in_map_iff. exists (Z.to_nat ((delta - 2) / 4)).
    assert (0 <= (delta - 2) / 4) by (apply Z.div_pos; lia).
    split; [lia|]. apply in_seq. lia. }
  specialize (Hc Hin).
  assert (Hdd : 4 * ((delta - 2) / 4) + 2 = delta).
  { pose proof (Z.div_mod (delta - 2) 4 ltac:(lia)).
    assert ((delta - 2) mod 4 = 0).
    { replace (delta - 2) with (delta + (-1) * 2) by lia.
      rewrite <- Zplus_mod_idemp_l, Hm. reflexivity. }
    lia. }
  rewrite Hdd in Hc. cbv iota. destruct (three_squares delta) as [[[i j] k]|]; [eauto|discriminate].
Qed.

(* A range proof that passes the structure check has commitments C_i that are invertible modulo N: the degenerate
   commitments (0 modulo N) with which the two relations of the proof hold vacuously, for any bound, are refused. *)
Lemma range_commitments_are_units_lem pk s p :
  verify_proof_structure pk s p = true ->
  forall i, In i (zrange (rs_n s)) -> exists c, nth_ptr (rp_Cs p) i = Some c /\ Z.gcd c (pk_N pk) = 1.
Proof.
  unfold verify_proof_structure. intros H i Hi.
  apply andb_true_iff in H as [_ H]. rewrite forallb_forall in H. specialize (H i Hi).
  apply andb_true_iff in H as [_ H]. unfold coprime_ok in H.
  destruct (nth_ptr (rp_Cs p) i) as [c|]; [|discriminate]. exists c. split; [reflexivity|now apply Z.eqb_eq].
Qed.
