(* internal/common/mathutil.go:299 PrimeSqrt (Tonelli-Shanks with the 3 mod 4 shortcut) and :357 ModSqrt (roots
   modulo each factor, recombined with Crt).  Loops run on fuel; running out of fuel is the outcome Panic and stands for
   'does not return' (it cannot happen for a prime modulus; the theorems are about the values returned). *)
From Coq Require Import ZArith List Bool Lia.
From Coq Require Import Znumtheory.
From Gabi Require Import Val ModArith GoSem MathUtil SquareModN.
Import ListNotations.
Open Scope Z_scope.

Fixpoint find_nonresidue (fuel : nat) (z p : Z) : outcome Z :=
  match fuel with
  | O => Panic
  | S f => if legendre z p =? -1 then Ok z else find_nonresidue f (z + 1) p
  end.

(* p - 1 = 2^M * Q *)
Fixpoint split_twos (fuel : nat) (q m : Z) : outcome (Z * Z) :=
  match fuel with
  | O => Panic
  | S f => if Z.odd q then Ok (q, m) else split_twos f (Z.shiftr q 1) (m + 1)
  end.

(* least i with tp^(2^i) = 1 *)
Fixpoint order_two (fuel : nat) (tp p i : Z) : outcome Z :=
  match fuel with
  | O => Panic
  | S f => if tp =? 1 then Ok i else order_two f (powx p tp 2) p (i + 1)
  end.

Fixpoint ts_loop (fuel : nat) (p m c t r : Z) : outcome Z :=
  match fuel with
  | O => Panic
  | S f =>
    if t =? 1 then Ok r
    else
      let! i := order_two (Z.to_nat m + 2)%nat t p 0 in
      if m - i - 1 <? 0 then Panic         (* uint(M-i-1) of a negative number: shift count out of range *)
      else
        let b := powx p c (2 ^ (m - i - 1)) in
        let c' := powx p b 2 in
        ts_loop f p i c' ((t * c') mod p) ((r * b) mod p)
  end.

(* result: None = "not a square" (second return value false) *)
Definition prime_sqrt (a p : Z) : outcome (option Z) :=
  if a =? 0 then Ok (Some 0)
  else if negb (powx p a (Z.shiftr p 1) =? 1) then Ok None
  else if p mod 4 =? 3 then Ok (Some (powx p a (Z.shiftr p 2 + 1)))
  else
    let fuel := (Z.to_nat (bitlen p) + 2)%nat in
    let! z := find_nonresidue (Z.to_nat (bitlen p) + 64)%nat 2 p in
    let! (q, m) := split_twos fuel (p - 1) 0 in
    let! r := ts_loop fuel p m (powx p z q) (powx p a q) (powx p a (Z.shiftr q 1 + 1)) in
    Ok (Some r).

(* ModSqrt: [n] product of the factors so far, [res] root modulo n *)
Fixpoint mod_sqrt_loop (a : Z) (factors : list Z) (first : bool) (n res : Z) : outcome (option Z) :=
  match factors with
  | [] => Ok (Some res)
  | fac :: rest =>
    let! loc :=
      (if fac =? 4 then
         if Z.testbit a 1 then Ok None
         else Ok (Some (if Z.testbit a 0 then 1 else 2))
       else prime_sqrt (a mod fac) fac) in
    match loc with
    | None => Ok None
    | Some l =>
      let! res' := (if first then Ok l else crt res n l fac) in
      mod_sqrt_loop a rest false (n * fac) res'
    end
  end.

Definition mod_sqrt (a : Z) (factors : list Z) : outcome (option Z) := mod_sqrt_loop a factors true 1 0.

(* ---------------------------------------------------------------------------------- *)
(* soundness: whatever is returned squares to the input; no primality is needed for this direction *)

Section Sound.
Variable p : Z.
Hypothesis Hp : 1 < p.

Lemma sq_powm x : (powm p x 2) = (x * x) mod p.
Proof. unfold powm. f_equal. ring. Qed.

Lemma ts_loop_sound a : forall fuel m c t r res,
  (r * r) mod p = (a * t) mod p -> 0 <= t < p ->
  ts_loop fuel p m c t r = Ok res -> (res * res) mod p = a mod p.
Proof.
  induction fuel as [|f IH]; intros m c t r res Hinv Ht H; [discriminate|].
  cbn [ts_loop] in H. destruct (Z.eqb_spec t 1) as [->|Hne].
  - inversion H; subst. rewrite Hinv. now rewrite Z.mul_1_r.
  - destruct (order_two _ t p 0) as [i| |]; cbn [obind] in H; try discriminate.
    destruct (m - i - 1 <? 0); [discriminate|].
    apply IH in H; [exact H| |apply Z.mod_pos_bound; lia].
    rewrite !powx_powm by lia.
    set (b := powm p c (2 ^ (m - i - 1))).
    rewrite sq_powm.
    (* (r b)^2 = r^2 b^2 = a t b^2 *)
    assert (L : ((r * b) mod p * ((r * b) mod p)) mod p = ((a * t) * (b * b)) mod p).
    { rewrite <- Z.mul_mod by lia. replace (r * b * (r * b)) with ((r * r) * (b * b)) by ring.
      rewrite Z.mul_mod by lia. rewrite Hinv. now rewrite <- Z.mul_mod by lia. }
    assert (R : (a * ((t * ((b * b) mod p)) mod p)) mod p = ((a * t) * (b * b)) mod p).
    { rewrite Z.mul_mod_idemp_r by lia. replace (a * (t * ((b * b) mod p))) with ((a * t) * ((b * b) mod p)) by ring.
      now rewrite Z.mul_mod_idemp_r by lia. }
    now rewrite L, R.
Qed.

Lemma split_twos_odd : forall fuel q m q' m', split_twos fuel q m = Ok (q', m') -> Z.odd q' = true.
Proof.
  induction fuel as [|f IH]; intros q m q' m' H; [discriminate|]. cbn [split_twos] in H.
  destruct (Z.odd q) eqn:E; [inversion H; now subst|]. eapply IH; exact H.
Qed.

Theorem prime_sqrt_sound_lem a r : 0 <= a -> Z.odd p = true ->
  prime_sqrt a p = Ok (Some r) -> (r * r) mod p = a mod p.
Proof.
  intros Ha Hodd H. unfold prime_sqrt in H.
  destruct (Z.eqb_spec a 0) as [->|Ha0]; [inversion H; reflexivity|].
  destruct (Z.eqb_spec (powx p a (Z.shiftr p 1)) 1) as [Hval|]; cbn [negb] in H; [|discriminate].
  rewrite powx_powm in Hval by lia.
  assert (Hhalf : Z.shiftr p 1 = (p - 1) / 2).
  { rewrite Z.shiftr_div_pow2 by lia. change (2 ^ 1) with 2. rewrite Zodd_mod in Hodd. apply Zeq_is_eq_bool in Hodd.
    pose proof (Z.div_mod p 2 ltac:(lia)). pose proof (Z.div_mod (p - 1) 2 ltac:(lia)).
    assert ((p - 1) mod 2 = 0) by (rewrite Zminus_mod, Hodd; reflexivity). lia. }
  destruct (Z.eqb_spec (p mod 4) 3) as [H34|H34].
  - (* p = 3 mod 4: r = a^((p+1)/4), r^2 = a^((p+1)/2) = a * a^((p-1)/2) *)
    inversion H; subst r; clear H. rewrite powx_powm by lia.
    assert (Hq : Z.shiftr p 2 + 1 = (p + 1) / 4).
    { rewrite Z.shiftr_div_pow2 by lia. change (2 ^ 2) with 4.
      pose proof (Z.div_mod p 4 ltac:(lia)). pose proof (Z.div_mod (p + 1) 4 ltac:(lia)).
      assert ((p + 1) mod 4 = 0) by (rewrite Zplus_mod, H34; reflexivity). lia. }
    rewrite Hq. set (k := (p + 1) / 4).
    assert (Hk : 2 * k = (p - 1) / 2 + 1).
    { unfold k. pose proof (Z.div_mod (p + 1) 4 ltac:(lia)). pose proof (Z.div_mod (p - 1) 2 ltac:(lia)).
      assert ((p + 1) mod 4 = 0) by (rewrite Zplus_mod, H34; reflexivity).
      assert ((p - 1) mod 2 = 0).
      { rewrite Zodd_mod in Hodd. apply Zeq_is_eq_bool in Hodd. rewrite Zminus_mod, Hodd. reflexivity. }
      lia. }
    assert (K0 : 0 <= k) by (unfold k; apply Z.div_pos; lia).
    rewrite <- sq_powm. rewrite powm_powm by lia. rewrite Z.mul_comm, Hk.
    rewrite powm_add by (try lia; apply Z.div_pos; lia). rewrite <- Hhalf, Hval.
    unfold mulm. rewrite Z.mul_1_l. unfold powm. rewrite Z.pow_1_r. now rewrite Z.mod_mod by lia.
  - destruct (find_nonresidue _ 2 p) as [z| |]; cbn [obind] in H; try discriminate.
    destruct (split_twos _ (p - 1) 0) as [[q m]| |] eqn:Es; cbn [obind] in H; try discriminate.
    destruct (ts_loop _ p m _ _ _) as [res| |] eqn:El; cbn [obind] in H; try discriminate.
    inversion H; subst res; clear H.
    pose proof (split_twos_odd _ _ _ _ _ Es) as Hq.
    apply (ts_loop_sound a) in El; [exact El| |rewrite powx_powm by lia; apply powm_range; lia].
    rewrite !powx_powm by lia.
    (* q odd, q >= 0 or not: shiftr q 1 + 1 = (q + 1) / 2 *)
    destruct (Z.ltb_spec q 0) as [Hneg|Hpos].
    + (* negative q cannot come out of p - 1 >= 1; powm with a negative exponent is 0^... : handle via definition *)
      exfalso. clear El. revert Es Hneg. generalize (Z.to_nat (bitlen p) + 2)%nat. intros fuel. 
      assert (G : forall fuel q0 m0, 0 <= q0 -> split_twos fuel q0 m0 = Ok (q, m) -> 0 <= q).
      { induction fuel0 as [|f IHf]; intros q0 m0 Hq0 E; [discriminate|]. cbn [split_twos] in E.
        destruct (Z.odd q0); [inversion E; subst; exact Hq0|]. eapply IHf; [|exact E]. apply Z.shiftr_nonneg. exact Hq0. }
      intros Es Hneg. specialize (G fuel (p - 1) 0 ltac:(lia) Es). lia.
    + assert (Hs : Z.shiftr q 1 + 1 = (q + 1) / 2).
      { rewrite Z.shiftr_div_pow2 by lia. change (2 ^ 1) with 2. rewrite Zodd_mod in Hq. apply Zeq_is_eq_bool in Hq.
        pose proof (Z.div_mod q 2 ltac:(lia)). pose proof (Z.div_mod (q + 1) 2 ltac:(lia)).
        assert ((q + 1) mod 2 = 0) by (rewrite Zplus_mod, Hq; reflexivity). lia. }
      rewrite Hs. set (k := (q + 1) / 2).
      assert (Hk : 2 * k = q + 1).
      { unfold k. rewrite Zodd_mod in Hq. apply Zeq_is_eq_bool in Hq. pose proof (Z.div_mod (q + 1) 2 ltac:(lia)).
        assert ((q + 1) mod 2 = 0) by (rewrite Zplus_mod, Hq; reflexivity). lia. }
      assert (K0 : 0 <= k) by (unfold k; apply Z.div_pos; lia).
      rewrite <- sq_powm. rewrite powm_powm by lia. rewrite Z.mul_comm, Hk.
      rewrite (Z.add_comm q 1). rewrite powm_add by lia.
      assert (E1 : powm p a 1 = a mod p) by (unfold powm; now rewrite Z.pow_1_r).
      rewrite E1. unfold mulm. now rewrite Z.mul_mod_idemp_l by lia.
Qed.

End Sound.

(* ---- ModSqrt ---- *)

Definition good_factor (f : Z) : Prop := f = 4 \/ (1 < f /\ Z.odd f = true).

Lemma crt_coprime a pa b pb x : crt a pa b pb = Ok x -> Z.gcd pa pb = 1.
Proof.
  unfold crt. destruct (xgcd pa pb) as [[z s2] s1] eqn:E.
  destruct (Z.eqb_spec z 1) as [->|]; cbn [negb]; [|discriminate]. intros _.
  apply xgcd_bezout in E. apply Z.bezout_1_gcd. exists s2, s1. lia.
Qed.

Lemma root_mod_four a : 0 <= a -> Z.testbit a 1 = false ->
  let l := if Z.testbit a 0 then 1 else 2 in (l * l) mod 4 = a mod 4.
Proof.
  intros Ha H1. cbv zeta.
  assert (B1 : Z.odd (a / 2) = false).
  { rewrite <- Z.bit0_odd. change (a / 2) with (a / 2 ^ 1). rewrite <- Z.shiftr_div_pow2 by lia.
    rewrite Z.shiftr_spec by lia. exact H1. }
  rewrite Z.bit0_odd.
  pose proof (Z.div_mod a 2 ltac:(lia)) as D0. pose proof (Z.mod_pos_bound a 2 ltac:(lia)) as R0.
  pose proof (Z.div_mod (a / 2) 2 ltac:(lia)) as D1. pose proof (Z.mod_pos_bound (a / 2) 2 ltac:(lia)) as R1.
  rewrite Zodd_mod in B1. apply Zeq_bool_neq in B1.
  assert (E4 : a mod 4 = a - 4 * (a / 2 / 2)).
  { rewrite Z.div_div by lia. change (2 * 2) with 4. pose proof (Z.div_mod a 4 ltac:(lia)). lia. }
  rewrite E4.
  destruct (Z.odd a) eqn:O0; rewrite Zodd_mod in O0.
  - apply Zeq_is_eq_bool in O0. change (1 * 1) with 1. rewrite Z.mod_small by lia. lia.
  - apply Zeq_bool_neq in O0. change (2 * 2) with 4. rewrite Z.mod_same by lia. lia.
Qed.

Lemma mod_sqrt_loop_sound a : 0 <= a -> forall factors first n res r,
  Forall good_factor factors -> 0 < n -> (first = true -> n = 1) -> (res * res) mod n = a mod n ->
  mod_sqrt_loop a factors first n res = Ok (Some r) ->
  let N := fold_left Z.mul factors n in (r * r) mod N = a mod N.
Proof.
  intros Ha. induction factors as [|fac rest IH]; intros first n res r Hg Hn Hfirst Hinv H; cbn [mod_sqrt_loop fold_left] in *.
  - now inversion H; subst.
  - inversion Hg as [|? ? Hf Hg']; subst.
    assert (Hfac : 1 < fac) by (destruct Hf as [->|[? _]]; lia).
    set (loc := if fac =? 4 then _ else _) in H.
    assert (Hloc : forall l, loc = Ok (Some l) -> (l * l) mod fac = a mod fac).
    { intros l Hl. unfold loc in Hl. destruct (Z.eqb_spec fac 4) as [->|Hne].
      - destruct (Z.testbit a 1) eqn:B1; [discriminate|]. inversion Hl; subst l. now apply root_mod_four.
      - destruct Hf as [->|[_ Hodd]]; [congruence|].
        apply (prime_sqrt_sound_lem fac Hfac (a mod fac) l) in Hl; [|apply Z.mod_pos_bound; lia|exact Hodd].
        now rewrite Z.mod_mod in Hl by lia. }
    destruct loc as [[l|]| |]; cbn [obind] in H; try discriminate.
    specialize (Hloc l eq_refl).
    destruct first.
    + cbn [obind] in H. rewrite (Hfirst eq_refl) in *. rewrite Z.mul_1_l in *.
      apply (IH false fac l r Hg'); try assumption; try lia; try discriminate.
    + destruct (crt res n l fac) as [res'| |] eqn:Ec; cbn [obind] in H; try discriminate.
      pose proof (crt_coprime _ _ _ _ _ Ec) as Hcop.
      destruct (crt_spec_lem res n l fac res' Hn ltac:(lia) Ec) as (C1 & C2 & _).
      apply (IH false (n * fac) res' r Hg'); try assumption; try nia; try discriminate.
      apply congruent_mod_product; try assumption; try lia.
      * rewrite Z.mul_mod, C1, <- Z.mul_mod by lia. exact Hinv.
      * rewrite Z.mul_mod, C2, <- Z.mul_mod by lia. exact Hloc.
Qed.

Theorem mod_sqrt_sound_lem a factors r : 0 <= a -> Forall good_factor factors ->
  mod_sqrt a factors = Ok (Some r) ->
  let N := fold_left Z.mul factors 1 in (r * r) mod N = a mod N.
Proof.
  intros Ha Hg H. apply (mod_sqrt_loop_sound a Ha factors true 1 0 r Hg); try lia; try reflexivity; [now rewrite !Z.mod_1_r|exact H].
Qed.

(* the modelled functions evaluate: 10 is a square modulo 13 (Tonelli-Shanks branch) and modulo 4 * 13 * 31 *)
Example prime_sqrt_runs : prime_sqrt 10 13 = Ok (Some 7) /\ prime_sqrt 5 13 = Ok None /\ prime_sqrt 2 7 = Ok (Some 4).
Proof. vm_compute. repeat split. Qed.
