(* revocation/proof.go : the non-revocation zero-knowledge proof. *)
From Coq Require Import ZArith List Lia Bool.
From Gabi Require Import Val ModArith GoSem ParamsDef ZkProof Keys.
From GabiGen Require Import Consts.
Import ListNotations.
Open Scope Z_scope.

Record acc := mkAcc { acc_Nu : Z; acc_Index : Z; acc_Time : Z }.

(* result of SignedAccumulator.UnmarshalVerify(pk) — ECDSA and CBOR are not modelled; the
   harness observes this value from the implementation and passes it in *)
Inductive sacc_res := SaccNil | SaccBad | SaccPanic | SaccOk (a : acc).

Record nrproof := mkNr {
  nr_Cr : option Z; nr_Cu : option Z;
  nr_Nu : option Z; nr_Chal : option Z;            (* json:"-" : set by SetExpected *)
  nr_resp : option (list (Z * option Z));          (* Responses: nil map or entries; key ids below *)
  nr_sacc : sacc_res
}.

(* response names as map keys *)
Definition k_alpha := 0. Definition k_beta := 1. Definition k_delta := 2.
Definition k_epsilon := 3. Definition k_zeta := 4.

Definition sname_key (s : sname) : Z :=
  match s with Salpha => 0 | Sbeta => 1 | Sdelta => 2 | Sepsilon => 3 | Szeta => 4 | _ => -1 end.

Definition nr_result (p : nrproof) (s : sname) : option Z :=
  match nr_resp p with
  | Some m => lookup_ptr m (sname_key s)
  | None => None
  end.

Fixpoint map_set (m : list (Z * option Z)) (k : Z) (v : option Z) : list (Z * option Z) :=
  match m with
  | [] => [(k, v)]
  | (k', v') :: r => if k' =? k then (k, v) :: r else (k', v') :: map_set r k v
  end.

(* proof.go:121 proofstructure *)
Definition ps_cr : qrstruct := mkQr [(Bcr, 1)] [mkRhs BG Sepsilon 1; mkRhs BH Szeta 1].
Definition ps_nu : qrstruct := mkQr [(Bnu, 1)] [mkRhs Bcu Salpha 1; mkRhs BH Sbeta (-1)].
Definition ps_one : qrstruct := mkQr [(Bone, 1)] [mkRhs Bcr Salpha 1; mkRhs BG Sbeta (-1); mkRhs BH Sdelta (-1)].

Definition unmarshal_verify (s : sacc_res) : outcome acc :=
  match s with
  | SaccNil => Panic | SaccPanic => Panic | SaccBad => Err | SaccOk a => Ok a
  end.

Definition is_some {A} (o : option A) : bool := match o with Some _ => true | None => false end.

Definition revocation_supported (pk : pubkey) : bool :=
  is_some (pk_G pk) && is_some (pk_H pk) && pk_has_ecdsa pk.

Definition sacc_is_nil (s : sacc_res) : bool := match s with SaccNil => true | _ => false end.

(* the structural checks at the head of SetExpected *)
Definition nr_wellformed (pk : pubkey) (p : nrproof) (challenge response : option Z) : bool :=
  revocation_supported pk &&
  is_some (nr_Cr p) && is_some (nr_Cu p) && negb (sacc_is_nil (nr_sacc p)) &&
  is_some (nr_resp p) && is_some challenge && is_some response &&
  is_some (nr_result p Sbeta) && is_some (nr_result p Sdelta) &&
  is_some (nr_result p Sepsilon) && is_some (nr_result p Szeta) &&
  (* Cr and Cu invertible modulo N (a commitment that is 0 modulo N makes its relations vacuous) *)
  match nr_Cr p, nr_Cu p with
  | Some cr, Some cu => (Z.gcd cr (pk_N pk) =? 1) && (Z.gcd cu (pk_N pk) =? 1)
  | _, _ => false
  end.

(* proof.go:196 SetExpected *)
Definition set_expected (pk : pubkey) (p : nrproof) (challenge : option Z) (response : option Z)
  : outcome nrproof :=
  if negb (nr_wellformed pk p challenge response) then Err
  else
  let! a := unmarshal_verify (nr_sacc p) in
  let! m := deref (nr_resp p) in            (* write to a nil map panics *)
  Ok (mkNr (nr_Cr p) (nr_Cu p) (Some (acc_Nu a)) challenge (Some (map_set m k_alpha response)) (nr_sacc p)).

(* BaseMerge(pk, proofCommit{cr,cu,nu}) *)
Definition nr_bases (pk : pubkey) (cr cu nu : option Z) (b : bname) : option Z :=
  match pk_base pk b with
  | Some x => Some x
  | None =>
    match b with
    | Bcr => cr | Bcu => cu | Bnu => nu | Bone => Some 1
    | _ => None
    end
  end.

(* proof.go:207 ChallengeContributions / :423 commitmentsFromProof *)
Definition nr_challenge_contributions (pk : pubkey) (p : nrproof) : outcome (list (option Z)) :=
  let n := pk_N pk in
  let bases := nr_bases pk (nr_Cr p) (nr_Cu p) (nr_Nu p) in
  let! c := deref (nr_Chal p) in
  let! c1 := qr_from_proof_gen true n bases (nr_result p) c ps_cr in
  let! c2 := qr_from_proof_gen true n bases (nr_result p) c ps_nu in
  let! c3 := qr_from_proof_gen true n bases (nr_result p) c ps_one in
  Ok [nr_Cr p; nr_Cu p; nr_Nu p; Some c1; Some c2; Some c3].

(* proof.go:437 verifyProofStructure *)
Definition nr_verify_structure (p : nrproof) : bool :=
  match nr_result p Salpha, nr_result p Sbeta, nr_result p Sdelta, nr_result p Sepsilon, nr_result p Szeta,
        nr_Cr p, nr_Cu p, nr_Nu p, nr_Chal p with
  | Some _, Some _, Some _, Some _, Some _, Some _, Some _, Some _, Some _ => true
  | _, _, _, _, _, _, _, _, _ => false
  end.

(* proof.go:212 VerifyWithChallenge *)
Definition nr_verify_with_challenge (p : nrproof) (rc : Z) : outcome bool :=
  if negb (nr_verify_structure p) then Ok false
  else
    match nr_result p Salpha, nr_Nu p, nr_Chal p with
    | Some alpha, Some nu, Some ch =>
      if rev_bTwoZk <? alpha then Ok false
      else
        match nr_sacc p with
        | SaccOk a => if negb (nu =? acc_Nu a) then Ok false else Ok (ch =? rc)
        | SaccBad => Ok false
        | _ => Panic
        end
    | _, _, _ => Ok false
    end.

(* wire: (Cr Cu Nu Chal resp|_ sacc) ; sacc = 0 nil | 1 bad | 2 panic | (Nu Index Time) *)
Definition as_sacc (v : val) : option sacc_res :=
  match v with
  | VZ 0 => Some SaccNil | VZ 1 => Some SaccBad | VZ 2 => Some SaccPanic
  | VL [VZ nu; VZ i; VZ t] => Some (SaccOk (mkAcc nu i t))
  | _ => None
  end.
Definition as_nrproof (v : val) : option nrproof :=
  match v with
  | VL [cr; cu; nu; ch; resp; sa] =>
    do cr <- as_oZ cr; do cu <- as_oZ cu; do nu <- as_oZ nu; do ch <- as_oZ ch;
    do resp <- as_omap as_oZ resp; do sa <- as_sacc sa;
    Some (mkNr cr cu nu ch resp sa)
  | _ => None
  end.
