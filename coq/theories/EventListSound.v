(* C18 (revocation messages): the compressed event-list form loses nothing for hash chains, and what the reader
   reconstructs is always a valid chain (which is why the reader may mark it verified). *)
From Coq Require Import ZArith List Bool Lia.
From Gabi Require Import Val ModArith GoSem Bytes Sha256 NonRev CL Revocation RevocationSound EventList.
Import ListNotations.
Open Scope Z_scope.

(* a hash chain: every event carries the hash of its predecessor and the next index (uint64 arithmetic) *)
Fixpoint linked (prev : event) (rest : list event) : Prop :=
  match rest with
  | [] => True
  | ev :: r => event_hash prev = Ok (ev_parent ev) /\ ev_index ev = u64 (ev_index prev + 1) /\ linked ev r
  end.

Definition chain (l : list event) : Prop :=
  Forall (fun ev => is_some (ev_e ev) = true) l /\
  match l with [] => True | e0 :: r => ev_index e0 = u64 (ev_index e0) /\ linked e0 r end.

Lemma u64_succ x : u64 (u64 x + 1) = u64 (x + 1).
Proof. unfold u64. now rewrite Zplus_mod_idemp_l. Qed.

Lemma u64_idem x : u64 (u64 x) = u64 x.
Proof. unfold u64. now rewrite Z.mod_mod. Qed.

Lemma event_eta e : mkEv (ev_index e) (ev_e e) (ev_parent e) = e.
Proof. now destruct e. Qed.

Lemma build_events_cons2 idx ph e e' r :
  build_events idx ph (e :: e' :: r) =
  (let! h := event_hash (mkEv (u64 idx) e ph) in let! rest := build_events (idx + 1) h (e' :: r) in Ok (mkEv (u64 idx) e ph :: rest)).
Proof. reflexivity. Qed.

Lemma build_events_chain : forall r e0 idx,
  ev_index e0 = u64 idx -> linked e0 r ->
  build_events idx (ev_parent e0) (map ev_e (e0 :: r)) = Ok (e0 :: r).
Proof.
  induction r as [|e1 r IH]; intros e0 idx Hi Hl.
  - cbn. now rewrite <- Hi, event_eta.
  - cbn [map]. rewrite build_events_cons2. cbn [map] in IH. destruct Hl as (Hh & Hn & Hl).
    rewrite <- Hi, event_eta, Hh. cbn [obind].
    rewrite (IH e1 (idx + 1)); [reflexivity| |exact Hl].
    rewrite Hn, Hi. apply u64_succ.
Qed.

Lemma events_product_some : forall l, Forall (fun ev => is_some (ev_e ev) = true) l -> exists p, events_product l = Ok p.
Proof.
  induction 1 as [|ev r He _ IH]; [now exists 1|].
  destruct IH as [p Hp]. cbn [events_product]. destruct (ev_e ev) as [x|]; [|discriminate].
  cbn [deref obind]. rewrite Hp. cbn [obind]. eauto.
Qed.

(* a chain survives compress + uncompress unchanged, and the product computed while reading is the product of all
   its events *)
Theorem eventlist_roundtrip_lem : forall l, chain l ->
  uncompress false (compress_events l) = Ok (l, None) /\
  exists p, events_product l = Ok p /\ uncompress true (compress_events l) = Ok (l, Some p).
Proof.
  intros l [Hsome Hl]. destruct (events_product_some l Hsome) as [p Hp].
  assert (Hv : cel_validate (compress_events l) = Ok tt).
  { unfold cel_validate. destruct l as [|e0 r]; [reflexivity|]. cbn [compress_events cel_E].
    assert (E : forallb (fun e : option Z => is_some e) (map ev_e (e0 :: r)) = true).
    { apply forallb_forall. intros o Ho. apply in_map_iff in Ho as (ev & <- & Hev).
      rewrite Forall_forall in Hsome. now apply Hsome. }
    now rewrite E. }
  assert (Hb : build_events (cel_index (compress_events l)) (cel_parent (compress_events l)) (cel_E (compress_events l)) = Ok l).
  { destruct l as [|e0 r]; [reflexivity|]. cbn [compress_events cel_index cel_parent cel_E].
    destruct Hl as [Hi Hl]. now apply build_events_chain. }
  unfold uncompress. rewrite Hv, Hb. cbn [obind]. split; [reflexivity|]. exists p. split; [exact Hp|]. now rewrite Hp.
Qed.

(* ---- what the reader builds is a valid chain ---- *)

Lemma be_fixed_length n : forall z, length (be_fixed n z) = n.
Proof. induction n as [|k IH]; intros z; cbn [be_fixed]; [reflexivity|]. rewrite app_length, IH. cbn. lia. Qed.

Lemma sha256_length msg : length (sha256 msg) = 32%nat.
Proof.
  unfold sha256, sha256_words. destruct (blocks _ _ _) as [[[[[[[a b] c] d] e] f] g] h].
  cbn [flat_map]. rewrite !app_length, !be_fixed_length. reflexivity.
Qed.

Lemma hash_algorithm_mh data : hash_algorithm (mh_sha256 data) = Ok 18.
Proof. unfold hash_algorithm, mh_sha256. rewrite sha256_length. reflexivity. Qed.

Lemma hash_equals_own e h : event_hash e = Ok h -> hash_equals e h = Ok tt.
Proof.
  intros H. unfold hash_equals. 
  assert (Hh : exists b, h = mh_sha256 b).
  { unfold event_hash in H. destruct (event_hash_bytes e) as [b| |]; cbn [obind] in H; try discriminate. inversion H. eauto. }
  destruct Hh as [b ->]. rewrite hash_algorithm_mh. cbn [obind]. rewrite H. cbn [obind].
  unfold hash_equal. now rewrite (proj2 (list_eqb_spec _ _) eq_refl).
Qed.

Lemma build_events_linked : forall es idx ph l,
  build_events idx ph es = Ok l ->
  match l with [] => es = [] | e0 :: r => ev_index e0 = u64 idx /\ ev_parent e0 = ph /\ linked e0 r end /\ map ev_e l = es.
Proof.
  induction es as [|e r IH]; intros idx ph l H.
  - cbn in H. inversion H. now split.
  - destruct r as [|e' r'].
    + cbn in H. inversion H. cbn. repeat split; reflexivity.
    + rewrite build_events_cons2 in H. destruct (event_hash (mkEv (u64 idx) e ph)) as [h| |] eqn:Eh; cbn [obind] in H; try discriminate.
      destruct (build_events (idx + 1) h (e' :: r')) as [rest| |] eqn:Er; cbn [obind] in H; try discriminate.
      inversion H; subst l. destruct (IH (idx + 1) h rest Er) as [Hshape Hmap].
      destruct rest as [|e1 rest']; [discriminate Hshape|]. destruct Hshape as (Hi1 & Hp1 & Hl1).
      split; [|change (map ev_e (mkEv (u64 idx) e ph :: e1 :: rest')) with (e :: map ev_e (e1 :: rest')); now rewrite Hmap].
      split; [reflexivity|]. split; [reflexivity|]. cbn [linked ev_index]. rewrite Hp1. split; [exact Eh|]. split; [|exact Hl1].
      rewrite Hi1. symmetry. apply u64_succ.
Qed.

Lemma linked_chain_ok : forall rest prev x, ev_index prev = u64 x -> linked prev rest -> chain_ok prev rest (x + 1) = Ok tt.
Proof.
  induction rest as [|ev r IH]; intros prev x Hx Hl; [reflexivity|].
  destruct Hl as (Hh & Hn & Hl). cbn [chain_ok]. rewrite (hash_equals_own _ _ Hh). cbn [obind].
  assert (E : u64 (x + 1) = ev_index ev) by (rewrite Hn, Hx; symmetry; apply u64_succ).
  rewrite E, Z.eqb_refl. cbn [negb]. apply IH; [now rewrite <- E|exact Hl].
Qed.

(* every list produced by the reader passes the chain verification: marking it verified is justified *)
Theorem uncompressed_is_chain_lem : forall cp c l p first rest,
  uncompress cp c = Ok (l, p) -> l = first :: rest -> chain_ok first rest (ev_index first + 1) = Ok tt.
Proof.
  intros cp c l p first rest H ->. unfold uncompress in H.
  destruct (cel_validate c); cbn [obind] in H; try discriminate.
  destruct (build_events (cel_index c) (cel_parent c) (cel_E c)) as [evs| |] eqn:Eb; cbn [obind] in H; try discriminate.
  assert (evs = first :: rest).
  { destruct cp; [destruct (events_product evs); cbn [obind] in H; try discriminate|]; now inversion H. }
  subst evs. destruct (build_events_linked _ _ _ _ Eb) as [(Hi & _ & Hl) _].
  apply linked_chain_ok; [|exact Hl]. rewrite Hi. symmetry. apply u64_idem.
Qed.

(* the product handed to Update.Prepend / FlattenEventLists is the product of all events read *)
Theorem uncompress_product_lem : forall c l p,
  uncompress true c = Ok (l, p) -> exists q, p = Some q /\ events_product l = Ok q /\ map ev_e l = cel_E c.
Proof.
  intros c l p H. unfold uncompress in H.
  destruct (cel_validate c); cbn [obind] in H; try discriminate.
  destruct (build_events (cel_index c) (cel_parent c) (cel_E c)) as [evs| |] eqn:Eb; cbn [obind] in H; try discriminate.
  destruct (events_product evs) as [q| |] eqn:Ep; cbn [obind] in H; try discriminate.
  inversion H; subst. exists q. repeat split; [exact Ep|]. apply (build_events_linked _ _ _ _ Eb).
Qed.

(* lists accepted by EventList.Verify are chains, so they round-trip *)
Lemma chain_ok_linked : forall rest prev x, ev_index prev = u64 x -> chain_ok prev rest (x + 1) = Ok tt -> linked prev rest.
Proof.
  induction rest as [|ev r IH]; intros prev x Hx H; [exact I|].
  cbn [chain_ok] in H. destruct (hash_equals prev (ev_parent ev)) eqn:Eh; cbn [obind] in H; try discriminate.
  destruct (Z.eqb_spec (u64 (x + 1)) (ev_index ev)) as [E|]; [|discriminate]. cbn [negb] in H.
  cbn [linked]. split; [|split].
  - unfold hash_equals in Eh. destruct (hash_algorithm (ev_parent ev)); cbn [obind] in Eh; try discriminate.
    destruct (event_hash prev) as [ours| |]; cbn [obind] in Eh; try discriminate.
    destruct (hash_equal ours (ev_parent ev)) eqn:E2; [|discriminate]. f_equal. now apply list_eqb_spec.
  - rewrite <- E, Hx. symmetry. apply u64_succ.
  - apply (IH ev (x + 1)); [now rewrite <- E|exact H].
Qed.

Theorem verified_list_roundtrips_lem : forall l h,
  events_verify l h = Ok tt -> (forall e0 r, l = e0 :: r -> ev_index e0 = u64 (ev_index e0)) -> chain l.
Proof.
  intros l h H Hidx. destruct l as [|e0 r]; [split; [constructor|exact I]|].
  unfold events_verify in H.
  destruct (forallb (fun ev => is_some (ev_e ev)) (e0 :: r)) eqn:Ea; [|discriminate]. cbn [negb] in H.
  destruct (hash_algorithm (ev_parent e0)); cbn [obind] in H; try discriminate.
  destruct (deref (last_event (e0 :: r))); cbn [obind] in H; try discriminate.
  destruct (hash_equals _ h); cbn [obind] in H; try discriminate.
  split.
  - apply Forall_forall. intros ev Hev. exact (proj1 (forallb_forall _ _) Ea ev Hev).
  - split; [now apply (Hidx e0 r)|]. apply (chain_ok_linked r e0 (ev_index e0)); [now apply (Hidx e0 r)|exact H].
Qed.

(* the premises are satisfiable: a three-event chain starting at index 5 *)
Example chain_nonvacuous :
  exists l, uncompress true (mkCel 5 (mh_sha256 []) [Some 7; Some 11; Some 13]) = Ok (l, Some 1001) /\ length l = 3%nat /\ chain l.
Proof.
  eexists. split; [vm_compute; reflexivity|]. split; [reflexivity|].
  split; [repeat constructor|]. split; [reflexivity|].
  cbn [linked]. repeat split; vm_compute; reflexivity.
Qed.
