(* The DER subset encoding/asn1.Marshal produces for []any{bool?, *big.Int, ...}:
   SEQUENCE, BOOLEAN, INTEGER (minimal two's complement), definite lengths. *)
From Coq Require Import ZArith List Lia Bool.
From Gabi Require Import ModArith Bytes.
Import ListNotations.
Open Scope Z_scope.

Definition der_len (n : Z) : list Z :=
  if n <? 128 then [n]
  else let bs := be_bytes n in (128 + Z.of_nat (length bs)) :: bs.

Definition hd_ge_128 (l : list Z) : bool :=
  match l with b :: _ => 128 <=? b | [] => false end.

(* content octets of INTEGER z, as encoding/asn1 computes them *)
Definition twos (z : Z) : list Z :=
  if 0 <=? z then
    let bs := be_bytes z in
    match bs with
    | [] => [0]
    | _ => if hd_ge_128 bs then 0 :: bs else bs
    end
  else
    let bs := map (fun b => Z.lxor b 255) (be_bytes (- z - 1)) in
    match bs with
    | [] => [255]
    | _ => if hd_ge_128 bs then bs else 255 :: bs
    end.

Definition der_int (z : Z) : list Z :=
  let c := twos z in 2 :: der_len (Z.of_nat (length c)) ++ c.

Definition der_bool_true : list Z := [1; 1; 255].

Definition der_seq (body : list Z) : list Z :=
  48 :: der_len (Z.of_nat (length body)) ++ body.

(* ----- decoders ----- *)

Definition dec_len (l : list Z) : option (Z * list Z) :=
  match l with
  | [] => None
  | b :: r =>
    if b <? 128 then Some (b, r)
    else let k := Z.to_nat (b - 128) in Some (be_to_Z (firstn k r), skipn k r)
  end.

Definition signed_be (l : list Z) : Z :=
  be_to_Z l - (if hd_ge_128 l then 256 ^ Z.of_nat (length l) else 0).

Definition dec_int (l : list Z) : option (Z * list Z) :=
  match l with
  | 2 :: r =>
    match dec_len r with
    | Some (n, r') => let k := Z.to_nat n in Some (signed_be (firstn k r'), skipn k r')
    | None => None
    end
  | _ => None
  end.

Fixpoint dec_ints (fuel : nat) (l : list Z) : option (list Z) :=
  match l with
  | [] => Some []
  | _ =>
    match fuel with
    | O => None
    | S f =>
      match dec_int l with
      | Some (z, r) => match dec_ints f r with Some zs => Some (z :: zs) | None => None end
      | None => None
      end
    end
  end.

(* ----- round trips ----- *)

Lemma firstn_app_exact {A} (l r : list A) : firstn (length l) (l ++ r) = l.
Proof. rewrite firstn_app, Nat.sub_diag, firstn_all. cbn. apply app_nil_r. Qed.

Lemma skipn_app_exact {A} (l r : list A) : skipn (length l) (l ++ r) = r.
Proof. rewrite skipn_app, Nat.sub_diag, skipn_all. reflexivity. Qed.

Lemma dec_len_der_len n r : 0 <= n -> dec_len (der_len n ++ r) = Some (n, r).
Proof.
  intros Hn. unfold der_len. destruct (Z.ltb_spec n 128) as [Hlt|Hge].
  - cbn. destruct (Z.ltb_spec n 128); [reflexivity|lia].
  - cbn [app dec_len].
    destruct (Z.ltb_spec (128 + Z.of_nat (length (be_bytes n))) 128); [lia|].
    replace (128 + Z.of_nat (length (be_bytes n)) - 128) with (Z.of_nat (length (be_bytes n))) by lia.
    rewrite Nat2Z.id, firstn_app_exact, skipn_app_exact.
    now rewrite be_bytes_roundtrip.
Qed.

Lemma lxor_255_byte b : 0 <= b < 256 -> Z.lxor b 255 = 255 - b.
Proof.
  intros Hb.
  assert (H : forallb (fun k => Z.lxor (Z.of_nat k) 255 =? 255 - Z.of_nat k) (seq 0 256) = true)
    by (vm_compute; reflexivity).
  rewrite forallb_forall in H.
  specialize (H (Z.to_nat b)). rewrite Z2Nat.id in H by lia.
  apply Z.eqb_eq, H. apply in_seq. lia.
Qed.

Lemma be_to_Z_compl l : Forall is_byte l ->
  be_to_Z (map (fun b => Z.lxor b 255) l) = 256 ^ Z.of_nat (length l) - 1 - be_to_Z l.
Proof.
  induction l as [|b r IH] using rev_ind; intros H; [reflexivity|].
  apply Forall_app in H as [Hr Hb]. inversion Hb as [|? ? Hb' _]; subst.
  rewrite map_app. cbn [map]. rewrite !be_to_Z_snoc, IH by assumption.
  rewrite lxor_255_byte by exact Hb'. rewrite app_length. cbn [length].
  rewrite Nat.add_1_r, Nat2Z.inj_succ, Z.pow_succ_r by lia. lia.
Qed.

Lemma compl_bytes l : Forall is_byte l -> Forall is_byte (map (fun b => Z.lxor b 255) l).
Proof.
  intros H. apply Forall_map. eapply Forall_impl; [|exact H].
  intros b Hb. rewrite lxor_255_byte by exact Hb. unfold is_byte in *. lia.
Qed.

Lemma signed_be_small l : Forall is_byte l -> hd_ge_128 l = false ->
  signed_be l = be_to_Z l.
Proof. intros _ H. unfold signed_be. rewrite H. lia. Qed.

Lemma signed_twos z : signed_be (twos z) = z.
Proof.
  unfold twos. destruct (Z.leb_spec 0 z) as [Hz|Hz].
  - pose proof (be_bytes_roundtrip z Hz) as Hrt.
    pose proof (be_bytes_bytes z) as Hb.
    destruct (be_bytes z) as [|b r] eqn:E.
    + cbn in Hrt. subst. reflexivity.
    + destruct (hd_ge_128 (b :: r)) eqn:Hh.
      * unfold signed_be. cbn [hd_ge_128].
        replace (128 <=? 0) with false by reflexivity.
        rewrite be_to_Z_cons, Z.mul_0_l, Hrt. lia.
      * unfold signed_be. rewrite Hh. lia.
  - set (m := - z - 1). assert (Hm : 0 <= m) by lia.
    pose proof (be_bytes_roundtrip m Hm) as Hrt.
    pose proof (be_bytes_bytes m) as Hb.
    pose proof (be_to_Z_compl _ Hb) as Hc.
    pose proof (compl_bytes _ Hb) as Hcb.
    destruct (map (fun b => Z.lxor b 255) (be_bytes m)) as [|b r] eqn:E.
    + destruct (be_bytes m); [|discriminate]. cbn in Hrt. cbn. lia.
    + assert (Hlen : length (be_bytes m) = length (b :: r)) by (rewrite <- E; now rewrite map_length).
      rewrite Hlen in Hc. rewrite Hrt in Hc.
      destruct (hd_ge_128 (b :: r)) eqn:Hh.
      * unfold signed_be. rewrite Hh. lia.
      * unfold signed_be. cbn [hd_ge_128]. replace (128 <=? 255) with true by reflexivity.
        rewrite be_to_Z_cons.
        change (length (255 :: b :: r)) with (S (length (b :: r))).
        rewrite Nat2Z.inj_succ, Z.pow_succ_r by lia.
        set (P := 256 ^ Z.of_nat (length (b :: r))) in *. lia.
Qed.

Lemma dec_int_der_int z r : dec_int (der_int z ++ r) = Some (z, r).
Proof.
  unfold der_int. cbn [app dec_int]. rewrite <- app_assoc.
  rewrite dec_len_der_len by lia. rewrite Nat2Z.id.
  rewrite firstn_app_exact, skipn_app_exact. now rewrite signed_twos.
Qed.

Lemma der_int_nonempty z : der_int z <> [].
Proof. discriminate. Qed.

Lemma dec_ints_concat zs : forall fuel, (length zs <= fuel)%nat ->
  dec_ints fuel (concat (map der_int zs)) = Some zs.
Proof.
  induction zs as [|z r IH]; intros fuel Hf.
  - destruct fuel; reflexivity.
  - destruct fuel as [|f]; [cbn in Hf; lia|].
    cbn [map concat]. unfold der_int at 1. cbn [app dec_ints].
    change (2 :: (der_len (Z.of_nat (length (twos z))) ++ twos z) ++ concat (map der_int r))
      with (der_int z ++ concat (map der_int r)).
    rewrite dec_int_der_int. rewrite IH by (cbn in Hf; lia). reflexivity.
Qed.

Theorem der_ints_inj zs zs' :
  concat (map der_int zs) = concat (map der_int zs') -> zs = zs'.
Proof.
  intros H.
  pose proof (dec_ints_concat zs (max (length zs) (length zs')) ltac:(lia)) as H1.
  pose proof (dec_ints_concat zs' (max (length zs) (length zs')) ltac:(lia)) as H2.
  rewrite H in H1. congruence.
Qed.
