(* credential.go / builder.go / issuer.go : the prover and issuer side, with all randomness as
   explicit inputs (the harness reads the values the Go builders actually drew). *)
From Coq Require Import ZArith List Lia Bool FinFun.
From Gabi Require Import Val ModArith GoSem ParamsDef ZkProof Keys Bytes Sha256 HashTool RangeProof NonRev Core CL.
Import ListNotations.
Open Scope Z_scope.

(* ---------------------------------------------------------------------------------- *)
(* credential.go:79 getUndisclosedAttributes *)

Definition memZ (x : Z) (l : list Z) : bool := existsb (Z.eqb x) l.

Definition get_undisclosed (disclosed : list Z) (n : Z) : outcome (list Z) :=
  if forallb (fun d => (0 <=? d) && (d <? n)) disclosed
  then Ok (filter (fun i => negb (memZ i disclosed)) (zrange n))
  else Panic.   (* check[v] = true with v out of range *)

Definition nthZd (l : list Z) (i : Z) : Z := nth (Z.to_nat i) l 0.

Record dbuilder := mkDb {
  db_sig : clsig;                    (* randomized signature A', e, v' *)
  db_eCommit : Z; db_vCommit : Z;
  db_rand : list (Z * Z);            (* attrRandomizers, index -> randomizer (index 0 set by Commit) *)
  db_disclosed : list Z; db_undisclosed : list Z;
  db_attrs : list Z
}.

(* credential.go:121 CreateDisclosureProofBuilder (no range statements, no revocation);
   r: randomisation of the signature; rands: one randomizer per undisclosed index, in order *)
Definition create_builder (pk : pubkey) (sg : clsig) (attrs : list Z) (disclosed : list Z)
           (r eCommit vCommit : Z) (rands : list Z) : outcome dbuilder :=
  let! rs := cl_randomize pk sg r in
  let! und := get_undisclosed disclosed (Z.of_nat (length attrs)) in
  Ok (mkDb rs eCommit vCommit (combine und rands) disclosed und attrs).

Fixpoint und_product (pk : pubkey) (und : list Z) (rand : list (Z * Z)) (z : Z) : outcome Z :=
  match und with
  | [] => Ok z
  | v :: rest =>
    let! base := index_R (pk_R pk) v in
    let! x := deref (lookup rand v) in
    let! t := or_err (go_modpow base x (pk_N pk)) in
    und_product pk rest rand ((z * t) mod pk_N pk)
  end.

Fixpoint set_rand (m : list (Z * Z)) (k v : Z) : list (Z * Z) :=
  match m with
  | [] => [(k, v)]
  | (k', v') :: r => if k' =? k then (k, v) :: r else (k', v') :: set_rand r k v
  end.

(* credential.go:255 Commit (pcommit: optional keyshare commitment factor) *)
Definition db_commit (pk : pubkey) (b : dbuilder) (skRandomizer : Z) (pcommit : option Z)
  : outcome (list Z * dbuilder) :=
  let n := pk_N pk in
  let rand := set_rand (db_rand b) 0 skRandomizer in
  let! a := deref (sig_A (db_sig b)) in
  let! ae := or_err (go_modpow a (db_eCommit b) n) in
  let! sv := or_err (go_modpow (pk_S pk) (db_vCommit b) n) in
  let z0 := match pcommit with Some p => p | None => 1 end in
  let! z := und_product pk (db_undisclosed b) rand ((z0 * ae * sv) mod n) in
  Ok ([a; z], mkDb (db_sig b) (db_eCommit b) (db_vCommit b) rand (db_disclosed b) (db_undisclosed b) (db_attrs b)).

(* credential.go:315 CreateProof *)
Definition db_create_proof (pk : pubkey) (b : dbuilder) (c : Z) : outcome proofD :=
  let ps := pk_params pk in
  let! e := deref (sig_E (db_sig b)) in
  let! v := deref (sig_V (db_sig b)) in
  let eResponse := db_eCommit b + c * (e - 2 ^ (Le ps - 1)) in
  let vResponse := db_vCommit b + c * v in
  let! aResp := omap (fun i => let! r := deref (lookup (db_rand b) i) in
                               Ok (i, Some (r + c * attr_exp (Lm ps) (nthZd (db_attrs b) i))))
                     (db_undisclosed b) in
  let aDisc := map (fun i => (i, Some (nthZd (db_attrs b) i))) (db_disclosed b) in
  Ok (mkPd (Some c) (sig_A (db_sig b)) (Some eResponse) (Some vResponse) aResp aDisc None []).

(* ProofBuilderList{builder}.BuildProofList for one disclosure builder *)
Definition disclose (pk : pubkey) (sg : clsig) (attrs : list Z) (disclosed : list Z)
           (r eCommit vCommit : Z) (rands : list Z) (skRandomizer : Z) (ctx nonce : Z) (issig : bool)
  : outcome (list Z * proofD) :=
  let! b := create_builder pk sg attrs disclosed r eCommit vCommit rands in
  let! (contrib, b') := db_commit pk b skRandomizer None in
  let c := create_challenge ctx nonce contrib issig in
  let! p := db_create_proof pk b' c in
  Ok (contrib, p).

(* credential.go:354 TimestampRequestContributions : A' and the list with 0 for hidden values *)
Definition timestamp_contributions (b : dbuilder) : option Z * list Z :=
  (sig_A (db_sig b),
   map (fun i => if memZ i (db_disclosed b) then nthZd (db_attrs b) i else 0)
       (zrange (Z.of_nat (length (db_attrs b))))).

(* ---------------------------------------------------------------------------------- *)
(* issuance: builder.go / issuer.go *)

Fixpoint keyed_product (pk : pubkey) (m : list (Z * Z)) (acc : Z) (reduce_each : bool) : outcome Z :=
  match m with
  | [] => Ok acc
  | (i, x) :: r =>
    let! base := index_R (pk_R pk) i in
    let! t := deref (go_exp base x (pk_N pk)) in
    keyed_product pk r (if reduce_each then (acc * t) mod pk_N pk else acc * t) reduce_each
  end.

(* builder.go:67 userCommitment *)
Definition user_commitment (pk : pubkey) (secret vPrime : Z) (mUser : list (Z * Z)) : outcome Z :=
  let n := pk_N pk in
  let! sv := deref (go_exp (pk_S pk) vPrime n) in
  let! r0 := index_R (pk_R pk) 0 in
  let! r0s := deref (go_exp r0 secret n) in
  let! u := keyed_product pk mUser (sv * r0s) false in
  Ok (u mod n).

Record cbuilder := mkCb {
  cb_secret : Z; cb_vPrime : Z; cb_vPrimeCommit : Z; cb_u : Z;
  cb_keyshareP : option Z; cb_mUser : list (Z * Z); cb_mUserCommit : list (Z * Z)
}.

(* builder.go:82 NewCredentialBuilder *)
Definition new_credential_builder (pk : pubkey) (secret : Z) (keyshareP : option Z)
           (vPrime vPrimeCommit : Z) (mUser mUserCommit : list (Z * Z)) : outcome cbuilder :=
  let! u := user_commitment pk secret vPrime mUser in
  let u' := match keyshareP with Some kp => (u * kp) mod pk_N pk | None => u end in
  Ok (mkCb secret vPrime vPrimeCommit u' keyshareP mUser mUserCommit).

(* builder.go:253 Commit *)
Definition cb_commit (pk : pubkey) (b : cbuilder) (skRandomizer : Z) (pcommit : option Z) : outcome (list Z) :=
  let n := pk_N pk in
  let! sv := deref (go_exp (pk_S pk) (cb_vPrimeCommit b) n) in
  let! r0 := index_R (pk_R pk) 0 in
  let! r0s := deref (go_exp r0 skRandomizer n) in
  let u0 := match pcommit with Some p => p | None => 1 end in
  let! uc := keyed_product pk (map (fun kv => (fst kv, match lookup (cb_mUserCommit b) (fst kv) with Some x => x | None => 0 end))
                                   (cb_mUser b)) ((u0 * sv * r0s) mod n) true in
  Ok [cb_u b; uc].

(* builder.go:276 CreateProof *)
Definition cb_create_proof (b : cbuilder) (skRandomizer c : Z) : proofU :=
  mkPu (Some (cb_u b)) (Some c)
       (Some (cb_vPrimeCommit b + c * cb_vPrime b))
       (Some (skRandomizer + c * cb_secret b))
       (map (fun kv => (fst kv, Some (match lookup (cb_mUserCommit b) (fst kv) with Some x => x | None => 0 end
                                      + c * snd kv))) (cb_mUser b)).

(* issuer.go:48 signCommitmentAndAttributes : attributes with None at blind positions *)
Fixpoint fill_blind (attrs : list (option Z)) (i : Z) (mIssuer : list (Z * Z)) : outcome (list Z) :=
  match attrs with
  | [] => Ok []
  | a :: r =>
    let! rest := fill_blind r (i + 1) mIssuer in
    match lookup mIssuer i, a with
    | Some x, None => Ok (x :: rest)
    | Some _, Some _ => Err      (* attribute at random blind index should be nil before issuance *)
    | None, Some x => Ok (x :: rest)
    | None, None => Panic        (* nil attribute reaches RepresentToBases *)
    end
  end.

Definition sign_commitment_and_attributes (pk : pubkey) (order : Z) (u : Z) (attrs : list (option Z))
           (mIssuer : list (Z * Z)) (v e : Z) : outcome clsig :=
  let! ms := fill_blind attrs 1 mIssuer in
  cl_sign pk order u (0 :: ms) v e.

(* issuer.go:90 proveSignature *)
Definition prove_signature (pk : pubkey) (order : Z) (sg : clsig) (ctx nonce2 eCommit : Z) : outcome proofS :=
  let n := pk_N pk in
  let! a := deref (sig_A sg) in
  let! e := deref (sig_E sg) in
  let! q := deref (go_exp a e n) in
  let! d := or_err (go_modinverse e order) in
  let! acommit := deref (go_exp q eCommit n) in
  let c := hash_commit false [ctx; q; a; nonce2; acommit] in
  Ok (mkPs (Some c) (Some ((eCommit - c * d) mod order))).

Record issue_msg := mkIm {
  im_proof : option proofS; im_sig : option clsig; im_mIssuer : list (Z * option Z);
  im_witness_ok : option bool     (* None: no witness; Some b: Witness.Verify result (oracle) *)
}.

Fixpoint merge_blind (ms : list (option Z)) (i : Z) (mUser : list (Z * Z)) (mIssuer : list (Z * option Z))
  : outcome (list (option Z)) :=
  match ms with
  | [] => Ok []
  | a :: r =>
    let! rest := merge_blind r (i + 1) mUser mIssuer in
    match lookup mUser i with
    | None => Ok (a :: rest)
    | Some mu =>
      match a with
      | Some _ => Err
      | None => let! mi := or_err (lookup_ptr mIssuer i) in Ok (Some (mi + mu) :: rest)
      end
    end
  end.

(* builder.go:163 ConstructCredential ; returns the credential's signature and attribute list *)
Definition construct_credential (pk : pubkey) (is_prime : Z -> bool) (b : cbuilder) (ctx nonce2 : Z)
           (msg : issue_msg) (attributes : list (option Z)) (witness_e_in_attrs : bool)
  : outcome (clsig * list Z) :=
  (* builder.go: msg.Proof == nil || msg.Signature == nil || msg.Signature.V == nil -> error *)
  let! pr := or_err (im_proof msg) in
  let! sg0 := or_err (im_sig msg) in
  let! v0 := or_err (sig_V sg0) in
  let! ok := proofS_verify_opt pk pr (im_sig msg) ctx nonce2 in
  if negb ok then Err
  else
    let! sg := deref (im_sig msg) in
    let! v := deref (sig_V sg) in
    let signature := mkSig (sig_A sg) (sig_E sg) (Some (v + cb_vPrime b)) (cb_keyshareP b) in
    let ms0 := Some (cb_secret b) :: attributes in
    if existsb (fun kv => Z.of_nat (length ms0) <=? fst kv) (cb_mUser b) then Err
    else
      let! ms := merge_blind ms0 0 (cb_mUser b) (im_mIssuer msg) in
      match im_witness_ok msg with
      | Some false => Err
      | _ =>
        let! msz := all_some ms in
        let! okv := cl_verify pk is_prime signature msz in
        if negb okv then Err
        else match im_witness_ok msg with
             | Some true => if witness_e_in_attrs then Ok (signature, msz) else Err
             | _ => Ok (signature, msz)
             end
      end.

(* wire *)
Definition as_pairsZ (v : val) : option (list (Z * Z)) := as_map as_Z v.
Definition of_proofD_main (p : proofD) : val :=
  VL [of_oZ (pd_C p); of_oZ (pd_A p); of_oZ (pd_E p); of_oZ (pd_V p);
      of_map of_oZ (pd_AResp p); of_map of_oZ (pd_ADisc p)].
Definition of_proofU (p : proofU) : val :=
  VL [of_oZ (pu_U p); of_oZ (pu_C p); of_oZ (pu_VPrime p); of_oZ (pu_S p); of_map of_oZ (pu_MUser p)].

(* ---------------------------------------------------------------------------------- *)
(* structural theorems for C04 *)

Lemma in_zrange_iff n i : In i (zrange n) <-> 0 <= i < n.
Proof.
  unfold zrange. rewrite in_map_iff. split.
  - intros [k [<- Hk]]. apply in_seq in Hk. lia.
  - intros H. exists (Z.to_nat i). split; [lia|]. apply in_seq. lia.
Qed.

Lemma memZ_In x l : memZ x l = true <-> In x l.
Proof.
  unfold memZ. rewrite existsb_exists. split.
  - intros [y [Hy He]]. apply Z.eqb_eq in He. now subst.
  - intros H. exists x. split; [exact H|apply Z.eqb_refl].
Qed.

Lemma NoDup_zrange n : NoDup (zrange n).
Proof.
  unfold zrange. apply Injective_map_NoDup; [|apply seq_NoDup].
  intros a b H. lia.
Qed.

Theorem undisclosed_partition_lem disclosed n und :
  get_undisclosed disclosed n = Ok und ->
  NoDup und /\ (forall i, In i und <-> (0 <= i < n /\ ~ In i disclosed)) /\
  (forall d, In d disclosed -> 0 <= d < n).
Proof.
  unfold get_undisclosed. destruct (forallb _ disclosed) eqn:E; [|discriminate].
  intros [= <-]. split; [apply NoDup_filter, NoDup_zrange|]. split.
  - intros i. rewrite filter_In, in_zrange_iff, negb_true_iff.
    split; intros [H1 H2]; (split; [exact H1|]).
    + intros Hin. apply memZ_In in Hin. congruence.
    + destruct (memZ i disclosed) eqn:Em; [|reflexivity]. apply memZ_In in Em. contradiction.
  - intros d Hd. rewrite forallb_forall in E. specialize (E d Hd). apply andb_prop in E as [E1 E2].
    apply Z.leb_le in E1. apply Z.ltb_lt in E2. lia.
Qed.

Lemma omap_keys (f : Z -> outcome (Z * option Z)) l l' :
  (forall i x, f i = Ok x -> fst x = i) -> omap f l = Ok l' -> map fst l' = l.
Proof.
  intros Hf. revert l'. induction l as [|i r IH]; intros l' H; cbn in H.
  - now inversion H.
  - destruct (f i) as [x| |] eqn:E; cbn in H; try discriminate.
    destruct (omap f r) as [xs| |]; cbn in H; try discriminate.
    inversion H; subst. cbn. f_equal; [eapply Hf; eauto|now apply IH].
Qed.

Theorem disclosure_exact_lem pk b c p :
  db_create_proof pk b c = Ok p ->
  keys (pd_ADisc p) = db_disclosed b /\
  keys (pd_AResp p) = db_undisclosed b /\
  (forall i, In i (db_disclosed b) -> lookup_ptr (pd_ADisc p) i = Some (nthZd (db_attrs b) i)) /\
  pd_nr p = None /\ pd_rp p = [].
Proof.
  unfold db_create_proof.
  destruct (sig_E (db_sig b)); cbn [deref obind]; [|discriminate].
  destruct (sig_V (db_sig b)); cbn [deref obind]; [|discriminate].
  destruct (omap _ (db_undisclosed b)) as [ar| |] eqn:E; cbn [obind]; try discriminate.
  intros [= <-]. cbn. repeat split.
  - unfold keys. rewrite map_map. cbn. apply map_id.
  - unfold keys. eapply omap_keys; [|exact E]. intros i x Hx. cbn in Hx.
    destruct (lookup (db_rand b) i); cbn in Hx; [|discriminate]. now inversion Hx.
  - intros i Hin. unfold lookup_ptr. induction (db_disclosed b) as [|d r IH]; [destruct Hin|].
    cbn. destruct (Z.eqb_spec d i) as [->|Hne]; [reflexivity|].
    destruct Hin as [->|Hin]; [contradiction|]. now apply IH.
Qed.

(* hidden values do not occur in the timestamp contribution *)
Theorem timestamp_hides_lem b i :
  0 <= i < Z.of_nat (length (db_attrs b)) -> ~ In i (db_disclosed b) ->
  nth (Z.to_nat i) (snd (timestamp_contributions b)) 0 = 0.
Proof.
  intros Hi Hn. unfold timestamp_contributions. cbn [snd].
  set (f := fun i0 : Z => if memZ i0 (db_disclosed b) then nthZd (db_attrs b) i0 else 0).
  replace 0 with (f i) at 2.
  2:{ unfold f. destruct (memZ i (db_disclosed b)) eqn:E; [apply memZ_In in E; contradiction|reflexivity]. }
  unfold zrange. rewrite map_map.
  rewrite (nth_indep _ 0 (f (Z.of_nat 0))) by (rewrite map_length, seq_length; lia).
  rewrite (map_nth (fun x => f (Z.of_nat x))). rewrite seq_nth by lia. f_equal. lia.
Qed.

(* responses hide the attribute: for any other value m' there is a randomizer giving the same response *)
Theorem response_hides_lem (r c m m' : Z) : exists r', r + c * m = r' + c * m'.
Proof. exists (r + c * m - c * m'). lia. Qed.

(* ---------------------------------------------------------------------------------- *)
(* C06: what a constructed credential guarantees, for ANY incoming issuer message *)

Lemma all_some_spec l l' : all_some l = Ok l' -> l = map Some l'.
Proof.
  revert l'. induction l as [|[x|] r IH]; intros l' H; cbn in H.
  - now inversion H.
  - destruct (all_some r) as [t| |]; cbn in H; try discriminate. inversion H; subst. cbn. f_equal. now apply IH.
  - discriminate.
Qed.

Theorem construct_only_if_lem pk is_prime b ctx nonce2 msg attributes win sg ms :
  construct_credential pk is_prime b ctx nonce2 msg attributes win = Ok (sg, ms) ->
  (exists pr s0, im_proof msg = Some pr /\ im_sig msg = Some s0 /\
                 proofS_verify_opt pk pr (Some s0) ctx nonce2 = Ok true /\
                 sig_A sg = sig_A s0 /\ sig_E sg = sig_E s0 /\
                 (exists v, sig_V s0 = Some v /\ sig_V sg = Some (v + cb_vPrime b)) /\
                 sig_KP sg = cb_keyshareP b) /\
  cl_verify pk is_prime sg ms = Ok true /\
  (exists merged, merge_blind (Some (cb_secret b) :: attributes) 0 (cb_mUser b) (im_mIssuer msg) = Ok merged /\
                  merged = map Some ms) /\
  im_witness_ok msg <> Some false /\
  (im_witness_ok msg = Some true -> win = true).
Proof.
  unfold construct_credential.
  destruct (im_proof msg) as [pr|]; cbn [or_err obind deref]; [|discriminate].
  destruct (im_sig msg) as [s0|] eqn:Es; cbn [or_err obind deref]; [|discriminate].
  destruct (sig_V s0) as [v|] eqn:Ev; cbn [or_err obind deref]; [|discriminate].
  destruct (proofS_verify_opt pk pr (Some s0) ctx nonce2) as [ok| |] eqn:Ep; cbn [obind]; try discriminate.
  destruct ok; cbn [negb]; cbv iota beta; [|discriminate].
  destruct (existsb _ (cb_mUser b)); cbv iota beta; [discriminate|].
  destruct (merge_blind _ 0 _ _) as [merged| |] eqn:Em; cbn [obind]; try discriminate.
  set (sgn := mkSig (sig_A s0) (sig_E s0) (Some (v + cb_vPrime b)) (cb_keyshareP b)).
  assert (Hmain : forall msz, all_some merged = Ok msz -> cl_verify pk is_prime sgn msz = Ok true ->
            (im_witness_ok msg <> Some false) -> (im_witness_ok msg = Some true -> win = true) ->
            (exists pr0 s1, Some pr = Some pr0 /\ Some s0 = Some s1 /\
                 proofS_verify_opt pk pr0 (Some s1) ctx nonce2 = Ok true /\
                 sig_A sgn = sig_A s1 /\ sig_E sgn = sig_E s1 /\
                 (exists v0, sig_V s1 = Some v0 /\ sig_V sgn = Some (v0 + cb_vPrime b)) /\
                 sig_KP sgn = cb_keyshareP b) /\
            cl_verify pk is_prime sgn msz = Ok true /\
            (exists merged0, Ok merged = Ok merged0 /\ merged0 = map Some msz) /\
            im_witness_ok msg <> Some false /\
            (im_witness_ok msg = Some true -> win = true)).
  { intros msz Ha Hc Hw1 Hw2. split; [|split; [exact Hc|split; [|split; assumption]]].
    - exists pr, s0. split; [reflexivity|]. split; [reflexivity|]. split; [exact Ep|].
      split; [reflexivity|]. split; [reflexivity|]. split; [|reflexivity].
      exists v. split; [exact Ev|reflexivity].
    - exists merged. split; [reflexivity|now apply all_some_spec]. }
  destruct (im_witness_ok msg) as [[|]|] eqn:Ew; cbv iota beta; try discriminate.
  - destruct (all_some merged) as [msz| |] eqn:Ea; cbn [obind]; try discriminate.
    destruct (cl_verify pk is_prime sgn msz) as [okv| |] eqn:Ec; cbn [obind]; try discriminate.
    destruct okv; cbn [negb]; cbv iota beta; [|discriminate]. destruct win; [|discriminate].
    intros Heq. inversion Heq; subst sg ms. apply Hmain; auto; discriminate.
  - destruct (all_some merged) as [msz| |] eqn:Ea; cbn [obind]; try discriminate.
    destruct (cl_verify pk is_prime sgn msz) as [okv| |] eqn:Ec; cbn [obind]; try discriminate.
    destruct okv; cbn [negb]; cbv iota beta; [|discriminate].
    intros Heq. inversion Heq; subst sg ms. apply Hmain; auto; discriminate.
Qed.

(* the blind attributes of the result are the sums of the two shares, all others are the
   holder's own input, and position 0 is the secret *)
Lemma merge_blind_spec mUser mIssuer : forall ms i merged, merge_blind ms i mUser mIssuer = Ok merged ->
  length merged = length ms /\
  forall k a, nth_error ms k = Some a ->
    match lookup mUser (i + Z.of_nat k) with
    | None => nth_error merged k = Some a
    | Some mu => a = None /\ exists mi, lookup_ptr mIssuer (i + Z.of_nat k) = Some mi /\
                                        nth_error merged k = Some (Some (mi + mu))
    end.
Proof.
  induction ms as [|a r IH]; intros i merged H; cbn in H.
  - inversion H. split; [reflexivity|]. intros k a0 Hk. destruct k; discriminate.
  - destruct (merge_blind r (i + 1) mUser mIssuer) as [rest| |] eqn:E; cbn [obind] in H; try discriminate.
    destruct (IH _ _ E) as [Hl Hn].
    assert (Hk : forall k a0, nth_error (a :: r) (S k) = Some a0 ->
                 match lookup mUser (i + Z.of_nat (S k)) with
                 | None => nth_error rest k = Some a0
                 | Some mu => a0 = None /\ exists mi, lookup_ptr mIssuer (i + Z.of_nat (S k)) = Some mi /\
                                                      nth_error rest k = Some (Some (mi + mu))
                 end).
    { intros k a0 Hk. cbn in Hk. specialize (Hn k a0 Hk).
      replace (i + Z.of_nat (S k)) with (i + 1 + Z.of_nat k) by lia. exact Hn. }
    destruct (lookup mUser i) as [mu|] eqn:Eu.
    + destruct a; [discriminate|].
      destruct (lookup_ptr mIssuer i) as [mi|] eqn:Ei; cbn in H; [|discriminate].
      inversion H; subst. split; [cbn; lia|].
      intros [|k] a0 Hk0.
      * cbn in Hk0. inversion Hk0; subst. rewrite Z.add_0_r, Eu. split; [reflexivity|]. exists mi. now rewrite Ei.
      * cbn [nth_error]. apply Hk. exact Hk0.
    + inversion H; subst. split; [cbn; lia|].
      intros [|k] a0 Hk0.
      * cbn in Hk0. inversion Hk0; subst. now rewrite Z.add_0_r, Eu.
      * cbn [nth_error]. apply Hk. exact Hk0.
Qed.
