(* Interleavings.  (1) credential.go:195-239: the channel hand-off between NonrevPrepareCache and
   nonrevConsumeBuilder, one atomic step per channel operation, any number of goroutines, any
   schedule.  (2) internal/common/fastrandom.go:48-82: keystream block reservation by one atomic
   add; every interleaving of readers is a sequence of reservations. *)
From Coq Require Import ZArith List Lia Bool Arith.
Import ListNotations.
Open Scope nat_scope.

Inductive kind := KPrepare | KConsume.

Record thread := mkT { held : option nat; todo : list kind }.

Record gstate := mkG {
  chan : option nat;          (* the 1-buffered channel: at most one builder identity *)
  fresh : nat;                (* next builder identity *)
  consumed : list nat;        (* builders handed to a proof *)
  discarded : list nat;       (* builders dropped because the channel was full *)
  threads : list thread
}.

Fixpoint upd {A} (i : nat) (x : A) (l : list A) : list A :=
  match l, i with
  | [], _ => []
  | _ :: r, O => x :: r
  | y :: r, S j => y :: upd j x r
  end.

(* one atomic action of goroutine i *)
Definition sstep (g : gstate) (i : nat) : gstate :=
  match nth_error (threads g) i with
  | None => g
  | Some t =>
    match held t with
    | Some b =>   (* second select of NonrevPrepareCache: send if there is room, else discard *)
      let t' := mkT None (tl (todo t)) in
      match chan g with
      | None => mkG (Some b) (fresh g) (consumed g) (discarded g) (upd i t' (threads g))
      | Some _ => mkG (chan g) (fresh g) (consumed g) (b :: discarded g) (upd i t' (threads g))
      end
    | None =>
      match todo t with
      | [] => g
      | KPrepare :: _ =>   (* first select: receive, or build a new one *)
        match chan g with
        | Some b => mkG None (fresh g) (consumed g) (discarded g) (upd i (mkT (Some b) (todo t)) (threads g))
        | None => mkG None (S (fresh g)) (consumed g) (discarded g) (upd i (mkT (Some (fresh g)) (todo t)) (threads g))
        end
      | KConsume :: r =>   (* nonrevConsumeBuilder: receive, or build a new one *)
        match chan g with
        | Some b => mkG None (fresh g) (b :: consumed g) (discarded g) (upd i (mkT None r) (threads g))
        | None => mkG None (S (fresh g)) (fresh g :: consumed g) (discarded g) (upd i (mkT None r) (threads g))
        end
      end
    end
  end.

Definition ginit (progs : list (list kind)) : gstate :=
  mkG None 0 [] [] (map (mkT None) progs).

Definition grun (progs : list (list kind)) (sched : list nat) : gstate :=
  fold_left sstep sched (ginit progs).

(* ---- ownership counting ---- *)

Definition cnt_opt (b : nat) (o : option nat) : nat :=
  match o with Some x => if Nat.eqb x b then 1 else 0 | None => 0 end.
Definition cnt_l (b : nat) (l : list nat) : nat := count_occ Nat.eq_dec l b.
Fixpoint cnt_ts (b : nat) (ts : list thread) : nat :=
  match ts with [] => 0 | t :: r => cnt_opt b (held t) + cnt_ts b r end.

Definition owners (g : gstate) (b : nat) : nat :=
  cnt_l b (consumed g) + cnt_l b (discarded g) + cnt_opt b (chan g) + cnt_ts b (threads g).

Definition ginv (g : gstate) : Prop :=
  forall b, owners g b <= 1 /\ (fresh g <= b -> owners g b = 0).

Lemma cnt_upd b t : forall ts i old, nth_error ts i = Some old ->
  cnt_ts b (upd i t ts) + cnt_opt b (held old) = cnt_ts b ts + cnt_opt b (held t).
Proof.
  induction ts as [|y r IH]; intros i old H.
  - destruct i; discriminate.
  - destruct i as [|j]; cbn in H |- *.
    + inversion H; subst. lia.
    + specialize (IH j old H). lia.
Qed.

Lemma cnt_l_cons b x l : cnt_l b (x :: l) = (if Nat.eqb x b then 1 else 0) + cnt_l b l.
Proof.
  unfold cnt_l. cbn. destruct (Nat.eq_dec x b) as [E|E].
  - subst. rewrite Nat.eqb_refl. reflexivity.
  - apply Nat.eqb_neq in E. rewrite E. reflexivity.
Qed.

Lemma sstep_inv g i : ginv g -> ginv (sstep g i).
Proof.
  intros Hg. unfold sstep. destruct (nth_error (threads g) i) as [t|] eqn:Et; [|exact Hg].
  destruct (held t) as [hb|] eqn:Eh.
  - (* put or discard *)
    destruct (chan g) as [cb|] eqn:Ec; intros b; destruct (Hg b) as [H1 H2]; unfold owners in *; cbn [chan fresh consumed discarded threads] in *;
      pose proof (cnt_upd b (mkT None (tl (todo t))) _ _ _ Et) as Hu; rewrite Eh in Hu; cbn [held cnt_opt] in Hu;
      rewrite ?Ec in *; rewrite ?cnt_l_cons; cbn [cnt_opt] in *; split; try intros Hf; try specialize (H2 Hf); lia.
  - destruct (todo t) as [|[|] r] eqn:Etd; [exact Hg| |].
    + (* prepare: take or build *)
      destruct (chan g) as [cb|] eqn:Ec; intros b; destruct (Hg b) as [H1 H2]; unfold owners in *; cbn [chan fresh consumed discarded threads] in *.
      * pose proof (cnt_upd b (mkT (Some cb) (KPrepare :: r)) _ _ _ Et) as Hu; rewrite Eh in Hu; cbn [held cnt_opt] in Hu.
        rewrite Ec in *. cbn [cnt_opt] in *. split; try intros Hf; try specialize (H2 Hf); lia.
      * pose proof (cnt_upd b (mkT (Some (fresh g)) (KPrepare :: r)) _ _ _ Et) as Hu; rewrite Eh in Hu; cbn [held cnt_opt] in Hu.
        rewrite Ec in *. cbn [cnt_opt] in *.
        destruct (Nat.eqb_spec (fresh g) b) as [E|E].
        -- specialize (H2 ltac:(lia)). split; [lia|intros Hf; lia].
        -- split; [lia|]. intros Hf. specialize (H2 ltac:(lia)). lia.
    + (* consume: take or build *)
      destruct (chan g) as [cb|] eqn:Ec; intros b; destruct (Hg b) as [H1 H2]; unfold owners in *; cbn [chan fresh consumed discarded threads] in *.
      * pose proof (cnt_upd b (mkT None r) _ _ _ Et) as Hu; rewrite Eh in Hu; cbn [held cnt_opt] in Hu.
        rewrite Ec in *. rewrite cnt_l_cons. cbn [cnt_opt] in *. split; try intros Hf; try specialize (H2 Hf); lia.
      * pose proof (cnt_upd b (mkT None r) _ _ _ Et) as Hu; rewrite Eh in Hu; cbn [held cnt_opt] in Hu.
        rewrite Ec in *. rewrite cnt_l_cons. cbn [cnt_opt] in *.
        destruct (Nat.eqb_spec (fresh g) b) as [E|E].
        -- specialize (H2 ltac:(lia)). split; [lia|intros Hf; lia].
        -- split; [lia|]. intros Hf. specialize (H2 ltac:(lia)). lia.
Qed.

Lemma cnt_ts_init b progs : cnt_ts b (map (mkT None) progs) = 0.
Proof. induction progs as [|p r IH]; cbn; [reflexivity|exact IH]. Qed.

Lemma ginit_inv progs : ginv (ginit progs).
Proof. intros b. unfold owners, ginit. cbn. rewrite cnt_ts_init. split; [lia|reflexivity]. Qed.

Lemma grun_inv_from sched : forall g, ginv g -> ginv (fold_left sstep sched g).
Proof. induction sched as [|i r IH]; intros g Hg; cbn; [exact Hg|]. apply IH. now apply sstep_inv. Qed.

(* whatever the schedule, no builder is handed to two proofs, and a builder handed to a proof is
   neither still in the channel nor held by a preparing goroutine *)
Theorem cache_single_consumer_lem progs sched : NoDup (consumed (grun progs sched)).
Proof.
  apply (NoDup_count_occ Nat.eq_dec). intros b.
  destruct (grun_inv_from sched _ (ginit_inv progs) b) as [H _]. unfold owners, cnt_l in H.
  unfold grun. lia.
Qed.

Theorem consumed_not_cached_lem progs sched b :
  In b (consumed (grun progs sched)) -> chan (grun progs sched) <> Some b.
Proof.
  intros Hin Hc. destruct (grun_inv_from sched _ (ginit_inv progs) b) as [H _]. unfold owners, cnt_l in H.
  unfold grun in *. rewrite Hc in H. cbn [cnt_opt] in H. rewrite Nat.eqb_refl in H.
  apply (count_occ_In Nat.eq_dec) in Hin. lia.
Qed.

(* ---- fast random generator ---- *)

Open Scope Z_scope.

Definition two64 : Z := 18446744073709551616.

(* number of 16-byte keystream blocks a read of n bytes reserves *)
Definition nblocks (n : Z) : Z := if n <=? 0 then 0 else (n - 1) / 16 + 1.

(* atomic.AddUint64(&c.counter, nBlocks) - nBlocks *)
Definition reserve (counter n : Z) : Z * Z := (counter, (counter + nblocks n) mod two64).

Fixpoint reservations (counter : Z) (reads : list Z) : list (Z * Z) :=
  match reads with
  | [] => []
  | n :: r => (counter, nblocks n) :: reservations (snd (reserve counter n)) r
  end.

Fixpoint total_blocks (reads : list Z) : Z :=
  match reads with [] => 0 | n :: r => nblocks n + total_blocks r end.

(* bytes handed to the caller: the first n bytes of the reserved blocks of the keystream ks *)
Fixpoint blocks (ks : Z -> list Z) (iv : Z) (k : nat) : list Z :=
  match k with O => [] | S k' => ks iv ++ blocks ks ((iv + 1) mod two64) k' end.

Definition read_bytes (ks : Z -> list Z) (counter n : Z) : list Z :=
  firstn (Z.to_nat n) (blocks ks counter (Z.to_nat (nblocks n))).

Fixpoint reads_out (ks : Z -> list Z) (counter : Z) (reads : list Z) : list (list Z) :=
  match reads with
  | [] => []
  | n :: r => read_bytes ks counter n :: reads_out ks (snd (reserve counter n)) r
  end.

Lemma nblocks_nonneg n : 0 <= nblocks n.
Proof.
  unfold nblocks. destruct (Z.leb_spec n 0); [lia|].
  assert (0 <= (n - 1) / 16) by (apply Z.div_pos; lia). lia.
Qed.

Lemma total_nonneg reads : 0 <= total_blocks reads.
Proof. induction reads as [|n r IH]; cbn; [lia|]. pose proof (nblocks_nonneg n). lia. Qed.

Definition interval_disjoint (a b : Z * Z) : Prop :=
  fst a + snd a <= fst b \/ fst b + snd b <= fst a.

Lemma reservations_bounds reads : forall c, 0 <= c -> c + total_blocks reads < two64 ->
  Forall (fun iv => c <= fst iv /\ fst iv + snd iv <= c + total_blocks reads) (reservations c reads).
Proof.
  induction reads as [|n r IH]; intros c Hc Ht; cbn [reservations]; [constructor|].
  cbn [total_blocks] in Ht. pose proof (nblocks_nonneg n) as Hn. pose proof (total_nonneg r) as Hr.
  constructor.
  - cbn [fst snd total_blocks]. lia.
  - unfold reserve. cbn [snd]. rewrite Z.mod_small by (unfold two64 in *; lia).
    specialize (IH (c + nblocks n) ltac:(lia) ltac:(lia)).
    eapply Forall_impl; [|exact IH]. cbn beta. intros iv [H1 H2]. cbn [total_blocks]. lia.
Qed.

(* as long as fewer than 2^64 blocks have been handed out, no keystream block is handed out twice:
   the reserved intervals are pairwise disjoint, in whatever order the readers got to the counter *)
Theorem cprng_disjoint_lem reads : forall c, 0 <= c -> c + total_blocks reads < two64 ->
  ForallOrdPairs interval_disjoint (reservations c reads).
Proof.
  induction reads as [|n r IH]; intros c Hc Ht; cbn [reservations]; [constructor|].
  cbn [total_blocks] in Ht. pose proof (nblocks_nonneg n) as Hn. pose proof (total_nonneg r) as Hr.
  unfold reserve. cbn [snd]. rewrite Z.mod_small by (unfold two64 in *; lia).
  constructor.
  - pose proof (reservations_bounds r (c + nblocks n) ltac:(lia) ltac:(lia)) as Hb.
    eapply Forall_impl; [|exact Hb]. cbn beta. intros iv [H1 H2]. left. cbn [fst snd]. lia.
  - apply IH; lia.
Qed.

(* and together they cover exactly the blocks below the final counter value *)
Theorem cprng_contiguous_lem reads : forall c, 0 <= c -> c + total_blocks reads < two64 ->
  fold_left (fun k iv => if fst iv =? k then k + snd iv else -1) (reservations c reads) c = c + total_blocks reads.
Proof.
  induction reads as [|n r IH]; intros c Hc Ht; cbn [reservations fold_left total_blocks]; [lia|].
  cbn [total_blocks] in Ht. pose proof (nblocks_nonneg n) as Hn. pose proof (total_nonneg r) as Hr.
  cbn [fst snd]. rewrite Z.eqb_refl. unfold reserve. cbn [snd]. rewrite Z.mod_small by (unfold two64 in *; lia).
  rewrite IH by lia. lia.
Qed.

(* after 2^64 blocks the counter wraps and the keystream repeats: the bound in the theorem is needed *)
Example cprng_wraps : reservations (two64 - 1) [16; 16] = [(two64 - 1, 1); (0, 1)].
Proof. vm_compute. reflexivity. Qed.
