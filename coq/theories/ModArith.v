(* Modular arithmetic as math/big performs it, with the algebraic laws the protocol
   proofs need.  Specification-level operators (mulm, powm) are stated with Z.pow and
   Z.modulo; the executable versions (powx = stdlib Zpow_mod, egcd with explicit fuel)
   are proved equal to them, so theorems talk about the former and the extracted
   model runs the latter. *)
From Coq Require Import ZArith Lia List Znumtheory Zpow_facts Bool.
Import ListNotations.
Open Scope Z_scope.

Definition mulm (n a b : Z) : Z := (a * b) mod n.
Definition powm (n a e : Z) : Z := (a ^ e) mod n.

(* executable modexp: binary method, reduces at every step *)
Definition powx (n a e : Z) : Z := Zpow_mod a e n.

Lemma powx_powm n a e : n <> 0 -> powx n a e = powm n a e.
Proof. intros Hn. unfold powx, powm. now apply Zpow_mod_correct. Qed.

Section Laws.
Variable n : Z.
Hypothesis Hn : 0 < n.

Lemma mulm_comm a b : mulm n a b = mulm n b a.
Proof. unfold mulm. now rewrite Z.mul_comm. Qed.

Lemma mulm_mod_l a b : mulm n (a mod n) b = mulm n a b.
Proof. unfold mulm. now rewrite Z.mul_mod_idemp_l by lia. Qed.

Lemma mulm_mod_r a b : mulm n a (b mod n) = mulm n a b.
Proof. unfold mulm. now rewrite Z.mul_mod_idemp_r by lia. Qed.

Lemma mulm_assoc a b c : mulm n (mulm n a b) c = mulm n a (mulm n b c).
Proof.
  unfold mulm. rewrite Z.mul_mod_idemp_l, Z.mul_mod_idemp_r by lia.
  now rewrite Z.mul_assoc.
Qed.

Lemma mulm_range a b : 0 <= mulm n a b < n.
Proof. unfold mulm. apply Z.mod_pos_bound. lia. Qed.

Lemma powm_range a e : 0 <= powm n a e < n.
Proof. unfold powm. apply Z.mod_pos_bound. lia. Qed.

Lemma powm_mod a e : powm n (a mod n) e = powm n a e.
Proof.
  unfold powm. destruct (Z_lt_le_dec e 0) as [Hneg|Hpos].
  - now rewrite !Z.pow_neg_r by lia.
  - symmetry. apply Zpower_mod. lia.
Qed.

Lemma powm_0_r a : powm n a 0 = 1 mod n.
Proof. reflexivity. Qed.

Lemma powm_add a e f : 0 <= e -> 0 <= f ->
  powm n a (e + f) = mulm n (powm n a e) (powm n a f).
Proof.
  intros He Hf. unfold powm, mulm.
  rewrite Z.pow_add_r by lia. now rewrite Z.mul_mod by lia.
Qed.

Lemma powm_mulm a b e : 0 <= e ->
  powm n (mulm n a b) e = mulm n (powm n a e) (powm n b e).
Proof.
  intros He. unfold mulm at 1. rewrite powm_mod. unfold powm, mulm.
  rewrite Z.pow_mul_l. now rewrite Z.mul_mod by lia.
Qed.

Lemma powm_powm a e f : 0 <= e -> 0 <= f ->
  powm n (powm n a e) f = powm n a (e * f).
Proof.
  intros He Hf. unfold powm at 2. rewrite powm_mod. unfold powm.
  now rewrite Z.pow_mul_r by lia.
Qed.

Lemma powm_1_l e : 0 <= e -> powm n 1 e = 1 mod n.
Proof. intros. unfold powm. now rewrite Z.pow_1_l. Qed.

Lemma mulm_1_l a : mulm n 1 a = a mod n.
Proof. unfold mulm. now rewrite Z.mul_1_l. Qed.

Lemma mulm_1_r a : mulm n a 1 = a mod n.
Proof. unfold mulm. now rewrite Z.mul_1_r. Qed.

Lemma mulm_1mod_l a : mulm n (1 mod n) a = a mod n.
Proof. rewrite mulm_mod_l. apply mulm_1_l. Qed.

Lemma mulm_1mod_r a : mulm n a (1 mod n) = a mod n.
Proof. rewrite mulm_mod_r. apply mulm_1_r. Qed.

Lemma mulm_idem_mod a b : (mulm n a b) mod n = mulm n a b.
Proof. unfold mulm. now rewrite Z.mod_mod by lia. Qed.

Lemma powm_idem_mod a e : (powm n a e) mod n = powm n a e.
Proof. unfold powm. now rewrite Z.mod_mod by lia. Qed.

(* an element of exponent [ord]: x^ord = 1.  Exponents can then be shifted by multiples
   of ord; this is what a holder who knows the group order can do to a response. *)
Lemma powm_order_mul a ord k : 0 <= ord -> 0 <= k ->
  powm n a ord = 1 mod n -> powm n a (ord * k) = 1 mod n.
Proof.
  intros Ho Hk H1. rewrite <- powm_powm by lia. rewrite H1.
  rewrite powm_mod. now apply powm_1_l.
Qed.

Lemma powm_order_shift a ord e k : 0 <= ord -> 0 <= k -> 0 <= e ->
  powm n a ord = 1 mod n -> powm n a (e + ord * k) = powm n a e.
Proof.
  intros Ho Hk He H1. rewrite powm_add by nia.
  rewrite (powm_order_mul a ord k) by assumption.
  rewrite mulm_1mod_r. apply powm_idem_mod.
Qed.

(* the same with e reduced modulo ord (Euclidean), the way exponents are reduced with
   the private key *)
Lemma powm_order_mod a ord e : 0 < ord -> 0 <= e ->
  powm n a ord = 1 mod n -> powm n a (e mod ord) = powm n a e.
Proof.
  intros Ho He H1.
  pose proof (Z.mod_pos_bound e ord Ho) as Hm.
  assert (Hq : 0 <= e / ord) by (apply Z.div_pos; lia).
  rewrite (Z.div_mod e ord) at 2 by lia.
  rewrite Z.add_comm. apply eq_sym. apply powm_order_shift; lia || assumption.
Qed.

End Laws.

(* ---------------------------------------------------------------------------------- *)
(* Extended Euclid with explicit fuel.  Invariant (any fuel): a*x + b*y = g.           *)

Fixpoint egcd (fuel : nat) (a b : Z) : Z * Z * Z :=
  match fuel with
  | O => (a, 1, 0)
  | S f =>
    if b =? 0 then (a, 1, 0)
    else let '(g, x, y) := egcd f b (a mod b) in (g, y, x - (a / b) * y)
  end.

Lemma egcd_bezout fuel : forall a b g x y,
  egcd fuel a b = (g, x, y) -> a * x + b * y = g.
Proof.
  induction fuel as [|f IH]; intros a b g x y H; cbn [egcd] in H.
  - inversion H; subst. lia.
  - destruct (Z.eqb_spec b 0) as [Hb|Hb].
    + inversion H; subst. lia.
    + destruct (egcd f b (a mod b)) as [[g' x'] y'] eqn:E.
      inversion H; subst. apply IH in E.
      pose proof (Z.div_mod a b Hb). nia.
Qed.

(* fuel sufficiency: the product of the arguments at least halves every step *)
Lemma egcd_gcd fuel : forall a b,
  0 <= b -> 0 <= a -> (b < a \/ b = 0 \/ fuel <> O) ->
  a * b < 2 ^ (Z.of_nat fuel - (if b <? a then 0 else 1)) \/ b = 0 ->
  fst (fst (egcd (S fuel) a b)) = Z.gcd a b.
Proof.
  induction fuel as [|f IH]; intros a b Hb Ha Hord Hsz.
  - cbn [egcd]. destruct (Z.eqb_spec b 0) as [Hb0|Hb0].
    + subst. cbn. rewrite Z.gcd_0_r. lia.
    + exfalso. destruct Hsz as [Hsz|Hsz]; [|lia].
      destruct (Z.ltb_spec b a).
      * cbn in Hsz. nia.
      * destruct Hord as [?|[?|?]]; lia.
  - remember (S f) as sf. cbn [egcd].
    destruct (Z.eqb_spec b 0) as [Hb0|Hb0].
    + subst b. cbn. rewrite Z.gcd_0_r. lia.
    + destruct (egcd sf b (a mod b)) as [[g x] y] eqn:E. cbn [fst].
      assert (Hg : g = Z.gcd b (a mod b)).
      { replace g with (fst (fst (egcd sf b (a mod b)))) by now rewrite E.
        subst sf. pose proof (Z.mod_pos_bound a b ltac:(lia)) as Hm.
        apply IH; try lia.
        destruct (Z.eqb_spec (a mod b) 0) as [Hr0|Hr0]; [right; exact Hr0|left].
        destruct Hsz as [Hsz|Hsz]; [|lia].
        replace (a mod b <? b) with true by (symmetry; apply Z.ltb_lt; lia).
        rewrite Z.sub_0_r.
        destruct (Z.ltb_spec b a) as [Hlt|Hge].
        - (* b < a : 2*(a mod b) < a *)
          rewrite Z.sub_0_r in Hsz.
          assert (2 * (a mod b) < a).
          { pose proof (Z.div_mod a b Hb0).
            assert (1 <= a / b) by (apply Z.div_le_lower_bound; lia). nia. }
          rewrite Nat2Z.inj_succ in Hsz. rewrite Z.pow_succ_r in Hsz by lia. nia.
        - (* a <= b : a mod b = a or 0 ; product unchanged but exponent had -1 *)
          rewrite Nat2Z.inj_succ in Hsz.
          replace (Z.succ (Z.of_nat f) - 1) with (Z.of_nat f) in Hsz by lia.
          destruct (Z.eq_dec a b) as [->|Hne].
          + rewrite Z_mod_same_full in Hr0. lia.
          + rewrite Z.mod_small by lia. rewrite Z.mod_small in Hr0 by lia. nia. }
      subst g. rewrite Z.gcd_comm, Z.gcd_mod by lia. apply Z.gcd_comm.
Qed.

Definition bitlen (z : Z) : Z := if z =? 0 then 0 else Z.log2 (Z.abs z) + 1.

Lemma bitlen_bound z : 0 <= z -> z < 2 ^ bitlen z.
Proof.
  intros Hz. unfold bitlen. destruct (Z.eqb_spec z 0); [subst; cbn; lia|].
  rewrite Z.abs_eq by lia. apply Z.log2_spec. lia.
Qed.

Lemma bitlen_nonneg z : 0 <= bitlen z.
Proof. unfold bitlen. destruct (z =? 0); [lia|]. pose proof (Z.log2_nonneg (Z.abs z)). lia. Qed.

Definition egcd_fuel (a b : Z) : nat := S (Z.to_nat (bitlen a + bitlen b + 1)).

Definition xgcd (a b : Z) : Z * Z * Z := egcd (egcd_fuel a b) a b.

Lemma xgcd_bezout a b g x y : xgcd a b = (g, x, y) -> a * x + b * y = g.
Proof. apply egcd_bezout. Qed.

Lemma xgcd_gcd a b : 0 <= a -> 0 <= b -> fst (fst (xgcd a b)) = Z.gcd a b.
Proof.
  intros Ha Hb. unfold xgcd, egcd_fuel.
  apply egcd_gcd; try lia.
  - right; right. pose proof (bitlen_nonneg a). pose proof (bitlen_nonneg b).
    intro HH. apply (f_equal Z.of_nat) in HH. rewrite Z2Nat.id in HH by lia. cbn in HH. lia.
  - left. pose proof (bitlen_nonneg a). pose proof (bitlen_nonneg b).
    rewrite Z2Nat.id by lia.
    pose proof (bitlen_bound a Ha). pose proof (bitlen_bound b Hb).
    assert (a * b < 2 ^ (bitlen a + bitlen b)).
    { rewrite Z.pow_add_r by lia. nia. }
    destruct (b <? a).
    + rewrite Z.sub_0_r. rewrite Z.pow_add_r by lia. cbn. lia.
    + now replace (bitlen a + bitlen b + 1 - 1) with (bitlen a + bitlen b) by lia.
Qed.

(* Go: new(big.Int).ModInverse(g, n) for n > 0 : nil when gcd <> 1, else value in [0,n) *)
Definition go_modinverse (g n : Z) : option Z :=
  let g' := g mod n in
  let '(d, x, _) := xgcd g' n in
  if d =? 1 then Some (x mod n) else None.

Lemma go_modinverse_sound g n x : 0 < n ->
  go_modinverse g n = Some x -> mulm n g x = 1 mod n /\ 0 <= x < n.
Proof.
  intros Hn. unfold go_modinverse.
  destruct (xgcd (g mod n) n) as [[d x0] y0] eqn:E.
  destruct (Z.eqb_spec d 1) as [->|]; [|discriminate].
  intros [= <-]. split; [|apply Z.mod_pos_bound; lia].
  apply xgcd_bezout in E. unfold mulm.
  rewrite Z.mul_mod_idemp_r by lia.
  rewrite <- Z.mul_mod_idemp_l by lia.
  replace (g mod n * x0) with (1 + (- y0) * n) by lia.
  now rewrite Z.mod_add by lia.
Qed.

Lemma go_modinverse_some_iff g n : 0 < n ->
  (exists x, go_modinverse g n = Some x) <-> Z.gcd g n = 1.
Proof.
  intros Hn. unfold go_modinverse.
  pose proof (xgcd_gcd (g mod n) n) as Hg.
  destruct (xgcd (g mod n) n) as [[d x0] y0] eqn:E. cbn [fst] in Hg.
  rewrite Hg by (try apply Z.mod_pos_bound; lia).
  rewrite Z.gcd_mod by lia. rewrite (Z.gcd_comm n g).
  destruct (Z.eqb_spec (Z.gcd g n) 1) as [H1|H1].
  - split; [auto|intros; eauto].
  - split; [intros [x Hx]; discriminate|intros; contradiction].
Qed.

Lemma go_modinverse_none g n : 0 < n ->
  go_modinverse g n = None <-> Z.gcd g n <> 1.
Proof.
  intros Hn. pose proof (go_modinverse_some_iff g n Hn) as [H1 H2].
  destruct (go_modinverse g n) eqn:E.
  - split; [discriminate|]. intros H. exfalso. apply H. apply H1. eauto.
  - split; [|auto]. intros _ H. destruct (H2 H) as [x Hx]. discriminate.
Qed.

(* Go: new(big.Int).Exp(x, y, m) for m > 0 : y < 0 uses the inverse (nil if none) *)
Definition go_exp (x y m : Z) : option Z :=
  if y <? 0 then
    match go_modinverse x m with
    | Some xi => Some (powx m xi (- y))
    | None => None
    end
  else Some (powx m x y).

(* Go: common.ModPow : identical case split, error instead of nil *)
Definition go_modpow (x y m : Z) : option Z := go_exp x y m.

(* unit group membership *)
Definition unitm (n x : Z) : Prop := Z.gcd x n = 1.

Lemma mulm_cancel_inv n a ai b : 0 < n ->
  mulm n a ai = 1 mod n -> mulm n ai (mulm n a b) = b mod n.
Proof.
  intros Hn H. rewrite <- mulm_assoc by lia. rewrite (mulm_comm n ai a), H.
  now apply mulm_1mod_l.
Qed.

(* Product over a list of (base, exponent) pairs, reduced at every step as Go does. *)
Fixpoint prodpow (n : Z) (l : list (Z * Z)) : Z :=
  match l with
  | [] => 1 mod n
  | (b, e) :: r => mulm n (powm n b e) (prodpow n r)
  end.

Lemma prodpow_range n l : 0 < n -> 0 <= prodpow n l < n.
Proof. intros Hn. destruct l as [|[b e] r]; cbn; [apply Z.mod_pos_bound|apply mulm_range]; lia. Qed.

Lemma prodpow_idem n l : 0 < n -> (prodpow n l) mod n = prodpow n l.
Proof. intros. apply Z.mod_small. now apply prodpow_range. Qed.

Lemma prodpow_app n l1 l2 : 0 < n ->
  prodpow n (l1 ++ l2) = mulm n (prodpow n l1) (prodpow n l2).
Proof.
  intros Hn. induction l1 as [|[b e] r IH]; cbn [prodpow app].
  - rewrite mulm_1mod_l by lia. symmetry. now apply prodpow_idem.
  - rewrite IH. now rewrite mulm_assoc by lia.
Qed.
