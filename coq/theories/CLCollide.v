(* C05: one signature that verifies over two message blocks makes the two blocks collide in the representation
   prod R_i^(m_i) modulo N - the algebraic core of "a signature never verifies against a different block": a pair of
   different blocks with equal representation is a non-trivial relation among the bases R_i, which the issuer's
   key hides (discrete logarithms in QR_N; cited). *)
From Coq Require Import ZArith List Bool Lia.
From Gabi Require Import ModArith GoSem ParamsDef Keys Core CL.
Import ListNotations.
Open Scope Z_scope.

Lemma mod_subst n a y u : 0 < n -> (a * ((y mod n) * u)) mod n = (a * (y * u)) mod n.
Proof.
  intros Hn. rewrite <- (Z.mul_mod_idemp_r a ((y mod n) * u)) by lia.
  rewrite (Z.mul_mod_idemp_l y u) by lia. now rewrite Z.mul_mod_idemp_r by lia.
Qed.

Theorem cl_two_blocks_collide_lem pk is_prime sg ms ms' :
  1 < pk_N pk -> Z.gcd (pk_Z pk) (pk_N pk) = 1 ->
  cl_verify pk is_prime sg ms = Ok true -> cl_verify pk is_prime sg ms' = Ok true ->
  exists r r', represent_to_pk pk ms = Ok r /\ represent_to_pk pk ms' = Ok r' /\ r mod pk_N pk = r' mod pk_N pk.
Proof.
  intros Hn Hg H H'. set (n := pk_N pk) in *.
  unfold cl_verify in H, H'. fold n in H, H'.
  destruct (sig_E sg) as [e|]; cbn [deref obind] in *; [|discriminate].
  destruct ((e <? e_start (pk_params pk)) || (e_end (pk_params pk) <? e)); [discriminate|].
  destruct (negb (is_prime e)); [discriminate|].
  destruct (sig_A sg) as [a|]; cbn [deref obind] in *; [|discriminate].
  destruct (go_exp a e n) as [ae|]; cbn [deref obind] in *; [|discriminate].
  destruct (represent_to_pk pk ms) as [r| |]; cbn [obind] in H; try discriminate.
  destruct (represent_to_pk pk ms') as [r'| |]; cbn [obind] in H'; try discriminate.
  destruct (sig_V sg) as [v|]; cbn [deref obind] in *; [|discriminate].
  destruct (go_modpow (pk_S pk) v n) as [sv|]; [|discriminate].
  exists r, r'. split; [reflexivity|]. split; [reflexivity|].
  inversion H as [E]. inversion H' as [E']. apply Z.eqb_eq in E, E'.
  (* Z = X * r = X * r' (mod n) with X = ae * kp * sv *)
  set (k := match sig_KP sg with Some kp => kp | None => 1 end).
  assert (F : forall x, (ae * match sig_KP sg with Some kp => x * kp | None => x end * sv) mod n = ((ae * k * sv) * x) mod n).
  { intros x. unfold k. destruct (sig_KP sg); f_equal; ring. }
  rewrite F in E, E'. set (X := ae * k * sv) in *.
  destruct (proj2 (go_modinverse_some_iff (pk_Z pk) n ltac:(lia)) Hg) as [u Hu].
  apply go_modinverse_sound in Hu; [|lia]. destruct Hu as [Hu _]. unfold mulm in Hu. rewrite Z.mod_1_l in Hu by lia.
  (* r = r * (Z u) = r * (X r' u) = (X r) * u * r' = Z u r' = r' *)
  assert (A : (r * (pk_Z pk * u)) mod n = r mod n).
  { rewrite <- Z.mul_mod_idemp_r by lia. rewrite Hu. now rewrite Z.mul_1_r. }
  assert (B : (r' * (pk_Z pk * u)) mod n = r' mod n).
  { rewrite <- Z.mul_mod_idemp_r by lia. rewrite Hu. now rewrite Z.mul_1_r. }
  rewrite <- A, <- B.
  rewrite E' at 1. rewrite E. rewrite !mod_subst by lia. f_equal. ring.
Qed.

(* satisfiable non-trivially: toy key N = 77, S = 9, R = [4; 16], Z = 43; since 16 = 4^2 the blocks [7; 6] and [5; 7]
   have the same representation, and the signature (2, 2^596 + 1, 5) of KeyshareComplete's example verifies over both *)
From GabiGen Require Import Consts.
Example cl_two_blocks_collide_nonvacuous :
  let pk := mkPk 77 43 9 None None [4; 16] params_1024 0 false in
  let sg := mkSig (Some 2) (Some (2 ^ 596 + 1)) (Some 5) None in
  cl_verify pk (fun _ => true) sg [7; 6] = Ok true /\ cl_verify pk (fun _ => true) sg [5; 7] = Ok true /\
  Z.gcd (pk_Z pk) (pk_N pk) = 1.
Proof. cbv zeta. repeat split; vm_compute; reflexivity. Qed.
