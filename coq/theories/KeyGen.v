(* gabikeys/keys.go:373-526 — selection of the safe prime pair, choice of the bases;
   keyproof/validkeyproof.go:96-113 — CanProve. *)
From Coq Require Import ZArith List Lia Bool.
From Gabi Require Import ModArith MathUtil.
Import ListNotations.
Open Scope Z_scope.

(* keys.go:385 findMatch *)
Definition pair_fits (ln p q : Z) : bool :=
  (bitlen (p * q) =? ln) && negb (p mod 8 =? q mod 8).

Definition find_match (ln : Z) (safeprimes : list Z) (p : Z) : option Z :=
  find (pair_fits ln p) safeprimes.

Inductive sel := Continue (acc : list Z) | Found (p q : Z).

(* one iteration of the receive loop of generateSafePrimePair (keys.go:412-428) *)
Definition pair_step (ln : Z) (acc : list Z) (p : Z) : sel :=
  if Z.shiftr p 1 mod 8 =? 1 then Continue acc
  else match find_match ln acc p with
       | Some q => match acc with [] => Continue (acc ++ [p]) | _ => Found p q end
       | None => Continue (acc ++ [p])
       end.

(* the loop over the stream of safe primes delivered by the workers *)
Fixpoint select_pair (ln : Z) (acc : list Z) (stream : list Z) : option (Z * Z) :=
  match stream with
  | [] => None
  | p :: r => match pair_step ln acc p with
              | Continue acc' => select_pair ln acc' r
              | Found p q => Some (p, q)
              end
  end.

(* validkeyproof.go:96 CanProve, relative to the safe-prime test *)
Definition can_prove (safe : Z -> bool) (pp qp : Z) : bool :=
  let P := Z.shiftl pp 1 + 1 in
  let Q := Z.shiftl qp 1 + 1 in
  if negb (safe P) || negb (safe Q) then false
  else negb (P mod 8 =? 1) && negb (Q mod 8 =? 1) && negb (pp mod 8 =? 1) && negb (qp mod 8 =? 1)
       && negb (P mod 8 =? Q mod 8) && negb (pp mod 8 =? qp mod 8).

(* checker for a finished pair, run on every generated key by the correspondence suite *)
Definition pair_ok (ln p q : Z) : bool :=
  pair_fits ln p q && negb (Z.shiftr p 1 mod 8 =? 1) && negb (Z.shiftr q 1 mod 8 =? 1).

(* keys.go:468-480 acceptance of a candidate S; keys.go:488-496 acceptance of an exponent *)
Definition s_accepted (n p q s : Z) : bool :=
  negb (n <? s) && (legendre s p =? 1) && (legendre s q =? 1).
Definition x_accepted (n x : Z) : bool := (2 <? x) && (x <? n).

(* --------------------------------------------------------------------------------- *)

Lemma find_match_spec ln acc p q : find_match ln acc p = Some q -> In q acc /\ pair_fits ln p q = true.
Proof. intros H. apply find_some in H. exact H. Qed.

Definition half_ok (x : Z) : Prop := Z.shiftr x 1 mod 8 <> 1.

Lemma select_pair_inv ln : forall stream acc seen p q,
  (forall x, In x acc -> half_ok x /\ In x seen) ->
  select_pair ln acc stream = Some (p, q) ->
  In p (seen ++ stream) /\ In q (seen ++ stream) /\ pair_fits ln p q = true /\ half_ok p /\ half_ok q.
Proof.
  induction stream as [|c r IH]; intros acc seen p q Hacc H; cbn [select_pair] in H; [discriminate|].
  unfold pair_step in H. destruct (Z.eqb_spec (Z.shiftr c 1 mod 8) 1) as [E|E].
  - specialize (IH acc (seen ++ [c]) p q). rewrite <- app_assoc in IH. cbn [app] in IH. apply IH; [|exact H].
    intros x Hx. destruct (Hacc x Hx) as [H1 H2]. split; [exact H1|]. apply in_or_app. now left.
  - assert (Hnext : forall x, In x (acc ++ [c]) -> half_ok x /\ In x (seen ++ [c])).
    { intros x Hx. apply in_app_or in Hx as [Hx|[Hx|[]]].
      - destruct (Hacc x Hx) as [H1 H2]. split; [exact H1|]. apply in_or_app. now left.
      - subst x. split; [exact E|]. apply in_or_app. right. now left. }
    destruct (find_match ln acc c) as [m|] eqn:Ef.
    + destruct acc as [|a0 acc'].
      * cbn in Ef. discriminate.
      * inversion H; subst p q. apply find_match_spec in Ef as [Hin Hfit]. destruct (Hacc m Hin) as [Hm1 Hm2].
        repeat split; try assumption.
        -- apply in_or_app. right. now left.
        -- apply in_or_app. now left.
    + specialize (IH (acc ++ [c]) (seen ++ [c]) p q). rewrite <- app_assoc in IH. cbn [app] in IH. now apply IH.
Qed.

(* the pair handed to GenerateKeyPair: both primes come from the worker stream, the product has
   exactly the requested length, p and q differ modulo 8 (hence differ), neither half is 1 mod 8 *)
Theorem pair_conditions_lem ln stream p q :
  select_pair ln [] stream = Some (p, q) ->
  In p stream /\ In q stream /\ bitlen (p * q) = ln /\ p mod 8 <> q mod 8 /\ p <> q /\
  Z.shiftr p 1 mod 8 <> 1 /\ Z.shiftr q 1 mod 8 <> 1.
Proof.
  intros H. destruct (select_pair_inv ln stream [] [] p q ltac:(intros x []) H) as (Hp & Hq & Hfit & Hhp & Hhq).
  cbn [app] in Hp, Hq. unfold pair_fits in Hfit. apply andb_true_iff in Hfit as [Hb Hm].
  apply Z.eqb_eq in Hb. apply negb_true_iff in Hm. apply Z.eqb_neq in Hm.
  repeat split; try assumption. intros ->. now apply Hm.
Qed.

Lemma shiftr1 x : Z.shiftr x 1 = x / 2.
Proof. rewrite Z.shiftr_div_pow2 by lia. reflexivity. Qed.
Lemma shiftl1 x : Z.shiftl x 1 = 2 * x.
Proof. rewrite Z.shiftl_mul_pow2 by lia. change (2 ^ 1) with 2. lia. Qed.

(* so a key-correctness proof can always be made: for odd halves (they are primes > 2) the
   three conditions enforced at generation imply all six that CanProve asks for *)
Theorem can_prove_lem safe p q :
  safe p = true -> safe q = true -> Z.odd p = true -> Z.odd q = true ->
  Z.odd (p / 2) = true -> Z.odd (q / 2) = true ->
  p mod 8 <> q mod 8 -> Z.shiftr p 1 mod 8 <> 1 -> Z.shiftr q 1 mod 8 <> 1 ->
  can_prove safe (Z.shiftr p 1) (Z.shiftr q 1) = true.
Proof.
  intros Sp Sq Op Oq Ohp Ohq Hpq Hp Hq. unfold can_prove. rewrite !shiftl1, !shiftr1 in *.
  assert (Ep : 2 * (p / 2) + 1 = p).
  { rewrite (Zodd_bool_iff) in Op. apply Zodd_ex in Op as [k ->].
    replace ((2 * k + 1) / 2) with k; [reflexivity|]. apply (Z.div_unique (2 * k + 1) 2 k 1); lia. }
  assert (Eq : 2 * (q / 2) + 1 = q).
  { rewrite (Zodd_bool_iff) in Oq. apply Zodd_ex in Oq as [k ->].
    replace ((2 * k + 1) / 2) with k; [reflexivity|]. apply (Z.div_unique (2 * k + 1) 2 k 1); lia. }
  rewrite Ep, Eq, Sp, Sq. cbn [negb orb].
  set (a := p / 2) in *. set (b := q / 2) in *.
  rewrite Zodd_bool_iff in Ohp, Ohq. apply Zodd_ex in Ohp as [ka Ha]. apply Zodd_ex in Ohq as [kb Hb].
  rewrite <- Ep, <- Eq in Hpq |- *.
  pose proof (Z.mod_pos_bound a 8 ltac:(lia)) as Ba. pose proof (Z.mod_pos_bound b 8 ltac:(lia)) as Bb.
  pose proof (Z.div_mod a 8 ltac:(lia)) as Da. pose proof (Z.div_mod b 8 ltac:(lia)) as Db.
  assert (Pa : (2 * a + 1) mod 8 = (2 * (a mod 8) + 1) mod 8).
  { rewrite Da at 1. replace (2 * (8 * (a / 8) + a mod 8) + 1) with ((2 * (a mod 8) + 1) + (2 * (a / 8)) * 8) by ring. apply Z.mod_add. lia. }
  assert (Pb : (2 * b + 1) mod 8 = (2 * (b mod 8) + 1) mod 8).
  { rewrite Db at 1. replace (2 * (8 * (b / 8) + b mod 8) + 1) with ((2 * (b mod 8) + 1) + (2 * (b / 8)) * 8) by ring. apply Z.mod_add. lia. }
  rewrite Pa, Pb in *.
  (* a mod 8 and b mod 8 are odd and different from 1 *)
  assert (Oa : a mod 8 = 3 \/ a mod 8 = 5 \/ a mod 8 = 7) by lia.
  assert (Ob : b mod 8 = 3 \/ b mod 8 = 5 \/ b mod 8 = 7) by lia.
  destruct Oa as [Ea|[Ea|Ea]]; destruct Ob as [Eb|[Eb|Eb]]; rewrite Ea, Eb in *; cbn in Hpq |- *; try reflexivity; try (exfalso; apply Hpq; reflexivity).
Qed.

(* ---- the bases ---- *)

(* for a safe prime p = 2p'+1 with p' odd: an element whose Euler symbol a^p' is 1 is a square *)
Theorem euler_one_is_square_lem p pp a :
  p = 2 * pp + 1 -> 0 < pp -> Z.odd pp = true -> powm p a pp = 1 ->
  powm p (powm p a ((pp + 1) / 2)) 2 = a mod p.
Proof.
  intros Hp Hpos Hodd He. assert (Hp1 : 1 < p) by lia.
  rewrite Zodd_bool_iff in Hodd. apply Zodd_ex in Hodd as [k Hk].
  assert (Hh : (pp + 1) / 2 = k + 1).
  { subst pp. replace (2 * k + 1 + 1) with ((k + 1) * 2) by ring. apply Z.div_mul. lia. }
  rewrite Hh. rewrite powm_powm by lia.
  replace ((k + 1) * 2) with (pp + 1) by lia.
  rewrite powm_add by lia. rewrite He. unfold mulm, powm. rewrite Z.pow_1_r.
  rewrite Z.mul_1_l. apply Z.mod_mod. lia.
Qed.

(* powers of a square are squares: Z and the R_i inherit being a quadratic residue from S *)
Theorem power_of_square_lem n s t x : 0 < n -> 0 <= x ->
  s mod n = powm n t 2 -> powm n s x = powm n (powm n t x) 2.
Proof.
  intros Hn Hx Hs. rewrite <- (powm_mod n Hn s x). rewrite Hs. rewrite !powm_powm by lia.
  f_equal. lia.
Qed.

(* RandomQR returns r*r mod n for r coprime to n: a square of a unit by construction *)
Definition random_qr (n r : Z) : option Z := if Z.gcd r n =? 1 then Some (mulm n r r) else None.
Theorem random_qr_lem n r y : random_qr n r = Some y -> Z.gcd r n = 1 /\ y = powm n r 2.
Proof.
  unfold random_qr. destruct (Z.eqb_spec (Z.gcd r n) 1) as [E|E]; [|discriminate].
  intros H; inversion H. split; [exact E|]. unfold mulm, powm. f_equal. ring.
Qed.

(* Z and R_i lie in the subgroup generated by S: by construction they are powers of S *)
Definition derive_base (n s x : Z) : Z := powx n s x.
Theorem base_in_subgroup_lem n s x : n <> 0 -> derive_base n s x = powm n s x.
Proof. intros Hn. unfold derive_base. now apply powx_powm. Qed.

Example pair_nonvacuous :
  (* 9-bit safe primes; 467 = 2*233+1 is skipped because 233 = 1 mod 8; 263*347 and 263*383 are too short *)
  select_pair 18 [] [263; 467; 347; 383] = Some (383, 347).
Proof. vm_compute. reflexivity. Qed.

(* the supported parameter sets (regenerated from the repository on every run) carry exactly the
   derived values of MakeDerivedParameters, under the key length they are registered for *)
From Gabi Require Import ParamsDef.
From GabiGen Require Import Consts.

Definition params_consistent : bool :=
  forallb (fun kp : Z * sysparams =>
             let p := snd kp in
             (fst kp =? Ln p) &&
             forallb (fun ab : Z * Z => fst ab =? snd ab)
                     (combine (params_to_list p) (params_to_list (derive (Ln p) (Lm p) (Lh p) (Lstatzk p) (LePrime p)))))
          all_params.

Theorem params_derived_lem : params_consistent = true.
Proof. vm_compute. reflexivity. Qed.
