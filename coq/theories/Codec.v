(* big/int.go codecs: base64 text (JSON), decimal text (XML). *)
From Coq Require Import ZArith List Lia Bool.
From Gabi Require Import Val ModArith GoSem Bytes.
Import ListNotations.
Open Scope Z_scope.

(* ---------- base64 (std alphabet, padding) over byte values ---------- *)

Definition b64_char (s : Z) : Z :=
  if s <? 26 then 65 + s
  else if s <? 52 then 97 + (s - 26)
  else if s <? 62 then 48 + (s - 52)
  else if s =? 62 then 43 else 47.

Definition b64_val (c : Z) : option Z :=
  if (65 <=? c) && (c <=? 90) then Some (c - 65)
  else if (97 <=? c) && (c <=? 122) then Some (c - 97 + 26)
  else if (48 <=? c) && (c <=? 57) then Some (c - 48 + 52)
  else if c =? 43 then Some 62 else if c =? 47 then Some 63 else None.

Fixpoint b64_encode (l : list Z) : list Z :=
  match l with
  | a :: b :: c :: r =>
    b64_char (a / 4) :: b64_char ((a mod 4) * 16 + b / 16) :: b64_char ((b mod 16) * 4 + c / 64) :: b64_char (c mod 64)
      :: b64_encode r
  | [a; b] => [b64_char (a / 4); b64_char ((a mod 4) * 16 + b / 16); b64_char ((b mod 16) * 4); 61]
  | [a] => [b64_char (a / 4); b64_char ((a mod 4) * 16); 61; 61]
  | [] => []
  end.

Definition is_nil {A} (l : list A) : bool := match l with [] => true | _ => false end.

Definition dec4 (c1 c2 c3 c4 : Z) : option (list Z) :=
  match b64_val c1, b64_val c2 with
  | Some s1, Some s2 =>
    if c4 =? 61 then
      if c3 =? 61 then Some [s1 * 4 + s2 / 16]
      else match b64_val c3 with
           | Some s3 => Some [s1 * 4 + s2 / 16; (s2 mod 16) * 16 + s3 / 4]
           | None => None
           end
    else match b64_val c3, b64_val c4 with
         | Some s3, Some s4 => Some [s1 * 4 + s2 / 16; (s2 mod 16) * 16 + s3 / 4; (s3 mod 4) * 64 + s4]
         | _, _ => None
         end
  | _, _ => None
  end.

Fixpoint b64_decode (fuel : nat) (l : list Z) : option (list Z) :=
  match fuel with
  | O => if is_nil l then Some [] else None
  | S f =>
    match l with
    | [] => Some []
    | c1 :: c2 :: c3 :: c4 :: r =>
      match dec4 c1 c2 c3 c4 with
      | None => None
      | Some g =>
        if (c4 =? 61) && negb (is_nil r) then None     (* padding only at the end *)
        else match b64_decode f r with Some t => Some (g ++ t) | None => None end
      end
    | _ => None
    end
  end.

(* int.go:44 MarshalText : refuses negatives *)
Definition marshal_text (z : Z) : outcome (list Z) :=
  if z <? 0 then Err else Ok (b64_encode (be_bytes z)).

(* int.go:58 UnmarshalJSON for a quoted string (the characters between the quotes) *)
Definition unmarshal_text (l : list Z) : outcome Z :=
  match b64_decode (length l) l with
  | Some bs => Ok (be_to_Z bs)
  | None => Err
  end.

Lemma b64_val_char s : 0 <= s < 64 -> b64_val (b64_char s) = Some s.
Proof.
  intros Hs.
  assert (H : forallb (fun k => match b64_val (b64_char (Z.of_nat k)) with Some v => v =? Z.of_nat k | None => false end) (seq 0 64) = true)
    by (vm_compute; reflexivity).
  rewrite forallb_forall in H. specialize (H (Z.to_nat s)). rewrite Z2Nat.id in H by lia.
  assert (Hin : In (Z.to_nat s) (seq 0 64)) by (apply in_seq; lia).
  specialize (H Hin). destruct (b64_val (b64_char s)) as [v|]; [|discriminate]. apply Z.eqb_eq in H. now subst.
Qed.

Lemma b64_char_not_pad s : 0 <= s < 64 -> (b64_char s =? 61) = false.
Proof.
  intros Hs. apply Z.eqb_neq. unfold b64_char.
  destruct (Z.ltb_spec s 26); [lia|]. destruct (Z.ltb_spec s 52); [lia|].
  destruct (Z.ltb_spec s 62); [lia|]. destruct (s =? 62); lia.
Qed.

Lemma sextets a b c : 0 <= a < 256 -> 0 <= b < 256 -> 0 <= c < 256 ->
  (0 <= a / 4 < 64) /\ (0 <= (a mod 4) * 16 + b / 16 < 64) /\ (0 <= (b mod 16) * 4 + c / 64 < 64) /\ (0 <= c mod 64 < 64) /\
  (0 <= (a mod 4) * 16 < 64) /\ (0 <= (b mod 16) * 4 < 64) /\
  (a / 4 * 4 + ((a mod 4) * 16 + b / 16) / 16 = a) /\
  ((((a mod 4) * 16 + b / 16) mod 16) * 16 + ((b mod 16) * 4 + c / 64) / 4 = b) /\
  ((((b mod 16) * 4 + c / 64) mod 4) * 64 + c mod 64 = c) /\
  (a / 4 * 4 + ((a mod 4) * 16) / 16 = a) /\
  ((((a mod 4) * 16 + b / 16) mod 16) * 16 + ((b mod 16) * 4) / 4 = b).
Proof.
  intros Ha Hb Hc.
  pose proof (Z.div_mod a 4 ltac:(lia)). pose proof (Z.mod_pos_bound a 4 ltac:(lia)).
  pose proof (Z.div_mod b 16 ltac:(lia)). pose proof (Z.mod_pos_bound b 16 ltac:(lia)).
  pose proof (Z.div_mod c 64 ltac:(lia)). pose proof (Z.mod_pos_bound c 64 ltac:(lia)).
  assert (0 <= a / 4 < 64) by (split; [apply Z.div_pos; lia|apply Z.div_lt_upper_bound; lia]).
  assert (0 <= b / 16 < 16) by (split; [apply Z.div_pos; lia|apply Z.div_lt_upper_bound; lia]).
  assert (0 <= c / 64 < 4) by (split; [apply Z.div_pos; lia|apply Z.div_lt_upper_bound; lia]).
  set (a1 := a / 4) in *. set (a0 := a mod 4) in *. set (b1 := b / 16) in *. set (b0 := b mod 16) in *.
  set (c1 := c / 64) in *. set (c0 := c mod 64) in *.
  assert (E1 : (a0 * 16 + b1) / 16 = a0) by (symmetry; apply (Z.div_unique (a0 * 16 + b1) 16 a0 b1); lia).
  assert (E2 : (a0 * 16 + b1) mod 16 = b1) by (symmetry; apply (Z.mod_unique (a0 * 16 + b1) 16 a0 b1); lia).
  assert (E3 : (b0 * 4 + c1) / 4 = b0) by (symmetry; apply (Z.div_unique (b0 * 4 + c1) 4 b0 c1); lia).
  assert (E4 : (b0 * 4 + c1) mod 4 = c1) by (symmetry; apply (Z.mod_unique (b0 * 4 + c1) 4 b0 c1); lia).
  assert (E5 : (a0 * 16) / 16 = a0) by (apply Z.div_mul; lia).
  assert (E6 : (b0 * 4) / 4 = b0) by (apply Z.div_mul; lia).
  rewrite E1, E2, E3, E4, E5, E6. repeat split; lia.
Qed.

Lemma b64_roundtrip l : Forall is_byte l -> forall fuel, (length l <= fuel)%nat ->
  b64_decode fuel (b64_encode l) = Some l.
Proof.
  induction l as [l IH] using (well_founded_induction (Wf_nat.well_founded_ltof _ (@length Z))).
  intros Hb fuel Hf.
  destruct l as [|a [|b [|c r]]].
  - destruct fuel; reflexivity.
  - inversion Hb as [|? ? Ha _]; subst. unfold is_byte in Ha.
    destruct (sextets a 0 0 Ha ltac:(lia) ltac:(lia)) as (S1 & _ & _ & _ & S5 & _ & _ & _ & _ & R4 & _).
    destruct fuel; [cbn in Hf; lia|]. cbn [b64_encode b64_decode]. unfold dec4.
    rewrite (b64_val_char (a / 4)) by lia. rewrite (b64_val_char (a mod 4 * 16)) by lia. cbn [Z.eqb Pos.eqb is_nil andb negb].
    destruct fuel; cbn; now rewrite R4.
  - inversion Hb as [|? ? Ha Hb']; subst. inversion Hb' as [|? ? Hbb _]; subst. unfold is_byte in *.
    destruct (sextets a b 0 Ha Hbb ltac:(lia)) as (S1 & S2 & _ & _ & _ & S6 & R1 & _ & _ & _ & R5).
    destruct fuel; [cbn in Hf; lia|]. cbn [b64_encode b64_decode]. unfold dec4.
    rewrite !b64_val_char by lia. rewrite (b64_char_not_pad _ S6). cbn [Z.eqb Pos.eqb is_nil andb negb].
    try rewrite b64_val_char by lia.
    destruct fuel; cbn [b64_decode is_nil app]; now rewrite R1, R5.
  - inversion Hb as [|? ? Ha Hb1]; subst. inversion Hb1 as [|? ? Hbb Hb2]; subst. inversion Hb2 as [|? ? Hc Hr]; subst.
    unfold is_byte in *.
    destruct (sextets a b c Ha Hbb Hc) as (S1 & S2 & S3 & S4 & _ & _ & R1 & R2 & R3 & _ & _).
    destruct fuel; [cbn in Hf; lia|]. cbn [b64_encode b64_decode]. unfold dec4.
    rewrite !b64_val_char by lia. rewrite (b64_char_not_pad _ S4). cbn [andb].
    rewrite (IH r) ; [|unfold ltof; cbn; lia|exact Hr|cbn in Hf; lia].
    cbn [app]. now rewrite R1, R2, R3.
Qed.

Theorem text_roundtrip_lem z : 0 <= z -> exists t, marshal_text z = Ok t /\ unmarshal_text t = Ok z.
Proof.
  intros Hz. unfold marshal_text. destruct (Z.ltb_spec z 0); [lia|].
  eexists. split; [reflexivity|]. unfold unmarshal_text.
  rewrite b64_roundtrip.
  - now rewrite be_bytes_roundtrip.
  - apply be_bytes_bytes.
  - (* the encoding is at least as long as the input *)
    clear. generalize (be_bytes z). intros l.
    induction l as [l IH] using (well_founded_induction (Wf_nat.well_founded_ltof _ (@length Z))).
    destruct l as [|a [|b [|c r]]]; cbn [b64_encode length]; try lia.
    specialize (IH r). unfold ltof in IH. cbn in IH. specialize (IH ltac:(lia)). lia.
Qed.

Theorem text_refuses_negative_lem z : z < 0 -> marshal_text z = Err.
Proof. intros Hz. unfold marshal_text. destruct (Z.ltb_spec z 0); [reflexivity|lia]. Qed.

(* int.go:100 MarshalBinary / UnmarshalBinary *)
Theorem binary_roundtrip_lem z : 0 <= z -> be_to_Z (be_bytes z) = z.
Proof. apply be_bytes_roundtrip. Qed.
