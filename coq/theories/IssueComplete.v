(* C06: the issuance commitment proof (ProofU) of an honest user makes the issuer reconstruct the user's commitment. *)
From Coq Require Import ZArith List Lia Bool Permutation Zdiv Setoid Morphisms.
From Gabi Require Import Val ModArith GoSem ParamsDef ZkProof Keys Bytes Sha256 HashTool RangeProof NonRev Core CL Prover SignedPow DiscloseComplete.
Import ListNotations.
Open Scope Z_scope.

Section Issue.
Variable pk : pubkey.
Notation n := (pk_N pk).
Hypothesis Hn : 1 < n.

Notation R_at := (R_at pk).
Notation in_R := (in_R pk).
Notation unitb := (unitb pk).
Notation invf := (invf pk).

Definition kterms (l : list (Z * Z)) : list Z := map (fun ir => spw n (R_at (fst ir)) (invf (R_at (fst ir))) (snd ir)) l.

Lemma keyed_product_mprod reduce : forall (l : list (Z * Z)) acc,
  (forall ir, In ir l -> in_R (fst ir) /\ unitb (R_at (fst ir))) ->
  exists r, keyed_product pk l acc reduce = Ok r /\ r mod n = mulm n acc (mprod n (kterms l)) /\
            (reduce = true -> 0 <= acc < n -> 0 <= r < n).
Proof.
  induction l as [|[i x] rest IH]; intros acc H; cbn [keyed_product kterms map mprod fold_right].
  - exists acc. split; [reflexivity|]. split; [now rewrite mulm_1_r by lia|auto].
  - destruct (H (i, x) (or_introl eq_refl)) as (Hi & Hu). cbn [fst snd] in *.
    rewrite (index_R_ok pk i Hi). cbn [obind].
    change (go_exp (R_at i) x n) with (go_modpow (R_at i) x n). rewrite (go_modpow_spw pk Hn _ x Hu). cbn [deref obind].
    set (t := spw n (R_at i) (invf (R_at i)) x).
    destruct (IH (if reduce then (acc * t) mod n else acc * t)) as (r & Hr & Hm & Hrange).
    { intros ir Hir. apply H. now right. }
    exists r. split; [exact Hr|]. split.
    + rewrite Hm. fold (kterms rest).
      destruct reduce.
      * fold (mulm n acc t). now rewrite mulm_assoc by lia.
      * rewrite <- (mulm_mod_l n ltac:(lia) (acc * t)).
        fold (mulm n acc t). now rewrite mulm_assoc by lia.
    + intros -> Hacc. apply Hrange; [reflexivity|]. apply Z.mod_pos_bound. lia.
Qed.


Lemma resp_product_pairs : forall (l : list (Z * Z)) acc,
  (forall ir, In ir l -> in_R (fst ir) /\ unitb (R_at (fst ir))) -> 0 <= acc < n ->
  exists r, responses_product pk (map (fun ir => (fst ir, Some (snd ir))) l) acc = Ok r /\ 0 <= r < n /\
            r mod n = mulm n acc (mprod n (kterms l)).
Proof.
  induction l as [|[i x] rest IH]; intros acc H Hz; cbn [responses_product kterms map mprod fold_right fst snd].
  - exists acc. split; [reflexivity|]. split; [lia|]. now rewrite mulm_1_r by lia.
  - destruct (H (i, x) (or_introl eq_refl)) as (Hi & Hu). cbn [fst snd] in *.
    rewrite (index_R_ok pk i Hi). cbn [obind deref]. rewrite (go_modpow_spw pk Hn _ x Hu). cbn [or_err obind].
    set (t := spw n (R_at i) (invf (R_at i)) x).
    destruct (IH ((acc * t) mod n)) as (r & Hr & Hb & Hm).
    { intros ir Hir. apply H. now right. }
    { apply Z.mod_pos_bound. lia. }
    exists r. split; [exact Hr|]. split; [exact Hb|]. rewrite Hm. fold (kterms rest).
    fold (mulm n acc t). now rewrite mulm_assoc by lia.
Qed.

Local Instance eqm_equiv' : Equivalence (eqm n).
Proof. constructor; [intros a; apply eqm_refl|intros a b; apply eqm_sym|intros a b c; apply eqm_trans]. Qed.
Local Instance mul_eqm' : Proper (eqm n ==> eqm n ==> eqm n) Z.mul.
Proof. unfold eqm. intros a b H c d H0. rewrite (Z.mul_mod a c), (Z.mul_mod b d) by lia. now rewrite H, H0. Qed.

(* responses randomizer + c * secret over a keyed list *)
Definition zipk (mc : Z -> Z) (c : Z) (l : list (Z * Z)) : list (Z * Z) := map (fun kv => (fst kv, mc (fst kv) + c * snd kv)) l.
Definition mck (mc : Z -> Z) (l : list (Z * Z)) : list (Z * Z) := map (fun kv => (fst kv, mc (fst kv))) l.

Lemma sprod_pairs (ex : sterm -> Z) (mk : Z * Z -> sterm) (l : list (Z * Z)) :
  sprod n ex (map mk l) = mprod n (map (fun kv => spw n (s_b (mk kv)) (s_bi (mk kv)) (ex (mk kv))) l).
Proof. induction l as [|x r IH]; cbn [map sprod mprod fold_right]; [reflexivity|]. now rewrite IH. Qed.

Lemma kterms_response mc c : 0 <= c -> forall l,
  (forall ir, In ir l -> unitb (R_at (fst ir))) ->
  mprod n (kterms (zipk mc c l)) = mulm n (mprod n (kterms (mck mc l))) (powm n (mprod n (kterms l)) c).
Proof.
  intros Hc l Hu.
  pose (mk := fun kv : Z * Z => mkS (R_at (fst kv)) (invf (R_at (fst kv))) (snd kv) (mc (fst kv))).
  assert (Hts : Forall (fun t => mulm n (s_b t) (s_bi t) = 1) (map mk l)).
  { apply Forall_forall. intros t Ht. apply in_map_iff in Ht as (kv & <- & Hkv). cbn. apply (unit_inv pk Hn). now apply Hu. }
  pose proof (sprod_response n Hn c (map mk l) Hc Hts) as H.
  rewrite !sprod_pairs in H. cbn [mk s_b s_bi s_es s_er] in H.
  unfold kterms, zipk, mck. rewrite !map_map. cbn [fst snd]. exact H.
Qed.

(* Honest issuance commitment (no keyshare server): the issuer's reconstruction of the commitment to the
   randomizers equals the one the user hashed. *)
Theorem issue_complete_lem secret vPrime vPrimeCommit mUser mc skr c b l :
  unitb (pk_S pk) -> in_R 0 -> unitb (R_at 0) ->
  (forall kv, In kv mUser -> in_R (fst kv) /\ unitb (R_at (fst kv))) -> 0 <= c ->
  new_credential_builder pk secret None vPrime vPrimeCommit mUser (mck mc mUser) = Ok b ->
  (forall kv, In kv mUser -> lookup (mck mc mUser) (fst kv) = Some (mc (fst kv))) ->
  cb_commit pk b skr None = Ok l ->
  exists uc, l = [cb_u b; uc] /\ reconstruct_ucommit pk (cb_create_proof b skr c) = Ok uc.
Proof.
  intros US H0 U0 HmU Hc Hb Hlook Hcommit.
  (* the user's commitment U *)
  unfold new_credential_builder, user_commitment in Hb.
  change (go_exp (pk_S pk) vPrime n) with (go_modpow (pk_S pk) vPrime n) in Hb. rewrite (go_modpow_spw pk Hn _ vPrime US) in Hb.
  cbn [deref obind] in Hb. rewrite (index_R_ok pk 0 H0) in Hb. cbn [obind] in Hb.
  change (go_exp (R_at 0) secret n) with (go_modpow (R_at 0) secret n) in Hb. rewrite (go_modpow_spw pk Hn _ secret U0) in Hb.
  cbn [deref obind] in Hb.
  set (PSs := spw n (pk_S pk) (invf (pk_S pk)) vPrime) in *. set (P0s := spw n (R_at 0) (invf (R_at 0)) secret) in *.
  destruct (keyed_product_mprod false mUser (PSs * P0s) HmU) as (u0 & Hu0 & Hu0m & _).
  rewrite Hu0 in Hb. cbn [obind] in Hb. inversion Hb; subst b. clear Hb.
  cbn [cb_u cb_vPrime cb_vPrimeCommit cb_secret cb_mUser cb_mUserCommit] in *.
  set (u := u0 mod n) in *.
  (* the commitment to the randomizers *)
  unfold cb_commit in Hcommit. cbn [cb_u cb_vPrime cb_vPrimeCommit cb_secret cb_mUser cb_mUserCommit] in Hcommit.
  change (go_exp (pk_S pk) vPrimeCommit n) with (go_modpow (pk_S pk) vPrimeCommit n) in Hcommit.
  rewrite (go_modpow_spw pk Hn _ vPrimeCommit US) in Hcommit. cbn [deref obind] in Hcommit.
  rewrite (index_R_ok pk 0 H0) in Hcommit. cbn [obind] in Hcommit.
  change (go_exp (R_at 0) skr n) with (go_modpow (R_at 0) skr n) in Hcommit. rewrite (go_modpow_spw pk Hn _ skr U0) in Hcommit.
  cbn [deref obind] in Hcommit.
  set (PSr := spw n (pk_S pk) (invf (pk_S pk)) vPrimeCommit) in *. set (P0r := spw n (R_at 0) (invf (R_at 0)) skr) in *.
  assert (Emc : map (fun kv : Z * Z => (fst kv, match lookup (mck mc mUser) (fst kv) with Some x => x | None => 0 end)) mUser = mck mc mUser).
  { unfold mck at 2. apply map_ext_in. intros kv Hkv. now rewrite (Hlook kv Hkv). }
  rewrite Emc in Hcommit.
  destruct (keyed_product_mprod true (mck mc mUser) ((1 * PSr * P0r) mod n)) as (uc & Huc & Hucm & Hucb).
  { intros ir Hir. unfold mck in Hir. apply in_map_iff in Hir as (kv & <- & Hkv). cbn [fst]. now apply HmU. }
  rewrite Huc in Hcommit. cbn [obind] in Hcommit. inversion Hcommit; subst l. clear Hcommit.
  exists uc. split; [reflexivity|].
  (* the issuer's reconstruction *)
  assert (Uu : unitb u).
  { rewrite Hu0m. apply unit_mul; [exact Hn| |].
    - apply unit_mod_iff; [exact Hn|]. change ((PSs * P0s) mod n) with (mulm n PSs P0s).
      apply unit_mul; [exact Hn|now apply unit_spw|now apply unit_spw].
    - apply unit_mprod; [exact Hn|]. apply Forall_forall. intros x Hx. unfold kterms in Hx.
      apply in_map_iff in Hx as (ir & <- & Hir). apply unit_spw; [exact Hn|]. now apply HmU. }
  unfold reconstruct_ucommit, cb_create_proof. cbn [pu_C pu_U pu_VPrime pu_S pu_MUser deref obind].
  cbn [cb_u cb_vPrime cb_vPrimeCommit cb_secret cb_mUser cb_mUserCommit].
  assert (HuC : go_modpow u (- c) n = Some (powm n (invf u) c)).
  { rewrite (go_modpow_spw pk Hn _ _ Uu). unfold spw. destruct (Z.ltb_spec (- c) 0) as [Hneg|Hpos].
    - now rewrite Z.opp_involutive.
    - assert (c = 0) by lia. subst c. reflexivity. }
  rewrite HuC. cbn [or_err obind].
  rewrite (go_modpow_spw pk Hn _ _ US). cbn [or_err obind]. rewrite (index_R_ok pk 0 H0). cbn [obind].
  rewrite (go_modpow_spw pk Hn _ _ U0). cbn [or_err obind].
  assert (Eresp : map (fun kv : Z * Z => (fst kv, Some (match lookup (mck mc mUser) (fst kv) with Some x => x | None => 0 end + c * snd kv))) mUser
                  = map (fun ir => (fst ir, Some (snd ir))) (zipk mc c mUser)).
  { unfold zipk. rewrite map_map. apply map_ext_in. intros kv Hkv. cbn [fst snd]. now rewrite (Hlook kv Hkv). }
  rewrite Eresp.
  set (KC := powm n (invf u) c). set (PSv := spw n (pk_S pk) (invf (pk_S pk)) (vPrimeCommit + c * vPrime)).
  set (P0v := spw n (R_at 0) (invf (R_at 0)) (skr + c * secret)).
  destruct (resp_product_pairs (zipk mc c mUser) ((KC * PSv * P0v) mod n)) as (r & Hr & Hrb & Hrm).
  { intros ir Hir. unfold zipk in Hir. apply in_map_iff in Hir as (kv & <- & Hkv). cbn [fst]. now apply HmU. }
  { apply Z.mod_pos_bound. lia. }
  rewrite Hr. f_equal.
  (* algebra modulo n *)
  specialize (Hucb eq_refl (Z.mod_pos_bound _ n ltac:(lia))).
  assert (Hucr : uc = uc mod n) by (symmetry; now apply Z.mod_small).
  rewrite Hucr. rewrite <- (Z.mod_small r n Hrb). rewrite Hrm, Hucm.
  pose proof (kterms_response mc c Hc mUser (fun ir Hir => proj2 (HmU ir Hir))) as Hk.
  rewrite Hk.
  set (Mr := mprod n (kterms (mck mc mUser))). set (Ms := mprod n (kterms mUser)) in *.
  (* u = PSs * P0s * Ms *)
  assert (Eu : eqm n u (PSs * P0s * Ms)).
  { unfold eqm. rewrite Hu0m. unfold mulm. apply Z.mod_mod. lia. }
  assert (Hcancel : eqm n (KC * powm n (PSs * P0s * Ms) c) 1).
  { unfold eqm. change ((KC * powm n (PSs * P0s * Ms) c) mod n) with (mulm n KC (powm n (PSs * P0s * Ms) c)).
    unfold KC. rewrite <- powm_mulm by lia.
    assert (E1 : mulm n (invf u) (PSs * P0s * Ms) = 1).
    { rewrite <- (mulm_mod_r n ltac:(lia)). unfold eqm in Eu. rewrite <- Eu. rewrite mulm_mod_r by lia.
      rewrite mulm_comm. now apply unit_inv. }
    rewrite E1. rewrite powm_1_l by lia. reflexivity. }
  assert (Epow : forall x y, eqm n (powm n (mulm n x y) c) (powm n (x * y) c)).
  { intros x y. unfold mulm. rewrite powm_mod by lia. reflexivity. }
  rewrite <- (mulm_idem_mod n ltac:(lia) ((KC * PSv * P0v) mod n) (mulm n Mr (powm n Ms c))).
  rewrite <- (mulm_idem_mod n ltac:(lia) ((1 * PSr * P0r) mod n) Mr).
  change (eqm n (mulm n ((KC * PSv * P0v) mod n) (mulm n Mr (powm n Ms c))) (mulm n ((1 * PSr * P0r) mod n) Mr)).
  rewrite !eqm_mulm by exact Hn. rewrite !eqm_mod by exact Hn.
  (* expand the responses of S and R_0 *)
  assert (ES : eqm n PSv (PSr * powm n PSs c)).
  { unfold PSv. rewrite (spw_add n Hn _ _ (unit_inv pk Hn _ US)). rewrite spw_mul_nonneg by lia. apply eqm_mulm. exact Hn. }
  assert (E0 : eqm n P0v (P0r * powm n P0s c)).
  { unfold P0v. rewrite (spw_add n Hn _ _ (unit_inv pk Hn _ U0)). rewrite spw_mul_nonneg by lia. apply eqm_mulm. exact Hn. }
  rewrite ES, E0.
  assert (Eprod : eqm n (powm n PSs c * powm n P0s c * powm n Ms c) (powm n (PSs * P0s * Ms) c)).
  { unfold powm. rewrite !(eqm_mod pk Hn). rewrite !Z.pow_mul_l. reflexivity. }
  replace (KC * (PSr * powm n PSs c) * (P0r * powm n P0s c) * (Mr * powm n Ms c))
    with ((PSr * P0r * Mr) * (KC * (powm n PSs c * powm n P0s c * powm n Ms c))) by ring.
  rewrite Eprod, Hcancel. apply eq_eqm. ring.
Qed.

End Issue.
