(* Single entry point val -> val for every modelled function; used by the extracted
   runner and by the generated in-Coq case files. *)
From Coq Require Import ZArith List Bool.
From Gabi Require Import Val ModArith Bytes Der Sha256 HashTool GoSem ParamsDef ZkProof Keys RangeProof NonRev Core CL Prover RangeSound Revocation NonRevProver Keyshare MathUtil Codec FilePerm KeyDoc EventList.
From Gabi Require Sqrt SaccCache.
From Gabi Require Cache Concurrency KeyGen KeyProofWire.
Import ListNotations.
Open Scope Z_scope.

Fixpoint val_eqb (a b : val) {struct a} : bool :=
  match a, b with
  | VZ x, VZ y => x =? y
  | VN, VN => true
  | VL l, VL m =>
    (fix go (l m : list val) : bool :=
       match l, m with
       | [], [] => true
       | x :: xs, y :: ys => val_eqb x y && go xs ys
       | _, _ => false
       end) l m
  | _, _ => false
  end.

Definition ret (o : option val) : val := match o with Some v => v | None => bad_input end.

Definition d_hash_commit (v : val) : val := ret (
  match v with
  | VL [b; l] => do b <- as_bool b; do l <- as_LZ l; Some (VZ (hash_commit b l))
  | _ => None
  end).

Definition d_get_hash_number (v : val) : val := ret (
  match v with
  | VL [a; b; i; n] =>
    do a <- as_oZ a; do b <- as_oZ b; do i <- as_Z i; do n <- as_Z n;
    Some (VZ (get_hash_number a b i n))
  | _ => None
  end).

Definition d_int_hash (v : val) : val := ret (do l <- as_LZ v; Some (VZ (int_hash_sha256 l))).

Definition d_create_challenge (v : val) : val := ret (
  match v with
  | VL [c; n; l; b] =>
    do c <- as_Z c; do n <- as_Z n; do l <- as_LZ l; do b <- as_bool b;
    Some (VZ (create_challenge c n l b))
  | _ => None
  end).

Definition d_attr_exp (v : val) : val := ret (
  match v with
  | VL [lm; m] => do lm <- as_Z lm; do m <- as_Z m; Some (VZ (attr_exp lm m))
  | _ => None
  end).

Definition d_hash_commit_bytes (v : val) : val := ret (
  match v with
  | VL [b; l] => do b <- as_bool b; do l <- as_LZ l; Some (of_LZ (hash_commit_bytes b l))
  | _ => None
  end).

Definition as_nat (v : val) : option nat := match v with VZ z => Some (Z.to_nat z) | _ => None end.

Definition d_proofD_verify (v : val) : val := ret (
  match v with
  | VL [pk; p; ctx; nonce; sg; c1; c2] =>
    do pk <- as_pk pk; do p <- as_proofD p; do ctx <- as_Z ctx; do nonce <- as_Z nonce;
    do sg <- as_bool sg; do c1 <- as_nat c1; do c2 <- as_nat c2;
    Some (of_obool (proofD_verify pk p ctx nonce sg c1 c2))
  | _ => None
  end).

Definition d_proofD_contrib (v : val) : val := ret (
  match v with
  | VL [pk; p; c1] =>
    do pk <- as_pk pk; do p <- as_proofD p; do c1 <- as_nat c1;
    Some (of_outcome (fun lp => of_LZ (fst lp)) (proofD_contrib pk p c1))
  | _ => None
  end).

Definition d_prooflist_verify (v : val) : val := ret (
  match v with
  | VL [pks; ctx; nonce; sg; labels; pl; c1; c2] =>
    do pks <- (match pks with VL l => map_opt as_pk l | _ => None end);
    do ctx <- as_Z ctx; do nonce <- as_Z nonce; do sg <- as_bool sg; do labels <- as_LZ labels;
    do pl <- (match pl with VL l => map_opt as_proof l | _ => None end);
    do c1 <- as_nat c1; do c2 <- as_nat c2;
    Some (of_obool (prooflist_verify pks ctx nonce sg labels pl c1 c2))
  | _ => None
  end).

Definition d_proofU_verify (v : val) : val := ret (
  match v with
  | VL [pk; p; ctx; nonce] =>
    do pk <- as_pk pk; do p <- as_proofU p; do ctx <- as_Z ctx; do nonce <- as_Z nonce;
    Some (of_obool (proofU_verify pk p ctx nonce))
  | _ => None
  end).

Definition d_proofS_verify (v : val) : val := ret (
  match v with
  | VL [pk; p; sg; ctx; nonce] =>
    do pk <- as_pk pk; do p <- as_proofS p; do sg <- as_sig sg; do ctx <- as_Z ctx; do nonce <- as_Z nonce;
    Some (of_obool (proofS_verify pk p sg ctx nonce))
  | _ => None
  end).

Definition d_cl_verify (v : val) : val := ret (
  match v with
  | VL [pk; sg; ms; isp] =>
    do pk <- as_pk pk; do sg <- as_sig sg; do ms <- as_LZ ms; do isp <- as_bool isp;
    Some (of_obool (cl_verify pk (fun _ => isp) sg ms))
  | _ => None
  end).

Definition d_cl_sign (v : val) : val := ret (
  match v with
  | VL [pk; ord; u; ms; vv; e] =>
    do pk <- as_pk pk; do ord <- as_Z ord; do u <- as_Z u; do ms <- as_LZ ms; do vv <- as_Z vv; do e <- as_Z e;
    Some (of_outcome of_sig (cl_sign pk ord u ms vv e))
  | _ => None
  end).

Definition d_cl_randomize (v : val) : val := ret (
  match v with
  | VL [pk; sg; rs] =>
    do pk <- as_pk pk; do sg <- as_sig sg; do rs <- as_LZ rs;
    Some (of_outcome of_sig (cl_randomize_list pk sg rs))
  | _ => None
  end).

Definition d_represent (v : val) : val := ret (
  match v with
  | VL [pk; ms] => do pk <- as_pk pk; do ms <- as_LZ ms; Some (of_outcome VZ (represent_to_pk pk ms))
  | _ => None
  end).

Definition as_osig (v : val) : option (option clsig) :=
  match v with VN => Some None | _ => match as_sig v with Some s => Some (Some s) | None => None end end.
Definition as_oproofS (v : val) : option (option proofS) :=
  match v with VN => Some None | _ => match as_proofS v with Some s => Some (Some s) | None => None end end.

Definition d_disclose (v : val) : val := ret (
  match v with
  | VL [pk; sg; attrs; disc; r; ec; vc; rands; skr; ctx; nonce; issig] =>
    do pk <- as_pk pk; do sg <- as_sig sg; do attrs <- as_LZ attrs; do disc <- as_LZ disc;
    do r <- as_Z r; do ec <- as_Z ec; do vc <- as_Z vc; do rands <- as_LZ rands; do skr <- as_Z skr;
    do ctx <- as_Z ctx; do nonce <- as_Z nonce; do issig <- as_bool issig;
    Some (of_outcome (fun cp => VL [of_LZ (fst cp); of_proofD_main (snd cp)])
                     (disclose pk sg attrs disc r ec vc rands skr ctx nonce issig))
  | _ => None
  end).

Definition d_get_undisclosed (v : val) : val := ret (
  match v with
  | VL [d; n] => do d <- as_LZ d; do n <- as_Z n; Some (of_outcome of_LZ (get_undisclosed d n))
  | _ => None
  end).

Definition d_timestamp (v : val) : val := ret (
  match v with
  | VL [sg; attrs; disc] =>
    do sg <- as_sig sg; do attrs <- as_LZ attrs; do disc <- as_LZ disc;
    let t := timestamp_contributions (mkDb sg 0 0 [] disc [] attrs) in
    Some (VL [of_oZ (fst t); of_LZ (snd t)])
  | _ => None
  end).

Definition d_issue_user (v : val) : val := ret (
  match v with
  | VL [pk; secret; kp; vp; vpc; mu; muc; skr; pc; ctx; nonce1] =>
    do pk <- as_pk pk; do secret <- as_Z secret; do kp <- as_oZ kp; do vp <- as_Z vp; do vpc <- as_Z vpc;
    do mu <- as_pairsZ mu; do muc <- as_pairsZ muc; do skr <- as_Z skr; do pc <- as_oZ pc;
    do ctx <- as_Z ctx; do nonce1 <- as_Z nonce1;
    Some (of_outcome (fun x => x)
      (let! b := new_credential_builder pk secret kp vp vpc mu muc in
       let! contrib := cb_commit pk b skr pc in
       let c := create_challenge ctx nonce1 contrib false in
       Ok (VL [of_LZ contrib; of_proofU (cb_create_proof b skr c)])))
  | _ => None
  end).

Definition d_sign_commitment (v : val) : val := ret (
  match v with
  | VL [pk; ord; u; attrs; mi; vv; e] =>
    do pk <- as_pk pk; do ord <- as_Z ord; do u <- as_Z u; do attrs <- as_LoZ attrs; do mi <- as_pairsZ mi;
    do vv <- as_Z vv; do e <- as_Z e;
    Some (of_outcome of_sig (sign_commitment_and_attributes pk ord u attrs mi vv e))
  | _ => None
  end).

Definition d_prove_signature (v : val) : val := ret (
  match v with
  | VL [pk; ord; sg; ctx; n2; ec] =>
    do pk <- as_pk pk; do ord <- as_Z ord; do sg <- as_sig sg; do ctx <- as_Z ctx; do n2 <- as_Z n2; do ec <- as_Z ec;
    Some (of_outcome (fun p => VL [of_oZ (ps_C p); of_oZ (ps_E p)]) (prove_signature pk ord sg ctx n2 ec))
  | _ => None
  end).

Definition d_construct_credential (v : val) : val := ret (
  match v with
  | VL [pk; isp; secret; kp; vp; mu; ctx; n2; pr; sg; mi; wok; attrs; win] =>
    do pk <- as_pk pk; do isp <- as_bool isp; do secret <- as_Z secret; do kp <- as_oZ kp; do vp <- as_Z vp;
    do mu <- as_pairsZ mu; do ctx <- as_Z ctx; do n2 <- as_Z n2; do pr <- as_oproofS pr; do sg <- as_osig sg;
    do mi <- as_map as_oZ mi;
    do wok <- (match wok with VN => Some None | VZ 0 => Some (Some false) | VZ 1 => Some (Some true) | _ => None end);
    do attrs <- as_LoZ attrs; do win <- as_bool win;
    Some (of_outcome (fun sa => VL [of_sig (fst sa); of_LZ (snd sa)])
      (construct_credential pk (fun _ => isp) (mkCb secret vp 0 0 kp mu []) ctx n2 (mkIm pr sg mi wok) attrs win))
  | _ => None
  end).

Definition d_proves_statement (v : val) : val := ret (
  match v with
  | VL [p; sg; f; b] => do p <- as_rproof p; do sg <- as_Z sg; do f <- as_Z f; do b <- as_Z b;
                        Some (of_bool (proves_statement p sg f b))
  | _ => None
  end).

Definition d_proven_statement (v : val) : val := ret (
  do p <- as_rproof v;
  Some (match proven_statement p with
        | Some (sg, f, b) => VL [VZ sg; VZ f; VZ b]
        | None => VN
        end)).

Definition d_range_verify (v : val) : val := ret (
  match v with
  | VL [pk; idx; p; c] =>
    do pk <- as_pk pk; do idx <- as_Z idx; do p <- as_rproof p; do c <- as_Z c;
    Some (of_outcome of_LZ
      (let! s := extract_structure (pk_params pk) idx p in
       if negb (verify_proof_structure pk s p) then Err
       else commitments_from_proof pk s p c))
  | _ => None
  end).

Definition d_range_prove (v : val) : val := ret (
  match v with
  | VL [pk; idx; sg; f; b; nsq; ld; m; mr; ds; drs; vs; vrs; v5r; c] =>
    do pk <- as_pk pk; do idx <- as_Z idx; do sg <- as_Z sg; do f <- as_Z f; do b <- as_Z b;
    do nsq <- as_Z nsq; do ld <- as_Z ld; do m <- as_Z m; do mr <- as_Z mr;
    do ds <- as_LZ ds; do drs <- as_LZ drs; do vs <- as_LZ vs; do vrs <- as_LZ vrs; do v5r <- as_Z v5r; do c <- as_Z c;
    Some (of_outcome (fun x => x)
      (let! s := new_proof_structure idx sg f b nsq ld in
       let! (contribs, cm) := commitments_from_secrets pk s m mr ds drs vs vrs v5r in
       Ok (VL [of_LZ contribs; of_rproof (build_proof s cm c); of_rstruct s])))
  | _ => None
  end).

(* decision whether the prover accepts the statement, and the value it would split *)
Definition d_range_delta (v : val) : val := ret (
  match v with
  | VL [idx; sg; f; b; nsq; ld; m] =>
    do idx <- as_Z idx; do sg <- as_Z sg; do f <- as_Z f; do b <- as_Z b; do nsq <- as_Z nsq; do ld <- as_Z ld; do m <- as_Z m;
    Some (of_outcome VZ (let! s := new_proof_structure idx sg f b nsq ld in
                         if delta s m <? 0 then Err else Ok (delta s m)))
  | _ => None
  end).

Definition d_table_split (v : val) : val := ret (
  match v with
  | VL [lim; d] => do lim <- as_Z lim; do d <- as_Z d; Some (of_outcome of_LZ (table_split lim d))
  | _ => None
  end).

Definition d_table_ld (v : val) : val := ret (do lim <- as_Z v; Some (VZ (table_ld lim))).

Definition of_update_state (u : update) : val := VL [VL (map of_event (up_events u)); of_cache (up_product u)].

Definition d_witness_update (v : val) : val := ret (
  match v with
  | VL [n; w; u] =>
    do n <- as_Z n; do w <- as_witness w; do u <- as_update u;
    let '(r, w', u') := witness_update n w u in
    Some (VL [of_upd_result r; of_witness w'; of_cache (up_product u')])
  | _ => None
  end).

Definition d_acc_remove (v : val) : val := ret (
  match v with
  | VL [n; ord; a; e; parent; t] =>
    do n <- as_Z n; do ord <- as_Z ord; do a <- as_racc a; do e <- as_Z e; do parent <- as_event parent; do t <- as_Z t;
    Some (of_outcome (fun ae => VL [of_racc (fst ae); of_event (snd ae)]) (acc_remove n ord a e parent t))
  | _ => None
  end).

Definition d_new_witness (v : val) : val := ret (
  match v with
  | VL [n; ord; a; e] =>
    do n <- as_Z n; do ord <- as_Z ord; do a <- as_racc a; do e <- as_Z e;
    Some (of_outcome of_witness (new_witness n ord a e))
  | _ => None
  end).

Definition d_event_hash (v : val) : val := ret (do e <- as_event v; Some (of_outcome of_LZ (event_hash e))).

Definition d_hash_equals (v : val) : val := ret (
  match v with
  | VL [e; h] => do e <- as_event e; do h <- as_LZ h; Some (of_outcome (fun _ => VZ 0) (hash_equals e h))
  | _ => None
  end).

Definition d_update_verify (v : val) : val := ret (
  do u <- as_update v; Some (of_outcome of_racc (update_verify u))).

Definition d_update_prepend (v : val) : val := ret (
  match v with
  | VL [u; ev; p] =>
    do u <- as_update u; do ev <- as_events ev; do p <- as_oZ p;
    let '(r, u') := update_prepend u ev p in
    Some (VL [of_prep_result r; of_update_state u'])
  | _ => None
  end).

Definition as_uv_call (v : val) : option SaccCache.uv_call :=
  match v with
  | VL [c; VN] => do c <- as_Z c; Some (SaccCache.mkCall c None)
  | VL [c; a] => do c <- as_Z c; do a <- as_racc a; Some (SaccCache.mkCall c (Some a))
  | _ => None
  end.

Definition d_uv_run (v : val) : val := ret (
  match v with
  | VL [sc; VL calls] =>
    do sc <- as_Z sc; do calls <- map_opt as_uv_call calls;
    Some (VL (map (of_outcome of_racc) (fst (SaccCache.uv_run sc None calls))))
  | _ => None
  end).

Definition d_prime_sqrt (v : val) : val := ret (
  match v with
  | VL [a; p] => do a <- as_Z a; do p <- as_Z p; Some (of_outcome of_oZ (Sqrt.prime_sqrt a p))
  | _ => None
  end).

Definition d_mod_sqrt (v : val) : val := ret (
  match v with
  | VL [a; f] => do a <- as_Z a; do f <- as_LZ f; Some (of_outcome of_oZ (Sqrt.mod_sqrt a f))
  | _ => None
  end).

Definition d_uncompress (v : val) : val := ret (
  match v with
  | VL [cp; c] =>
    do cp <- as_bool cp; do c <- as_cel c;
    Some (of_outcome (fun r => VL [VL (map of_event (fst r)); of_oZ (snd r)]) (uncompress cp c))
  | _ => None
  end).

Definition d_hash_equal (v : val) : val := ret (
  match v with
  | VL [a; b] => do a <- as_LZ a; do b <- as_LZ b; Some (of_bool (hash_equal a b))
  | _ => None
  end).

Definition as_nrcommit (v : val) : option nrcommit :=
  match v with
  | VL [cu; cr; nu; se; ra] =>
    do cu <- as_Z cu; do cr <- as_Z cr; do nu <- as_Z nu; do se <- as_pairsZ se; do ra <- as_pairsZ ra;
    Some (mkNc cu cr nu se ra)
  | _ => None
  end.

Definition d_nr_commit (v : val) : val := ret (
  match v with
  | VL [pk; u; e; nu; r2; r3; ra; rb; rd; re; rz] =>
    do pk <- as_pk pk; do u <- as_Z u; do e <- as_Z e; do nu <- as_Z nu; do r2 <- as_Z r2; do r3 <- as_Z r3;
    do ra <- as_Z ra; do rb <- as_Z rb; do rd <- as_Z rd; do re <- as_Z re; do rz <- as_Z rz;
    Some (of_outcome (fun lc => VL [of_LZ (fst lc); of_nrcommit_pub (snd lc)]) (new_proof_commit pk u e nu r2 r3 ra rb rd re rz))
  | _ => None
  end).

Definition d_nr_refresh (v : val) : val := ret (
  match v with
  | VL [pk; c; l; u; nu] =>
    do pk <- as_pk pk; do c <- as_nrcommit c; do l <- as_LZ l; do u <- as_Z u; do nu <- as_Z nu;
    Some (of_outcome (fun lc => VL [of_LZ (fst lc); of_nrcommit_pub (snd lc)]) (nr_refresh pk c l u nu))
  | _ => None
  end).

Definition d_nr_build (v : val) : val := ret (
  match v with
  | VL [c; ch] => do c <- as_nrcommit c; do ch <- as_Z ch; Some (of_outcome (of_map of_oZ) (nr_build_proof c ch))
  | _ => None
  end).

Definition d_keyshare_response (v : val) : val := ret (
  match v with
  | VL [secret; rnd; committed; recomputed; req; keys] =>
    do secret <- as_Z secret; do rnd <- as_Z rnd; do committed <- as_LZ committed; do recomputed <- as_LZ recomputed;
    do req <- as_ks_request req; do keys <- as_map as_pk keys;
    Some (of_outcome (fun cs => VL [VZ (fst cs); VZ (snd cs)]) (keyshare_response secret rnd committed recomputed req keys))
  | _ => None
  end).

Definition d_ks_commitments (v : val) : val := ret (
  match v with
  | VL [secret; rnd; keys] =>
    do secret <- as_Z secret; do rnd <- as_Z rnd; do keys <- (match keys with VL l => map_opt as_pk l | _ => None end);
    Some (VL [of_outcome VZ (ks_rand_length secret keys);
              of_outcome (fun l => VL (map (fun pq => VL [VZ (fst pq); VZ (snd pq)]) l)) (ks_commitments secret rnd keys)])
  | _ => None
  end).

(* 1403 / 1404 : MergeProofP of a disclosure proof / an issuance commitment proof (P = VN: new protocol) *)
Definition d_merge_D (v : val) : val := ret (
  match v with
  | VL [p; pP; c; s] =>
    do p <- as_proofD p; do pP <- as_oZ pP; do c <- as_Z c; do s <- as_Z s;
    Some (of_outcome of_proofD_main (merge_proofP_D_gen p pP c s))
  | _ => None
  end).
Definition d_merge_U (v : val) : val := ret (
  match v with
  | VL [pk; p; pP; c; s] =>
    do pk <- as_pk pk; do p <- as_proofU p; do pP <- as_oZ pP; do c <- as_Z c; do s <- as_Z s;
    Some (of_outcome of_proofU (merge_proofP_U pk p pP c s))
  | _ => None
  end).

Definition d_mod_inverse (v : val) : val := ret (
  match v with VL [a; n] => do a <- as_Z a; do n <- as_Z n; Some (of_oZ (mod_inverse a n)) | _ => None end).
Definition d_modpow (v : val) : val := ret (
  match v with VL [x; y; m] => do x <- as_Z x; do y <- as_Z y; do m <- as_Z m; Some (of_oZ (go_modpow x y m)) | _ => None end).
Definition d_legendre (v : val) : val := ret (
  match v with VL [a; p] => do a <- as_Z a; do p <- as_Z p; Some (VZ (legendre a p)) | _ => None end).
Definition d_crt (v : val) : val := ret (
  match v with VL [a; pa; b; pb] => do a <- as_Z a; do pa <- as_Z pa; do b <- as_Z b; do pb <- as_Z pb;
                                    Some (of_outcome VZ (crt a pa b pb)) | _ => None end).
Definition d_fastmod (v : val) : val := ret (
  match v with VL [p; x] => do p <- as_Z p; do x <- as_Z x; Some (of_oZ (fm_mod (fm_set p) x)) | _ => None end).
Definition d_rp_candidate (v : val) : val := ret (
  match v with VL [st; ln; bs] => do st <- as_Z st; do ln <- as_Z ln; do bs <- as_LZ bs; Some (VZ (rp_candidate st ln bs)) | _ => None end).
Definition d_sieve (v : val) : val := ret (
  match v with VL [sp; pr; th; p] => do sp <- as_LZ sp; do pr <- as_Z pr; do th <- as_Z th; do p <- as_Z p;
                                     Some (of_bool (sieve_rejects sp pr th p)) | _ => None end).
Definition d_prepare_bytes (v : val) : val := ret (
  match v with VL [bs; b] => do bs <- as_LZ bs; do b <- as_Z b; Some (of_LZ (prepare_bytes bs b)) | _ => None end).

Definition d_marshal_text (v : val) : val := ret (do z <- as_Z v; Some (of_outcome of_LZ (marshal_text z))).
Definition d_unmarshal_text (v : val) : val := ret (do l <- as_LZ v; Some (of_outcome VZ (unmarshal_text l))).

(* decimal text of a non-negative integer as byte values *)
Fixpoint dec_digits (fuel : nat) (z : Z) (acc : list Z) : list Z :=
  match fuel with
  | O => acc
  | S f => if z <? 10 then (48 + z) :: acc else dec_digits f (z / 10) ((48 + z mod 10) :: acc)
  end.
Definition decimal_text (z : Z) : list Z :=
  if z <? 0 then 45 :: dec_digits (Z.to_nat (bitlen z) + 1) (- z) [] else dec_digits (Z.to_nat (bitlen z) + 1) z [].
Definition d_decimal (v : val) : val := ret (do z <- as_Z v; Some (of_LZ (decimal_text z))).

(* ---- C07: cache trace ---- *)
Definition as_cache_op (v : val) : option Cache.op :=
  match v with
  | VL [VZ 0] => Some Cache.Prepare
  | VL [VZ 1] => Some Cache.UpdateWitness
  | VL [VZ 2; nr; VZ n] => do nr <- as_bool nr; Some (Cache.Prove nr (Z.to_nat n))
  | VL [VZ 3; VZ n] => Some (Cache.IssuanceCommit (Z.to_nat n))
  | _ => None
  end.
Definition of_idpair (o : option (nat * nat)) : val :=
  match o with Some (a, b) => VL [VZ (Z.of_nat a); VZ (Z.of_nat b)] | None => VN end.
Definition d_cache_trace (v : val) : val := ret (
  match v with
  | VL l => do ops <- map_opt as_cache_op l;
            Some (VL (map (fun o => VL [of_idpair (Cache.o_cached o); of_idpair (Cache.o_used o)]) (Cache.trace Cache.init ops)))
  | _ => None
  end).

(* ---- C20: interleaved cache hand-off under a given schedule, generator reads ---- *)
Definition as_kind (v : val) : option Concurrency.kind :=
  match v with VZ 0 => Some Concurrency.KPrepare | VZ 1 => Some Concurrency.KConsume | _ => None end.
Definition as_prog (v : val) : option (list Concurrency.kind) :=
  match v with VL l => map_opt as_kind l | _ => None end.
Definition of_onat (o : option nat) : val := match o with Some n => VZ (Z.of_nat n) | None => VN end.
Definition d_sched (v : val) : val := ret (
  match v with
  | VL [VL progs; sched] =>
    do progs <- map_opt as_prog progs; do sched <- as_LZ sched;
    let g := Concurrency.grun progs (map Z.to_nat sched) in
    Some (VL [of_LZ (map Z.of_nat (rev (Concurrency.consumed g))); of_onat (Concurrency.chan g);
              of_LZ (map Z.of_nat (rev (Concurrency.discarded g))); VZ (Z.of_nat (Concurrency.fresh g))])
  | _ => None
  end).
(* keystream blocks are supplied by the caller (AES is not modelled): block i of the list is block counter0 + i *)
Definition d_cprng_reads (v : val) : val := ret (
  match v with
  | VL [c0; sizes; VL ks] =>
    do c0 <- as_Z c0; do sizes <- as_LZ sizes; do ks <- map_opt as_LZ ks;
    let ksf := fun iv => nth (Z.to_nat ((iv - c0) mod Concurrency.two64)) ks [] in
    Some (VL [VL (map (fun iv => VL [VZ (fst iv); VZ (snd iv)]) (Concurrency.reservations c0 sizes));
              VL (map of_LZ (Concurrency.reads_out ksf c0 sizes))])
  | _ => None
  end).

(* ---- C16: key generation ---- *)
Definition d_pair_ok (v : val) : val := ret (
  match v with VL [ln; p; q] => do ln <- as_Z ln; do p <- as_Z p; do q <- as_Z q; Some (of_bool (KeyGen.pair_ok ln p q)) | _ => None end).
Definition d_can_prove (v : val) : val := ret (
  match v with
  | VL [pp; qp; sp; sq] =>
    do pp <- as_Z pp; do qp <- as_Z qp; do sp <- as_bool sp; do sq <- as_bool sq;
    let safe := fun x => if x =? 2 * pp + 1 then sp else if x =? 2 * qp + 1 then sq else false in
    Some (of_bool (KeyGen.can_prove safe pp qp))
  | _ => None
  end).
Definition d_find_match (v : val) : val := ret (
  match v with VL [ln; l; p] => do ln <- as_Z ln; do l <- as_LZ l; do p <- as_Z p; Some (of_oZ (KeyGen.find_match ln l p)) | _ => None end).
Definition d_s_accepted (v : val) : val := ret (
  match v with VL [n; p; q; s] => do n <- as_Z n; do p <- as_Z p; do q <- as_Z q; do s <- as_Z s; Some (of_bool (KeyGen.s_accepted n p q s)) | _ => None end).
Definition d_derive (v : val) : val := ret (
  match v with VL [ln; lm; lh; ls; le] => do ln <- as_Z ln; do lm <- as_Z lm; do lh <- as_Z lh; do ls <- as_Z ls; do le <- as_Z le;
                                          Some (of_LZ (params_to_list (derive ln lm lh ls le))) | _ => None end).

Definition dispatch (fn : Z) (v : val) : val :=
  match fn with
  | 701 => d_cache_trace v
  | 1701 => KeyProofWire.d_vk_verify v
  | 1703 => KeyProofWire.d_qspp_verify v
  | 1704 => KeyProofWire.d_gennaro v
  | 1710 => KeyProofWire.d_ped_check v
  | 1711 => KeyProofWire.d_mul_check v
  | 1712 => KeyProofWire.d_exp_check v
  | 1713 => KeyProofWire.d_prime_check v
  | 1714 => KeyProofWire.d_issq_check v
  | 1715 => KeyProofWire.d_responses v
  | 1601 => d_pair_ok v
  | 1602 => d_can_prove v
  | 1603 => d_find_match v
  | 1605 => d_s_accepted v
  | 1606 => d_derive v
  | 2001 => d_sched v
  | 2002 => d_cprng_reads v
  | 1501 => d_hash_commit v
  | 1502 => d_get_hash_number v
  | 1503 => d_int_hash v
  | 1504 => d_create_challenge v
  | 1505 => d_attr_exp v
  | 1506 => d_hash_commit_bytes v
  | 101 => d_proofD_verify v
  | 102 => d_proofD_contrib v
  | 103 => d_prooflist_verify v
  | 104 => d_proofU_verify v
  | 105 => d_proofS_verify v
  | 401 => d_disclose v
  | 402 => d_get_undisclosed v
  | 403 => d_timestamp v
  | 601 => d_issue_user v
  | 602 => d_sign_commitment v
  | 603 => d_prove_signature v
  | 604 => d_construct_credential v
  | 901 => d_witness_update v
  | 902 => d_acc_remove v
  | 903 => d_new_witness v
  | 1001 => d_event_hash v
  | 1002 => d_hash_equals v
  | 1003 => d_update_verify v
  | 1004 => d_update_prepend v
  | 1005 => d_hash_equal v
  | 1006 => d_uv_run v
  | 1101 => d_nr_commit v
  | 1102 => d_nr_refresh v
  | 1103 => d_nr_build v
  | 1401 => d_keyshare_response v
  | 1402 => d_ks_commitments v
  | 1403 => d_merge_D v
  | 1404 => d_merge_U v
  | 1801 => d_marshal_text v
  | 1802 => d_unmarshal_text v
  | 1803 => d_decimal v
  | 1804 => d_privkey_write v
  | 1805 => d_parse_pubkey v
  | 1806 => d_parse_privkey v
  | 1807 => d_uncompress v
  | 1901 => d_mod_inverse v
  | 1902 => d_modpow v
  | 1903 => d_legendre v
  | 1904 => d_crt v
  | 1905 => d_fastmod v
  | 1906 => d_rp_candidate v
  | 1907 => d_sieve v
  | 1908 => d_prepare_bytes v
  | 1909 => d_prime_sqrt v
  | 1910 => d_mod_sqrt v
  | 1201 => d_proves_statement v
  | 1202 => d_proven_statement v
  | 1204 => d_range_verify v
  | 1301 => d_range_prove v
  | 1302 => d_range_delta v
  | 1303 => d_table_split v
  | 1304 => d_table_ld v
  | 501 => d_cl_verify v
  | 502 => d_cl_sign v
  | 503 => d_cl_randomize v
  | 504 => d_represent v
  | _ => bad_input
  end.

(* in-Coq correspondence: indices of the cases whose recorded implementation output
   differs from the model's *)
Fixpoint mismatches_from (i : Z) (cases : list (Z * val * val)) : list Z :=
  match cases with
  | [] => []
  | (fn, inp, out) :: r =>
    if val_eqb (dispatch fn inp) out then mismatches_from (i + 1) r
    else i :: mismatches_from (i + 1) r
  end.
Definition mismatches := mismatches_from 0.
