(* Single entry point val -> val for every modelled function; used by the extracted
   runner and by the generated in-Coq case files. *)
From Coq Require Import ZArith List Bool.
From Gabi Require Import Val ModArith Bytes Der Sha256 HashTool.
Import ListNotations.
Open Scope Z_scope.

Fixpoint val_eqb (a b : val) {struct a} : bool :=
  match a, b with
  | VZ x, VZ y => x =? y
  | VN, VN => true
  | VL l, VL m =>
    (fix go (l m : list val) : bool :=
       match l, m with
       | [], [] => true
       | x :: xs, y :: ys => val_eqb x y && go xs ys
       | _, _ => false
       end) l m
  | _, _ => false
  end.

Definition ret (o : option val) : val := match o with Some v => v | None => bad_input end.

Definition d_hash_commit (v : val) : val := ret (
  match v with
  | VL [b; l] => do b <- as_bool b; do l <- as_LZ l; Some (VZ (hash_commit b l))
  | _ => None
  end).

Definition d_get_hash_number (v : val) : val := ret (
  match v with
  | VL [a; b; i; n] =>
    do a <- as_oZ a; do b <- as_oZ b; do i <- as_Z i; do n <- as_Z n;
    Some (VZ (get_hash_number a b i n))
  | _ => None
  end).

Definition d_int_hash (v : val) : val := ret (do l <- as_LZ v; Some (VZ (int_hash_sha256 l))).

Definition d_create_challenge (v : val) : val := ret (
  match v with
  | VL [c; n; l; b] =>
    do c <- as_Z c; do n <- as_Z n; do l <- as_LZ l; do b <- as_bool b;
    Some (VZ (create_challenge c n l b))
  | _ => None
  end).

Definition d_attr_exp (v : val) : val := ret (
  match v with
  | VL [lm; m] => do lm <- as_Z lm; do m <- as_Z m; Some (VZ (attr_exp lm m))
  | _ => None
  end).

Definition d_hash_commit_bytes (v : val) : val := ret (
  match v with
  | VL [b; l] => do b <- as_bool b; do l <- as_LZ l; Some (of_LZ (hash_commit_bytes b l))
  | _ => None
  end).

Definition dispatch (fn : Z) (v : val) : val :=
  match fn with
  | 1501 => d_hash_commit v
  | 1502 => d_get_hash_number v
  | 1503 => d_int_hash v
  | 1504 => d_create_challenge v
  | 1505 => d_attr_exp v
  | 1506 => d_hash_commit_bytes v
  | _ => bad_input
  end.

(* in-Coq correspondence: indices of the cases whose recorded implementation output
   differs from the model's *)
Fixpoint mismatches_from (i : Z) (cases : list (Z * val * val)) : list Z :=
  match cases with
  | [] => []
  | (fn, inp, out) :: r =>
    if val_eqb (dispatch fn inp) out then mismatches_from (i + 1) r
    else i :: mismatches_from (i + 1) r
  end.
Definition mismatches := mismatches_from 0.
