(* credential.go: the non-revocation proof-builder cache and the freshness of proof randomness.
   Randomness is an abstract supply: every draw takes the next unused index.  A proof is
   described by the set of supply indices its randomizers came from. *)
From Coq Require Import ZArith List Lia Bool.
Import ListNotations.
Open Scope nat_scope.

Record builder := mkB { b_id : nat; b_rand : list nat; b_index : nat }.

Record cstate := mkS {
  supply : nat;                 (* next unused randomness index *)
  next_id : nat;                (* next builder identity *)
  cache : option builder;       (* the 1-slot channel Credential.nonrevCache *)
  wit_index : nat;              (* accumulator index of the credential's witness *)
  emitted : list (list nat)     (* randomness indices behind every proof produced so far *)
}.

Inductive op :=
| Prepare                        (* NonrevPrepareCache *)
| UpdateWitness                  (* Witness.Update moved the witness forward *)
| Prove (nonrev : bool) (n : nat) (* one proof; n = number of non-revocation-unrelated draws *)
| IssuanceCommit (n : nat).

Definition draw (s : cstate) (n : nat) : list nat * cstate :=
  (seq (supply s) n, mkS (supply s + n) (next_id s) (cache s) (wit_index s) (emitted s)).

(* NonrevBuildProofBuilder: a new committed builder, 8 draws (randomizer, r2, r3, 4 randomizers + spare) *)
Definition build (s : cstate) : builder * cstate :=
  (mkB (next_id s) (seq (supply s) 8) (wit_index s),
   mkS (supply s + 8) (S (next_id s)) (cache s) (wit_index s) (emitted s)).

(* UpdateCommit: refresh for the current witness; no new randomness *)
Definition refresh (b : builder) (s : cstate) : builder := mkB (b_id b) (b_rand b) (max (b_index b) (wit_index s)).

Definition step (s : cstate) (o : op) : cstate :=
  match o with
  | Prepare =>
    match cache s with
    | Some b => mkS (supply s) (next_id s) (Some (refresh b s)) (wit_index s) (emitted s)
    | None => let '(b, s1) := build s in mkS (supply s1) (next_id s1) (Some b) (wit_index s1) (emitted s1)
    end
  | UpdateWitness => mkS (supply s) (next_id s) (cache s) (S (wit_index s)) (emitted s)
  | Prove nonrev n =>
    let '(r, s1) := draw s n in
    if nonrev then
      match cache s1 with
      | Some b => mkS (supply s1) (next_id s1) None (wit_index s1) ((r ++ b_rand (refresh b s1)) :: emitted s1)
      | None => let '(b, s2) := build s1 in
                mkS (supply s2) (next_id s2) None (wit_index s2) ((r ++ b_rand b) :: emitted s2)
      end
    else mkS (supply s1) (next_id s1) (cache s1) (wit_index s1) (r :: emitted s1)
  | IssuanceCommit n =>
    let '(r, s1) := draw s n in mkS (supply s1) (next_id s1) (cache s1) (wit_index s1) (r :: emitted s1)
  end.

Definition init : cstate := mkS 0 0 None 0 [].

Definition run (ops : list op) : cstate := fold_left step ops init.

(* observable trace for the correspondence check: after every operation the cached builder
   (identity, accumulator index it is committed for) and, for proofs with non-revocation, the
   builder that was consumed *)
Record obs := mkO { o_cached : option (nat * nat); o_used : option (nat * nat) }.

Definition used_by (s : cstate) (o : op) : option (nat * nat) :=
  match o with
  | Prove true _ =>
    match cache s with
    | Some b => Some (b_id b, max (b_index b) (wit_index s))
    | None => Some (next_id s, wit_index s)
    end
  | _ => None
  end.

Fixpoint trace (s : cstate) (ops : list op) : list obs :=
  match ops with
  | [] => []
  | o :: r =>
    let s' := step s o in
    mkO (match cache s' with Some b => Some (b_id b, b_index b) | None => None end) (used_by s o) :: trace s' r
  end.

(* ---------------------------------------------------------------------------------- *)

Definition below (n : nat) (l : list nat) : Prop := Forall (fun i => i < n) l.

Definition disjoint (a b : list nat) : Prop := forall i, In i a -> In i b -> False.

(* invariant: every index handed out so far is below the supply counter; the cached builder's
   randomness is disjoint from every emitted proof; emitted proofs are pairwise disjoint *)
Inductive pairwise_disjoint : list (list nat) -> Prop :=
| pd_nil : pairwise_disjoint []
| pd_cons x l : Forall (disjoint x) l -> pairwise_disjoint l -> pairwise_disjoint (x :: l).

Definition inv (s : cstate) : Prop :=
  Forall (below (supply s)) (emitted s) /\
  pairwise_disjoint (emitted s) /\
  match cache s with
  | Some b => below (supply s) (b_rand b) /\ Forall (disjoint (b_rand b)) (emitted s)
  | None => True
  end.

Lemma below_weaken n m l : n <= m -> below n l -> below m l.
Proof. intros H Hb. eapply Forall_impl; [|exact Hb]. cbn. intros; lia. Qed.

Lemma seq_below a n : below (a + n) (seq a n).
Proof. apply Forall_forall. intros i Hi. apply in_seq in Hi. lia. Qed.

Lemma fresh_disjoint a n l : below a l -> disjoint (seq a n) l.
Proof.
  intros Hb i H1 H2. apply in_seq in H1. unfold below in Hb. rewrite Forall_forall in Hb. specialize (Hb i H2). lia.
Qed.

Lemma disjoint_sym a b : disjoint a b -> disjoint b a.
Proof. intros H i H1 H2. exact (H i H2 H1). Qed.

Lemma disjoint_app a b c : disjoint a c -> disjoint b c -> disjoint (a ++ b) c.
Proof. intros H1 H2 i Hi Hc. apply in_app_or in Hi as [Hi|Hi]; eauto. Qed.

Lemma forall_fresh a n ls : Forall (below a) ls -> Forall (disjoint (seq a n)) ls.
Proof. intros H. eapply Forall_impl; [|exact H]. intros l Hl. now apply fresh_disjoint. Qed.

Lemma below_app n a b : below n a -> below n b -> below n (a ++ b).
Proof. intros. now apply Forall_app. Qed.

Lemma step_inv s o : inv s -> inv (step s o).
Proof.
  intros (He & Hp & Hc). destruct o as [| |nonrev n|n]; unfold inv; cbn [step].
  - (* Prepare *)
    destruct (cache s) as [b|] eqn:Ec.
    + split; [exact He|]. split; [exact Hp|]. cbn [cache refresh b_rand]. exact Hc.
    + cbn [build cache supply emitted]. split; [|split].
      * eapply Forall_impl; [|exact He]. intros l Hl. eapply below_weaken; [|exact Hl]. apply Nat.le_add_r.
      * exact Hp.
      * cbn [b_rand]. split; [apply seq_below|]. now apply forall_fresh.
  - (* UpdateWitness *) split; [exact He|]. split; [exact Hp|]. exact Hc.
  - (* Prove *)
    cbn [draw]. destruct nonrev.
    + cbn [cache]. destruct (cache s) as [b|] eqn:Ec.
      * destruct Hc as [Hb Hd]. cbn [supply emitted cache]. split; [|split; [|exact I]].
        -- constructor.
           ++ apply below_app; [apply seq_below|eapply below_weaken; [|exact Hb]; lia].
           ++ eapply Forall_impl; [|exact He]. intros l Hl. eapply below_weaken; [|exact Hl]. lia.
        -- constructor; [|exact Hp].
           rewrite Forall_forall in *. intros l Hl. apply disjoint_app; [|now apply Hd].
           apply fresh_disjoint. now apply He.
      * cbn [build supply emitted cache next_id wit_index b_rand]. split; [|split; [|exact I]].
        -- constructor.
           ++ apply below_app; [eapply below_weaken; [|apply seq_below]; lia|apply seq_below].
           ++ eapply Forall_impl; [|exact He]. intros l Hl. eapply below_weaken; [|exact Hl]. lia.
        -- constructor; [|exact Hp].
           rewrite Forall_forall in *. intros l Hl. apply disjoint_app.
           ++ apply fresh_disjoint. now apply He.
           ++ apply fresh_disjoint. eapply below_weaken; [|apply He; exact Hl]. lia.
    + cbn [supply emitted cache]. split; [|split].
      * constructor; [apply seq_below|]. eapply Forall_impl; [|exact He]. intros l Hl. eapply below_weaken; [|exact Hl]. lia.
      * constructor; [|exact Hp]. now apply forall_fresh.
      * destruct (cache s) as [b|]; [|exact I]. destruct Hc as [Hb Hd]. split.
        -- eapply below_weaken; [|exact Hb]. lia.
        -- constructor; [|exact Hd]. apply disjoint_sym. now apply fresh_disjoint.
  - (* IssuanceCommit *)
    cbn [draw supply emitted cache]. split; [|split].
    + constructor; [apply seq_below|]. eapply Forall_impl; [|exact He]. intros l Hl. eapply below_weaken; [|exact Hl]. lia.
    + constructor; [|exact Hp]. now apply forall_fresh.
    + destruct (cache s) as [b|]; [|exact I]. destruct Hc as [Hb Hd]. split.
      * eapply below_weaken; [|exact Hb]. lia.
      * constructor; [|exact Hd]. apply disjoint_sym. now apply fresh_disjoint.
Qed.

Lemma init_inv : inv init.
Proof. repeat split; constructor. Qed.

Lemma run_inv_from ops : forall s, inv s -> inv (fold_left step ops s).
Proof. induction ops as [|o r IH]; intros s Hs; cbn; [exact Hs|]. apply IH. now apply step_inv. Qed.

(* C07: for every history of operations, the randomness behind any two proofs is disjoint *)
Theorem fresh_indices_lem ops : pairwise_disjoint (emitted (run ops)).
Proof. destruct (run_inv_from ops init init_inv) as (_ & H & _). exact H. Qed.

Lemma pairwise_nth l : pairwise_disjoint l -> forall i j a b, i < j ->
  nth_error l i = Some a -> nth_error l j = Some b -> disjoint a b.
Proof.
  induction 1 as [|x l Hx Hp IH]; intros i j a b Hij Ha Hb.
  - destruct i; discriminate.
  - destruct i as [|i]; destruct j as [|j]; try lia; cbn in Ha, Hb.
    + inversion Ha; subst. rewrite Forall_forall in Hx. apply Hx. eapply nth_error_In; eauto.
    + apply (IH i j a b); [lia|exact Ha|exact Hb].
Qed.

Theorem no_randomizer_reuse_lem ops i j a b : i <> j ->
  nth_error (emitted (run ops)) i = Some a -> nth_error (emitted (run ops)) j = Some b ->
  forall x, In x a -> In x b -> False.
Proof.
  intros Hne Ha Hb. pose proof (fresh_indices_lem ops) as Hp.
  destruct (Nat.lt_ge_cases i j) as [Hlt|Hge].
  - exact (pairwise_nth _ Hp i j a b Hlt Ha Hb).
  - intros x H1 H2. exact (pairwise_nth _ Hp j i b a ltac:(lia) Hb Ha x H2 H1).
Qed.

(* a prepared builder is consumed by at most one proof: after a proof with non-revocation the
   cache is empty, and builder identities are never re-issued *)
Theorem builder_consumed_lem s n : cache (step s (Prove true n)) = None.
Proof.
  cbn [step draw]. cbn [cache]. destruct (cache s); [reflexivity|]. cbn [build]. reflexivity.
Qed.

(* the two-transcript extractor: from responses s = r + c*m and s' = r' + c'*m it recovers m
   exactly when the two randomizers coincide *)
Theorem extractor_iff_lem (r r' m c c' : Z) :
  ((r + c * m) - (r' + c' * m) = (c - c') * m)%Z <-> r = r'.
Proof. split; intros H; [|subst; ring]. lia. Qed.

(* with a randomness source that never repeats a value (rnd injective on indices), the extractor
   fails on every pair of responses taken from two different proofs of a history *)
Theorem extractor_fails_lem (rnd : nat -> Z) ops i j a b x y m c c' :
  (forall u v, rnd u = rnd v -> u = v) -> i <> j ->
  nth_error (emitted (run ops)) i = Some a -> nth_error (emitted (run ops)) j = Some b ->
  In x a -> In y b ->
  ((rnd x + c * m) - (rnd y + c' * m) <> (c - c') * m)%Z.
Proof.
  intros Hinj Hne Ha Hb Hx Hy He. apply extractor_iff_lem in He. apply Hinj in He. subst y.
  exact (no_randomizer_reuse_lem ops i j a b Hne Ha Hb x Hx Hy).
Qed.

(* the cached builder, if any, always carries randomness no emitted proof has used *)
Theorem cached_builder_unused_lem ops b l :
  cache (run ops) = Some b -> In l (emitted (run ops)) -> forall x, In x (b_rand b) -> In x l -> False.
Proof.
  intros Hc Hl. unfold run in *. destruct (run_inv_from ops init init_inv) as (_ & _ & H). rewrite Hc in H. destruct H as [_ H].
  rewrite Forall_forall in H. exact (H l Hl).
Qed.

Example history_nonvacuous :
  let s := run [Prepare; Prove true 3; UpdateWitness; Prepare; Prepare; Prove true 2; Prove true 2; Prove false 4] in
  length (emitted s) = 4 /\ cache s = None /\ supply s = 3 + 8 + 8 + 2 + 2 + 8 + 4.
Proof. vm_compute. repeat split. Qed.
