(* revocation/api.go:396-451 : the compressed transport form of an event list (JSON and CBOR): only the index and
   parent hash of the first event and the revocation attributes travel; the reader recomputes the other indices and
   parent hashes, and (when asked to) the product of all attributes. *)
From Coq Require Import ZArith List Bool Lia.
From Gabi Require Import Val ModArith GoSem Bytes Sha256 NonRev CL Revocation.
Import ListNotations.
Open Scope Z_scope.

Record cel := mkCel { cel_index : Z; cel_parent : list Z; cel_E : list (option Z) }.

(* api.go:403 EventList.compress *)
Definition compress_events (l : list event) : cel :=
  match l with
  | [] => mkCel 0 [] []
  | e0 :: _ => mkCel (ev_index e0) (ev_parent e0) (map ev_e l)
  end.

(* api.go:416 compressedEventList.validate *)
Definition cel_validate (c : cel) : outcome unit :=
  if forallb (fun e => is_some e) (cel_E c) then Ok tt else Err.

(* api.go:425 EventList.uncompress: event i gets index uint64(i) + c.Index and, for i > 0, the hash of event i-1 *)
Fixpoint build_events (idx : Z) (parent : list Z) (es : list (option Z)) : outcome (list event) :=
  match es with
  | [] => Ok []
  | e :: r =>
    let ev := mkEv (u64 idx) e parent in
    match r with
    | [] => Ok [ev]
    | _ :: _ => let! h := event_hash ev in let! rest := build_events (idx + 1) h r in Ok (ev :: rest)
    end
  end.

(* UnmarshalJSON / UnmarshalCBOR after the generic decoder: validate, then uncompress; [cp] is ComputeProduct.
   Result: the events and the product field (nil unless requested). *)
Definition uncompress (cp : bool) (c : cel) : outcome (list event * option Z) :=
  let! _ := cel_validate c in
  let! evs := build_events (cel_index c) (cel_parent c) (cel_E c) in
  if cp then (let! p := events_product evs in Ok (evs, Some p)) else Ok (evs, None).

(* wire *)
Definition as_cel (v : val) : option cel :=
  match v with
  | VL [i; p; VL es] => do i <- as_Z i; do p <- as_LZ p; do es <- map_opt as_oZ es; Some (mkCel i p es)
  | _ => None
  end.
Definition of_cel (c : cel) : val := VL [VZ (cel_index c); of_LZ (cel_parent c); VL (map of_oZ (cel_E c))].
