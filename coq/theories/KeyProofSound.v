(* Theorems about the key-proof model. *)
From Coq Require Import ZArith List Bool Lia String.
From Gabi Require Import ModArith GoSem HashTool KeyProof.
Import ListNotations.
Open Scope string_scope.
Open Scope list_scope.
Open Scope Z_scope.

(* ------------------------------------------------------------------------------------ *)
(* 1. Completeness of the Schnorr-style representation proofs, for every statement.      *)

Section Sigma.
Variables (P ord : Z).
Hypothesis HP : 0 < P.
Hypothesis Hord : 0 < ord.

(* one term  base^(power * secret)  with a response  v = randomizer - secret * challenge (mod ord) *)
Lemma term_complete b pw s r v c :
  0 <= c -> powm P b ord = 1 mod P -> v mod ord = (r - s * c) mod ord ->
  mulm P (powm P (powm P b ((pw * s) mod ord)) c) (powm P b ((pw * v) mod ord)) = powm P b ((pw * r) mod ord).
Proof.
  intros Hc Hb Hv.
  pose proof (Z.mod_pos_bound (pw * s) ord Hord) as B1.
  pose proof (Z.mod_pos_bound (pw * v) ord Hord) as B2.
  rewrite powm_powm by lia.
  rewrite <- powm_add by nia.
  rewrite <- (powm_order_mod P HP b ord (((pw * s) mod ord) * c + (pw * v) mod ord)) by (try assumption; nia).
  f_equal.
  rewrite Z.add_mod by lia. rewrite Z.mod_mod by lia.
  rewrite Z.mul_mod_idemp_l by lia.
  rewrite <- (Z.mul_mod_idemp_r pw v) by lia. rewrite Hv. rewrite Z.mul_mod_idemp_r by lia.
  rewrite <- Z.add_mod by lia. f_equal. ring.
Qed.

(* resolved terms: base value, power, secret, randomizer, response *)
Record term := mkT { t_b : Z; t_pw : Z; t_s : Z; t_r : Z; t_v : Z }.

Definition fold_terms (val : term -> Z) (ts : list term) (acc : Z) : Z :=
  fold_left (fun a t => (a * powm P (t_b t) ((t_pw t * val t) mod ord)) mod P) ts acc.

Definition prod_terms (val : term -> Z) (ts : list term) : Z :=
  prodpow P (map (fun t => (t_b t, (t_pw t * val t) mod ord)) ts).

Lemma fold_terms_mod val ts : forall acc,
  (fold_terms val ts acc) mod P = mulm P acc (prod_terms val ts).
Proof.
  induction ts as [|t r IH]; intros acc; unfold fold_terms, prod_terms in *; cbn [fold_left map prodpow].
  - now rewrite mulm_1mod_r by lia.
  - rewrite IH. fold (mulm P acc (powm P (t_b t) ((t_pw t * val t) mod ord))).
    now rewrite mulm_assoc by lia.
Qed.

Lemma fold_terms_range val ts : forall acc, 0 <= acc < P -> 0 <= fold_terms val ts acc < P.
Proof.
  induction ts as [|t r IH]; intros acc Ha; unfold fold_terms in *; cbn [fold_left]; [exact Ha|].
  apply IH. apply Z.mod_pos_bound. lia.
Qed.

Definition term_ok (c : Z) (t : term) : Prop :=
  powm P (t_b t) ord = 1 mod P /\ t_v t mod ord = (t_r t - t_s t * c) mod ord.

Lemma prod_complete c ts : 0 <= c -> Forall (term_ok c) ts ->
  mulm P (powm P (prod_terms t_s ts) c) (prod_terms t_v ts) = prod_terms t_r ts.
Proof.
  intros Hc H. induction H as [|t r [Hb Hv] _ IH]; unfold prod_terms in *; cbn [map prodpow].
  - rewrite powm_mod, powm_1_l by lia. rewrite mulm_1mod_l by lia. apply Z.mod_mod. lia.
  - rewrite powm_mulm by lia.
    set (xs := powm P (powm P (t_b t) ((t_pw t * t_s t) mod ord)) c) in *.
    set (xv := powm P (t_b t) ((t_pw t * t_v t) mod ord)) in *.
    set (As := powm P (prodpow P (map (fun t0 => (t_b t0, (t_pw t0 * t_s t0) mod ord)) r)) c) in *.
    set (Av := prodpow P (map (fun t0 => (t_b t0, (t_pw t0 * t_v t0) mod ord)) r)) in *.
    transitivity (mulm P (mulm P xs xv) (mulm P As Av)).
    + rewrite !mulm_assoc by lia. f_equal. rewrite <- !mulm_assoc by lia. f_equal. apply mulm_comm.
    + rewrite IH. f_equal. subst xs xv. now apply term_complete.
Qed.

(* the commitment the verifier reconstructs equals the one the prover hashed *)
Theorem sigma_complete c ts lhs : 1 < P -> 0 <= c -> Forall (term_ok c) ts ->
  lhs mod P = prod_terms t_s ts ->
  fold_terms t_v ts (powm P lhs c) = fold_terms t_r ts 1.
Proof.
  intros HP1 Hc Hts Hl.
  assert (R1 : 0 <= fold_terms t_v ts (powm P lhs c) < P) by (apply fold_terms_range, powm_range; lia).
  assert (R2 : 0 <= fold_terms t_r ts 1 < P) by (apply fold_terms_range; lia).
  rewrite <- (Z.mod_small _ _ R1), <- (Z.mod_small _ _ R2).
  rewrite !fold_terms_mod. rewrite <- powm_mod, Hl by lia.
  rewrite (prod_complete c ts Hc Hts). rewrite mulm_1_l by lia.
  unfold prod_terms. symmetry. apply prodpow_idem. exact HP.
Qed.

End Sigma.

(* ---- the model's functions compute these folds when every name resolves ---- *)

Definition bval (g : group) (bs : env) (n : name) : option Z :=
  match lookup_s bs n with
  | Some b => Some b
  | None => if Z.eqb n (nm "g") then Some (gG g) else if Z.eqb n (nm "h") then Some (gH g) else None
  end.

Lemma base_exp_resolved g bs n e prev b :
  gP g <> 0 -> bval g bs n = Some b -> 0 <= e < gOrd g ->
  base_exp g bs n e prev = Ok (powm (gP g) b e).
Proof.
  intros HP Hb He.
  assert (E1 : (e <? 0) = false) by (apply Z.ltb_ge; lia).
  assert (E2 : (gOrd g <=? e) = false) by (apply Z.leb_gt; lia).
  unfold base_exp, bval in *. destruct (lookup_s bs n) as [b0|].
  - inversion Hb; subst. unfold go_exp. rewrite E1. now rewrite powx_powm.
  - destruct (Z.eqb n (nm "g")).
    + inversion Hb; subst. unfold group_exp. rewrite E1. cbv zeta. rewrite E1, E2. cbn [orb]. now rewrite powx_powm.
    + destruct (Z.eqb n (nm "h")); [|discriminate].
      inversion Hb; subst. unfold group_exp. rewrite E1. cbv zeta. rewrite E1, E2. cbn [orb]. now rewrite powx_powm.
Qed.

(* a right-hand side resolved against environments of values: each (base, secret, power) has a base value
   and a value of its secret *)
Fixpoint resolve_rhs (g : group) (bs vals : env) (l : list (name * name * Z)) : option (list (Z * Z * Z)) :=
  match l with
  | [] => Some []
  | (b, s, pw) :: r =>
    match bval g bs b, lookup_s vals s, resolve_rhs g bs vals r with
    | Some bv, Some v, Some rest => Some ((bv, pw, v) :: rest)
    | _, _, _ => None
    end
  end.

Lemma rhs_prod_resolved g bs vals l : forall ts acc prev,
  0 < gP g -> 0 < gOrd g -> resolve_rhs g bs vals l = Some ts ->
  rhs_prod g bs vals l acc prev =
  Ok (fold_left (fun a t => (a * powm (gP g) (fst (fst t)) ((snd (fst t) * snd t) mod gOrd g)) mod gP g) ts acc).
Proof.
  induction l as [|[[b s] pw] r IH]; intros ts acc prev HP Ho H; cbn [resolve_rhs rhs_prod] in *.
  - inversion H; subst. reflexivity.
  - destruct (bval g bs b) as [bv|] eqn:Eb; [|discriminate].
    destruct (lookup_s vals s) as [v|] eqn:Ev; [|discriminate].
    destruct (resolve_rhs g bs vals r) as [rest|] eqn:Er; [|discriminate].
    inversion H; subst ts.
    rewrite (base_exp_resolved g bs b _ prev bv ltac:(lia) Eb (Z.mod_pos_bound _ _ Ho)).
    cbn [obind]. rewrite (IH rest _ _ HP Ho eq_refl). reflexivity.
Qed.

Lemma fold_left_map_lem {A B C} (f : A -> B -> A) (h : C -> B) (l : list C) : forall a,
  fold_left f (map h l) a = fold_left (fun a x => f a (h x)) l a.
Proof. induction l as [|x r IH]; intros a; cbn; [reflexivity|apply IH]. Qed.

Lemma resolve_three g bs ss rs ps : forall l ts_s ts_r ts_v,
  resolve_rhs g bs ss l = Some ts_s -> resolve_rhs g bs rs l = Some ts_r -> resolve_rhs g bs ps l = Some ts_v ->
  exists ts : list term,
    map (fun t => (t_b t, t_pw t, t_s t)) ts = ts_s /\
    map (fun t => (t_b t, t_pw t, t_r t)) ts = ts_r /\
    map (fun t => (t_b t, t_pw t, t_v t)) ts = ts_v.
Proof.
  induction l as [|[[b sn] pw] r IH]; intros ts_s ts_r ts_v Hs Hr Hv; cbn [resolve_rhs] in *.
  - inversion Hs; inversion Hr; inversion Hv. exists []. auto.
  - destruct (bval g bs b) as [bv|]; [|discriminate].
    destruct (lookup_s ss sn) as [sv|]; [|discriminate]. destruct (lookup_s rs sn) as [rv|]; [|discriminate].
    destruct (lookup_s ps sn) as [vv|]; [|discriminate].
    destruct (resolve_rhs g bs ss r) as [a1|]; [|discriminate]. destruct (resolve_rhs g bs rs r) as [a2|]; [|discriminate].
    destruct (resolve_rhs g bs ps r) as [a3|]; [|discriminate].
    destruct (IH a1 a2 a3 eq_refl eq_refl eq_refl) as (ts & E1 & E2 & E3).
    inversion Hs; inversion Hr; inversion Hv; subst.
    exists (mkT bv pw sv rv vv :: ts). cbn [map t_b t_pw t_s t_r t_v]. auto.
Qed.

(* Completeness of a representation proof in the model: if the statement is true of the secrets, every base
   has order dividing the group order, and every response is randomizer - secret*challenge modulo the order,
   then the verifier's reconstruction is the prover's commitment. *)
Theorem rep_complete_lem g bs ss rs ps c s ts_s ts_r ts_v :
  1 < gP g -> 0 < gOrd g -> 0 <= c ->
  rep_is_true g bs ss s = Ok true ->
  resolve_rhs g bs ss (r_rhs s) = Some ts_s ->
  resolve_rhs g bs rs (r_rhs s) = Some ts_r ->
  resolve_rhs g bs ps (r_rhs s) = Some ts_v ->
  Forall (fun t => powm (gP g) (fst (fst t)) (gOrd g) = 1 mod gP g) ts_s ->
  (forall i sv rv vv, nth_error ts_s i = Some sv -> nth_error ts_r i = Some rv -> nth_error ts_v i = Some vv ->
                      snd vv mod gOrd g = (snd rv - snd sv * c) mod gOrd g) ->
  rep_from_proof g bs ps c s = rep_from_secrets g bs rs s.
Proof.
  intros HP Ho Hc Htrue Hs Hr Hv Hord Hresp.
  destruct (resolve_three g bs ss rs ps _ _ _ _ Hs Hr Hv) as (ts & E1 & E2 & E3).
  assert (Ec : (c <? 0) = false) by (apply Z.ltb_ge; lia).
  unfold rep_is_true, rep_from_proof, rep_from_secrets in *.
  destruct (lhs_prod g bs (r_lhs s) 1 0) as [lhs| |] eqn:El; cbn [obind] in *; try discriminate.
  rewrite (rhs_prod_resolved g bs ss _ ts_s 1 0 ltac:(lia) Ho Hs) in Htrue. cbn [obind] in Htrue.
  inversion Htrue as [Heq]. apply Z.eqb_eq in Heq.
  unfold go_exp. rewrite Ec. rewrite powx_powm by lia.
  rewrite (rhs_prod_resolved g bs ps _ ts_v _ 0 ltac:(lia) Ho Hv).
  rewrite (rhs_prod_resolved g bs rs _ ts_r 1 0 ltac:(lia) Ho Hr).
  f_equal. subst ts_s ts_r ts_v.
  rewrite !fold_left_map_lem in *. cbn [fst snd] in *.
  change (fold_terms (gP g) (gOrd g) t_v ts (powm (gP g) lhs c) = fold_terms (gP g) (gOrd g) t_r ts 1).
  change (fold_left _ ts 1) with (fold_terms (gP g) (gOrd g) t_s ts 1) in Heq.
  apply sigma_complete; try lia.
  - apply Forall_forall. intros t Ht. split.
    + rewrite Forall_forall in Hord. apply (Hord (t_b t, t_pw t, t_s t)). apply in_map_iff. exists t. auto.
    + apply In_nth_error in Ht as [i Hi].
      apply (Hresp i (t_b t, t_pw t, t_s t) (t_b t, t_pw t, t_r t) (t_b t, t_pw t, t_v t)); rewrite nth_error_map, Hi; reflexivity.
  - (* the statement is true: lhs is the product over the secrets *)
    assert (R : 0 <= fold_terms (gP g) (gOrd g) t_s ts 1 < gP g) by (apply fold_terms_range; lia).
    rewrite Heq. rewrite <- (Z.mod_small _ _ R) at 1. rewrite Z.mod_mod by lia.
    rewrite fold_terms_mod by lia. rewrite mulm_1_l by lia. unfold prod_terms. apply prodpow_idem. lia.
Qed.

(* ------------------------------------------------------------------------------------ *)
(* 2. Range-proof rounds: the verifier's view of a response is randomizer - bit * secret.  *)

Lemma range_round_secret_lem s bit randomizer secret :
  (range_response_secret s bit randomizer secret - 2 ^ (rs_l2 s + rp_epsilon + 1)) - (if bit then 2 ^ rs_l1 s else 0)
  = randomizer - secret * (if bit then 1 else 0).
Proof. unfold range_response_secret. destruct bit; ring. Qed.

Lemma range_round_other_lem g bit randomizer secret : 0 < gOrd g ->
  range_response_other g bit randomizer secret mod gOrd g = (randomizer - secret * (if bit then 1 else 0)) mod gOrd g.
Proof.
  intros Ho. unfold range_response_other. destruct bit.
  - rewrite Z.mod_mod by lia. f_equal. ring.
  - f_equal. ring.
Qed.

(* honest responses for the range secret pass the size check of verifyProofStructure *)
Lemma range_honest_in_bounds_lem s bit randomizer secret :
  0 <= rs_l2 s -> rs_l1 s = 0 ->
  - 2 ^ (rs_l2 s + rp_epsilon) <= randomizer < 2 ^ (rs_l2 s + rp_epsilon) ->
  - 2 ^ rs_l2 s < secret < 2 ^ rs_l2 s ->
  0 <= range_response_secret s bit randomizer secret < 2 ^ (rs_l2 s + rp_epsilon + 2).
Proof.
  intros Hl2 Hl1 Hr Hs. unfold range_response_secret, rp_epsilon in *. rewrite Hl1.
  set (l := rs_l2 s) in *.
  assert (E1 : 2 ^ (l + 256 + 1) = 2 * 2 ^ (l + 256)) by (rewrite Z.pow_add_r by lia; lia).
  assert (E2 : 2 ^ (l + 256 + 2) = 4 * 2 ^ (l + 256)) by (rewrite Z.pow_add_r by lia; lia).
  assert (E3 : 2 ^ (l + 256) = 2 ^ l * 2 ^ 256) by (rewrite Z.pow_add_r by lia; lia).
  assert (H256 : 2 <= 2 ^ 256) by (change 2 with (2 ^ 1) at 1; apply Z.pow_le_mono_r; lia).
  assert (Hl : 0 < 2 ^ l) by (apply Z.pow_pos_nonneg; lia).
  set (A := 2 ^ l) in *. set (B := 2 ^ 256) in *. set (M := 2 ^ (l + 256)) in *.
  rewrite E1, E2. change (2 ^ 0) with 1. destruct bit; nia.
Qed.

(* ------------------------------------------------------------------------------------ *)
(* 3. OR-composition: the two sub-challenges are tied to the outer challenge.            *)

Lemma or_split_valid_lem c a : Z.lxor (Z.lxor c a) a = c.
Proof. rewrite Z.lxor_assoc, Z.lxor_nilpotent. apply Z.lxor_0_r. Qed.

Lemma or_challenge_forced_lem a b c : Z.lxor a b = c -> b = Z.lxor c a.
Proof. intros <-. rewrite (Z.lxor_comm a b), Z.lxor_assoc, Z.lxor_nilpotent. now rewrite Z.lxor_0_r. Qed.

Lemma step_structure_challenges_lem c s p :
  step_structure_ok c s p = true -> exists a b, st_ac p = Some a /\ st_bc p = Some b /\ b = Z.lxor c a.
Proof.
  unfold step_structure_ok. destruct (st_ac p) as [a|]; [|discriminate]. destruct (st_bc p) as [b|]; [|discriminate].
  intros H. apply andb_true_iff in H as [H _]. apply andb_true_iff in H as [H _]. apply Z.eqb_eq in H.
  exists a, b. repeat split. apply or_challenge_forced_lem. now symmetry.
Qed.

(* ------------------------------------------------------------------------------------ *)
(* 4. Quasi-safe prime product proofs.                                                   *)

(* explicit rejection conditions of the combined proof *)
Lemma and_then_true a b : and_then a b = Ok true -> a = Ok true /\ b = Ok true.
Proof. unfold and_then. destruct a as [[|]| |]; try discriminate; auto. Qed.

Theorem qspp_accept_lem n c n_prime p :
  qspp_verify n c n_prime p = Ok true ->
  n mod 8 = 5 /\ no_small_factor n = true /\ n_prime = false /\ n mod 3 = 1 /\
  sf_verify n c (q_sf p) = Ok true /\ ppp_verify n c (q_ppp p) = Ok true /\
  dpp_verify n c n_prime (q_dpp p) = Ok true /\ aspp_verify n c (q_aspp p) = Ok true.
Proof.
  unfold qspp_verify. destruct (Z.eqb_spec (n mod 8) 5) as [E8|]; [|discriminate]. cbn [negb].
  destruct (no_small_factor n) eqn:Ef; [|discriminate]. cbn [negb].
  intros H. apply and_then_true in H as [H1 H]. apply and_then_true in H as [H2 H]. apply and_then_true in H as [H3 H4].
  assert (Hp : n_prime = false).
  { unfold dpp_verify in H3. destruct n_prime; [discriminate|reflexivity]. }
  assert (H3' : n mod 3 = 1).
  { unfold aspp_verify in H4. destruct (Z.eqb_spec (n mod 3) 1); [assumption|discriminate]. }
  repeat split; assumption.
Qed.

Lemma no_small_factor_spec_lem n d : no_small_factor n = true -> 2 <= d < minimum_factor -> (d | n) -> False.
Proof.
  unfold no_small_factor, minimum_factor. intros H Hd Hdiv. rewrite forallb_forall in H.
  specialize (H (Z.to_nat d)). rewrite Z2Nat.id in H by lia.
  assert (Hin : In (Z.to_nat d) (seq 2 (Z.to_nat 1024 - 2))) by (apply in_seq; lia).
  specialize (H Hin). apply Z.eqb_eq in H.
  assert (Hg : Z.gcd n d = d).
  { rewrite Z.gcd_comm. apply Z.divide_gcd_iff; [lia|exact Hdiv]. }
  lia.
Qed.

(* completeness of the square-free and the disjoint-prime-product round: a response computed with an
   inverse of the exponent modulo a multiple of the element's order is accepted *)
Lemma root_response_complete_lem n ord x e m :
  0 < n -> 0 < ord -> 0 <= e -> 0 <= m -> powm n x ord = 1 mod n -> (e * m) mod ord = 1 mod ord ->
  powm n (powm n x m) e = x mod n.
Proof.
  intros Hn Ho He Hm Hx Hinv. rewrite powm_powm by lia.
  rewrite <- (powm_order_mod n Hn x ord (m * e)) by (try assumption; nia).
  rewrite Z.mul_comm, Hinv.
  destruct (Z.eq_dec ord 1) as [->|Hne].
  - rewrite Z.mod_1_r. change (powm n x 0) with (1 mod n). rewrite <- Hx. unfold powm. now rewrite Z.pow_1_r.
  - rewrite Z.mod_small by lia. unfold powm. now rewrite Z.pow_1_r.
Qed.

(* a response whose square is one of +-x, +-2x is accepted by the prime-power-product round *)
Lemma ppp_round_lem n r cur :
  powx n r 2 = cur \/ powx n r 2 = (- cur) mod n \/ powx n r 2 = (2 * cur) mod n \/ powx n r 2 = (- (2 * cur)) mod n ->
  ((powx n r 2 =? cur) || (powx n r 2 =? (- cur) mod n) || (powx n r 2 =? (2 * cur) mod n) || (powx n r 2 =? (- (2 * cur)) mod n)) = true.
Proof.
  intros [H|[H|[H|H]]]; rewrite H at 1 2 3 4; rewrite ?Z.eqb_refl, ?orb_true_r; reflexivity.
Qed.

(* ------------------------------------------------------------------------------------ *)
(* 5. The accepted proof is bound to the modulus and to the base list through the hash.   *)

Lemma ped_commitments_length g nm0 c p l : ped_commitments g nm0 c p = Ok l -> List.length l = 2%nat.
Proof.
  unfold ped_commitments. destruct (pd_commit p); [|discriminate].
  destruct (rep_from_proof _ _ _ _ _); cbn [obind]; try discriminate. intros H; inversion H. reflexivity.
Qed.

Lemma app_same_length_inj {A} (a a' b b' : list A) :
  List.length a = List.length a' -> a ++ b = a' ++ b' -> a = a' /\ b = b'.
Proof.
  revert a'. induction a as [|x r IH]; intros [|x' r'] Hl H; cbn in *; try discriminate.
  - auto.
  - inversion H; subst. inversion Hl as [Hl']. destruct (IH r' Hl' H2) as [-> ->]. auto.
Qed.

(* shape of the hashed list: the modulus at a fixed position of the front part; then the bases-are-squares
   part, which starts with a block that only depends on the proof, followed by the modulus and the bases *)
Lemma vk_front_modulus n p fr : vk_front n p = Ok fr -> nth_error fr 9 = Some n.
Proof.
  unfold vk_front. destruct (vk_groupprime p) as [gp|]; [|discriminate]. destruct (vk_challenge p) as [c|]; [|discriminate].
  set (g := build_group gp).
  destruct (ped_commitments g (nm "pprime") c (vk_pprime p)) as [a1| |] eqn:A1; cbn [obind]; try discriminate.
  destruct (ped_commitments g (nm "qprime") c (vk_qprime p)) as [a2| |] eqn:A2; cbn [obind]; try discriminate.
  destruct (ped_commitments g (nm "p") c (vk_p p)) as [a3| |] eqn:A3; cbn [obind]; try discriminate.
  destruct (ped_commitments g (nm "q") c (vk_q p)) as [a4| |] eqn:A4; cbn [obind]; try discriminate.
  apply ped_commitments_length in A1, A2, A3, A4.
  repeat match goal with |- context [obind ?x _] => destruct x; cbn [obind]; try discriminate end.
  intros H; inversion H; subst fr.
  destruct a1 as [|x1 [|y1 [|]]]; try discriminate. destruct a2 as [|x2 [|y2 [|]]]; try discriminate.
  destruct a3 as [|x3 [|y3 [|]]]; try discriminate. destruct a4 as [|x4 [|y4 [|]]]; try discriminate.
  reflexivity.
Qed.

Lemma issq_shape g c n squares p l :
  issq_commitments g c n squares p = Ok l ->
  exists pre post, issq_pre g c p = Ok pre /\ l = pre ++ [n] ++ squares ++ post.
Proof.
  unfold issq_commitments. destruct (issq_pre g c p) as [pre| |]; cbn [obind]; try discriminate.
  repeat match goal with |- context [obind ?x _] => destruct x; cbn [obind]; try discriminate end.
  intros H; inversion H. eexists; eexists; split; [reflexivity|]. reflexivity.
Qed.

Lemma vk_list_shape n bases p l :
  vk_list n bases p = Ok l ->
  exists gp c fr pre post, vk_groupprime p = Some gp /\ vk_challenge p = Some c /\
    vk_front n p = Ok fr /\ issq_pre (build_group gp) c (vk_bases p) = Ok pre /\
    l = fr ++ pre ++ [n] ++ bases ++ post.
Proof.
  unfold vk_list. destruct (vk_groupprime p) as [gp|]; [|discriminate]. destruct (vk_challenge p) as [c|]; [|discriminate].
  destruct (vk_front n p) as [fr| |]; cbn [obind]; try discriminate.
  destruct (issq_commitments (build_group gp) c n bases (vk_bases p)) as [l11| |] eqn:E; cbn [obind]; try discriminate.
  intros H; inversion H; subst l. apply issq_shape in E as (pre & post & Hp & ->).
  exists gp, c, fr, pre, post. auto.
Qed.

Lemma vk_structure_bases n bases f1 f2 p :
  vk_structure_ok n bases f1 f2 p = true -> List.length (iq_squares (vk_bases p)) = List.length bases.
Proof.
  unfold vk_structure_ok. destruct (vk_groupprime p); [|discriminate]. destruct (vk_challenge p); [|discriminate].
  intros H. apply andb_true_iff in H as [_ H]. unfold issq_structure_ok in H.
  do 7 (apply andb_true_iff in H as [H _]). apply andb_true_iff in H as [_ H]. now apply Nat.eqb_eq in H.
Qed.

(* A proof accepted for (n, bases) and for (n', bases') forces n = n' and bases = bases', or exhibits an
   explicit SHA-256 collision between the two hashed commitment lists. *)
Theorem vk_binds_lem n n' bases bases' f1 f2 f3 f1' f2' f3' p :
  vk_verify n bases f1 f2 f3 p = Ok true -> vk_verify n' bases' f1' f2' f3' p = Ok true ->
  (n = n' /\ bases = bases') \/
  exists l l', vk_list n bases p = Ok l /\ vk_list n' bases' p = Ok l' /\ l <> l' /\
               collision (hash_commit_bytes false l) (hash_commit_bytes false l').
Proof.
  unfold vk_verify. intros H1 H2.
  destruct (vk_structure_ok n bases f1 f2 p) eqn:S1; [|discriminate].
  destruct (vk_structure_ok n' bases' f1' f2' p) eqn:S2; [|discriminate]. cbn [negb] in *.
  destruct (vk_list n bases p) as [l| |] eqn:E1; cbn [obind] in H1; try discriminate.
  destruct (vk_list n' bases' p) as [l'| |] eqn:E2; cbn [obind] in H2; try discriminate.
  destruct (vk_challenge p) as [c|] eqn:Ec; [|discriminate].
  destruct (Z.eqb_spec c (hash_commit false l)) as [Hc1|]; [|discriminate].
  destruct (Z.eqb_spec c (hash_commit false l')) as [Hc2|]; [|discriminate]. cbn [negb] in *.
  clear H1 H2.
  destruct (list_eq_dec Z.eq_dec l l') as [Heq|Hne].
  - left. subst l'.
    apply vk_list_shape in E1 as (gp & c1 & fr & pre & post & G1 & C1 & F1 & P1 & L1).
    apply vk_list_shape in E2 as (gp' & c2 & fr' & pre' & post' & G2 & C2 & F2 & P2 & L2).
    rewrite G1 in G2. inversion G2; subst gp'. rewrite C1 in C2. inversion C2; subst c2.
    rewrite P1 in P2. inversion P2; subst pre'.
    (* the modulus is element 9 of both front parts, which are prefixes of the same list *)
    assert (Hn : n = n').
    { pose proof (vk_front_modulus _ _ _ F1) as N1. pose proof (vk_front_modulus _ _ _ F2) as N2.
      assert (Q1 : nth_error l 9 = Some n) by (rewrite L1; rewrite nth_error_app1; [exact N1|apply nth_error_Some; congruence]).
      assert (Q2 : nth_error l 9 = Some n') by (rewrite L2; rewrite nth_error_app1; [exact N2|apply nth_error_Some; congruence]).
      congruence. }
    subst n'. rewrite F1 in F2. inversion F2; subst fr'.
    split; [reflexivity|].
    rewrite L1 in L2. apply app_inv_head in L2. apply app_inv_head in L2. cbn [app] in L2. inversion L2 as [L3].
    apply app_same_length_inj in L3 as [Hb _]; [exact Hb|].
    rewrite <- (vk_structure_bases _ _ _ _ _ S1), <- (vk_structure_bases _ _ _ _ _ S2). reflexivity.
  - right. exists l, l'. split; [reflexivity|]. split; [reflexivity|]. split; [exact Hne|].
    apply hash_commit_differs_lem; [intros H; inversion H; contradiction|congruence].
Qed.

(* the verifier's decision is a function of the proof, the modulus, the bases and the three primality
   oracle answers: nothing else (no state, no randomness) enters *)
Theorem vk_accept_structure_lem n bases f1 f2 f3 p :
  vk_verify n bases f1 f2 f3 p = Ok true ->
  vk_structure_ok n bases f1 f2 p = true /\
  exists l c, vk_list n bases p = Ok l /\ vk_challenge p = Some c /\ c = hash_commit false l /\
              qspp_verify n c f3 (vk_qspp p) = Ok true.
Proof.
  unfold vk_verify. destruct (vk_structure_ok n bases f1 f2 p); [|discriminate]. cbn [negb].
  destruct (vk_list n bases p) as [l| |]; cbn [obind]; try discriminate.
  destruct (vk_challenge p) as [c|]; [|discriminate].
  destruct (Z.eqb_spec c (hash_commit false l)); [|discriminate]. cbn [negb].
  destruct (vk_nonzero n bases p l) as [nz| |]; cbn [obind]; try discriminate.
  destruct nz; cbn [negb]; [|discriminate].
  intros H. split; [reflexivity|]. exists l, c. auto.
Qed.

(* an accepted key proof has no degenerate commitment: every recomputed group element is non-zero modulo the group prime *)
Theorem vk_commitments_nonzero_lem n bases f1 f2 f3 p :
  vk_verify n bases f1 f2 f3 p = Ok true ->
  exists l, vk_list n bases p = Ok l /\ vk_nonzero n bases p l = Ok true.
Proof.
  unfold vk_verify. destruct (vk_structure_ok n bases f1 f2 p); [|discriminate]. cbn [negb].
  destruct (vk_list n bases p) as [l| |]; cbn [obind]; try discriminate.
  destruct (vk_challenge p) as [c|]; [|discriminate].
  destruct (Z.eqb_spec c (hash_commit false l)); [|discriminate]. cbn [negb].
  destruct (vk_nonzero n bases p l) as [nz| |] eqn:En; cbn [obind]; try discriminate.
  destruct nz; cbn [negb]; [|discriminate]. intros _. exists l. split; [reflexivity|exact En].
Qed.
