(* C09: a witness for a value that was not removed is brought to the new accumulator by Witness.Update. *)
From Coq Require Import ZArith List Lia Bool.
From Gabi Require Import Val ModArith GoSem Bytes Sha256 NonRev CL Revocation SignedPow.
Import ListNotations.
Open Scope Z_scope.

Section Upd.
Variable n : Z.
Hypothesis Hn : 1 < n.

(* (b^E, bi^E) is again a unit pair, and signed powers compose *)
Lemma spw_pow_base b bi E k : mulm n b bi = 1 -> 0 <= E ->
  spw n (powm n b E) (powm n bi E) k = spw n b bi (E * k).
Proof.
  intros Hinv HE. unfold spw.
  destruct (Z.ltb_spec k 0) as [Hk|Hk].
  - destruct (Z.eq_dec E 0) as [->|HE0].
    + rewrite Z.mul_0_l. cbn [Z.ltb Z.compare]. rewrite !powm_0_r. rewrite powm_mod by lia. rewrite powm_1_l by lia. reflexivity.
    + destruct (Z.ltb_spec (E * k) 0) as [H|H]; [|nia].
      rewrite powm_powm by lia. f_equal. ring.
  - destruct (Z.ltb_spec (E * k) 0) as [H|H]; [nia|].
    rewrite powm_powm by lia. reflexivity.
Qed.

Lemma go_exp_spw b bi e : go_modinverse b n = Some bi -> go_exp b e n = Some (spw n b bi e).
Proof.
  intros Hi. unfold go_exp, spw. rewrite Hi. destruct (e <? 0); now rewrite powx_powm by lia.
Qed.

Lemma inv_unit b bi : go_modinverse b n = Some bi -> mulm n b bi = 1.
Proof. intros H. apply go_modinverse_sound in H; [|lia]. destruct H as [H _]. rewrite H. apply Z.mod_small. lia. Qed.

Lemma inv_unique x y z : mulm n x y = 1 -> mulm n x z = 1 -> 0 <= y < n -> 0 <= z < n -> y = z.
Proof.
  intros H1 H2 Hy Hz.
  assert (E : mulm n y (mulm n x z) = mulm n z (mulm n x y)).
  { rewrite <- !mulm_assoc by lia. rewrite (mulm_comm n y x), (mulm_comm n z x).
    rewrite !mulm_assoc by lia. f_equal. apply mulm_comm. }
  rewrite H1, H2 in E. rewrite !mulm_1_r in E. rewrite !Z.mod_small in E by lia. exact E.
Qed.

(* the algebraic core: from u^e = nu_old, nu_new^prod = nu_old and a*e + b*prod = 1 the new witness
   u^b * nu_new^a satisfies u'^e = nu_new *)
Lemma bezout_witness u ui nun nuni e prod a b nuo :
  mulm n u ui = 1 -> mulm n nun nuni = 1 -> 0 <= e -> 0 <= prod -> 0 <= nun < n ->
  powm n u e = nuo -> powm n nun prod = nuo -> e * a + prod * b = 1 ->
  powm n ((spw n u ui b * spw n nun nuni a) mod n) e = nun.
Proof.
  intros Hu Hnu He Hp Hnun Hue Hnp Hbez.
  change ((spw n u ui b * spw n nun nuni a) mod n) with (mulm n (spw n u ui b) (spw n nun nuni a)).
  rewrite powm_mulm by lia.
  rewrite <- !(spw_mul_nonneg n Hn) by lia.
  (* u^(e*b) = nuo^b = nun^(prod*b) *)
  assert (E1 : spw n u ui (e * b) = spw n nun nuni (prod * b)).
  { rewrite <- (spw_pow_base u ui e b Hu He). rewrite <- (spw_pow_base nun nuni prod b Hnu Hp).
    rewrite Hue, Hnp.
    (* the two inverses of nuo coincide in their effect: both are inverses of nuo *)
    unfold spw. destruct (b <? 0); [|reflexivity].
    assert (I1 : mulm n nuo (powm n ui e) = 1).
    { rewrite <- Hue. rewrite <- powm_mulm by lia. rewrite Hu. rewrite powm_1_l by lia. apply Z.mod_small. lia. }
    assert (I2 : mulm n nuo (powm n nuni prod) = 1).
    { rewrite <- Hnp. rewrite <- powm_mulm by lia. rewrite Hnu. rewrite powm_1_l by lia. apply Z.mod_small. lia. }
    assert (Eq : powm n ui e = powm n nuni prod) by (apply (inv_unique nuo); try assumption; apply powm_range; lia).
    now rewrite Eq. }
  rewrite E1. rewrite <- (spw_add n Hn nun nuni Hnu).
  replace (prod * b + e * a) with 1 by lia.
  unfold spw. cbn [Z.ltb Z.compare]. unfold powm. rewrite Z.pow_1_r. apply Z.mod_small. lia.
Qed.


(* Completeness of Witness.Update: an authentic update that starts no later than the witness' next index, whose
   events' product is coprime to the witness' value e (the value was not removed) and whose accumulator is the
   old one with those values removed (nu_new^prod = nu_old), brings a valid witness to the new accumulator. *)
Theorem witness_update_complete_lem w u newAcc first rest prod u' ui nuni :
  update_verify u = Ok newAcc ->
  up_events u = first :: rest ->
  ra_Index (w_acc w) < ra_Index newAcc ->
  ev_index first <= u64 (ra_Index (w_acc w) + 1) ->
  update_product u (u64 (ra_Index (w_acc w) + 1)) = Ok (prod, u') ->
  0 <= w_E w -> 0 <= prod -> Z.gcd (w_E w) prod = 1 ->
  go_modinverse (w_U w) n = Some ui -> go_modinverse (ra_Nu newAcc) n = Some nuni ->
  0 <= ra_Nu newAcc < n ->
  powm n (w_U w) (w_E w) = ra_Nu (w_acc w) ->            (* the witness is valid for its accumulator *)
  powm n (ra_Nu newAcc) prod = ra_Nu (w_acc w) ->        (* the new accumulator is the old one with the events' values removed *)
  exists newU, witness_update n w u = (UpdOk, mkW newU (w_E w) newAcc, u') /\
               powm n newU (w_E w) = ra_Nu newAcc.
Proof.
  intros Hv Hev Hidx Hstart Hprod He Hp Hgcd Hui Hnui Hnur Hval Hchain.
  unfold witness_update. rewrite Hv, Hev.
  destruct (Z.eqb_spec (ra_Index newAcc) (ra_Index (w_acc w))) as [E|_]; [lia|].
  destruct (Z.leb_spec (ra_Index newAcc) (ra_Index (w_acc w))); [lia|].
  destruct (Z.ltb_spec (u64 (ra_Index (w_acc w) + 1)) (ev_index first)); [lia|].
  rewrite Hprod.
  destruct (xgcd (w_E w) prod) as [[g a] b] eqn:Ex.
  pose proof (xgcd_bezout _ _ _ _ _ Ex) as Hbez.
  pose proof (xgcd_gcd (w_E w) prod He Hp) as Hg. rewrite Ex in Hg. cbn [fst] in Hg. rewrite Hgcd in Hg. rewrite Hg in *. clear Hg.
  cbn [Z.eqb Pos.eqb negb]. unfold spow_exp.
  rewrite (go_exp_spw (w_U w) ui b Hui), (go_exp_spw (ra_Nu newAcc) nuni a Hnui).
  set (newU := (spw n (w_U w) ui b * spw n (ra_Nu newAcc) nuni a) mod n).
  assert (Hnew : powm n newU (w_E w) = ra_Nu newAcc).
  { unfold newU. apply (bezout_witness (w_U w) ui (ra_Nu newAcc) nuni (w_E w) prod a b (ra_Nu (w_acc w)));
      try assumption; try (now apply inv_unit). }
  exists newU. rewrite powx_powm by lia. rewrite Hnew. rewrite Z.eqb_refl. cbn [negb]. auto.
Qed.

End Upd.
