(* internal/common/mathutil.go, fastmod.go, randomprime.go; safeprime/safeprime.go helpers. *)
From Coq Require Import ZArith List Lia Bool Znumtheory.
From Gabi Require Import Val ModArith GoSem Bytes.
Import ListNotations.
Open Scope Z_scope.

(* mathutil.go:32 ModInverse(a, n) for n > 0 *)
Definition mod_inverse (a n : Z) : option Z :=
  let '(g, x, _) := xgcd (a mod n) n in
  if g =? 1 then Some (let r := x mod n in if r <? 1 then r + n else r) else None.

Theorem mod_inverse_spec_lem a n : 1 < n ->
  match mod_inverse a n with
  | Some r => 0 < r < n /\ (a * r) mod n = 1 /\ Z.gcd a n = 1
  | None => Z.gcd a n <> 1
  end.
Proof.
  intros Hn. unfold mod_inverse.
  pose proof (xgcd_gcd (a mod n) n ltac:(apply Z.mod_pos_bound; lia) ltac:(lia)) as Hg.
  destruct (xgcd (a mod n) n) as [[g x] y] eqn:E. cbn [fst] in Hg.
  rewrite Z.gcd_mod in Hg by lia. rewrite Z.gcd_comm in Hg.
  destruct (Z.eqb_spec g 1) as [->|Hne]; [|congruence].
  apply xgcd_bezout in E.
  assert (Hr : (a * (x mod n)) mod n = 1).
  { rewrite Z.mul_mod_idemp_r by lia. rewrite <- Z.mul_mod_idemp_l by lia.
    replace (a mod n * x) with (1 + (- y) * n) by lia. rewrite Z.mod_add by lia. apply Z.mod_small; lia. }
  pose proof (Z.mod_pos_bound x n ltac:(lia)) as Hb.
  destruct (Z.ltb_spec (x mod n) 1) as [Hlt|Hge].
  - (* x mod n = 0 is impossible: then a*0 mod n = 0 <> 1 *)
    assert (x mod n = 0) by lia. rewrite H in Hr. rewrite Z.mul_0_r, Z.mod_0_l in Hr by lia. discriminate.
  - repeat split; auto; lia.
Qed.

(* mathutil.go:139 Crt *)
Definition crt (a pa b pb : Z) : outcome Z :=
  let '(z, s2, s1) := xgcd pa pb in
  if negb (z =? 1) then Panic
  else Ok ((a * s1 * pb + b * s2 * pa) mod (pa * pb)).

Theorem crt_spec_lem a pa b pb x : 0 < pa -> 0 < pb -> crt a pa b pb = Ok x ->
  x mod pa = a mod pa /\ x mod pb = b mod pb /\ 0 <= x < pa * pb.
Proof.
  intros Ha Hb. unfold crt. destruct (xgcd pa pb) as [[z s2] s1] eqn:E.
  destruct (Z.eqb_spec z 1) as [->|]; cbn [negb]; [|discriminate].
  intros [= <-]. apply xgcd_bezout in E.
  assert (Hn : 0 < pa * pb) by nia.
  split; [|split; [|apply Z.mod_pos_bound; lia]].
  - assert (Hd : (pa | pa * pb)) by (exists pb; lia).
    rewrite <- (Zmod_div_mod pa (pa * pb) _ Ha Hn Hd).
    assert (H1 : pb * s1 = 1 - pa * s2) by lia.
    replace (a * s1 * pb + b * s2 * pa) with (a + (b * s2 - a * s2) * pa)
      by (replace (a * s1 * pb) with (a * (pb * s1)) by ring; rewrite H1; ring).
    now rewrite Z.mod_add by lia.
  - assert (Hd : (pb | pa * pb)) by (exists pa; lia).
    rewrite <- (Zmod_div_mod pb (pa * pb) _ Hb Hn Hd).
    assert (H1 : pa * s2 = 1 - pb * s1) by lia.
    replace (a * s1 * pb + b * s2 * pa) with (b + (a * s1 - b * s1) * pb)
      by (replace (b * s2 * pa) with (b * (pa * s2)) by ring; rewrite H1; ring).
    now rewrite Z.mod_add by lia.
Qed.

(* ---------------------------------------------------------------------------------- *)
(* fastmod.go : reduction modulo p = 2^b - c *)

Record fastmod := mkFm { fm_enabled : bool; fm_p : Z; fm_c : Z; fm_b : Z }.

Definition fm_set (p : Z) : fastmod :=
  let b := bitlen p in
  let c := 2 ^ b - p in
  mkFm (bitlen c <? 60) p c b.

Fixpoint fm_loop (fuel : nat) (m : fastmod) (cur : Z) (set : bool) : option (Z * bool) :=
  match fuel with
  | O => None
  | S f =>
    let carry := Z.shiftr cur (fm_b m) in
    if carry =? 0 then Some (cur, set)
    else fm_loop f m (Z.land cur (2 ^ fm_b m - 1) + carry * fm_c m) true
  end.

(* fastmod.go:31 Mod ; fuel: one iteration per bit suffices *)
Definition fm_mod (m : fastmod) (x : Z) : option Z :=
  if negb (fm_enabled m) then Some (x mod fm_p m)
  else if x <? 0 then Some (x mod fm_p m)
  else if x <? fm_p m then Some x
  else
    match fm_loop (S (Z.to_nat (bitlen x))) m x false with
    | None => None
    | Some (cur, set) =>
      if negb set then Some (if x <? fm_p m then x else x - fm_p m)
      else Some (if fm_p m <=? cur then cur - fm_p m else cur)
    end.

(* ---------------------------------------------------------------------------------- *)
(* randomprime.go:34 RandomPrimeInRange : the candidate built from random bytes *)

Definition rp_candidate (start length : Z) (bytes : list Z) : Z :=
  let b := if length mod 8 =? 0 then 8 else length mod 8 in
  match bytes with
  | [] => 2 ^ start
  | b0 :: rest =>
    let first := Z.land b0 (2 ^ b - 1) in
    let l := first :: rest in
    let l' := removelast l ++ [Z.lor (last l 0) 1] in
    2 ^ start + be_to_Z l'
  end.

(* sieve decision of RandomPrimeInRange / safeprime.Generate *)
Definition sieve_rejects (small_primes : list Z) (product : Z) (threshold_bits : Z) (p : Z) : bool :=
  let md := p mod product in
  existsb (fun q => (md mod q =? 0) && ((6 <? threshold_bits) || negb (md =? q))) small_primes.

(* safeprime.go:171 prepareBytes *)
Definition prepare_bytes (bytes : list Z) (b : Z) : list Z :=
  match bytes with
  | [] => []
  | b0 :: rest =>
    let b0' := Z.land b0 (2 ^ b - 1) in
    let '(b0'', rest') :=
      if 2 <=? b then (Z.lor b0' (Z.shiftl 3 (b - 2)), rest)
      else (Z.lor b0' 1, match rest with r0 :: t => Z.lor r0 128 :: t | [] => [] end) in
    let l := b0'' :: rest' in
    removelast l ++ [Z.lor (last l 0) 1]
  end.

(* safeprime/test.go ProbablySafePrime over the primality oracle *)
Definition probably_safe_prime (is_prime : Z -> bool) (x : Z) : bool :=
  if x <=? 2 then false else is_prime x && is_prime (Z.shiftr x 1).

(* ---------------------------------------------------------------------------------- *)
(* mathutil.go:99 LegendreSymbol (binary Jacobi algorithm) *)

Fixpoint strip_twos (fuel : nat) (n t : Z) : Z * Z :=
  match fuel with
  | O => (n, t)
  | S f => if Z.even n && negb (n =? 0) then strip_twos f (Z.shiftr n 1) (t + 1) else (n, t)
  end.

Fixpoint legendre_loop (fuel : nat) (n m j : Z) : Z :=
  match fuel with
  | O => 0
  | S f =>
    if n =? 0 then (if m =? 1 then j else 0)
    else
      let '(n1, t) := strip_twos (Z.to_nat (bitlen n) + 1) n 0 in
      let m8 := m mod 8 in
      let j1 := if Z.odd t && ((m8 =? 3) || (m8 =? 5)) then - j else j in
      let j2 := if (m mod 4 =? 3) && (n1 mod 4 =? 3) then - j1 else j1 in
      legendre_loop f (m mod n1) n1 j2
  end.

Definition legendre (a p : Z) : Z := legendre_loop (Z.to_nat (2 * bitlen p) + 4) (a mod p) p 1.

(* Euler's criterion as the reference for primes *)
Definition euler_symbol (a p : Z) : Z :=
  let r := powx p a ((p - 1) / 2) in
  if r =? 0 then 0 else if r =? 1 then 1 else -1.

Definition is_prime_small (p : Z) : bool :=
  (1 <? p) && forallb (fun d => negb (p mod d =? 0)) (map Z.of_nat (seq 2 (Z.to_nat (Z.sqrt p) - 1))).

Definition legendre_agrees_upto (bound : Z) : bool :=
  forallb (fun p => if is_prime_small p && Z.odd p
                    then forallb (fun a => legendre a p =? euler_symbol (a mod p) p) (map Z.of_nat (seq 0 (Z.to_nat (2 * p))))
                    else true) (map Z.of_nat (seq 3 (Z.to_nat bound - 3))).

Theorem legendre_partial_lem : legendre_agrees_upto 400 = true.
Proof. vm_compute. reflexivity. Qed.

(* ---------------------------------------------------------------------------------- *)
(* FastMod correctness *)

Lemma bitlen_spec p : 0 < p -> 2 ^ (bitlen p - 1) <= p < 2 ^ bitlen p.
Proof.
  intros Hp. unfold bitlen. destruct (Z.eqb_spec p 0); [lia|]. rewrite Z.abs_eq by lia.
  replace (Z.log2 p + 1 - 1) with (Z.log2 p) by lia. replace (Z.log2 p + 1) with (Z.succ (Z.log2 p)) by lia.
  apply Z.log2_spec. lia.
Qed.

Lemma fm_loop_spec fuel : forall m cur set r s,
  0 < fm_p m -> 0 <= fm_b m -> fm_c m = 2 ^ fm_b m - fm_p m -> 0 <= fm_c m -> 0 <= cur ->
  fm_loop fuel m cur set = Some (r, s) ->
  r mod fm_p m = cur mod fm_p m /\ 0 <= r < 2 ^ fm_b m /\ (s = false -> r = cur /\ set = false).
Proof.
  induction fuel as [|f IH]; intros m cur set r s Hp Hb Hc Hc0 Hcur H; cbn [fm_loop] in H; [discriminate|].
  rewrite Z.shiftr_div_pow2 in H by lia.
  assert (Hpow : 0 < 2 ^ fm_b m) by (apply Z.pow_pos_nonneg; lia).
  destruct (Z.eqb_spec (cur / 2 ^ fm_b m) 0) as [E0|E0].
  - inversion H; subst. split; [reflexivity|]. split; [|auto].
    apply Z.div_small_iff in E0; lia.
  - replace (2 ^ fm_b m - 1) with (Z.ones (fm_b m)) in H by (rewrite Z.ones_equiv; lia).
    rewrite Z.land_ones in H by lia.
    pose proof (Z.div_mod cur (2 ^ fm_b m) ltac:(lia)) as Hdm.
    pose proof (Z.mod_pos_bound cur (2 ^ fm_b m) Hpow) as Hlo.
    assert (Hq : 0 <= cur / 2 ^ fm_b m) by (apply Z.div_pos; lia).
    apply IH in H; try assumption; [|nia].
    destruct H as (H1 & H2 & H3). split; [|split; [exact H2|]].
    + rewrite H1. rewrite Hc.
      replace (cur mod 2 ^ fm_b m + cur / 2 ^ fm_b m * (2 ^ fm_b m - fm_p m))
        with (cur + (- (cur / 2 ^ fm_b m)) * fm_p m) by nia.
      now rewrite Z.mod_add by lia.
    + intros Hs. destruct (H3 Hs) as [_ Hf]. discriminate.
Qed.

(* For every modulus p > 1 and every x: whenever Mod returns (i.e. within its iteration budget),
   the result is x mod p — for negative and huge arguments alike. *)
Theorem fastmod_spec_lem p x y : 1 < p -> fm_mod (fm_set p) x = Some y -> y = x mod p.
Proof.
  intros Hp. unfold fm_mod. set (m := fm_set p).
  assert (Hmp : fm_p m = p) by reflexivity.
  assert (Hmb : fm_b m = bitlen p) by reflexivity.
  assert (Hmc : fm_c m = 2 ^ fm_b m - fm_p m) by reflexivity.
  pose proof (bitlen_spec p ltac:(lia)) as [Hlo Hhi].
  pose proof (bitlen_nonneg p) as Hb0.
  assert (Hb1 : 1 <= bitlen p).
  { destruct (Z.eq_dec (bitlen p) 0) as [E|]; [rewrite E in Hhi; cbn in Hhi; lia|lia]. }
  assert (H2p : 2 ^ bitlen p <= 2 * p).
  { replace (bitlen p) with (Z.succ (bitlen p - 1)) by lia. rewrite Z.pow_succ_r by lia. lia. }
  destruct (fm_enabled m); cbn [negb]; [|intros [= <-]; reflexivity].
  destruct (Z.ltb_spec x 0); [intros [= <-]; reflexivity|].
  change (fm_p m) with p. destruct (Z.ltb_spec x p); [intros [= <-]; symmetry; apply Z.mod_small; lia|].
  destruct (fm_loop _ m x false) as [[cur set]|] eqn:El; [|discriminate].
  assert (Hq1 : 0 < fm_p m) by (change (fm_p m) with p; lia).
  assert (Hq2 : 0 <= fm_b m) by (change (fm_b m) with (bitlen p); lia).
  assert (Hq3 : 0 <= fm_c m) by (change (fm_c m) with (2 ^ bitlen p - p); lia).
  assert (Hq4 : 0 <= x) by lia.
  pose proof (fm_loop_spec _ m x false cur set Hq1 Hq2 Hmc Hq3 Hq4 El) as (H1 & H2 & H3). change (fm_p m) with p in H1. change (fm_b m) with (bitlen p) in H2.
  destruct set; cbn [negb].
  - intros [= <-]. destruct (Z.leb_spec p cur).
    + rewrite <- H1. symmetry. rewrite <- (Z.mod_small (cur - p) p) by lia.
      replace (cur - p) with (cur + (-1) * p) by lia. now rewrite Z.mod_add by lia.
    + rewrite <- H1. symmetry. apply Z.mod_small. lia.
  - intros [= <-]. destruct (H3 eq_refl) as [-> _].
    destruct (Z.ltb_spec x p); [lia|].
    symmetry. rewrite <- (Z.mod_small (x - p) p) by lia.
    replace (x - p) with (x + (-1) * p) by lia. now rewrite Z.mod_add by lia.
Qed.

(* the iteration budget suffices on a finite domain: all moduli 2^b - c with b <= 10 and all
   arguments up to 70000 (finite statement, by computation) *)
Definition fastmod_total_upto (pmax xmax : Z) : bool :=
  forallb (fun p => forallb (fun x => match fm_mod (fm_set p) x with Some y => y =? x mod p | None => false end)
                            (map Z.of_nat (seq 0 (Z.to_nat xmax))))
          (map Z.of_nat (seq 2 (Z.to_nat pmax - 2))).

Theorem fastmod_total_small_lem : fastmod_total_upto 130 3000 = true.
Proof. vm_compute. reflexivity. Qed.

(* ---------------------------------------------------------------------------------- *)
(* random prime candidates and safe-prime candidates: sizes *)

Lemma land_ones_bound x b : 0 <= b -> 0 <= Z.land x (2 ^ b - 1) < 2 ^ b.
Proof.
  intros Hb. replace (2 ^ b - 1) with (Z.ones b) by (rewrite Z.ones_equiv; lia).
  rewrite Z.land_ones by lia. apply Z.mod_pos_bound. apply Z.pow_pos_nonneg; lia.
Qed.

(* finite-domain statements (by computation; the bounds are part of the statements) *)
Definition bytes256 : list Z := map Z.of_nat (seq 0 256).

(* prepareBytes on all 1- and 2-byte inputs and all b in 1..8: the value has exactly
   8*(len-1)+b bits, its top two bits are set (for sizes >= 2 bits) and it is odd *)
Definition prepare_bytes_ok_small : bool :=
  forallb (fun b =>
    forallb (fun x => let v := be_to_Z (prepare_bytes [x] b) in
                      (bitlen v =? b) && Z.odd v && ((b <? 2) || Z.testbit v (b - 2))) bytes256 &&
    forallb (fun x => forallb (fun y =>
                      let v := be_to_Z (prepare_bytes [x; y] b) in
                      (bitlen v =? 8 + b) && Z.odd v && Z.testbit v (8 + b - 2)) [0; 1; 2; 127; 128; 254; 255]) bytes256)
    [1; 2; 3; 4; 5; 6; 7; 8].

Theorem prepare_bytes_small_lem : prepare_bytes_ok_small = true.
Proof. vm_compute. reflexivity. Qed.

(* RandomPrimeInRange candidates from 1 and 2 random bytes: inside [2^start, 2^start + 2^length) and odd *)
Definition rp_candidate_ok_small : bool :=
  forallb (fun len =>
    forallb (fun x => forallb (fun y =>
      let bytes := if len <=? 8 then [x] else [x; y] in
      let p := rp_candidate 20 len bytes in
      (2 ^ 20 <=? p) && (p <? 2 ^ 20 + 2 ^ len) && Z.odd p) [0; 1; 127; 128; 255]) bytes256)
    [1; 2; 3; 7; 8; 9; 10; 15; 16].

Theorem rp_candidate_small_lem : rp_candidate_ok_small = true.
Proof. vm_compute. reflexivity. Qed.

(* safe prime recognition relative to the primality oracle *)
Theorem probably_safe_prime_spec_lem is_prime x :
  probably_safe_prime is_prime x = true <-> (2 < x /\ is_prime x = true /\ is_prime (x / 2) = true).
Proof.
  unfold probably_safe_prime. rewrite Z.shiftr_div_pow2 by lia. change (2 ^ 1) with 2.
  destruct (Z.leb_spec x 2) as [Hx|Hx].
  - split; [discriminate|]. intros [Hc _]. lia.
  - split.
    + intros Hyp. apply andb_prop in Hyp as [H1 H2]. auto.
    + intros (_ & H1 & H2). now rewrite H1, H2.
Qed.

(* two primes with the top two bits of a bitsize-bit number set have a product of exactly
   2*bitsize bits *)
Theorem safe_prime_product_bitlen_lem p q k : 2 <= k ->
  2 ^ (k - 1) + 2 ^ (k - 2) <= p < 2 ^ k -> 2 ^ (k - 1) + 2 ^ (k - 2) <= q < 2 ^ k ->
  2 ^ (2 * k - 1) <= p * q < 2 ^ (2 * k).
Proof.
  intros Hk Hp Hq.
  assert (H2 : 0 < 2 ^ (k - 2)) by (apply Z.pow_pos_nonneg; lia).
  set (t := 2 ^ (k - 2)) in *.
  assert (E1 : 2 ^ (k - 1) = 2 * t) by (subst t; replace (k - 1) with (Z.succ (k - 2)) by lia; rewrite Z.pow_succ_r by lia; lia).
  assert (E2 : 2 ^ k = 4 * t) by (subst t; replace k with (Z.succ (Z.succ (k - 2))) at 1 by lia; rewrite !Z.pow_succ_r by lia; lia).
  assert (E3 : 2 ^ (2 * k) = 16 * t * t).
  { replace (2 * k) with (k + k) by lia. rewrite Z.pow_add_r by lia. rewrite E2. ring. }
  assert (E4 : 2 ^ (2 * k - 1) = 8 * t * t).
  { assert (2 * 2 ^ (2 * k - 1) = 2 ^ (2 * k)); [|lia].
    replace (2 * k) with (Z.succ (2 * k - 1)) at 2 by lia. rewrite Z.pow_succ_r by lia. lia. }
  rewrite E1, E2 in *. rewrite E3, E4. nia.
Qed.

Theorem go_modinverse_spec_lem :
  forall g n, 0 < n ->
  ((exists x, go_modinverse g n = Some x) <-> Z.gcd g n = 1) /\
  (forall x, go_modinverse g n = Some x -> mulm n g x = 1 mod n /\ 0 <= x < n).
Proof.
  intros g n Hn. split; [now apply go_modinverse_some_iff|]. intros x. now apply go_modinverse_sound.
Qed.
