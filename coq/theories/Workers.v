(* safeprime/safeprime.go:19-64 GenerateConcurrent: the stop protocol of the safe-prime workers.
   A worker alternates between generating and handing its result to the buffered channel ints;
   the consumer (generateSafePrimePair) receives until it has a pair, closes stop and leaves. *)
From Coq Require Import List Lia Bool Arith.
Import ListNotations.

Inductive wst :=
| Gen        (* inside Generate *)
| Send       (* at the select, result in hand *)
| Blocked    (* legacy protocol only: committed to the plain send in the default branch *)
| Done.

Record pstate := mkP { buf : nat; cap : nat; stopped : bool; ws : list wst }.

Inductive action :=
| AFound (i : nat)      (* Generate of worker i returns a safe prime *)
| ANoticed (i : nat)    (* Generate of worker i polls stopped (every 1000 iterations) and returns nil *)
| ASelect (i : nat)     (* worker i executes its select *)
| ARecv                 (* the consumer receives one value *)
| AStop.                (* the consumer closes stop (and never receives again) *)

Fixpoint set_nth (i : nat) (x : wst) (l : list wst) : list wst :=
  match l, i with
  | [], _ => []
  | _ :: r, O => x :: r
  | y :: r, S j => y :: set_nth j x r
  end.

(* legacy = true is the protocol before the repair: select { case <-stopped: return; default: ints <- x } *)
Definition pstep (legacy : bool) (s : pstate) (a : action) : option pstate :=
  match a with
  | AFound i =>
    match nth_error (ws s) i with
    | Some Gen => Some (mkP (buf s) (cap s) (stopped s) (set_nth i Send (ws s)))
    | _ => None
    end
  | ANoticed i =>
    match nth_error (ws s) i with
    | Some Gen => if stopped s then Some (mkP (buf s) (cap s) true (set_nth i (if legacy then Send else Done) (ws s))) else None
    | _ => None
    end
  | ASelect i =>
    match nth_error (ws s) i with
    | Some Send =>
      if stopped s then Some (mkP (buf s) (cap s) true (set_nth i Done (ws s)))
      else if legacy then Some (mkP (buf s) (cap s) false (set_nth i Blocked (ws s)))
      else if buf s <? cap s then Some (mkP (S (buf s)) (cap s) false (set_nth i Gen (ws s)))
      else None   (* waits: neither case is ready *)
    | Some Blocked =>
      if buf s <? cap s then Some (mkP (S (buf s)) (cap s) (stopped s) (set_nth i Gen (ws s))) else None
    | _ => None
    end
  | ARecv => if stopped s then None else match buf s with O => None | S b => Some (mkP b (cap s) false (ws s)) end
  | AStop => if stopped s then None else Some (mkP (buf s) (cap s) true (ws s))
  end.

Definition pinit (n : nat) : pstate := mkP 0 n false (repeat Gen n).

Fixpoint prun (legacy : bool) (s : pstate) (l : list action) : option pstate :=
  match l with
  | [] => Some s
  | a :: r => match pstep legacy s a with Some s' => prun legacy s' r | None => None end
  end.

(* a worker that has not finished can move *)
Definition can_move (legacy : bool) (s : pstate) (i : nat) : bool :=
  match pstep legacy s (AFound i), pstep legacy s (ANoticed i), pstep legacy s (ASelect i) with
  | None, None, None => false
  | _, _, _ => true
  end.

Definition weight (w : wst) : nat := match w with Gen => 2 | Send => 1 | Blocked => 1 | Done => 0 end.
Fixpoint weights (l : list wst) : nat := match l with [] => 0 | w :: r => weight w + weights r end.
Definition measure (s : pstate) : nat := 2 * (cap s - buf s) + weights (ws s).

Lemma weights_set_nth l : forall i w old, nth_error l i = Some old ->
  weights (set_nth i w l) + weight old = weights l + weight w.
Proof.
  induction l as [|y r IH]; intros i w old H.
  - destruct i; discriminate.
  - destruct i as [|j]; cbn in H |- *.
    + inversion H; subst. lia.
    + specialize (IH j w old H). lia.
Qed.

(* repaired protocol: once stop is closed, every unfinished worker can move ... *)
Theorem no_worker_stuck_lem s i w :
  stopped s = true -> nth_error (ws s) i = Some w -> w <> Done -> w <> Blocked -> can_move false s i = true.
Proof.
  intros Hs Hn Hd Hb. unfold can_move, pstep. rewrite Hn, Hs. destruct w; try contradiction; reflexivity.
Qed.

(* ... and every move of a worker brings the system strictly closer to "all workers done" *)
Theorem worker_progress_lem s s' a :
  stopped s = true -> buf s <= cap s ->
  pstep false s a = Some s' ->
  stopped s' = true /\ buf s' <= cap s' /\ measure s' < measure s.
Proof.
  intros Hs Hb H. destruct a as [i|i|i| |]; cbn [pstep] in H; rewrite ?Hs in H; try discriminate.
  - destruct (nth_error (ws s) i) as [[| | |]|] eqn:En; try discriminate. inversion H; subst s'. cbn.
    pose proof (weights_set_nth _ i Send Gen En). cbn [weight] in *. unfold measure. cbn. repeat split; try assumption; lia.
  - destruct (nth_error (ws s) i) as [[| | |]|] eqn:En; try discriminate. inversion H; subst s'. cbn.
    pose proof (weights_set_nth _ i Done Gen En). cbn [weight] in *. unfold measure. cbn. repeat split; try assumption; lia.
  - destruct (nth_error (ws s) i) as [[| | |]|] eqn:En; try discriminate.
    + inversion H; subst s'. cbn. pose proof (weights_set_nth _ i Done Send En). cbn [weight] in *. unfold measure. cbn. repeat split; try assumption; lia.
    + destruct (Nat.ltb_spec (buf s) (cap s)); [|discriminate]. inversion H; subst s'. cbn.
      pose proof (weights_set_nth _ i Gen Blocked En). cbn [weight] in *. unfold measure. cbn. repeat split; try assumption; lia.
Qed.

(* the repaired protocol never enters Blocked *)
Theorem never_blocked_lem : forall l s s', ~ In Blocked (ws s) -> prun false s l = Some s' -> ~ In Blocked (ws s').
Proof.
  assert (Hset : forall l i w, w <> Blocked -> ~ In Blocked l -> ~ In Blocked (set_nth i w l)).
  { induction l as [|y r IH]; intros i w Hw Hn; [destruct i; exact Hn|].
    destruct i as [|j]; cbn.
    - intros [E|E]; [now apply Hw|]. apply Hn. now right.
    - intros [E|E]; [apply Hn; now left|]. revert E. apply IH; [exact Hw|]. intros E. apply Hn. now right. }
  induction l as [|a r IH]; intros s s' Hn H; cbn in H.
  - inversion H; subst. exact Hn.
  - destruct (pstep false s a) as [s1|] eqn:Es; [|discriminate]. apply (IH s1 s'); [|exact H].
    destruct a as [i|i|i| |]; cbn [pstep] in Es.
    + destruct (nth_error (ws s) i) as [[| | |]|]; try discriminate. inversion Es; subst. cbn [ws]. apply Hset; [discriminate|exact Hn].
    + destruct (nth_error (ws s) i) as [[| | |]|]; try discriminate. destruct (stopped s); [|discriminate]. inversion Es; subst. cbn [ws]. apply Hset; [discriminate|exact Hn].
    + destruct (nth_error (ws s) i) as [[| | |]|]; try discriminate.
      * destruct (stopped s); [inversion Es; subst; cbn [ws]; apply Hset; [discriminate|exact Hn]|]. cbv iota in Es.
        destruct (buf s <? cap s); [|discriminate]. inversion Es; subst. cbn [ws]. apply Hset; [discriminate|exact Hn].
      * destruct (buf s <? cap s); [|discriminate]. inversion Es; subst. cbn [ws]. apply Hset; [discriminate|exact Hn].
    + destruct (stopped s); [discriminate|]. destruct (buf s); [discriminate|]. inversion Es; subst. exact Hn.
    + destruct (stopped s); [discriminate|]. inversion Es; subst. exact Hn.
Qed.

(* the protocol before the repair: two workers, both fill the buffer, a third value is being sent
   from the default branch when the consumer stops: that worker can never move again *)
Theorem legacy_leaks :
  exists l s, prun true (pinit 2) l = Some s /\ stopped s = true /\
              nth_error (ws s) 0 = Some Blocked /\ can_move true s 0 = false.
Proof.
  exists [AFound 0; ASelect 0; ASelect 0; AFound 1; ASelect 1; ASelect 1; AFound 0; ASelect 0; AStop].
  eexists. split; [vm_compute; reflexivity|]. vm_compute. repeat split.
Qed.
