(* gabikeys.PublicKey as the protocol code sees it. *)
From Coq Require Import ZArith List Lia Bool.
From Gabi Require Import Val ModArith GoSem ParamsDef ZkProof.
Import ListNotations.
Open Scope Z_scope.

Record pubkey := mkPk {
  pk_N : Z; pk_Z : Z; pk_S : Z; pk_G : option Z; pk_H : option Z;
  pk_R : list Z; pk_params : sysparams; pk_counter : Z; pk_has_ecdsa : bool
}.

(* gabikeys/keys.go:526 PublicKey.Base *)
Definition pk_base (pk : pubkey) (b : bname) : option Z :=
  match b with
  | BZ => Some (pk_Z pk)
  | BS => Some (pk_S pk)
  | BG => pk_G pk
  | BH => pk_H pk
  | BR i => if (0 <=? i) && (i <? Z.of_nat (length (pk_R pk))) then Some (nth (Z.to_nat i) (pk_R pk) 0) else None
  | _ => None
  end.

(* A well-formed public key: what "given well-formed public keys" means in C08 *)
Definition unit_mod (n x : Z) : Prop := 0 < x < n /\ Z.gcd x n = 1.
Definition wf_pk (pk : pubkey) : Prop :=
  1 < pk_N pk /\ unit_mod (pk_N pk) (pk_Z pk) /\ unit_mod (pk_N pk) (pk_S pk) /\
  Forall (unit_mod (pk_N pk)) (pk_R pk) /\
  (forall g, pk_G pk = Some g -> unit_mod (pk_N pk) g) /\
  (forall h, pk_H pk = Some h -> unit_mod (pk_N pk) h) /\
  (1 <= length (pk_R pk))%nat.

Definition unit_modb (n x : Z) : bool := (0 <? x) && (x <? n) && (Z.gcd x n =? 1).
Definition wf_pkb (pk : pubkey) : bool :=
  (1 <? pk_N pk) && unit_modb (pk_N pk) (pk_Z pk) && unit_modb (pk_N pk) (pk_S pk) &&
  forallb (unit_modb (pk_N pk)) (pk_R pk) &&
  match pk_G pk with Some g => unit_modb (pk_N pk) g | None => true end &&
  match pk_H pk with Some h => unit_modb (pk_N pk) h | None => true end &&
  (1 <=? Z.of_nat (length (pk_R pk))).

(* wire decoding: (N Z S G H (R...) (params...) counter has_ecdsa) *)
Definition as_params (v : val) : option sysparams :=
  match as_LZ v with
  | Some [ln; lm; lh; lz; lep; le; lec; lmc; lra; lsc; lv; lvc; lvp; lvpc] =>
    Some (mkParams ln lm lh lz lep le lec lmc lra lsc lv lvc lvp lvpc)
  | _ => None
  end.

Definition as_pk (v : val) : option pubkey :=
  match v with
  | VL [n; z; s; g; h; r; ps; c; e] =>
    do n <- as_Z n; do z <- as_Z z; do s <- as_Z s; do g <- as_oZ g; do h <- as_oZ h;
    do r <- as_LZ r; do ps <- as_params ps; do c <- as_Z c; do e <- as_bool e;
    Some (mkPk n z s g h r ps c e)
  | _ => None
  end.
