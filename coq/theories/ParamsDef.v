(* Record of system parameters (gabikeys/sysparams.go); the values are regenerated from
   the repository into gen/Consts.v on every run. *)
From Coq Require Import ZArith List.
Open Scope Z_scope.

Record sysparams := mkParams {
  Ln : Z; Lm : Z; Lh : Z; Lstatzk : Z; LePrime : Z;
  Le : Z; LeCommit : Z; LmCommit : Z; LRA : Z; LsCommit : Z;
  Lv : Z; LvCommit : Z; LvPrime : Z; LvPrimeCommit : Z
}.

(* gabikeys/sysparams.go:87 MakeDerivedParameters *)
Definition derive (ln lm lh lstatzk leprime : Z) : sysparams :=
  let lv := ln + 2 * lstatzk + lh + lm + 4 in
  mkParams ln lm lh lstatzk leprime
    (lstatzk + lh + lm + 5)
    (leprime + lstatzk + lh)
    (lm + lstatzk + lh)
    (ln + lstatzk)
    (lm + lstatzk + lh + 1)
    lv
    (lv + lstatzk + lh)
    (ln + lstatzk)
    (ln + 2 * lstatzk + lh).

Definition params_to_list (p : sysparams) : list Z :=
  (Ln p :: Lm p :: Lh p :: Lstatzk p :: LePrime p :: Le p :: LeCommit p :: LmCommit p :: LRA p ::
   LsCommit p :: Lv p :: LvCommit p :: LvPrime p :: LvPrimeCommit p :: nil)%list.
