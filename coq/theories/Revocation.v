(* revocation/api.go + revocation/proof.go : accumulator, hash-chained events, update messages,
   witness update with its product cache. *)
From Coq Require Import ZArith List Lia Bool.
From Gabi Require Import Val ModArith GoSem Bytes Sha256 NonRev CL.
Import ListNotations.
Open Scope Z_scope.

(* ---------------------------------------------------------------------------------- *)
(* hashes *)

Definition mh_sha256 (data : list Z) : list Z := 18 :: 32 :: sha256 data.

(* go-multihash Decode + the whitelist of api.go:checkHashAlg, for what can occur here:
   one-byte code and length (values below 128); longer varints cannot be SHA2-256 *)
Definition hash_algorithm (h : list Z) : outcome Z :=
  match h with
  | code :: len :: digest =>
    if (code <? 128) && (len <? 128) then
      if negb (Z.of_nat (length digest) =? len) then Err
      else if code =? 18 then Ok 18 else Err
    else Err   (* multi-byte varint: some other code or an inconsistent length *)
  | _ => Err
  end.

Fixpoint list_eqb (a b : list Z) : bool :=
  match a, b with
  | [], [] => true
  | x :: r, y :: t => (x =? y) && list_eqb r t
  | _, _ => false
  end.

(* the comparison Hash.Equal performed before it was repaired: loops over [a], stops when [b]
   is exhausted (kept for the refutation lemma below) *)
Fixpoint prefix_eqb (a b : list Z) : bool :=
  match a, b with
  | [], _ => true
  | _ :: _, [] => true
  | x :: r, y :: t => (x =? y) && prefix_eqb r t
  end.
Definition hash_equal (a b : list Z) : bool := list_eqb a b.

Record event := mkEv { ev_index : Z; ev_e : option Z; ev_parent : list Z }.

(* api.go:521 hashBytes *)
Definition event_hash_bytes (e : event) : outcome (list Z) :=
  let! x := deref (ev_e e) in
  Ok (be_fixed 8 (ev_index e) ++ ev_parent e ++ be_bytes x).

Definition event_hash (e : event) : outcome (list Z) :=
  let! b := event_hash_bytes e in Ok (mh_sha256 b).

(* api.go:541 hashEquals *)
Definition hash_equals (e : event) (h : list Z) : outcome unit :=
  let! _ := hash_algorithm h in
  let! ours := event_hash e in
  if hash_equal ours h then Ok tt else Err.

(* ---------------------------------------------------------------------------------- *)
(* api.go:461 EventList.Verify (fresh list: verified = false) against the accumulator's
   event hash *)

Fixpoint chain_ok (prev : event) (rest : list event) (expected_index : Z) : outcome unit :=
  match rest with
  | [] => Ok tt
  | ev :: r =>
    let! _ := hash_equals prev (ev_parent ev) in
    if negb (u64 expected_index =? ev_index ev) then Err
    else chain_ok ev r (expected_index + 1)
  end.

Definition last_event (l : list event) : option event := last (map Some l) None.

Definition events_verify (events : list event) (acc_event_hash : list Z) : outcome unit :=
  match events with
  | [] => Ok tt
  | first :: rest =>
    if negb (forallb (fun ev => is_some (ev_e ev)) events) then Err
    else
    let! _ := hash_algorithm (ev_parent first) in
    let! lst := deref (last_event events) in
    let! _ := hash_equals lst acc_event_hash in
    (* i = 0 : only the index check startIndex + 0 = startIndex, always true *)
    chain_ok first rest (ev_index first + 1)
  end.

(* ---------------------------------------------------------------------------------- *)
(* update messages *)

Record racc := mkRacc { ra_Nu : Z; ra_Index : Z; ra_Time : Z; ra_EventHash : list Z }.

(* SignedAccumulator as far as the model sees it: the verification result (oracle) *)
Inductive sacc_v := SvNil | SvBad | SvOk (a : racc).

Record update := mkUpd { up_sacc : sacc_v; up_events : list event; up_product : option (Z * Z) (* product, start index *) }.

Definition sacc_verify (s : sacc_v) : outcome racc :=
  match s with SvNil => Err | SvBad => Err | SvOk a => Ok a end.

(* api.go:283 Update.Verify *)
Definition update_verify (u : update) : outcome racc :=
  let! acc := sacc_verify (up_sacc u) in
  let! _ := events_verify (up_events u) (ra_EventHash acc) in
  Ok acc.

Definition skipZ (n : Z) (l : list event) : list event := skipn (Z.to_nat n) l.

Fixpoint events_product (l : list event) : outcome Z :=
  match l with
  | [] => Ok 1
  | ev :: r => let! x := deref (ev_e ev) in let! p := events_product r in Ok (x * p)
  end.

(* api.go:291 Update.Product(from) : returns the product and the update with its cache *)
Definition cache_hit (c : option (Z * Z)) (from : Z) : option Z :=
  match c with
  | Some (p, f) => if f =? from then Some p else None
  | None => None
  end.

Definition update_product (u : update) (from : Z) : outcome (Z * update) :=
  match cache_hit (up_product u) from with
  | Some p => Ok (p, u)
  | None =>
    match up_events u with
    | [] => Ok (1, mkUpd (up_sacc u) (up_events u) (Some (1, from)))
    | first :: _ =>
      let off := u64 (from - ev_index first) in
      if Z.of_nat (length (up_events u)) <? off then Panic   (* slice bounds out of range *)
      else let! p := events_product (skipZ off (up_events u)) in
           Ok (p, mkUpd (up_sacc u) (up_events u) (Some (p, from)))
    end
  end.

(* ---------------------------------------------------------------------------------- *)
(* witnesses *)

Record witness := mkW { w_U : Z; w_E : Z; w_acc : racc }.

Inductive upd_result := UpdOk | UpdTooNew | UpdRevoked | UpdInvalidated | UpdVerifyErr | UpdPanic.

Definition spow_exp (n b e : Z) : option Z := go_exp b e n.

(* proof.go:266 Witness.Update ; returns result, the witness afterwards, the update afterwards *)
Definition witness_update (n : Z) (w : witness) (u : update) : upd_result * witness * update :=
  match update_verify u with
  | Panic => (UpdPanic, w, u)
  | Err => (UpdVerifyErr, w, u)
  | Ok newAcc =>
    let ourAcc := w_acc w in
    if ra_Index newAcc =? ra_Index ourAcc then
      if ra_Time newAcc <=? ra_Time ourAcc then (UpdOk, w, u)
      else (UpdOk, mkW (w_U w) (w_E w) newAcc, u)
    else
      match up_events u with
      | [] => (UpdOk, w, u)
      | first :: _ =>
        let startIndex := ev_index first in
        let endIndex := ra_Index newAcc in
        if endIndex <=? ra_Index ourAcc then (UpdOk, w, u)
        else if u64 (ra_Index ourAcc + 1) <? startIndex then (UpdTooNew, w, u)
        else
          match update_product u (u64 (ra_Index ourAcc + 1)) with
          | Panic => (UpdPanic, w, u)
          | Err => (UpdPanic, w, u)
          | Ok (prod, u') =>
            let '(g, a, b) := xgcd (w_E w) prod in
            if negb (g =? 1) then (UpdRevoked, w, u')
            else
              match spow_exp n (w_U w) b, spow_exp n (ra_Nu newAcc) a with
              | Some ub, Some na =>
                let newU := (ub * na) mod n in
                if negb (powx n newU (w_E w) =? ra_Nu newAcc) then (UpdInvalidated, w, u')
                else (UpdOk, mkW newU (w_E w) newAcc, u')
              | _, _ => (UpdPanic, w, u')
              end
          end
      end
  end.

(* ---------------------------------------------------------------------------------- *)
(* api.go:304 Update.Prepend *)

Inductive prep_result := PrepOk | PrepMissing | PrepTooNew | PrepVerifyErr | PrepPanic.

Definition update_prepend (u : update) (el_events : list event) (el_product : option Z)
  : prep_result * update :=
  match el_events with
  | [] => (PrepOk, u)
  | _ =>
    match up_events u, last_event el_events with
    | [], _ => (PrepPanic, u)                     (* update.Events[0] on an empty slice *)
    | _, None => (PrepPanic, u)
    | first :: _, Some lastEv =>
      let ours := ev_index first in
      let lst := ev_index lastEv in
      if lst <? u64 (ours - 1) then (PrepMissing, u)
      else
        let mn := u64 (1 + lst - ours) in
        if Z.of_nat (length (up_events u)) <? mn then (PrepTooNew, u)
        else
          let rest := skipZ mn (up_events u) in
          (* n.product = n.Product(n.Events[0].Index): product of all remaining events *)
          match events_product rest with
          | Panic => (PrepPanic, u)
          | Err => (PrepPanic, u)
          | Ok p =>
            let events := el_events ++ rest in
            let prod := match el_product, el_events with
                        | Some q, e0 :: _ => Some (p * q, ev_index e0)
                        | _, _ => None
                        end in
            match up_sacc u with
            | SvOk acc =>
              match events_verify events (ra_EventHash acc) with
              | Ok _ => (PrepOk, mkUpd (up_sacc u) events prod)
              | Err => (PrepVerifyErr, u)
              | Panic => (PrepPanic, u)
              end
            | _ => (PrepPanic, u)    (* cached accumulator missing: nil dereference *)
            end
          end
    end
  end.

(* ---------------------------------------------------------------------------------- *)
(* issuer side: api.go:188 Remove, proof.go:507 newWitness *)

Definition acc_remove (n order : Z) (acc : racc) (e : Z) (parent : event) (time : Z)
  : outcome (racc * event) :=
  let! einv := or_err (go_modinverse e order) in
  let! ph := event_hash parent in
  let ev := mkEv (u64 (ra_Index acc + 1)) (Some e) ph in
  let! eh := event_hash ev in
  Ok (mkRacc (powx n (ra_Nu acc) einv) (u64 (ra_Index acc + 1)) time eh, ev).

Definition new_witness (n order : Z) (acc : racc) (e : Z) : outcome witness :=
  let! einv := or_err (go_modinverse e order) in
  Ok (mkW (powx n (ra_Nu acc) einv) e acc).

Definition witness_valid (n : Z) (w : witness) (acc : racc) : bool := powx n (w_U w) (w_E w) =? ra_Nu acc.

(* ---------------------------------------------------------------------------------- *)
(* wire *)

Definition as_event (v : val) : option event :=
  match v with
  | VL [i; e; p] => do i <- as_Z i; do e <- as_oZ e; do p <- as_LZ p; Some (mkEv i e p)
  | _ => None
  end.
Definition as_events (v : val) : option (list event) := match v with VL l => map_opt as_event l | _ => None end.
Definition as_racc (v : val) : option racc :=
  match v with
  | VL [nu; i; t; h] => do nu <- as_Z nu; do i <- as_Z i; do t <- as_Z t; do h <- as_LZ h; Some (mkRacc nu i t h)
  | _ => None
  end.
Definition as_sacc_v (v : val) : option sacc_v :=
  match v with
  | VZ 0 => Some SvNil | VZ 1 => Some SvBad
  | _ => do a <- as_racc v; Some (SvOk a)
  end.
Definition as_cache (v : val) : option (option (Z * Z)) :=
  match v with
  | VN => Some None
  | VL [VZ p; VZ f] => Some (Some (p, f))
  | _ => None
  end.
Definition of_cache (c : option (Z * Z)) : val :=
  match c with Some (p, f) => VL [VZ p; VZ f] | None => VN end.
Definition as_update (v : val) : option update :=
  match v with
  | VL [s; ev; p] => do s <- as_sacc_v s; do ev <- as_events ev; do p <- as_cache p; Some (mkUpd s ev p)
  | _ => None
  end.
Definition as_witness (v : val) : option witness :=
  match v with
  | VL [u; e; a] => do u <- as_Z u; do e <- as_Z e; do a <- as_racc a; Some (mkW u e a)
  | _ => None
  end.
Definition of_racc (a : racc) : val := VL [VZ (ra_Nu a); VZ (ra_Index a); VZ (ra_Time a); of_LZ (ra_EventHash a)].
Definition of_witness (w : witness) : val := VL [VZ (w_U w); VZ (w_E w); of_racc (w_acc w)].
Definition of_event (e : event) : val := VL [VZ (ev_index e); of_oZ (ev_e e); of_LZ (ev_parent e)].
Definition of_upd_result (r : upd_result) : val :=
  VZ (match r with UpdOk => 0 | UpdTooNew => 1 | UpdRevoked => 2 | UpdInvalidated => 3 | UpdVerifyErr => 4 | UpdPanic => 5 end).
Definition of_prep_result (r : prep_result) : val :=
  VZ (match r with PrepOk => 0 | PrepMissing => 1 | PrepTooNew => 2 | PrepVerifyErr => 3 | PrepPanic => 5 end).
