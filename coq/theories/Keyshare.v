(* keyshare.go : the keyshare server's side of the joint proof of the secret key. *)
From Coq Require Import ZArith List Lia Bool.
From Gabi Require Import Val ModArith GoSem ParamsDef ZkProof Keys HashTool NonRev Core CL Prover.
From GabiGen Require Import Consts.
Import ListNotations.
Open Scope Z_scope.

Record ks_input := mkKi {
  ki_key : option Z;          (* index of the key in the server's key list; None: not participating *)
  ki_value : Z; ki_commitment : Z; ki_others : list Z
}.

Record ks_request := mkKr {
  kr_context : option Z; kr_nonce : Z; kr_user_response : Z; kr_issig : bool;
  kr_inputs : list ks_input
}.

(* keys known to the server, by id *)
Definition ks_lookup (keys : list (Z * pubkey)) (id : Z) : option pubkey := lookup keys id.

Fixpoint ks_contribs (keys : list (Z * pubkey)) (randomizer : Z) (l : list ks_input) : outcome (list Z) :=
  match l with
  | [] => Ok []
  | i :: r =>
    let! rest := ks_contribs keys randomizer r in
    match ki_key i with
    | None => Ok (ki_value i :: ki_commitment i :: ki_others i ++ rest)
    | Some id =>
      let! pk := deref (ks_lookup keys id) in
      let! r0 := index_R (pk_R pk) 0 in
      let totalW := (ki_commitment i * powx (pk_N pk) r0 randomizer) mod pk_N pk in
      Ok (ki_value i :: totalW :: ki_others i ++ rest)
    end
  end.

(* keyshare.go:163 KeyshareResponse ; [recomputed] and [committed] are the two hash values
   (CBOR + SHA-256 are outside the model: the harness observes the recomputed hash) *)
Definition keyshare_response (secret randomizer : Z) (committed recomputed : list Z)
           (req : ks_request) (keys : list (Z * pubkey)) : outcome (Z * Z) :=
  if negb (forallb (fun i => match ki_key i with
                             | Some id => match ks_lookup keys id with Some _ => true | None => false end
                             | None => true end) (kr_inputs req)) then Err
  else
    let ctx := match kr_context req with Some c => c | None => 1 end in
    let! contribs := ks_contribs keys randomizer (kr_inputs req) in
    if list_eq_dec Z.eq_dec recomputed committed then
      let c := create_challenge ctx (kr_nonce req) contribs (kr_issig req) in
      Ok (c, randomizer + c * secret + kr_user_response req)
    else Err.

(* keyshare.go:223 NewKeyshareCommitments : randomizer length and the refusal for 1024-bit keys *)
Definition ks_rand_length (secret : Z) (keys : list pubkey) : outcome Z :=
  if existsb (fun pk => bitlen (pk_N pk) =? 1024) keys then
    if Lm params_1024 - 1 <? bitlen secret then Err else Ok (LmCommit params_1024)
  else Ok (LmCommit params_2048).

Definition ks_commitments (secret randomizer : Z) (keys : list pubkey) : outcome (list (Z * Z)) :=
  omap (fun pk => let! r0 := index_R (pk_R pk) 0 in
                  Ok (powx (pk_N pk) r0 secret, powx (pk_N pk) r0 randomizer)) keys.

(* proofs.go MergeProofP, new protocol (P = nil): challenge and secret-key response replaced *)
Definition merge_proofP_D (p : proofD) (c s : Z) : outcome proofD :=
  let! _ := deref (pd_C p) in
  let! _ := deref (lookup_ptr (pd_AResp p) 0) in
  Ok (mkPd (Some c) (pd_A p) (pd_E p) (pd_V p) (map_set (pd_AResp p) 0 (Some s)) (pd_ADisc p) (pd_nr p) (pd_rp p)).

(* proofs.go ProofD.MergeProofP with either protocol version: pP is ProofP.P (nil in the new protocol) *)
Definition merge_proofP_D_gen (p : proofD) (pP : option Z) (c s : Z) : outcome proofD :=
  match pP with
  | None => merge_proofP_D p c s
  | Some _ =>
    let! x := deref (lookup_ptr (pd_AResp p) 0) in
    Ok (mkPd (pd_C p) (pd_A p) (pd_E p) (pd_V p) (map_set (pd_AResp p) 0 (Some (x + s))) (pd_ADisc p) (pd_nr p) (pd_rp p))
  end.

(* proofs.go ProofU.MergeProofP *)
Definition merge_proofP_U (pk : pubkey) (p : proofU) (pP : option Z) (c s : Z) : outcome proofU :=
  match pP with
  | None =>
    let! _ := deref (pu_C p) in
    let! _ := deref (pu_S p) in
    Ok (mkPu (pu_U p) (Some c) (pu_VPrime p) (Some s) (pu_MUser p))
  | Some kp =>
    let! u := deref (pu_U p) in
    let! x := deref (pu_S p) in
    Ok (mkPu (Some ((u * kp) mod pk_N pk)) (pu_C p) (pu_VPrime p) (Some (x + s)) (pu_MUser p))
  end.

(* ---------------------------------------------------------------------------------- *)

(* The server answers only if every key id is known and the presented challenge input hashes
   to the committed value; the answer is built from the challenge over those inputs. *)
Theorem server_releases_only_if_lem secret randomizer committed recomputed req keys c s :
  keyshare_response secret randomizer committed recomputed req keys = Ok (c, s) ->
  recomputed = committed /\
  (forall i id, In i (kr_inputs req) -> ki_key i = Some id -> exists pk, ks_lookup keys id = Some pk) /\
  exists contribs, ks_contribs keys randomizer (kr_inputs req) = Ok contribs /\
    c = create_challenge (match kr_context req with Some x => x | None => 1 end) (kr_nonce req) contribs (kr_issig req) /\
    s = randomizer + c * secret + kr_user_response req.
Proof.
  unfold keyshare_response.
  destruct (forallb _ (kr_inputs req)) eqn:Ef; cbn [negb]; [|discriminate].
  destruct (ks_contribs keys randomizer (kr_inputs req)) as [contribs| |]; cbn [obind]; try discriminate.
  destruct (list_eq_dec Z.eq_dec recomputed committed) as [Heq|]; [|discriminate].
  intros [= <- <-]. split; [exact Heq|]. split.
  - intros i id Hin Hk. rewrite forallb_forall in Ef. specialize (Ef i Hin). rewrite Hk in Ef.
    destruct (ks_lookup keys id) as [pk|]; [eauto|discriminate].
  - exists contribs. auto.
Qed.

(* user and server compute the same total commitment: multiplying the user's commitment by the
   server's R_0^randomizer afterwards equals starting the product from it *)
Lemma und_product_scale pk und rand : 0 < pk_N pk -> forall z0 z p,
  und_product pk und rand z0 = Ok z ->
  und_product pk und rand ((p * z0) mod pk_N pk) = Ok ((p * z) mod pk_N pk).
Proof.
  intros Hn. induction und as [|v rest IH]; intros z0 z p H; cbn [und_product] in *.
  - inversion H; subst. reflexivity.
  - destruct (index_R (pk_R pk) v) as [base| |]; cbn [obind] in *; try discriminate.
    destruct (lookup rand v) as [x|]; cbn [deref obind] in *; try discriminate.
    destruct (go_modpow base x (pk_N pk)) as [t|]; cbn [or_err obind] in *; try discriminate.
    apply (IH _ _ p) in H. rewrite <- H. f_equal.
    rewrite Z.mul_mod_idemp_l by lia. rewrite Z.mul_mod_idemp_r by lia. f_equal. ring.
Qed.

Theorem commitments_agree_lem pk b skr pc a z b' : 0 < pk_N pk ->
  db_commit pk b skr None = Ok ([a; z], b') ->
  db_commit pk b skr (Some pc) = Ok ([a; (z * pc) mod pk_N pk], b').
Proof.
  intros Hn. unfold db_commit.
  destruct (sig_A (db_sig b)) as [a0|]; cbn [deref obind]; [|discriminate].
  destruct (go_modpow a0 (db_eCommit b) (pk_N pk)) as [ae|]; cbn [or_err obind]; [|discriminate].
  destruct (go_modpow (pk_S pk) (db_vCommit b) (pk_N pk)) as [sv|]; cbn [or_err obind]; [|discriminate].
  destruct (und_product pk (db_undisclosed b) _ ((1 * ae * sv) mod pk_N pk)) as [z0| |] eqn:E; cbn [obind]; try discriminate.
  intros H. inversion H; subst. 
  apply (und_product_scale pk _ _ Hn _ _ pc) in E.
  replace ((pc * ae * sv) mod pk_N pk) with ((pc * ((1 * ae * sv) mod pk_N pk)) mod pk_N pk).
  - rewrite E. cbn [obind]. now rewrite (Z.mul_comm z pc).
  - rewrite Z.mul_mod_idemp_r by lia. f_equal. ring.
Qed.

(* the total commitment the server reconstructs from the user's commitment and its own
   randomizer is the one the user hashes after merging the server's Pcommit = R_0^randomizer *)
Theorem user_server_commitments_agree_lem pk b skr randomizer r0 a z b' : 0 < pk_N pk ->
  index_R (pk_R pk) 0 = Ok r0 ->
  db_commit pk b skr None = Ok ([a; z], b') ->
  db_commit pk b skr (Some (powx (pk_N pk) r0 randomizer)) =
    Ok ([a; (z * powx (pk_N pk) r0 randomizer) mod pk_N pk], b').
Proof. intros Hn _ H. now apply commitments_agree_lem. Qed.

(* wire *)
Definition as_ks_input (v : val) : option ks_input :=
  match v with
  | VL [k; x; c; o] => do k <- as_oZ k; do x <- as_Z x; do c <- as_Z c; do o <- as_LZ o; Some (mkKi k x c o)
  | _ => None
  end.
Definition as_ks_request (v : val) : option ks_request :=
  match v with
  | VL [ctx; n; ur; sg; ins] =>
    do ctx <- as_oZ ctx; do n <- as_Z n; do ur <- as_Z ur; do sg <- as_bool sg;
    do ins <- (match ins with VL l => map_opt as_ks_input l | _ => None end);
    Some (mkKr ctx n ur sg ins)
  | _ => None
  end.
