(* gabikeys: what the key parsers accept, over abstract documents (element -> text class).
   The XML tokeniser itself is not modelled. *)
From Coq Require Import ZArith List Lia Bool.
From Gabi Require Import Val ModArith GoSem.
Import ListNotations.
Open Scope Z_scope.

(* an element holding a number: missing / present but not a base-10 integer / a value *)
Inductive elem := Missing | NotDecimal | Value (z : Z).

Record pubdoc := mkPubdoc {
  d_n : elem; d_Z : elem; d_S : elem; d_G : elem; d_H : elem;
  d_bases : list elem; d_num : option Z     (* the num attribute; None: not an integer *)
}.

Definition elem_ok (e : elem) : bool :=
  match e with Missing => true | NotDecimal => false | Value z => 0 <=? z end.
Definition elem_present (e : elem) : bool := match e with Value _ => true | _ => false end.

(* keys.go NewPublicKeyFromBytes after the repair *)
Definition parse_pubkey (supported : list Z) (d : pubdoc) : outcome unit :=
  (* xml.Unmarshal: big.Int.UnmarshalXML refuses non-decimal text and negatives *)
  if negb (elem_ok (d_n d) && elem_ok (d_Z d) && elem_ok (d_S d) && elem_ok (d_G d) && elem_ok (d_H d)) then Err
  (* Bases.UnmarshalXML *)
  else match d_num d with
       | None => Err
       | Some num =>
         if negb (num =? Z.of_nat (length (d_bases d))) then Err
         else if negb (forallb (fun e => elem_present e && elem_ok e) (d_bases d)) then Err
         else if negb (elem_present (d_n d) && elem_present (d_Z d) && elem_present (d_S d)) then Err
         else match d_n d with
              | Value n => if existsb (Z.eqb (bitlen n)) supported then Ok tt else Err
              | _ => Err
              end
       end.

Record privdoc := mkPrivdoc { d_p : elem; d_q : elem; d_pp : elem; d_qp : elem }.

(* keys.go NewPrivateKeyFromXML after the repair; is_safe = safeprime.ProbablySafePrime oracle *)
Definition parse_privkey (is_safe : Z -> bool) (demo : bool) (d : privdoc) : outcome unit :=
  if negb (elem_ok (d_p d) && elem_ok (d_q d) && elem_ok (d_pp d) && elem_ok (d_qp d)) then Err
  else match d_p d, d_q d, d_pp d, d_qp d with
       | Value p, Value q, Value pp, Value qp =>
         if demo then Ok tt
         else if negb (Z.shiftr (p - 1) 1 =? pp) then Err
         else if negb (Z.shiftr (q - 1) 1 =? qp) then Err
         else if negb (is_safe p) then Err
         else if negb (is_safe q) then Err
         else Ok tt
       | _, _, _, _ => Err
       end.

Theorem parse_pubkey_refuses_lem supported d : parse_pubkey supported d = Ok tt ->
  (exists n z s, d_n d = Value n /\ d_Z d = Value z /\ d_S d = Value s /\ 0 <= n /\ 0 <= z /\ 0 <= s /\
                 In (bitlen n) supported) /\
  d_num d = Some (Z.of_nat (length (d_bases d))) /\
  Forall (fun e => exists b, e = Value b /\ 0 <= b) (d_bases d) /\
  d_G d <> NotDecimal /\ d_H d <> NotDecimal.
Proof.
  unfold parse_pubkey.
  destruct (elem_ok (d_n d) && elem_ok (d_Z d) && elem_ok (d_S d) && elem_ok (d_G d) && elem_ok (d_H d)) eqn:E1; cbn [negb]; [|discriminate].
  repeat (apply andb_prop in E1 as [E1 ?]).
  destruct (d_num d) as [num|]; [|discriminate].
  destruct (Z.eqb_spec num (Z.of_nat (length (d_bases d)))) as [->|]; cbn [negb]; [|discriminate].
  destruct (forallb _ (d_bases d)) eqn:E2; cbn [negb]; [|discriminate].
  destruct (elem_present (d_n d) && elem_present (d_Z d) && elem_present (d_S d)) eqn:E3; cbn [negb]; [|discriminate].
  repeat (apply andb_prop in E3 as [E3 ?]).
  destruct (d_n d) as [| |n] eqn:En; try discriminate.
  destruct (existsb (Z.eqb (bitlen n)) supported) eqn:E4; [|discriminate]. intros _.
  destruct (d_Z d) as [| |z]; try discriminate. destruct (d_S d) as [| |s]; try discriminate.
  split; [|split; [reflexivity|split; [|split]]].
  - exists n, z, s. cbn in *. repeat split; auto; try (apply Z.leb_le; assumption).
    apply existsb_exists in E4 as [x [Hin Hx]]. apply Z.eqb_eq in Hx. now subst.
  - apply Forall_forall. intros e Hin. rewrite forallb_forall in E2. specialize (E2 e Hin).
    apply andb_prop in E2 as [Ep Eo]. destruct e as [| |b]; try discriminate. exists b. split; [reflexivity|now apply Z.leb_le].
  - destruct (d_G d); [discriminate|discriminate|discriminate].
  - destruct (d_H d); [discriminate|discriminate|discriminate].
Qed.

Theorem parse_privkey_refuses_lem is_safe demo d : parse_privkey is_safe demo d = Ok tt ->
  exists p q pp qp, d_p d = Value p /\ d_q d = Value q /\ d_pp d = Value pp /\ d_qp d = Value qp /\
    0 <= p /\ 0 <= q /\ 0 <= pp /\ 0 <= qp /\
    (demo = false -> (p - 1) / 2 = pp /\ (q - 1) / 2 = qp /\ is_safe p = true /\ is_safe q = true).
Proof.
  unfold parse_privkey.
  destruct (elem_ok (d_p d) && elem_ok (d_q d) && elem_ok (d_pp d) && elem_ok (d_qp d)) eqn:E1; cbn [negb]; [|discriminate].
  repeat (apply andb_prop in E1 as [E1 ?]).
  destruct (d_p d) as [| |p]; try discriminate. destruct (d_q d) as [| |q]; try discriminate.
  destruct (d_pp d) as [| |pp]; try discriminate. destruct (d_qp d) as [| |qp]; try discriminate.
  cbn [elem_ok] in *. intros Hd. exists p, q, pp, qp.
  split; [reflexivity|]. split; [reflexivity|]. split; [reflexivity|]. split; [reflexivity|].
  split; [now apply Z.leb_le|]. split; [now apply Z.leb_le|]. split; [now apply Z.leb_le|]. split; [now apply Z.leb_le|].
  intros ->.
  rewrite !Z.shiftr_div_pow2 in Hd by lia. change (2 ^ 1) with 2 in Hd.
  destruct (Z.eqb_spec ((p - 1) / 2) pp); cbn [negb] in Hd; [|discriminate].
  destruct (Z.eqb_spec ((q - 1) / 2) qp); cbn [negb] in Hd; [|discriminate].
  destruct (is_safe p) eqn:Ep; cbn [negb] in Hd; [|discriminate].
  destruct (is_safe q) eqn:Eq; cbn [negb] in Hd; [|discriminate].
  auto.
Qed.

(* a written key document parses back (record level): every element present, non-negative *)
Theorem key_doc_roundtrip_lem supported n z s g h bases :
  0 <= n -> 0 <= z -> 0 <= s -> Forall (fun b => 0 <= b) bases -> In (bitlen n) supported ->
  (forall x, g = Some x -> 0 <= x) -> (forall x, h = Some x -> 0 <= x) ->
  parse_pubkey supported
    (mkPubdoc (Value n) (Value z) (Value s)
              (match g with Some x => Value x | None => Missing end)
              (match h with Some x => Value x | None => Missing end)
              (map Value bases) (Some (Z.of_nat (length bases)))) = Ok tt.
Proof.
  intros Hn Hz Hs Hb Hin Hg Hh. unfold parse_pubkey. cbn [d_n d_Z d_S d_G d_H d_bases d_num elem_ok elem_present].
  assert (E1 : (0 <=? n) = true) by now apply Z.leb_le. assert (E2 : (0 <=? z) = true) by now apply Z.leb_le.
  assert (E3 : (0 <=? s) = true) by now apply Z.leb_le.
  assert (E4 : elem_ok (match g with Some x => Value x | None => Missing end) = true).
  { destruct g as [x|]; [cbn; apply Z.leb_le; now apply Hg|reflexivity]. }
  assert (E5 : elem_ok (match h with Some x => Value x | None => Missing end) = true).
  { destruct h as [x|]; [cbn; apply Z.leb_le; now apply Hh|reflexivity]. }
  rewrite E1, E2, E3, E4, E5. cbn [andb negb]. rewrite map_length, Z.eqb_refl. cbn [negb].
  assert (E6 : forallb (fun e => elem_present e && elem_ok e) (map Value bases) = true).
  { apply forallb_forall. intros e He. apply in_map_iff in He as [b [<- Hbin]]. cbn.
    rewrite Forall_forall in Hb. apply Z.leb_le. now apply Hb. }
  rewrite E6. cbn [negb].
  assert (E7 : existsb (Z.eqb (bitlen n)) supported = true).
  { apply existsb_exists. exists (bitlen n). split; [exact Hin|apply Z.eqb_refl]. }
  now rewrite E7.
Qed.

(* wire *)
Definition as_elem (v : val) : option elem :=
  match v with VN => Some Missing | VL [] => Some NotDecimal | VZ z => Some (Value z) | _ => None end.
Definition d_parse_pubkey (v : val) : val :=
  match v with
  | VL [sup; n; z; s; g; h; VL bases; num] =>
    match as_LZ sup, as_elem n, as_elem z, as_elem s, as_elem g, as_elem h, map_opt as_elem bases, as_oZ num with
    | Some sup, Some n, Some z, Some s, Some g, Some h, Some bs, Some num =>
      of_outcome (fun _ => VZ 0) (parse_pubkey sup (mkPubdoc n z s g h bs num))
    | _, _, _, _, _, _, _, _ => bad_input
    end
  | _ => bad_input
  end.
Definition d_parse_privkey (v : val) : val :=
  match v with
  | VL [sp; sq; demo; p; q; pp; qp] =>
    match as_bool sp, as_bool sq, as_bool demo, as_elem p, as_elem q, as_elem pp, as_elem qp with
    | Some sp, Some sq, Some demo, Some p, Some q, Some pp, Some qp =>
      (* the two oracle bits: ProbablySafePrime of p and of q *)
      let is_safe := fun x => match p with Value pv => if x =? pv then sp else sq | _ => sq end in
      of_outcome (fun _ => VZ 0) (parse_privkey is_safe demo (mkPrivdoc p q pp qp))
    | _, _, _, _, _, _, _ => bad_input
    end
  | _ => bad_input
  end.
