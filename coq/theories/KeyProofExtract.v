(* C17: special soundness of the representation proofs of the key proof (zkproof/representationproof.go), with the
   witness.  The group has prime order, so - unlike in Z_N^* - the two-transcript relation can be divided by the
   challenge difference: two accepted transcripts of one statement with the same commitment and challenges c > c',
   c - c' invertible modulo the order, yield secrets  u * (response' - response) mod order  under which the statement
   IsTrue.  Hypotheses on prover-supplied group elements: the left-hand side and the bases have order dividing the
   group order (for g and h this is BuildGroup; for commitments it is what an honest prover sends; the verifier
   does not test it, see DESIGN A.9). *)
From Coq Require Import ZArith List Bool Lia.
From Gabi Require Import ModArith GoSem HashTool KeyProof KeyProofSound SignedPow Extractor.
Import ListNotations.
Open Scope Z_scope.

Section Order.
Variables (P ord : Z).
Hypothesis HP : 1 < P.
Hypothesis Hord : 0 < ord.

(* an element of order dividing ord is a unit *)
Lemma order_unit b : powm P b ord = 1 mod P -> mulm P b (powm P b (ord - 1)) = 1.
Proof.
  intros H. replace ord with (1 + (ord - 1)) in H at 1 by lia. rewrite powm_add in H by lia.
  unfold powm at 1 in H. rewrite Z.pow_1_r in H. rewrite mulm_mod_l in H by lia.
  rewrite H. apply Z.mod_1_l. lia.
Qed.

Lemma inv_unique a b c : mulm P a b = 1 -> mulm P a c = 1 -> b mod P = c mod P.
Proof.
  intros Hb Hc.
  assert (E : mulm P b (mulm P a c) = mulm P c (mulm P a b)).
  { rewrite <- !mulm_assoc by lia. rewrite (mulm_comm P b a), (mulm_comm P c a).
    rewrite !mulm_assoc by lia. f_equal. apply mulm_comm. }
  rewrite Hb, Hc in E. now rewrite !mulm_1_r in E by lia.
Qed.

Lemma inv_order b bi : mulm P b bi = 1 -> powm P b ord = 1 mod P -> powm P bi ord = 1 mod P.
Proof.
  intros Hinv Hb.
  assert (E : mulm P (powm P b ord) (powm P bi ord) = 1 mod P).
  { rewrite <- powm_mulm by lia. rewrite Hinv. apply powm_1_l. lia. }
  rewrite Hb in E. rewrite mulm_1mod_l in E by lia. now rewrite powm_idem_mod in E by lia.
Qed.

(* signed powers of an element of order dividing ord only depend on the exponent modulo ord *)
Lemma spw_mod_order b bi x : mulm P b bi = 1 -> powm P b ord = 1 mod P ->
  spw P b bi x = powm P b (x mod ord).
Proof.
  intros Hinv Hb. pose proof (inv_order b bi Hinv Hb) as Hbi.
  pose proof (Z.mod_pos_bound x ord Hord) as Hm.
  unfold spw. destruct (Z.ltb_spec x 0) as [Hx|Hx].
  - (* bi^(-x) = b^(x mod ord): multiply by b^(-x) *)
    set (k := - (x / ord)). assert (Hk : 0 <= k) by (unfold k; pose proof (Z.div_lt_upper_bound x ord 0 Hord); lia).
    assert (Ex : x mod ord = - - x + ord * k) by (unfold k; rewrite (Z.mod_eq x ord) by lia; ring).
    assert (E1 : mulm P (powm P b (- x)) (powm P bi (- x)) = 1).
    { rewrite <- powm_mulm by lia. rewrite Hinv. rewrite powm_1_l by lia. apply Z.mod_1_l. lia. }
    assert (E2 : mulm P (powm P b (- x)) (powm P b (x mod ord)) = 1).
    { rewrite <- powm_add by lia. replace (- x + x mod ord) with (0 + ord * k) by lia.
      rewrite powm_order_shift by (try assumption; lia). rewrite powm_0_r. apply Z.mod_1_l. lia. }
    pose proof (inv_unique _ _ _ E1 E2) as E. now rewrite !powm_idem_mod in E by lia.
  - symmetry. apply powm_order_mod; try assumption; lia.
Qed.

Lemma sprod_scale (f : sterm -> Z) u ts : units P ts -> 0 <= u ->
  sprod P (fun t => u * f t) ts = powm P (sprod P f ts) u.
Proof.
  intros H Hu. induction H as [|t r Hinv _ IH]; cbn [sprod].
  - rewrite powm_1_l by lia. symmetry. apply Z.mod_1_l. lia.
  - rewrite IH. rewrite powm_mulm by lia. f_equal. apply (spw_mul_nonneg P HP (s_b t) (s_bi t) (f t) u Hu).
Qed.

End Order.

(* ---- extracted secrets ---- *)

Fixpoint extract_env (u ord : Z) (ps ps' : env) : env :=
  match ps with
  | [] => []
  | (k, v) :: r =>
    match lookup_s ps' k with
    | Some v' => (k, (u * (v' - v)) mod ord) :: extract_env u ord r ps'
    | None => extract_env u ord r ps'
    end
  end.

Lemma lookup_extract u ord ps' k v' : lookup_s ps' k = Some v' -> forall ps v,
  lookup_s ps k = Some v -> lookup_s (extract_env u ord ps ps') k = Some ((u * (v' - v)) mod ord).
Proof.
  intros H'. induction ps as [|[k0 v0] r IH]; intros v H; cbn [lookup_s extract_env] in *; [discriminate|].
  destruct (Z.eqb_spec k0 k) as [->|Hne].
  - inversion H; subst. rewrite H'. cbn [lookup_s]. now rewrite Z.eqb_refl.
  - destruct (lookup_s ps' k0); cbn [lookup_s].
    + destruct (Z.eqb_spec k0 k); [contradiction|]. now apply IH.
    + now apply IH.
Qed.

(* the two transcripts and the extracted secrets resolve over the same bases and powers *)
Record qterm := mkQ { q_b : Z; q_pw : Z; q_v : Z; q_v' : Z }.

Lemma resolve_extract g bs ps ps' u : forall l ts_v ts_v',
  resolve_rhs g bs ps l = Some ts_v -> resolve_rhs g bs ps' l = Some ts_v' ->
  exists qs : list qterm,
    map (fun t => (q_b t, q_pw t, q_v t)) qs = ts_v /\
    map (fun t => (q_b t, q_pw t, q_v' t)) qs = ts_v' /\
    resolve_rhs g bs (extract_env u (gOrd g) ps ps') l
      = Some (map (fun t => (q_b t, q_pw t, (u * (q_v' t - q_v t)) mod gOrd g)) qs).
Proof.
  induction l as [|[[b sn] pw] r IH]; intros ts_v ts_v' Hv Hv'; cbn [resolve_rhs] in *.
  - inversion Hv; inversion Hv'. exists []. auto.
  - destruct (bval g bs b) as [bv|]; [|discriminate].
    destruct (lookup_s ps sn) as [v|] eqn:Ev; [|discriminate].
    destruct (lookup_s ps' sn) as [v'|] eqn:Ev'; [|discriminate].
    destruct (resolve_rhs g bs ps r) as [a1|]; [|discriminate].
    destruct (resolve_rhs g bs ps' r) as [a2|]; [|discriminate].
    destruct (IH a1 a2 eq_refl eq_refl) as (qs & E1 & E2 & E3).
    inversion Hv; inversion Hv'; subst.
    exists (mkQ bv pw v v' :: qs). cbn [map q_b q_pw q_v q_v']. repeat split; try reflexivity.
    rewrite (lookup_extract u (gOrd g) ps' sn v' Ev' ps v Ev). rewrite E3. reflexivity.
Qed.

Lemma lhs_prod_range g bs : forall l acc prev r, 1 < gP g -> 0 <= acc < gP g ->
  lhs_prod g bs l acc prev = Ok r -> 0 <= r < gP g.
Proof.
  induction l as [|[n pw] rest IH]; intros acc prev r HP Ha H; cbn [lhs_prod] in H.
  - inversion H; subst; exact Ha.
  - destruct (base_exp g bs n pw prev) as [b| |]; cbn [obind] in H; try discriminate.
    apply (IH _ _ _ HP) in H; [exact H|]. apply Z.mod_pos_bound. lia.
Qed.

Section Sound.
Variable g : group.
Let P := gP g.
Let ord := gOrd g.
Hypothesis HP : 1 < P.
Hypothesis Hord : 0 < ord.

Definition st (t : qterm) : sterm :=
  mkS (q_b t) (powm P (q_b t) (ord - 1)) ((q_pw t * q_v t) mod ord) ((q_pw t * q_v' t) mod ord).

Lemma fold_as_sfold (val : qterm -> Z) (ex : sterm -> Z) (qs : list qterm) :
  (forall t, ex (st t) = (q_pw t * val t) mod ord) -> forall acc,
  fold_left (fun a t => (a * powm P (fst (fst t)) ((snd (fst t) * snd t) mod ord)) mod P)
            (map (fun t => (q_b t, q_pw t, val t)) qs) acc
  = sfold P ex (map st qs) acc.
Proof.
  intros Hex. induction qs as [|t r IH]; intros acc; unfold sfold in *; cbn [map fold_left fst snd]; [reflexivity|].
  rewrite IH. f_equal. f_equal. f_equal. unfold spw. rewrite Hex. cbn [st s_b s_bi].
  pose proof (Z.mod_pos_bound (q_pw t * val t) ord Hord).
  destruct (Z.ltb_spec ((q_pw t * val t) mod ord) 0); [lia|reflexivity].
Qed.

Lemma fold_extracted u (qs : list qterm) : Forall (fun t => powm P (q_b t) ord = 1 mod P) qs -> forall acc,
  fold_left (fun a t => (a * powm P (fst (fst t)) ((snd (fst t) * snd t) mod ord)) mod P)
            (map (fun t => (q_b t, q_pw t, (u * (q_v' t - q_v t)) mod ord)) qs) acc
  = sfold P (fun t => u * (s_er t - s_es t)) (map st qs) acc.
Proof.
  intros Hb. induction Hb as [|t r Ht _ IH]; intros acc; unfold sfold in *; cbn [map fold_left fst snd]; [reflexivity|].
  rewrite IH. f_equal. f_equal. f_equal. cbn [st s_b s_bi s_es s_er].
  rewrite (spw_mod_order P ord HP Hord (q_b t) _ _ (order_unit P ord HP Hord _ Ht) Ht). f_equal.
  rewrite Z.mul_mod_idemp_r by lia.
  rewrite <- (Z.mul_mod_idemp_r u (_ - _)) by lia. rewrite <- Zminus_mod. rewrite Z.mul_mod_idemp_r by lia.
  f_equal. ring.
Qed.

Theorem rep_special_sound_lem bs ps ps' c c' u s T lhs ts_v ts_v' :
  0 <= c' < c -> 0 <= u -> ((c - c') * u) mod ord = 1 mod ord ->
  lhs_prod g bs (r_lhs s) 1 0 = Ok lhs -> powm P lhs ord = 1 mod P ->
  resolve_rhs g bs ps (r_rhs s) = Some ts_v -> resolve_rhs g bs ps' (r_rhs s) = Some ts_v' ->
  Forall (fun t => powm P (fst (fst t)) ord = 1 mod P) ts_v ->
  rep_from_proof g bs ps c s = Ok T -> rep_from_proof g bs ps' c' s = Ok T ->
  rep_is_true g bs (extract_env u ord ps ps') s = Ok true.
Proof.
  intros Hc Hu Hinv Hl Hlo Hv Hv' Hbases H H'.
  destruct (resolve_extract g bs ps ps' u _ _ _ Hv Hv') as (qs & E1 & E2 & E3). fold ord in E3.
  assert (Ec : (c <? 0) = false) by (apply Z.ltb_ge; lia).
  assert (Ec' : (c' <? 0) = false) by (apply Z.ltb_ge; lia).
  unfold rep_from_proof in H, H'. rewrite Hl in H, H'. cbn [obind] in H, H'.
  unfold go_exp in H, H'. rewrite Ec in H. rewrite Ec' in H'. fold P in H, H'. rewrite powx_powm in H, H' by lia.
  rewrite (rhs_prod_resolved g bs ps _ ts_v _ 0 ltac:(fold P; lia) Hord Hv) in H.
  rewrite (rhs_prod_resolved g bs ps' _ ts_v' _ 0 ltac:(fold P; lia) Hord Hv') in H'.
  fold P ord in H, H'. subst ts_v ts_v'.
  rewrite (fold_as_sfold q_v s_es qs ltac:(reflexivity)) in H.
  rewrite (fold_as_sfold q_v' s_er qs ltac:(reflexivity)) in H'.
  (* units *)
  assert (Hunits : units P (map st qs)).
  { unfold units. rewrite Forall_map. rewrite Forall_map in Hbases. eapply Forall_impl; [|exact Hbases].
    intros t Ht. cbn [st s_b s_bi fst] in *. now apply order_unit. }
  pose proof (order_unit P ord HP Hord lhs Hlo) as Hlu. set (li := powm P lhs (ord - 1)) in *.
  (* the two-transcript relation, with the roles of lhs and its inverse exchanged *)
  assert (Hrel : sprod P (fun t => s_es t - s_er t) (map st qs) = powm P li (c - c')).
  { apply (two_transcripts_relation P HP (map st qs) li lhs c c' s_es s_er Hunits).
    - now rewrite mulm_comm.
    - lia.
    - congruence. }
  (* scale by u and invert *)
  set (k := (c - c') * u).
  assert (Hk : 0 <= k) by (unfold k; nia).
  assert (Hscaled : sprod P (fun t => u * (s_es t - s_er t)) (map st qs) = powm P li k).
  { rewrite (sprod_scale P HP (fun t => s_es t - s_er t) u _ Hunits Hu). rewrite Hrel.
    rewrite powm_powm by lia. reflexivity. }
  assert (Hneg : sprod P (fun t => u * (s_er t - s_es t)) (map st qs) = lhs).
  { pose proof (sprod_neg_inverse P HP (fun t => u * (s_es t - s_er t)) _ Hunits) as Hi.
    rewrite Hscaled in Hi.
    assert (Hi2 : mulm P (powm P li k) (powm P lhs k) = 1).
    { rewrite <- powm_mulm by lia. rewrite (mulm_comm P li lhs), Hlu. rewrite powm_1_l by lia. apply Z.mod_1_l. lia. }
    pose proof (inv_unique P HP _ _ _ Hi Hi2) as E.
    rewrite (Z.mod_small (sprod P _ _) P) in E by (apply sprod_range; lia).
    rewrite powm_idem_mod in E by lia.
    rewrite (sprod_ext P (fun t => u * (s_er t - s_es t)) (fun t => - (u * (s_es t - s_er t)))) by (intros; ring).
    rewrite E. rewrite <- (powm_order_mod P ltac:(lia) lhs ord k Hord Hk Hlo). unfold k. rewrite Hinv.
    assert (H01 : 0 <= 1 < gP g) by (fold P; lia).
    pose proof (lhs_prod_range g bs _ _ _ _ HP H01 Hl) as Hr. fold P in Hr.
    destruct (Z.eq_dec ord 1) as [E1|E1].
    - rewrite E1 in *. rewrite Z.mod_1_r. rewrite powm_0_r. unfold powm in Hlo. rewrite Z.pow_1_r in Hlo.
      rewrite <- Hlo. apply Z.mod_small. exact Hr.
    - rewrite (Z.mod_small 1 ord) by lia. unfold powm. rewrite Z.pow_1_r. apply Z.mod_small. exact Hr. }
  (* the statement is true of the extracted secrets *)
  unfold rep_is_true. rewrite Hl. cbn [obind].
  rewrite (rhs_prod_resolved g bs _ _ _ 1 0 ltac:(fold P; lia) Hord E3). cbn [obind]. fold P ord.
  set (xs := fun t : sterm => u * (s_er t - s_es t)).
  assert (Hb' : Forall (fun t => powm P (q_b t) ord = 1 mod P) qs).
  { rewrite Forall_map in Hbases. exact Hbases. }
  rewrite (fold_extracted u qs Hb' 1). fold xs.
  assert (R : 0 <= sfold P xs (map st qs) 1 < P) by (apply sfold_range; lia).
  rewrite <- (Z.mod_small _ _ R). rewrite sfold_mod by lia. rewrite mulm_1_l by lia.
  rewrite (Z.mod_small (sprod P xs _) P) by (apply sprod_range; lia).
  unfold xs. rewrite Hneg. now rewrite Z.eqb_refl.
Qed.

End Sound.

(* the premises are satisfiable: the group of order 11 modulo 23 with g = 2, h = 3; the statement c = g^x * h^r for
   the commitment c = 9 (x = 4, r = 7); transcripts with challenges 3 and 1 from the randomizers (5, 8); the
   extracted secrets are (4, 7) again *)
From Coq Require Import String.
Example rep_special_sound_nonvacuous :
  let g := mkG 23 11 2 3 in
  let s := mkRep [(nm "c", 1)] [(nm "g", nm "x", 1); (nm "h", nm "r", 1)] in
  let bs := [(nm "c", 9)] in
  let ps := [(nm "x", 4); (nm "r", 9)] in
  let ps' := [(nm "x", 1); (nm "r", 1)] in
  lhs_prod g bs (r_lhs s) 1 0 = Ok 9 /\ powm 23 9 11 = 1 mod 23 /\
  (exists T, rep_from_proof g bs ps 3 s = Ok T /\ rep_from_proof g bs ps' 1 s = Ok T) /\
  ((3 - 1) * 6) mod 11 = 1 mod 11 /\
  extract_env 6 11 ps ps' = [(nm "x", 4); (nm "r", 7)] /\
  rep_is_true g bs (extract_env 6 11 ps ps') s = Ok true.
Proof.
  cbv zeta. split; [vm_compute; reflexivity|]. split; [vm_compute; reflexivity|].
  split; [eexists; split; vm_compute; reflexivity|]. split; [reflexivity|]. split; vm_compute; reflexivity.
Qed.
