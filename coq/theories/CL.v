(* clsignature.go : Camenisch-Lysyanskaya signatures. *)
From Coq Require Import ZArith List Lia Bool.
From Gabi Require Import Val ModArith GoSem ParamsDef ZkProof Keys Bytes Sha256 HashTool NonRev Core.
Import ListNotations.
Open Scope Z_scope.

(* mathutil.go:79 RepresentToBases : r = prod bases[i]^exps[i], reduced at every step;
   exponents longer than Lm bits are hashed; more exponents than bases -> index panic *)
Fixpoint represent (n lm : Z) (bases exps : list Z) (r : Z) : outcome Z :=
  match exps with
  | [] => Ok r
  | e :: es =>
    match bases with
    | [] => Panic
    | b :: bs => represent n lm bs es ((r * powx n b (attr_exp lm e)) mod n)
    end
  end.

Definition represent_to_pk (pk : pubkey) (ms : list Z) : outcome Z :=
  represent (pk_N pk) (Lm (pk_params pk)) (pk_R pk) ms 1.

Definition e_start (ps : sysparams) : Z := 2 ^ (Le ps - 1).
Definition e_end (ps : sysparams) : Z := 2 ^ (LePrime ps - 1) + 2 ^ (Le ps - 1).

(* clsignature.go:89 CLSignature.Verify ; [is_prime] = s.E.ProbablyPrime(80), an oracle *)
Definition cl_verify (pk : pubkey) (is_prime : Z -> bool) (sg : clsig) (ms : list Z) : outcome bool :=
  let n := pk_N pk in
  let! e := deref (sig_E sg) in
  if (e <? e_start (pk_params pk)) || (e_end (pk_params pk) <? e) then Ok false
  else if negb (is_prime e) then Ok false
  else
    let! a := deref (sig_A sg) in
    let! ae := deref (go_exp a e n) in
    let! r := represent_to_pk pk ms in
    let r' := match sig_KP sg with Some kp => r * kp | None => r end in
    let! v := deref (sig_V sg) in
    match go_modpow (pk_S pk) v n with
    | None => Ok false
    | Some sv => Ok (pk_Z pk =? (ae * r' * sv) mod n)
    end.

(* clsignature.go:36 signMessageBlockAndCommitment, randomness (v, e) as inputs *)
Definition cl_sign (pk : pubkey) (order : Z) (u : Z) (ms : list Z) (v e : Z) : outcome clsig :=
  let n := pk_N pk in
  let! r := represent_to_pk pk ms in
  let numerator := (powx n (pk_S pk) v * r * u) mod n in
  let! inv := or_err (go_modinverse numerator n) in
  let q := (pk_Z pk * inv) mod n in
  let! d := or_err (go_modinverse e order) in
  Ok (mkSig (Some (powx n q d)) (Some e) (Some v) None).

(* clsignature.go:122 Randomize *)
Definition cl_randomize (pk : pubkey) (sg : clsig) (r : Z) : outcome clsig :=
  let n := pk_N pk in
  let! a := deref (sig_A sg) in
  let! e := deref (sig_E sg) in
  let! v := deref (sig_V sg) in
  Ok (mkSig (Some ((a * powx n (pk_S pk) r) mod n)) (Some e) (Some (v - e * r)) None).

(* ---------------------------------------------------------------------------------- *)

Lemma cl_verify_true_lem pk is_prime sg ms : cl_verify pk is_prime sg ms = Ok true ->
  exists e, sig_E sg = Some e /\ e_start (pk_params pk) <= e <= e_end (pk_params pk) /\ is_prime e = true.
Proof.
  unfold cl_verify. destruct (sig_E sg) as [e|]; cbn [deref obind]; [|discriminate].
  destruct (Z.ltb_spec e (e_start (pk_params pk))); cbn [orb]; [discriminate|].
  destruct (Z.ltb_spec (e_end (pk_params pk)) e); [discriminate|].
  destruct (is_prime e) eqn:Ep; cbn [negb]; [|discriminate].
  intros _. exists e. repeat split; auto; lia.
Qed.

(* a signature whose exponent is outside the interval or composite (per the oracle) never
   verifies, whatever the rest looks like -- in particular even if the equation holds *)
Lemma cl_verify_rejects_bad_e_lem pk is_prime sg ms e : sig_E sg = Some e ->
  (e < e_start (pk_params pk) \/ e_end (pk_params pk) < e \/ is_prime e = false) ->
  cl_verify pk is_prime sg ms = Ok false.
Proof.
  intros He H. unfold cl_verify. rewrite He. cbn [deref obind].
  destruct (Z.ltb_spec e (e_start (pk_params pk))); cbn [orb]; [reflexivity|].
  destruct (Z.ltb_spec (e_end (pk_params pk)) e); [reflexivity|].
  destruct H as [H|[H|H]]; try lia. now rewrite H.
Qed.

(* ---------- algebra: completeness of signing, validity after randomisation ---------- *)

Section Algebra.
Variable n : Z.
Hypothesis Hn : 1 < n.

Definition ord_dvd (ord x : Z) : Prop := powm n x ord = 1 mod n.

Lemma one_mod : 1 mod n = 1. Proof. apply Z.mod_small. lia. Qed.

Lemma ord_dvd_mulm ord a b : 0 <= ord -> ord_dvd ord a -> ord_dvd ord b -> ord_dvd ord (mulm n a b).
Proof.
  intros Ho Ha Hb. unfold ord_dvd in *. rewrite powm_mulm by lia. rewrite Ha, Hb.
  rewrite mulm_1mod_l by lia. rewrite one_mod. now rewrite Z.mod_small by lia.
Qed.

Lemma ord_dvd_powm ord a e : 0 <= ord -> 0 <= e -> ord_dvd ord a -> ord_dvd ord (powm n a e).
Proof.
  intros Ho He Ha. unfold ord_dvd in *. rewrite powm_powm by lia.
  rewrite Z.mul_comm. rewrite <- powm_powm by lia. rewrite Ha.
  rewrite powm_mod by lia. apply powm_1_l; lia.
Qed.

Lemma ord_dvd_inv ord a ai : 0 <= ord -> ord_dvd ord a -> mulm n a ai = 1 mod n -> ord_dvd ord ai.
Proof.
  intros Ho Ha Hi. unfold ord_dvd in *.
  assert (H : powm n (mulm n a ai) ord = 1 mod n).
  { rewrite Hi. rewrite powm_mod by lia. apply powm_1_l; lia. }
  rewrite powm_mulm in H by lia. rewrite Ha in H. rewrite mulm_1mod_l in H by lia.
  rewrite powm_idem_mod in H by lia. exact H.
Qed.

Lemma ord_dvd_mod ord a : ord_dvd ord a -> ord_dvd ord (a mod n).
Proof. unfold ord_dvd. now rewrite powm_mod by lia. Qed.

Lemma ord_dvd_1 ord : 0 <= ord -> ord_dvd ord 1.
Proof. intros. unfold ord_dvd. apply powm_1_l; lia. Qed.

(* A = Q^d with d*e = 1 mod ord and Q^ord = 1  ==>  A^e = Q *)
Lemma root_power q d e ord : 0 < ord -> 0 <= d -> 0 <= e -> ord_dvd ord q ->
  (d * e) mod ord = 1 mod ord -> powm n (powm n q d) e = q mod n.
Proof.
  intros Ho Hd He Hq Hde. rewrite powm_powm by lia.
  rewrite <- (powm_order_mod n ltac:(lia) q ord (d * e)) by (auto; nia).
  rewrite Hde.
  destruct (Z.eq_dec ord 1) as [->|Hne].
  - rewrite Z.mod_1_r. unfold ord_dvd in Hq. unfold powm in *. rewrite Z.pow_1_r in Hq.
    rewrite Z.pow_0_r. now rewrite Hq.
  - rewrite Z.mod_small by lia. unfold powm. now rewrite Z.pow_1_r.
Qed.

End Algebra.

(* ---------- completeness ---------- *)

Definition pk_ord (pk : pubkey) (ord : Z) : Prop :=
  1 < pk_N pk /\ 0 < ord /\ 0 <= pk_Z pk < pk_N pk /\
  ord_dvd (pk_N pk) ord (pk_Z pk) /\ ord_dvd (pk_N pk) ord (pk_S pk) /\
  Forall (ord_dvd (pk_N pk) ord) (pk_R pk).

Lemma represent_ok n lm ord : 1 < n -> 0 <= ord ->
  forall bases exps r, Forall (ord_dvd n ord) bases -> (length exps <= length bases)%nat ->
  ord_dvd n ord r -> (forall e, In e exps -> 0 <= attr_exp lm e) ->
  exists r', represent n lm bases exps r = Ok r' /\ ord_dvd n ord r'.
Proof.
  intros Hn Ho bases. induction bases as [|b bs IH]; intros exps r Hb Hlen Hr Hnn.
  - destruct exps; [cbn; eauto|cbn in Hlen; lia].
  - destruct exps as [|e es]; [cbn; eauto|]. cbn [represent].
    inversion Hb; subst. apply IH; auto.
    + cbn in Hlen. lia.
    + rewrite powx_powm by lia.
      change ((r * powm n b (attr_exp lm e)) mod n) with (mulm n r (powm n b (attr_exp lm e))).
      apply ord_dvd_mulm; auto. apply ord_dvd_powm; auto. apply Hnn. now left.
    + intros e' He'. apply Hnn. now right.
Qed.

Lemma attr_exp_nonneg lm m : 0 <= m -> 0 <= attr_exp lm m.
Proof.
  intros Hm. unfold attr_exp. destruct (lm <? bitlen m); [|exact Hm].
  unfold int_hash_sha256. apply sha256_Z_range.
Qed.

Theorem cl_sign_verify_lem pk ord is_prime ms v e sg :
  pk_ord pk ord -> (length ms <= length (pk_R pk))%nat -> Forall (fun m => 0 <= m) ms ->
  0 <= v -> e_start (pk_params pk) <= e <= e_end (pk_params pk) -> 0 < e -> is_prime e = true ->
  cl_sign pk ord 1 ms v e = Ok sg ->
  cl_verify pk is_prime sg ms = Ok true.
Proof.
  intros (Hn & Ho & HZ & HoZ & HoS & HoR) Hlen Hms Hv He He0 Hp Hs.
  unfold cl_sign in Hs. unfold represent_to_pk in *.
  assert (Ho' : 0 <= ord) by lia.
  destruct (represent_ok (pk_N pk) (Lm (pk_params pk)) ord Hn Ho' (pk_R pk) ms 1 HoR Hlen
              (ord_dvd_1 (pk_N pk) ord Ho')) as [r [Hr Hor]].
  { intros m Hin. apply attr_exp_nonneg. rewrite Forall_forall in Hms. now apply Hms. }
  unfold cl_verify, represent_to_pk. rewrite Hr in *. cbn [obind] in Hs.
  set (n := pk_N pk) in *.
  rewrite powx_powm in Hs by lia.
  set (sv := powm n (pk_S pk) v) in *.
  set (num := (sv * r * 1) mod n) in *.
  destruct (go_modinverse num n) as [inv|] eqn:Ei; cbn [or_err obind] in Hs; [|discriminate].
  destruct (go_modinverse e ord) as [d|] eqn:Ed; cbn [or_err obind] in Hs; [|discriminate].
  inversion Hs; subst sg; clear Hs. cbn [sig_E sig_A sig_V sig_KP deref obind].
  destruct (Z.ltb_spec e (e_start (pk_params pk))); [lia|].
  destruct (Z.ltb_spec (e_end (pk_params pk)) e); [lia|]. cbn [orb]. rewrite Hp. cbn [negb].
  assert (Hn0 : 0 < n) by (subst n; lia).
  destruct (go_modinverse_sound _ _ _ Hn0 Ei) as [Hinv _].
  destruct (go_modinverse_sound _ _ _ Ho Ed) as [Hd Hdr].
  set (q := (pk_Z pk * inv) mod n) in *.
  assert (Hosv : ord_dvd n ord sv) by (apply ord_dvd_powm; auto; lia).
  assert (Honum : ord_dvd n ord num).
  { unfold num. replace (sv * r * 1) with (sv * r) by ring.
    change ((sv * r) mod n) with (mulm n sv r). apply ord_dvd_mulm; auto; lia. }
  assert (Hoinv : ord_dvd n ord inv) by (eapply ord_dvd_inv; eauto; lia).
  assert (Hoq : ord_dvd n ord q).
  { unfold q. change ((pk_Z pk * inv) mod n) with (mulm n (pk_Z pk) inv). apply ord_dvd_mulm; auto; lia. }
  (* A^e = q *)
  unfold go_exp. destruct (Z.ltb_spec e 0); [lia|]. cbn [deref obind].
  rewrite !powx_powm by lia.
  rewrite (root_power n Hn q d e ord) by (auto; try lia; unfold mulm in Hd; now rewrite Z.mul_comm).
  unfold go_modpow, go_exp. destruct (Z.ltb_spec v 0); [lia|]. rewrite powx_powm by lia. fold sv.
  assert (Hq : q mod n = q) by (unfold q; now rewrite Z.mod_mod by lia).
  rewrite Hq.
  assert (Ht : ((sv * r) * inv) mod n = 1).
  { unfold mulm, num in Hinv. replace (sv * r * 1) with (sv * r) in Hinv by ring.
    rewrite Z.mul_mod_idemp_l in Hinv by lia. rewrite Hinv. apply Z.mod_small. lia. }
  assert (Hfin : (q * r * sv) mod n = pk_Z pk).
  { unfold q. replace ((pk_Z pk * inv) mod n * r * sv) with ((pk_Z pk * inv) mod n * (r * sv)) by ring.
    rewrite Z.mul_mod_idemp_l by lia.
    replace (pk_Z pk * inv * (r * sv)) with (pk_Z pk * (sv * r * inv)) by ring.
    rewrite <- Z.mul_mod_idemp_r by lia. rewrite Ht. rewrite Z.mul_1_r. apply Z.mod_small. lia. }
  rewrite Hfin. now rewrite Z.eqb_refl.
Qed.

(* ---------- randomisation ---------- *)

Section Spow.
Variable n : Z.
Hypothesis Hn : 1 < n.
Variables s sinv : Z.
Hypothesis Hinv : mulm n s sinv = 1 mod n.

(* signed power of an invertible element, the way common.ModPow computes it *)
Definition spow (z : Z) : Z := if z <? 0 then powm n sinv (- z) else powm n s z.

Lemma pow_inv_cancel k : 0 <= k -> mulm n (powm n s k) (powm n sinv k) = 1 mod n.
Proof.
  intros Hk. rewrite <- powm_mulm by lia. rewrite Hinv. rewrite powm_mod by lia. apply powm_1_l; lia.
Qed.

Lemma spow_add_nonneg a b : 0 <= b -> spow (a + b) = mulm n (spow a) (powm n s b).
Proof.
  intros Hb. unfold spow.
  destruct (Z.ltb_spec a 0) as [Ha|Ha]; destruct (Z.ltb_spec (a + b) 0) as [Hab|Hab]; try lia.
  - (* a < 0, a+b < 0 *)
    assert (E : powm n sinv (- a) = powm n sinv (- (a + b) + b)) by (f_equal; lia).
    rewrite E. rewrite (powm_add n ltac:(lia) sinv (- (a + b)) b) by lia.
    rewrite mulm_assoc by lia. rewrite (mulm_comm n (powm n sinv b)). rewrite pow_inv_cancel by lia.
    rewrite mulm_1mod_r by lia. now rewrite powm_idem_mod by lia.
  - (* a < 0 <= a+b *)
    assert (E : powm n s b = powm n s (- a + (a + b))) by (f_equal; lia).
    rewrite E. rewrite (powm_add n ltac:(lia) s (- a) (a + b)) by lia.
    rewrite <- mulm_assoc by lia. rewrite (mulm_comm n (powm n sinv (- a))). rewrite pow_inv_cancel by lia.
    rewrite mulm_1mod_l by lia. now rewrite powm_idem_mod by lia.
  - now rewrite powm_add by lia.
Qed.

Lemma go_modpow_spow z : go_modinverse s n = Some sinv -> go_modpow s z n = Some (spow z).
Proof.
  intros H. unfold go_modpow, go_exp, spow. destruct (z <? 0).
  - rewrite H. now rewrite powx_powm by lia.
  - now rewrite powx_powm by lia.
Qed.
End Spow.

Theorem cl_randomize_valid_lem pk is_prime sg ms r sinv sg' :
  1 < pk_N pk -> 0 < Le (pk_params pk) -> go_modinverse (pk_S pk) (pk_N pk) = Some sinv ->
  sig_KP sg = None -> 0 <= r ->
  cl_verify pk is_prime sg ms = Ok true ->
  cl_randomize pk sg r = Ok sg' ->
  cl_verify pk is_prime sg' ms = Ok true.
Proof.
  intros Hn HLe Hsi Hkp Hr Hv Hrand.
  assert (Hn0 : 0 < pk_N pk) by lia.
  destruct (go_modinverse_sound _ _ _ Hn0 Hsi) as [Hinv _].
  unfold cl_randomize in Hrand. unfold cl_verify in *.
  destruct (sig_E sg) as [e|]; cbn [deref obind] in *; [|discriminate].
  destruct (Z.ltb_spec e (e_start (pk_params pk))) as [|Hes]; cbn [orb] in *; [discriminate|].
  destruct (Z.ltb_spec (e_end (pk_params pk)) e); [discriminate|].
  destruct (is_prime e) eqn:Ep; cbn [negb] in *; [|discriminate].
  destruct (sig_A sg) as [a|]; cbn [deref obind] in *; [|discriminate].
  assert (He : 0 < e).
  { unfold e_start in Hes. assert (0 < 2 ^ (Le (pk_params pk) - 1)) by (apply Z.pow_pos_nonneg; lia). lia. }
  unfold go_exp in Hv. destruct (Z.ltb_spec e 0); [lia|]. cbn [deref obind] in Hv.
  destruct (represent_to_pk pk ms) as [r0| |] eqn:Er; cbn [obind] in *; try discriminate.
  rewrite Hkp in Hv.
  destruct (sig_V sg) as [v|]; cbn [deref obind] in *; [|discriminate].
  inversion Hrand; subst sg'; clear Hrand. cbn [sig_E sig_A sig_V sig_KP deref obind].
  destruct (Z.ltb_spec e (e_start (pk_params pk))); [lia|].
  destruct (Z.ltb_spec (e_end (pk_params pk)) e); [lia|]. cbn [orb]. rewrite Ep. cbn [negb].
  unfold go_exp. destruct (Z.ltb_spec e 0); [lia|]. cbn [deref obind]. try rewrite Er. cbn [obind].
  set (n := pk_N pk) in *. set (s := pk_S pk) in *.
  rewrite (go_modpow_spow n Hn s sinv v Hsi) in Hv.
  rewrite (go_modpow_spow n Hn s sinv (v - e * r) Hsi).
  rewrite !powx_powm in * by lia.
  change ((a * powm n s r) mod n) with (mulm n a (powm n s r)).
  rewrite powm_mulm by lia. rewrite powm_powm by lia.
  assert (Heq : pk_Z pk = (powm n a e * r0 * spow n s sinv v) mod n).
  { destruct (Z.eqb_spec (pk_Z pk) ((powm n a e * r0 * spow n s sinv v) mod n)); [assumption|discriminate]. }
  clear Hv. f_equal. apply Z.eqb_eq.
  rewrite Heq.
  (* both sides as mulm-products *)
  assert (Hs : spow n s sinv v = mulm n (spow n s sinv (v - e * r)) (powm n s (r * e))).
  { rewrite <- (spow_add_nonneg n Hn s sinv Hinv) by nia. f_equal. lia. }
  rewrite Hs.
  set (x := powm n a e). set (y := powm n s (r * e)). set (w := spow n s sinv (v - e * r)).
  unfold mulm.
  rewrite <- (Z.mul_mod_idemp_r (x * r0)) by lia. rewrite Z.mod_mod by lia. rewrite Z.mul_mod_idemp_r by lia.
  rewrite <- Z.mul_assoc. rewrite <- (Z.mul_assoc ((x * y) mod n)).
  rewrite Z.mul_mod_idemp_l by lia. f_equal. ring.
Qed.

Fixpoint cl_randomize_list (pk : pubkey) (sg : clsig) (rs : list Z) : outcome clsig :=
  match rs with
  | [] => Ok sg
  | r :: rest => let! s' := cl_randomize pk sg r in cl_randomize_list pk s' rest
  end.

Theorem cl_randomize_list_valid_lem pk is_prime ms sinv rs : forall sg sg',
  1 < pk_N pk -> 0 < Le (pk_params pk) -> go_modinverse (pk_S pk) (pk_N pk) = Some sinv ->
  sig_KP sg = None -> Forall (fun r => 0 <= r) rs ->
  cl_verify pk is_prime sg ms = Ok true ->
  cl_randomize_list pk sg rs = Ok sg' ->
  cl_verify pk is_prime sg' ms = Ok true.
Proof.
  induction rs as [|r rest IH]; intros sg sg' Hn HLe Hsi Hkp Hrs Hv Hl; cbn in Hl.
  - now inversion Hl; subst.
  - destruct (cl_randomize pk sg r) as [s1| |] eqn:E; cbn in Hl; try discriminate.
    inversion Hrs; subst.
    apply (IH s1 sg'); auto.
    + unfold cl_randomize in E. destruct (sig_A sg); cbn in E; [|discriminate].
      destruct (sig_E sg); cbn in E; [|discriminate]. destruct (sig_V sg); cbn in E; [|discriminate].
      now inversion E.
    + eapply cl_randomize_valid_lem; eauto.
Qed.

(* wire *)
Definition of_sig (s : clsig) : val := VL [of_oZ (sig_A s); of_oZ (sig_E s); of_oZ (sig_V s); of_oZ (sig_KP s)].
