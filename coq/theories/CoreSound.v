(* What acceptance by the (repaired) verifier implies: C01, C02, C03. *)
From Coq Require Import ZArith List Lia Bool.
From Gabi Require Import Val ModArith GoSem ParamsDef ZkProof Keys Bytes Sha256 HashTool RangeProof NonRev Core CoreTotal RangeSound.
From GabiGen Require Import Consts.
Import ListNotations.
Open Scope Z_scope.

(* ---------- ranges ---------- *)

Lemma responses_in_range_true l m : responses_in_range l m = Ok true ->
  forall i r, In (i, r) l -> exists x, r = Some x /\ 0 <= x <= m.
Proof.
  induction l as [|[j q] rest IH]; cbn; [intros _ i r []|].
  destruct q as [x|]; cbn; [|discriminate].
  destruct (Z.ltb_spec x 0) as [Hx0|Hx0]; cbn; [discriminate|].
  destruct (Z.ltb_spec m x) as [Hxm|Hxm]; cbn; [discriminate|].
  intros Hr i r [Hin|Hin]; [inversion Hin; subst; exists x; split; [reflexivity|lia]|eauto].
Qed.

Lemma proofD_verify_wc_true pk p rc ch : proofD_verify_wc pk p rc ch = Ok true ->
  proofD_validate pk p = true /\ proofD_sizes pk p = Ok true /\ pd_C p = Some rc.
Proof.
  unfold proofD_verify_wc. destruct (proofD_validate pk p); cbn [negb]; [|discriminate].
  destruct (match pd_nr p with None => _ | Some _ => _ end) as [nrv| |]; cbn [obind]; try discriminate.
  destruct nrv; cbn [negb]; [|discriminate].
  destruct (proofD_sizes pk p) as [sz| |]; cbn [obind]; try discriminate.
  destruct sz; cbn [negb]; [|discriminate].
  destruct (pd_C p) as [c|]; cbn; [|discriminate].
  destruct (Z.eqb_spec c rc); [subst; auto|discriminate].
Qed.

Lemma proofD_sizes_true pk p : proofD_sizes pk p = Ok true ->
  (forall i r, In (i, r) (pd_AResp p) -> exists x, r = Some x /\ 0 <= x <= 2 ^ (LmCommit (pk_params pk) + 1) - 1) /\
  (exists e, pd_E p = Some e /\ 0 <= e <= 2 ^ (LeCommit (pk_params pk) + 1) - 1).
Proof.
  unfold proofD_sizes.
  destruct (responses_in_range (pd_AResp p) _) as [ok| |] eqn:E; cbn [obind]; try discriminate.
  destruct ok; cbn [negb]; [|discriminate].
  destruct (pd_E p) as [e|]; cbn; [|discriminate].
  intros H. inversion H as [H1]. apply andb_prop in H1 as [Ha Hb].
  apply Z.leb_le in Ha. apply Z.leb_le in Hb.
  split; [now apply responses_in_range_true|]. exists e. split; [reflexivity|lia].
Qed.

(* ---------- the challenge equation ---------- *)

Lemma proofD_contrib_head pk p ch l p' : proofD_contrib pk p ch = Ok (l, p') ->
  exists a z rest, pd_A p = Some a /\ reconstruct_z pk p = Ok z /\ l = a :: z :: rest.
Proof.
  unfold proofD_contrib. destruct (negb _); [discriminate|].
  destruct (reconstruct_z pk p) as [z| |]; cbn [obind]; try discriminate.
  destruct (pd_A p) as [a|]; cbn [deref obind]; try discriminate.
  destruct (match pd_nr p with None => _ | Some _ => _ end) as [[l1 p1]| |]; cbn [obind]; try discriminate.
  destruct (match pd_rp p with [] => _ | _ => _ end) as [l2| |]; cbn [obind]; try discriminate.
  intros [= <- <-]. do 3 eexists. repeat split; reflexivity.
Qed.

Theorem proofD_accept_lem pk p ctx nonce issig c1 c2 :
  proofD_verify pk p ctx nonce issig c1 c2 = Ok true ->
  exists a z rest,
    pd_A p = Some a /\ reconstruct_z pk p = Ok z /\
    pd_C p = Some (create_challenge ctx nonce (a :: z :: rest) issig) /\
    proofD_validate pk p = true /\
    (forall i r, In (i, r) (pd_AResp p) -> exists x, r = Some x /\ 0 <= x <= 2 ^ (LmCommit (pk_params pk) + 1) - 1) /\
    (exists e, pd_E p = Some e /\ 0 <= e <= 2 ^ (LeCommit (pk_params pk) + 1) - 1).
Proof.
  unfold proofD_verify.
  destruct (proofD_contrib pk p c1) as [[l p']| |] eqn:E; try discriminate.
  intros H. apply proofD_verify_wc_true in H as (Hv & Hs & Hc).
  destruct (proofD_contrib_head _ _ _ _ _ E) as (a & z & rest & Ha & Hz & ->).
  destruct (proofD_contrib_state _ _ _ _ _ E) as (HC & HA & HE & HV & HR & HD & HP & _).
  apply proofD_sizes_true in Hs as [Hr He].
  exists a, z, rest. repeat split; auto.
  - now rewrite <- HC.
  - unfold proofD_contrib in E. destruct (proofD_validate pk p); [reflexivity|discriminate].
  - now rewrite <- HR.
  - now rewrite <- HE.
Qed.

(* ---------- ProofList: one challenge for every member, equal responses per label ---------- *)

Definition challenge_of (pr : proof) : option Z :=
  match pr with PD p => pd_C p | PU p => pu_C p end.

Lemma proof_contrib_challenge pk pr ch l pr' : proof_contrib pk pr ch = Ok (l, pr') ->
  challenge_of pr' = challenge_of pr /\ secret_key_response pr' = secret_key_response pr.
Proof.
  destruct pr as [p|p]; cbn [proof_contrib].
  - destruct (proofD_contrib pk p ch) as [[l0 p']| |] eqn:E; cbn; try discriminate.
    intros [= <- <-]. destruct (proofD_contrib_state _ _ _ _ _ E) as (HC & _ & _ & _ & HR & _).
    cbn. now rewrite HC, HR.
  - destruct (proofU_contrib pk p); cbn; try discriminate. intros [= <- <-]. auto.
Qed.

Lemma proof_verify_wc_true pk pr rc ch : proof_verify_wc pk pr rc ch = Ok true -> challenge_of pr = Some rc.
Proof.
  destruct pr as [p|p]; cbn.
  - intros H. now apply proofD_verify_wc_true in H as (_ & _ & H).
  - unfold proofU_verify_wc. destruct (negb (proofU_validate pk p)); [discriminate|].
    destruct (pu_VPrime p); cbn; [|discriminate]. destruct (negb _); [discriminate|].
    destruct (pu_C p) as [c|]; cbn; [|discriminate]. destruct (Z.eqb_spec c rc); [subst; auto|discriminate].
Qed.

(* label of the i-th proof as ProofList.Verify computes it *)
Definition label_at (use_labels : bool) (labels : list Z) (i : nat) : Z :=
  if use_labels then nth i labels 0 else 0.

Lemma list_verify_loop_true pks : forall pl labels ul rc ch seen,
  list_verify_loop pks pl labels ul rc ch seen = Ok true -> length pl = length pks ->
  (forall i pr, nth_error pl i = Some pr -> challenge_of pr = Some rc) /\
  (forall i pr, nth_error pl i = Some pr ->
     (forall v, lookup seen (label_at ul labels i) = Some v -> v = secret_key_response pr)) /\
  (forall i j pr pr', nth_error pl i = Some pr -> nth_error pl j = Some pr' ->
     label_at ul labels i = label_at ul labels j -> secret_key_response pr = secret_key_response pr').
Proof.
  induction pks as [|pk pks IH]; intros pl labels ul rc ch seen H Hlen.
  - destruct pl; [|cbn in Hlen; lia].
    repeat split; intros i; intros; destruct i; discriminate.
  - destruct pl as [|pr0 r]; [cbn in Hlen; lia|]. cbn [list_verify_loop] in H.
    destruct (proof_verify_wc pk pr0 rc ch) as [ok| |] eqn:Ev; cbn [obind] in H; try discriminate.
    destruct ok; cbn [negb] in H; [|discriminate].
    pose proof (proof_verify_wc_true _ _ _ _ Ev) as Hc0.
    set (kss := if ul then hd 0 labels else 0) in *.
    assert (Hl0 : label_at ul labels 0 = kss).
    { unfold label_at, kss. destruct ul; [destruct labels; reflexivity|reflexivity]. }
    assert (HlS : forall i, label_at ul labels (S i) = label_at ul (tl labels) i).
    { intros i. unfold label_at. destruct ul; [|reflexivity]. destruct labels; [destruct i; reflexivity|reflexivity]. }
    destruct (lookup seen kss) as [first|] eqn:El.
    + destruct first as [a|]; cbn [deref obind] in H; [|discriminate].
      destruct (secret_key_response pr0) as [b|] eqn:Es; cbn [deref obind] in H; [|discriminate].
      destruct (Z.eqb_spec a b) as [->|]; cbn [negb] in H; [|discriminate].
      destruct (IH r (tl labels) ul rc ch seen H ltac:(cbn in Hlen; lia)) as (I1 & I2 & I3).
      split; [|split].
      * intros [|i] pr Hn; cbn in Hn; [inversion Hn; subst; exact Hc0|eauto].
      * intros [|i] pr Hn v Hv; cbn in Hn.
        -- inversion Hn; subst. rewrite Hl0, El in Hv. inversion Hv. now rewrite Es.
        -- rewrite HlS in Hv. eauto.
      * intros [|i] [|j] pr pr' Hi Hj Hl; cbn in Hi, Hj.
        -- congruence.
        -- inversion Hi; subst. rewrite Hl0, HlS in Hl. apply (I2 j pr' Hj).
           rewrite <- Hl, El. now rewrite Es.
        -- inversion Hj; subst. rewrite Hl0, HlS in Hl. symmetry. apply (I2 i pr Hi).
           rewrite Hl, El. now rewrite Es.
        -- rewrite !HlS in Hl. eauto.
    + destruct (IH r (tl labels) ul rc ch ((kss, secret_key_response pr0) :: seen) H ltac:(cbn in Hlen; lia))
        as (I1 & I2 & I3).
      split; [|split].
      * intros [|i] pr Hn; cbn in Hn; [inversion Hn; subst; exact Hc0|eauto].
      * intros [|i] pr Hn v Hv; cbn in Hn.
        -- inversion Hn; subst. rewrite Hl0, El in Hv. discriminate.
        -- rewrite HlS in Hv. apply (I2 i pr Hn). cbn [lookup].
           destruct (Z.eqb_spec kss (label_at ul (tl labels) i)) as [Heq|]; [|exact Hv].
           rewrite <- Heq, El in Hv. discriminate.
      * intros [|i] [|j] pr pr' Hi Hj Hl; cbn in Hi, Hj.
        -- congruence.
        -- inversion Hi; subst. rewrite Hl0, HlS in Hl. apply (I2 j pr' Hj).
           cbn [lookup]. rewrite Hl, Z.eqb_refl. reflexivity.
        -- inversion Hj; subst. rewrite Hl0, HlS in Hl. symmetry. apply (I2 i pr Hi).
           cbn [lookup]. rewrite <- Hl, Z.eqb_refl. reflexivity.
        -- rewrite !HlS in Hl. eauto.
Qed.

Lemma list_contribs_nth pks : forall pl ch ls pl', list_contribs pks pl ch = Ok (ls, pl') ->
  forall i pr, nth_error pl i = Some pr ->
  exists pr', nth_error pl' i = Some pr' /\ challenge_of pr' = challenge_of pr /\
              secret_key_response pr' = secret_key_response pr.
Proof.
  induction pks as [|pk pks IH]; intros pl ch ls pl' H i pr Hn.
  - destruct pl; cbn in H; [destruct i; discriminate|discriminate].
  - destruct pl as [|pr0 r]; cbn in H; [destruct i; discriminate|].
    destruct (proof_contrib pk pr0 ch) as [[l pr0']| |] eqn:E; cbn in H; try discriminate.
    destruct (list_contribs pks r ch) as [[ls0 prs]| |] eqn:E2; cbn in H; try discriminate.
    inversion H; subst. destruct i as [|i]; cbn in Hn.
    + inversion Hn; subst. exists pr0'. split; [reflexivity|]. eapply proof_contrib_challenge; eauto.
    + cbn. eapply IH; eauto.
Qed.

(* the single challenge of an accepted list *)
Definition list_challenge (pks : list pubkey) (ctx nonce : Z) (issig : bool) (pl : list proof) (c1 : nat)
  : option Z :=
  match list_contribs pks pl c1 with
  | Ok (contribs, _) => Some (create_challenge ctx nonce contribs issig)
  | _ => None
  end.

Theorem list_accept_lem pks ctx nonce issig labels pl c1 c2 :
  prooflist_verify pks ctx nonce issig labels pl c1 c2 = Ok true ->
  exists contribs pl',
    list_contribs pks pl c1 = Ok (contribs, pl') /\
    (forall i pr, nth_error pl i = Some pr ->
       challenge_of pr = Some (create_challenge ctx nonce contribs issig)) /\
    (forall i j pr pr', nth_error pl i = Some pr -> nth_error pl j = Some pr' ->
       label_at (0 <? length labels)%nat labels i = label_at (0 <? length labels)%nat labels j ->
       secret_key_response pr = secret_key_response pr').
Proof.
  unfold prooflist_verify.
  destruct (Nat.eqb_spec (length pl) 0) as [|Hn0]; cbn [orb]; [discriminate|].
  destruct (Nat.eqb_spec (length pl) (length pks)) as [Hlen|]; cbn [negb orb]; [|discriminate].
  destruct (_ && _); [discriminate|].
  destruct (list_contribs pks pl c1) as [[contribs pl']| |] eqn:E; try discriminate.
  intros H. exists contribs, pl'. split; [reflexivity|].
  destruct (list_contribs_post _ _ _ _ _ E) as [_ Hl].
  destruct (list_verify_loop_true pks pl' labels _ _ c2 [] H ltac:(lia)) as (I1 & _ & I3).
  split.
  - intros i pr Hn. destruct (list_contribs_nth _ _ _ _ _ E i pr Hn) as (pr' & Hn' & Hc & _).
    rewrite <- Hc. eauto.
  - intros i j pr pr2 Hi Hj Hlab.
    destruct (list_contribs_nth _ _ _ _ _ E i pr Hi) as (p1 & Hn1 & _ & Hs1).
    destruct (list_contribs_nth _ _ _ _ _ E j pr2 Hj) as (p2 & Hn2 & _ & Hs2).
    rewrite <- Hs1, <- Hs2. eauto.
Qed.

(* Session binding: two accepted lists that share a challenge value (in particular: that share
   a member proof) were verified for the same context, nonce, flag and ordered contribution
   sequence — or the two hashed encodings form an explicit SHA-256 collision. *)
Theorem session_binding_lem pks ctx nonce issig labels pl c1 c2
        pks' ctx' nonce' issig' labels' pl' c1' c2' pr pr' :
  prooflist_verify pks ctx nonce issig labels pl c1 c2 = Ok true ->
  prooflist_verify pks' ctx' nonce' issig' labels' pl' c1' c2' = Ok true ->
  In pr pl -> In pr' pl' -> challenge_of pr = challenge_of pr' ->
  exists contribs contribs' x x',
    list_contribs pks pl c1 = Ok (contribs, x) /\ list_contribs pks' pl' c1' = Ok (contribs', x') /\
    ((ctx = ctx' /\ nonce = nonce' /\ contribs = contribs' /\ issig = issig') \/
     collision (hash_commit_bytes issig (ctx :: contribs ++ [nonce]))
               (hash_commit_bytes issig' (ctx' :: contribs' ++ [nonce']))).
Proof.
  intros H1 H2 Hin Hin' Hc.
  destruct (list_accept_lem _ _ _ _ _ _ _ _ H1) as (cs & x & E1 & A1 & _).
  destruct (list_accept_lem _ _ _ _ _ _ _ _ H2) as (cs' & x' & E2 & A2 & _).
  apply In_nth_error in Hin as [i Hi]. apply In_nth_error in Hin' as [j Hj].
  pose proof (A1 _ _ Hi) as C1. pose proof (A2 _ _ Hj) as C2.
  rewrite Hc, C2 in C1. inversion C1 as [Heq].
  exists cs, cs', x, x'. split; [exact E1|]. split; [exact E2|].
  symmetry in Heq. now apply create_challenge_binds_lem.
Qed.

(* a list verified for a signature session never verifies as a disclosure session list with a
   shared member, and vice versa (flag is part of the hashed encoding) *)
Corollary sig_vs_disclosure_lem pks ctx nonce labels pl c1 c2 pks' ctx' nonce' labels' pl' c1' c2' pr :
  prooflist_verify pks ctx nonce true labels pl c1 c2 = Ok true ->
  prooflist_verify pks' ctx' nonce' false labels' pl' c1' c2' = Ok true ->
  In pr pl -> In pr pl' ->
  exists contribs contribs',
    collision (hash_commit_bytes true (ctx :: contribs ++ [nonce]))
              (hash_commit_bytes false (ctx' :: contribs' ++ [nonce'])).
Proof.
  intros H1 H2 Hin Hin'.
  destruct (session_binding_lem _ _ _ _ _ _ _ _ _ _ _ _ _ _ _ _ pr pr H1 H2 Hin Hin' eq_refl)
    as (cs & cs' & x & x' & _ & _ & [(_ & _ & _ & Hf)|Hcol]); [discriminate|eauto].
Qed.

Theorem empty_list_rejected_lem pks ctx nonce issig labels c1 c2 :
  prooflist_verify pks ctx nonce issig labels [] c1 c2 = Ok false.
Proof. reflexivity. Qed.

(* ---------- responses shifted by multiples of the group order ---------- *)

Fixpoint set_val (l : list (Z * option Z)) (i : Z) (x : Z) : list (Z * option Z) :=
  match l with
  | [] => []
  | (k, v) :: r => if k =? i then (k, Some x) :: set_val r i x else (k, v) :: set_val r i x
  end.

Definition with_response (p : proofD) (i x : Z) : proofD :=
  mkPd (pd_C p) (pd_A p) (pd_E p) (pd_V p) (set_val (pd_AResp p) i x) (pd_ADisc p) (pd_nr p) (pd_rp p).

Definition bases_order (pk : pubkey) (ord : Z) : Prop :=
  forall b, In b (pk_R pk) -> powm (pk_N pk) b ord = 1 mod pk_N pk.

Lemma go_modpow_nonneg b e n : 0 <= e -> n <> 0 -> go_modpow b e n = Some (powm n b e).
Proof.
  intros He Hn. unfold go_modpow, go_exp. destruct (Z.ltb_spec e 0); [lia|].
  now rewrite powx_powm.
Qed.

Lemma responses_product_shift pk ord i r k : wf_pk pk -> bases_order pk ord ->
  0 <= r -> 0 <= k -> 0 <= ord ->
  forall l acc, responses_product pk (set_val l i (r + ord * k)) acc
              = responses_product pk (set_val l i r) acc.
Proof.
  intros Hwf Hord Hr Hk Ho. pose proof (wf_pk_N pk Hwf) as Hn.
  induction l as [|[j v] rest IH]; intros acc; cbn [set_val]; [reflexivity|].
  destruct (Z.eqb_spec j i) as [->|Hne]; cbn [responses_product].
  - unfold index_R. destruct ((0 <=? i) && (i <? Z.of_nat (length (pk_R pk)))) eqn:Ei; cbn [obind]; [|reflexivity].
    cbn [deref obind].
    assert (Hin : In (nth (Z.to_nat i) (pk_R pk) 0) (pk_R pk)).
    { apply andb_prop in Ei as [E1 E2]. apply Z.leb_le in E1. apply Z.ltb_lt in E2. apply nth_In. lia. }
    rewrite !go_modpow_nonneg by nia. cbn [or_err obind].
    rewrite powm_order_shift by (auto; lia). apply IH.
  - destruct (index_R (pk_R pk) j); cbn [obind]; try reflexivity.
    destruct v; cbn [deref obind]; try reflexivity.
    destruct (go_modpow _ _ _); cbn [or_err obind]; [apply IH|reflexivity].
Qed.

Theorem reconstruct_z_shift_lem pk p ord i r k : wf_pk pk -> bases_order pk ord ->
  0 <= r -> 0 <= k -> 0 <= ord ->
  reconstruct_z pk (with_response p i (r + ord * k)) = reconstruct_z pk (with_response p i r).
Proof.
  intros Hwf Hord Hr Hk Ho. unfold reconstruct_z, with_response. cbn.
  destruct (pd_A p); cbn [deref obind]; [|reflexivity].
  destruct (disclosed_product _ _ _); cbn [obind]; try reflexivity.
  destruct (go_modinverse _ _); cbn [or_err obind]; [|reflexivity].
  destruct (pd_C p); cbn [deref obind]; [|reflexivity].
  destruct (go_modpow _ (- _) _); cbn [or_err obind]; [|reflexivity].
  destruct (pd_E p); cbn [deref obind]; [|reflexivity].
  destruct (go_modpow _ _ _); cbn [or_err obind]; [|reflexivity].
  destruct (pd_V p); cbn [deref obind]; [|reflexivity].
  destruct (go_modpow _ _ _); cbn [or_err obind]; [|reflexivity].
  now rewrite (responses_product_shift pk ord i r k).
Qed.

(* ---------- C03 ---------- *)

Theorem label_classes_equal_response_lem :
  forall pks ctx nonce issig labels pl c1 c2,
  prooflist_verify pks ctx nonce issig labels pl c1 c2 = Ok true ->
  forall i j pr pr', nth_error pl i = Some pr -> nth_error pl j = Some pr' ->
    label_at (0 <? length labels)%nat labels i = label_at (0 <? length labels)%nat labels j ->
    secret_key_response pr = secret_key_response pr' /\ challenge_of pr = challenge_of pr'.
Proof.
  intros pks ctx nonce issig labels pl c1 c2 H i j pr pr' Hi Hj Hl.
  destruct (list_accept_lem _ _ _ _ _ _ _ _ H) as (cs & x & _ & A1 & A2).
  split; [eauto|]. now rewrite (A1 _ _ Hi), (A1 _ _ Hj).
Qed.

Theorem nil_labels_means_all_lem :
  forall pks ctx nonce issig pl c1 c2,
  prooflist_verify pks ctx nonce issig [] pl c1 c2 = Ok true ->
  forall i j pr pr', nth_error pl i = Some pr -> nth_error pl j = Some pr' ->
    secret_key_response pr = secret_key_response pr'.
Proof.
  intros pks ctx nonce issig pl c1 c2 H i j pr pr' Hi Hj.
  destruct (list_accept_lem _ _ _ _ _ _ _ _ H) as (cs & x & _ & _ & A2).
  eapply A2; eauto.
Qed.

Theorem secret_response_channel_closed_lem :
  forall pk pr, proof_validate pk pr = true ->
  match pr with
  | PD p => ~ In 0 (keys (pd_ADisc p)) /\ In 0 (keys (pd_AResp p))
  | PU p => ~ In 0 (keys (pu_MUser p))
  end.
Proof.
  intros pk [p|p] Hv; unfold proof_validate in Hv.
  - destruct (proofD_validate_spec pk p Hv) as (_ & HD & _ & H0). split; [|exact H0].
    intros Hin. unfold keys in Hin. apply in_map_iff in Hin as [[i a] [Hi Hin]]. cbn in Hi. subst.
    destruct (HD _ _ Hin) as (_ & Hr & _). lia.
  - unfold proofU_validate in Hv. apply andb_prop in Hv as [_ Hm].
    intros Hin. unfold keys in Hin. apply in_map_iff in Hin as [[i a] [Hi Hin]]. cbn in Hi. subst.
    rewrite forallb_forall in Hm. specialize (Hm _ Hin). cbn [fst snd] in Hm. apply andb_prop in Hm as [_ Hr].
    unfold in_range_R in Hr. apply andb_prop in Hr as [Hr _]. apply Z.leb_le in Hr. lia.
Qed.

(* ---------- C12 ---------- *)
Theorem carried_range_proofs_on_hidden_indices_lem :
  forall pk p, proofD_validate pk p = true ->
  forall i l, In (i, l) (pd_rp p) -> In i (keys (pd_AResp p)) /\ ~ In None l /\
                                     0 <= i < Z.of_nat (length (pk_R pk)).
Proof.
  intros pk p Hv i l Hin. destruct (proofD_validate_spec pk p Hv) as (HR & _ & HP & _).
  destruct (HP i l Hin) as [Hk Hn]. split; [exact Hk|]. split; [exact Hn|].
  unfold keys in Hk. apply in_map_iff in Hk as [[j r] [Hj Hjr]]. cbn in Hj. subst j.
  now destruct (HR i r Hjr).
Qed.

Lemma c12_example_lem :
  let p := mkRp [Some 1; Some 1; Some 1] [] [] None None 8 (-1) 4 (Some 10) in
  accepted_descriptor p 10 /\ holds (rp_Sign p) (rp_A p) 10 2 /\
  proves_statement p (-1) 1 2 = true /\ proves_statement p (-1) 4611686018427387905 3 = false.
Proof.
  cbn. split; [|split; [|split]].
  - unfold accepted_descriptor. cbn. repeat split; auto; unfold max_int64; lia.
  - unfold holds. lia.
  - reflexivity.
  - reflexivity.
Qed.

(* ---------- C11 ---------- *)

(* An accepted disclosure proof with a non-revocation part: the embedded accumulator passed the
   signature check for this key (oracle), its nu is the one the proof was verified against, the
   proof's challenge is the list challenge, and the proven witness value alpha is the response
   of a hidden attribute of this same proof (one below the 2^(195+256+128+1) bound), and alpha
   is within its own bound. *)
Theorem nonrev_accept_lem pk p rc ch nr :
  proofD_verify_wc pk p rc ch = Ok true -> pd_nr p = Some nr ->
  exists idx resp a,
    lookup_ptr (pd_AResp p) idx = Some resp /\
    nr_sacc nr = SaccOk a /\ nr_Nu nr = Some (acc_Nu a) /\ nr_Chal nr = Some rc /\
    nr_result nr Salpha = Some resp /\ resp <= rev_bTwoZk.
Proof.
  unfold proofD_verify_wc. intros H Hnr. rewrite Hnr in H.
  destruct (proofD_validate pk p); cbn [negb] in H; [|discriminate].
  destruct (rev_index p ch) as [idx| |] eqn:Ei; cbn [obind] in H; try discriminate.
  destruct (idx <? 0); [discriminate|].
  destruct (lookup_ptr (pd_AResp p) idx) as [resp|] eqn:El; [|discriminate].
  destruct (nr_verify_with_challenge nr rc) as [v| |] eqn:Ev; cbn [obind] in H; try discriminate.
  destruct v; cbn [negb] in H; [|discriminate].
  destruct (nr_result nr Salpha) as [alpha|] eqn:Ea; cbn [deref obind] in H; [|discriminate].
  destruct (Z.eqb_spec alpha resp) as [->|]; [|discriminate].
  unfold nr_verify_with_challenge in Ev.
  destruct (nr_verify_structure nr); cbn [negb] in Ev; [|discriminate].
  rewrite Ea in Ev. destruct (nr_Nu nr) as [nu|]; [|discriminate]. destruct (nr_Chal nr) as [c|]; [|discriminate].
  destruct (Z.ltb_spec rev_bTwoZk resp); [discriminate|].
  destruct (nr_sacc nr) as [| | |a]; try discriminate.
  destruct (Z.eqb_spec nu (acc_Nu a)) as [->|]; cbn [negb] in Ev; [|discriminate].
  destruct (Z.eqb_spec c rc) as [->|]; [|discriminate].
  exists idx, resp, a. repeat split; auto.
Qed.

(* The challenge contribution of a disclosure proof with a non-revocation part exists only if both commitments
   C_r and C_u are invertible modulo N: a commitment that is 0 modulo N would make the relations it occurs in
   hold vacuously (a revoked holder could then forge an accepted proof). *)
Theorem nonrev_commitments_are_units_lem pk p choice l p' nr :
  proofD_contrib pk p choice = Ok (l, p') -> pd_nr p = Some nr ->
  exists cr cu, nr_Cr nr = Some cr /\ nr_Cu nr = Some cu /\ Z.gcd cr (pk_N pk) = 1 /\ Z.gcd cu (pk_N pk) = 1.
Proof.
  unfold proofD_contrib. intros H Hnr. rewrite Hnr in H.
  destruct (negb (proofD_validate pk p)); [discriminate|].
  destruct (reconstruct_z pk p); cbn [obind] in H; try discriminate.
  destruct (pd_A p); cbn [deref obind] in H; try discriminate.
  destruct (rev_index p choice) as [idx| |]; cbn [obind] in H; try discriminate.
  destruct (idx <? 0); [discriminate|].
  destruct (lookup_ptr (pd_AResp p) idx) as [resp|]; [|discriminate].
  unfold set_expected in H.
  destruct (nr_wellformed pk nr (pd_C p) (Some resp)) eqn:W; cbn [negb] in H; [|discriminate].
  unfold nr_wellformed in W. apply andb_true_iff in W as [_ W].
  destruct (nr_Cr nr) as [cr|]; [|discriminate]. destruct (nr_Cu nr) as [cu|]; [|discriminate].
  apply andb_true_iff in W as [W1 W2]. apply Z.eqb_eq in W1. apply Z.eqb_eq in W2.
  exists cr, cu. auto.
Qed.
