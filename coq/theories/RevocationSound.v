(* C09 / C10 : theorems about witness update, the product cache and event chains. *)
From Coq Require Import ZArith List Lia Bool.
From Gabi Require Import Val ModArith GoSem Bytes Sha256 NonRev CL Revocation.
Import ListNotations.
Open Scope Z_scope.

(* ---------------------------------------------------------------------------------- *)
(* C10: Hash.Equal *)

Lemma list_eqb_spec a : forall b, list_eqb a b = true <-> a = b.
Proof.
  induction a as [|x r IH]; intros [|y t]; cbn; split; intro H; try discriminate; try reflexivity.
  - apply andb_prop in H as [H1 H2]. apply Z.eqb_eq in H1. apply IH in H2. now subst.
  - inversion H; subst. rewrite Z.eqb_refl. cbn. now apply IH.
Qed.

Theorem hash_equal_is_equality_lem a b : hash_equal a b = true <-> a = b.
Proof. apply list_eqb_spec. Qed.

(* the comparison used before the repair accepted every prefix, e.g. the empty hash *)
Lemma prefix_equal_refuted : forall h, prefix_eqb [] h = true /\ prefix_eqb h [] = true.
Proof. intros h. split; [reflexivity|destruct h; reflexivity]. Qed.

(* ---------------------------------------------------------------------------------- *)
(* C10: what a verified chain looks like *)

Definition wf_hash (h : list Z) : Prop := hash_algorithm h = Ok 18.

Lemma hash_equals_ok ev h : hash_equals ev h = Ok tt ->
  wf_hash h /\ exists b, event_hash_bytes ev = Ok b /\ h = mh_sha256 b.
Proof.
  unfold hash_equals. destruct (hash_algorithm h) as [alg| |] eqn:Ea; cbn [obind]; try discriminate.
  unfold event_hash. destruct (event_hash_bytes ev) as [b| |]; cbn [obind]; try discriminate.
  destruct (hash_equal (mh_sha256 b) h) eqn:Eh; [|discriminate]. intros _.
  apply hash_equal_is_equality_lem in Eh. split.
  - unfold wf_hash. unfold hash_algorithm in *. destruct h as [|c [|l d]]; try discriminate.
    destruct ((c <? 128) && (l <? 128)); [|discriminate]. destruct (negb _); [discriminate|].
    destruct (c =? 18); [reflexivity|discriminate].
  - exists b. split; [reflexivity|now symmetry].
Qed.

(* consecutive events: the i-th event carries index start+i (mod 2^64, as Go's uint64 addition),
   each parent hash is the hash of the previous event *)
Inductive chained : event -> list event -> Z -> Prop :=
| chained_nil ev idx : chained ev [] idx
| chained_cons prev ev rest b idx :
    event_hash_bytes prev = Ok b -> ev_parent ev = mh_sha256 b ->
    ev_index ev = u64 idx -> chained ev rest (idx + 1) -> chained prev (ev :: rest) idx.

Lemma chain_ok_chained rest : forall prev idx, chain_ok prev rest idx = Ok tt -> chained prev rest idx.
Proof.
  induction rest as [|ev r IH]; intros prev idx H; [constructor|].
  cbn [chain_ok] in H.
  destruct (hash_equals prev (ev_parent ev)) as [[]| |] eqn:Eh; cbn [obind] in H; try discriminate.
  destruct (Z.eqb_spec (u64 idx) (ev_index ev)) as [Ei|]; cbn [negb] in H; [|discriminate].
  destruct (hash_equals_ok _ _ Eh) as [_ [b [Hb Hp]]].
  econstructor; eauto.
Qed.

Theorem events_verify_shape_lem events h : events_verify events h = Ok tt ->
  match events with
  | [] => True
  | first :: rest =>
    Forall (fun ev => ev_e ev <> None) events /\ wf_hash (ev_parent first) /\
    chained first rest (ev_index first + 1) /\
    exists lst b, last_event events = Some lst /\ event_hash_bytes lst = Ok b /\ h = mh_sha256 b /\ wf_hash h
  end.
Proof.
  destruct events as [|first rest]; [trivial|]. unfold events_verify.
  destruct (forallb _ (first :: rest)) eqn:Ef; cbn [negb]; [|discriminate].
  destruct (hash_algorithm (ev_parent first)) as [alg| |] eqn:Ea; cbn [obind]; try discriminate.
  destruct (last_event (first :: rest)) as [lst|] eqn:El; cbn [deref obind]; [|discriminate].
  destruct (hash_equals lst h) as [[]| |] eqn:Eh; cbn [obind]; try discriminate.
  intros Hc. split; [|split; [|split]].
  - rewrite forallb_forall in Ef. apply Forall_forall. intros ev Hin. specialize (Ef ev Hin).
    destruct (ev_e ev); [discriminate|discriminate].
  - unfold wf_hash. unfold hash_algorithm in *. destruct (ev_parent first) as [|c [|l d]]; try discriminate.
    destruct ((c <? 128) && (l <? 128)); [|discriminate]. destruct (negb _); [discriminate|].
    destruct (c =? 18); [reflexivity|discriminate].
  - now apply chain_ok_chained.
  - destruct (hash_equals_ok _ _ Eh) as [Hw [b [Hb Hp]]]. exists lst, b. auto.
Qed.

(* ---------------------------------------------------------------------------------- *)
(* C09: Witness.Update *)

(* a failed update leaves the witness exactly as it was; a successful one never moves it
   backwards, keeps its value e, and either leaves u untouched or yields a witness that is valid
   for the accumulator it now holds *)
Theorem witness_update_safe_lem n w u r w' u' :
  witness_update n w u = (r, w', u') ->
  (r <> UpdOk -> w' = w) /\
  w_E w' = w_E w /\
  ra_Index (w_acc w) <= ra_Index (w_acc w') /\
  (w' = w \/
   (w_U w' = w_U w /\ ra_Index (w_acc w') = ra_Index (w_acc w) /\ ra_Time (w_acc w) < ra_Time (w_acc w')) \/
   (witness_valid n w' (w_acc w') = true /\ ra_Index (w_acc w) < ra_Index (w_acc w'))).
Proof.
  unfold witness_update.
  assert (Hsame : forall (r0 : upd_result) (u0 : update), (r0 <> UpdOk -> w = w) /\ w_E w = w_E w /\
             ra_Index (w_acc w) <= ra_Index (w_acc w) /\
             (w = w \/ (w_U w = w_U w /\ ra_Index (w_acc w) = ra_Index (w_acc w) /\ ra_Time (w_acc w) < ra_Time (w_acc w)) \/
              (witness_valid n w (w_acc w) = true /\ ra_Index (w_acc w) < ra_Index (w_acc w)))).
  { intros. split; [auto|]. split; [auto|]. split; [lia|]. now left. }
  destruct (update_verify u) as [newAcc| |]; try (intros [= <- <- <-]; apply (Hsame _ u)).
  destruct (Z.eqb_spec (ra_Index newAcc) (ra_Index (w_acc w))) as [Ei|Ei].
  - destruct (Z.leb_spec (ra_Time newAcc) (ra_Time (w_acc w))).
    + intros [= <- <- <-]. apply (Hsame _ u).
    + intros [= <- <- <-]. cbn. split; [intros Hne; now elim Hne|]. split; [reflexivity|]. split; [lia|].
      right. left. split; [reflexivity|]. split; [exact Ei|lia].
  - destruct (up_events u) as [|first rest]; [intros [= <- <- <-]; apply (Hsame _ u)|].
    destruct (Z.leb_spec (ra_Index newAcc) (ra_Index (w_acc w))); [intros [= <- <- <-]; apply (Hsame _ u)|].
    destruct (_ <? ev_index first); [intros [= <- <- <-]; apply (Hsame _ u)|].
    destruct (update_product _ _) as [[prod u1]| |]; try (intros [= <- <- <-]; apply (Hsame _ u)).
    destruct (xgcd (w_E w) prod) as [[g a] b].
    destruct (negb (g =? 1)); [intros [= <- <- <-]; apply (Hsame _ u)|].
    destruct (spow_exp n (w_U w) b) as [ub|]; [|intros [= <- <- <-]; apply (Hsame _ u)].
    destruct (spow_exp n (ra_Nu newAcc) a) as [na|]; [|intros [= <- <- <-]; apply (Hsame _ u)].
    destruct (powx n ((ub * na) mod n) (w_E w) =? ra_Nu newAcc) eqn:Ev; cbn [negb].
    + intros [= <- <- <-]. cbn. split; [intros Hne; now elim Hne|]. split; [reflexivity|]. split; [lia|].
      right. right. split; [|lia]. unfold witness_valid. cbn. exact Ev.
    + intros [= <- <- <-]. apply (Hsame _ u).
Qed.

(* a witness whose value divides the product of the window is reported as revoked *)
Lemma xgcd_divides e p g a b : 1 < e -> (e | p) -> xgcd e p = (g, a, b) -> g <> 1.
Proof.
  intros He [k Hk] Hx. apply xgcd_bezout in Hx. subst p.
  intros ->. assert (e * (a + k * b) = 1) by lia.
  assert (Hd : (e | 1)) by (exists (a + k * b); lia).
  apply Z.divide_1_r_nonneg in Hd; lia.
Qed.

(* ---------------------------------------------------------------------------------- *)
(* C09: the product handed to a witness is the one for ITS start index, whatever the update
   object was used for before (cache invariant over any history of uses) *)

Definition window_product (u : update) (from : Z) : outcome Z :=
  match up_events u with
  | [] => Ok 1
  | first :: _ => events_product (skipZ (u64 (from - ev_index first)) (up_events u))
  end.

Definition cache_ok (u : update) : Prop :=
  match up_product u with
  | Some (p, f) => window_product u f = Ok p
  | None => True
  end.

Theorem update_product_correct_lem u from p u' :
  cache_ok u -> update_product u from = Ok (p, u') ->
  window_product u from = Ok p /\ cache_ok u' /\ up_events u' = up_events u /\ up_sacc u' = up_sacc u.
Proof.
  intros Hc. unfold update_product.
  destruct (cache_hit (up_product u) from) as [q|] eqn:Eh.
  - intros [= <- <-]. unfold cache_hit in Eh. pose proof Hc as Hc0. unfold cache_ok in Hc.
    destruct (up_product u) as [[p0 f]|] eqn:Eu; [|discriminate].
    destruct (Z.eqb_spec f from) as [->|]; [|discriminate]. inversion Eh; subst.
    split; [exact Hc|]. split; [exact Hc0|]. split; reflexivity.
  - unfold window_product. destruct (up_events u) as [|first rest] eqn:Ee.
    + intros [= <- <-]. unfold cache_ok, window_product. cbn. try rewrite Ee.
      split; [reflexivity|]. split; [reflexivity|]. split; reflexivity.
    + destruct (_ <? _); [discriminate|].
      destruct (events_product _) as [q| |] eqn:Ep; cbn [obind]; try discriminate.
      intros [= <- <-]. unfold cache_ok, window_product. cbn. try rewrite Ee.
      split; [reflexivity|]. split; [exact Ep|]. split; reflexivity.
Qed.

(* the invariant is preserved by every witness update, so it holds after any sequence of
   updates of any witnesses sharing the update object *)
Theorem witness_update_preserves_cache_lem n w u r w' u' :
  cache_ok u -> witness_update n w u = (r, w', u') ->
  cache_ok u' /\ up_events u' = up_events u /\ up_sacc u' = up_sacc u.
Proof.
  intros Hc. unfold witness_update.
  assert (Hsame : cache_ok u /\ up_events u = up_events u /\ up_sacc u = up_sacc u) by (repeat split; auto).
  destruct (update_verify u) as [newAcc| |]; [|intros [= <- <- <-]; exact Hsame|intros [= <- <- <-]; exact Hsame].
  destruct (ra_Index newAcc =? ra_Index (w_acc w)).
  { destruct (_ <=? _); intros [= <- <- <-]; exact Hsame. }
  destruct (up_events u) as [|first rest] eqn:Ee; [intros [= <- <- <-]; repeat split; auto|].
  destruct (_ <=? _); [intros [= <- <- <-]; repeat split; auto|].
  destruct (_ <? ev_index first); [intros [= <- <- <-]; repeat split; auto|].
  destruct (update_product u _) as [[prod u1]| |] eqn:Ep;
    [|intros [= <- <- <-]; repeat split; auto|intros [= <- <- <-]; repeat split; auto].
  destruct (update_product_correct_lem _ _ _ _ Hc Ep) as (_ & Hc1 & He1 & Hs1).
  assert (H1 : cache_ok u1 /\ up_events u1 = first :: rest /\ up_sacc u1 = up_sacc u).
  { split; [exact Hc1|]. split; [congruence|exact Hs1]. }
  destruct (xgcd (w_E w) prod) as [[g a] b].
  destruct (negb (g =? 1)); [intros [= <- <- <-]; exact H1|].
  destruct (spow_exp n (w_U w) b); [|intros [= <- <- <-]; exact H1].
  destruct (spow_exp n (ra_Nu newAcc) a); [|intros [= <- <- <-]; exact H1].
  destruct (negb _); intros [= <- <- <-]; exact H1.
Qed.

Fixpoint apply_updates (n : Z) (ws : list witness) (u : update) : update :=
  match ws with
  | [] => u
  | w :: r => let '(_, _, u') := witness_update n w u in apply_updates n r u'
  end.

Theorem shared_update_history_lem n ws : forall u, cache_ok u ->
  cache_ok (apply_updates n ws u) /\ up_events (apply_updates n ws u) = up_events u.
Proof.
  induction ws as [|w r IH]; intros u Hc; cbn [apply_updates]; [auto|].
  destruct (witness_update n w u) as [[res w'] u'] eqn:E.
  destruct (witness_update_preserves_cache_lem _ _ _ _ _ _ Hc E) as (Hc' & He & _).
  destruct (IH u' Hc') as [H1 H2]. split; [exact H1|congruence].
Qed.

(* ---------------------------------------------------------------------------------- *)
(* C10: the hashed bytes determine the event; two chains ending in the same signed hash agree *)

Lemma length_be_fixed n : forall z, length (be_fixed n z) = n.
Proof. induction n as [|k IH]; intros z; cbn; [reflexivity|]. rewrite app_length, IH. cbn. lia. Qed.

Lemma app_eq_length {A} (l1 l2 r1 r2 : list A) :
  length l1 = length l2 -> l1 ++ r1 = l2 ++ r2 -> l1 = l2 /\ r1 = r2.
Proof.
  revert l2. induction l1 as [|x l1 IH]; intros [|y l2] Hl H; cbn in *; try discriminate; [auto|].
  inversion H; subst. destruct (IH l2 ltac:(lia) H2) as [-> ->]. auto.
Qed.

Lemma be_to_Z_be_fixed n : forall z, be_to_Z (be_fixed n z) = z mod 256 ^ Z.of_nat n.
Proof.
  induction n as [|k IH]; intros z; cbn [be_fixed].
  - cbn. now rewrite Z.mod_1_r.
  - rewrite be_to_Z_snoc, IH. rewrite Nat2Z.inj_succ, Z.pow_succ_r by lia.
    assert (Hp : 0 < 256 ^ Z.of_nat k) by (apply Z.pow_pos_nonneg; lia).
    rewrite Z.rem_mul_r by lia. lia.
Qed.

Lemma be_fixed_inj n z z' : 0 <= z < 256 ^ Z.of_nat n -> 0 <= z' < 256 ^ Z.of_nat n ->
  be_fixed n z = be_fixed n z' -> z = z'.
Proof.
  intros Hz Hz' H. apply (f_equal be_to_Z) in H. rewrite !be_to_Z_be_fixed in H.
  now rewrite !Z.mod_small in H by lia.
Qed.

Lemma be_bytes_inj z z' : 0 <= z -> 0 <= z' -> be_bytes z = be_bytes z' -> z = z'.
Proof. intros Hz Hz' H. apply (f_equal be_to_Z) in H. now rewrite !be_bytes_roundtrip in H by lia. Qed.

Lemma wf_hash_split p q r r' : wf_hash p -> wf_hash q -> p ++ r = q ++ r' -> p = q /\ r = r'.
Proof.
  unfold wf_hash, hash_algorithm. intros Hp Hq H.
  destruct p as [|c [|l d]]; try discriminate. destruct q as [|c' [|l' d']]; try discriminate.
  destruct ((c <? 128) && (l <? 128)); [|discriminate].
  destruct ((c' <? 128) && (l' <? 128)); [|discriminate].
  destruct (Z.eqb_spec (Z.of_nat (length d)) l) as [Hl|]; cbn [negb] in Hp; [|discriminate].
  destruct (Z.eqb_spec (Z.of_nat (length d')) l') as [Hl'|]; cbn [negb] in Hq; [|discriminate].
  cbn in H. inversion H as [[Hc Hll Hd]]. subst.
  apply app_eq_length in Hd as [-> ->]; [auto|lia].
Qed.

Definition wf_event (ev : event) : Prop :=
  0 <= ev_index ev < 2 ^ 64 /\ wf_hash (ev_parent ev) /\ exists e, ev_e ev = Some e /\ 0 <= e.

Lemma event_bytes_inj ev ev' b : wf_event ev -> wf_event ev' ->
  event_hash_bytes ev = Ok b -> event_hash_bytes ev' = Ok b -> ev = ev'.
Proof.
  intros (Hi & Hp & e & He & He0) (Hi' & Hp' & e' & He' & He0'). unfold event_hash_bytes.
  rewrite He, He'. cbn [deref obind]. intros H0 H. rewrite <- H0 in H. clear H0.
  apply (f_equal (fun o => match o with Ok v => v | _ => [] end)) in H. cbv beta iota in H. symmetry in H.
  apply app_eq_length in H as [H1 H2]; [|now rewrite !length_be_fixed].
  apply be_fixed_inj in H1; [|change (256 ^ Z.of_nat 8) with (2 ^ 64); lia|change (256 ^ Z.of_nat 8) with (2 ^ 64); lia].
  apply wf_hash_split in H2 as [H2 H3]; auto.
  apply be_bytes_inj in H3; auto.
  destruct ev, ev'. cbn in *. subst. reflexivity.
Qed.

(* explicit SHA-256 collision between two byte strings (digest lists) *)
Definition collision_l (x y : list Z) : Prop := x <> y /\ sha256 x = sha256 y.

Lemma mh_eq_cases b b' : mh_sha256 b = mh_sha256 b' -> b = b' \/ collision_l b b'.
Proof.
  unfold mh_sha256. intros [= H]. destruct (list_eq_dec Z.eq_dec b b'); [now left|right; split; auto].
Qed.

(* chains written newest-first *)
Inductive rchain : list event -> Prop :=
| rchain_one ev : wf_event ev -> rchain [ev]
| rchain_cons ev prev rest b :
    wf_event ev -> event_hash_bytes prev = Ok b -> ev_parent ev = mh_sha256 b ->
    rchain (prev :: rest) -> rchain (ev :: prev :: rest).

Definition some_collision : Prop := exists x y, collision_l x y.

(* two newest-first chains whose newest events have the same hashed bytes agree event by event
   as far as both reach, unless an explicit collision exists *)
Theorem rchain_agree l : forall l' b,
  rchain l -> rchain l' ->
  (exists ev r, l = ev :: r /\ event_hash_bytes ev = Ok b) ->
  (exists ev' r', l' = ev' :: r' /\ event_hash_bytes ev' = Ok b) ->
  some_collision \/ (forall i ev ev', nth_error l i = Some ev -> nth_error l' i = Some ev' -> ev = ev').
Proof.
  induction l as [|ev r IH]; intros l' b Hc Hc' (ev0 & r0 & Hl & Hb) (ev0' & r0' & Hl' & Hb').
  - discriminate.
  - inversion Hl; subst ev0 r0. subst l'.
    assert (Hwf : wf_event ev) by (inversion Hc; auto).
    assert (Hwf' : wf_event ev0') by (inversion Hc'; auto).
    pose proof (event_bytes_inj _ _ _ Hwf Hwf' Hb Hb') as <-.
    inversion Hc as [? Hw|? prev rest bp Hw Hbp Hpar Hrest]; subst.
    + right. intros [|i] e1 e2 H1 H2; cbn in *; [congruence|destruct i; discriminate].
    + inversion Hc' as [? Hw'|? prev' rest' bp' Hw' Hbp' Hpar' Hrest']; subst.
      * right. intros [|i] e1 e2 H1 H2; cbn in *; [congruence|destruct i; discriminate].
      * rewrite Hpar in Hpar'. apply mh_eq_cases in Hpar' as [->|Hcol]; [|left; now exists bp, bp'].
        destruct (IH (prev' :: rest') bp' Hrest Hrest') as [Hcol|Hag]; eauto.
        right. intros [|i] e1 e2 H1 H2; cbn in *; [congruence|eauto].
Qed.

Lemma length_sha256 msg : length (sha256 msg) = 32%nat.
Proof.
  unfold sha256, sha256_words.
  destruct (blocks _ _ _) as [[[[[[[a b] c] d] e] f] g] h]. reflexivity.
Qed.

Lemma wf_hash_mh b : wf_hash (mh_sha256 b).
Proof. unfold wf_hash, mh_sha256, hash_algorithm. cbn [Z.ltb andb]. rewrite length_sha256. reflexivity. Qed.

(* what the decoders guarantee for every event: uint64 index, non-negative attribute *)
Definition decoded (ev : event) : Prop := 0 <= ev_index ev < 2 ^ 64 /\ exists e, ev_e ev = Some e /\ 0 <= e.

Lemma chained_rchain rest : forall prev idx acc,
  chained prev rest idx -> Forall decoded rest -> rchain (prev :: acc) -> rchain (rev_append rest (prev :: acc)).
Proof.
  induction rest as [|ev r IH]; intros prev idx acc Hc Hd Hr; cbn [rev_append]; [exact Hr|].
  inversion Hc as [|? ? ? b ? Hb Hp Hi Hrest]; subst. inversion Hd as [|? ? Hdev Hdr]; subst.
  apply (IH ev (idx + 1) (prev :: acc) Hrest Hdr).
  apply (rchain_cons ev prev acc b); auto.
  destruct Hdev as [Hidx He]. split; [exact Hidx|]. split; [rewrite Hp; apply wf_hash_mh|exact He].
Qed.

Lemma events_verify_rchain events h : events <> [] -> Forall decoded events ->
  events_verify events h = Ok tt ->
  rchain (rev events) /\ exists lst b, hd_error (rev events) = Some lst /\ event_hash_bytes lst = Ok b /\ h = mh_sha256 b.
Proof.
  intros Hne Hd Hv. pose proof (events_verify_shape_lem _ _ Hv) as Hs.
  destruct events as [|first rest]; [contradiction|].
  destruct Hs as (_ & Hwf & Hch & lst & b & Hl & Hb & Hh & _).
  inversion Hd as [|? ? Hdf Hdr]; subst.
  assert (Hr1 : rchain [first]).
  { constructor. destruct Hdf as [Hi He]. split; [exact Hi|]. split; [exact Hwf|exact He]. }
  pose proof (chained_rchain rest first _ [] Hch Hdr Hr1) as Hr.
  rewrite rev_append_rev in Hr. replace (rev rest ++ [first]) with (rev (first :: rest)) in Hr by reflexivity.
  split; [exact Hr|]. exists lst, b. split; [|auto].
  (* the last event of the list is the head of the reversed list *)
  unfold last_event in Hl. clear -Hl.
  assert (Hgen : forall l : list event, last (map Some l) None = hd_error (rev l)).
  { induction l as [|x l IH] using rev_ind; [reflexivity|].
    rewrite map_app, rev_app_distr. cbn. now rewrite last_last. }
  now rewrite <- Hgen.
Qed.

(* Two event lists accepted against the same signed event hash agree position by position
   counted from the newest event (so one is a suffix of the other: an older prefix may be
   missing, nothing else can differ), unless an explicit SHA-256 collision exists. *)
Theorem chain_unique_lem l l' h :
  l <> [] -> l' <> [] -> Forall decoded l -> Forall decoded l' ->
  events_verify l h = Ok tt -> events_verify l' h = Ok tt ->
  some_collision \/
  (forall i ev ev', nth_error (rev l) i = Some ev -> nth_error (rev l') i = Some ev' -> ev = ev').
Proof.
  intros Hn Hn' Hd Hd' Hv Hv'.
  destruct (events_verify_rchain _ _ Hn Hd Hv) as (Hr & lst & b & Hh & Hb & Hm).
  destruct (events_verify_rchain _ _ Hn' Hd' Hv') as (Hr' & lst' & b' & Hh' & Hb' & Hm').
  rewrite Hm in Hm'. apply mh_eq_cases in Hm' as [<-|Hcol]; [|left; now exists b, b'].
  apply (rchain_agree (rev l) (rev l') b Hr Hr').
  - destruct (rev l) as [|x r]; [discriminate|]. cbn in Hh. inversion Hh; subst. eauto.
  - destruct (rev l') as [|x r]; [discriminate|]. cbn in Hh'. inversion Hh'; subst. eauto.
Qed.

(* Update.Verify / Witness.Update / Prepend succeed only if the accumulator's signature verified
   (oracle) and the events form such a chain *)
Theorem update_verify_requires_lem u acc : update_verify u = Ok acc ->
  up_sacc u = SvOk acc /\ events_verify (up_events u) (ra_EventHash acc) = Ok tt.
Proof.
  unfold update_verify. destruct (up_sacc u) as [| |a]; cbn; try discriminate.
  destruct (events_verify (up_events u) (ra_EventHash a)) as [[]| |] eqn:E; cbn; try discriminate.
  intros [= <-]. auto.
Qed.

(* a failed Prepend leaves the update untouched; a successful one holds a verified chain *)
Theorem prepend_atomic_lem u evs p r u' : update_prepend u evs p = (r, u') ->
  (r <> PrepOk -> u' = u) /\
  (r = PrepOk -> evs = [] \/ exists acc, up_sacc u = SvOk acc /\ up_sacc u' = up_sacc u /\
                                          events_verify (up_events u') (ra_EventHash acc) = Ok tt).
Proof.
  unfold update_prepend. destruct evs as [|e0 er]; [intros [= <- <-]; split; [auto|intros; now left]|].
  destruct (up_events u) as [|first rest]; [intros [= <- <-]; split; [auto|discriminate]|].
  destruct (last_event (e0 :: er)) as [lastEv|]; [|intros [= <- <-]; split; [auto|discriminate]].
  destruct (_ <? u64 _); [intros [= <- <-]; split; [auto|discriminate]|].
  destruct (_ <? u64 _); [intros [= <- <-]; split; [auto|discriminate]|].
  destruct (events_product _) as [pp| |]; try (intros [= <- <-]; split; [auto|discriminate]).
  destruct (up_sacc u) as [| |acc] eqn:Es; try (intros [= <- <-]; split; [auto|discriminate]).
  destruct (events_verify _ (ra_EventHash acc)) as [[]| |] eqn:Ev; try (intros [= <- <-]; split; [auto|discriminate]).
  intros [= <- <-]. split; [intros H; now elim H|]. intros _. right. exists acc. cbn. auto.
Qed.
