(* C14: completeness of the joint (user + keyshare server) issuance commitment proof. The builder made with the
   server's P = R_0^skS holds U = S^v' * R_0^(skU + skS) * ...; its commitment started from the server's R_0^rS and its
   ProofU merged with the server's response (MergeProofP, new protocol) are exactly the commitment and the proof of a
   single holder of the joint secret skU + skS with the randomizer rU + rS, so the issuer reconstructs the hashed
   commitment. *)
From Coq Require Import ZArith List Bool Lia.
From GabiGen Require Import Consts.
From Gabi Require Import Val ModArith GoSem ParamsDef ZkProof Keys RangeProof HashTool NonRev Core CL Prover Keyshare
                         SignedPow DiscloseComplete IssueComplete.
Import ListNotations.
Open Scope Z_scope.

Section JointIssue.
Variable pk : pubkey.
Notation n := (pk_N pk).
Hypothesis Hn : 1 < n.

(* without reduction the product is linear in its starting value *)
Lemma keyed_product_linear : forall m acc acc' r,
  keyed_product pk m acc false = Ok r ->
  exists T, r = acc * T /\ keyed_product pk m acc' false = Ok (acc' * T).
Proof.
  induction m as [|[i x] rest IH]; intros acc acc' r H; cbn [keyed_product] in *.
  - inversion H; subst. exists 1. split; [ring|]. f_equal. ring.
  - destruct (index_R (pk_R pk) i) as [base| |]; cbn [obind] in *; try discriminate.
    destruct (go_exp base x n) as [t|]; cbn [deref obind] in *; [|discriminate].
    destruct (IH _ (acc' * t) _ H) as (T & -> & H'). exists (t * T). split; [ring|].
    rewrite H'. f_equal. ring.
Qed.

Lemma go_exp_nn b e : 0 <= e -> go_exp b e n = Some (powm n b e).
Proof. intros He. unfold go_exp. destruct (Z.ltb_spec e 0); [lia|]. now rewrite powx_powm by lia. Qed.

Lemma user_commitment_joint skU skS vPrime mUser r0 u :
  index_R (pk_R pk) 0 = Ok r0 -> 0 <= skU -> 0 <= skS ->
  user_commitment pk skU vPrime mUser = Ok u ->
  user_commitment pk (skU + skS) vPrime mUser = Ok ((u * powx n r0 skS) mod n).
Proof.
  intros Hr0 HU HS H. unfold user_commitment in *.
  destruct (go_exp (pk_S pk) vPrime n) as [sv|]; cbn [deref obind] in *; [|discriminate].
  rewrite Hr0 in *. cbn [obind] in *.
  rewrite go_exp_nn in * by lia. cbn [deref obind] in *.
  destruct (keyed_product pk mUser (sv * powm n r0 skU) false) as [w| |] eqn:Ew; cbn [obind] in H; try discriminate.
  inversion H; subst u. clear H.
  destruct (keyed_product_linear _ _ (sv * powm n r0 (skU + skS)) _ Ew) as (T & -> & ->). cbn [obind].
  f_equal. rewrite powx_powm by lia. rewrite powm_add by lia. unfold mulm.
  rewrite Z.mul_mod_idemp_l by lia.
  replace (sv * ((powm n r0 skU * powm n r0 skS) mod n) * T) with ((sv * T) * ((powm n r0 skU * powm n r0 skS) mod n)) by ring.
  rewrite Z.mul_mod_idemp_r by lia. f_equal. ring.
Qed.

Theorem keyshare_joint_issuance_complete_lem skU skS rU rS vPrime vPrimeCommit mUser mc c r0 bU l pJ :
  unitb pk (pk_S pk) -> in_R pk 0 -> unitb pk (R_at pk 0) ->
  (forall kv, In kv mUser -> in_R pk (fst kv) /\ unitb pk (R_at pk (fst kv))) ->
  0 <= c -> 0 <= skU -> 0 <= skS -> 0 <= rU -> 0 <= rS ->
  index_R (pk_R pk) 0 = Ok r0 ->
  new_credential_builder pk skU (Some (powx n r0 skS)) vPrime vPrimeCommit mUser (mck mc mUser) = Ok bU ->
  (forall kv, In kv mUser -> lookup (mck mc mUser) (fst kv) = Some (mc (fst kv))) ->
  cb_commit pk bU rU (Some (powx n r0 rS)) = Ok l ->
  merge_proofP_U pk (cb_create_proof bU rU c) None c (rS + c * skS + (rU + c * skU)) = Ok pJ ->
  exists uc, l = [cb_u bU; uc] /\ reconstruct_ucommit pk pJ = Ok uc.
Proof.
  intros US H0 U0 HmU Hc HskU HskS HrU HrS Hr0 HbU Hlook Hcommit Hmerge.
  (* the single-holder builder of the joint secret *)
  set (bJ := mkCb (skU + skS) vPrime vPrimeCommit (cb_u bU) None mUser (mck mc mUser)).
  assert (HbJ : new_credential_builder pk (skU + skS) None vPrime vPrimeCommit mUser (mck mc mUser) = Ok bJ /\
                cb_vPrime bU = vPrime /\ cb_vPrimeCommit bU = vPrimeCommit /\ cb_mUser bU = mUser /\
                cb_mUserCommit bU = mck mc mUser /\ cb_secret bU = skU).
  { unfold new_credential_builder in *.
    destruct (user_commitment pk skU vPrime mUser) as [u| |] eqn:Eu; cbn [obind] in HbU; try discriminate.
    rewrite (user_commitment_joint skU skS vPrime mUser r0 u Hr0 HskU HskS Eu). cbn [obind].
    inversion HbU; subst bU. cbn [cb_u cb_vPrime cb_vPrimeCommit cb_mUser cb_mUserCommit cb_secret] in *.
    unfold bJ. cbn [cb_u]. repeat split; reflexivity. }
  destruct HbJ as (HbJ & EvP & EvC & EmU & EmC & Esec).
  (* same commitment list *)
  assert (HcommitJ : cb_commit pk bJ (rU + rS) None = Ok l).
  { unfold cb_commit in *. cbn [bJ cb_vPrimeCommit cb_mUser cb_mUserCommit cb_u].
    rewrite EvC, EmU, EmC in Hcommit.
    destruct (go_exp (pk_S pk) vPrimeCommit n) as [sv|]; cbn [deref obind] in *; [|discriminate].
    rewrite Hr0 in *. cbn [obind] in *. rewrite go_exp_nn in * by lia. cbn [deref obind] in *.
    rewrite <- Hcommit. f_equal.
    assert (E : (1 * sv * powm n r0 (rU + rS)) mod n = (powx n r0 rS * sv * powm n r0 rU) mod n).
    { rewrite powx_powm by lia. rewrite powm_add by lia. unfold mulm.
      replace (1 * sv * ((powm n r0 rU * powm n r0 rS) mod n)) with (sv * ((powm n r0 rU * powm n r0 rS) mod n)) by ring.
      rewrite Z.mul_mod_idemp_r by lia. f_equal. ring. }
    now rewrite E. }
  (* same proof *)
  assert (HpJ : pJ = cb_create_proof bJ (rU + rS) c).
  { unfold merge_proofP_U, cb_create_proof in *. cbn [pu_C pu_S pu_U pu_VPrime pu_MUser deref obind] in Hmerge.
    inversion Hmerge. cbn [bJ cb_u cb_vPrime cb_vPrimeCommit cb_secret cb_mUser cb_mUserCommit].
    rewrite EvP, EvC, EmU, EmC. f_equal. f_equal. ring. }
  subst pJ.
  assert (Eu : cb_u bU = cb_u bJ) by reflexivity. rewrite Eu.
  apply (issue_complete_lem pk Hn (skU + skS) vPrime vPrimeCommit mUser mc (rU + rS) c bJ l); assumption.
Qed.

End JointIssue.

(* the premises are satisfiable: toy key N = 7 * 11, S = 9, R = [4; 16]; user share 3, server share 4, v' = 5;
   randomizers rU = 6, rS = 7, v'-randomizer 8; challenge 10 *)
Example keyshare_joint_issuance_nonvacuous :
  let pk := mkPk 77 43 9 None None [4; 16] params_1024 0 false in
  exists bU l pJ uc,
    new_credential_builder pk 3 (Some (powx 77 4 4)) 5 8 [] [] = Ok bU /\
    cb_commit pk bU 6 (Some (powx 77 4 7)) = Ok l /\
    merge_proofP_U pk (cb_create_proof bU 6 10) None 10 (7 + 10 * 4 + (6 + 10 * 3)) = Ok pJ /\
    l = [cb_u bU; uc] /\ reconstruct_ucommit pk pJ = Ok uc.
Proof. cbv zeta. do 4 eexists. repeat split; vm_compute; reflexivity. Qed.
