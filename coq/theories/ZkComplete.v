(* Completeness of zkproof.QrRepresentationProofStructure proofs in the model, for exponents of either sign:
   the verifier's reconstruction from honest responses (randomizer + challenge * secret) equals the prover's
   commitment, whenever the statement holds for the secrets and every base involved is a unit modulo n. *)
From Coq Require Import ZArith List Bool Lia.
From Gabi Require Import Val ModArith GoSem ZkProof SignedPow.
Import ListNotations.
Open Scope Z_scope.

Lemma exp_into_unit strict n bases prev name e b bi :
  1 < n -> bases name = Some b -> go_modinverse b n = Some bi ->
  exp_into strict n bases prev name e = Ok (spw n b bi e).
Proof.
  intros Hn Hb Hi. unfold exp_into, spw. rewrite Hb. unfold go_exp. rewrite Hi.
  destruct (e <? 0); now rewrite powx_powm by lia.
Qed.

(* a right-hand side resolved against a base look-up and a value look-up: (base, inverse, exponent) *)
Fixpoint resolve_q (n : Z) (bases : bname -> option Z) (vals : sname -> option Z) (l : list rhs) : option (list (Z * Z * Z)) :=
  match l with
  | [] => Some []
  | r :: rest =>
    match bases (rhs_base r), vals (rhs_secret r), resolve_q n bases vals rest with
    | Some b, Some x, Some t =>
      match go_modinverse b n with
      | Some bi => Some ((b, bi, rhs_power r * x) :: t)
      | None => None
      end
    | _, _, _ => None
    end
  end.

Lemma rhs_fold_resolved strict n bases vals l : forall ts contribution commitment,
  1 < n -> resolve_q n bases vals l = Some ts ->
  rhs_fold strict n bases vals l contribution commitment =
  Ok (fold_left (fun a t => (a * spw n (fst (fst t)) (snd (fst t)) (snd t)) mod n) ts commitment).
Proof.
  induction l as [|r rest IH]; intros ts contribution commitment Hn H; cbn [resolve_q rhs_fold] in *.
  - inversion H; subst. reflexivity.
  - destruct (bases (rhs_base r)) as [b|] eqn:Eb; [|discriminate].
    destruct (vals (rhs_secret r)) as [x|] eqn:Ex; [|discriminate].
    destruct (resolve_q n bases vals rest) as [t|] eqn:Er; [|discriminate].
    destruct (go_modinverse b n) as [bi|] eqn:Ei; [|discriminate].
    inversion H; subst ts. cbn [fst snd] in *.
    cbn [deref obind]. rewrite (exp_into_unit strict n bases contribution _ _ b bi Hn Eb Ei). cbn [obind].
    rewrite (IH t _ _ Hn eq_refl). reflexivity.
Qed.

Lemma resolve_q_three n bases sec rnd res c : forall l ts_s ts_r ts_v,
  resolve_q n bases sec l = Some ts_s -> resolve_q n bases rnd l = Some ts_r -> resolve_q n bases res l = Some ts_v ->
  (forall r x y z, In r l -> sec (rhs_secret r) = Some x -> rnd (rhs_secret r) = Some y -> res (rhs_secret r) = Some z -> z = y + c * x) ->
  exists ts : list sterm,
    map (fun t => (s_b t, s_bi t, s_es t)) ts = ts_s /\
    map (fun t => (s_b t, s_bi t, s_er t)) ts = ts_r /\
    map (fun t => (s_b t, s_bi t, s_er t + c * s_es t)) ts = ts_v /\
    Forall (fun t => go_modinverse (s_b t) n = Some (s_bi t)) ts.
Proof.
  induction l as [|r rest IH]; intros ts_s ts_r ts_v Hs Hr Hv Hresp; cbn [resolve_q] in *.
  - inversion Hs; inversion Hr; inversion Hv. exists []. auto.
  - destruct (bases (rhs_base r)) as [b|]; [|discriminate].
    destruct (sec (rhs_secret r)) as [x|] eqn:E1; [|discriminate].
    destruct (rnd (rhs_secret r)) as [y|] eqn:E2; [|discriminate].
    destruct (res (rhs_secret r)) as [z|] eqn:E3; [|discriminate].
    destruct (resolve_q n bases sec rest) as [a1|]; [|discriminate].
    destruct (resolve_q n bases rnd rest) as [a2|]; [|discriminate].
    destruct (resolve_q n bases res rest) as [a3|]; [|discriminate].
    destruct (go_modinverse b n) as [bi|] eqn:Ei; [|discriminate].
    destruct (IH a1 a2 a3 eq_refl eq_refl eq_refl) as (ts & F1 & F2 & F3 & F4).
    { intros r0 x0 y0 z0 Hin. apply Hresp. now right. }
    inversion Hs; inversion Hr; inversion Hv; subst.
    pose proof (Hresp r x y z (or_introl eq_refl) E1 E2 E3) as ->.
    exists (mkS b bi (rhs_power r * x) (rhs_power r * y) :: ts). cbn [map s_b s_bi s_es s_er].
    repeat split; try reflexivity.
    + f_equal. f_equal. ring.
    + constructor; [exact Ei|exact F4].
Qed.

Lemma fold_left_map_q {A B C} (f : A -> B -> A) (h : C -> B) (l : list C) : forall a,
  fold_left f (map h l) a = fold_left (fun a x => f a (h x)) l a.
Proof. induction l as [|x r IH]; intros a; cbn; [reflexivity|apply IH]. Qed.

Lemma inverse_is_unit n b bi : 1 < n -> go_modinverse b n = Some bi -> mulm n b bi = 1.
Proof.
  intros Hn H. apply go_modinverse_sound in H; [|lia]. destruct H as [H _]. rewrite H. apply Z.mod_small. lia.
Qed.

Theorem qr_complete_lem strict n bases sec rnd res c s lhs linv ts_s ts_r ts_v :
  1 < n -> 0 <= c ->
  lhs_fold strict n bases (q_lhs s) 0 1 = Ok lhs ->
  go_modinverse lhs n = Some linv ->
  resolve_q n bases sec (q_rhs s) = Some ts_s ->
  resolve_q n bases rnd (q_rhs s) = Some ts_r ->
  resolve_q n bases res (q_rhs s) = Some ts_v ->
  (forall r x y z, In r (q_rhs s) -> sec (rhs_secret r) = Some x -> rnd (rhs_secret r) = Some y -> res (rhs_secret r) = Some z -> z = y + c * x) ->
  (* the statement holds for the secrets *)
  rhs_fold strict n bases sec (q_rhs s) 0 1 = Ok (lhs mod n) ->
  qr_from_proof_gen strict n bases res c s = qr_from_secrets_gen strict n bases rnd s.
Proof.
  intros Hn Hc Hl Hinv Hs Hr Hv Hresp Htrue.
  destruct (resolve_q_three n bases sec rnd res c _ _ _ _ Hs Hr Hv Hresp) as (ts & E1 & E2 & E3 & Hu).
  assert (Ec : (c <? 0) = false) by (apply Z.ltb_ge; lia).
  pose proof (inverse_is_unit n lhs linv Hn Hinv) as Hinv'.
  unfold qr_from_proof_gen, qr_from_secrets_gen. rewrite Hl. cbn [obind]. rewrite Hinv.
  unfold go_exp. rewrite Ec. cbn [deref obind]. rewrite powx_powm by lia.
  rewrite (rhs_fold_resolved strict n bases res _ ts_v 0 _ Hn Hv).
  rewrite (rhs_fold_resolved strict n bases rnd _ ts_r 0 1 Hn Hr).
  rewrite (rhs_fold_resolved strict n bases sec _ ts_s 0 1 Hn Hs) in Htrue.
  inversion Htrue as [Heq]. f_equal. subst ts_s ts_r ts_v.
  rewrite !fold_left_map_q in *. cbn [fst snd] in *.
  change (sfold n (fun t => s_er t + c * s_es t) ts (powm n linv c) = sfold n s_er ts 1).
  change (fold_left _ ts 1) with (sfold n s_es ts 1) in Heq.
  apply (signed_sigma_complete n Hn c ts lhs linv); try assumption.
  - eapply Forall_impl; [|exact Hu]. intros t Ht. now apply inverse_is_unit.
  - rewrite <- Heq.
    assert (R : 0 <= sfold n s_es ts 1 < n) by (apply sfold_range; lia).
    rewrite <- (Z.mod_small _ _ R) at 1. rewrite sfold_mod by lia. rewrite mulm_1_l by lia.
    apply Z.mod_small. apply sprod_range. lia.
Qed.
