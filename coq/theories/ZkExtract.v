(* The two-transcript relation for zkproof.QrRepresentationProofStructure in the model. *)
From Coq Require Import ZArith List Bool Lia.
From Gabi Require Import Val ModArith GoSem ZkProof SignedPow ZkComplete Extractor.
Import ListNotations.
Open Scope Z_scope.

Lemma resolve_q_two n bases res res' : forall l ts ts',
  resolve_q n bases res l = Some ts -> resolve_q n bases res' l = Some ts' ->
  exists terms : list sterm,
    map (fun t => (s_b t, s_bi t, s_es t)) terms = ts /\
    map (fun t => (s_b t, s_bi t, s_er t)) terms = ts' /\
    Forall (fun t => go_modinverse (s_b t) n = Some (s_bi t)) terms.
Proof.
  induction l as [|r rest IH]; intros ts ts' H H'; cbn [resolve_q] in *.
  - inversion H; inversion H'. exists []. cbn. auto.
  - destruct (bases (rhs_base r)) as [b|]; [|discriminate].
    destruct (res (rhs_secret r)) as [x|] eqn:E1; [|discriminate].
    destruct (res' (rhs_secret r)) as [y|] eqn:E2; [|discriminate].
    destruct (resolve_q n bases res rest) as [a1|]; [|discriminate].
    destruct (resolve_q n bases res' rest) as [a2|]; [|discriminate].
    destruct (go_modinverse b n) as [bi|] eqn:Ei; [|discriminate].
    destruct (IH a1 a2 eq_refl eq_refl) as (terms & F1 & F2 & F3).
    inversion H; inversion H'; subst.
    exists (mkS b bi (rhs_power r * x) (rhs_power r * y) :: terms). cbn [map s_b s_bi s_es s_er].
    repeat split; try reflexivity. constructor; assumption.
Qed.

(* Two accepting transcripts of the same statement with the same commitment T and challenges c >= c': the
   exponent differences pw_i * (response_i - response_i') represent lhs^(c - c') over the bases. *)
Theorem qr_two_transcripts_lem strict n bases res res' c c' s lhs linv ts ts' T :
  1 < n -> 0 <= c' <= c ->
  lhs_fold strict n bases (q_lhs s) 0 1 = Ok lhs -> go_modinverse lhs n = Some linv ->
  resolve_q n bases res (q_rhs s) = Some ts -> resolve_q n bases res' (q_rhs s) = Some ts' ->
  qr_from_proof_gen strict n bases res c s = Ok T ->
  qr_from_proof_gen strict n bases res' c' s = Ok T ->
  exists terms : list sterm,
    map (fun t => (s_b t, s_bi t, s_es t)) terms = ts /\ map (fun t => (s_b t, s_bi t, s_er t)) terms = ts' /\
    sprod n (fun t => s_es t - s_er t) terms = powm n lhs (c - c').
Proof.
  intros Hn Hc Hl Hinv Hr Hr' H1 H2.
  destruct (resolve_q_two n bases res res' _ _ _ Hr Hr') as (terms & F1 & F2 & F3).
  exists terms. split; [exact F1|]. split; [exact F2|].
  assert (E0 : forall k, 0 <= k -> (k <? 0) = false) by (intros; apply Z.ltb_ge; lia).
  unfold qr_from_proof_gen in H1, H2. rewrite Hl in H1, H2. cbn [obind] in H1, H2. rewrite Hinv in H1, H2.
  unfold go_exp in H1, H2. rewrite (E0 c) in H1 by lia. rewrite (E0 c') in H2 by lia. cbn [deref obind] in H1, H2.
  rewrite powx_powm in H1, H2 by lia.
  rewrite (rhs_fold_resolved strict n bases res _ ts 0 _ Hn Hr) in H1.
  rewrite (rhs_fold_resolved strict n bases res' _ ts' 0 _ Hn Hr') in H2.
  subst ts ts'. rewrite !fold_left_map_q in H1, H2. cbn [fst snd] in H1, H2.
  change (Ok (sfold n s_es terms (powm n linv c)) = Ok T) in H1.
  change (Ok (sfold n s_er terms (powm n linv c')) = Ok T) in H2.
  apply (two_transcripts_relation n Hn terms lhs linv c c' s_es s_er).
  - eapply Forall_impl; [|exact F3]. intros t Ht. now apply (inverse_is_unit n).
  - now apply (inverse_is_unit n).
  - exact Hc.
  - congruence.
Qed.
