(* Signed powers of a unit modulo n: b^e for e >= 0 and (b^-1)^(-e) for e < 0, as math/big's Exp computes
   them, with the laws needed for completeness arguments with exponents of either sign. *)
From Coq Require Import ZArith List Bool Lia.
From Gabi Require Import ModArith.
Import ListNotations.
Open Scope Z_scope.

Section SignedPow.
Variable n : Z.
Hypothesis Hn : 1 < n.

Definition spw (b bi e : Z) : Z := if e <? 0 then powm n bi (- e) else powm n b e.

Section OneBase.
Variables b bi : Z.
Hypothesis Hinv : mulm n b bi = 1.

Lemma cancel k : 0 <= k -> mulm n (powm n b k) (powm n bi k) = 1.
Proof.
  intros Hk. rewrite <- powm_mulm by lia. rewrite Hinv. rewrite powm_1_l by lia. apply Z.mod_small. lia.
Qed.

Lemma spw_range e : 0 <= spw b bi e < n.
Proof. unfold spw. destruct (e <? 0); apply powm_range; lia. Qed.

Lemma spw_idem e : spw b bi e mod n = spw b bi e.
Proof. apply Z.mod_small, spw_range. Qed.

(* b^(k+j) * bi^j = b^k *)
Lemma pos_neg k j : 0 <= k -> 0 <= j -> mulm n (powm n b (k + j)) (powm n bi j) = powm n b k.
Proof.
  intros Hk Hj. rewrite powm_add by lia. rewrite mulm_assoc by lia. rewrite cancel by lia.
  rewrite mulm_1_r by lia. apply powm_idem_mod. lia.
Qed.

Lemma neg_pos k j : 0 <= k -> 0 <= j -> mulm n (powm n bi (k + j)) (powm n b j) = powm n bi k.
Proof.
  intros Hk Hj. rewrite powm_add by lia. rewrite mulm_assoc by lia.
  rewrite (mulm_comm n (powm n bi j)). rewrite cancel by lia.
  rewrite mulm_1_r by lia. apply powm_idem_mod. lia.
Qed.

Lemma spw_add e f : spw b bi (e + f) = mulm n (spw b bi e) (spw b bi f).
Proof.
  unfold spw.
  destruct (Z.ltb_spec e 0) as [He|He]; destruct (Z.ltb_spec f 0) as [Hf|Hf]; destruct (Z.ltb_spec (e + f) 0) as [Hs|Hs]; try lia.
  - replace (- (e + f)) with (- e + - f) by lia. apply powm_add; lia.
  - (* e < 0 <= f, sum negative: bi^(-e) * b^f with -e = -(e+f) + f *)
    replace (- e) with (- (e + f) + f) by lia. symmetry. apply neg_pos; lia.
  - (* e < 0 <= f, sum nonnegative: f = (e+f) + (-e) *)
    rewrite (mulm_comm n). replace f with ((e + f) + - e) at 2 by lia. symmetry. apply pos_neg; lia.
  - (* f < 0 <= e, sum negative *)
    rewrite (mulm_comm n). replace (- f) with (- (e + f) + e) by lia. symmetry. apply neg_pos; lia.
  - replace e with ((e + f) + - f) at 2 by lia. symmetry. apply pos_neg; lia.
  - apply powm_add; lia.
Qed.

Lemma spw_mul_nonneg e c : 0 <= c -> spw b bi (c * e) = powm n (spw b bi e) c.
Proof.
  intros Hc. unfold spw.
  destruct (Z.ltb_spec e 0) as [He|He].
  - destruct (Z.eq_dec c 0) as [->|Hc0].
    + rewrite Z.mul_0_l. cbn [Z.ltb Z.compare]. reflexivity.
    + destruct (Z.ltb_spec (c * e) 0) as [H|H]; [|nia].
      rewrite powm_powm by lia. f_equal. ring.
  - destruct (Z.ltb_spec (c * e) 0) as [H|H]; [nia|].
    rewrite powm_powm by lia. f_equal. ring.
Qed.

End OneBase.

(* ---- products of signed powers ---- *)

Record sterm := mkS { s_b : Z; s_bi : Z; s_es : Z; s_er : Z }.

Definition sfold (ex : sterm -> Z) (ts : list sterm) (acc : Z) : Z :=
  fold_left (fun a t => (a * spw (s_b t) (s_bi t) (ex t)) mod n) ts acc.

Fixpoint sprod (ex : sterm -> Z) (ts : list sterm) : Z :=
  match ts with
  | [] => 1
  | t :: r => mulm n (spw (s_b t) (s_bi t) (ex t)) (sprod ex r)
  end.

Lemma sprod_range ex ts : 0 <= sprod ex ts < n.
Proof. destruct ts; cbn; [lia|apply mulm_range; lia]. Qed.

Lemma sfold_mod ex ts : forall acc, (sfold ex ts acc) mod n = mulm n acc (sprod ex ts).
Proof.
  induction ts as [|t r IH]; intros acc; unfold sfold in *; cbn [fold_left sprod].
  - now rewrite mulm_1_r by lia.
  - rewrite IH. fold (mulm n acc (spw (s_b t) (s_bi t) (ex t))). now rewrite mulm_assoc by lia.
Qed.

Lemma sfold_range ex ts : forall acc, 0 <= acc < n -> 0 <= sfold ex ts acc < n.
Proof.
  induction ts as [|t r IH]; intros acc Ha; unfold sfold in *; cbn [fold_left]; [exact Ha|].
  apply IH. apply Z.mod_pos_bound. lia.
Qed.

Lemma sprod_response c ts : 0 <= c ->
  Forall (fun t => mulm n (s_b t) (s_bi t) = 1) ts ->
  sprod (fun t => s_er t + c * s_es t) ts = mulm n (sprod s_er ts) (powm n (sprod s_es ts) c).
Proof.
  intros Hc H. induction H as [|t r Hinv _ IH]; cbn [sprod].
  - rewrite powm_1_l by lia. rewrite mulm_1mod_r by lia. symmetry. apply Z.mod_small. lia.
  - rewrite IH. rewrite powm_mulm by lia. rewrite (spw_add (s_b t) (s_bi t) Hinv). rewrite spw_mul_nonneg by lia.
    set (xr := spw (s_b t) (s_bi t) (s_er t)). set (xs := powm n (spw (s_b t) (s_bi t) (s_es t)) c).
    set (Ar := sprod s_er r). set (As := powm n (sprod s_es r) c).
    rewrite !mulm_assoc by lia. f_equal. rewrite <- !mulm_assoc by lia. f_equal. apply mulm_comm.
Qed.

(* responses randomizer + c * secret, left-hand side inverted and raised to c *)
Theorem signed_sigma_complete c ts lhs linv :
  0 <= c -> Forall (fun t => mulm n (s_b t) (s_bi t) = 1) ts ->
  mulm n lhs linv = 1 -> lhs mod n = sprod s_es ts ->
  sfold (fun t => s_er t + c * s_es t) ts (powm n linv c) = sfold s_er ts 1.
Proof.
  intros Hc Hts Hinv Hl.
  assert (R1 : 0 <= sfold (fun t => s_er t + c * s_es t) ts (powm n linv c) < n) by (apply sfold_range, powm_range; lia).
  assert (R2 : 0 <= sfold s_er ts 1 < n) by (apply sfold_range; lia).
  rewrite <- (Z.mod_small _ _ R1), <- (Z.mod_small _ _ R2).
  rewrite !sfold_mod. rewrite sprod_response by assumption.
  rewrite <- Hl. rewrite powm_mod by lia.
  rewrite (mulm_comm n (sprod s_er ts)). rewrite <- mulm_assoc by lia.
  rewrite <- powm_mulm by lia. rewrite (mulm_comm n linv lhs), Hinv.
  rewrite powm_1_l by lia. rewrite mulm_1mod_l, mulm_1_l by lia.
  rewrite !(Z.mod_small _ _ (sprod_range _ _)). reflexivity.
Qed.

(* the same with the left-hand side itself raised to -c on the other side: responses randomizer - c * secret
   (group of known order is handled in KeyProofSound; this variant serves Z_n^* provers that subtract) *)

End SignedPow.
