(* C16: an element that is a square modulo both prime factors is a square modulo their product
   (the recombination ModSqrt / the key generator rely on). *)
From Coq Require Import ZArith List Lia Bool Znumtheory.
From Gabi Require Import ModArith GoSem MathUtil KeyGen.
Import ListNotations.
Open Scope Z_scope.

Lemma coprime_product_divides p q d : Z.gcd p q = 1 -> (p | d) -> (q | d) -> (p * q | d).
Proof.
  intros Hg [k Hk] Hq. subst d.
  assert (Hqk : (q | k)).
  { apply (Z.gauss q p k); [now rewrite Z.mul_comm|now rewrite Z.gcd_comm]. }
  destruct Hqk as [j ->]. exists j. ring.
Qed.

Lemma congruent_mod_product p q x y : 0 < p -> 0 < q -> Z.gcd p q = 1 ->
  x mod p = y mod p -> x mod q = y mod q -> x mod (p * q) = y mod (p * q).
Proof.
  intros Hp Hq Hg H1 H2.
  assert (D1 : (p | x - y)) by (apply Z.mod_divide; [lia|]; rewrite Zminus_mod, H1, Z.sub_diag; reflexivity).
  assert (D2 : (q | x - y)) by (apply Z.mod_divide; [lia|]; rewrite Zminus_mod, H2, Z.sub_diag; reflexivity).
  pose proof (coprime_product_divides p q (x - y) Hg D1 D2) as [k Hk].
  replace x with (y + k * (p * q)) by lia. apply Z.mod_add. nia.
Qed.

(* S accepted by the key generator (Euler symbol 1 modulo both safe primes) is a square modulo n = p*q:
   the Chinese-remainder recombination of its two roots squares to S. *)
Theorem square_mod_product_lem p pp q qp s t :
  p = 2 * pp + 1 -> q = 2 * qp + 1 -> 0 < pp -> 0 < qp -> Z.odd pp = true -> Z.odd qp = true ->
  powm p s pp = 1 -> powm q s qp = 1 ->
  crt (powm p s ((pp + 1) / 2)) p (powm q s ((qp + 1) / 2)) q = Ok t ->
  powm (p * q) t 2 = s mod (p * q).
Proof.
  intros Hp Hq Hpp Hqp Op Oq Ep Eq Hc.
  assert (P0 : 0 < p) by lia. assert (Q0 : 0 < q) by lia.
  destruct (crt_spec_lem _ _ _ _ _ P0 Q0 Hc) as (Tp & Tq & Tr).
  assert (Hg : Z.gcd p q = 1).
  { unfold crt in Hc. destruct (xgcd p q) as [[z s2] s1] eqn:E.
    destruct (Z.eqb_spec z 1) as [->|]; cbn [negb] in Hc; [|discriminate].
    pose proof (xgcd_gcd p q ltac:(lia) ltac:(lia)) as G. now rewrite E in G. }
  pose proof (euler_one_is_square_lem p pp s Hp Hpp Op Ep) as Sp.
  pose proof (euler_one_is_square_lem q qp s Hq Hqp Oq Eq) as Sq.
  unfold powm at 1.
  assert (Hsq : forall m r, 0 < m -> t mod m = r mod m -> (t ^ 2) mod m = (r ^ 2) mod m).
  { intros m r Hm H. rewrite !Z.pow_2_r. rewrite (Z.mul_mod t t m), (Z.mul_mod r r m) by lia. now rewrite H. }
  apply congruent_mod_product; try assumption.
  - rewrite (Hsq p _ P0 Tp). exact Sp.
  - rewrite (Hsq q _ Q0 Tq). exact Sq.
Qed.
