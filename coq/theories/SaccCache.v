(* revocation/api.go:219 SignedAccumulator.UnmarshalVerify as a state machine over the cached accumulator: the object
   remembers the accumulator once its signature has been verified and answers later calls from that cache.
   [oracle] is the verdict of signed.UnmarshalVerify (ECDSA + CBOR, outside the model) for the key of the call. *)
From Coq Require Import ZArith List Bool Lia.
From Gabi Require Import Val ModArith GoSem Revocation.
Import ListNotations.
Open Scope Z_scope.

Record uv_call := mkCall { uc_pkcounter : Z; uc_oracle : option racc }.

Definition uv_step (sc : Z) (cache : option racc) (c : uv_call) : outcome racc * option racc :=
  match cache with
  | Some a => (Ok a, cache)
  | None =>
    if negb (uc_pkcounter c =? sc) then (Err, None)
    else match uc_oracle c with
         | None => (Err, None)
         | Some a => (Ok a, Some a)
         end
  end.

(* a history of calls on one object, starting from a given cache state; results in call order *)
Fixpoint uv_run (sc : Z) (cache : option racc) (calls : list uv_call) : list (outcome racc) * option racc :=
  match calls with
  | [] => ([], cache)
  | c :: rest =>
    let '(r, cache') := uv_step sc cache c in
    let '(rs, final) := uv_run sc cache' rest in
    (r :: rs, final)
  end.

(* what a single fresh verification answers *)
Definition uv_fresh (sc : Z) (c : uv_call) : outcome racc := fst (uv_step sc None c).

(* the cache only ever holds an accumulator that some call verified for a key with the right counter *)
Definition vouched (sc : Z) (calls : list uv_call) (a : racc) : Prop :=
  exists c, In c calls /\ uc_pkcounter c = sc /\ uc_oracle c = Some a.

Lemma uv_step_cache sc cache c r cache' :
  uv_step sc cache c = (r, cache') ->
  (cache' = cache /\ (cache = None -> r = Err)) \/ (cache = None /\ exists a, cache' = Some a /\ r = Ok a /\ uc_pkcounter c = sc /\ uc_oracle c = Some a).
Proof.
  unfold uv_step. destruct cache as [a|].
  - intros [= <- <-]. left. split; [reflexivity|discriminate].
  - destruct (Z.eqb_spec (uc_pkcounter c) sc) as [E|E]; cbn [negb].
    + destruct (uc_oracle c) as [a|] eqn:Eo; intros [= <- <-].
      * right. split; [reflexivity|]. exists a. auto.
      * left. auto.
    + intros [= <- <-]. left. auto.
Qed.

(* every accumulator handed out over any history was vouched for by the oracle in that history (or was already
   cached): a rejected input never turns into an accepted one later *)
Theorem uv_history_sound_lem sc : forall calls cache rs final,
  uv_run sc cache calls = (rs, final) ->
  forall a, In (Ok a) rs \/ final = Some a -> cache = Some a \/ vouched sc calls a.
Proof.
  induction calls as [|c rest IH]; intros cache rs final H a Ha; cbn [uv_run] in H.
  - inversion H; subst. destruct Ha as [[]|Ha]. now left.
  - destruct (uv_step sc cache c) as [r cache'] eqn:Es.
    destruct (uv_run sc cache' rest) as [rs' final'] eqn:Er. inversion H; subst rs final; clear H.
    assert (Hrest : In (Ok a) rs' \/ final' = Some a -> cache' = Some a \/ vouched sc rest a) by (apply (IH cache' rs' final' Er)).
    assert (Lift : vouched sc rest a -> vouched sc (c :: rest) a).
    { intros (c0 & Hin & H1 & H2). exists c0. split; [now right|auto]. }
    destruct (uv_step_cache _ _ _ _ _ Es) as [[Ec Hr]|(Ec & a0 & Ec' & Hr & Hk & Ho)].
    + subst cache'.
      destruct Ha as [Hin|Hf]; [cbn [In] in Hin; destruct Hin as [Hhd|Htl]|].
      * destruct cache as [a1|].
        -- unfold uv_step in Es. left. congruence.
        -- rewrite (Hr eq_refl) in Hhd. discriminate.
      * destruct (Hrest (or_introl Htl)) as [?|?]; [now left|right; auto].
      * destruct (Hrest (or_intror Hf)) as [?|?]; [now left|right; auto].
    + subst cache cache' r.
      assert (Hv : vouched sc (c :: rest) a0) by (exists c; split; [now left|auto]).
      destruct Ha as [Hin|Hf]; [cbn [In] in Hin; destruct Hin as [Hhd|Htl]|].
      * right. congruence.
      * destruct (Hrest (or_introl Htl)) as [E|?]; [inversion E; subst; now right|right; auto].
      * destruct (Hrest (or_intror Hf)) as [E|?]; [inversion E; subst; now right|right; auto].
Qed.

(* with one key throughout, every call of a history that starts with an empty cache answers what a fresh verification
   answers: verifying the same object again never changes the verdict *)
Theorem uv_repeat_stable_lem sc c : forall k,
  let '(rs, _) := uv_run sc None (repeat c k) in Forall (fun r => r = uv_fresh sc c) rs.
Proof.
  assert (G : forall k cache, (cache = None \/ (cache <> None /\ uv_fresh sc c = match cache with Some a => Ok a | None => Err end)) ->
              let '(rs, _) := uv_run sc cache (repeat c k) in Forall (fun r => r = uv_fresh sc c) rs).
  { induction k as [|k IH]; intros cache Hc; cbn [repeat uv_run]; [constructor|].
    destruct (uv_step sc cache c) as [r cache'] eqn:Es.
    specialize (IH cache').
    destruct (uv_run sc cache' (repeat c k)) as [rs final] eqn:Er.
    assert (Hr : r = uv_fresh sc c /\ (cache' = None \/ (cache' <> None /\ uv_fresh sc c = match cache' with Some a => Ok a | None => Err end))).
    { destruct Hc as [->|[Hne Hf]].
      - unfold uv_fresh. rewrite Es. cbn [fst]. split; [reflexivity|].
        unfold uv_step in Es. destruct (negb (uc_pkcounter c =? sc)); [inversion Es; now left|].
        destruct (uc_oracle c) as [a|]; inversion Es; subst; [right; split; [discriminate|reflexivity]|now left].
      - destruct cache as [a|]; [|contradiction]. unfold uv_step in Es. inversion Es; subst. split; [now rewrite Hf|].
        right. split; [discriminate|exact Hf]. }
    destruct Hr as [Hr Hc']. constructor; [exact Hr|]. apply IH. exact Hc'. }
  intros k. apply G. now left.
Qed.
