(* C01 / C03: the algebraic half of the two-transcript extractor for disclosure proofs (proofs.go reconstructZ).
   Two accepted transcripts of one disclosure (same A, same disclosed values, same hidden indices, same
   reconstructed commitment) with challenges c >= c' give exponents
       de = e - e', dv = v - v', da_i = a_i - a_i'
   with   A^de * S^dv * prod_{hidden i} R_i^{da_i}  =  ( Z / (A^(2^(le-1)) * prod_{disclosed j} R_j^{a_j}) )^(c - c')   mod N.
   Dividing by c - c' to reach a CL signature on the disclosed values is the strong-RSA step of CL03 (cited).
   The second theorem is the link between proofs: when the responses of the secret key are equal across two proofs in
   both transcripts, the extracted exponent of R_0 is the same in both relations. *)
From Coq Require Import ZArith List Bool Lia.
From GabiGen Require Import Consts.
From Gabi Require Import Val ModArith GoSem ParamsDef ZkProof Keys RangeProof HashTool NonRev Core SignedPow Extractor DiscloseComplete.
Import ListNotations.
Open Scope Z_scope.

Section DiscloseExtract.
Variable pk : pubkey.
Let n := pk_N pk.
Hypothesis Hwf : wf_pk pk.

Lemma dx_n : 1 < n.
Proof. destruct Hwf as [H _]. exact H. Qed.

Lemma unit_mod_unitb x : unit_mod n x -> unitb pk x.
Proof.
  intros [_ Hg]. pose proof dx_n as Hn. unfold unitb. apply go_modinverse_some_iff; [fold n; lia|exact Hg].
Qed.

Lemma unitb_inv x : unitb pk x -> mulm n x (invf pk x) = 1.
Proof. intros H. apply (unit_inv pk dx_n x H). Qed.

Lemma R_unit i : in_R pk i -> unitb pk (R_at pk i).
Proof.
  intros [H1 H2]. apply unit_mod_unitb.
  destruct Hwf as (_ & _ & _ & HR & _). rewrite Forall_forall in HR. apply HR.
  unfold R_at. apply nth_In. lia.
Qed.

Lemma index_R_inv i b : index_R (pk_R pk) i = Ok b -> in_R pk i /\ b = R_at pk i.
Proof.
  unfold index_R, in_R, R_at.
  destruct (Z.leb_spec 0 i); destruct (Z.ltb_spec i (Z.of_nat (length (pk_R pk)))); cbn [andb]; intros HH; inversion HH.
  split; [lia|reflexivity].
Qed.

Definition tm (b es er : Z) : sterm := mkS b (invf pk b) es er.

(* the hidden-attribute part of two transcripts over the same indices *)
Lemma responses_product_two : forall l l' acc acc' r r',
  map fst l = map fst l' ->
  responses_product pk l acc = Ok r -> responses_product pk l' acc' = Ok r' ->
  exists ts,
    units n ts /\
    length ts = length l /\
    (forall k i x x', nth_error l k = Some (i, x) -> nth_error l' k = Some (i, x') ->
       exists t, nth_error ts k = Some t /\ s_b t = R_at pk i /\ x = Some (s_es t) /\ x' = Some (s_er t)) /\
    r mod n = mulm n acc (sprod n s_es ts) /\ r' mod n = mulm n acc' (sprod n s_er ts).
Proof.
  pose proof dx_n as Hn.
  induction l as [|[i x] rest IH]; intros l' acc acc' r r' Hk H H'.
  - destruct l' as [|? ?]; [|discriminate]. cbn [responses_product] in H, H'. inversion H; inversion H'; subst.
    exists []. cbn [sprod length]. repeat split; try constructor.
    + intros k i x x' Hnth. destruct k; discriminate.
    + now rewrite mulm_1_r by lia.
    + now rewrite mulm_1_r by lia.
  - destruct l' as [|[i' x'] rest']; [discriminate|]. cbn [map fst] in Hk. inversion Hk as [[Hi Hrest]]. subst i'.
    cbn [responses_product] in H, H'.
    destruct (index_R (pk_R pk) i) as [b| |] eqn:Eb; cbn [obind] in H, H'; try discriminate.
    destruct (index_R_inv i b Eb) as [HinR ->].
    destruct x as [xv|]; cbn [deref obind] in H; [|discriminate].
    destruct x' as [xv'|]; cbn [deref obind] in H'; [|discriminate].
    pose proof (R_unit i HinR) as Hu.
    pose proof (go_modpow_spw pk Hn _ xv Hu) as G. pose proof (go_modpow_spw pk Hn _ xv' Hu) as G'.
    cbv zeta in G, G'. fold n in H, H', G, G'.
    rewrite G in H. rewrite G' in H'.
    cbn [or_err obind] in H, H'.
    destruct (IH rest' _ _ r r' Hrest H H') as (ts & Hunits & Hlen & Hnth & Hr & Hr').
    exists (tm (R_at pk i) xv xv' :: ts). split; [|split; [|split; [|split]]].
    + constructor; [|exact Hunits]. cbn [tm s_b s_bi]. now apply unitb_inv.
    + cbn [length]. now rewrite Hlen.
    + intros k j y y' Hy Hy'. destruct k as [|k]; cbn [nth_error] in *.
      * inversion Hy; inversion Hy'; subst. exists (tm (R_at pk j) xv xv'). cbn [tm s_b s_es s_er]. auto.
      * apply (Hnth k j y y' Hy Hy').
    + rewrite Hr. cbn [sprod tm s_b s_bi s_es]. fold (mulm n acc (spw n (R_at pk i) (invf pk (R_at pk i)) xv)).
      now rewrite mulm_assoc by lia.
    + rewrite Hr'. cbn [sprod tm s_b s_bi s_er]. fold (mulm n acc' (spw n (R_at pk i) (invf pk (R_at pk i)) xv')).
      now rewrite mulm_assoc by lia.
Qed.

(* the disclosed attributes only multiply the accumulator *)
Lemma disclosed_product_factor : forall l acc r,
  disclosed_product pk l acc = Ok r -> exists m, r mod n = mulm n acc m.
Proof.
  pose proof dx_n as Hn.
  induction l as [|[i a] rest IH]; intros acc r H; cbn [disclosed_product] in H.
  - inversion H; subst. exists 1. now rewrite mulm_1_r by lia.
  - destruct a as [av|]; cbn [deref obind] in H; [|discriminate].
    destruct (index_R (pk_R pk) i) as [b| |]; cbn [obind] in H; try discriminate.
    destruct (go_exp b _ (pk_N pk)) as [t|]; cbn [deref obind] in H; [|discriminate].
    destruct (IH _ _ H) as [m Hm]. exists (mulm n t m). rewrite Hm. fold n.
    fold (mulm n acc t). now rewrite mulm_assoc by lia.
Qed.

(* Z / (A^(2^(le-1)) * prod_{disclosed} R_j^{a_j}) as the verifier computes it *)
Definition known_of (p : proofD) : outcome Z :=
  let! a := deref (pd_A p) in
  let num0 := powx n a (2 ^ (Le (pk_params pk) - 1)) in
  let! num := disclosed_product pk (pd_ADisc p) num0 in
  let! known0 := or_err (go_modinverse num n) in
  Ok (pk_Z pk * known0).

Lemma unitb_of_inverse x y : mulm n x y = 1 -> unitb pk x.
Proof. intros H. apply (inverse_gives_unit pk dx_n x y H). Qed.

Lemma unitb_mod x : unitb pk (x mod n) -> unitb pk x.
Proof. intros H. apply (unit_mod_iff pk dx_n x). exact H. Qed.

Lemma known_units p a known : 0 < Le (pk_params pk) ->
  pd_A p = Some a -> known_of p = Ok known -> unitb pk a /\ unitb pk known.
Proof.
  pose proof dx_n as Hn. intros HLe Ha H. unfold known_of in H. rewrite Ha in H. cbn [deref obind] in H.
  destruct (disclosed_product pk (pd_ADisc p) _) as [num| |] eqn:Ed; cbn [obind] in H; try discriminate.
  destruct (go_modinverse num n) as [k0|] eqn:Ei; cbn [or_err obind] in H; [|discriminate].
  inversion H; subst known. clear H.
  destruct (disclosed_product_factor _ _ _ Ed) as [m Hm].
  pose proof (go_modinverse_sound num n k0 ltac:(lia) Ei) as [Hinv Hk0]. rewrite Z.mod_1_l in Hinv by lia.
  split.
  - (* a * (a^(K-1) * m * k0) = 1 *)
    rewrite powx_powm in Hm by lia.
    set (K := 2 ^ (Le (pk_params pk) - 1)) in *.
    assert (HK : 1 <= K) by (unfold K; pose proof (Z.pow_pos_nonneg 2 (Le (pk_params pk) - 1)); lia).
    apply (unitb_of_inverse a (mulm n (powm n a (K - 1)) (mulm n m k0))).
    rewrite <- (mulm_mod_l n ltac:(lia) num k0) in Hinv. rewrite Hm in Hinv.
    replace K with (1 + (K - 1)) in Hinv by lia. rewrite powm_add in Hinv by lia.
    unfold powm at 1 in Hinv. rewrite Z.pow_1_r in Hinv. rewrite mulm_mod_l in Hinv by lia.
    rewrite !mulm_assoc in Hinv by lia. exact Hinv.
  - apply unitb_of_inverse with (y := mulm n num (invf pk (pk_Z pk))).
    assert (HZ : mulm n (pk_Z pk) (invf pk (pk_Z pk)) = 1).
    { apply unitb_inv. apply unit_mod_unitb. destruct Hwf as (_ & HZ & _). exact HZ. }
    unfold mulm in *. rewrite Z.mul_mod_idemp_r by lia.
    replace (pk_Z pk * k0 * (num * invf pk (pk_Z pk))) with ((num * k0) * (pk_Z pk * invf pk (pk_Z pk))) by ring.
    rewrite Z.mul_mod by lia. rewrite Hinv, HZ. rewrite Z.mul_1_l. apply Z.mod_1_l. lia.
Qed.

Lemma z_form kC ae rs sv P : rs mod n = mulm n 1 P ->
  (kC * ae * rs * sv) mod n = mulm n kC (mulm n ae (mulm n sv P)).
Proof.
  pose proof dx_n as Hn. intros Hrs. rewrite mulm_1_l in Hrs by lia.
  assert (E : (kC * ae * rs * sv) mod n = ((kC * ae * sv) * P) mod n).
  { replace (kC * ae * rs * sv) with ((kC * ae * sv) * rs) by ring.
    rewrite <- (Z.mul_mod_idemp_r (kC * ae * sv) rs) by lia. rewrite Hrs. now rewrite Z.mul_mod_idemp_r by lia. }
  rewrite E. unfold mulm. rewrite (Z.mul_mod_idemp_r ae (sv * P)) by lia.
  rewrite (Z.mul_mod_idemp_r kC (ae * (sv * P))) by lia. f_equal. ring.
Qed.

Lemma spw_neg_c b bi c : 0 <= c -> spw n b bi (- c) = powm n bi c.
Proof.
  intros Hc. unfold spw. destruct (Z.ltb_spec (- c) 0) as [H|H].
  - now rewrite Z.opp_involutive.
  - assert (c = 0) by lia. subst c. cbn [Z.opp]. now rewrite !powm_0_r.
Qed.

(* what one transcript says: z = kinv^c * A^e * S^v * prod R_i^(a_i) *)
Lemma reconstruct_z_form p a known c z : 0 < Le (pk_params pk) ->
  pd_A p = Some a -> known_of p = Ok known -> pd_C p = Some c -> 0 <= c ->
  reconstruct_z pk p = Ok z ->
  exists e v rs,
    pd_E p = Some e /\ pd_V p = Some v /\ responses_product pk (pd_AResp p) 1 = Ok rs /\
    forall P, rs mod n = mulm n 1 P ->
      z = mulm n (powm n (invf pk known) c)
            (mulm n (spw n a (invf pk a) e) (mulm n (spw n (pk_S pk) (invf pk (pk_S pk)) v) P)).
Proof.
  pose proof dx_n as Hn. intros HLe Ha Hk HC Hc H.
  destruct (known_units p a known HLe Ha Hk) as [Hua Huk].
  unfold known_of in Hk. unfold reconstruct_z in H. fold n in H. rewrite Ha in H, Hk. cbn [deref obind] in H, Hk.
  destruct (disclosed_product pk (pd_ADisc p) _) as [num| |]; cbn [obind] in H, Hk; try discriminate.
  destruct (go_modinverse num n) as [k0|]; cbn [or_err obind] in H, Hk; [|discriminate].
  inversion Hk; subst known. clear Hk.
  rewrite HC in H. cbn [deref obind] in H.
  pose proof (go_modpow_spw pk Hn _ (- c) Huk) as G. cbv zeta in G. fold n in G. rewrite G in H. clear G.
  cbn [or_err obind] in H.
  destruct (pd_E p) as [e|]; cbn [deref obind] in H; [|discriminate].
  pose proof (go_modpow_spw pk Hn _ e Hua) as G. cbv zeta in G. fold n in G. rewrite G in H. clear G.
  cbn [or_err obind] in H.
  destruct (pd_V p) as [v|]; cbn [deref obind] in H; [|discriminate].
  assert (HuS : unitb pk (pk_S pk)). { apply unit_mod_unitb. destruct Hwf as (_ & _ & HS & _). exact HS. }
  pose proof (go_modpow_spw pk Hn _ v HuS) as G. cbv zeta in G. fold n in G. rewrite G in H. clear G.
  cbn [or_err obind] in H.
  destruct (responses_product pk (pd_AResp p) 1) as [rs| |]; cbn [obind] in H; try discriminate.
  inversion H as [Hz]. exists e, v, rs. repeat split; try reflexivity.
  intros P HP. rewrite (z_form _ _ _ _ P HP). now rewrite spw_neg_c by lia.
Qed.

(* ts lists, position by position, the hidden attributes of the two transcripts: base R_i, response in the first
   transcript (s_es) and in the second (s_er) *)
Definition aligned_l (l l' : list (Z * option Z)) (ts : list sterm) : Prop :=
  length ts = length l /\
  forall k i x x', nth_error l k = Some (i, x) -> nth_error l' k = Some (i, x') ->
    exists t, nth_error ts k = Some t /\ s_b t = R_at pk i /\ x = Some (s_es t) /\ x' = Some (s_er t).
Definition aligned (p p' : proofD) (ts : list sterm) : Prop := aligned_l (pd_AResp p) (pd_AResp p') ts.

(* the relation the two transcripts yield *)
Definition extracted (p p' : proofD) (c c' : Z) (ts : list sterm) : Prop :=
  exists a known e e' v v',
    pd_A p = Some a /\ known_of p = Ok known /\
    pd_E p = Some e /\ pd_E p' = Some e' /\ pd_V p = Some v /\ pd_V p' = Some v' /\
    sprod n (fun t => s_es t - s_er t) (tm a e e' :: tm (pk_S pk) v v' :: ts) = powm n known (c - c').

Theorem disclosure_two_transcripts_lem p p' c c' z :
  0 < Le (pk_params pk) ->
  pd_A p = pd_A p' -> pd_ADisc p = pd_ADisc p' -> map fst (pd_AResp p) = map fst (pd_AResp p') ->
  pd_C p = Some c -> pd_C p' = Some c' -> 0 <= c' <= c ->
  reconstruct_z pk p = Ok z -> reconstruct_z pk p' = Ok z ->
  exists ts, aligned p p' ts /\ extracted p p' c c' ts.
Proof.
  pose proof dx_n as Hn. intros HLe HA HD HK HC HC' Hc H H'.
  assert (Hk : exists a known, pd_A p = Some a /\ known_of p = Ok known).
  { unfold reconstruct_z in H. unfold known_of. fold n in H.
    destruct (pd_A p) as [a|]; cbn [deref obind] in *; [|discriminate].
    destruct (disclosed_product pk (pd_ADisc p) _) as [num| |]; cbn [obind] in *; try discriminate.
    destruct (go_modinverse num n) as [k0|]; cbn [or_err obind] in *; [|discriminate].
    eauto. }
  destruct Hk as (a & known & Ha & Hk).
  assert (Ha' : pd_A p' = Some a) by congruence.
  assert (Hk' : known_of p' = Ok known). { unfold known_of in *. now rewrite <- HA, <- HD. }
  destruct (known_units p a known HLe Ha Hk) as [Hua Huk].
  destruct (reconstruct_z_form p a known c z HLe Ha Hk HC ltac:(lia) H) as (e & v & rs & He & Hv & Hrs & Hz).
  destruct (reconstruct_z_form p' a known c' z HLe Ha' Hk' HC' ltac:(lia) H') as (e' & v' & rs' & He' & Hv' & Hrs' & Hz').
  destruct (responses_product_two _ _ 1 1 rs rs' HK Hrs Hrs') as (ts & Hunits & Hlen & Hnth & Hr & Hr').
  exists ts. split; [split; assumption|].
  exists a, known, e, e', v, v'. repeat (split; [assumption|]).
  apply (two_transcripts_relation_prod n Hn _ known (invf pk known) c c' s_es s_er).
  - constructor; [cbn [tm s_b s_bi]; now apply unitb_inv|].
    constructor; [cbn [tm s_b s_bi]; apply unitb_inv, unit_mod_unitb; destruct Hwf as (_ & _ & HS & _); exact HS|].
    exact Hunits.
  - now apply unitb_inv.
  - exact Hc.
  - cbn [sprod tm s_b s_bi s_es s_er]. rewrite <- (Hz _ Hr), <- (Hz' _ Hr'). reflexivity.
Qed.

(* C03: two disclosure proofs whose secret-key responses (index 0) are equal in both transcripts: the two extracted
   relations carry the same exponent x - x' on R_0. *)
Theorem linked_disclosures_share_exponent_lem p1 p1' p2 p2' ts1 ts2 k1 k2 x x' :
  aligned p1 p1' ts1 -> aligned p2 p2' ts2 ->
  nth_error (pd_AResp p1) k1 = Some (0, Some x) -> nth_error (pd_AResp p1') k1 = Some (0, Some x') ->
  nth_error (pd_AResp p2) k2 = Some (0, Some x) -> nth_error (pd_AResp p2') k2 = Some (0, Some x') ->
  exists t1 t2, nth_error ts1 k1 = Some t1 /\ nth_error ts2 k2 = Some t2 /\
    s_b t1 = R_at pk 0 /\ s_b t2 = R_at pk 0 /\
    s_es t1 - s_er t1 = x - x' /\ s_es t2 - s_er t2 = x - x'.
Proof.
  intros [_ A1] [_ A2] H1 H1' H2 H2'.
  destruct (A1 _ _ _ _ H1 H1') as (t1 & N1 & B1 & E1 & E1').
  destruct (A2 _ _ _ _ H2 H2') as (t2 & N2 & B2 & E2 & E2').
  exists t1, t2. inversion E1; inversion E1'; inversion E2; inversion E2'. repeat split; auto; lia.
Qed.

(* ---- issuance commitments (proofs.go reconstructUcommit) ---- *)

Definition alignedU (p p' : proofU) (ts : list sterm) : Prop := aligned_l (pu_MUser p) (pu_MUser p') ts.

(* S^dv * R_0^ds * prod R_i^(dm_i) = U^(c - c') *)
Definition extractedU (p p' : proofU) (c c' : Z) (ts : list sterm) : Prop :=
  exists u s s' v v',
    pu_U p = Some u /\ pu_S p = Some s /\ pu_S p' = Some s' /\ pu_VPrime p = Some v /\ pu_VPrime p' = Some v' /\
    sprod n (fun t => s_es t - s_er t) (tm (pk_S pk) v v' :: tm (R_at pk 0) s s' :: ts) = powm n u (c - c').

Lemma acc_form uc sv r0s P :
  mulm n ((uc * sv * r0s) mod n) P = mulm n uc (mulm n sv (mulm n r0s P)).
Proof.
  pose proof dx_n as Hn. unfold mulm. rewrite Z.mul_mod_idemp_l by lia.
  rewrite (Z.mul_mod_idemp_r sv (r0s * P)) by lia. rewrite (Z.mul_mod_idemp_r uc (sv * (r0s * P))) by lia.
  f_equal. ring.
Qed.

Lemma reconstruct_u_form p u c z : pu_U p = Some u -> pu_C p = Some c -> 0 < c ->
  reconstruct_ucommit pk p = Ok z ->
  unitb pk u /\ in_R pk 0 /\
  exists s v, pu_S p = Some s /\ pu_VPrime p = Some v /\
    responses_product pk (pu_MUser p)
      ((powm n (invf pk u) c * spw n (pk_S pk) (invf pk (pk_S pk)) v * spw n (R_at pk 0) (invf pk (R_at pk 0)) s) mod n) = Ok z.
Proof.
  pose proof dx_n as Hn. intros HU HC Hc H. unfold reconstruct_ucommit in H. fold n in H.
  rewrite HC, HU in H. cbn [deref obind] in H.
  destruct (go_modpow u (- c) n) as [uc|] eqn:Euc; cbn [or_err obind] in H; [|discriminate].
  assert (Hu : unitb pk u).
  { unfold go_modpow, go_exp in Euc. destruct (Z.ltb_spec (- c) 0); [|lia].
    unfold unitb. fold n. destruct (go_modinverse u n) as [ui|]; [eauto|discriminate]. }
  pose proof (go_modpow_spw pk Hn _ (- c) Hu) as G. cbv zeta in G. fold n in G. rewrite G in Euc. clear G.
  inversion Euc as [Euc']. clear Euc. rewrite spw_neg_c in Euc' by lia.
  destruct (pu_VPrime p) as [v|]; cbn [deref obind] in H; [|discriminate].
  assert (HuS : unitb pk (pk_S pk)). { apply unit_mod_unitb. destruct Hwf as (_ & _ & HS & _). exact HS. }
  pose proof (go_modpow_spw pk Hn _ v HuS) as G. cbv zeta in G. fold n in G. rewrite G in H. clear G.
  cbn [or_err obind] in H.
  destruct (index_R (pk_R pk) 0) as [r0| |] eqn:E0; cbn [obind] in H; try discriminate.
  destruct (index_R_inv 0 r0 E0) as [Hin0 ->].
  destruct (pu_S p) as [s|]; cbn [deref obind] in H; [|discriminate].
  pose proof (go_modpow_spw pk Hn _ s (R_unit 0 Hin0)) as G. cbv zeta in G. fold n in G. rewrite G in H. clear G.
  cbn [or_err obind] in H. subst uc.
  split; [exact Hu|]. split; [exact Hin0|]. exists s, v. repeat split; try reflexivity. exact H.
Qed.

Theorem issuance_two_transcripts_lem p p' c c' z :
  pu_U p = pu_U p' -> map fst (pu_MUser p) = map fst (pu_MUser p') ->
  pu_C p = Some c -> pu_C p' = Some c' -> 0 < c' < c ->
  reconstruct_ucommit pk p = Ok z -> reconstruct_ucommit pk p' = Ok z ->
  exists ts, alignedU p p' ts /\ extractedU p p' c c' ts.
Proof.
  pose proof dx_n as Hn. intros HU HK HC HC' Hc H H'.
  assert (Hu : exists u, pu_U p = Some u).
  { unfold reconstruct_ucommit in H. rewrite HC in H. cbn [deref obind] in H.
    destruct (pu_U p) as [u|]; [eauto|discriminate]. }
  destruct Hu as [u Hu]. assert (Hu' : pu_U p' = Some u) by congruence.
  destruct (reconstruct_u_form p u c z Hu HC ltac:(lia) H) as (Huu & Hin0 & s & v & Hs & Hv & Hr).
  destruct (reconstruct_u_form p' u c' z Hu' HC' ltac:(lia) H') as (_ & _ & s' & v' & Hs' & Hv' & Hr').
  destruct (responses_product_two _ _ _ _ z z HK Hr Hr') as (ts & Hunits & Hlen & Hnth & Hz & Hz').
  exists ts. split; [split; assumption|].
  exists u, s, s', v, v'. repeat (split; [assumption|]).
  apply (two_transcripts_relation_prod n Hn _ u (invf pk u) c c' s_es s_er).
  - constructor; [cbn [tm s_b s_bi]; apply unitb_inv, unit_mod_unitb; destruct Hwf as (_ & _ & HS & _); exact HS|].
    constructor; [cbn [tm s_b s_bi]; apply unitb_inv, R_unit, Hin0|]. exact Hunits.
  - now apply unitb_inv.
  - lia.
  - cbn [sprod tm s_b s_bi s_es s_er]. rewrite <- !acc_form. rewrite <- Hz, <- Hz'. reflexivity.
Qed.

(* C03: an issuance commitment linked to a disclosure proof (equal secret-key responses in both transcripts): the
   exponent of R_0 in the relation extracted for U equals the one extracted for the credential. *)
Theorem linked_issuance_shares_exponent_lem p1 p1' ts1 k1 (pu pu' : proofU) x x' :
  aligned p1 p1' ts1 ->
  nth_error (pd_AResp p1) k1 = Some (0, Some x) -> nth_error (pd_AResp p1') k1 = Some (0, Some x') ->
  pu_S pu = Some x -> pu_S pu' = Some x' ->
  exists t1, nth_error ts1 k1 = Some t1 /\ s_b t1 = R_at pk 0 /\
    s_es t1 - s_er t1 = x - x' /\
    forall c c' ts2, extractedU pu pu' c c' ts2 ->
      exists u v v', pu_U pu = Some u /\
        sprod n (fun t => s_es t - s_er t) (tm (pk_S pk) v v' :: tm (R_at pk 0) x x' :: ts2) = powm n u (c - c').
Proof.
  intros [_ A1] H1 H1' HS HS'.
  destruct (A1 _ _ _ _ H1 H1') as (t1 & N1 & B1 & E1 & E1').
  assert (Ex : x = s_es t1) by congruence. assert (Ex' : x' = s_er t1) by congruence.
  exists t1. split; [exact N1|]. split; [exact B1|]. split; [lia|].
  intros c c' ts2 (u & s & s' & v & v' & Hu & Hs & Hs' & _ & _ & Hrel).
  assert (s = x) by congruence. assert (s' = x') by congruence. subst s s'.
  exists u, v, v'. split; [exact Hu|exact Hrel].
Qed.

End DiscloseExtract.

(* the premises are satisfiable with different challenges and different responses: toy key N = 7 * 11, S = 2, R_0 = 4,
   Z = 32, A = 8; the two transcripts (c, e, v, a_0) = (5, 10, 20, 7) and (4, 9, 38, 6) reconstruct the same value *)
Example disclosure_two_transcripts_nonvacuous :
  let pk := mkPk 77 32 2 None None [4] params_1024 0 false in
  let p := mkPd (Some 5) (Some 8) (Some 10) (Some 20) [(0, Some 7)] [] None [] in
  let p' := mkPd (Some 4) (Some 8) (Some 9) (Some 38) [(0, Some 6)] [] None [] in
  wf_pk pk /\ 0 < Le (pk_params pk) /\ pd_A p = pd_A p' /\ pd_ADisc p = pd_ADisc p' /\
  map fst (pd_AResp p) = map fst (pd_AResp p') /\
  exists z, reconstruct_z pk p = Ok z /\ reconstruct_z pk p' = Ok z.
Proof.
  cbv zeta. split.
  { unfold wf_pk, unit_mod. cbn [pk_N pk_Z pk_S pk_R pk_G pk_H length].
    repeat split; try lia; try reflexivity; try discriminate.
    repeat constructor. }
  split; [reflexivity|]. split; [reflexivity|]. split; [reflexivity|]. split; [reflexivity|].
  eexists. split; vm_compute; reflexivity.
Qed.

(* same key; U = S^5 * R_0^3 = 46, randomizers (10, 7), challenges 5 and 4 *)
Example issuance_two_transcripts_nonvacuous :
  let pk := mkPk 77 32 2 None None [4] params_1024 0 false in
  let p := mkPu (Some 46) (Some 5) (Some 35) (Some 22) [] in
  let p' := mkPu (Some 46) (Some 4) (Some 30) (Some 19) [] in
  pu_U p = pu_U p' /\ map fst (pu_MUser p) = map fst (pu_MUser p') /\
  exists z, reconstruct_ucommit pk p = Ok z /\ reconstruct_ucommit pk p' = Ok z.
Proof.
  cbv zeta. split; [reflexivity|]. split; [reflexivity|]. eexists. split; vm_compute; reflexivity.
Qed.
