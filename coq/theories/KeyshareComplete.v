(* C14: completeness of the joint (user + keyshare server) proof of knowledge. The proof that results from merging
   the server's response into the user's disclosure proof is exactly the proof a single holder of the joint secret
   skU + skS would have produced with the randomizer rU + rS, so the verifier reconstructs the hashed commitment. *)
From Coq Require Import ZArith List Bool Lia.
From GabiGen Require Import Consts.
From Gabi Require Import Val ModArith GoSem ParamsDef ZkProof Keys RangeProof HashTool NonRev Core CL Prover CoreSound Keyshare DiscloseComplete.
Import ListNotations.
Open Scope Z_scope.

Lemma lookup_set_rand_same m k v : lookup (set_rand m k v) k = Some v.
Proof.
  induction m as [|[k' v'] r IH]; cbn [set_rand lookup].
  - now rewrite Z.eqb_refl.
  - destruct (Z.eqb_spec k' k) as [->|Hne]; cbn [lookup].
    + now rewrite Z.eqb_refl.
    + destruct (Z.eqb_spec k' k); [contradiction|exact IH].
Qed.

Lemma lookup_set_rand_other m k v k' : k' <> k -> lookup (set_rand m k v) k' = lookup m k'.
Proof.
  intros Hne. induction m as [|[k0 v0] r IH]; cbn [set_rand lookup].
  - destruct (Z.eqb_spec k k'); [congruence|reflexivity].
  - destruct (Z.eqb_spec k0 k) as [->|H0]; cbn [lookup].
    + destruct (Z.eqb_spec k k'); [congruence|reflexivity].
    + destruct (Z.eqb_spec k0 k'); [reflexivity|exact IH].
Qed.

Lemma set_rand_set_rand m k v w : set_rand (set_rand m k v) k w = set_rand m k w.
Proof.
  induction m as [|[k0 v0] r IH]; cbn [set_rand].
  - now rewrite Z.eqb_refl.
  - destruct (Z.eqb_spec k0 k) as [->|H0]; cbn [set_rand].
    + now rewrite Z.eqb_refl.
    + destruct (Z.eqb_spec k0 k); [contradiction|now rewrite IH].
Qed.

Section Joint.
Variable pk : pubkey.
Let n := pk_N pk.
Hypothesis Hn : 1 < n.

(* the product over the undisclosed attributes only depends on the randomizers of those attributes *)
Lemma und_product_ext und : forall r1 r2 z,
  (forall i, In i und -> lookup r1 i = lookup r2 i) -> und_product pk und r1 z = und_product pk und r2 z.
Proof.
  induction und as [|v rest IH]; intros r1 r2 z H; cbn [und_product]; [reflexivity|].
  rewrite (H v (or_introl eq_refl)).
  destruct (index_R (pk_R pk) v); cbn [obind]; try reflexivity.
  destruct (lookup r2 v); cbn [deref obind]; try reflexivity.
  destruct (go_modpow _ _ _); cbn [or_err obind]; try reflexivity.
  apply IH. intros i Hi. apply H. now right.
Qed.

(* user's randomizers with rU at index 0 and the factor R_0^rS up front  =  joint randomizers with rU + rS *)
Lemma und_product_joint r0 rU rS : index_R (pk_R pk) 0 = Ok r0 -> 0 <= rU -> 0 <= rS ->
  forall und rand z0, NoDup und -> In 0 und ->
  und_product pk und (set_rand rand 0 rU) ((powx n r0 rS * z0) mod n) =
  und_product pk und (set_rand rand 0 (rU + rS)) (z0 mod n).
Proof.
  intros Hr0 HrU HrS. induction und as [|v rest IH]; intros rand z0 Hnd Hin; [destruct Hin|].
  inversion Hnd as [|? ? Hnot Hnd']; subst. cbn [und_product].
  destruct (Z.eq_dec v 0) as [->|Hv].
  - rewrite Hr0. cbn [obind]. rewrite !lookup_set_rand_same. cbn [deref obind].
    rewrite !go_modpow_nonneg by (unfold n in *; lia). cbn [or_err obind].
    fold n. rewrite powx_powm by lia.
    assert (E : (powm n r0 rS * z0 mod n * powm n r0 rU) mod n = (z0 mod n * powm n r0 (rU + rS)) mod n).
    { rewrite powm_add by lia. unfold mulm. rewrite Z.mul_mod_idemp_l by lia. rewrite Z.mul_mod_idemp_l by lia.
      rewrite Z.mul_mod_idemp_r by lia. f_equal. ring. }
    rewrite E. apply und_product_ext. intros i Hi. assert (i <> 0) by (intros ->; contradiction).
    now rewrite !lookup_set_rand_other.
  - destruct Hin as [Hin|Hin]; [congruence|].
    destruct (index_R (pk_R pk) v) as [base| |]; cbn [obind]; try reflexivity.
    rewrite !lookup_set_rand_other by exact Hv.
    destruct (lookup rand v) as [x|]; cbn [deref obind]; try reflexivity.
    destruct (go_modpow base x (pk_N pk)) as [t|]; cbn [or_err obind]; try reflexivity.
    fold n. rewrite <- (IH rand (z0 mod n * t) Hnd' Hin). f_equal.
    rewrite Z.mul_mod_idemp_l by lia.
    replace (powx n r0 rS * (z0 mod n * t)) with ((z0 mod n) * (powx n r0 rS * t)) by ring.
    rewrite Z.mul_mod_idemp_l by lia. f_equal. ring.
Qed.

Lemma lookup_map_pairs (f : Z -> option Z) : forall und k, In k und -> lookup (map (fun v => (v, f v)) und) k = Some (f k).
Proof.
  induction und as [|v rest IH]; intros k Hk; [destruct Hk|]. cbn [map lookup].
  destruct (Z.eqb_spec v k) as [->|Hne]; [reflexivity|]. destruct Hk as [->|Hk]; [congruence|now apply IH].
Qed.

Lemma map_set_map_pairs (f : Z -> option Z) k x : forall und, NoDup und -> In k und ->
  map_set (map (fun v => (v, f v)) und) k x = map (fun v => (v, if v =? k then x else f v)) und.
Proof.
  induction und as [|v rest IH]; intros Hnd Hin; [destruct Hin|].
  inversion Hnd as [|? ? Hnot Hnd']; subst. cbn [map map_set].
  destruct (Z.eqb_spec v k) as [->|Hne].
  - f_equal. apply map_ext_in. intros w Hw. destruct (Z.eqb_spec w k) as [->|]; [contradiction|reflexivity].
  - destruct Hin as [->|Hin]; [congruence|]. f_equal. now apply IH.
Qed.

Lemma nthZd_tail x y rest i : 0 <= i -> i <> 0 -> nthZd (x :: rest) i = nthZd (y :: rest) i.
Proof.
  intros H0 H1. unfold nthZd. destruct (Z.to_nat i) as [|k] eqn:E; [lia|reflexivity].
Qed.

Theorem keyshare_joint_complete_lem is_prime sg rest disclosed und eC vC rand c skU skS rU rS a e v r0 l bU' pU pJ ur (rnd : Z -> Z) :
  let attrsU := skU :: rest in
  let attrsJ := (skU + skS) :: rest in
  cl_verify pk is_prime (mkSig (sig_A sg) (sig_E sg) (sig_V sg) None) attrsJ = Ok true ->
  sig_A sg = Some a -> sig_E sg = Some e -> sig_V sg = Some v ->
  get_undisclosed disclosed (Z.of_nat (length attrsU)) = Ok und -> NoDup disclosed -> ~ In 0 disclosed ->
  unitb pk a -> unitb pk (pk_S pk) -> unitb pk (pk_Z pk) -> (forall i, in_R pk i -> unitb pk (R_at pk i)) ->
  (forall m, In m attrsJ -> 0 <= m) -> 0 <= skU -> 0 <= skS -> 0 <= rU -> 0 <= rS -> 0 <= c ->
  bitlen skU <= Lm (pk_params pk) -> bitlen (skU + skS) <= Lm (pk_params pk) ->
  index_R (pk_R pk) 0 = Ok r0 ->
  (forall i, In i und -> i <> 0 -> lookup rand i = Some (rnd i)) ->
  (* the user commits with the server's commitment R_0^rS merged in, and answers the challenge *)
  db_commit pk (mkDb sg eC vC rand disclosed und attrsU) rU (Some (powx n r0 rS)) = Ok (l, bU') ->
  db_create_proof pk bU' c = Ok pU ->
  (* the server adds its part to the user's response for the secret, the user merges it *)
  lookup_ptr (pd_AResp pU) 0 = Some ur ->
  merge_proofP_D pU c (rS + c * skS + ur) = Ok pJ ->
  exists z, l = [a; z] /\ reconstruct_z pk pJ = Ok z.
Proof.
  intros attrsU attrsJ Hver HA HE HV Hund Hnd H0d Ua US UZ UR Hattr HskU HskS HrU HrS Hc BU BJ Hr0 Hrnd Hcommit Hproof Hur Hmerge.
  set (sgJ := mkSig (sig_A sg) (sig_E sg) (sig_V sg) None) in *.
  set (lm := Lm (pk_params pk)) in *.
  (* 0 is undisclosed, the undisclosed indices are distinct and non-negative *)
  assert (Hund' : und = filter (fun i => negb (memZ i disclosed)) (zrange (Z.of_nat (length attrsU))) /\
                  forall d, In d disclosed -> 0 <= d).
  { unfold get_undisclosed in Hund. destruct (forallb _ disclosed) eqn:E; [|discriminate]. inversion Hund. split; [reflexivity|].
    intros d Hd. rewrite forallb_forall in E. specialize (E d Hd). apply andb_true_iff in E as [E _]. now apply Z.leb_le. }
  destruct Hund' as [Eund Hdpos].
  assert (NDund : NoDup und) by (rewrite Eund; apply NoDup_filter, zrange_nodup).
  assert (In0 : In 0 und).
  { rewrite Eund. apply filter_In. split; [apply zrange_in; cbn [length attrsU]; lia|].
    unfold memZ. destruct (existsb (Z.eqb 0) disclosed) eqn:E; [|reflexivity].
    apply existsb_exists in E as (x & Hx & Ex). apply Z.eqb_eq in Ex. subst x. contradiction. }
  assert (Hupos : forall i, In i und -> 0 <= i).
  { intros i Hi. rewrite Eund in Hi. apply filter_In in Hi as [Hi _]. apply zrange_in in Hi. lia. }
  (* commitment: the same list as a single prover with randomizer rU + rS *)
  set (bJ := mkDb sgJ eC vC rand disclosed und attrsJ).
  set (bJ' := mkDb sgJ eC vC (set_rand rand 0 (rU + rS)) disclosed und attrsJ).
  assert (HcommitJ : db_commit pk bJ (rU + rS) None = Ok (l, bJ') /\
                     bU' = mkDb sg eC vC (set_rand rand 0 rU) disclosed und attrsU).
  { unfold db_commit in *. cbn [db_sig db_eCommit db_vCommit db_rand db_disclosed db_undisclosed db_attrs bJ sgJ sig_A] in *.
    rewrite HA in *. cbn [deref obind] in *.
    destruct (go_modpow a eC (pk_N pk)) as [ae|]; cbn [or_err obind] in *; [|discriminate].
    destruct (go_modpow (pk_S pk) vC (pk_N pk)) as [sv|]; cbn [or_err obind] in *; [|discriminate].
    fold n in Hcommit |- *.
    replace (powx n r0 rS * ae * sv) with (powx n r0 rS * (ae * sv)) in Hcommit by ring.
    rewrite (und_product_joint r0 rU rS Hr0 HrU HrS und rand (ae * sv) NDund In0) in Hcommit.
    replace (1 * ae * sv) with (ae * sv) by ring.
    destruct (und_product pk und (set_rand rand 0 (rU + rS)) ((ae * sv) mod n)) as [z| |]; cbn [obind] in *; try discriminate.
    inversion Hcommit; subst. split; reflexivity. }
  destruct HcommitJ as [HcommitJ EbU']. subst bU'.
  (* responses *)
  set (rndU := fun i => if i =? 0 then rU else rnd i).
  set (rndJ := fun i => if i =? 0 then rU + rS else rnd i).
  assert (LU : forall i, In i und -> lookup (set_rand rand 0 rU) i = Some (rndU i)).
  { intros i Hi. unfold rndU. destruct (Z.eqb_spec i 0) as [->|Hne]; [apply lookup_set_rand_same|].
    rewrite lookup_set_rand_other by exact Hne. now apply Hrnd. }
  assert (LJ : forall i, In i und -> lookup (set_rand rand 0 (rU + rS)) i = Some (rndJ i)).
  { intros i Hi. unfold rndJ. destruct (Z.eqb_spec i 0) as [->|Hne]; [apply lookup_set_rand_same|].
    rewrite lookup_set_rand_other by exact Hne. now apply Hrnd. }
  unfold db_create_proof in Hproof. cbn [db_sig db_eCommit db_vCommit db_rand db_disclosed db_undisclosed db_attrs] in Hproof.
  rewrite HE, HV in Hproof. cbn [deref obind] in Hproof.
  rewrite (aresp_omap pk (set_rand rand 0 rU) rndU attrsU c und LU) in Hproof. cbn [obind] in Hproof.
  inversion Hproof; subst pU; clear Hproof.
  cbn [pd_AResp] in Hur.
  assert (Eur : ur = rU + c * skU).
  { unfold lookup_ptr in Hur. rewrite (lookup_map_pairs (fun v => Some (rndU v + c * aexp pk attrsU v)) und 0 In0) in Hur.
    inversion Hur. unfold rndU, aexp, nthZd, attrsU. cbn [Z.eqb Z.to_nat nth]. unfold attr_exp. fold lm.
    destruct (Z.ltb_spec lm (bitlen skU)); [lia|reflexivity]. }
  (* the honest single-prover proof for the joint secret *)
  assert (HproofJ : exists pJ', db_create_proof pk bJ' c = Ok pJ' /\ pJ' = pJ).
  { unfold db_create_proof. cbn [db_sig db_eCommit db_vCommit db_rand db_disclosed db_undisclosed db_attrs bJ' sgJ sig_E sig_V sig_A].
    rewrite HE, HV. cbn [deref obind].
    rewrite (aresp_omap pk (set_rand rand 0 (rU + rS)) rndJ attrsJ c und LJ). cbn [obind].
    eexists. split; [reflexivity|].
    unfold merge_proofP_D in Hmerge. cbn [pd_C pd_AResp pd_A pd_E pd_V pd_ADisc pd_nr pd_rp deref obind] in Hmerge.
    rewrite Hur in Hmerge. cbn [deref obind] in Hmerge. inversion Hmerge; clear Hmerge.
    f_equal.
    - (* responses *)
      rewrite (map_set_map_pairs (fun v => Some (rndU v + c * aexp pk attrsU v)) 0 _ und NDund In0).
      apply map_ext_in. intros w Hw. f_equal. destruct (Z.eqb_spec w 0) as [->|Hne].
      + f_equal. rewrite Eur. unfold rndJ, aexp, nthZd, attrsJ. cbn [Z.eqb Z.to_nat nth]. unfold attr_exp. fold lm.
        destruct (Z.ltb_spec lm (bitlen (skU + skS))); [lia|ring].
      + f_equal. unfold rndJ, rndU. destruct (Z.eqb_spec w 0); [contradiction|].
        unfold aexp, attrsJ, attrsU. now rewrite (nthZd_tail (skU + skS) skU rest w (Hupos w Hw) Hne).
    - (* disclosed values *)
      apply map_ext_in. intros d Hd. f_equal. f_equal. unfold attrsJ, attrsU. apply nthZd_tail; [now apply Hdpos|]. intros ->. contradiction. }
  destruct HproofJ as (pJ' & HpJ' & <-).
  apply (disclose_complete_lem pk Hn is_prime sgJ attrsJ disclosed und eC vC rand (rU + rS) c l bJ' pJ' a e v rndJ);
    try assumption; try reflexivity.
Qed.

(* ---- the stored credential: a signature carrying the server's part R_0^skS (KeyshareP) on the user's share is the same
        thing as a plain signature on the joint secret ---- *)

Lemma represent_scale lm : forall es bs r z p,
  represent n lm bs es r = Ok z -> represent n lm bs es ((p * r) mod n) = Ok ((p * z) mod n).
Proof.
  induction es as [|e es IH]; intros bs r z p H; destruct bs as [|b bs]; cbn [represent] in *; try discriminate.
  - inversion H; subst; reflexivity.
  - inversion H; subst; reflexivity.
  - apply (IH _ _ _ p) in H. rewrite <- H. f_equal.
    rewrite Z.mul_mod_idemp_l by lia. rewrite Z.mul_mod_idemp_r by lia. f_equal. ring.
Qed.

Lemma represent_shape lm : forall es bs r r',
  match represent n lm bs es r, represent n lm bs es r' with
  | Ok _, Ok _ => True | Panic, Panic => True | Err, Err => True | _, _ => False
  end.
Proof.
  induction es as [|e es IH]; intros bs r r'; destruct bs as [|b bs]; cbn [represent]; try exact I. apply IH.
Qed.

Theorem keyshare_signature_is_joint_lem is_prime A E V skU skS rest r0 bs :
  pk_R pk = r0 :: bs -> 0 <= skU -> 0 <= skS ->
  bitlen skU <= Lm (pk_params pk) -> bitlen (skU + skS) <= Lm (pk_params pk) ->
  cl_verify pk is_prime (mkSig A E V (Some (powx n r0 skS))) (skU :: rest) =
  cl_verify pk is_prime (mkSig A E V None) ((skU + skS) :: rest).
Proof.
  intros HR HU HS BU BJ. unfold cl_verify. cbn [sig_E sig_A sig_V sig_KP]. fold n.
  destruct E as [e|]; cbn [deref obind]; [|reflexivity].
  destruct ((e <? e_start (pk_params pk)) || (e_end (pk_params pk) <? e)); [reflexivity|].
  destruct (negb (is_prime e)); [reflexivity|].
  destruct A as [a|]; cbn [deref obind]; [|reflexivity].
  destruct (go_exp a e n) as [ae|]; cbn [deref obind]; [|reflexivity].
  unfold represent_to_pk. rewrite HR. cbn [represent]. fold n.
  set (lm := Lm (pk_params pk)) in *.
  assert (EU : attr_exp lm skU = skU) by (unfold attr_exp; destruct (Z.ltb_spec lm (bitlen skU)); [lia|reflexivity]).
  assert (EJ : attr_exp lm (skU + skS) = skU + skS) by (unfold attr_exp; destruct (Z.ltb_spec lm (bitlen (skU + skS))); [lia|reflexivity]).
  rewrite EU, EJ. rewrite !powx_powm by lia.
  set (x := (1 * powm n r0 skU) mod n).
  assert (Ey : (1 * powm n r0 (skU + skS)) mod n = (powm n r0 skS * x) mod n).
  { unfold x. rewrite powm_add by lia. unfold mulm. rewrite !Z.mul_1_l. rewrite Z.mul_mod_idemp_r by lia.
    rewrite Z.mod_mod by lia. f_equal. ring. }
  rewrite Ey.
  pose proof (represent_shape lm rest bs x ((powm n r0 skS * x) mod n)) as Hs.
  destruct (represent n lm bs rest x) as [rU| |] eqn:ErU.
  - rewrite (represent_scale lm rest bs x rU (powm n r0 skS) ErU). cbn [obind].
    destruct V as [v|]; cbn [deref obind]; [|reflexivity].
    destruct (go_modpow (pk_S pk) v n) as [sv|]; [|reflexivity].
    f_equal. f_equal.
    replace (ae * (rU * powm n r0 skS) * sv) with ((powm n r0 skS * rU) * (ae * sv)) by ring.
    replace (ae * ((powm n r0 skS * rU) mod n) * sv) with (((powm n r0 skS * rU) mod n) * (ae * sv)) by ring.
    now rewrite Z.mul_mod_idemp_l by lia.
  - destruct (represent n lm bs rest ((powm n r0 skS * x) mod n)); try contradiction. reflexivity.
  - destruct (represent n lm bs rest ((powm n r0 skS * x) mod n)); try contradiction. reflexivity.
Qed.

End Joint.

(* the premises are satisfiable: toy key N = 7 * 11, S = 9, R = [4; 16; 25], Z = 43; signature (A, e, v) = (2, 2^596 + 1, 5)
   on the joint secret 3 + 4 and one attribute 6 (hidden); user share 3, server share 4 *)
Example keyshare_joint_nonvacuous :
  let pk := mkPk 77 43 9 None None [4; 16; 25] params_1024 0 false in
  let sg := mkSig (Some 2) (Some (2 ^ 596 + 1)) (Some 5) (Some (powx 77 4 4)) in
  cl_verify pk (fun _ => true) sg [3; 6] = Ok true /\
  cl_verify pk (fun _ => true) (mkSig (sig_A sg) (sig_E sg) (sig_V sg) None) [3 + 4; 6] = Ok true /\
  exists l bU' pU ur pJ z,
    db_commit pk (mkDb sg 11 12 [(1, 13)] [] [0; 1] [3; 6]) 14 (Some (powx 77 4 15)) = Ok (l, bU') /\
    db_create_proof pk bU' 10 = Ok pU /\ lookup_ptr (pd_AResp pU) 0 = Some ur /\
    merge_proofP_D pU 10 (15 + 10 * 4 + ur) = Ok pJ /\ l = [2; z] /\ reconstruct_z pk pJ = Ok z.
Proof.
  cbv zeta. split; [vm_compute; reflexivity|]. split; [vm_compute; reflexivity|].
  do 6 eexists. repeat split; vm_compute; reflexivity.
Qed.
