(* gabikeys/keys.go PrivateKey.WriteToFile : POSIX semantics of open(2) with O_CREAT|O_TRUNC or
   O_CREAT|O_EXCL, the mode argument masked by the umask on creation only, and fchmod(2). *)
From Coq Require Import ZArith List Lia Bool.
From Gabi Require Import Val GoSem.
Import ListNotations.
Open Scope Z_scope.

(* what is at the path before the call *)
Inductive prior :=
| Absent
| Regular (mode : Z)
| SymlinkTo (target : option Z).      (* Some mode: existing regular target; None: dangling *)

Definition mask_mode (mode umask : Z) : Z := Z.land mode (Z.lxor umask 511).

(* result: None = error, file system unchanged; Some m = the key file (the path itself or the
   symlink's target) now holds the key and has permission bits m.  The caller is assumed to have
   write permission on existing files (the harness runs as root). *)
Definition privkey_write (p : prior) (umask : Z) (force : bool) : option Z :=
  if force then
    (* OpenFile(O_WRONLY|O_CREATE|O_TRUNC, 0600) then f.Chmod(0600) *)
    match p with
    | Absent => Some 384                     (* created 0600 & ~umask, then fchmod 0600 *)
    | Regular _ => Some 384                  (* mode argument ignored, fchmod tightens *)
    | SymlinkTo (Some _) => Some 384
    | SymlinkTo None => Some 384
    end
  else
    (* OpenFile(O_RDWR|O_CREATE|O_EXCL, 0600): fails if anything exists, symlinks are not followed *)
    match p with
    | Absent => Some (mask_mode 384 umask)
    | _ => None
    end.

Lemma land_subset a b : 0 <= a -> Z.land (Z.land a b) 63 = 0 -> True.
Proof. trivial. Qed.

(* group/other bits are the low six bits *)
Definition private (m : Z) : Prop := Z.land m 63 = 0.

Lemma mask_private u : Z.land (mask_mode 384 u) 63 = 0.
Proof.
  unfold mask_mode. rewrite (Z.land_comm 384), <- Z.land_assoc. change (Z.land 384 63) with 0. apply Z.land_0_r.
Qed.
Opaque mask_mode.

Theorem privkey_mode_lem p umask force m : 0 <= umask < 512 ->
  privkey_write p umask force = Some m -> private m.
Proof.
  intros Hu. unfold privkey_write, private.
  destruct force.
  - destruct p as [| |[|]]; intros [= <-]; reflexivity.
  - destruct p; try discriminate. intros [= <-]. apply mask_private.
Qed.

(* wire: (kind mode umask force) -> (err mode) *)
Definition d_privkey_write (v : val) : val :=
  match v with
  | VL [VZ kind; VZ mode; VZ um; VZ f] =>
    let p := match kind with 0 => Absent | 1 => Regular mode | 2 => SymlinkTo (Some mode) | _ => SymlinkTo None end in
    match privkey_write p um (negb (f =? 0)) with
    | Some m => VL [VZ 0; VZ m]
    | None => VL [VZ 1; VZ (match kind with 1 => -1 | 2 => -1 | _ => -1 end)]
    end
  | _ => bad_input
  end.
