(* The algebraic half of the two-transcript extractor, for every Schnorr-style proof over Z_n^* verified as
   linv^c * prod base_i^(response_i): two accepting transcripts with the same commitment and challenges c > c'
   yield exponents (response_i - response_i') under which the bases represent lhs^(c - c').  (Dividing these
   exponents by c - c' is where the strong RSA assumption enters: cited, not mechanised.) *)
From Coq Require Import ZArith List Bool Lia.
From Gabi Require Import ModArith SignedPow.
Import ListNotations.
Open Scope Z_scope.

Section Extract.
Variable n : Z.
Hypothesis Hn : 1 < n.

Definition units (ts : list sterm) : Prop := Forall (fun t => mulm n (s_b t) (s_bi t) = 1) ts.

Lemma sprod_add f g ts : units ts ->
  sprod n (fun t => f t + g t) ts = mulm n (sprod n f ts) (sprod n g ts).
Proof.
  intros H. induction H as [|t r Hinv _ IH]; cbn [sprod].
  - rewrite mulm_1_l by lia. symmetry. apply Z.mod_small. lia.
  - rewrite IH. rewrite (spw_add n Hn (s_b t) (s_bi t) Hinv).
    set (x := spw n (s_b t) (s_bi t) (f t)). set (y := spw n (s_b t) (s_bi t) (g t)).
    rewrite !mulm_assoc by lia. f_equal. rewrite <- !mulm_assoc by lia. f_equal. apply mulm_comm.
Qed.

Lemma sprod_ext f g ts : (forall t, f t = g t) -> sprod n f ts = sprod n g ts.
Proof. intros H. induction ts as [|t r IH]; cbn [sprod]; [reflexivity|]. now rewrite H, IH. Qed.

Lemma sprod_zero ts : sprod n (fun _ => 0) ts = 1.
Proof.
  induction ts as [|t r IH]; cbn [sprod]; [reflexivity|]. rewrite IH. unfold spw. cbn [Z.ltb Z.compare].
  rewrite powm_0_r. rewrite mulm_1_r by lia. rewrite Z.mod_mod by lia. apply Z.mod_small. lia.
Qed.

Lemma sprod_neg_inverse g ts : units ts -> mulm n (sprod n g ts) (sprod n (fun t => - g t) ts) = 1.
Proof.
  intros H. rewrite <- (sprod_add g (fun t => - g t) ts H).
  rewrite <- (sprod_zero ts). apply sprod_ext. intros t. lia.
Qed.

(* product form: both transcripts open to the same value T = linv^c * prod = linv^c' * prod' *)
Theorem two_transcripts_relation_prod ts lhs linv c c' (v v' : sterm -> Z) :
  units ts -> mulm n lhs linv = 1 -> 0 <= c' <= c ->
  mulm n (powm n linv c) (sprod n v ts) = mulm n (powm n linv c') (sprod n v' ts) ->
  sprod n (fun t => v t - v' t) ts = powm n lhs (c - c').
Proof.
  intros Hu Hinv Hc HT.
  set (A := sprod n (fun t => v t - v' t) ts).
  set (B := sprod n v' ts) in *.
  set (Bi := sprod n (fun t => - v' t) ts).
  assert (HB : mulm n B Bi = 1) by (apply sprod_neg_inverse; exact Hu).
  assert (HV : sprod n v ts = mulm n A B).
  { unfold A, B. rewrite <- (sprod_add _ _ ts Hu). apply sprod_ext. intros t. lia. }
  rewrite HV in HT.
  (* multiply by Bi and by lhs^c *)
  assert (H1 : mulm n (powm n linv c) A = powm n linv c').
  { assert (E : mulm n (mulm n (powm n linv c) (mulm n A B)) Bi = mulm n (mulm n (powm n linv c') B) Bi) by now rewrite HT.
    rewrite !mulm_assoc in E by lia. rewrite HB in E. rewrite !mulm_1_r in E by lia.
    rewrite (Z.mod_small A n) in E by (apply sprod_range; lia).
    rewrite (powm_idem_mod n ltac:(lia) linv c') in E. exact E. }
  assert (Hcancel : forall k, 0 <= k -> mulm n (powm n lhs k) (powm n linv k) = 1).
  { intros k Hk. rewrite <- powm_mulm by lia. rewrite Hinv. rewrite powm_1_l by lia. apply Z.mod_small. lia. }
  assert (H2 : mulm n (powm n lhs c) (mulm n (powm n linv c) A) = mulm n (powm n lhs c) (powm n linv c')) by now rewrite H1.
  rewrite <- mulm_assoc in H2 by lia. rewrite (Hcancel c ltac:(lia)) in H2. rewrite mulm_1_l in H2 by lia.
  rewrite (Z.mod_small A n) in H2 by (apply sprod_range; lia).
  rewrite H2. replace c with ((c - c') + c') at 1 by lia. rewrite powm_add by lia.
  rewrite mulm_assoc by lia. rewrite (Hcancel c' ltac:(lia)). rewrite mulm_1_r by lia. apply powm_idem_mod. lia.
Qed.

Theorem two_transcripts_relation ts lhs linv c c' (v v' : sterm -> Z) :
  units ts -> mulm n lhs linv = 1 -> 0 <= c' <= c ->
  sfold n v ts (powm n linv c) = sfold n v' ts (powm n linv c') ->
  sprod n (fun t => v t - v' t) ts = powm n lhs (c - c').
Proof.
  intros Hu Hinv Hc Heq.
  apply (two_transcripts_relation_prod ts lhs linv c c' v v' Hu Hinv Hc).
  rewrite <- !(sfold_mod n Hn). now rewrite Heq.
Qed.

End Extract.
