(* SHA-256 (FIPS 180-4) over lists of bytes (Z in [0,256)), 32-bit words as Z with the
   reduction mod 2^32 written explicitly.  Executable; validated against NIST vectors
   below (tests) and differentially against crypto/sha256 by the correspondence suite. *)
From Coq Require Import ZArith List Lia.
Import ListNotations.
Open Scope Z_scope.

Definition w32 (x : Z) : Z := Z.land x 4294967295.   (* x mod 2^32, see w32_mod *)
Definition rotr (n x : Z) : Z := Z.lor (Z.shiftr x n) (w32 (Z.shiftl x (32 - n))).
Definition shr (n x : Z) : Z := Z.shiftr x n.
Definition not32 (x : Z) : Z := Z.lxor x 4294967295.
Definition Ch (x y z : Z) : Z := Z.lxor (Z.land x y) (Z.land (not32 x) z).
Definition Maj (x y z : Z) : Z := Z.lxor (Z.lxor (Z.land x y) (Z.land x z)) (Z.land y z).
Definition bsig0 x := Z.lxor (Z.lxor (rotr 2 x) (rotr 13 x)) (rotr 22 x).
Definition bsig1 x := Z.lxor (Z.lxor (rotr 6 x) (rotr 11 x)) (rotr 25 x).
Definition ssig0 x := Z.lxor (Z.lxor (rotr 7 x) (rotr 18 x)) (shr 3 x).
Definition ssig1 x := Z.lxor (Z.lxor (rotr 17 x) (rotr 19 x)) (shr 10 x).

Definition K256 : list Z := [1116352408; 1899447441; 3049323471; 3921009573; 961987163; 1508970993; 2453635748; 2870763221; 3624381080; 310598401; 607225278; 1426881987; 1925078388; 2162078206; 2614888103; 3248222580; 3835390401; 4022224774; 264347078; 604807628; 770255983; 1249150122; 1555081692; 1996064986; 2554220882; 2821834349; 2952996808; 3210313671; 3336571891; 3584528711; 113926993; 338241895; 666307205; 773529912; 1294757372; 1396182291; 1695183700; 1986661051; 2177026350; 2456956037; 2730485921; 2820302411; 3259730800; 3345764771; 3516065817; 3600352804; 4094571909; 275423344; 430227734; 506948616; 659060556; 883997877; 958139571; 1322822218; 1537002063; 1747873779; 1955562222; 2024104815; 2227730452; 2361852424; 2428436474; 2756734187; 3204031479; 3329325298].
Definition H256 : list Z := [1779033703; 3144134277; 1013904242; 2773480762; 1359893119; 2600822924; 528734635; 1541459225].

(* big-endian bytes -> number *)
Definition be_to_Z (l : list Z) : Z := fold_left (fun acc b => acc * 256 + b) l 0.

(* n-byte big-endian encoding of the low 8n bits of z *)
Fixpoint be_fixed (n : nat) (z : Z) : list Z :=
  match n with
  | O => []
  | S k => be_fixed k (z / 256) ++ [z mod 256]
  end.

Fixpoint words_of_bytes (l : list Z) : list Z :=
  match l with
  | a :: b :: c :: d :: r => (((a * 256 + b) * 256 + c) * 256 + d) :: words_of_bytes r
  | _ => []
  end.

(* message schedule, most recent word first: [w] holds W[t-1], W[t-2], ... *)
Fixpoint extend (n : nat) (w : list Z) : list Z :=
  match n with
  | O => w
  | S k =>
    let x := w32 (ssig1 (nth 1 w 0) + nth 6 w 0 + ssig0 (nth 14 w 0) + nth 15 w 0) in
    extend k (x :: w)
  end.

Definition schedule (block : list Z) : list Z := rev (extend 48 (rev (words_of_bytes block))).

Definition st := (Z * Z * Z * Z * Z * Z * Z * Z)%type.

Definition round (s : st) (kw : Z * Z) : st :=
  let '(a, b, c, d, e, f, g, h) := s in
  let t1 := h + bsig1 e + Ch e f g + fst kw + snd kw in
  let t2 := bsig0 a + Maj a b c in
  (w32 (t1 + t2), a, b, c, w32 (d + t1), e, f, g).

Definition compress (s : st) (block : list Z) : st :=
  let '(a, b, c, d, e, f, g, h) := s in
  let '(a', b', c', d', e', f', g', h') := fold_left round (combine K256 (schedule block)) s in
  (w32 (a + a'), w32 (b + b'), w32 (c + c'), w32 (d + d'),
   w32 (e + e'), w32 (f + f'), w32 (g + g'), w32 (h + h')).

Fixpoint blocks (n : nat) (l : list Z) (s : st) : st :=
  match n with
  | O => s
  | S k => blocks k (skipn 64 l) (compress s (firstn 64 l))
  end.

Definition pad (msg : list Z) : list Z :=
  let len := Z.of_nat (length msg) in
  let zeros := (55 - len) mod 64 in
  msg ++ [128] ++ repeat 0 (Z.to_nat zeros) ++ be_fixed 8 (len * 8).

Definition init_st : st :=
  match H256 with
  | [a; b; c; d; e; f; g; h] => (a, b, c, d, e, f, g, h)
  | _ => (0, 0, 0, 0, 0, 0, 0, 0)
  end.

Definition sha256_words (msg : list Z) : list Z :=
  let p := pad msg in
  let '(a, b, c, d, e, f, g, h) := blocks (Nat.div (length p) 64) p init_st in
  [a; b; c; d; e; f; g; h].

Definition sha256 (msg : list Z) : list Z := flat_map (be_fixed 4) (sha256_words msg).

(* digest read as an unsigned big-endian integer (Go: new(big.Int).SetBytes(sha[:])) *)
Definition sha256_Z (msg : list Z) : Z :=
  fold_left (fun acc w => acc * 4294967296 + w) (sha256_words msg) 0.

(* --- tests (NIST vectors): "abc", "", and the 448-bit message --- *)
Example sha256_abc :
  sha256_Z [97; 98; 99] =
  0xba7816bf8f01cfea414140de5dae2223b00361a396177a9cb410ff61f20015ad.
Proof. vm_compute. reflexivity. Qed.

Example sha256_empty :
  sha256_Z [] = 0xe3b0c44298fc1c149afbf4c8996fb92427ae41e4649b934ca495991b7852b855.
Proof. vm_compute. reflexivity. Qed.

(* every word is reduced: digest is below 2^256 *)
Lemma w32_mod x : w32 x = x mod 4294967296.
Proof. unfold w32. change 4294967295 with (Z.ones 32). rewrite Z.land_ones by lia. reflexivity. Qed.

Lemma w32_range x : 0 <= w32 x < 4294967296.
Proof. rewrite w32_mod. apply Z.mod_pos_bound. lia. Qed.

Lemma compress_words s blk :
  let '(a, b, c, d, e, f, g, h) := compress s blk in
  (0 <= a < 4294967296 /\ 0 <= b < 4294967296 /\ 0 <= c < 4294967296 /\ 0 <= d < 4294967296) /\
  (0 <= e < 4294967296 /\ 0 <= f < 4294967296 /\ 0 <= g < 4294967296 /\ 0 <= h < 4294967296).
Proof.
  unfold compress. destruct s as [[[[[[[a b] c] d] e] f] g] h].
  destruct (fold_left round _ _) as [[[[[[[a' b'] c'] d'] e'] f'] g'] h'].
  repeat split; apply w32_range.
Qed.

Definition st_ok (s : st) : Prop :=
  let '(a, b, c, d, e, f, g, h) := s in
  (0 <= a < 4294967296 /\ 0 <= b < 4294967296 /\ 0 <= c < 4294967296 /\ 0 <= d < 4294967296) /\
  (0 <= e < 4294967296 /\ 0 <= f < 4294967296 /\ 0 <= g < 4294967296 /\ 0 <= h < 4294967296).

Lemma blocks_ok n : forall l s, st_ok s -> st_ok (blocks n l s).
Proof.
  induction n as [|k IH]; intros l s Hs; cbn [blocks]; [exact Hs|].
  apply IH. pose proof (compress_words s (firstn 64 l)) as H.
  unfold st_ok. destruct (compress s (firstn 64 l)) as [[[[[[[a b] c] d] e] f] g] h]. exact H.
Qed.

Lemma sha256_Z_range msg : 0 <= sha256_Z msg < 2 ^ 256.
Proof.
  unfold sha256_Z, sha256_words.
  pose proof (blocks_ok (Nat.div (length (pad msg)) 64) (pad msg) init_st) as H.
  assert (Hi : st_ok init_st) by (vm_compute; repeat split; congruence).
  specialize (H Hi). unfold st_ok in H.
  destruct (blocks _ _ _) as [[[[[[[a b] c] d] e] f] g] h].
  cbn [fold_left]. change (2 ^ 256) with (4294967296 ^ 8).
  destruct H as [[Ha [Hb [Hc Hd]]] [He [Hf [Hg Hh]]]].
  set (B := 4294967296) in *.
  assert (HB : B = 4294967296) by reflexivity. clearbody B.
  split; [nia|].
  assert (H1 : 0 * B + a <= B - 1) by lia.
  assert (H2 : (0 * B + a) * B + b <= B ^ 2 - 1) by nia.
  assert (H3 : ((0 * B + a) * B + b) * B + c <= B ^ 3 - 1) by nia.
  assert (H4 : (((0 * B + a) * B + b) * B + c) * B + d <= B ^ 4 - 1) by nia.
  assert (H5 : ((((0 * B + a) * B + b) * B + c) * B + d) * B + e <= B ^ 5 - 1) by nia.
  assert (H6 : (((((0 * B + a) * B + b) * B + c) * B + d) * B + e) * B + f <= B ^ 6 - 1) by nia.
  assert (H7 : ((((((0 * B + a) * B + b) * B + c) * B + d) * B + e) * B + f) * B + g <= B ^ 7 - 1) by nia.
  nia.
Qed.
