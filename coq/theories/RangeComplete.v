(* C13: an honestly built range proof makes the verifier reconstruct the prover's commitments. *)
From Coq Require Import ZArith List Lia Bool Zdiv Setoid Morphisms Znumtheory Zpow_facts.
From Gabi Require Import Val ModArith GoSem ParamsDef ZkProof Keys RangeProof SignedPow ZkComplete.
From GabiGen Require Import Consts.
Import ListNotations.
Open Scope Z_scope.

Section Range.
Variable pk : pubkey.
Notation n := (pk_N pk).
Hypothesis Hn : 1 < n.

Definition inv_of (x : Z) : Z := match go_modinverse x n with Some i => i | None => 0 end.
Definition is_unit (x : Z) : Prop := exists i, go_modinverse x n = Some i.

Lemma is_unit_inv x : is_unit x -> go_modinverse x n = Some (inv_of x).
Proof. intros [i Hi]. unfold inv_of. now rewrite Hi. Qed.

Lemma nth_ptr_map_some (cs : list Z) i : nth_ptr (map Some cs) i = nthZ cs i.
Proof.
  unfold nth_ptr, nthZ. rewrite map_length. destruct ((0 <=? i) && (i <? Z.of_nat (length cs))) eqn:E; [|reflexivity].
  apply andb_true_iff in E as [E1 E2]. apply Z.leb_le in E1. apply Z.ltb_lt in E2.
  rewrite (nth_indep _ None (Some 0)) by (rewrite map_length; lia). now rewrite map_nth.
Qed.

Lemma bases_agree (cs : list Z) p b : rp_Cs p = map Some cs -> rp_bases pk p b = rc_bases pk cs b.
Proof.
  intros H. unfold rp_bases, rc_bases. destruct (pk_base pk b); [reflexivity|].
  destruct b; try reflexivity. now rewrite H, nth_ptr_map_some.
Qed.

Lemma nthZ_range (l : list Z) i : 0 <= i < Z.of_nat (length l) -> nthZ l i = Some (nth (Z.to_nat i) l 0).
Proof.
  intros [H1 H2]. unfold nthZ. destruct (Z.leb_spec 0 i); [|lia]. destruct (Z.ltb_spec i (Z.of_nat (length l))); [|lia]. reflexivity.
Qed.


(* ---- generic: existence of the resolved term lists ---- *)
Definition rhs_units (bases : bname -> option Z) (l : list rhs) : Prop :=
  forall r, In r l -> exists b bi, bases (rhs_base r) = Some b /\ go_modinverse b n = Some bi.

Lemma resolve_q_exists bases vals l :
  rhs_units bases l -> (forall r, In r l -> exists x, vals (rhs_secret r) = Some x) ->
  exists ts, resolve_q n bases vals l = Some ts.
Proof.
  unfold rhs_units. induction l as [|r rest IH]; intros Hu Hv; cbn [resolve_q].
  - eexists; reflexivity.
  - destruct (Hu r (or_introl eq_refl)) as (b & bi & Hb & Hi). destruct (Hv r (or_introl eq_refl)) as (x & Hx).
    destruct IH as (ts & Hts).
    { intros r0 Hr0. apply Hu. now right. } { intros r0 Hr0. apply Hv. now right. }
    rewrite Hb, Hx, Hts, Hi. eexists; reflexivity.
Qed.

Definition stmt_true (strict : bool) (bases : bname -> option Z) (sec : sname -> option Z) (s : qrstruct) : Prop :=
  exists lhs linv, lhs_fold strict n bases (q_lhs s) 0 1 = Ok lhs /\ go_modinverse lhs n = Some linv /\
                   rhs_fold strict n bases sec (q_rhs s) 0 1 = Ok (lhs mod n).

Theorem qr_complete_easy strict bases sec rnd res c s :
  0 <= c -> rhs_units bases (q_rhs s) ->
  (forall r, In r (q_rhs s) -> exists x y, sec (rhs_secret r) = Some x /\ rnd (rhs_secret r) = Some y /\
                                           res (rhs_secret r) = Some (y + c * x)) ->
  stmt_true strict bases sec s ->
  qr_from_proof_gen strict n bases res c s = qr_from_secrets_gen strict n bases rnd s.
Proof.
  intros Hc Hu Hall (lhs & linv & Hl & Hi & Ht).
  destruct (resolve_q_exists bases sec _ Hu) as (ts_s & R1).
  { intros r Hr. destruct (Hall r Hr) as (x & y & Hx & _). eauto. }
  destruct (resolve_q_exists bases rnd _ Hu) as (ts_r & R2).
  { intros r Hr. destruct (Hall r Hr) as (x & y & _ & Hy & _). eauto. }
  destruct (resolve_q_exists bases res _ Hu) as (ts_v & R3).
  { intros r Hr. destruct (Hall r Hr) as (x & y & _ & _ & Hz). eauto. }
  eapply (qr_complete_lem strict n bases sec rnd res c s lhs linv ts_s ts_r ts_v); try eassumption.
  intros r x y z Hr Hx Hy Hz. destruct (Hall r Hr) as (x' & y' & Hx' & Hy' & Hz'). congruence.
Qed.

(* ---- the range proof ---- *)

Lemma omap_ext {A B} (f g : A -> outcome B) l : (forall x, In x l -> f x = g x) -> omap f l = omap g l.
Proof.
  induction l as [|x r IH]; intros H; cbn [omap]; [reflexivity|].
  rewrite (H x (or_introl eq_refl)). destruct (g x); cbn [obind]; try reflexivity.
  rewrite IH by (intros y Hy; apply H; now right). reflexivity.
Qed.

Definition rc_sec (c : rcommit) (s : sname) : option Z :=
  match s with
  | SM => Some (rc_m c) | SV5 => Some (rc_v5 c)
  | SV i => nthZ (rc_v c) i | SD i => nthZ (rc_d c) i
  | _ => None
  end.

Lemma nth_map_lt' {A B} (h : A -> B) (l : list A) (k : nat) (d : B) (d' : A) :
  (k < length l)%nat -> nth k (map h l) d = h (nth k l d').
Proof. intros Hk. rewrite (nth_indep _ d (h d')) by (now rewrite map_length). apply map_nth. Qed.

Lemma nth_ptr_map_resp (ch : Z) (l lr : list Z) i : length l = length lr ->
  nth_ptr (map (fun p => Some (ch * fst p + snd p)) (combine l lr)) i =
  match nthZ l i, nthZ lr i with Some x, Some y => Some (ch * x + y) | _, _ => None end.
Proof.
  intros Hl. unfold nth_ptr, nthZ. rewrite map_length, combine_length, <- Hl, Nat.min_id.
  destruct ((0 <=? i) && (i <? Z.of_nat (length l))) eqn:E; [|reflexivity].
  apply andb_true_iff in E as [E1 E2]. apply Z.leb_le in E1. apply Z.ltb_lt in E2.
  rewrite (nth_map_lt' _ _ _ None (0, 0)) by (rewrite combine_length; lia).
  rewrite combine_nth by exact Hl. reflexivity.
Qed.

(* honest responses to a challenge make the verifier reconstruct the commitments, provided the representation
   statements hold for the committed secrets *)
Theorem range_complete_lem s cm ch l :
  0 <= ch ->
  length (rc_d cm) = length (rc_dr cm) -> length (rc_v cm) = length (rc_vr cm) ->
  Z.of_nat (length (rc_d cm)) = rs_n s -> Z.of_nat (length (rc_v cm)) = rs_n s ->
  (* the commitments as computed by CommitmentsFromSecrets *)
  (let! c0 := qr_from_secrets n (rc_bases pk (rc_c cm)) (rc_rnd cm) (m_correct s) in
   let! rest := omap (fun i => qr_from_secrets n (rc_bases pk (rc_c cm)) (rc_rnd cm) (c_rep s i)) (zrange (rs_n s)) in
   Ok (c0 :: rest)) = Ok l ->
  rhs_units (rc_bases pk (rc_c cm)) (q_rhs (m_correct s)) -> stmt_true false (rc_bases pk (rc_c cm)) (rc_sec cm) (m_correct s) ->
  (forall i, In i (zrange (rs_n s)) -> rhs_units (rc_bases pk (rc_c cm)) (q_rhs (c_rep s i)) /\
                                       stmt_true false (rc_bases pk (rc_c cm)) (rc_sec cm) (c_rep s i)) ->
  commitments_from_proof pk s (build_proof s cm ch) ch = Ok l.
Proof.
  intros Hc Ld Lv Nd Nv Hcommit Um Tm Hrep.
  unfold commitments_from_proof.
  assert (Eb : forall b, rp_bases pk (build_proof s cm ch) b = rc_bases pk (rc_c cm) b).
  { intros b. apply bases_agree. reflexivity. }
  (* look-ups of secrets / randomizers / responses on the names that occur *)
  assert (Hres : forall sn x y, rc_sec cm sn = Some x -> rc_rnd cm sn = Some y -> rp_results (build_proof s cm ch) sn = Some (y + ch * x)).
  { intros sn x y Hx Hy. destruct sn; cbn [rc_sec rc_rnd rp_results build_proof rp_M rp_V5 rp_Vs rp_Ds] in *; try discriminate.
    - inversion Hx; inversion Hy; subst. f_equal. ring.
    - inversion Hx; inversion Hy; subst. f_equal. ring.
    - rewrite (nth_ptr_map_resp ch _ _ i Lv). rewrite Hx, Hy. f_equal. ring.
    - rewrite (nth_ptr_map_resp ch _ _ i Ld). rewrite Hx, Hy. f_equal. ring. }
  assert (Hdef : forall i, In i (zrange (rs_n s)) ->
            (exists x y, rc_sec cm (SD i) = Some x /\ rc_rnd cm (SD i) = Some y) /\
            (exists x y, rc_sec cm (SV i) = Some x /\ rc_rnd cm (SV i) = Some y)).
  { intros i Hi. unfold zrange in Hi. apply in_map_iff in Hi as (k & <- & Hk). apply in_seq in Hk.
    cbn [rc_sec rc_rnd]. split; eexists; eexists; split; apply nthZ_range; lia. }
  assert (Hall : forall st, (st = m_correct s \/ exists i, In i (zrange (rs_n s)) /\ st = c_rep s i) ->
            forall r, In r (q_rhs st) -> exists x y, rc_sec cm (rhs_secret r) = Some x /\ rc_rnd cm (rhs_secret r) = Some y /\
                                                      rp_results (build_proof s cm ch) (rhs_secret r) = Some (y + ch * x)).
  { intros st Hst r Hr.
    assert (Hxy : exists x y, rc_sec cm (rhs_secret r) = Some x /\ rc_rnd cm (rhs_secret r) = Some y).
    { destruct Hst as [-> | (i & Hi & ->)].
      - cbn [m_correct q_rhs] in Hr. destruct Hr as [<-|[<-|Hr]].
        + cbn. eauto. + cbn. eauto.
        + apply in_map_iff in Hr as (i & <- & Hi). cbn [rhs_secret]. apply (proj1 (Hdef i Hi)).
      - cbn [c_rep q_rhs] in Hr. destruct Hr as [<-|[<-|[]]]; cbn [rhs_secret]; [apply (proj1 (Hdef i Hi))|apply (proj2 (Hdef i Hi))]. }
    destruct Hxy as (x & y & Hx & Hy). exists x, y. repeat split; try assumption. now apply Hres. }
  assert (Ebases : forall st, qr_from_proof n (rp_bases pk (build_proof s cm ch)) (rp_results (build_proof s cm ch)) ch st =
                              qr_from_proof n (rc_bases pk (rc_c cm)) (rp_results (build_proof s cm ch)) ch st).
  { intros st. unfold qr_from_proof, qr_from_proof_gen.
    assert (El : forall l tmp acc, lhs_fold false n (rp_bases pk (build_proof s cm ch)) l tmp acc = lhs_fold false n (rc_bases pk (rc_c cm)) l tmp acc).
    { induction l0 as [|[b pw] r IH]; intros tmp acc; cbn [lhs_fold]; [reflexivity|]. unfold exp_into. rewrite Eb.
      destruct (rc_bases pk (rc_c cm) b); cbn [obind]; apply IH. }
    assert (Er : forall l contribution commitment, rhs_fold false n (rp_bases pk (build_proof s cm ch)) (rp_results (build_proof s cm ch)) l contribution commitment =
                                                   rhs_fold false n (rc_bases pk (rc_c cm)) (rp_results (build_proof s cm ch)) l contribution commitment).
    { induction l0 as [|r rest IH]; intros contribution commitment; cbn [rhs_fold]; [reflexivity|].
      destruct (rp_results (build_proof s cm ch) (rhs_secret r)); cbn [deref obind]; [|reflexivity].
      unfold exp_into. rewrite Eb. destruct (rc_bases pk (rc_c cm) (rhs_base r)); cbn [obind]; apply IH. }
    rewrite El. destruct (lhs_fold false n (rc_bases pk (rc_c cm)) (q_lhs st) 0 1); cbn [obind]; try reflexivity.
    destruct (go_exp _ ch n); cbn [deref obind]; [|reflexivity]. apply Er. }
  rewrite Ebases.
  unfold qr_from_proof. rewrite (qr_complete_easy false _ (rc_sec cm) (rc_rnd cm) _ ch (m_correct s) Hc Um (Hall _ (or_introl eq_refl)) Tm).
  fold (qr_from_secrets n (rc_bases pk (rc_c cm)) (rc_rnd cm) (m_correct s)).
  destruct (qr_from_secrets n (rc_bases pk (rc_c cm)) (rc_rnd cm) (m_correct s)) as [c0| |]; cbn [obind] in *; try discriminate.
  rewrite (omap_ext _ (fun i => qr_from_secrets n (rc_bases pk (rc_c cm)) (rc_rnd cm) (c_rep s i))).
  - exact Hcommit.
  - intros i Hi. rewrite Ebases. unfold qr_from_proof, qr_from_secrets. destruct (Hrep i Hi) as [Ui Ti].
    apply (qr_complete_easy false _ (rc_sec cm) (rc_rnd cm) _ ch (c_rep s i) Hc Ui); [|exact Ti].
    apply Hall. right. exists i. auto.
Qed.


(* ---- the statements hold for the committed secrets ---- *)

Lemma go_exp_pos b e : 0 <= e -> go_exp b e n = Some (powm n b e).
Proof. intros He. unfold go_exp. destruct (Z.ltb_spec e 0); [lia|]. now rewrite powx_powm by lia. Qed.

Lemma exp_into_pos bases prev name e b : bases name = Some b -> 0 <= e -> exp_into false n bases prev name e = Ok (powm n b e).
Proof. intros Hb He. unfold exp_into. rewrite Hb. now rewrite go_exp_pos. Qed.

Lemma unit_has_inverse x : is_unit x -> exists xi, go_modinverse x n = Some xi.
Proof. auto. Qed.

(* C_i = R^(d_i) * S^(v_i) *)
Lemma c_rep_true s cm i r di vi ci :
  pk_base pk (BR (rs_index s)) = Some r ->
  nthZ (rc_d cm) i = Some di -> nthZ (rc_v cm) i = Some vi -> nthZ (rc_c cm) i = Some ci ->
  0 <= di -> 0 <= vi -> ci = (powm n r di * powm n (pk_S pk) vi) mod n -> is_unit ci ->
  stmt_true false (rc_bases pk (rc_c cm)) (rc_sec cm) (c_rep s i).
Proof.
  intros Hr Hd Hv Hc Hdi Hvi Eci [cinv Hcinv].
  assert (Hbc : rc_bases pk (rc_c cm) (BC i) = Some ci) by (unfold rc_bases; cbn [pk_base]; exact Hc).
  assert (Hbr : rc_bases pk (rc_c cm) (BR (rs_index s)) = Some r) by (unfold rc_bases; now rewrite Hr).
  assert (Hbs : rc_bases pk (rc_c cm) BS = Some (pk_S pk)) by reflexivity.
  assert (Hci : 0 <= ci < n) by (subst ci; apply Z.mod_pos_bound; lia).
  exists ci, cinv. split; [|split; [exact Hcinv|]].
  - cbn [c_rep q_lhs lhs_fold]. rewrite (exp_into_pos _ 0 _ 1 ci Hbc ltac:(lia)). cbn [obind].
    unfold powm. rewrite Z.pow_1_r, Z.mul_1_l, Z.mod_mod by lia. now rewrite Z.mod_small by lia.
  - cbn [c_rep q_rhs rhs_fold rhs_secret rhs_base rhs_power rc_sec]. rewrite Hd. cbn [deref obind].
    rewrite (exp_into_pos _ 0 _ (1 * di) r Hbr ltac:(lia)). cbn [obind]. rewrite Hv. cbn [deref obind].
    rewrite (exp_into_pos _ _ _ (1 * vi) (pk_S pk) Hbs ltac:(lia)). cbn [obind].
    rewrite !Z.mul_1_l. rewrite Z.mul_mod_idemp_l by lia. rewrite (Z.mod_small ci n Hci). now rewrite Eci.
Qed.


(* the commitments C_i as CommitmentsFromSecrets computes them *)
Definition mk_cs (r : Z) (ds vs : list Z) : list Z :=
  map (fun dv => (powm n r (fst dv) * powm n (pk_S pk) (snd dv)) mod n) (combine ds vs).

Fixpoint sumsq (ds : list Z) : Z := match ds with [] => 0 | d :: r => d * d + sumsq r end.

Local Instance eqm_equiv_r : Equivalence (eqm n).
Proof. constructor; [intros a; apply eqm_refl|intros a b; apply eqm_sym|intros a b c; apply eqm_trans]. Qed.
Local Instance mul_eqm_r : Proper (eqm n ==> eqm n ==> eqm n) Z.mul.
Proof. unfold eqm. intros a b H c d H0. rewrite (Z.mul_mod a c), (Z.mul_mod b d) by lia. now rewrite H, H0. Qed.
Lemma eqm_mod_r x : eqm n (x mod n) x.
Proof. unfold eqm. apply Z.mod_mod. lia. Qed.
Lemma eq_eqm_r x y : x = y -> eqm n x y.
Proof. intros ->. reflexivity. Qed.
Lemma eqm_powm b e : eqm n (powm n b e) (b ^ e).
Proof. unfold powm. apply eqm_mod_r. Qed.

Lemma dot_nonneg : forall ds vs, Forall (fun d => 0 <= d) ds -> Forall (fun v => 0 <= v) vs -> 0 <= dot ds vs.
Proof.
  induction ds as [|d ds IH]; intros vs Hd Hv; cbn [dot]; [lia|].
  destruct vs as [|v vs]; [lia|]. inversion Hd; subst. inversion Hv; subst. specialize (IH vs H2 H4). nia.
Qed.

Lemma sumsq_nonneg ds : 0 <= sumsq ds.
Proof. induction ds; cbn; nia. Qed.

Lemma spw_nonneg' b bi e : 0 <= e -> spw n b bi e = powm n b e.
Proof. intros He. unfold spw. destruct (Z.ltb_spec e 0); [lia|reflexivity]. Qed.
Lemma eqm_mulm_r x y : eqm n (mulm n x y) (x * y).
Proof. unfold mulm. apply eqm_mod_r. Qed.

(* prod C_i^(d_i) = R^(sum d_i^2) * S^(sum d_i v_i) *)
Lemma c_product r : forall ds vs, length ds = length vs -> Forall (fun d => 0 <= d) ds -> Forall (fun v => 0 <= v) vs ->
  eqm n (fold_right (fun cd acc => powm n (fst cd) (snd cd) * acc) 1 (combine (mk_cs r ds vs) ds))
        (powm n r (sumsq ds) * powm n (pk_S pk) (dot ds vs)).
Proof.
  induction ds as [|d ds IH]; intros [|v vs] Hl Hd Hv; try discriminate.
  - cbn. rewrite !powm_0_r. rewrite !eqm_mod_r. reflexivity.
  - inversion Hl as [Hl']. inversion Hd as [|? ? Hd0 Hd']; subst. inversion Hv as [|? ? Hv0 Hv']; subst.
    cbn [mk_cs combine map fold_right fst snd sumsq dot].
    fold (mk_cs r ds vs). rewrite (IH vs Hl' Hd' Hv').
    pose proof (sumsq_nonneg ds) as Hs1. pose proof (dot_nonneg ds vs Hd' Hv') as Hs2.
    change ((powm n r d * powm n (pk_S pk) v) mod n) with (mulm n (powm n r d) (powm n (pk_S pk) v)).
    rewrite powm_mulm by lia. rewrite !powm_powm by lia. unfold mulm at 1. rewrite eqm_mod_r.
    rewrite !eqm_powm. rewrite !Z.pow_add_r by nia. rewrite (Z.mul_comm v d). apply eq_eqm_r. ring.
Qed.


Lemma rhs_fold_cterms bases sec (C d : Z -> Z) : forall (l : list Z) contrib acc,
  (forall i, In i l -> bases (BC i) = Some (C i) /\ sec (SD i) = Some (d i) /\ 0 <= d i) ->
  rhs_fold false n bases sec (map (fun i => mkRhs (BC i) (SD i) 1) l) contrib acc =
  Ok (fold_left (fun a i => (a * powm n (C i) (d i)) mod n) l acc).
Proof.
  induction l as [|i rest IH]; intros contrib acc H; cbn [map rhs_fold fold_left]; [reflexivity|].
  destruct (H i (or_introl eq_refl)) as (Hb & Hs & Hd). cbn [rhs_secret rhs_base rhs_power]. rewrite Hs. cbn [deref obind].
  rewrite (exp_into_pos _ _ _ (1 * d i) (C i) Hb ltac:(lia)). cbn [obind]. rewrite Z.mul_1_l.
  apply IH. intros j Hj. apply H. now right.
Qed.

Lemma fold_left_mul_eqm (xs : list Z) : forall acc,
  eqm n (fold_left (fun a x => (a * x) mod n) xs acc) (acc * fold_right Z.mul 1 xs).
Proof.
  induction xs as [|x r IH]; intros acc; cbn [fold_left fold_right].
  - apply eq_eqm_r. ring.
  - rewrite IH. rewrite eqm_mod_r. apply eq_eqm_r. ring.
Qed.

Lemma index_pairs (cs ds : list Z) k : length cs = k -> length ds = k ->
  map (fun i => (nth (Z.to_nat i) cs 0, nth (Z.to_nat i) ds 0)) (zrange (Z.of_nat k)) = combine cs ds.
Proof.
  intros Hc Hd. unfold zrange. rewrite Nat2Z.id, map_map.
  apply nth_ext with (d := (0, 0)) (d' := (0, 0)).
  - rewrite map_length, seq_length, combine_length. lia.
  - intros j Hj. rewrite map_length, seq_length in Hj.
    rewrite (nth_map_lt' _ _ j (0, 0) 0%nat) by (rewrite seq_length; lia).
    rewrite seq_nth by lia. cbn [Nat.add]. rewrite Nat2Z.id. rewrite combine_nth by lia. reflexivity.
Qed.

(* R^(-sign*k) = S^(-v5) * R^(mp*m) * prod C_i^(d_i)  when  sum d_i^2 + mp*m = -sign*k  and  v5 = sum d_i v_i *)
Lemma m_correct_true s cm r m :
  pk_base pk (BR (rs_index s)) = Some r -> is_unit r -> is_unit (pk_S pk) ->
  let ds := rc_d cm in let vs := rc_v cm in
  Z.of_nat (length ds) = rs_n s -> length ds = length vs ->
  Forall (fun d => 0 <= d) ds -> Forall (fun v => 0 <= v) vs ->
  rc_c cm = mk_cs r ds vs -> rc_v5 cm = dot ds vs -> rc_m cm = m ->
  sumsq ds + m_power (rs_a s) (rs_sign s) * m = (if rs_sign s =? 1 then - rs_k s else rs_k s) ->
  stmt_true false (rc_bases pk (rc_c cm)) (rc_sec cm) (m_correct s).
Proof.
  intros Hr Ur US ds vs Hk Hl Hd Hv Hcs Hv5 Hm Hrel.
  set (kk := if rs_sign s =? 1 then - rs_k s else rs_k s) in *.
  set (bases := rc_bases pk (rc_c cm)).
  assert (Hbr : bases (BR (rs_index s)) = Some r) by (unfold bases, rc_bases; now rewrite Hr).
  assert (Hbs : bases BS = Some (pk_S pk)) by reflexivity.
  pose proof (is_unit_inv r Ur) as Ir. pose proof (is_unit_inv _ US) as IS.
  set (ri := inv_of r) in *. set (si := inv_of (pk_S pk)) in *.
  assert (Hur : mulm n r ri = 1) by (apply (inverse_is_unit n); [exact Hn|exact Ir]).
  assert (Hus : mulm n (pk_S pk) si = 1) by (apply (inverse_is_unit n); [exact Hn|exact IS]).
  (* left-hand side *)
  assert (Hlhs : lhs_fold false n bases (q_lhs (m_correct s)) 0 1 = Ok (spw n r ri kk)).
  { cbn [m_correct q_lhs lhs_fold]. fold kk. rewrite (exp_into_unit false n bases 0 _ kk r ri Hn Hbr Ir). cbn [obind].
    rewrite Z.mul_1_l. f_equal. apply Z.mod_small. apply (spw_range n Hn). }
  assert (Ulhs : is_unit (spw n r ri kk)).
  { apply (go_modinverse_some_iff _ n ltac:(lia)). apply Z.bezout_1_gcd.
    assert (E : mulm n (spw n r ri kk) (spw n r ri (- kk)) = 1).
    { rewrite <- (spw_add n Hn r ri Hur). replace (kk + - kk) with 0 by lia. unfold spw. cbn. apply Z.mod_small. lia. }
    unfold mulm in E. pose proof (Z.div_mod (spw n r ri kk * spw n r ri (- kk)) n ltac:(lia)) as D. rewrite E in D.
    exists (spw n r ri (- kk)), (- (spw n r ri kk * spw n r ri (- kk) / n)). lia. }
  destruct Ulhs as [linv Hlinv].
  exists (spw n r ri kk), linv. split; [exact Hlhs|]. split; [exact Hlinv|].
  (* right-hand side *)
  cbn [m_correct q_rhs rhs_fold rhs_secret rhs_base rhs_power rc_sec]. cbn [deref obind].
  rewrite (exp_into_unit false n bases 0 _ (-1 * rc_v5 cm) (pk_S pk) si Hn Hbs IS). cbn [obind].
  rewrite (exp_into_unit false n bases _ _ (m_power (rs_a s) (rs_sign s) * rc_m cm) r ri Hn Hbr Ir). cbn [obind].
  set (k := length ds) in *.
  rewrite (rhs_fold_cterms bases (rc_sec cm) (fun i => nth (Z.to_nat i) (rc_c cm) 0) (fun i => nth (Z.to_nat i) ds 0)).
  2:{ intros i Hi. rewrite <- Hk in Hi. unfold zrange in Hi. apply in_map_iff in Hi as (j & <- & Hj). apply in_seq in Hj.
      assert (Lc : length (rc_c cm) = k).
      { rewrite Hcs. unfold mk_cs. rewrite map_length, combine_length. fold k. rewrite <- Hl. apply Nat.min_id. }
      split; [|split].
      - unfold bases, rc_bases. cbn [pk_base]. apply nthZ_range. lia.
      - cbn [rc_sec]. apply nthZ_range. fold ds k. lia.
      - rewrite Nat2Z.id. rewrite Forall_forall in Hd. apply Hd. apply nth_In. fold k. lia. }
  f_equal.
  (* both sides are reduced; compare modulo n *)
  set (T := fold_left _ (zrange (rs_n s)) _).
  assert (HT : 0 <= T < n).
  { unfold T. rewrite <- Hk. unfold zrange. rewrite Nat2Z.id.
    generalize (seq 0 k). intros l0.
    set (a0 := ((1 * spw n (pk_S pk) si (-1 * rc_v5 cm)) mod n * spw n r ri (m_power (rs_a s) (rs_sign s) * rc_m cm)) mod n).
    assert (Ha0 : 0 <= a0 < n) by (apply Z.mod_pos_bound; lia).
    clearbody a0. revert a0 Ha0. induction l0 as [|x l1 IH]; intros a0 Ha0; cbn [map fold_left]; [exact Ha0|].
    apply IH. apply Z.mod_pos_bound. lia. }
  rewrite <- (Z.mod_small T n HT). change (eqm n T (spw n r ri kk)).
  unfold T. rewrite <- Hk.
  (* fold over indices = fold over the pairs (C_i, d_i) *)
  rewrite <- (fold_left_map_q (fun a cd => (a * powm n (fst cd) (snd cd)) mod n)
                               (fun i => (nth (Z.to_nat i) (rc_c cm) 0, nth (Z.to_nat i) ds 0)) (zrange (Z.of_nat k))).
  rewrite (index_pairs (rc_c cm) ds k); [|rewrite Hcs; unfold mk_cs; rewrite map_length, combine_length; fold k; rewrite <- Hl; apply Nat.min_id|reflexivity].
  rewrite <- (fold_left_map_q (fun a x => (a * x) mod n) (fun cd => powm n (fst cd) (snd cd)) (combine (rc_c cm) ds)).
  rewrite fold_left_mul_eqm. rewrite !eqm_mod_r.
  assert (Hprod : eqm n (fold_right Z.mul 1 (map (fun cd => powm n (fst cd) (snd cd)) (combine (rc_c cm) ds)))
                        (powm n r (sumsq ds) * powm n (pk_S pk) (dot ds vs))).
  { rewrite Hcs. rewrite <- (c_product r ds vs Hl Hd Hv).
    apply eq_eqm_r. generalize (combine (mk_cs r ds vs) ds). intros l0. induction l0 as [|x l1 IH]; cbn; [reflexivity|]. now rewrite IH. }
  rewrite Hprod. rewrite Hv5, Hm.
  pose proof (sumsq_nonneg ds) as Hs1. pose proof (dot_nonneg ds vs Hd Hv) as Hs2.
  (* S^(-v5) * S^(v5) = 1,  R^(mp m) * R^(sum d^2) = R^kk *)
  assert (ES : eqm n (spw n (pk_S pk) si (-1 * dot ds vs) * powm n (pk_S pk) (dot ds vs)) 1).
  { rewrite <- (spw_nonneg' (pk_S pk) si (dot ds vs) Hs2). rewrite <- (eqm_mulm_r _ _).
    rewrite <- (spw_add n Hn _ _ Hus). replace (-1 * dot ds vs + dot ds vs) with 0 by lia.
    unfold spw. cbn. apply eqm_mod_r. }
  assert (ER : eqm n (spw n r ri (m_power (rs_a s) (rs_sign s) * m) * powm n r (sumsq ds)) (spw n r ri kk)).
  { rewrite <- (spw_nonneg' r ri (sumsq ds) Hs1). rewrite <- (eqm_mulm_r _ _).
    rewrite <- (spw_add n Hn _ _ Hur). apply eq_eqm_r. f_equal. unfold kk. lia. }
  replace (1 * spw n (pk_S pk) si (-1 * dot ds vs) * spw n r ri (m_power (rs_a s) (rs_sign s) * m) *
           (powm n r (sumsq ds) * powm n (pk_S pk) (dot ds vs)))
    with ((spw n (pk_S pk) si (-1 * dot ds vs) * powm n (pk_S pk) (dot ds vs)) *
          (spw n r ri (m_power (rs_a s) (rs_sign s) * m) * powm n r (sumsq ds))) by ring.
  rewrite ES, ER. apply eq_eqm_r. ring.
Qed.

(* ---- everything together: what CommitmentsFromSecrets commits to is what the verifier reconstructs ---- *)

Lemma is_unit_gcd x : is_unit x <-> Z.gcd x n = 1.
Proof. apply go_modinverse_some_iff. lia. Qed.

Lemma commitment_is_unit r d v : is_unit r -> is_unit (pk_S pk) -> 0 <= d -> 0 <= v ->
  is_unit ((powm n r d * powm n (pk_S pk) v) mod n).
Proof.
  intros Ur US Hd Hv. apply is_unit_gcd. apply is_unit_gcd in Ur, US.
  apply Zgcd_1_rel_prime. apply rel_prime_mod; [lia|].
  apply Zgcd_1_rel_prime in Ur, US.
  apply rel_prime_sym, rel_prime_mult; apply rel_prime_sym; unfold powm; apply rel_prime_mod; try lia;
    apply rel_prime_sym, Zpow_facts.rel_prime_Zpower_r; try assumption; now apply rel_prime_sym.
Qed.

Lemma m_power_small a sg : 0 <= a <= max_int64 -> (sg = 1 \/ sg = -1) -> m_power a sg = - a * sg.
Proof.
  intros Ha Hs. unfold m_power, i64, max_int64 in *.
  assert (E1 : (a + 9223372036854775808) mod 18446744073709551616 = a + 9223372036854775808) by (apply Z.mod_small; lia).
  rewrite E1. replace (a + 9223372036854775808 - 9223372036854775808) with a by lia.
  assert (E2 : (- a + 9223372036854775808) mod 18446744073709551616 = - a + 9223372036854775808) by (apply Z.mod_small; lia).
  rewrite E2. replace (- a + 9223372036854775808 - 9223372036854775808) with (- a) by lia.
  destruct Hs as [-> | ->].
  - change ((1 + 9223372036854775808) mod 18446744073709551616 - 9223372036854775808) with 1.
    rewrite Z.mul_1_r, E2. lia.
  - change ((-1 + 9223372036854775808) mod 18446744073709551616 - 9223372036854775808) with (-1).
    replace (- a * -1) with a by lia. rewrite E1. lia.
Qed.

Lemma delta_small s m : 0 <= rs_a s <= max_int64 -> (rs_sign s = 1 \/ rs_sign s = -1) ->
  delta s m = rs_sign s * (rs_a s * m - rs_k s).
Proof.
  intros Ha Hs. unfold delta, i64, max_int64 in *.
  rewrite (Z.mod_small (rs_a s + 9223372036854775808)) by lia. cbv zeta.
  destruct Hs as [E | E]; rewrite E; [change (1 =? -1) with false | change (-1 =? -1) with true]; cbv iota; lia.
Qed.

Theorem range_honest_complete_lem s m mr ds drs vs vrs v5r ch l cm r :
  0 <= ch -> 0 <= rs_a s <= max_int64 -> (rs_sign s = 1 \/ rs_sign s = -1) ->
  pk_base pk (BR (rs_index s)) = Some r -> is_unit r -> is_unit (pk_S pk) ->
  length ds = length drs -> length vs = length vrs -> length ds = length vs ->
  Forall (fun d => 0 <= d) ds -> Forall (fun v => 0 <= v) vs ->
  sumsq ds = delta s m ->                      (* the splitter's contract *)
  commitments_from_secrets pk s m mr ds drs vs vrs v5r = Ok (l, cm) ->
  commitments_from_proof pk s (build_proof s cm ch) ch = Ok l.
Proof.
  intros Hch Ha Hs Hr Ur US L1 L2 L3 Hd Hv Hsplit Hcs.
  unfold commitments_from_secrets in Hcs.
  destruct (delta s m <? 0); [discriminate|].
  destruct (Z.eqb_spec (Z.of_nat (length ds)) (rs_n s)) as [Hk|]; [|discriminate]. cbn [negb] in Hcs.
  destruct (forallb _ ds); [|discriminate]. cbn [negb] in Hcs.
  assert (HiR : index_R (pk_R pk) (rs_index s) = Ok r).
  { cbn [pk_base] in Hr. unfold index_R. destruct ((0 <=? rs_index s) && (rs_index s <? Z.of_nat (length (pk_R pk)))); [|discriminate].
    now inversion Hr. }
  rewrite HiR in Hcs. cbn [obind] in Hcs.
  set (cs := map (fun dv => (powx n r (fst dv) * powx n (pk_S pk) (snd dv)) mod n) (combine ds vs)) in *.
  set (c := mkRc ds drs vs vrs (dot ds vs) v5r m mr cs) in *.
  assert (Ecs : cs = mk_cs r ds vs).
  { unfold cs, mk_cs. apply map_ext. intros [d v]. cbn [fst snd]. now rewrite !powx_powm by lia. }
  assert (Hcm : cm = c).
  { destruct (qr_from_secrets n (rc_bases pk cs) (rc_rnd c) (m_correct s)); cbn [obind] in Hcs; try discriminate.
    destruct (omap _ (zrange (rs_n s))); cbn [obind] in Hcs; try discriminate. now inversion Hcs. }
  assert (Hl : (let! c0 := qr_from_secrets n (rc_bases pk (rc_c c)) (rc_rnd c) (m_correct s) in
                let! rest := omap (fun i => qr_from_secrets n (rc_bases pk (rc_c c)) (rc_rnd c) (c_rep s i)) (zrange (rs_n s)) in
                Ok (c0 :: rest)) = Ok l).
  { cbn [rc_c c]. destruct (qr_from_secrets n (rc_bases pk cs) (rc_rnd c) (m_correct s)); cbn [obind] in *; try discriminate.
    destruct (omap _ (zrange (rs_n s))); cbn [obind] in *; try discriminate. now inversion Hcs. }
  subst cm.
  assert (Lc : length cs = length ds).
  { unfold cs. rewrite map_length, combine_length. rewrite <- L3. apply Nat.min_id. }
  assert (Ucs : forall i, 0 <= i < Z.of_nat (length ds) -> exists ci, nthZ cs i = Some ci /\ is_unit ci /\
            ci = (powm n r (nth (Z.to_nat i) ds 0) * powm n (pk_S pk) (nth (Z.to_nat i) vs 0)) mod n).
  { intros i Hi. exists (nth (Z.to_nat i) cs 0). split; [apply nthZ_range; lia|].
    assert (E : nth (Z.to_nat i) cs 0 = (powm n r (nth (Z.to_nat i) ds 0) * powm n (pk_S pk) (nth (Z.to_nat i) vs 0)) mod n).
    { rewrite Ecs. unfold mk_cs. rewrite (nth_map_lt' _ _ _ 0 (0, 0)) by (rewrite combine_length; lia).
      rewrite combine_nth by exact L3. reflexivity. }
    split; [|exact E]. rewrite E. apply commitment_is_unit; try assumption.
    - rewrite Forall_forall in Hd. apply Hd, nth_In. lia.
    - rewrite Forall_forall in Hv. apply Hv, nth_In. lia. }
  assert (Hbr : rc_bases pk cs (BR (rs_index s)) = Some r) by (unfold rc_bases; now rewrite Hr).
  assert (Hbs : rc_bases pk cs BS = Some (pk_S pk)) by reflexivity.
  apply (range_complete_lem s c ch l Hch); cbn [rc_d rc_dr rc_v rc_vr rc_c c]; try assumption; try lia.
  - (* units of m_correct *)
    intros t Ht. cbn [m_correct q_rhs] in Ht. destruct Ht as [<-|[<-|Ht]]; cbn [rhs_base].
    + destruct US as [i Hi]. eauto.
    + destruct Ur as [i Hi]. eauto.
    + apply in_map_iff in Ht as (i & <- & Hi). cbn [rhs_base].
      unfold zrange in Hi. apply in_map_iff in Hi as (j & <- & Hj). apply in_seq in Hj.
      destruct (Ucs (Z.of_nat j) ltac:(lia)) as (ci & Hci & [cinv Hcinv] & _).
      exists ci, cinv. split; [|exact Hcinv]. unfold rc_bases. cbn [pk_base]. exact Hci.
  - (* m_correct holds *)
    apply (m_correct_true s c r m Hr Ur US); cbn [rc_d rc_v rc_c rc_v5 rc_m c]; try assumption; try reflexivity; try lia.
    rewrite Hsplit, (delta_small s m Ha Hs), (m_power_small _ _ Ha Hs).
    destruct Hs as [E | E]; rewrite E; [change (1 =? 1) with true | change (-1 =? 1) with false]; cbv iota; lia.
  - intros i Hi. unfold zrange in Hi. apply in_map_iff in Hi as (j & <- & Hj). apply in_seq in Hj.
    destruct (Ucs (Z.of_nat j) ltac:(lia)) as (ci & Hci & Uci & Eci).
    split.
    + intros t Ht. cbn [c_rep q_rhs] in Ht. destruct Ht as [<-|[<-|[]]]; cbn [rhs_base].
      * destruct Ur as [x Hx]. eauto.
      * destruct US as [x Hx]. eauto.
    + apply (c_rep_true s c (Z.of_nat j) r (nth (Z.to_nat (Z.of_nat j)) ds 0) (nth (Z.to_nat (Z.of_nat j)) vs 0) ci Hr);
        cbn [rc_d rc_v rc_c c]; try assumption.
      * apply nthZ_range. lia.
      * apply nthZ_range. lia.
      * rewrite Forall_forall in Hd. apply Hd, nth_In. lia.
      * rewrite Forall_forall in Hv. apply Hv, nth_In. lia.
Qed.

End Range.

(* the hypotheses are satisfiable: toy key N = 7 * 11, S = 9, R_1 = 4; statement m >= 3 on m = 33, 30 = 25 + 4 + 1 + 0 *)
Example range_complete_nonvacuous :
  let pk := mkPk 77 4 9 (Some 4) (Some 9) [16; 4] params_1024 0 true in
  let s := mkRs 1 1 1 3 128 4 in
  is_unit pk 4 /\ is_unit pk 9 /\ sumsq [5; 2; 1; 0] = delta s 33 /\
  exists l cm, commitments_from_secrets pk s 33 7 [5; 2; 1; 0] [11; 12; 13; 14] [3; 1; 4; 1] [5; 6; 7; 8] 9 = Ok (l, cm) /\
               commitments_from_proof pk s (build_proof s cm 10) 10 = Ok l.
Proof.
  cbv zeta. split; [eexists; vm_compute; reflexivity|]. split; [eexists; vm_compute; reflexivity|].
  split; [vm_compute; reflexivity|]. eexists; eexists. split; vm_compute; reflexivity.
Qed.
