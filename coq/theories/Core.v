(* proofs.go / prooflist.go : ProofD, ProofU, ProofS and ProofList verification.
   Every pointer of a decoded message may be nil (option), every map key arbitrary. *)
From Coq Require Import ZArith List Lia Bool.
From Gabi Require Import Val ModArith GoSem ParamsDef ZkProof Keys Bytes Sha256 HashTool RangeProof NonRev.
From GabiGen Require Import Consts.
Import ListNotations.
Open Scope Z_scope.

Record proofD := mkPd {
  pd_C : option Z; pd_A : option Z; pd_E : option Z; pd_V : option Z;
  pd_AResp : list (Z * option Z);
  pd_ADisc : list (Z * option Z);
  pd_nr : option nrproof;
  pd_rp : list (Z * list (option rproof))
}.

Record proofU := mkPu {
  pu_U : option Z; pu_C : option Z; pu_VPrime : option Z; pu_S : option Z;
  pu_MUser : list (Z * option Z)
}.

Inductive proof := PD (p : proofD) | PU (p : proofU).

(* ----------------------------------------------------------------------------------- *)
(* ProofD *)

Definition in_range_R (pk : pubkey) (lo i : Z) : bool := (lo <=? i) && (i <? Z.of_nat (length (pk_R pk))).

Definition has_key {A} (m : list (Z * A)) (k : Z) : bool := existsb (fun kv => fst kv =? k) m.

(* proofs.go ProofD.validate *)
Definition proofD_validate (pk : pubkey) (p : proofD) : bool :=
  is_some (pd_C p) && is_some (pd_A p) && is_some (pd_E p) && is_some (pd_V p) &&
  is_some (lookup_ptr (pd_AResp p) 0) &&
  forallb (fun kv => is_some (snd kv) && in_range_R pk 0 (fst kv)) (pd_AResp p) &&
  forallb (fun kv => is_some (snd kv) && in_range_R pk 1 (fst kv) && negb (has_key (pd_AResp p) (fst kv)))
          (pd_ADisc p) &&
  forallb (fun kv => is_some (lookup_ptr (pd_AResp p) (fst kv)) && forallb is_some (snd kv)) (pd_rp p).

(* proofs.go:199 reconstructZ — the disclosed part of the numerator *)
Fixpoint disclosed_product (pk : pubkey) (l : list (Z * option Z)) (acc : Z) : outcome Z :=
  match l with
  | [] => Ok acc
  | (i, a) :: r =>
    let! attribute := deref a in
    let e := attr_exp (Lm (pk_params pk)) attribute in
    let! base := index_R (pk_R pk) i in
    let! t := deref (go_exp base e (pk_N pk)) in
    disclosed_product pk r ((acc * t) mod pk_N pk)
  end.

Fixpoint responses_product (pk : pubkey) (l : list (Z * option Z)) (acc : Z) : outcome Z :=
  match l with
  | [] => Ok acc
  | (i, resp) :: r =>
    let! base := index_R (pk_R pk) i in
    let! x := deref resp in
    let! t := or_err (go_modpow base x (pk_N pk)) in
    responses_product pk r ((acc * t) mod pk_N pk)
  end.

Definition reconstruct_z (pk : pubkey) (p : proofD) : outcome Z :=
  let n := pk_N pk in
  let! a := deref (pd_A p) in
  let num0 := powx n a (2 ^ (Le (pk_params pk) - 1)) in
  let! num := disclosed_product pk (pd_ADisc p) num0 in
  let! known0 := or_err (go_modinverse num n) in
  let known := pk_Z pk * known0 in
  let! c := deref (pd_C p) in
  let! knownC := or_err (go_modpow known (- c) n) in
  let! e := deref (pd_E p) in
  let! ae := or_err (go_modpow a e n) in
  let! v := deref (pd_V p) in
  let! sv := or_err (go_modpow (pk_S pk) v n) in
  let! rs := responses_product pk (pd_AResp p) 1 in
  Ok ((knownC * ae * rs * sv) mod n).

(* proofs.go:365 revocationAttrIndex: every hidden response below 2^(195+256+128+1) is a
   candidate; Go returns the first one in (random) map order *)
Definition rev_max : Z := 2 ^ (rev_attribute_size + rev_challenge_length + rev_zkstat + 1).

Fixpoint rev_candidates (l : list (Z * option Z)) : outcome (list Z) :=
  match l with
  | [] => Ok []
  | (i, r) :: rest =>
    let! x := deref r in
    let! c := rev_candidates rest in
    Ok (if x <? rev_max then i :: c else c)
  end.

(* [choice] resolves the map-order nondeterminism: index into the candidate list *)
Definition rev_index (p : proofD) (choice : nat) : outcome Z :=
  let! c := rev_candidates (pd_AResp p) in
  match c with
  | [] => Ok (-1)
  | _ => Ok (nth (Nat.modulo choice (length c)) c (-1))
  end.

(* proofs.go:163 reconstructRangeProofStructures *)
Definition extract_all (pk : pubkey) (rps : list (Z * list (option rproof)))
  : outcome (list (Z * list (rstruct * rproof))) :=
  omap (fun ip =>
          let! l := omap (fun o => let! p := deref o in
                                   let! s := extract_structure (pk_params pk) (fst ip) p in
                                   Ok (s, p)) (snd ip) in
          Ok (fst ip, l)) rps.

Definition max_key (l : list (Z * option Z)) : Z := fold_left (fun m kv => Z.max m (fst kv)) l 0.

(* range part of proofs.go:314 ChallengeContribution, for one attribute index *)
Definition range_contrib_index (pk : pubkey) (p : proofD) (c : option Z)
           (l : list (rstruct * rproof)) (index : Z) : outcome (list Z) :=
  let! ls := omap (fun sp =>
                     let! m := deref (lookup_ptr (pd_AResp p) index) in   (* Set(nil) panics *)
                     let rp := mkRp (rp_Cs (snd sp)) (rp_Ds (snd sp)) (rp_Vs (snd sp)) (rp_V5 (snd sp))
                                    (Some m) (rp_Ld (snd sp)) (rp_Sign (snd sp)) (rp_A (snd sp)) (rp_K (snd sp)) in
                     if negb (verify_proof_structure pk (fst sp) rp) then Err
                     else let! ch := deref c in commitments_from_proof pk (fst sp) rp ch) l in
  Ok (concat ls).

Fixpoint range_contrib (pk : pubkey) (p : proofD) (structs : list (Z * list (rstruct * rproof)))
         (idxs : list Z) : outcome (list Z) :=
  match idxs with
  | [] => Ok []
  | i :: r =>
    match lookup structs i with
    | None => range_contrib pk p structs r
    | Some l =>
      let! a := range_contrib_index pk p (pd_C p) l i in
      let! b := range_contrib pk p structs r in
      Ok (a ++ b)
    end
  end.

Fixpoint all_some (l : list (option Z)) : outcome (list Z) :=
  match l with
  | [] => Ok []
  | Some x :: r => let! t := all_some r in Ok (x :: t)
  | None :: _ => Panic
  end.

(* proofs.go:314 ChallengeContribution; returns the contributions and the proof with the
   fields SetExpected wrote *)
Definition proofD_contrib (pk : pubkey) (p : proofD) (choice : nat) : outcome (list Z * proofD) :=
  if negb (proofD_validate pk p) then Err else
  let! z := reconstruct_z pk p in
  let! a := deref (pd_A p) in
  let! (l1, p1) :=
    match pd_nr p with
    | None => Ok ([], p)
    | Some nr =>
      let! idx := rev_index p choice in
      if idx <? 0 then Err
      else match lookup_ptr (pd_AResp p) idx with
           | None => Err
           | Some resp =>
             let! nr' := set_expected pk nr (pd_C p) (Some resp) in
             let! cs := nr_challenge_contributions pk nr' in
             let! cs' := all_some cs in
             Ok (cs', mkPd (pd_C p) (pd_A p) (pd_E p) (pd_V p) (pd_AResp p) (pd_ADisc p) (Some nr') (pd_rp p))
           end
    end in
  let! l2 :=
    match pd_rp p with
    | [] => Ok []
    | _ =>
      let! structs := extract_all pk (pd_rp p) in
      range_contrib pk p structs (zrange (max_key (pd_AResp p) + 1))
    end in
  Ok (a :: z :: l1 ++ l2, p1).

(* proofs.go:183 correctResponseSizes *)
Fixpoint responses_in_range (l : list (Z * option Z)) (maximum : Z) : outcome bool :=
  match l with
  | [] => Ok true
  | (_, r) :: rest =>
    let! x := deref r in
    if (x <? 0) || (maximum <? x) then Ok false else responses_in_range rest maximum
  end.

Definition proofD_sizes (pk : pubkey) (p : proofD) : outcome bool :=
  let ps := pk_params pk in
  let! ok := responses_in_range (pd_AResp p) (2 ^ (LmCommit ps + 1) - 1) in
  if negb ok then Ok false
  else let! e := deref (pd_E p) in
       Ok ((0 <=? e) && (e <=? 2 ^ (LeCommit ps + 1) - 1)).

(* proofs.go:288 VerifyWithChallenge *)
Definition proofD_verify_wc (pk : pubkey) (p : proofD) (rc : Z) (choice : nat) : outcome bool :=
  if negb (proofD_validate pk p) then Ok false else
  let! notrevoked :=
    match pd_nr p with
    | None => Ok true
    | Some nr =>
      let! idx := rev_index p choice in
      if idx <? 0 then Ok false
      else match lookup_ptr (pd_AResp p) idx with
           | None => Ok false
           | Some resp =>
             let! v := nr_verify_with_challenge nr rc in
             if negb v then Ok false
             else let! alpha := deref (nr_result nr Salpha) in Ok (alpha =? resp)
           end
    end in
  if negb notrevoked then Ok false
  else
    let! sz := proofD_sizes pk p in
    if negb sz then Ok false
    else let! c := deref (pd_C p) in Ok (c =? rc).

(* proofs.go:276 ProofD.Verify *)
Definition proofD_verify (pk : pubkey) (p : proofD) (ctx nonce : Z) (issig : bool) (ch1 ch2 : nat)
  : outcome bool :=
  match proofD_contrib pk p ch1 with
  | Err => Ok false
  | Panic => Panic
  | Ok (contrib, p') => proofD_verify_wc pk p' (create_challenge ctx nonce contrib issig) ch2
  end.

(* ----------------------------------------------------------------------------------- *)
(* ProofU *)

(* proofs.go:86 reconstructUcommit *)
Definition reconstruct_ucommit (pk : pubkey) (p : proofU) : outcome Z :=
  let n := pk_N pk in
  let! c := deref (pu_C p) in
  let! u := deref (pu_U p) in
  let! uc := or_err (go_modpow u (- c) n) in
  let! vp := deref (pu_VPrime p) in
  let! sv := or_err (go_modpow (pk_S pk) vp n) in
  let! r0 := index_R (pk_R pk) 0 in
  let! s := deref (pu_S p) in
  let! r0s := or_err (go_modpow r0 s n) in
  responses_product pk (pu_MUser p) ((uc * sv * r0s) mod n).

(* proofs.go ProofU.validate *)
Definition proofU_validate (pk : pubkey) (p : proofU) : bool :=
  is_some (pu_U p) && is_some (pu_C p) && is_some (pu_VPrime p) && is_some (pu_S p) &&
  forallb (fun kv => is_some (snd kv) && in_range_R pk 1 (fst kv)) (pu_MUser p).

Definition proofU_contrib (pk : pubkey) (p : proofU) : outcome (list Z) :=
  if negb (proofU_validate pk p) then Err else
  let! uc := reconstruct_ucommit pk p in
  let! u := deref (pu_U p) in
  Ok [u; uc].

(* proofs.go:70 correctResponseSizes + :79 VerifyWithChallenge *)
Definition proofU_verify_wc (pk : pubkey) (p : proofU) (rc : Z) : outcome bool :=
  if negb (proofU_validate pk p) then Ok false else
  let! vp := deref (pu_VPrime p) in
  if negb ((0 <=? vp) && (vp <=? 2 ^ (LvPrimeCommit (pk_params pk) + 1) - 1)) then Ok false
  else let! c := deref (pu_C p) in Ok (c =? rc).

Definition proofU_verify (pk : pubkey) (p : proofU) (ctx nonce : Z) : outcome bool :=
  match proofU_contrib pk p with
  | Err => Ok false
  | Panic => Panic
  | Ok contrib => proofU_verify_wc pk p (create_challenge ctx nonce contrib false)
  end.

(* ----------------------------------------------------------------------------------- *)
(* ProofS : proofs.go:140 *)

Record clsig := mkSig { sig_A : option Z; sig_E : option Z; sig_V : option Z; sig_KP : option Z }.
Record proofS := mkPs { ps_C : option Z; ps_E : option Z }.

Definition neg_opt (o : option Z) : bool := match o with Some x => x <? 0 | None => false end.

(* [sg = None] : nil *CLSignature *)
Definition proofS_verify_opt (pk : pubkey) (p : proofS) (sg : option clsig) (ctx nonce : Z) : outcome bool :=
  match sg with
  | None => Ok false
  | Some sg =>
  if negb (is_some (ps_C p) && is_some (ps_E p) && is_some (sig_A sg) && is_some (sig_E sg)) then Ok false
  else if neg_opt (ps_C p) || neg_opt (ps_E p) || neg_opt (sig_E sg) then Ok false
  else
  let n := pk_N pk in
  let! er := deref (ps_E p) in
  let! e := deref (sig_E sg) in
  let! c := deref (ps_C p) in
  let exponent := c + er * e in
  let! a := deref (sig_A sg) in
  let! acommit := deref (go_exp a exponent n) in
  let! q := deref (go_exp a e n) in
  Ok (c =? hash_commit false [ctx; q; a; nonce; acommit])
  end.

Definition proofS_verify_unchecked (pk : pubkey) (p : proofS) (sg : clsig) (ctx nonce : Z) : outcome bool :=
  let n := pk_N pk in
  let! er := deref (ps_E p) in
  let! e := deref (sig_E sg) in
  let! c := deref (ps_C p) in
  let exponent := c + er * e in
  let! a := deref (sig_A sg) in
  let! acommit := deref (go_exp a exponent n) in
  let! q := deref (go_exp a e n) in
  Ok (c =? hash_commit false [ctx; q; a; nonce; acommit]).

Definition proofS_verify (pk : pubkey) (p : proofS) (sg : clsig) (ctx nonce : Z) : outcome bool :=
  proofS_verify_opt pk p (Some sg) ctx nonce.

(* ----------------------------------------------------------------------------------- *)
(* ProofList : prooflist.go *)

Definition proof_contrib (pk : pubkey) (pr : proof) (choice : nat) : outcome (list Z * proof) :=
  match pr with
  | PD p => let! (l, p') := proofD_contrib pk p choice in Ok (l, PD p')
  | PU p => let! l := proofU_contrib pk p in Ok (l, PU p)
  end.

Definition proof_verify_wc (pk : pubkey) (pr : proof) (rc : Z) (choice : nat) : outcome bool :=
  match pr with
  | PD p => proofD_verify_wc pk p rc choice
  | PU p => proofU_verify_wc pk p rc
  end.

Definition secret_key_response (pr : proof) : option Z :=
  match pr with
  | PD p => lookup_ptr (pd_AResp p) 0
  | PU p => pu_S p
  end.

(* prooflist.go:55 challengeContributions (publicKeys[i] indexed like the proofs) *)
Fixpoint list_contribs (pks : list pubkey) (pl : list proof) (ch : nat) : outcome (list Z * list proof) :=
  match pl, pks with
  | [], _ => Ok ([], [])
  | pr :: r, pk :: pks' =>
    let! (l, pr') := proof_contrib pk pr ch in
    let! (ls, prs) := list_contribs pks' r ch in
    Ok (l ++ ls, pr' :: prs)
  | _ :: _, [] => Panic
  end.

(* the loop of prooflist.go:100 ; [seen] maps label -> first secret-key response *)
Fixpoint list_verify_loop (pks : list pubkey) (pl : list proof) (labels : list Z) (use_labels : bool)
         (rc : Z) (ch : nat) (seen : list (Z * option Z)) : outcome bool :=
  match pl, pks with
  | [], _ => Ok true
  | pr :: r, pk :: pks' =>
    let! ok := proof_verify_wc pk pr rc ch in
    if negb ok then Ok false
    else
      let kss := if use_labels then hd 0 labels else 0 in
      match lookup seen kss with
      | None => list_verify_loop pks' r (tl labels) use_labels rc ch ((kss, secret_key_response pr) :: seen)
      | Some first =>
        (* response.Cmp(proof.SecretKeyResponse()) : either side nil panics *)
        let! a := deref first in
        let! b := deref (secret_key_response pr) in
        if negb (a =? b) then Ok false
        else list_verify_loop pks' r (tl labels) use_labels rc ch seen
      end
  | _ :: _, [] => Panic
  end.

(* prooflist.go:79 ProofList.Verify ; labels = keyshareServers mapped to integers *)
Definition prooflist_verify (pks : list pubkey) (ctx nonce : Z) (issig : bool) (labels : list Z)
           (pl : list proof) (ch1 ch2 : nat) : outcome bool :=
  if (length pl =? 0)%nat || negb (length pl =? length pks)%nat ||
     ((0 <? length labels)%nat && negb (length pl =? length labels)%nat)
  then Ok false
  else
    match list_contribs pks pl ch1 with
    | Err => Ok false
    | Panic => Panic
    | Ok (contribs, pl') =>
      list_verify_loop pks pl' labels (0 <? length labels)%nat
                       (create_challenge ctx nonce contribs issig) ch2 []
    end.

(* ----------------------------------------------------------------------------------- *)
(* wire decoding *)

Definition as_rplist (v : val) : option (list (option rproof)) :=
  match v with
  | VL l => map_opt (fun x => match x with VN => Some None
                                       | _ => match as_rproof x with Some p => Some (Some p) | None => None end end) l
  | _ => None
  end.

Definition as_proofD (v : val) : option proofD :=
  match v with
  | VL [c; a; e; vr; ar; ad; nr; rp] =>
    do c <- as_oZ c; do a <- as_oZ a; do e <- as_oZ e; do vr <- as_oZ vr;
    do ar <- as_map as_oZ ar; do ad <- as_map as_oZ ad;
    do nr <- (match nr with VN => Some None | _ => match as_nrproof nr with Some x => Some (Some x) | None => None end end);
    do rp <- as_map as_rplist rp;
    Some (mkPd c a e vr ar ad nr rp)
  | _ => None
  end.

Definition as_proofU (v : val) : option proofU :=
  match v with
  | VL [u; c; vp; s; mu] =>
    do u <- as_oZ u; do c <- as_oZ c; do vp <- as_oZ vp; do s <- as_oZ s; do mu <- as_map as_oZ mu;
    Some (mkPu u c vp s mu)
  | _ => None
  end.

(* (0 proofD) | (1 proofU) *)
Definition as_proof (v : val) : option proof :=
  match v with
  | VL [VZ 0; p] => do p <- as_proofD p; Some (PD p)
  | VL [VZ 1; p] => do p <- as_proofU p; Some (PU p)
  | _ => None
  end.

Definition as_sig (v : val) : option clsig :=
  match v with
  | VL [a; e; vv; kp] => do a <- as_oZ a; do e <- as_oZ e; do vv <- as_oZ vv; do kp <- as_oZ kp;
                         Some (mkSig a e vv kp)
  | _ => None
  end.

Definition as_proofS (v : val) : option proofS :=
  match v with
  | VL [c; e] => do c <- as_oZ c; do e <- as_oZ e; Some (mkPs c e)
  | _ => None
  end.

Definition of_obool (o : outcome bool) : val := of_outcome of_bool o.
